#!/bin/bash
# usage: tools/regress_refactors.sh [refactor dirs...]   (default: every directory under refactors/)
# Negative controls: applies each behaviour-preserving refactoring to /repo, runs all 20 quick checks
# (each with its build steps, so that the translator and the proofs are re-run against the changed source),
# undoes the patch, and prints one line per refactoring:
#   <name> quiet | ALARM <property ids>
set -u
cd /verif
trap 'git -C /repo checkout -- . ; git -C /repo clean -fdq src' EXIT
if [ -n "$(git -C /repo status --porcelain)" ]; then echo "/repo is not clean"; exit 2; fi
DIRS=("$@")
if [ ${#DIRS[@]} -eq 0 ]; then DIRS=(refactors/*/); fi
for d in "${DIRS[@]}"; do
  d=$(realpath ${d%/})
  name=$(basename $d)
  git -C /repo apply $d/patch.diff || { echo "$name PATCH-DOES-NOT-APPLY"; continue; }
  bad=""
  for p in C14 C01 C02 C03 C04 C05 C06 C07 C08 C09 C10 C11 C12 C13 C15 C16 C17 C18 C19 C20; do
    ./check $p --tier quick > /tmp/regress_ref.out 2>&1; rc=$?
    if [ $rc != 0 ] || grep -q VIOLATION /tmp/regress_ref.out; then bad="$bad $p"; fi
  done
  git -C /repo checkout -- . ; git -C /repo clean -fdq src
  if [ -z "$bad" ]; then echo "$name quiet"; else echo "$name ALARM$bad"; fi
done
rm -f /tmp/regress_ref.out
./check C14 --tier quick > /dev/null 2>&1
