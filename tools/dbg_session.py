#!/usr/bin/env python3
"""development aid: run one generated session on the Rust harness (current build) and print ops, outputs and
oracle failures.  usage: dbg_session.py <pid> <suite> <session name> [tier] [seed] [from op]"""
import random
import sys
import os
sys.path.insert(0, os.path.dirname(os.path.abspath(__file__)))
import suites, suites2, oracles, runner

def main():
    pid, suite, name = sys.argv[1], sys.argv[2], sys.argv[3]
    tier = sys.argv[4] if len(sys.argv) > 4 else "quick"
    seed = int(sys.argv[5]) if len(sys.argv) > 5 else 1
    frm = int(sys.argv[6]) if len(sys.argv) > 6 else 0
    import re
    src = open(os.path.join(os.path.dirname(os.path.dirname(os.path.abspath(__file__))), "check")).read()
    order = re.search(r'"%s": dict\(suites=\[([^\]]*)\]' % pid, src).group(1).replace('"', "").replace(" ", "").split(",")
    rng0 = random.Random(seed)
    sess = []
    for sn in order:
        r = random.Random(rng0.randrange(1 << 62))
        if sn == suite:
            fn = getattr(suites, "suite_" + suite, None) or getattr(suites2, "suite_" + suite)
            sess = [s for s in fn(r, tier) if s.name == name]
    if not sess:
        print("no such session (is the rng derivation the same as in ./check?)")
        return
    run = runner.SuiteRun(sess, sides=("rust",), tag="dbg")
    outs = run.outs(0)
    fails = oracles.analyse(sess[0], outs, strict_lockstep=getattr(sess[0], "strict", True))
    for i, (op, o) in enumerate(zip(sess[0].ops, outs)):
        if i >= frm:
            print(i, op["line"][:170])
            print("      ", o.raw[:260])
    for f in fails:
        print("FAIL", f)

main()
