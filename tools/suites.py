"""Operation-sequence generators (DESIGN.md §4).  A suite is a list of Sessions; a Session is a
list of ops, each a dict with the text `line` sent to both drivers plus the structured fields the
oracles need.  Every random choice comes from the `random.Random` passed in (seeded by VERIF_SEED),
so a session's ops file is its own replay."""
import itertools
from gselib import *

BND = sorted(set(list(range(0, 17)) + list(range(4080, 4101)) + list(range(65520, 65541)) + [70000]))
BND_SMALL = sorted(set(list(range(0, 17)) + [20, 31, 64, 100, 255, 256, 1000, 4080, 4085, 4088, 4089, 4090, 4091,
                                             4092, 4093, 4094, 4095, 4096, 4097, 4098, 4099, 4100, 4200, 5000]))
PTS = [0x0000, 0x0081, 0x00FF, 0x0100, 0x05FF, 0x0600, 0x0800, 0xFFFF]
LBL_A6 = Label("6", b"abcdef")
LBL_B6 = Label("6", b"ABCDEF")
LBL_A3 = Label("3", b"xyz")
LBL_B3 = Label("3", b"XYZ")
LBL_Z6 = Label("6", bytes(6))
LBL_Z3 = Label("3", bytes(3))
LBL_BC = Label("B")
LBL_RU = Label("U")
LABELS = [LBL_A6, LBL_B6, LBL_A3, LBL_B3, LBL_BC, LBL_RU]
# labels that differ from LBL_A6 / LBL_A3 in a single byte, share a prefix with them, or are nearly zero
LBL_A6_LAST = Label("6", b"abcdeg")
LBL_6_ONES = Label("6", b"\xff" * 6)
LBL_3_ONES = Label("3", b"\xff" * 3)
LBL_A6_FIRST = Label("6", b"bbcdef")
LBL_6_NEARZERO = Label("6", bytes(5) + b"\x01")
LBL_6_ZEROTAIL = Label("6", b"\x01" + bytes(5))
LBL_A3_LAST = Label("3", b"xyy")
LBL_3_ABC = Label("3", b"abc")          # prefix of LBL_A6
LBL_3_NEARZERO = Label("3", b"\x00\x00\x01")
TRICKY_LABELS = [LBL_A6_LAST, LBL_A6_FIRST, LBL_6_NEARZERO, LBL_6_ZEROTAIL, LBL_A3_LAST, LBL_3_ABC, LBL_Z3, LBL_3_NEARZERO, LBL_6_ONES, LBL_3_ONES]


class Session:
    def __init__(self, name):
        self.name = name
        self.ops = []
        self.nreg = 0

    def add(self, line, **tags):
        tags["line"] = line
        self.ops.append(tags)
        return len(self.ops) - 1

    def reg(self):
        self.nreg += 1
        return self.nreg

    # ---- op constructors
    def hdr_gen(self, k, lt, ln):
        return self.add("hdr_gen %d %d %d" % (k, lt, ln), op="hdr_gen", k=k, lt=lt, len=ln)

    def hdr_read(self, w):
        return self.add("hdr_read %d" % w, op="hdr_read", w=w)

    def crc(self, pdu, pt, tl, label):
        return self.add("crc %s %d %d %s" % (pdu.expr, pt, tl, label.expr), op="crc", pdu=pdu, pt=pt, tl=tl, label=label)

    def ext_new(self, i, data):
        return self.add("ext_new %04x %s" % (i, data.expr), op="ext_new", id=i, data=data)

    def enc(self, what, n=None):
        line = "enc_" + what + ("" if n is None else " %d" % n)
        return self.add(line, op="enc_" + what, n=n)

    def encap(self, pdu, fid, pt, label, buf, reg=None, exts=None):
        reg = self.reg() if reg is None else reg
        if exts is None:
            line = "encap %s %d %04x %s %s %d" % (pdu.expr, fid, pt, label.tok(), buf.expr, reg)
            return self.add(line, op="encap", pdu=pdu, fid=fid, pt=pt, label=label, buf=buf, reg=reg, exts=None)
        et = ",".join("%04x:%s" % (i, hexs(d)) for i, d in exts) if exts else "-"
        line = "encap_ext %s %d %04x %s %s %d %s" % (pdu.expr, fid, pt, label.tok(), buf.expr, reg, et)
        return self.add(line, op="encap_ext", pdu=pdu, fid=fid, pt=pt, label=label, buf=buf, reg=reg, exts=list(exts))

    def encap_frag(self, pdu, ctx, buf, reg=None, cout=None):
        reg = self.reg() if reg is None else reg
        cout = reg if cout is None else cout
        ct = "k:%d" % ctx if isinstance(ctx, int) else "c:%d:%08x:%d" % ctx
        return self.add("encap_frag %s %s %s %d %d" % (pdu.expr, ct, buf.expr, reg, cout), op="encap_frag", pdu=pdu,
                        ctx=ctx, buf=buf, reg=reg, cout=cout)

    def preview(self, pdu, pt, label, buflen):
        return self.add("preview %s %04x %s %d" % (pdu.expr, pt, label.tok(), buflen), op="preview", pdu=pdu, pt=pt, label=label, buflen=buflen)

    def frag_preview(self, pdu, ctx, buflen):
        ct = "k:%d" % ctx if isinstance(ctx, int) else "c:%d:%08x:%d" % ctx
        return self.add("frag_preview %s %s %d" % (pdu.expr, ct, buflen), op="frag_preview", pdu=pdu, ctx=ctx, buflen=buflen)

    def dec_new(self, slots, maxpdu, mgr=None, crc=None):
        """crc: constant xor-ed into the default CRC by the calculator handed to the decapsulator (None: 0)"""
        if mgr is None:
            mt = "-"
        elif mgr == "sig":
            mt = "sig"
        else:
            mt = ",".join("%04x:%s%d" % (i, k, n) for i, (k, n) in sorted(mgr.items())) or "-"
        if crc is None:
            return self.add("dec_new %d %d %s" % (slots, maxpdu, mt), op="dec_new", slots=slots, maxpdu=maxpdu, mgr=mgr)
        return self.add("dec_new %d %d %s %d" % (slots, maxpdu, mt, crc), op="dec_new", slots=slots, maxpdu=maxpdu, mgr=mgr, crc=crc)

    def prov(self, ln, fill=0):
        return self.add("prov %d %d" % (ln, fill), op="prov", len=ln, fill=fill)

    def reprov(self, i):
        return self.add("reprov %d" % i, op="reprov", id=i)

    def dec_reset(self):
        return self.add("dec_reset", op="dec_reset")

    def dec_newpdu(self):
        return self.add("dec_newpdu", op="dec_newpdu")

    def decap(self, expr, **tags):
        return self.add("decap %s" % expr, op="decap", expr=expr, **tags)

    def decap_if(self, expr, **tags):
        """lock-step: fed only when the source is non-empty (nothing produced, nothing fed)"""
        return self.add("decap_if %s" % expr, op="decap", expr=expr, **tags)

    def peek_if(self, expr, **tags):
        return self.add("peek_if %s" % expr, op="peek", expr=expr, **tags)

    def walk(self, expr, **tags):
        return self.add("walk %s" % expr, op="walk", expr=expr, **tags)

    def peek(self, expr, **tags):
        return self.add("peek %s" % expr, op="peek", expr=expr, **tags)

    def mem_swap(self, h, ln, fill):
        return self.add("mem_swap %d %d %d" % (h, ln, fill), op="mem_swap", h=h, len=ln, fill=fill)

    def pause(self, ms):
        return self.add("pause %d" % ms, op="pause", ms=ms)

    def setreg(self, reg, expr):
        return self.add("setreg %d %s" % (reg, expr), op="setreg", reg=reg, expr=expr)

    def xorreg(self, reg, off, x):
        return self.add("xorreg %d %d %s" % (reg, off, hexs(x)), op="xorreg", reg=reg, off=off, x=bytes(x))

    def setlen(self, reg, n):
        return self.add("setlen %d %d" % (reg, n), op="setlen", reg=reg, n=n)

    def fnv(self, bs):
        return self.add("fnv %s" % bs.expr, op="fnv", bs=bs)

    def mem_new_frag(self, fid, pdulen, tl, pt, label):
        return self.add("mem_new_frag %d %d %d %04x %s" % (fid, pdulen, tl, pt, label.tok()), op="mem_new_frag",
                        fid=fid, pdulen=pdulen, tl=tl, pt=pt, label=label)

    def mem_take(self, fid):
        return self.add("mem_take %d" % fid, op="mem_take", fid=fid)

    def mem_save(self, h, fid=None):
        return self.add("mem_save %d %s" % (h, "-" if fid is None else str(fid)), op="mem_save", h=h, fid=fid)

    def mem_release(self, h):
        return self.add("mem_release %d" % h, op="mem_release", h=h)

    def text(self):
        return "session %s\n" % self.name + "".join(o["line"] + "\n" for o in self.ops)


# ------------------------------------------------------------------------------------------------ suites

def suite_hdr(rng, tier):
    s = Session("hdr")
    for w in range(65536):
        s.hdr_read(w)
    for k in range(4):
        for lt in range(4):
            for ln in range(4096):
                s.hdr_gen(k, lt, ln)
            for ln in (4096, 4097, 5000, 8191, 65535):
                s.hdr_gen(k, lt, ln)
    return [s]


def suite_crc(rng, tier):
    out = []
    s = Session("crc-index")
    # every table index at each of the first byte positions
    for v in range(256):
        s.crc(bs_hex(b""), 0, v << 8, bs_hex(b""))
        s.crc(bs_hex(b""), 0, v, bs_hex(b""))
        s.crc(bs_hex(b""), v << 8, 0, bs_hex(b""))
        s.crc(bs_hex(b""), v, 0x1234, bs_hex(b""))
        s.crc(bs_hex(b""), 0xABCD, 0x1234, bs_hex(bytes([v, 1, 2])))
        s.crc(bs_hex(bytes([v])), 0xABCD, 0x1234, bs_hex(b"abcdef"))
        s.crc(bs_hex(bytes([7, v])), 0x0800, 9, bs_hex(b""))
    s.crc(bs_hex(b"56789"), 0x3334, 0x3132, bs_hex(b""))   # "123456789"
    out.append(s)
    s = Session("crc-random")
    lens = [0, 1, 2, 3, 4, 5, 7, 8, 9, 15, 16, 17, 100, 255, 256, 257, 1000, 4095, 4096]
    n = 300 if tier == "quick" else 3000
    for i in range(n):
        ln = rng.choice(lens) if rng.random() < 0.7 else rng.randrange(0, 3000)
        lab = rng.choice([b"", bytes(rng.randrange(256) for _ in range(3)), bytes(rng.randrange(256) for _ in range(6))])
        s.crc(bs_gen(rng.randrange(1 << 30), ln), rng.randrange(65536), rng.randrange(65536), bs_hex(lab))
    for ln in ([65535, 65529] if tier == "quick" else [65535, 65534, 65533, 65529, 65526, 60000, 40000]):
        s.crc(bs_gen(rng.randrange(1 << 30), ln), rng.randrange(65536), 65535, bs_hex(b"abcdef"))
    out.append(s)
    return out


def suite_ext_new(rng, tier):
    s = Session("ext_new")
    ids = list(range(0, 0x700)) + [0x7FF, 0x800, 0x0FFF, 0x1000, 0x8000, 0xFFFF]
    if tier == "quick":
        ids += [rng.randrange(0x700, 65536) for _ in range(300)]
    else:
        ids = list(range(65536))
    for i in ids:
        for ln in range(0, 11):
            s.ext_new(i, bs_const((i + ln) & 0xFF, ln))
    for i in (0, 0x42, 0xFF):
        for ln in (11, 100, 5000):
            s.ext_new(i, bs_gen(i, ln))
    # data lengths around the widths a length could be squeezed into (u8, u16), for one id of every H-LEN class,
    # the mandatory range, and ids that are not extension ids
    for i in (0x00, 0x42, 0xFF, 0x100, 0x1FF, 0x200, 0x300, 0x400, 0x500, 0x5FF, 0x600, 0x0800, 0xFFFF):
        for ln in (12, 16, 254, 255, 256, 257, 258, 260, 262, 264, 510, 512, 514, 65534, 65535, 65536, 65538, 65544):
            s.ext_new(i, bs_gen(i + ln, ln))
    return [s]


def mini_transfer(s, rng, pdu, fid, pt, label, buflen, prior=None, disable=False, storage_extra=0, with_preview=True,
                   exts=None, mgr=None, slots=2):
    """one encap (optionally after a prior packet that arms label re-use), its preview, and the
    receiver side: decap + peek of the produced packet."""
    s.enc("new")
    if disable:
        s.enc("disable")
    s.dec_new(slots, max(1, len(pdu)), mgr)
    s.prov(max(3, len(pdu)) + storage_extra, 0xEE)
    s.prov(max(3, len(pdu)) + storage_extra, 0xEE)
    if prior is not None:
        i = s.encap(bs_gen(5, 3), 9, 0x0800, prior, bs_zero(64))
        s.decap_if("p:%d" % s.ops[i]["reg"], of=i)
        s.prov(max(3, len(pdu)) + storage_extra, 0xEE)
    if with_preview and exts is None:
        s.preview(pdu, pt, label, buflen)
    buf = bs_const(0xAA, buflen)
    i = s.encap(pdu, fid, pt, label, buf, exts=exts)
    r = s.ops[i]["reg"]
    s.peek_if("p:%d" % r, of=i)
    s.decap_if("p:%d" % r, of=i)
    return i


def suite_encap_lattice(rng, tier):
    """pdu_len x buf_len boundary lattice x labels x re-use state x protocol-type classes"""
    out = []
    combos = []
    pl_all = BND
    bl_all = BND
    # all boundary pairs around the complete/fragment decision for each label length
    for lab in (LBL_A6, LBL_A3, LBL_BC, LBL_RU):
        ll = lab.wire_len()
        for pl in [0, 1, 2, 4085 - ll, 4090 - ll, 4091 - ll, 4092 - ll, 4093 - ll, 4094 - ll, 4095 - ll, 4096, 4100]:
            if pl < 0:
                continue
            for bl in [pl + 4 + ll + d for d in (-2, -1, 0, 1, 5)] + [7 + ll - 1, 7 + ll, 7 + ll + 1, 4096, 4097, 4098, 4099, 4100, 70000]:
                if bl >= 0:
                    combos.append((pl, bl, lab, 0x0800, None, False))
    n_rand = 1500 if tier == "quick" else 20000
    for _ in range(n_rand):
        pl = rng.choice(pl_all) if rng.random() < 0.6 else rng.choice(BND_SMALL)
        bl = rng.choice(bl_all) if rng.random() < 0.5 else rng.choice(BND_SMALL)
        if tier == "quick" and pl > 5000 and rng.random() < 0.8:
            pl = rng.choice(BND_SMALL)
        lab = rng.choice([LBL_A6, LBL_B6, LBL_A3, LBL_BC, LBL_RU, LBL_Z6, LBL_Z3])
        pt = rng.choice(PTS) if rng.random() < 0.5 else 0x0800
        prior = rng.choice([None, None, LBL_A6, LBL_A3, LBL_B6, LBL_BC])
        dis = rng.random() < 0.2
        combos.append((pl, bl, lab, pt, prior, dis))
    for n, (pl, bl, lab, pt, prior, dis) in enumerate(combos):
        s = Session("enc%d" % n)
        mini_transfer(s, rng, bs_gen(n + 1, pl), rng.randrange(256), pt, lab, bl, prior=prior, disable=dis,
                       storage_extra=rng.choice([0, 0, 1, 7]))
        out.append(s)
    return out


def suite_frag_lattice(rng, tier):
    """encap_frag / frag_preview: remaining x buffer boundary lattice, contexts beyond the PDU"""
    out = []
    combos = []
    for rem in [0, 1, 2, 3, 4, 5, 6, 7, 10, 4086, 4087, 4088, 4089, 4090, 4091, 4092, 4093, 4094, 4095, 4096, 5000]:
        for bl in sorted(set([0, 1, 2, 3, 4, 5, 6, 7, 8, 12, 13, rem + 2, rem + 3, rem + 4, rem + 6, rem + 7, rem + 8,
                              4093, 4094, 4095, 4096, 4097, 4098, 4099, 4100, 4101, 4102, 70000])):
            combos.append((rem, bl, rng.choice([0, 0, 1, 5, 100])))
    n_rand = 800 if tier == "quick" else 10000
    for _ in range(n_rand):
        rem = rng.choice(BND_SMALL + [65520, 65535]) if rng.random() < 0.7 else rng.randrange(0, 9000)
        bl = rng.choice(BND) if rng.random() < 0.5 else rng.choice(BND_SMALL)
        combos.append((rem, bl, rng.choice([0, 1, 2, 100, 4000])))
    for n, (rem, bl, pos) in enumerate(combos):
        s = Session("frag%d" % n)
        pl = pos + rem
        if pl > 70000:
            pos = 0
            pl = rem
        pdu = bs_gen(n + 7, pl)
        ctx = (rng.randrange(256), rng.randrange(1 << 32), pos)
        s.frag_preview(pdu, ctx, bl)
        s.encap_frag(pdu, ctx, bs_const(0x55, bl))
        out.append(s)
    # contexts pointing beyond the PDU, and u16-sized positions
    for n, (pl, pos, bl) in enumerate([(0, 1, 100), (10, 11, 100), (10, 65535, 100), (100, 101, 3), (65535, 65535, 7),
                                       (65535, 65534, 8), (65535, 65530, 70000), (70000, 65535, 5000), (66000, 65000, 4098)]):
        s = Session("fragx%d" % n)
        pdu = bs_gen(n + 99, pl)
        ctx = (3, 0xDEADBEEF, pos)
        s.frag_preview(pdu, ctx, bl)
        s.encap_frag(pdu, ctx, bs_const(0x55, bl))
        out.append(s)
    return out


def pick_pdu_len(rng, tier, big_ok=True):
    r = rng.random()
    if r < 0.45:
        return rng.randrange(0, 64)
    if r < 0.75:
        return rng.randrange(64, 600)
    if r < 0.9:
        return rng.choice([4070, 4080, 4085, 4087, 4088, 4089, 4090, 4091, 4092, 4093, 4094, 4095, 4096, 4100, 5000, 8200])
    if big_ok and r < 0.97:
        return rng.randrange(600, 12000)
    if big_ok:
        return rng.choice([65520, 65526, 65527, 65529, 65530, 65533, 65535])
    return rng.randrange(0, 300)


def pick_buf(rng, remaining_hint):
    r = rng.random()
    if r < 0.15:
        return rng.randrange(0, 14)
    if r < 0.3:
        return rng.choice([13, 14, 16, 20, 32])
    if r < 0.55:
        return rng.randrange(14, 200)
    if r < 0.7:
        return max(0, remaining_hint + rng.choice([-3, -1, 0, 1, 2, 3, 4, 5, 6, 7, 8, 11, 13]))
    if r < 0.85:
        return rng.choice([4090, 4095, 4096, 4097, 4098, 4099, 4100, 4200])
    if r < 0.95:
        return rng.randrange(200, 3000)
    return rng.choice([8000, 70000])


def est_first_payload(pl, ll, bl, extlen=0):
    """generator-side estimate (never used as an oracle) of the payload of a first fragment"""
    if bl >= 4 + ll + extlen + pl and pl + ll + 2 + extlen <= 4095:
        return pl, True
    if bl < 7 + ll + extlen:
        return 0, False
    return max(0, min(bl - 7 - ll - extlen, 4095 - 5 - ll - extlen)), False


def continue_pdu(s, rng, pdu, chain, remaining, budget=70, big=False, on_packet=None):
    """emit encap_frag calls on the chain register until the generator estimates completion"""
    calls = 0
    while calls < budget:
        if calls >= 45:
            bl = rng.choice([4097, 4200, 70000])
        elif big and rng.random() < 0.7:
            bl = rng.choice([4096, 4097, 4098, 4099, 5000, 70000])
        else:
            bl = pick_buf(rng, remaining)
        j = s.encap_frag(pdu, chain, bs_const(0x5A, bl), cout=chain)
        if on_packet:
            on_packet(j)
        calls += 1
        if bl >= remaining + 7 and remaining + 5 <= 4095:
            return
        if bl >= 4:
            k = min(bl - 3, 4094, remaining)
            remaining -= k
    return


def suite_transfer(rng, tier, n_sessions=None, with_ext=False):
    """lock-step sender/receiver sessions with full fragmentation driven by `encap_frag k:<reg>`.
    Because the generator cannot see results, a PDU's continuation uses a fixed budget of calls;
    calls after completion fail with bad-op on both sides (the context register is erased), which
    is harmless and ignored by the oracles."""
    out = []
    n_sessions = n_sessions or (250 if tier == "quick" else 6000)
    for n in range(n_sessions):
        s = Session("xfer%d" % n)
        slots = rng.choice([1, 2, 2, 3, 4, 8]) if rng.random() < 0.97 else rng.choice([255, 256, 257, 300])
        npdu = rng.randrange(1, 6)
        lens = [pick_pdu_len(rng, tier, big_ok=(tier != "quick" or rng.random() < 0.15)) for _ in range(npdu)]
        maxpdu = max(1, max(lens))
        mgr = None
        if with_ext:
            mgr = {0x42: ("N", 3), 0x43: ("N", 0), 0x81: ("F", 0), 0x90: ("F", 2), 0x55: ("N", 5)}
            if rng.random() < 0.2:
                mgr = "sig"
            elif rng.random() < 0.2:
                mgr = {0x42: ("N", 3)}
        s.enc("new")
        mode = rng.choice(["default", "default", "disable", "max"])
        if mode == "disable":
            s.enc("disable")
        elif mode == "max":
            s.enc("enable_max", rng.choice([1, 2, 3, 255]))
        s.dec_new(slots, maxpdu, mgr)
        for _ in range(min(slots + 2, 3)):
            s.prov(maxpdu + rng.choice([0, 0, 1, 9]), 0xEE)
        for k in range(npdu):
            pdu = bs_gen(n * 16 + k + 1, lens[k])
            fid = rng.randrange(256)
            label = rng.choice([LBL_A6, LBL_A6, LBL_B6, LBL_A3, LBL_B3, LBL_BC, LBL_RU] + ([rng.choice(TRICKY_LABELS)] * 2))
            fid = rng.choice([fid, fid, 0, 255, slots, slots - 1 if slots else 0]) % 256
            pt = rng.choice([0x0800, 0x0800, 0x86DD, 0x0600, 0x0601, 0xFFFF, 0xFFFE, rng.randrange(0x0600, 0x10000), rng.randrange(0x0600, 0x10000),
                             rng.choice([0x0700, 0x0A00, 0x1000, 0x8100, 0x8847, 0x1234, 0xFF00, 0x06FF])])
            exts = None
            if with_ext:
                exts, pt = pick_exts(rng, pt)
            if rng.random() < 0.1:
                s.enc("reset")
                s.dec_reset()
            bl = pick_buf(rng, lens[k] + 10)
            i = s.encap(pdu, fid, pt, label, bs_const(0xA5, bl), exts=exts)
            s.peek_if("p:%d" % s.ops[i]["reg"], of=i)
            s.decap_if("p:%d" % s.ops[i]["reg"], of=i)
            extlen = sum(2 + len(d) for _, d in exts) if exts else 0
            first, done = est_first_payload(lens[k], 6, bl, extlen)

            def on_packet(j, s=s):
                s.peek_if("p:%d" % s.ops[j]["reg"], of=j)
                s.decap_if("p:%d" % s.ops[j]["reg"], of=j)
                if rng.random() < 0.05:          # a frame boundary in the middle of a fragment train
                    s.enc("reset")
                    s.dec_reset()
            if not done:
                continue_pdu(s, rng, pdu, s.ops[i]["reg"], lens[k] - first, big=lens[k] > 3000, on_packet=on_packet)
            s.prov(maxpdu, 0xEE)
        out.append(s)
    # calculators other than the default one, the same on both sides (every transfer is delivered), replaced in
    # the middle of the traffic on one side only (trains that straddle the change are refused with ErrorCrc — by
    # the receiver's calculator, whatever the sender's is now), then on the other side too (delivered again)
    for kx in (0, 0x1, 0xDEADBEEF, 0xFFFFFFFF):
        for scenario in ("same", "sender-changes", "receiver-differs"):
            s = Session("xfer-crc-%x-%s%s" % (kx, scenario, "-ext" if with_ext else ""))
            s.strict = scenario == "same"
            s.enc("new")
            s.enc("set_crc", kx)
            s.dec_new(2, 40, None, crc=(kx if scenario != "receiver-differs" else kx ^ 0x80000001))
            for _ in range(3):
                s.prov(40, 0xEE)
            exts = [(0x0301, b"\x01\x02\x03\x04")] if with_ext else None
            for k in range(3):
                pdu = bs_gen(7 * kx % 1000 + k, 30)
                i = s.encap(pdu, k, 0x0800, LBL_A6, bs_const(0xA5, 26 if with_ext else 20), exts=exts)
                s.decap_if("p:%d" % s.ops[i]["reg"], of=i)
                chain = s.ops[i]["reg"]
                if scenario == "sender-changes" and k == 1:
                    s.enc("set_crc", kx ^ 0x00010000)        # after the first fragment: its CRC is already in the context
                for bl in (12, 100):
                    j = s.encap_frag(pdu, chain, bs_const(0xA5, bl), cout=chain)
                    s.decap_if("p:%d" % s.ops[j]["reg"], of=j)
                s.prov(40, 0xEE)
            out.append(s)
    # receivers with as many slots as there are frag ids, or more: the slot is the frag id itself
    for slots in (255, 256, 257, 300, 1000):
        for fid in (0, 1, 254, 255):
            s = Session("xfer-slots-%d-%d%s" % (slots, fid, "-ext" if with_ext else ""))
            s.enc("new")
            s.dec_new(slots, 40, None)
            s.prov(40, 0xEE)
            s.prov(40, 0xEE)
            pdu = bs_gen(slots + fid, 40)
            exts = [(0x0301, b"\x01\x02\x03\x04")] if with_ext else None
            i = s.encap(pdu, fid, 0x0800, LBL_A6, bs_const(0xA5, 30), exts=exts)
            s.peek_if("p:%d" % s.ops[i]["reg"], of=i)
            s.decap_if("p:%d" % s.ops[i]["reg"], of=i)
            chain = s.ops[i]["reg"]
            for bl in (12, 12, 100):
                j = s.encap_frag(pdu, chain, bs_const(0xA5, bl), cout=chain)
                s.peek_if("p:%d" % s.ops[j]["reg"], of=j)
                s.decap_if("p:%d" % s.ops[j]["reg"], of=j)
            out.append(s)
    return out


def pick_exts(rng, pt):
    n = rng.randrange(1, 5)
    if rng.random() < 0.12:
        n = rng.choice([5, 8, 9, 16, 17, 32, 33, 40])      # long chains (2-byte extensions mostly)
    exts = []
    for _ in range(n):
        r = rng.random()
        if n > 4 and r < 0.8:
            exts.append((0x0100 | rng.randrange(256), b""))
            continue
        if r < 0.6:
            h = rng.randrange(1, 6)
            i = (h << 8) | rng.randrange(256)
            exts.append((i, bytes(rng.randrange(256) for _ in range({1: 0, 2: 2, 3: 4, 4: 6, 5: 8}[h]))))
        elif r < 0.8:
            exts.append((0x42, bytes(rng.randrange(256) for _ in range(3))))
        elif r < 0.9:
            exts.append((0x43, b""))
        else:
            exts.append((0x55, bytes(rng.randrange(256) for _ in range(5))))
    r = rng.random()
    if r < 0.25:
        exts.append((0x81, b""))
        pt = 0x81
    elif r < 0.35:
        exts.append((0x90, bytes([1, 2])))
        pt = 0x90
    elif r < 0.4:
        pt = 0x81          # missing final extension: must be refused
    elif r < 0.45:
        exts.append((0x77, b"\x01"))   # unknown mandatory: receiver must drop
    return exts, pt
