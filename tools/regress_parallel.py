#!/usr/bin/env python3
"""Parallel regression over the banks of seeded changes and behaviour-preserving refactorings (development
tool).  Works in scratch copies of /verif (/tmp/mvK) and scratch worktrees of /repo (/tmp/mrK), never in /repo.
usage: regress_parallel.py seeds|refactors <workers> [names...]
  seeds:      for each seeded/<name>/patch.diff run the quick check of its property (first 3 letters of the name,
              or every property listed in meta.json "properties_broken" for the E.. seeds until one reports a
              failing input) -> DETECTED-with-input | DETECTED-no-input | MISSED
  refactors:  for each refactors/<name>/patch.diff run all twenty quick checks -> quiet | ALARM <ids>
"""
import glob
import json
import multiprocessing as mp
import os
import subprocess
import sys

sys.path.insert(0, os.path.dirname(os.path.abspath(__file__)))
from mutation_campaign import setup_sandbox, sh   # noqa: E402

ALL = ["C%02d" % i for i in range(1, 21)]


def job(args):
    kind, k, names = args
    v, r = setup_sandbox(k + int(os.environ.get("SANDBOX_OFFSET", "0")))
    out = []
    env = {"VERIF_REPO": r}
    for name in names:
        d = os.path.join("/verif", "seeded" if kind == "seeds" else "refactors", name) if kind != "area" else name
        if kind == "area":
            name = os.path.basename(d.rstrip("/"))
        rc, o = sh("git -C %s apply %s %s/patch.diff" % (r, "--check" if kind == "area" else "", d), "/")
        if rc != 0:
            out.append("%s PATCH-DOES-NOT-APPLY" % name)
            continue
        if kind == "area":
            # a change that names the properties it breaks: confirm it (suite passes, demonstration fails with it /
            # passes without it), then run all twenty checks
            sh("git -C %s checkout -- . ; git -C %s clean -fdq src" % (r, r), "/")
            sh("cp %s/seed_demo.rs %s/tests/seed_demo.rs" % (d, r), "/")
            rc, o0 = sh("cargo test --offline --test seed_demo 2>&1 | grep -E '^test result' | head -1", r, timeout=900)
            sh("git -C %s apply %s/patch.diff" % (r, d), "/")
            rc, o1 = sh("cargo test --offline --test seed_demo 2>&1 | grep -E '^test result' | head -1", r, timeout=900)
            sh("rm -f %s/tests/seed_demo.rs" % r, "/")
            rc, o2 = sh("cargo test --workspace --offline 2>&1 | grep -E '^test result' | tr '\n' ' '", r, timeout=900)
            confirm = "demo without: %s | with: %s | suite with: %s" % (o0.strip()[13:40], o1.strip()[13:45], " ".join(x for x in o2.split() if x.isdigit())[:40])
            named = json.load(open(d + "/meta.json")).get("properties_broken", [])
            w, wo = [], []
            for pid in ALL:
                rc, o = sh("./check %s --tier quick 2>&1 | grep VIOLATION | head -1" % pid, v, env=env)
                if "VIOLATION" in o:
                    (wo if "no-failing-input-found" in o else w).append(pid)
            out.append("%s named=%s with-input=%s tie-only=%s || %s" % (name, ",".join(named), ",".join(w), ",".join(wo), confirm))
        elif kind == "seeds":
            pids = [name[:3]] if name[0] == "C" else json.load(open(d + "/meta.json")).get("properties_broken", [])[:3]
            best = "MISSED"
            for pid in pids:
                rc, o = sh("./check %s --tier quick 2>&1 | grep VIOLATION | head -1" % pid, v, env=env)
                if "VIOLATION" in o:
                    if "no-failing-input-found" in o:
                        best = "DETECTED-no-input" if best == "MISSED" else best
                    else:
                        best = "DETECTED-with-input(%s)" % pid
                        break
            out.append("%s %s" % (name, best))
        else:
            bad = []
            only = os.environ.get("ONLY_CHECKS")
            for pid in (only.split(",") if only else ["C14"] + [p for p in ALL if p != "C14"]):
                rc, o = sh("./check %s --tier quick 2>&1 | tail -3" % pid, v, env=env)
                if "VIOLATION" in o or "tier=" not in o:
                    bad.append(pid)
            out.append("%s %s" % (name, "quiet" if not bad else "ALARM " + " ".join(bad)))
        sh("git -C %s checkout -- . ; git -C %s clean -fdq src" % (r, r), "/")
        print(out[-1], flush=True)
    return out


def main():
    kind = sys.argv[1]
    nw = int(sys.argv[2])
    names = sys.argv[3:] or sorted(os.path.basename(os.path.dirname(p)) for p in
                                   glob.glob("/verif/%s/*/patch.diff" % ("seeded" if kind == "seeds" else "refactors")))
    with mp.Pool(nw) as pool:
        res = pool.map(job, [(kind, k, names[k::nw]) for k in range(nw)])
    flat = sorted(sum(res, []))
    print("----")
    for l in flat:
        print(l)


if __name__ == "__main__":
    main()
