#!/usr/bin/env python3
"""Regenerates MANIFEST.json from the current state of lean/GseVerif/Props (which properties have
theorem files) and the per-property texts below."""
import glob
import json
import os
import re
import subprocess

VERIF = os.path.dirname(os.path.dirname(os.path.abspath(__file__)))

TEXT = {
    "C01": ("C01_*: encap complete -> decap returns the same PDU, length, protocol type, label, consuming the reported length; exact iff-characterisation of when encap reports a complete packet",
            "round-trip theorem over the byte-level model + encap/decap lattice correspondence + lock-step oracle"),
    "C02": ("C02_*: induction over every buffer-size schedule: receiver context mirrors the sender context; completion delivers the PDU; progress bound",
            "induction over schedules on the model + transfer correspondence + lock-step oracle"),
    "C03": ("C03_*: decap_end delivers only when natural-number length and CRC verify over the concatenated accepted payloads; CRC-32 burst detection (LFSR algebra) for bursts <= 32 bits",
            "refinement to an abstract reassembler + CRC burst algebra + fault-injection correspondence and independent reassembler oracle"),
    "C04": ("C04_*: end-to-end delivery of fragmented PDUs in the joint machine (C04_delivery_frag_jrun); joint sender/receiver invariant (label memories agree after every op), attribution of every status to the intended label, receiver-only resolution to the nearest preceding start/complete label",
            "invariant by induction over joint histories + lock-step re-use histories"),
    "C05": ("C05_*: DecInv preserved by every public operation; decap and the peek never return panic; consumed <= len and >= min(2,len)",
            "invariant + totality theorem (every Rust panic site is a model outcome) + exhaustive short inputs / header x truncation correspondence"),
    "C06": ("C06_*: every ok result of encap/encap_frag/encap_ext parses under the independent grammar Spec.parse with matching kind, label type, GSE length = n-2 <= 4095, field order, and bytes beyond n untouched",
            "layer lemmas (closed form of the bytes written) + independent wire parser oracle on boundary lattices"),
    "C07": ("C07_*: frame lemma (a packet of frag id j leaves every other saved context unchanged, aliasing included), restart touches only its id",
            "frame theorem on the memory/decap model + exhaustive interleavings with strays"),
    "C08": ("C08_*: per-operation conservation of the multiset of storage identities (free list + slots + handed out), lifted to every history; on an error the free list never shrinks and no slot is filled (rejected traffic cannot exhaust the receiver)",
            "multiset conservation theorem with ghost storage identities + identity-tracking oracle through hooks"),
    "C09": ("C09_*: encap, encap_frag, encap_ext and both previews never return panic; on err the buffer and the encapsulator are unchanged; mandatory rejections",
            "totality + failure-atomicity theorems over the order of writes in the model + full-buffer digest / state comparison on lattices"),
    "C10": ("C10_*: decap of p ++ rest equals decap of p for every well-formed packet p; per-packet rejections consume |p|; frame walk = per-packet outcomes then padding; encoder never emits padding",
            "prefix-independence theorem + twin-receiver frame walking oracle"),
    "C11": ("C11_*: first-fragment context counts the payload; each continuation is an end packet or carries >= 1 byte and advances the context exactly; payloads partition the PDU; bound on calls",
            "step lemmas + induction over schedules + payload partition oracle"),
    "C12": ("C12_table (256 generated table entries = 8 shift/xor steps of poly 0x04C11DB7, by kernel evaluation), C12_step/C12_bytes (table-driven fold = bit-serial spec), C12_default (field order tl|pt|label|pdu, init CRC_INIT), index-in-range",
            "kernel-checked table + algebraic equivalence with the bit-serial CRC-32/MPEG-2 spec + bitwise reference oracle"),
    "C13": ("C13_new_* (constructor total; ok iff id < 0x600 and optional data length = H-LEN table), C13_* round trip of extension chains through walkExt, unknown mandatory => whole packet dropped",
            "constructor characterisation by cases + chain round-trip induction + extension lattice/transfer correspondence"),
    "C14": ("C14_read_total, C14_none_iff, C14_read_gen (all 65 536 words by decide +kernel in 16 chunks), C14_gen_read, C14_gen_lt, C14_gen_mask, C14_gen_nonpadding, C14_bijection (symbolic in len)",
            "exhaustive kernel evaluation over all header words + exhaustive two-way correspondence (the theorem transfers to the code)"),
    "C15": ("C15_*: no substitution while disabled; run <= reCur <= reMax invariant bounds consecutive substitutions; first label after reset/broadcast is full; substitution only for the label of the immediately preceding start/complete packet; failed calls are transparent",
            "invariant by induction over operation histories of the re-use state machine + exhaustive/random policy histories"),
    "C16": ("C16_*: corollary of C05 (invariant preserved by any history) and C01/C02 stated for every invariant state with a free buffer",
            "corollary of invariant preservation + poisoning-prefix / probe-transfer oracle"),
    "C17": ("C17_* (41 theorems): WF preserved along every op sequence, no panic, exact per-operation contracts, save/take round trip across non-releasing ops, storage conservation up to Perm, refinement to a stack + slot-map spec",
            "refinement of SimpleGseMemory's model to an abstract bag/slot spec + exhaustive bounded op sequences against a reference bag"),
    "C18": ("C18_preview / C18_frag_preview: preview result <-> encap / encap_frag result (kind, lengths, error) when no re-use substitution applies",
            "case-split equivalence of the duplicated decision logic + side-by-side lattice"),
    "C19": ("C19_*: peek (p ++ rest) returns the frag id / label / re-use error determined by the packet the encoder produced",
            "layer lemmas composed with the peek model + peek-after-every-encap correspondence"),
    "C20": ("C20_*: parse (generate p) = p for well-formed descriptions of the four structs; generate p = bytes emitted by encap* for the same fields",
            "round-trip theorems on the utils model + reference serialiser oracle"),
}


def tie_of():
    src = open(os.path.join(VERIF, "check")).read()
    body = re.search(r"TIE_OF = \{(.*?)\n\}", src, flags=re.S).group(1)
    return {m.group(1): re.findall(r'"(Tie\w+)"', m.group(2)) for m in re.finditer(r'"(C\d\d)": \[([^\]]*)\]', body)}


def theorem_count(pid):
    n = 0
    for tie in tie_of().get(pid, []):
        src = re.sub(r"/-.*?-/", "", open(os.path.join(VERIF, "lean", "GseVerif", "Props", tie + ".lean")).read(), flags=re.S)
        n += len(re.findall(r"^\s*theorem\s+Tie_\w+", src, flags=re.M))
    for path in glob.glob(os.path.join(VERIF, "lean", "GseVerif", "Props", pid + "*.lean")):
        src = re.sub(r"/-.*?-/", "", open(path).read(), flags=re.S)
        n += len(re.findall(r"^\s*theorem\s+" + pid + r"_\w+", src, flags=re.M))
    return n


def main():
    hook_commit = subprocess.run(["git", "-C", "/repo", "log", "--format=%h", "--grep", "verif hooks", "-n", "1"],
                                 stdout=subprocess.PIPE).stdout.decode().strip()
    checks = []
    for pid in sorted(TEXT):
        n = theorem_count(pid)
        thm, tech = TEXT[pid]
        if n:
            cat = "proof"
            text = ("%d kernel-checked Lean 4 theorems about the executable model (%s); the model is tied to /repo on every run by the "
                    "source->Lean generator for constants/tables and by differential execution against the real crate; "
                    "implementation oracles search for a concrete failing input." % (n, thm))
        else:
            cat = "other"
            text = ("theorems for this property are not finished (planned: %s); currently decided by model/implementation correspondence on "
                    "generated op sequences plus an independent implementation oracle" % thm)
        checks.append({
            "property_id": pid,
            "quick_cmd": "./check %s --tier quick" % pid,
            "thorough_cmd": "./check %s --tier thorough" % pid,
            "evidence_file": "evidence/%s.json" % pid,
            "replay_cmd_template": "./check %s --replay {path}" % pid,
            "engine": "lean-model+correspondence",
            "level_claimed": {"category": cat, "text": text, "design_ref": "DESIGN.md §7 %s" % pid},
            "level_note": "trusted: Lean 4.33.0 kernel, axioms propext/Classical.choice/Quot.sound, tools/gen_lean.py, harness + driver + ./check glue; "
                          "the control flow of the crate is modelled by hand (lean/GseVerif/Model) and validated by differential execution, not verified",
            "technique": "Lean 4 proof: " + tech,
        })
    m = {
        "version": 1,
        "setup_cmd": "(cd harness && CARGO_NET_OFFLINE=true cargo build --offline --bin gse_ops) && python3 tools/gen_lean.py && (cd lean && lake build)",
        "hooks": {
            "guard": "dvb_gse_rust_verif",
            "enable": "harness/.cargo/config.toml passes --cfg dvb_gse_rust_verif to rustc for the harness crate and its path dependency /repo",
            "baseline_off_cmd": "cd /repo && cargo test --workspace --no-fail-fast --offline",
            "source_commits": [hook_commit],
            "add_only": True,
        },
        "engines": [
            {"name": "lean-model+correspondence", "path": "check", "serves_properties": sorted(TEXT),
             "kind_free_text": "Lean 4 theorems over a hand-written executable model (lean/GseVerif), constants regenerated from the source "
                               "(tools/gen_lean.py), differential execution model vs crate through a line protocol (lean/Main.lean, "
                               "harness/src/bin/gse_ops.rs), implementation oracles (tools/oracles.py)"}],
        "checks": checks,
        "not_applicable": [],
        "notes": "see DESIGN.md; known_findings.json lists the repaired defects (fixed:) — none is open",
    }
    with open(os.path.join(VERIF, "MANIFEST.json"), "w") as f:
        json.dump(m, f, indent=1)
    print("MANIFEST.json:", sum(1 for c in checks if c["level_claimed"]["category"] == "proof"), "proof-level,", len(checks), "checks")


if __name__ == "__main__":
    main()
