"""Search for a failing input around a point where model and implementation disagree.

When the correspondence breaks on a session at op i but no oracle of the property fails anywhere in the
generated suites, the behaviour that changed may simply not have been *used* yet by the rest of that session
(a counter that was reset, a label that was forgotten, a storage that was lost, a context that was kept).
`continuations` takes the prefix of the session up to the disagreeing op and appends many short random
continuations made of the operations a user would do next — more traffic for the labels and fragment ids
already in play, configuration calls, provisioning, draining the free list, a fresh probe transfer — so that
the implementation oracles get a chance to observe a consequence.  Everything is derived from one PRNG.
"""
import random

from gselib import *
from suites import Session, LBL_A6, LBL_B6, LBL_A3, LBL_B3, LBL_BC, LBL_RU, bs_gen, bs_zero


def _prefix(sess, upto, name):
    s = Session(name)
    s.ops = [dict(o) for o in sess.ops[:upto + 1]]
    s.nreg = max([o.get("reg", 0) or 0 for o in s.ops] + [o.get("cout", 0) or 0 for o in s.ops] + [sess.nreg, 900])
    s.strict = getattr(sess, "strict", True)
    s.expect = []
    s.expect_frag = []
    return s


def continuations(sess, upto, rng, count=150):
    ops = sess.ops[:upto + 1]
    has_enc = any(o.get("op", "").startswith("enc") for o in ops)
    decs = [o for o in ops if o.get("op") == "dec_new"]
    has_dec = bool(decs)
    maxpdu = decs[-1]["maxpdu"] if decs else 64
    slots = decs[-1]["slots"] if decs else 2
    labels = [o["label"] for o in ops if o.get("label") is not None]
    labels = (labels[-3:] if labels else []) + [LBL_A6, LBL_A3, LBL_BC, LBL_RU]
    fids = [o["fid"] for o in ops if isinstance(o.get("fid"), int)][-3:] + [0, 1, 255]
    open_chains = [o["reg"] for o in ops if o.get("op") in ("encap", "encap_ext")][-2:]
    exts_seen = [o["exts"] for o in ops if o.get("exts")]
    out = []
    for c in range(count):
        s = _prefix(sess, upto, "%s+probe%d" % (sess.name, c))
        chains = list(open_chains)
        for _ in range(rng.randrange(1, 9)):
            r = rng.random()
            if has_enc and r < 0.55:
                lab = rng.choice(labels)
                pl = rng.choice([0, 1, 5, min(20, maxpdu), min(30, maxpdu)])
                pdu = bs_gen(rng.randrange(1 << 16), pl)
                bl = rng.choice([64, 64, 64, 7 + lab.wire_len(), 12, 20, 3])
                exts = rng.choice(exts_seen) if exts_seen and rng.random() < 0.3 else None
                i = s.encap(pdu, rng.choice(fids), 0x0800 if not exts else s_pt(exts), lab, bs_zero(bl), exts=exts)
                chains.append(s.ops[i]["reg"])
                if has_dec:
                    s.decap_if("p:%d" % s.ops[i]["reg"], of=i)
                    if rng.random() < 0.6:
                        s.prov(maxpdu, 0)
                # continue the train straight away most of the time
                if rng.random() < 0.7:
                    for _k in range(2):
                        j = s.encap_frag(pdu, s.ops[i]["reg"], bs_zero(64), cout=s.ops[i]["reg"])
                        if has_dec:
                            s.decap_if("p:%d" % s.ops[j]["reg"], of=j)
            elif has_enc and r < 0.70:
                what = rng.choice(["reset", "disable", "enable", "max1", "max2"])
                if what == "reset":
                    s.enc("reset")
                    if has_dec:
                        s.dec_reset()
                elif what.startswith("max"):
                    s.enc("enable_max", int(what[3:]))
                else:
                    s.enc(what)
            elif has_dec and r < 0.80:
                s.prov(maxpdu, 0)
            elif has_dec and r < 0.88:
                for _k in range(rng.randrange(1, slots + 4)):
                    s.dec_newpdu()
            elif has_dec and r < 0.94:
                # hand-built valid traffic: a complete packet with an explicit label, a two-packet train
                s.decap("h:c00a0800616263646566beef")
                s.prov(maxpdu, 0)
            elif has_dec:
                fid = rng.choice(fids) & 0xFF
                pdu = gen_bytes(77, 4)
                tl = 4 + 2
                crc = ref_gse_crc(pdu, 0x0800, tl, b"")
                s.decap("h:a007%02x%04x0800%s" % (fid, tl, pdu[:2].hex()))
                s.decap("h:7007%02x%s%08x" % (fid, pdu[2:].hex(), crc))
            else:
                break
        if has_dec and c % 2 == 0:
            _recovery_probe(s, rng, has_enc, maxpdu, slots, fids)
        out.append(s)
    return out


def _recovery_probe(s, rng, has_enc, maxpdu, slots, fids):
    """C16's protocol — reset the label memory, make one storage available — then a fresh valid transfer with an
    explicit label, the caller topping the free list up between its packets (which can never hurt): it must be
    delivered.  A failure counts against the delivery properties."""
    if has_enc:
        s.enc("reset")
    else:
        s.enc("new")
    s.enc("disable")
    s.dec_reset()
    s.prov(maxpdu, 0)
    lab = rng.choice([LBL_A6, LBL_A3, LBL_BC])
    pl = max(1, min(maxpdu, rng.choice([1, 4, 9, 20, 40])))
    pdu = bs_gen(rng.randrange(1 << 16), pl)
    fid = rng.choice(fids) & 0xFF
    tags = ["C16", "C02", "C07"]
    if rng.random() < 0.3:
        i = s.encap(pdu, fid, 0x0800, lab, bs_zero(100))
        d = s.decap_if("p:%d" % s.ops[i]["reg"], of=i, probe="complete")
        s.expect.append((d, pdu, ["C16", "C01"], lab))
        return
    regs = [s.reg() for _ in range(4)]
    for r in regs:
        s.setreg(r, "-")
    first = 7 + lab.wire_len() + rng.randrange(0, max(1, pl))
    idx = [s.encap(pdu, fid, 0x0800, lab, bs_zero(first), reg=regs[0])]
    for bl, r in zip([rng.choice([4, 6, 9, 20]), 100, 100], regs[1:]):
        idx.append(s.encap_frag(pdu, regs[0], bs_zero(bl), reg=r, cout=regs[0]))
    ds = []
    for i in idx:
        ds.append(s.decap_if("p:%d" % s.ops[i]["reg"], of=i, probe="frag"))
        for _k in range(rng.choice([0, 0, 1, slots + 3])):
            s.prov(maxpdu, 0)
    s.expect_last = (ds, pdu, tags, lab)


def s_pt(exts):
    """protocol type that goes with an extension list seen in the session (final mandatory id, else IPv4)"""
    last = exts[-1][0]
    return last if last < 0x100 else 0x0800
