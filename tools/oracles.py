"""Implementation oracles (DESIGN.md §5): the properties stated directly on the outputs of the
real crate, using only the independent references of gselib.  `analyse(session, outs)` walks one
session once and returns failures as (op index, property ids, message)."""
from gselib import *


class Fail:
    def __init__(self, idx, props, msg):
        self.idx = idx
        self.props = set(props)
        self.msg = msg

    def __repr__(self):
        return "op %d [%s] %s" % (self.idx, ",".join(sorted(self.props)), self.msg)


def eval_bs(expr, regs):
    """value of a byte-source expression given the python model of the registers; None if unknown"""
    out = b""
    for a in expr.split("+"):
        if a == "-":
            continue
        p = a.split(":")
        try:
            if p[0] == "h":
                out += unhex(p[1])
            elif p[0] == "g":
                out += gen_bytes(int(p[1]), int(p[2]))
            elif p[0] == "z":
                out += bytes(int(p[1]))
            elif p[0] == "c":
                out += bytes([int(p[1]) & 0xFF]) * int(p[2])
            elif p[0] == "r":
                r = regs.get(int(p[1]))
                if r is None or r[0] is None:
                    return None
                o, n = int(p[2]), int(p[3])
                if o + n > len(r[0]):
                    return None
                out += r[0][o:o + n]
            elif p[0] == "p":
                r = regs.get(int(p[1]))
                if r is None or r[0] is None:
                    return None
                out += r[0][:r[1]]
            elif p[0] == "R":
                r = regs.get(int(p[1]))
                if r is None or r[0] is None:
                    return None
                out += r[0]
            else:
                return None
        except (ValueError, IndexError):
            return None
    return out


def written_label(pkt, passed):
    """label type character actually on the wire"""
    return pkt.lt


class Train:
    def __init__(self, first_pkt, fed_label):
        self.fid = first_pkt.frag_id
        self.total_len = first_pkt.total_len
        self.pt = first_pkt.pt
        self.lt = first_pkt.lt
        self.label = first_pkt.label
        self.exts = first_pkt.exts
        self.payload = bytearray(first_pkt.payload)
        self.resolved = fed_label


def analyse(sess, outs, strict_lockstep=False):
    fails = []
    F = lambda i, props, msg: fails.append(Fail(i, props, msg))
    regs = {}        # reg -> (bytes|None, n)
    ctxs = {}        # ctx register -> (fid, crc, pos)
    info = {}        # op index -> derived facts for later ops
    enc_state = None     # last seen encapsulator state string
    snd_xor = 0          # constant xor-ed into the CRC by the calculator currently set on the encapsulator
    # reference sender (C04 / C15)
    snd_enabled, snd_max, snd_prev, snd_run = True, 0, None, 0
    # receiver side references
    mand = {}
    rx_last = None       # label carried by nearest preceding accepted start/complete packet
    trains = {}          # fid -> Train (as accepted by the receiver, synced with the snapshots)
    created = set()
    nprov = 0
    owned = set()
    held = {}            # handle -> storage id
    lost_by_contract = set()
    dec_alive = False
    # reference bag memory (C17)
    ref_mem = None

    last_dstate = None
    for i, (op, o) in enumerate(zip(sess.ops, outs)):
        kind = op.get("op")
        dstate_before = last_dstate          # receiver state as printed after the previous operation that showed one
        if o.state.startswith("D "):
            last_dstate = o.state
        if o.raw == "<missing>":
            F(i, ["*"], "no output line (driver died?)")
            break
        if o.toks[0] in ("bad-op", "skipped", "skip"):
            if kind in ("encap", "encap_ext", "encap_frag"):
                regs[op["reg"]] = (None, 0)
            continue
        if o.panic:
            props = {"hdr_gen": ["C14"], "hdr_read": ["C14"], "ext_new": ["C13"], "encap": ["C09"], "encap_ext": ["C09", "C13"],
                     "encap_frag": ["C09"], "preview": ["C09"], "frag_preview": ["C09"], "decap": ["C05"], "walk": ["C05"],
                     "peek": ["C05"], "prov": ["C05", "C17"], "reprov": ["C05", "C17"], "dec_newpdu": ["C05", "C17"],
                     "mem_new_frag": ["C17", "C05"], "mem_take": ["C17", "C05"], "mem_save": ["C17", "C05"], "mem_swap": ["C17"],
                     "mem_release": ["C17"], "crc": ["C12"]}.get(kind, ["*"])
            if kind in ("u_gen", "u_parse"):
                if op.get("wf"):
                    F(i, ["C20"], "utils call panicked on a well-formed description")
                continue
            if kind == "decap" and op.get("of") is not None and strict_lockstep:
                # a packet straight from the encapsulator, in a session whose receiver has all it needs
                srcf = info.get(op["of"]) or {}
                if srcf.get("ok") and srcf.get("kind"):
                    props = props + ["C01" if srcf["kind"] == "C" else "C02"]
            F(i, props, "panic in %s" % kind)
            break

        # ------------------------------------------------------------------ utils structs
        if kind == "u_gen":
            if o.toks[0] != "ok" or unhex(o.toks[1]) != op["ref"]:
                F(i, ["C20"], "generate() wrote %s, the ETSI field order gives %s" % (o.res[:80], op["ref"].hex()[:80]))
            continue
        if kind == "u_parse":
            f = op["fields"]
            k = op["kind"]
            if f is None:
                # bytes of another packet kind handed to this parser: it must not produce a description
                if o.ok:
                    F(i, ["C20"], "parse of kind %s accepted a packet of another kind: %s" % (k, o.res[:80]))
                continue
            if k == "C":
                want = "ok %d %04x %s %s" % (f[0], f[1], f[2].tok(), hexs(f[3].val))
            elif k == "F":
                want = "ok %d %d %d %04x %s %s" % (f[0], f[1], f[2], f[3], f[4].tok(), hexs(f[5].val))
            elif k == "I":
                want = "ok %d %d %s" % (f[0], f[1], hexs(f[2].val))
            else:
                want = "ok %d %d %s %08x" % (f[0], f[1], hexs(f[2].val), f[3])
            if o.res != want:
                F(i, ["C20"], "parse(generate(p)) = %s, expected %s" % (o.res[:100], want[:100]))
            continue
        # ------------------------------------------------------------------ pure codecs
        if kind == "hdr_read":
            exp = ref_hdr_read(op["w"])
            got = None if o.toks[0] == "none" else (int(o.toks[1]), o.toks[2], o.toks[3])
            if exp != got:
                F(i, ["C14"], "read_gse_header(%#06x) = %s, expected %s" % (op["w"], got, exp))
        elif kind == "hdr_gen":
            exp = ref_hdr_gen(KINDS[op["k"]], LTS[op["lt"]], op["len"])
            if int(o.toks[0]) != exp:
                F(i, ["C14", "C06"], "generate_gse_header(%s,%s,%d) = %s, expected %d" % (KINDS[op["k"]], LTS[op["lt"]], op["len"], o.toks[0], exp))
        elif kind == "crc":
            exp = ref_gse_crc(op["pdu"].val, op["pt"], op["tl"], op["label"].val)
            if int(o.toks[0], 16) != exp:
                F(i, ["C12"], "DefaultCrc = %s, CRC-32/MPEG-2 reference = %08x" % (o.toks[0], exp))
        elif kind == "ext_new":
            idv, ln = op["id"], len(op["data"])
            should = idv < 0x600 and (idv < 0x100 or HLEN_SIZE.get(idv >> 8) == ln)
            if o.ok != should:
                F(i, ["C13"], "Extension::new(%#06x, %d bytes) -> %s, expected %s" % (idv, ln, o.res, "Ok" if should else "Err"))
            if o.ok:
                e = o.toks[1]
                if int(e[1:5], 16) != idv or unhex(e.split(":")[1]) != op["data"].val:
                    F(i, ["C13"], "Extension::new stored %s" % e)
                if int(o.toks[2]) != 2 + ln:
                    F(i, ["C13", "C06"], "Extension::len = %s for %d data bytes" % (o.toks[2], ln))

        # ------------------------------------------------------------------ encapsulator configuration
        elif kind and kind.startswith("enc_"):
            enc_state = o.state
            if kind == "enc_new":
                snd_enabled, snd_max, snd_prev, snd_run = True, 0, None, 0
                snd_xor = 0
            elif kind == "enc_reset":
                snd_prev = None
            elif kind == "enc_disable":
                snd_enabled, snd_max, snd_run = False, 0, 0
            elif kind == "enc_enable":
                snd_enabled, snd_max, snd_run = True, 0, 0
            elif kind == "enc_enable_max":
                snd_enabled, snd_max, snd_run = True, op["n"], 0
            elif kind == "enc_set_crc":
                snd_xor = op.get("n") or 0       # replacing the calculator does not touch the re-use policy

        # ------------------------------------------------------------------ encapsulation
        elif kind in ("encap", "encap_ext", "encap_frag"):
            pdu, buf, reg = op["pdu"].val, op["buf"].val, op["reg"]
            fact = {"ok": o.ok, "kind": None}
            info[i] = fact
            if kind != "encap_frag":
                # whether a re-use substitution may apply to this call (the previews take no encapsulator state)
                fact["would_subst"] = bool(snd_enabled and op["label"].kind in "63" and snd_prev == op["label"])
            if kind == "encap_frag":
                cx = op["ctx"]
                ctx = ctxs.get(cx) if isinstance(cx, int) else cx
                fact["ctx_in"] = ctx
                fact["chain"] = cx if isinstance(cx, int) else None
            if o.err:
                regs[reg] = (buf, 0)
                if o.kv.get("buf") != o.kv.get("pre") or o.kv.get("pre") != digest(buf):
                    F(i, ["C09"], "%s returned %s but modified the output buffer" % (kind, o.res.split(" buf=")[0]))
                if kind != "encap_frag" and enc_state is not None and o.state != enc_state:
                    F(i, ["C09", "C04", "C15"], "%s failed (%s) but the encapsulator changed: %s -> %s" % (kind, o.toks[1], enc_state, o.state))
                if kind != "encap_frag":
                    ctxs.pop(reg, None)
                if kind == "encap_frag" and o.toks[1] == "PduLength" and ctx is not None and ctx[2] <= len(pdu):
                    F(i, ["C09", "C11", "C02"], "encap_frag refused a context inside the PDU (the transfer can never be completed)")
                if kind == "encap_frag" and o.toks[1] == "SizeBuffer" and ctx is not None and ctx[2] <= len(pdu):
                    rem = len(pdu) - ctx[2]
                    # a buffer of 7 bytes always finishes or progresses; with payload left, 4 bytes carry one
                    if len(buf) >= 7 or (rem >= 1 and len(buf) >= 4):
                        F(i, ["C11", "C02"], "encap_frag refused a %d-byte buffer with %d bytes remaining (it can carry %s)"
                          % (len(buf), rem, "the final CRC packet" if rem == 0 else "payload"))
                enc_state = o.state if kind != "encap_frag" else enc_state
                continue
            # ---- ok
            status, n = o.toks[1], int(o.toks[2])
            outb = unhex(o.kv.get("out", "-"))
            regs[reg] = (outb + buf[n:], n) if len(outb) == n else (None, n)
            fact.update(status=status, n=n, out=outb)
            if op.get("utils_twin") is not None:
                ref = sess.ops[op["utils_twin"]]["ref"]
                if outb != ref:
                    F(i, ["C20"], "the encapsulator emits %s for the fields from which utils generates %s" % (outb.hex()[:60], ref.hex()[:60]))
            P6 = ["C06"] if kind != "encap_frag" else ["C06", "C02", "C11"]
            if n > len(buf):
                F(i, P6 + ["C09"], "reported length %d exceeds the %d-byte buffer" % (n, len(buf)))
            if o.kv.get("rest") != o.kv.get("prerest"):
                F(i, P6, "bytes at or beyond the reported length %d were modified" % n)
            # rejections that must never produce a packet
            if kind != "encap_frag":
                lab = op["label"]
                if lab == Label("6", bytes(6)):
                    F(i, ["C09"], "%s produced a packet for the zero 6-byte label" % kind)
                if 0x100 <= op["pt"] < 0x600:
                    F(i, ["C09"], "%s produced a packet for protocol type %#06x" % (kind, op["pt"]))
            # independent parse
            m = {}
            exts = op.get("exts")
            if exts:
                for k, (eid, ed) in enumerate(exts):
                    if eid < 0x100:
                        last = k == len(exts) - 1
                        m[eid] = ("F" if (last and op["pt"] < 0x100) else "N", len(ed))
            elif kind == "encap" and op["pt"] < 0x100:
                m[op["pt"]] = ("F", 0)
            pk = ref_parse(outb, m)
            if isinstance(pk, str):
                F(i, P6 + ["C10"] + (["C13"] if exts else []), "emitted packet does not parse (%s): %s" % (pk, outb[:24].hex()))
                enc_state = o.state if kind != "encap_frag" else enc_state
                continue
            fact["pkt"] = pk
            if pk.total != n:
                # (a frame walker advances by GSE length + 2: a packet laid with its reported length is then mis-framed)
                F(i, P6 + ["C10"] + (["C13"] if exts else []), "returned length %d but GSE length + 2 = %d" % (n, pk.total))
            want_kind = {("encap", "C"): "C", ("encap", "F"): "F", ("encap_ext", "C"): "C", ("encap_ext", "F"): "F",
                         ("encap_frag", "C"): "E", ("encap_frag", "F"): "I"}[(kind, status)]
            fact["kind"] = want_kind
            if pk.kind != want_kind:
                F(i, P6, "status %s but start/end bits say %s" % (status, pk.kind))
            if kind == "encap_frag":
                if ctx is None:
                    continue
                fid, crc, pos = ctx
                if pk.lt != "U":
                    F(i, P6 + ["C10"], "continuation fragment with label type %s" % pk.lt)
                if pk.frag_id != fid:
                    F(i, P6 + ["C11"], "fragment id %s, context says %d" % (pk.frag_id, fid))
                if pos > len(pdu):
                    F(i, ["C09", "C11"], "encap_frag produced a packet for a context beyond the PDU")
                k = len(pk.payload)
                if pk.payload != pdu[pos:pos + k] or pos + k > len(pdu):
                    F(i, ["C11", "C06", "C02"], "payload is not pdu[%d..%d]" % (pos, pos + k))
                if status == "C":
                    if pos + k != len(pdu):
                        F(i, ["C11", "C02"], "end packet carries %d bytes, %d remained" % (k, len(pdu) - pos))
                    if pk.crc != crc:
                        F(i, ["C12", "C11", "C06"], "end packet trailer %08x, context crc %08x" % (pk.crc, crc))
                    if fact["chain"] is not None:
                        ctxs.pop(op["cout"], None)
                else:
                    nf, ncrc, npos = int(o.toks[3]), int(o.toks[4], 16), int(o.toks[5])
                    if k < 1:
                        F(i, ["C11"], "empty intermediate fragment emitted")
                    if (nf, ncrc) != (fid, crc) or npos != (pos + k) % 65536:
                        F(i, ["C11", "C02"], "context %s -> (%d,%08x,%d) after %d payload bytes" % (ctx, nf, ncrc, npos, k))
                    ctxs[op["cout"]] = (nf, ncrc, npos)
                fact["payload_len"] = k
                continue
            # ---- start / complete packets
            lab = op["label"]
            fact["passed"] = lab
            fact["prev_before"] = snd_prev
            wl = pk.lt
            subst = wl == "U" and lab.kind != "U"
            fact["subst"] = subst
            if lab.kind == "U":
                fact["intended"] = snd_prev
                if wl != "U":
                    F(i, P6 + ["C04"], "explicit re-use label written as type %s" % wl)
            elif subst:
                fact["intended"] = lab
                why = None
                if not snd_enabled:
                    why = "re-use is disabled"
                elif lab.kind not in "63":
                    why = "label kind %s cannot be re-used" % lab.kind
                elif snd_prev != lab:
                    why = "previous start/complete packet carried %s" % snd_prev
                elif snd_max > 0 and snd_run + 1 > snd_max:
                    why = "%d consecutive re-uses exceed the maximum %d" % (snd_run + 1, snd_max)
                if why:
                    F(i, ["C15", "C04"], "label %s replaced by re-use although %s" % (lab, why))
                snd_run += 1
            else:
                fact["intended"] = lab
                if pk.lt != lab.kind or pk.label.data != lab.data:
                    F(i, P6 + ["C01", "C04"], "label on the wire %s, passed %s" % (pk.label, lab))
                snd_prev = None if lab.kind == "B" else lab
                snd_run = 0
            if pk.kind == "F" and pk.frag_id != op["fid"]:
                F(i, P6, "fragment id %s, passed %d" % (pk.frag_id, op["fid"]))
            # protocol type / extensions
            if exts:
                want_exts = [(eid, bytes(ed)) for eid, ed in exts]
                if pk.exts != want_exts or pk.pt != op["pt"]:
                    F(i, ["C13", "C06"], "extension chain on the wire %s / type %#06x, passed %s / %#06x" % (pk.exts, pk.pt, want_exts, op["pt"]))
                if not (op["pt"] >= 0x600 or (op["pt"] < 0x100 and exts[-1][0] == op["pt"])):
                    F(i, ["C13"], "encap_ext accepted an undecodable extensions/protocol-type combination")
            else:
                if pk.pt != op["pt"]:
                    F(i, P6 + ["C01"], "protocol type on the wire %#06x, passed %#06x" % (pk.pt, op["pt"]))
            k = len(pk.payload)
            wlen = 0 if wl in "BU" else (6 if wl == "6" else 3)
            if status == "C":
                if pk.payload != pdu:
                    F(i, ["C01", "C06"], "complete packet payload differs from the PDU")
                ctxs.pop(reg, None)
            else:
                nf, ncrc, npos = int(o.toks[3]), int(o.toks[4], 16), int(o.toks[5])
                ctxs[reg] = (nf, ncrc, npos)
                if pk.payload != pdu[:k] or k >= len(pdu) + 1:
                    F(i, ["C11", "C06", "C02"], "first fragment payload is not a prefix of the PDU")
                if npos != k:
                    F(i, ["C11", "C02"], "context counts %d bytes, first fragment carried %d" % (npos, k))
                if nf != op["fid"]:
                    F(i, ["C11"], "context frag id %d, passed %d" % (nf, op["fid"]))
                if pk.total_len != 2 + wlen + len(pdu):      # over the naturals: a sum beyond 65535 must have been refused
                    F(i, P6 + ["C02"] + (["C13"] if exts else []) + (["C09"] if 2 + wlen + len(pdu) > 65535 else []),
                      "total length %s, expected %d (protocol type + label as written + PDU)%s"
                      % (pk.total_len, 2 + wlen + len(pdu), "; a PDU exceeding the 16-bit total length must be refused" if 2 + wlen + len(pdu) > 65535 else ""))
                tl = (len(pdu) + 2 + wlen) & 0xFFFF
                lb = pk.label.data if wl in "63" else b""
                exp_crc = ref_gse_crc(pdu, op["pt"], tl, lb) ^ snd_xor      # the calculator currently set on the encapsulator
                if ncrc != exp_crc:
                    F(i, ["C12", "C02"] + (["C13"] if exts else []), "context crc %08x, CRC-32/MPEG-2 of tl|pt|label|pdu is %08x" % (ncrc, exp_crc))
                fact["payload_len"] = k
            # C01 second sentence: must be complete whenever it fits
            fits = (2 + wlen + len(pdu) <= 4095) and (4 + wlen + len(pdu) <= len(buf))
            if not exts and fits and status != "C":
                F(i, ["C01"], "PDU of %d bytes with %d-byte label fits buffer %d and GSE length but was fragmented" % (len(pdu), wlen, len(buf)))
            if not exts and not fits and status == "C":
                F(i, ["C01", "C06"], "complete packet reported although it does not fit")
            enc_state = o.state

        # ------------------------------------------------------------------ previews
        elif kind == "preview":
            info[i] = {"preview": o}
        elif kind == "frag_preview":
            info[i] = {"preview": o}

        # ------------------------------------------------------------------ receiver
        elif kind == "dec_new":
            dec_alive = True
            mg = op["mgr"]
            if mg == "sig":
                mand = {0x81: ("F", 0), 0x82: ("F", 0)}
            else:
                mand = dict(mg) if mg else {}
            rx_last = None
            sess._rcv_xor = op.get("crc") or 0      # the calculator handed to Decapsulator::new
            trains = {}
            created, owned, held, lost_by_contract = set(), set(), {}, set()
            ref_mem = {"cap": op["slots"] + 2, "n": op["slots"], "sz": op["maxpdu"], "free": [], "slots": [None] * op["slots"]}
            check_mem_state(i, o, ref_mem, F)
        elif kind in ("prov", "reprov", "mem_release"):
            if kind == "prov":
                sid = str(nprov)
                nprov += 1
                created.add(sid)
                ln = op["len"]
            elif kind == "reprov":
                sid = str(op["id"])
                owned.discard(sid)
                ln = None
            else:
                sid = held.pop(op["h"], None)
                ln = None
            if ref_mem is not None and sid is not None:
                if ln is None:
                    ln = ref_mem.setdefault("lens", {}).get(sid)
                ref_mem.setdefault("lens", {})[sid] = ln
                if len(ref_mem["free"]) >= ref_mem["cap"]:
                    exp = "err overflow:" + sid
                elif ln is not None and ln < ref_mem["sz"]:
                    exp = "err toosmall:" + sid
                else:
                    exp = "ok " + sid
                    ref_mem["free"].append(sid)
                if ln is not None and o.res != exp:
                    F(i, ["C17"], "provision_storage -> %s, contract says %s" % (o.res, exp))
            if not o.ok and sid is not None:
                owned.add(sid)
            check_conservation(i, o, created, owned, held, lost_by_contract, F)
            check_mem_state(i, o, ref_mem, F)
        elif kind == "dec_reset":
            rx_last = None
        elif kind == "dec_newpdu":
            if ref_mem is not None:
                if ref_mem["free"]:
                    sid = ref_mem["free"].pop()
                    if not o.ok or o.toks[1] != sid:
                        F(i, ["C17"], "new_pdu -> %s, contract says ok %s" % (o.res, sid))
                elif o.ok or o.toks[1] != "underflow":
                    F(i, ["C17"], "new_pdu -> %s on an empty free list" % o.res)
            if o.ok:
                owned.add(o.toks[1])
            check_conservation(i, o, created, owned, held, lost_by_contract, F)
            check_mem_state(i, o, ref_mem, F)
        elif kind == "mem_swap":
            # the caller keeps the storage of a held context and puts a fresh one in its place
            if o.ok and op["h"] in held:
                owned.add(held[op["h"]])
                sid = str(nprov)
                nprov += 1
                created.add(sid)
                held[op["h"]] = sid
                if ref_mem is not None:
                    ref_mem.setdefault("lens", {})[sid] = op["len"]
        elif kind in ("mem_new_frag", "mem_take", "mem_save"):
            ref_mem_op(i, op, o, ref_mem, held, lost_by_contract, trains, F)
            check_conservation(i, o, created, owned, held, lost_by_contract, F)
            check_mem_state(i, o, ref_mem, F)
        elif kind == "setreg":
            v = eval_bs(op["expr"], regs)
            regs[op["reg"]] = (v, len(v) if v is not None else 0)
        elif kind == "xorreg":
            r = regs.get(op["reg"])
            if r and r[0] is not None:
                b = bytearray(r[0])
                for k, x in enumerate(op["x"]):
                    b[op["off"] + k] ^= x
                regs[op["reg"]] = (bytes(b), r[1])
        elif kind == "setlen":
            r = regs.get(op["reg"])
            if r:
                regs[op["reg"]] = (r[0], op["n"])
        elif kind == "peek":
            fed = eval_bs(op["expr"], regs)
            if fed is None:
                continue
            exp = ref_peek(fed)
            got = o.res
            if exp is not None and got != exp:
                F(i, ["C19"], "peek -> %s, independent reading gives %s" % (got, exp))
            src = info.get(op.get("of"))
            if src and src.get("ok") and src.get("pkt") is not None:
                pk = src["pkt"]
                if pk.kind in "IE":
                    want = "ok fid %d" % pk.frag_id
                elif src.get("subst") or pk.lt == "U":
                    want = "err reuse"
                else:
                    want = "ok lbl %s" % src["passed"].tok()
                if got != want:
                    F(i, ["C19"], "peek of an encapsulator packet -> %s, expected %s" % (got, want))
        elif kind in ("decap", "walk"):
            fed = eval_bs(op["expr"], regs)
            steps = o.res.split(" ;; ") if kind == "walk" else [o.res]
            pos = 0
            for sn, st in enumerate(steps):
                so = Out(st)
                if so.toks[0] in ("stall", "fuel"):
                    F(i, ["C05", "C10"], "frame walk %s" % so.toks[0])
                    break
                cons = dec_consumed(so)
                rem = fed[pos:] if fed is not None else None
                if rem is not None and cons is not None:
                    if cons > len(rem):
                        F(i, ["C05"], "decap consumed %d of a %d-byte buffer" % (cons, len(rem)))
                    if len(rem) > 0 and cons < min(2, len(rem)):
                        F(i, ["C05", "C10"], "decap consumed %d of a %d-byte buffer (no progress)" % (cons, len(rem)))
                # state-dependent oracles only for single decaps (the snapshot follows each op)
                if kind == "decap" and rem is not None:
                    rx_last = decap_oracle(i, op, so, o, rem, mand, rx_last, trains, info, strict_lockstep, sess, F)
                if so.ok and so.toks[1] == "C":
                    owned.add(so.kv["id"])
                if so.err and so.toks[1].startswith("Memory.") and ":" in so.toks[1]:
                    owned.add(so.toks[1].split(":")[1])
                if cons is None:
                    break
                pos += cons
            if kind == "walk":
                trains.clear()   # not tracked across walks
                trains["__unknown__"] = "?"
                rx_last = "?"
            check_conservation(i, o, created, owned, held, lost_by_contract, F)
            if o.state.startswith("D "):
                now = parse_mem_state(o.state)
                before = parse_mem_state(dstate_before) if dstate_before else None
                # C08, second sentence: a decap call that ends in an error returns any buffer it took — the free list
                # never shrinks on an error (a storage handed out inside the error value is accounted for by identity)
                if kind == "decap" and o.err and before is not None and before.get("n") == now.get("n") \
                        and len(now["free"]) < len(before["free"]) and ":" not in o.toks[1]:
                    F(i, ["C08"], "decap ended in %s but kept a storage it took: free list %d -> %d storages"
                      % (o.toks[1], len(before["free"]), len(now["free"])))
                sess._prev_mem = now
            if kind == "decap":
                sync_trains(i, o, trains, F)
            if ref_mem is not None:
                if o.state == "?":
                    ref_mem = None      # degraded harness: what decap did to the memory cannot be observed
                else:
                    resync_ref_mem(o, ref_mem)

    # previews against the encapsulation that follows them
    pair_previews(sess, outs, info, F)
    # session-level delivery expectations (merge / recovery suites)
    for (d, pdu, props, lab) in getattr(sess, "expect", []):
        check_delivery(outs, d, pdu, props, lab, F)
    for (d, props) in getattr(sess, "expect_frag", []):
        if d < len(outs) and not (outs[d].ok and outs[d].toks[1] == "F"):
            F(d, props, "fragment of an in-order train not accepted: %s" % outs[d].res[:80])
    # C10: the outcome for a packet does not depend on the bytes that follow it
    groups = {}
    for i, op in enumerate(sess.ops):
        if op.get("tailvariant") is not None and info.get(op.get("of"), {}).get("ok") and i < len(outs) \
                and outs[i].toks[0] not in ("skip", "bad-op", "skipped"):
            groups.setdefault(op.get("of"), []).append((i, outs[i].res))
    for of, lst in groups.items():
        base = lst[0][1]
        for i, r in lst[1:]:
            if strip_ids(r) != strip_ids(base):
                F(i, ["C10"], "outcome depends on the bytes after the packet: alone `%s`, followed by %s `%s`" % (base[:90], sess.ops[i]["tailvariant"], r[:90]))
    el = getattr(sess, "expect_last", None)
    if el:
        ds, pdu, props, lab = el
        fed = [d for d in ds if d < len(outs) and outs[d].toks[0] not in ("skip", "bad-op", "skipped")]
        if fed:
            for d in fed[:-1]:
                if not (outs[d].ok and outs[d].toks[1] == "F"):
                    F(d, props, "fragment of the probe transfer not accepted: %s" % outs[d].res[:80])
            check_delivery(outs, fed[-1], pdu, props, lab, F)
    return fails


def check_delivery(outs, d, pdu, props, lab, F):
    if d >= len(outs):
        return
    o = outs[d]
    if o.toks[0] in ("skip", "bad-op", "skipped"):
        return
    if not (o.ok and o.toks[1] == "C"):
        F(d, props, "PDU not delivered at its end / complete packet: %s" % o.res[:80])
        return
    meta = o.kv["meta"].split(",")
    if o.kv["pdu"] != digest(pdu.val) or int(meta[0]) != len(pdu.val):
        F(d, props, "delivered %s, sent %s" % (o.kv["pdu"], digest(pdu.val)))
    if lab is not None and lab.kind != "U" and meta[2] != lab.tok():
        F(d, props, "delivered under label %s, sent for %s" % (meta[2], lab))


def dec_consumed(so):
    try:
        if so.ok:
            return int(so.toks[2])
        if so.err:
            return int(so.toks[-1])
    except (ValueError, IndexError):
        pass
    return None


def ref_peek(b):
    """independent statement of what the peek must answer for a buffer starting with a packet;
    None when the answer is not pinned down by the property (truncated buffers)."""
    if len(b) < 2:
        return "err size"
    h = ref_hdr_read((b[0] << 8) | b[1])
    if h is None:
        return "err header"
    gl, kind, lt = h
    if kind in "IE":
        return "ok fid %d" % b[2] if len(b) >= 4 + {"6": 6, "3": 3, "B": 0, "U": 0}[lt] else None
    if lt == "B":
        return "ok lbl B"
    if lt == "U":
        return "err reuse"
    off = 4 + (3 if kind == "F" else 0)
    ll = 6 if lt == "6" else 3
    if len(b) < off + ll:
        return "err size"
    return "ok lbl %s:%s" % (lt, b[off:off + ll].hex())


def check_conservation(i, o, created, owned, held, lost, F):
    if not o.state.startswith("D "):
        return
    st = parse_mem_state(o.state)
    ids = [x for x, _ in st["free"]] + [s["id"] for s in st["slots"] if isinstance(s, dict)]
    seen = list(ids) + list(owned) + list(held.values())
    dup = set(x for x in seen if seen.count(x) > 1)
    if dup:
        F(i, ["C08"], "storage %s is in two places at once" % sorted(dup))
    missing = created - set(seen) - lost
    if missing:
        F(i, ["C08", "C16"], "storage %s leaked: not free, not in a reassembly, not with the caller" % sorted(missing))
    alien = set(x for x in ids if x not in created)
    if alien:
        F(i, ["C08"], "unknown storage %s inside the memory" % sorted(alien))
    if st["cap"] is not None and len(st["free"]) > st["cap"]:
        F(i, ["C17", "C05"], "free list holds %d storages, capacity %d" % (len(st["free"]), st["cap"]))


def check_mem_state(i, o, ref, F):
    if ref is None or not o.state.startswith("D "):
        return
    st = parse_mem_state(o.state)
    if [x for x, _ in st["free"]] != ref["free"]:
        F(i, ["C17"], "free list %s, bag-of-buffers reference %s" % ([x for x, _ in st["free"]], ref["free"]))
    got = [None if s is None else (s["fid"], s["id"]) for s in st["slots"]]
    want = [None if s is None else (s[0], s[1]) for s in ref["slots"]]
    if got != want:
        F(i, ["C17", "C07"], "slots %s, reference %s" % (got, want))
    if st["cap"] != ref["cap"]:
        F(i, ["C17"], "capacity %s, expected %s" % (st["cap"], ref["cap"]))


def resync_ref_mem(o, ref):
    """after a decap the reference memory adopts the observed state (decap is judged by its own oracles)"""
    if not o.state.startswith("D "):
        return
    st = parse_mem_state(o.state)
    ref["free"] = [x for x, _ in st["free"]]
    ref["slots"] = [None if s is None else (s["fid"], s["id"]) for s in st["slots"]]
    for x, l in st["free"]:
        ref.setdefault("lens", {})[x] = l
    for s in st["slots"]:
        if isinstance(s, dict):
            ref.setdefault("lens", {})[s["id"]] = s["len"]


def ref_mem_op(i, op, o, ref, held, lost, trains, F):
    if ref is None:
        return
    kind = op["op"]
    n = ref["n"]
    if kind == "mem_new_frag":
        if n == 0:
            exp = "err underflow"
        else:
            idx = op["fid"] % n
            if ref["slots"][idx] is not None:
                sid = ref["slots"][idx][1]
                ref["slots"][idx] = None
                exp = "ok " + sid
            elif ref["free"]:
                sid = ref["free"].pop()
                exp = "ok " + sid
            else:
                exp = "err underflow"
        got = ("ok " + o.kv.get("id", "?")) if o.ok else o.res
        if got != exp:
            F(i, ["C17", "C07"], "new_frag(%d) -> %s, contract says %s" % (op["fid"], got, exp))
        if o.ok:
            held[int(o.kv["h"])] = o.kv["id"]
            ref.setdefault("hfid", {})[int(o.kv["h"])] = op["fid"]
    elif kind == "mem_take":
        if n == 0:
            exp = "err undefined"
        else:
            idx = op["fid"] % n
            sl = ref["slots"][idx]
            if sl is not None and sl[0] == op["fid"]:
                ref["slots"][idx] = None
                exp = "ok " + sl[1]
            else:
                exp = "err undefined"
        got = ("ok " + o.kv.get("id", "?")) if o.ok else o.res
        if got != exp:
            F(i, ["C17", "C07"], "take_frag(%d) -> %s, contract says %s" % (op["fid"], got, exp))
        if o.ok:
            held[int(o.kv["h"])] = o.kv["id"]
            cx = o.kv["ctx"].split("/")
            ref.setdefault("hfid", {})[int(o.kv["h"])] = int(cx[0])
    elif kind == "mem_save":
        sid = held.pop(op["h"], None)
        if sid is None:
            return
        fid = op["fid"]
        if fid is None:
            fid = ref.get("hfid", {}).get(op["h"])
        if fid is None:
            return
        if n == 0:
            exp = "err corrupted"
        else:
            idx = fid % n
            if ref["slots"][idx] is None:
                ref["slots"][idx] = (fid, sid)
                exp = "ok"
            else:
                exp = "err corrupted"
        if exp != "ok":
            lost.add(sid)      # save_frag cannot hand the storage back (trait signature)
        if o.res != exp:
            F(i, ["C17"], "save_frag(frag id %d) -> %s, contract says %s" % (fid, o.res, exp))


def sync_trains(i, o, trains, F):
    """drop python-side trains whose context is gone, compare the others with the snapshot"""
    if not o.state.startswith("D "):
        return
    st = parse_mem_state(o.state)
    present = {}
    for s in st["slots"]:
        if isinstance(s, dict):
            present[s["fid"]] = s
    for fid in list(trains):
        if fid not in present and fid != "__unknown__":
            del trains[fid]
    for fid, s in present.items():
        t = trains.get(fid)
        if t is None or t == "?":
            continue
        if s["pdulen"] != len(t.payload) or s["digest"] != digest(bytes(t.payload)):
            F(i, ["C03", "C07", "C02"], "reassembly of frag id %d holds %d bytes (%s), the fragments accepted so far give %d bytes (%s)"
              % (fid, s["pdulen"], s["digest"], len(t.payload), digest(bytes(t.payload))))
            trains[fid] = "?"


def nslots_at(sess, i):
    """slot count of the receiver in use at op i (from the session's own dec_new ops)"""
    tab = sess.__dict__.get("_ns_at")
    if tab is None or len(tab) != len(sess.ops):
        tab = []
        cur = None
        for q in sess.ops:
            if q.get("op") == "dec_new":
                cur = q.get("slots")
            tab.append(cur)
        sess._ns_at = tab
    return tab[i] if i < len(tab) else None


def decap_oracle(i, op, so, o, fed, mand, rx_last, trains, info, strict, sess, F):
    """judges one decap result against the independent parse of the bytes actually fed"""
    pk = ref_parse(fed, mand)
    src = info.get(op.get("of")) if op.get("of") is not None else None
    if isinstance(pk, str):
        if so.ok and not (pk == "padding" and so.toks[1] == "P"):
            F(i, ["C03", "C05", "C13"], "decap accepted bytes that do not parse (%s)" % pk)
        if pk == "padding":
            if len(fed) >= 2 and so.res != "ok P %d" % len(fed):
                F(i, ["C10"], "padding not reported as padding consuming the buffer: %s" % so.res)
            return None
        if pk == "unknown-mandatory":
            # the whole packet is dropped, consuming its own length
            h = ref_hdr_read((fed[0] << 8) | fed[1])
            if h[1] == "F" and len(fed) > 2:
                sess.__dict__.setdefault("_rejected", set()).add(fed[2])
            sess._label_desync = True     # the receiver rightly forgot the label: later re-use cannot resolve
            if so.ok or (so.toks[1] == "UnkownMandatoryHeader" and int(so.toks[2]) != h[0] + 2):
                F(i, ["C13", "C10"], "packet with an unknown mandatory extension: %s" % so.res)
        # A start/complete packet that is refused for what FOLLOWS its label (extension chain running past the
        # packet, length fields) still is the nearest preceding start/complete packet for the re-use labels that
        # come after it: a later re-use label must never be resolved to the label remembered BEFORE it.
        if len(fed) >= 2 and so.err:
            h = ref_hdr_read((fed[0] << 8) | fed[1])
            if h is not None and h[1] in "CF" and len(fed) >= h[0] + 2:
                off = 4 if h[1] == "C" else 7
                ln = {"6": 6, "3": 3, "B": 0, "U": 0}[h[2]]
                if h[0] + 2 >= off + ln:
                    if h[2] == "B":
                        return None
                    if h[2] in "63":
                        return Label(h[2], bytes(fed[off:off + ln]))
        return rx_last
    n = pk.total
    cons = dec_consumed(so)
    train_before = trains.get(pk.frag_id) if pk.kind in "IE" else None
    if pk.kind == "F" and so.err and so.toks[1].startswith("Memory.overflow") and sess.__dict__.get("_prev_mem"):
        pm = sess._prev_mem
        nslots = pm["n"] or 0
        use = None
        if nslots:
            sl = pm["slots"][pk.frag_id % nslots] if pk.frag_id % nslots < len(pm["slots"]) else None
            if isinstance(sl, dict):
                use = sl["len"]
            elif pm["free"]:
                use = pm["free"][-1][1]
        if use is not None and use >= len(pk.payload):
            F(i, ["C07", "C16", "C02"], "a valid first fragment of frag id %d was refused with %s although a %d-byte storage was at hand for its %d payload bytes"
              % (pk.frag_id, so.toks[1], use, len(pk.payload)))
    # per-packet rejections consume exactly the packet
    if so.err and so.toks[1] in ("Crc", "Memory.undefined", "Memory.underflow", "UnkownMandatoryHeader", "NoLabelSaved",
                                 "SizePduBuffer", "TotalLength", "InvalidLabel") and cons != n:
        # (a first fragment whose total length does not exceed its own payload is malformed: the rest of the buffer
        # is dropped with it; every other rejection of a well-formed packet consumes the packet only)
        if not (so.toks[1] == "TotalLength" and pk.kind == "F"):
            F(i, ["C10"], "packet of %d bytes rejected with %s consumed %s" % (n, so.toks[1], cons))
    if so.ok and cons != n:
        F(i, ["C10", "C01", "C02"], "accepted packet of %d bytes, consumed %s" % (n, cons))
    new_last = rx_last
    if pk.kind in "CF":
        # label resolution (receiver-only half of C04)
        if pk.lt == "U":
            resolved = rx_last
        elif pk.lt == "B":
            resolved = Label("B")
        else:
            resolved = pk.label
        if so.ok:
            meta = so.kv["meta"].split(",")
            got_label = meta[2]
            if rx_last != "?":
                if pk.lt == "U" and (rx_last is None or got_label != rx_last.tok()):
                    F(i, ["C04"], "re-use label resolved to %s, nearest preceding start/complete label is %s" % (got_label, rx_last))
                if pk.lt != "U" and got_label != resolved.tok():
                    F(i, ["C04", "C01"], "label reported %s, packet carries %s" % (got_label, resolved))
            if int(meta[1], 16) != pk.pt:
                F(i, ["C01", "C13"], "protocol type reported %s, packet carries %#06x" % (meta[1], pk.pt))
            new_last = None if pk.lt == "B" else (pk.label if pk.lt in "63" else rx_last)
            if pk.kind == "C":
                if so.toks[1] != "C":
                    F(i, ["C01"], "complete packet answered with status %s" % so.toks[1])
                elif so.kv["pdu"] != digest(pk.payload) or int(meta[0]) != len(pk.payload):
                    F(i, ["C01", "C13"], "delivered PDU %s, packet payload %s" % (so.kv["pdu"], digest(pk.payload)))
                want_exts = ext_tok(pk.exts)
                if ",".join(meta[3:]) != want_exts:
                    F(i, ["C13"], "extensions reported %s, on the wire %s" % (",".join(meta[3:]), want_exts))
            else:
                if so.toks[1] != "F":
                    F(i, ["C02"], "first fragment answered with status %s" % so.toks[1])
                t = Train(pk, got_label)
                # a new first fragment restarts only its own slot: aliasing trains are replaced
                st = parse_mem_state(o.state)
                trains[pk.frag_id] = t
        else:
            # rejected, but it still is the nearest preceding start/complete packet of the frame
            new_last = None if pk.lt == "B" else (pk.label if pk.lt in "63" else rx_last)
    else:
        t = trains.get(pk.frag_id)
        if so.ok:
            if t is None and "__unknown__" in trains:
                pass
            elif t is None:
                F(i, ["C03", "C07"], "fragment of frag id %d accepted without a reassembly in progress" % pk.frag_id)
            elif t != "?":
                t.payload += pk.payload
                meta = so.kv["meta"].split(",")
                if meta[2] != t.resolved or int(meta[1], 16) != t.pt:
                    F(i, ["C02", "C04", "C07"], "fragment status carries %s/%s, first fragment had %s/%04x" % (meta[2], meta[1], t.resolved, t.pt))
                if ",".join(meta[3:]) != ext_tok(t.exts):
                    F(i, ["C13", "C03", "C07"], "fragment status carries extensions %s, first fragment had %s" % (",".join(meta[3:]), ext_tok(t.exts)))
                if pk.kind == "E":
                    P = bytes(t.payload)
                    lb = t.label.data if t.lt in "63" else b""
                    ok_len = len(P) + 2 + len(lb) == t.total_len
                    ok_crc = ref_gse_crc(P, t.pt, t.total_len, lb) ^ sess.__dict__.get("_rcv_xor", 0) == pk.crc
                    if so.toks[1] != "C":
                        F(i, ["C02"], "end fragment answered with status %s" % so.toks[1])
                    else:
                        if not (ok_len and ok_crc):
                            F(i, ["C03", "C12"], "PDU delivered although %s" % ("length %d+2+%d != total length %d" % (len(P), len(lb), t.total_len) if not ok_len else "the CRC does not verify"))
                        if so.kv["pdu"] != digest(P) or int(meta[0]) != len(P):
                            F(i, ["C03", "C02"], "delivered bytes %s differ from the concatenated payloads %s" % (so.kv["pdu"], digest(P)))
                        if ",".join(meta[3:]) != ext_tok(t.exts):
                            F(i, ["C13", "C03", "C07"], "extensions reported %s, first fragment carried %s" % (",".join(meta[3:]), ext_tok(t.exts)))
                    trains.pop(pk.frag_id, None)
                elif so.toks[1] != "F":
                    F(i, ["C02"], "intermediate fragment answered with status %s" % so.toks[1])
        else:
            # the ghost of C03 (Lemmas/Reassembly.lean, trainStep): a refused fragment of the tracked id closes the
            # train — whatever the implementation did with its context — except an intermediate packet without
            # payload (GseLength) and an end packet shorter than id + trailer (SizeBuffer), which are not fragments
            # of the train at all.  A later delivery on this id is then "accepted without a reassembly".
            if t is not None and ((pk.kind == "I" and so.toks[1] != "GseLength") or (pk.kind == "E" and so.toks[1] != "SizeBuffer")):
                trains.pop(pk.frag_id, None)
    # lock-step expectations: the packet came straight from the encapsulator, every earlier packet was
    # fed too, and storage is sufficient by construction of the session
    if strict and sess.__dict__.get("_strict_ok", True) and src is not None and src.get("ok") and src.get("pkt") is not None:
        if so.err:
            if so.toks[1] == "Memory.underflow" or so.toks[1].startswith("Memory.overflow"):
                sess._strict_ok = False      # resources ran out: later packets of this session are not judged
            elif pk.kind in "CF" and src.get("passed") is not None and src["passed"].kind == "U" and src.get("prev_before") is None:
                # explicit re-use label with nothing to re-use: rejection is right
                if pk.kind == "F":
                    sess.__dict__.setdefault("_rejected", set()).add(pk.frag_id)
            elif pk.kind in "CF" and so.toks[1] == "NoLabelSaved" and sess.__dict__.get("_label_desync"):
                pass                         # re-use after a start/complete packet the receiver had to drop
            elif pk.kind in "IE" and so.toks[1] == "Memory.undefined" and pk.frag_id in sess.__dict__.get("_rejected", set()):
                pass                         # continuation of a train whose first fragment was rightly refused
            elif pk.kind in "IE" and so.toks[1] == "Memory.undefined" and pk.frag_id in sess.__dict__.get("_orphaned", set()):
                pass                         # continuation of a train that was replaced by one on an aliasing frag id
            else:
                tr = train_before
                with_exts = bool(pk.exts) or (tr is not None and tr != "?" and bool(tr.exts))
                F(i, ["C01" if pk.kind == "C" else "C02", "C04"] + (["C13"] if with_exts else []),
                  "packet produced by the encapsulator rejected: %s" % so.res)
                sess._strict_ok = False
            if pk.kind == "F":
                sess.__dict__.setdefault("_rejected", set()).add(pk.frag_id)
        if so.ok and pk.kind == "F":
            sess.__dict__.setdefault("_rejected", set()).discard(pk.frag_id)
            # trains in flight by the session's own book-keeping (not the observed state): an accepted first
            # fragment replaces whatever train shares its slot
            ns = nslots_at(sess, i)
            opened = sess.__dict__.setdefault("_open_fids", set())
            orph = sess.__dict__.setdefault("_orphaned", set())
            orph.discard(pk.frag_id)
            if ns:
                for g in list(opened):
                    if g != pk.frag_id and g % ns == pk.frag_id % ns:
                        opened.discard(g)
                        orph.add(g)
            opened.add(pk.frag_id)
        if so.ok and pk.kind == "E":
            sess.__dict__.setdefault("_open_fids", set()).discard(pk.frag_id)
        if so.ok and pk.kind in "CF" and pk.lt in "63":
            sess._label_desync = False
        if so.ok and pk.kind in "CF" and src.get("intended") is not None:
            meta = so.kv["meta"].split(",")
            if meta[2] != src["intended"].tok():
                F(i, ["C04", "C01" if pk.kind == "C" else "C02"], "PDU sent for label %s attributed to %s" % (src["intended"], meta[2]))
        if so.ok and so.toks[1] == "C":
            pdu = src_pdu(sess, op)
            if pdu is not None and (so.kv["pdu"] != digest(pdu)):
                F(i, ["C01" if pk.kind == "C" else "C02"], "delivered PDU %s, sent PDU %s" % (so.kv["pdu"], digest(pdu)))
    return new_last


def ext_tok(exts):
    if not exts:
        return "-"
    out = []
    for eid, d in exts:
        if eid < 0x100:
            k = "M"
        else:
            k = {0: "N", 2: "2", 4: "4", 6: "6", 8: "8"}[len(d)]
        out.append("%s%04x:%s" % (k, eid, hexs(d)))
    return ",".join(out)


def pair_previews(sess, outs, info, F):
    ops = sess.ops
    for i, op in enumerate(ops):
        if op.get("op") == "preview":
            for j in range(i + 1, min(i + 4, len(ops))):
                q = ops[j]
                if q.get("op") == "encap" and q["pdu"].expr == op["pdu"].expr and q["pt"] == op["pt"] and q["label"] == op["label"] \
                        and len(q["buf"]) == op["buflen"]:
                    a, b = outs[i], outs[j]
                    if a.toks[0] in ("bad-op", "skipped") or b.toks[0] in ("bad-op", "skipped") or a.panic or b.panic:
                        break
                    f = info.get(j, {})
                    if f.get("subst") or f.get("would_subst"):
                        break
                    if a.err or b.err:
                        if not (a.err and b.err and a.toks[1] == b.toks[1]):
                            F(j, ["C18"], "preview says %s, encap says %s" % (a.res, b.res.split(" out=")[0].split(" buf=")[0]))
                    else:
                        want = {"C": "C", "F": "F"}[b.toks[1]]
                        if a.toks[1] != want or int(a.toks[3]) != int(b.toks[2]):
                            F(j, ["C18"], "preview says %s, encap says %s %s" % (a.res, b.toks[1], b.toks[2]))
                    break
        elif op.get("op") == "frag_preview":
            for j in range(i + 1, min(i + 3, len(ops))):
                q = ops[j]
                if q.get("op") == "encap_frag" and q["pdu"].expr == op["pdu"].expr and q["ctx"] == op["ctx"] and len(q["buf"]) == op["buflen"]:
                    a, b = outs[i], outs[j]
                    if a.toks[0] in ("bad-op", "skipped") or b.toks[0] in ("bad-op", "skipped") or a.panic or b.panic:
                        break
                    if a.err or b.err:
                        if not (a.err and b.err and a.toks[1] == b.toks[1]):
                            F(j, ["C18"], "frag preview says %s, encap_frag says %s" % (a.res, b.res.split(" out=")[0].split(" buf=")[0]))
                    else:
                        want = {"C": "E", "F": "I"}[b.toks[1]]
                        f = info.get(j, {})
                        pl = f.get("payload_len")
                        if a.toks[1] != want or int(a.toks[3]) != int(b.toks[2]) or (pl is not None and int(a.toks[2]) != pl):
                            F(j, ["C18"], "frag preview says %s, encap_frag says %s %s payload %s" % (a.res, b.toks[1], b.toks[2], pl))
                    break


def src_pdu(sess, op):
    j = op.get("of")
    if j is None:
        return None
    return sess.ops[j]["pdu"].val


def strip_ids(res):
    """decap result without storage identities (a twin receiver has its own storages)"""
    import re
    return re.sub(r"(id=|overflow:|toosmall:)\d+", r"\1#", res)


def analyse_suite(sessions, outs_of):
    """cross-session oracles; outs_of(si) -> outputs.  Returns [(session index, Fail)]."""
    res = []
    twins = {}
    for si, s in enumerate(sessions):
        t = getattr(s, "twin", None)
        if t:
            twins.setdefault(t, {})[s.name.rsplit("-", 1)[1]] = si
    for t, d in twins.items():
        if "single" not in d or "walk" not in d:
            continue
        a, b = sessions[d["single"]], sessions[d["walk"]]
        oa, ob = outs_of(d["single"]), outs_of(d["walk"])
        singles = [strip_ids(o.res) for op, o in zip(a.ops, oa) if op.get("op") == "decap" and o.toks[0] not in ("skip", "bad-op", "skipped")]
        wi = [i for i, op in enumerate(b.ops) if op.get("op") == "walk"]
        if not wi or ob[wi[0]].toks[0] in ("bad-op", "skipped"):
            continue
        steps = [strip_ids(x) for x in ob[wi[0]].res.split(" ;; ")] if ob[wi[0]].res else []
        if steps == [""]:
            steps = []
        if singles != steps:
            k = 0
            while k < min(len(singles), len(steps)) and singles[k] == steps[k]:
                k += 1
            res.append((d["walk"], Fail(wi[0], ["C10"], "walking the frame differs from decapsulating each packet alone at packet %d: alone `%s`, in the frame `%s`"
                                        % (k, (singles[k] if k < len(singles) else "<none>")[:100], (steps[k] if k < len(steps) else "<none>")[:100]))))
    return res
