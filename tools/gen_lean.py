#!/usr/bin/env python3
"""Translator for the data-like parts of dvb_gse_rust.

Re-reads /repo/src on every run and regenerates lean/GseVerif/Generated/*.lean:
  * every `pub const` of gse_standard.rs (as Nat definitions, same names),
  * the 256-entry CRC_TAB of crc.rs,
  * the arms of optionnal_extension_data_size_from_hlen (H-LEN table),
  * SimpleGseMemory::MIN_MARGIN,
  * the ids known by SignalisationMandatoryExtensionHeaderManager.

The hand-written model refers to these names only, so every theorem is
re-checked by `lake build` against what the source says now.  The script fails
loudly (exit 2) when an expected item cannot be located: that is a broken tie,
reported by ./check as such.  Files are rewritten only when their content
changes, so an unchanged source costs no rebuild.
"""
import os
import re
import sys

REPO = os.environ.get("VERIF_REPO", "/repo")
OUT = os.path.join(os.path.dirname(os.path.abspath(__file__)), "..", "lean", "GseVerif", "Generated")


class GenError(Exception):
    pass


def read(rel):
    p = os.path.join(REPO, rel)
    try:
        with open(p, encoding="utf-8") as f:
            return f.read()
    except OSError as e:
        raise GenError(f"cannot read {p}: {e}")


def strip_comments(src):
    src = re.sub(r"/\*.*?\*/", "", src, flags=re.S)
    return re.sub(r"//[^\n]*", "", src)


def eval_const_expr(expr, env):
    """Evaluate the tiny constant-expression language used in gse_standard.rs."""
    e = expr.strip()
    e = re.sub(r"\bas\s+(usize|u16|u32|u64|u8)\b", "", e)
    # numeric literals: digit separators and type suffixes (identifiers are left alone)
    e = re.sub(r"\b\d\w*\b", lambda m: re.sub(r"(usize|u16|u32|u64|u8)$", "", m.group(0).replace("_", "")), e)
    bits = {"u8": 8, "u16": 16, "u32": 32, "u64": 64, "usize": 64}
    e = re.sub(r"\b(u8|u16|u32|u64|usize)::MAX\b", lambda m: str((1 << bits[m.group(1)]) - 1), e)
    e = re.sub(r"\b(u8|u16|u32|u64|usize)::BITS\b", lambda m: str(bits[m.group(1)]), e)
    e = re.sub(r"\b0b([01]+)\b", lambda m: str(int(m.group(1), 2)), e)
    if not re.fullmatch(r"[\w\s+\-*/%<>|&^()]+", e):
        raise GenError(f"unsupported constant expression: {expr!r}")
    e = re.sub(r"(?<!/)/(?!/)", "//", e)
    names = set(re.findall(r"\b[A-Za-z_]\w*\b", e)) - {"0x", "0b"}
    names = {n for n in names if not re.fullmatch(r"0[xb]\w+", n)}
    for n in names:
        if n not in env:
            raise GenError(f"constant expression {expr!r} refers to unknown name {n}")
    try:
        return int(eval(e, {"__builtins__": {}}, dict(env)))
    except Exception as ex:
        raise GenError(f"constant expression {expr!r} could not be evaluated: {ex}")


HARNESS = os.environ.get("VERIF_HARNESS_BIN") or os.path.join(os.path.dirname(os.path.abspath(__file__)), "..", ".cache",
                                                               "harness-target", "debug", "gse_ops")


def probe_full(lines):
    """like probe, but whole output lines (result | state)"""
    import subprocess
    if not os.path.exists(HARNESS):
        raise GenError("shape not recognised in the source and no harness binary to probe the behaviour instead")
    p = subprocess.run([HARNESS], input=("session probe\n" + "\n".join(lines) + "\n").encode(), stdout=subprocess.PIPE,
                       stderr=subprocess.PIPE, timeout=120)
    return [o for o in p.stdout.decode().split("\n")[1:] if o]


def probe(lines):
    """run op lines through the harness built from /repo (fallback when a source shape is not recognised)"""
    import subprocess
    if not os.path.exists(HARNESS):
        raise GenError("shape not recognised in the source and no harness binary to probe the behaviour instead")
    p = subprocess.run([HARNESS], input=("session probe\n" + "\n".join(lines) + "\n").encode(), stdout=subprocess.PIPE,
                       stderr=subprocess.PIPE, timeout=120)
    out = p.stdout.decode().split("\n")[1:]
    return [o.split(" | ")[0] for o in out if o]


EXPECTED_CONSTS = [
    "COMPLETE_PKT", "FIRST_PKT", "INTERMEDIATE_PKT", "END_PKT", "START_END_MASK",
    "LABEL_6_B", "LABEL_3_B", "LABEL_BROADCAST", "LABEL_REUSE", "LABEL_TYPE_MASK",
    "LABEL_6_B_LEN", "LABEL_3_B_LEN", "LABEL_BROADCAST_LEN", "LABEL_REUSE_LEN",
    "FIXED_HEADER_LEN", "PROTOCOL_LEN", "FRAG_ID_LEN", "TOTAL_LENGTH_LEN", "FIRST_FRAG_LEN",
    "GSE_LEN_MAX", "GSE_LEN_MASK", "TOTAL_LEN_MAX", "CRC_LEN", "CRC_INIT",
    "SECOND_RANGE_PTYPE", "MAX_MANDATORY_VAL_PTYPE", "NCR_PROTOCOL_ID",
    "INTERNAL_SIGNALING_PROTOCOL_ID", "H_LEN_MASK",
]


def gen_consts():
    src = strip_comments(read("src/gse_standard.rs"))
    env = {}
    types = {}
    try:
        for m in re.finditer(r"(?:pub(?:\([^)]*\))?\s+)?const\s+(\w+)\s*:\s*(\w+)\s*=\s*([^;]+);", src):
            name, ty, expr = m.group(1), m.group(2), m.group(3)
            env[name] = eval_const_expr(expr, env)
            types[name] = ty
        for n in EXPECTED_CONSTS:
            if n not in env:
                raise GenError(f"constant {n} not found in src/gse_standard.rs")
    except GenError as why:
        # fallback: the values as the compiler evaluated them, printed by the harness built from /repo
        out = probe(["consts"])
        if len(out) != 1 or not out[0].startswith("ok "):
            raise GenError(f"{why}; and the harness could not report the compiled constants")
        env = {}
        for kv in out[0][3:].split(","):
            k, v = kv.split("=")
            env[k] = int(v)
        for n in EXPECTED_CONSTS:
            if n not in env:
                raise GenError(f"constant {n} not reported by the harness")
        types = {n: "compiled" for n in env}
        print(f"gen_lean: constants taken from the compiled crate ({why})")
    order = [(n, types[n]) for n in EXPECTED_CONSTS]

    # SimpleGseMemory::MIN_MARGIN
    mem = strip_comments(read("src/gse_decap/gse_decap_memory/mod.rs"))
    m = re.search(r"const\s+MIN_MARGIN\s*:\s*usize\s*=\s*([^;]+);", mem)
    min_margin = None
    if m:
        try:
            min_margin = eval_const_expr(m.group(1), env)
        except GenError:
            min_margin = None
    if min_margin is None:
        # behavioural fallback: capacity of the free list of a fresh 3-slot memory minus its slot count
        out = probe(["dec_new 3 16 -"])
        mm = re.search(r"cap=(\d+) n=(\d+)", " ".join(probe_full(["dec_new 3 16 -"])))
        if not mm:
            raise GenError("SimpleGseMemory::MIN_MARGIN not found and probing failed")
        min_margin = int(mm.group(1)) - int(mm.group(2))
        print("gen_lean: MIN_MARGIN probed from a fresh memory (definition not recognised in the source)")

    # ids known by SignalisationMandatoryExtensionHeaderManager (all Final(0))
    ext = strip_comments(read("src/header_extension/mod.rs"))
    m = re.search(
        r"impl\s+MandatoryHeaderExtensionManager\s+for\s+SignalisationMandatoryExtensionHeaderManager\s*\{.*?match\s+id\s*\{(.*?)\}\s*\}\s*\}",
        ext, flags=re.S)
    sig = []
    if m:
        try:
            for am in re.finditer(r"([\w\s|]+?)=>\s*MandatoryHeaderExt::(\w+)(?:\((\d+)\))?\s*,", m.group(1)):
                pats, kind, size = am.group(1), am.group(2), am.group(3)
                for pat in [p.strip() for p in pats.split("|")]:
                    if pat == "_":
                        if kind != "Unknown":
                            raise GenError("signalisation manager: default arm is not Unknown")
                        continue
                    if pat not in env:
                        raise GenError(f"signalisation manager: unknown id constant {pat}")
                    sig.append((env[pat], kind, int(size or 0)))
        except GenError:
            sig = []
    if not sig:
        # behavioural fallback: feed a complete broadcast packet whose type field is each mandatory id to a
        # decapsulator using the signalisation manager and read off how it was understood
        lines = []
        for i in range(256):
            lines += ["dec_new 1 16 sig", "prov 16 0", "decap h:e00c%04x0102030405060708090a" % i]
        out = probe(lines)
        if len(out) != 3 * 256:
            raise GenError("SignalisationMandatoryExtensionHeaderManager not recognised in the source and probing failed")
        for i in range(256):
            r = out[3 * i + 2]
            if r.startswith("ok C"):
                meta = r.split("meta=")[1].split(",")
                exts = ",".join(meta[3:]).split(",")
                first = exts[0]
                n = 0 if first.endswith(":-") else len(first.split(":")[1]) // 2
                if int(meta[1], 16) == i and len(exts) == 1:
                    sig.append((i, "Final", n))
                else:
                    sig.append((i, "NonFinal", n))
        sig.sort(reverse=True)
        print("gen_lean: signalisation manager probed from decap (match arms not recognised in the source)")

    lines = [
        "/-! GENERATED by tools/gen_lean.py from /repo/src — do not edit. -/",
        "namespace Gse.Gen",
        "",
        "-- src/gse_standard.rs",
    ]
    for name, ty in order:
        lines.append(f"@[simp] def {name} : Nat := {env[name]}  -- = {hex(env[name])}")
    lines += [
        "",
        "-- src/gse_decap/gse_decap_memory/mod.rs",
        f"@[simp] def MIN_MARGIN : Nat := {min_margin}",
        "",
        "-- src/header_extension/mod.rs: SignalisationMandatoryExtensionHeaderManager",
        "-- (id, isFinal, data size)",
        "def SIGNALISATION_KNOWN : List (Nat × Bool × Nat) := ["
        + ", ".join(f"({i}, {'true' if k == 'Final' else 'false'}, {s})" for i, k, s in sig) + "]",
        "",
        "end Gse.Gen",
        "",
    ]
    return "\n".join(lines)


def gen_crc():
    src = strip_comments(read("src/crc.rs"))
    m = re.search(r"const\s+CRC_TAB\s*:\s*&?\[u32[^\]]*\]\s*=\s*&?\[(.*?)\];", src, flags=re.S)
    vals = None
    origin = "literal table of src/crc.rs"
    if m:
        vals = [int(v.replace("_", ""), 0) for v in re.findall(r"0x[0-9a-fA-F_]+|\b[0-9][0-9_]*\b", m.group(1))]
        if len(vals) != 256:
            vals = None
    if vals is None:
        # behavioural fallback: the CRC is XOR-linear, so  TAB[b] = crc(.., pdu=[b]) xor crc(.., pdu=[0])
        out = probe(["crc h:%02x 0 0 -" % b for b in range(256)])
        if len(out) != 256:
            raise GenError("CRC_TAB not found in src/crc.rs and probing the calculator failed")
        base = int(out[0], 16)
        vals = [int(o, 16) ^ base for o in out]
        origin = "probed from DefaultCrc (table literal not recognised in src/crc.rs)"
        print("gen_lean: CRC table " + origin)
    # (the byte step itself is not extracted: it is modelled by hand and tied by the `crc` correspondence ops)
    lines = [
        "/-! GENERATED by tools/gen_lean.py from /repo/src/crc.rs — do not edit. -/",
        "namespace Gse.Gen",
        "",
        "def CRC_TAB : List Nat := [",
    ]
    for i in range(0, 256, 8):
        lines.append("  " + ", ".join(f"0x{v:08x}" for v in vals[i:i + 8]) + ("," if i < 248 else ""))
    lines += ["]", "", "end Gse.Gen", ""]
    return "\n".join(lines)


def gen_hlen():
    src = strip_comments(read("src/header_extension/mod.rs"))
    m = re.search(r"fn\s+optionnal_extension_data_size_from_hlen\s*\(.*?\{\s*match\s+h_len\s*\{(.*?)\}\s*\}", src, flags=re.S)
    arms = {}
    default = None
    if m:
        for am in re.finditer(r"(\w+)\s*=>\s*(Ok\((\d+)\)|Err\(HlenError::(\w+)\))\s*,", m.group(1)):
            pat = am.group(1)
            val = ("ok", int(am.group(3))) if am.group(3) is not None else ("err", am.group(4))
            if pat == "_":
                default = val
            elif pat.isdigit():
                arms[int(pat)] = val
    if default is None or len(arms) < 6:
        # behavioural fallback: Extension::new(h << 8, data) succeeds for exactly the table's data length
        arms, default = {0: ("err", "MandatoryHeader")}, ("err", "UnknownHLen")
        lines = ["ext_new %04x c:0:%d" % (h << 8, n) for h in range(1, 8) for n in range(0, 12)]
        out = probe(lines)
        if len(out) != len(lines):
            raise GenError("H-LEN table not recognised in the source and probing Extension::new failed")
        k = 0
        for h in range(1, 8):
            oks = []
            for n in range(0, 12):
                if out[k].startswith("ok"):
                    oks.append(n)
                k += 1
            if len(oks) == 1:
                arms[h] = ("ok", oks[0])
            elif len(oks) > 1:
                raise GenError("Extension::new accepts several data lengths for H-LEN %d" % h)
        print("gen_lean: H-LEN table probed from Extension::new (match arms not recognised in the source)")

    def lean(v):
        if v[0] == "ok":
            return f"some {v[1]}"
        return "none"
    lines = [
        "/-! GENERATED by tools/gen_lean.py from /repo/src/header_extension/mod.rs — do not edit. -/",
        "namespace Gse.Gen",
        "",
        "/-- `optionnal_extension_data_size_from_hlen`: `some n` for `Ok(n)`, `none` for either error. -/",
        "def hlenDataSize (h : Nat) : Option Nat :=",
        "  match h with",
    ]
    for k in sorted(arms):
        lines.append(f"  | {k} => {lean(arms[k])}")
    lines.append(f"  | _ => {lean(default)}")
    lines += ["", "end Gse.Gen", ""]
    return "\n".join(lines)


# ----------------------------------------------------------------------------- optional facts
# Shapes of the source that are recognised when present.  A fact that cannot be located is emitted as
# `none` (the tie theorem for it is then vacuous and the evidence says so): the behaviour is still
# covered by the correspondence check, so a harmless rewrite of these functions raises no alarm here,
# while a recognisable shape with different content breaks `Props/Tie*.lean`.

def fn_body(src, header_re):
    m = re.search(header_re, src)
    if not m:
        return None
    i = src.find("{", m.end() - 1)
    if i < 0:
        return None
    depth = 0
    for j in range(i, len(src)):
        if src[j] == "{":
            depth += 1
        elif src[j] == "}":
            depth -= 1
            if depth == 0:
                return src[i + 1:j]
    return None


def match_arms(body, prefix):
    """{variant: expr} for arms `Prefix::Variant(..)? => expr,` of the first match in body"""
    if body is None:
        return None
    arms = {}
    for m in re.finditer(prefix + r"::(\w+)(?:\([^)]*\))?\s*=>\s*([^,\n]+),", body):
        arms[m.group(1)] = m.group(2).strip()
    return arms or None


def lean_opt(v):
    return "none" if v is None else "some (%s)" % v


def gen_facts(env):
    notes = []
    lab = strip_comments(read("src/label/mod.rs"))
    enc = strip_comments(read("src/gse_encap/mod.rs"))
    ext = strip_comments(read("src/header_extension/mod.rs"))
    mem = strip_comments(read("src/gse_decap/gse_decap_memory/mod.rs"))

    def names_ok(exprs):
        return all(re.fullmatch(r"[A-Z_0-9]+", e) and e in env for e in exprs)

    def quad(arms, order):
        if arms is None or any(k not in arms for k in order):
            return None
        vals = [arms[k] for k in order]
        return ", ".join(vals) if names_ok(vals) else None

    four = ["SixBytesLabel", "ThreeBytesLabel", "Broadcast", "ReUse"]
    # impl Label { fn len } and impl LabelType { fn len }
    impl_label = fn_body(lab, r"impl\s+Label\s*\{")
    impl_lt = fn_body(lab, r"impl\s+LabelType\s*\{")
    # A shape is recognised only when the WHOLE function body fits the template (nothing before, between or
    # after the matches that could change the value): otherwise the fact is `none`.
    def norm(s):
        return re.sub(r"\s+", " ", s or "").strip()

    ARMS = r"\{[^{}]*\}"

    def whole_match_body(body, scrutinee):
        b = norm(body)
        return bool(re.fullmatch(r"match " + scrutinee + " " + ARMS, b) or
                    re.fullmatch(r"let (\w+)(?: ?: ?\w+)? = match " + scrutinee + " " + ARMS + r" ?; \1", b))

    body_label_len = fn_body(impl_label or "", r"fn\s+len\s*\(&self\)[^{]*\{")
    body_lt_len = fn_body(impl_lt or "", r"fn\s+len\s*\(&self\)[^{]*\{")
    label_len = quad(match_arms(body_label_len, "Label"), four) if whole_match_body(body_label_len, r"\*?self") else None
    lt_len = quad(match_arms(body_lt_len, "LabelType"), four) if whole_match_body(body_lt_len, r"\*?self") else None
    gen_hdr = fn_body(enc, r"pub\s+fn\s+generate_gse_header\s*\([^)]*\)[^{]*\{")
    hdr_ok = bool(re.fullmatch(
        r"let (\w+) ?: ?u16 = match pkt_type " + ARMS + r" ?; let (\w+) ?: ?u16 = match label_type " + ARMS + r" ?; "
        r"let (\w+) ?: ?u16 = \(\1 & START_END_MASK\) \| \(\2 & LABEL_TYPE_MASK\) \| \(gse_len & GSE_LEN_MASK\) ?; \3",
        norm(gen_hdr)))
    kinds = quad(match_arms(gen_hdr, "PktType"), ["CompletePkt", "FirstFragPkt", "IntermediateFragPkt", "EndFragPkt"]) if hdr_ok else None
    lts = quad(match_arms(gen_hdr, "LabelType"), four) if hdr_ok else None
    # Extension::len
    impl_ext = fn_body(ext, r"impl\s+Extension\s*\{")
    body_ext_len = fn_body(impl_ext or "", r"pub\s+fn\s+len\s*\(&self\)[^{]*\{")
    ext_arms = match_arms(body_ext_len, "ExtensionData") if whole_match_body(body_ext_len, r"&?self\.data") else None
    ext_fact = None
    if ext_arms and all(k in ext_arms for k in ["Data2", "Data4", "Data6", "Data8", "NoData"]):
        vals = []
        for k in ["Data2", "Data4", "Data6", "Data8", "NoData"]:
            e = ext_arms[k].replace(" ", "")
            m = re.fullmatch(r"(?:(\d+)\+)?PROTOCOL_LEN", e) or re.fullmatch(r"PROTOCOL_LEN(?:\+(\d+))?", e)
            if not m:
                vals = None
                break
            vals.append(int(m.group(1) or 0))
        if vals is not None:
            ext_fact = ", ".join(str(v) for v in vals)
    # Encapsulator::new and the setters
    fieldmap = {"last_label": "last", "re_use_activated": "reUse", "re_max_consecutive": "reMax", "re_current_consecutive": "reCur"}

    def lean_val(v, param=None):
        v = v.strip()
        if v == "None":
            return "none"
        if v in ("true", "false"):
            return v
        if re.fullmatch(r"\d+(u8)?", v):
            return v.replace("u8", "")
        if param and v == param:
            return "n"
        return None

    new_body = fn_body(enc, r"pub\s+fn\s+new\s*\(crc_calculator\s*:\s*C\)[^{]*\{")
    enc_new = None
    if new_body:
        # recognised only when the whole body is one struct literal (anything else — a `let`, a call after the
        # literal — is left to the correspondence check)
        mlit = re.fullmatch(r"(?:Self|Encapsulator)\s*\{(.*)\}", new_body.strip(), flags=re.S)
        vals = {}
        ok = mlit is not None
        if ok:
            for item in [x.strip() for x in mlit.group(1).split(",") if x.strip()]:
                mf = re.fullmatch(r"(\w+)\s*:\s*(.+)", item, flags=re.S)
                if item == "crc_calculator" or (mf and mf.group(1) == "crc_calculator"):
                    continue
                if not mf or mf.group(1) not in fieldmap:
                    ok = False
                    break
                vals[fieldmap[mf.group(1)]] = lean_val(mf.group(2))
        if ok and set(vals) == set(fieldmap.values()) and all(v is not None for v in vals.values()):
            enc_new = "⟨%s, %s, %s, %s⟩" % (vals["reUse"], vals["reMax"], vals["reCur"], vals["last"])

    def setter(name, param=None):
        body = fn_body(enc, r"pub\s+fn\s+" + name + r"\s*\(&mut\s+self[^)]*\)[^{]*\{")
        if body is None:
            return None
        stmts = [x.strip() for x in body.split(";") if x.strip()]
        upd = []
        for st in stmts:
            m = re.fullmatch(r"self\.(\w+)\s*=\s*(.+)", st, flags=re.S)
            if not m or m.group(1) not in fieldmap:
                return None
            v = lean_val(m.group(2), param)
            if v is None:
                return None
            upd.append("%s := %s" % (fieldmap[m.group(1)], v))
        if not upd:
            return None
        # later assignments win, as in the code
        seen = {}
        for u in upd:
            seen[u.split(" := ")[0]] = u
        return "{ e with " + ", ".join(seen.values()) + " }"

    s_reset = setter("reset_last_label")
    s_disable = setter("disable_re_use_label")
    s_enable = setter("enable_re_use_label")
    s_max = setter("enable_re_use_label_with_max_consecutive", "max_consecutive")
    # SimpleGseMemory::new: Vec::with_capacity(max_frag_id + Self::MIN_MARGIN)
    cap = re.search(r"Vec::with_capacity\(\s*max_frag_id\s*\+\s*Self::MIN_MARGIN\s*\)", mem)
    cap_fact = "MIN_MARGIN" if cap else None

    facts = [("labelLenFact", "Nat × Nat × Nat × Nat", label_len), ("labelTypeLenFact", "Nat × Nat × Nat × Nat", lt_len),
             ("headerKindFact", "Nat × Nat × Nat × Nat", kinds), ("headerLabelTypeFact", "Nat × Nat × Nat × Nat", lts),
             ("extLenFact", "Nat × Nat × Nat × Nat × Nat", ext_fact), ("encNewFact", "Enc", enc_new),
             ("memCapMarginFact", "Nat", cap_fact)]
    lines = ["import GseVerif.Model.Encap",
             "/-! GENERATED by tools/gen_lean.py from /repo/src — do not edit.",
             "Shapes of the source recognised on this run (`none` = not recognised; then only the correspondence",
             "check covers that behaviour).  `Props/TieWire.lean`, `TieEnc.lean`, `TieMem.lean` prove that the hand-written model agrees with every",
             "fact that was recognised. -/",
             "namespace Gse.Gen", ""]
    for name, ty, val in facts:
        lines.append("def %s : Option (%s) := %s" % (name, ty, lean_opt(val)))
        if val is None:
            notes.append(name)
    for name, val, ty, lam in [("encResetFact", s_reset, "Enc → Enc", "fun e => "), ("encDisableFact", s_disable, "Enc → Enc", "fun e => "),
                               ("encEnableFact", s_enable, "Enc → Enc", "fun e => "), ("encEnableMaxFact", s_max, "Enc → Nat → Enc", "fun e n => ")]:
        lines.append("def %s : Option (%s) := %s" % (name, ty, "none" if val is None else "some (%s%s)" % (lam, val)))
        if val is None:
            notes.append(name)
    lines += ["", "/-- facts that were not recognised on this run -/",
              "def unrecognisedFacts : List String := [" + ", ".join('"%s"' % n for n in notes) + "]", "", "end Gse.Gen", ""]
    return "\n".join(lines), notes


def write_if_changed(path, content):
    try:
        with open(path, encoding="utf-8") as f:
            if f.read() == content:
                return False
    except OSError:
        pass
    with open(path, "w", encoding="utf-8") as f:
        f.write(content)
    return True


def main():
    os.makedirs(OUT, exist_ok=True)
    try:
        files = {"Consts.lean": gen_consts(), "CrcTab.lean": gen_crc(), "HLen.lean": gen_hlen()}
        try:
            env = {}
            for m in re.finditer(r"def (\w+) : Nat := (\d+)", files["Consts.lean"]):
                env[m.group(1)] = int(m.group(2))
            files["Facts.lean"], missing = gen_facts(env)
            if missing:
                print("gen_lean: shapes not recognised (covered by correspondence only): " + ", ".join(missing))
        except GenError:
            raise
        except Exception as e:      # a fact extractor must never block the run
            print("gen_lean: fact extraction skipped (%s)" % e)
            files["Facts.lean"] = None
    except GenError as e:
        print(f"gen_lean: BROKEN TIE: {e}", file=sys.stderr)
        return 2
    changed = [n for n, c in files.items() if c is not None and write_if_changed(os.path.join(OUT, n), c)]
    print("gen_lean: ok" + (f" (rewrote {', '.join(changed)})" if changed else " (unchanged)"))
    return 0


if __name__ == "__main__":
    sys.exit(main())
