"""More op-sequence generators: memory, re-use policy, malformed input, faults, interleavings,
frames, recovery, utils, extensions; and the regression corpus loader."""
import glob
import itertools
import os
import random
import re

from gselib import *
from suites import *

VERIF = os.path.dirname(os.path.dirname(os.path.abspath(__file__)))


# ------------------------------------------------------------------------------------------------ corpus

def load_corpus(pid):
    """corpus/<pid>/*.ops and corpus/all/*.ops: minimised past failures, run first.  Only the text
    lines are known, so the oracles that need structured fields see them through `parse_line`."""
    out = []
    for d in ("all", pid):
        for path in sorted(glob.glob(os.path.join(VERIF, "corpus", d, "*.ops"))):
            s = Session("corpus-" + os.path.basename(path)[:-4])
            s.strict = False
            with open(path) as f:
                for line in f:
                    line = line.strip()
                    if line == "# strict":
                        s.strict = True
                    if not line or line.startswith("#") or line.startswith("session"):
                        continue
                    op = parse_line(line)
                    # link `decap p:<reg>` / `peek p:<reg>` to the op that produced the packet
                    if op.get("op") in ("decap", "peek") and re.fullmatch(r"p:\d+", op.get("expr", "")):
                        r = int(op["expr"][2:])
                        for j in range(len(s.ops) - 1, -1, -1):
                            if s.ops[j].get("reg") == r and s.ops[j].get("op") in ("encap", "encap_ext", "encap_frag"):
                                op["of"] = j
                                break
                    s.ops.append(op)
            out.append(s)
    return out


def _bs(expr):
    from oracles import eval_bs
    v = eval_bs(expr, {})
    return BS(expr, v if v is not None else b"")


def parse_line(line):
    """rebuild the structured op from its text (inverse of the Session constructors)"""
    t = line.split()
    k = t[0]
    d = {"line": line, "op": k}
    try:
        if k == "hdr_gen":
            d.update(k=int(t[1]), lt=int(t[2]), len=int(t[3]))
        elif k == "hdr_read":
            d.update(w=int(t[1]))
        elif k == "crc":
            d.update(pdu=_bs(t[1]), pt=int(t[2]), tl=int(t[3]), label=_bs(t[4]))
        elif k == "ext_new":
            d.update(id=int(t[1], 16), data=_bs(t[2]))
        elif k.startswith("enc_"):
            d.update(n=int(t[1]) if len(t) > 1 else None)
        elif k in ("encap", "encap_ext"):
            d.update(pdu=_bs(t[1]), fid=int(t[2]), pt=int(t[3], 16), label=parse_label_tok(t[4]), buf=_bs(t[5]), reg=int(t[6]), exts=None)
            if k == "encap_ext":
                d["exts"] = [] if t[7] == "-" else [(int(e.split(":")[0], 16), unhex(e.split(":")[1])) for e in t[7].split(",")]
        elif k == "encap_frag":
            c = t[2].split(":")
            ctx = int(c[1]) if c[0] == "k" else (int(c[1]), int(c[2], 16), int(c[3]))
            d.update(pdu=_bs(t[1]), ctx=ctx, buf=_bs(t[3]), reg=int(t[4]), cout=int(t[5]))
        elif k == "preview":
            d.update(pdu=_bs(t[1]), pt=int(t[2], 16), label=parse_label_tok(t[3]), buflen=int(t[4]))
        elif k == "frag_preview":
            c = t[2].split(":")
            ctx = int(c[1]) if c[0] == "k" else (int(c[1]), int(c[2], 16), int(c[3]))
            d.update(pdu=_bs(t[1]), ctx=ctx, buflen=int(t[3]))
        elif k == "dec_new":
            mg = None
            if t[3] == "sig":
                mg = "sig"
            elif t[3] != "-":
                mg = {int(e.split(":")[0], 16): (e.split(":")[1][0], int(e.split(":")[1][1:])) for e in t[3].split(",")}
            d.update(slots=int(t[1]), maxpdu=int(t[2]), mgr=mg)
            if len(t) > 4:
                d.update(crc=int(t[4]))
        elif k == "prov":
            d.update(len=int(t[1]), fill=int(t[2]))
        elif k == "reprov":
            d.update(id=int(t[1]))
        elif k in ("decap", "decap_if", "walk", "peek", "peek_if"):
            d.update(op=k.replace("_if", ""), expr=t[1])
        elif k == "pause":
            d.update(ms=int(t[1]))
        elif k == "setreg":
            d.update(reg=int(t[1]), expr=t[2])
        elif k == "xorreg":
            d.update(reg=int(t[1]), off=int(t[2]), x=unhex(t[3]))
        elif k == "setlen":
            d.update(reg=int(t[1]), n=int(t[2]))
        elif k == "mem_new_frag":
            d.update(fid=int(t[1]), pdulen=int(t[2]), tl=int(t[3]), pt=int(t[4], 16), label=parse_label_tok(t[5]))
        elif k == "mem_take":
            d.update(fid=int(t[1]))
        elif k == "mem_save":
            d.update(h=int(t[1]), fid=None if t[2] == "-" else int(t[2]))
        elif k == "mem_swap":
            d.update(h=int(t[1]), len=int(t[2]), fill=int(t[3]))
        elif k == "mem_release":
            d.update(h=int(t[1]))
    except (IndexError, ValueError):
        d["op"] = "raw"
    return d


# ------------------------------------------------------------------------------------------------ memory

def suite_mem(rng, tier):
    """all sequences of memory operations up to a bounded depth, plus random longer ones"""
    out = []
    depth = 4

    def emit(s, a, handles):
        k = a[0]
        if k == "prov":
            s.prov(a[1], 7)
        elif k == "newpdu":
            s.dec_newpdu()
        elif k == "newfrag":
            s.mem_new_frag(a[1], 3, 50, 0x0800, LBL_A6)
            handles.append(len(handles))
        elif k == "take":
            s.mem_take(a[1])
            handles.append(len(handles))
        elif k == "save":
            s.mem_save(a[1], a[2])
        elif k == "release":
            s.mem_release(a[1])

    n = 0
    for slots in (1, 2, 3) if tier == "quick" else (0, 1, 2, 3, 4):
        nn = max(slots, 1)
        fids = [0, 1, nn, nn + 1]
        alpha = [("prov", 8), ("prov", 7), ("newpdu",)] + [("newfrag", f) for f in fids[:3]] + [("take", f) for f in fids] \
            + [("save", 0, None), ("save", 1, None), ("save", 0, fids[2]), ("release", 0)]
        seqs = itertools.product(alpha, repeat=depth)
        if tier == "quick":
            seqs = [tuple(rng.choice(alpha) for _ in range(depth + 2)) for _ in range(700)]
        else:
            # every sequence of depth 3 (13^3 per slot count), then sampled deeper ones
            seqs = itertools.chain(itertools.product(alpha, repeat=3),
                                   (tuple(rng.choice(alpha) for _ in range(rng.randrange(4, 10))) for _ in range(8000)))
        for seq in seqs:
            s = Session("mem%d" % n)
            n += 1
            s.dec_new(slots, 8, None)
            s.prov(8, 1)
            s.prov(9, 2)
            for a in seq:
                emit(s, a, [])
            out.append(s)
    # saturation family: free list full while slots are occupied, then every pair of operations,
    # then provisioning again (the capacity bound must still hold)
    for slots in (1, 2, 3):
        cap = slots + 2
        fids = [0, 1, slots, slots + 1]
        alpha2 = [("prov", 8), ("newpdu",)] + [("newfrag", f) for f in fids[:3]] + [("take", f) for f in fids[:3]] \
            + [("save", 1, None), ("save", 2, None), ("save", 1, fids[2]), ("release", 1), ("release", 2)]
        pairs = list(itertools.product(alpha2, repeat=2))
        if tier == "quick":
            pairs = rng.sample(pairs, 70)
        for a, b in pairs:
            s = Session("memsat%d" % n)
            n += 1
            s.dec_new(slots, 8, None)
            for k in range(cap):
                s.prov(8, k)
            s.mem_new_frag(0, 3, 50, 0x0800, LBL_A6)       # handle 0
            s.mem_save(0, None)
            s.prov(8, 99)                                   # free list full again, slot 0 occupied
            emit(s, a, [])
            emit(s, b, [])
            s.prov(8, 100)
            s.prov(8, 101)
            s.dec_newpdu()
            s.prov(8, 102)
            s.prov(8, 103)
            out.append(s)
    for r in range(300 if tier == "quick" else 5000):
        slots = rng.choice([0, 1, 2, 3, 4, 7])
        s = Session("memr%d" % r)
        s.dec_new(slots, 8, None)
        hcount = 0
        for _ in range(rng.randrange(5, 40)):
            c = rng.random()
            if c < 0.25:
                s.prov(rng.choice([8, 8, 9, 7, 1, 20]), rng.randrange(256))
            elif c < 0.35:
                s.dec_newpdu()
            elif c < 0.55:
                s.mem_new_frag(rng.randrange(0, 10), rng.randrange(0, 8), 50, 0x0800, rng.choice([LBL_A6, LBL_A3, LBL_BC]))
                hcount += 1
            elif c < 0.75:
                s.mem_take(rng.randrange(0, 10))
                hcount += 1
            elif c < 0.92:
                s.mem_save(rng.randrange(0, hcount + 1), rng.choice([None, None, rng.randrange(0, 10)]))
            else:
                s.mem_release(rng.randrange(0, hcount + 1))
        out.append(s)
    # memories with one slot per frag id, or more: the slot is the frag id itself, ids 0 and 255 do not alias
    for r in range(40 if tier == "quick" else 600):
        slots = rng.choice([255, 256, 256, 257, 300])
        ids = [0, 0, 1, 254, 255, 255, slots % 256]
        s = Session("memM%d" % r)
        s.dec_new(slots, 8, None)
        hcount = 0
        for _ in range(rng.randrange(5, 30)):
            c = rng.random()
            if c < 0.25:
                s.prov(rng.choice([8, 8, 9]), rng.randrange(256))
            elif c < 0.32:
                s.dec_newpdu()
            elif c < 0.55:
                s.mem_new_frag(rng.choice(ids), rng.randrange(0, 8), 50, 0x0800, rng.choice([LBL_A6, LBL_A3, LBL_BC]))
                hcount += 1
            elif c < 0.75:
                s.mem_take(rng.choice(ids))
                hcount += 1
            elif c < 0.94:
                s.mem_save(rng.randrange(0, hcount + 1), rng.choice([None, None, rng.choice(ids)]))
            else:
                s.mem_release(rng.randrange(0, hcount + 1))
        out.append(s)
    # a reassembly whose storage was replaced, through the public trait on the pub `memory` field, by one of
    # another length (shorter than max_pdu_size: the memory will refuse to take it back with BufferTooSmall):
    # every give-back site of decap must hand it to the caller inside the error value, none may drop it
    swap_triggers = {
        "inter-oversize": ["h:300701" + "112233445566"],
        "inter-fits-then-oversize": ["h:300301" + "1122", "h:300601" + "3344556677"],
        "end-oversize": ["h:700b01" + "112233445566" + "00000000"],
        "end-totallen": ["h:700701" + "ddee" + "00000000"],
        "end-badcrc": ["h:701201" + "11" * 13 + "00000000"],
        "first-same-id": ["h:a0080100080800" + "a1a2a3"],
        "first-same-id-oversize": ["h:a00f0100120800" + "01020304050607080910"],
        "complete": ["h:e0060800" + "aabb"],
    }
    for slots in (1, 2):
        for name, pkts in swap_triggers.items():
            for newlen in (8, 15, 16, 32, 3):
                for extra in (0, 1):
                    s = Session("memswap-%d-%s-%d-%d" % (slots, name, newlen, extra))
                    s.strict = False
                    s.dec_new(slots, 16, None)
                    s.prov(16, 0)
                    for _ in range(extra):
                        s.prov(16, 0)
                    s.decap("h:a00801" + "0012" + "0800" + "aabbcc")     # first fragment, frag id 1, 3 of 16 bytes
                    s.mem_take(1)
                    s.mem_swap(0, newlen, 0)
                    s.mem_save(0, None)
                    for pk in pkts:
                        s.decap(pk)
                    s.prov(16, 0)
                    for _ in range(3):
                        s.dec_newpdu()
                    out.append(s)
    return out


# ------------------------------------------------------------------------------------------------ re-use policy

def suite_reuse(rng, tier):
    """histories over a small label alphabet mixed with configuration calls and failing calls,
    sender and receiver in lock-step (resets at the same points)"""
    out = []
    alpha = [("send", l, how) for l in (LBL_A6, LBL_B6, LBL_A3, LBL_BC, LBL_RU) for how in ("ok", "small", "frag")] + \
            [("send", l, "ok") for l in TRICKY_LABELS] + [("send", LBL_A6_LAST, "frag"), ("send", LBL_3_ABC, "small")] + \
            [("send", LBL_A6, "ptype"), ("send", LBL_Z6, "ok"), ("send", LBL_B3, "ok"), ("send", LBL_A6, "ext"), ("send", LBL_A6, "extsmall"),
             ("reset",), ("disable",), ("enable",), ("max", 1), ("max", 2), ("max", 0), ("max", 255), ("setcrc",),
             # a call refused with ErrorPduLength (PDU above the total-length range, buffer too small for a complete
             # packet): like every refused call it must leave the sender's label memory alone (round K04)
             ("send", LBL_A6, "toolong"), ("send", LBL_B6, "toolong"), ("send", LBL_A3, "toolong"), ("send", LBL_BC, "toolong"),
             ("fragstart", LBL_A6), ("fragstart", LBL_B3), ("fragstart", LBL_BC), ("cont",), ("cont",),
             ("fragalias", LBL_B6), ("fragalias", LBL_BC),
             # header extensions on the paths that also drive the re-use state: broadcast / explicit re-use /
             # other label through encap_ext, complete or fragmented
             ("send", LBL_BC, "ext"), ("send", LBL_RU, "ext"), ("send", LBL_B6, "ext"), ("send", LBL_BC, "extsmall"),
             ("send", LBL_A6, "extfrag"), ("send", LBL_BC, "extfrag"), ("send", LBL_Z6, "ext"), ("send", LBL_Z6, "extfrag")]
    depth = 3
    seqs = list(itertools.product(alpha, repeat=depth)) if tier != "quick" else []
    nrand = 1500 if tier == "quick" else 25000
    for _ in range(nrand):
        seqs.append(tuple(rng.choice(alpha) for _ in range(rng.randrange(3, 14))))
    # policy switches around traffic: X, cfg, Y, cfg, Z, Z for every configuration pair
    cfgs = [None, ("reset",), ("disable",), ("enable",), ("max", 1), ("max", 3), ("setcrc",)]
    fam = [(x, c1, y, c2, z) for x in (LBL_A6, LBL_B6) for c1 in cfgs for y in (LBL_A6, LBL_B6, LBL_A3) for c2 in cfgs for z in (LBL_A6, LBL_B6)]
    if tier == "quick":
        fam = rng.sample(fam, 250)
    for x, c1, y, c2, z in fam:
        seq = [("send", x, "ok")] + ([c1] if c1 else []) + [("send", y, "ok")] + ([c2] if c2 else []) + [("send", z, "ok"), ("send", z, "ok")]
        seqs.append(tuple(seq))
    # the label memory of both sides across every path a start/complete packet can take: X, then Y by that
    # path, then X twice (the first X after a broadcast or another label must carry its full label)
    for x in (LBL_A6, LBL_A3):
        for y in (LBL_BC, LBL_B6, LBL_RU, x):
            for how in ("ok", "small", "frag", "ext", "extsmall", "extfrag", "ptype", "toolong"):
                for cfg in (None, ("max", 2)):
                    seqs.append(tuple(([cfg] if cfg else []) + [("send", x, "ok"), ("send", y, how), ("send", x, "ok"), ("send", x, "ok")]))
    # orphans: an open train is replaced by an aliasing one; its continuation is refused, the label stays
    for x in (LBL_A6, LBL_A3):
        for y in (LBL_B6, LBL_BC, x):
            seqs.append((("send", x, "ok"), ("fragstart", x), ("fragalias", y), ("cont",), ("send", x, "ok"), ("cont",), ("send", x, "ok")))
            seqs.append((("fragstart", x), ("fragalias", y), ("cont",), ("cont",), ("send", x if y.kind == "B" else y, "ok"), ("send", x, "ok")))
    # explicit re-use labels passed by the caller in the middle of bounded runs: they neither count as a
    # substitution nor restart the run
    for mx in (1, 2, 3):
        for k in range(0, mx + 1):
            for nru in (1, 2):
                for how in ("ok", "ext", "frag"):
                    seqs.append((("max", mx), ("send", LBL_A6, "ok")) + (("send", LBL_A6, "ok"),) * k + (("send", LBL_RU, how),) * nru
                                + (("send", LBL_A6, "ok"),) * (mx + 2))
    # the bound changed in the middle of a run: to a value BELOW the number of substitutions already made, to
    # unlimited and back, re-enabled without a disable in between; then a long tail against the u8 counter
    for n1 in (3, 5, 0, 200):
        for k in (2, 3, 4, 6):
            for n2 in (1, 2):
                for via in (("max", n2), ("enable",), ("max", 0)):
                    mid = [via] if via[0] == "max" and via[1] == n2 else [via, ("max", n2)]
                    seqs.append(tuple([("max", n1)] + [("send", LBL_A6, "ok")] * (k + 1) + mid + [("send", LBL_A6, "ok")] * (n2 + 4)))
    seqs.append(tuple([("max", 200)] + [("send", LBL_A6, "ok")] * 6 + [("max", 0), ("send", LBL_A6, "ok"), ("max", 3)] + [("send", LBL_A6, "ok")] * 300))
    # long runs against the counter
    for mx in (1, 2, 3, 254, 255):
        seqs.append((("max", mx),) + (("send", LBL_A6, "ok"),) * (mx + 3 if mx < 10 else 260))
    for n, seq in enumerate(seqs):
        s = Session("reuse%d" % n)
        s.enc("new")
        s.dec_new(4, 40, None)
        # one session in three starves the receiver: storages are given back late, so that packets are
        # refused for lack of storage in the middle of label re-use traffic
        starve = (n % 3 == 2)
        if starve:
            s.strict = False
        for _ in range(1 if starve else 4):
            s.prov(40, 0)
        open_trains = []
        for a in seq:
            if a[0] == "setcrc":
                s.enc("set_crc", 0)
            elif a[0] in ("fragstart", "fragalias"):
                # a train that stays open while other packets are sent (interleaved traffic with re-use on)
                # (frag ids on slots 0, 2, 3 of the 4-slot receiver: the plain sends use id 5, slot 1; an id
                # is taken again only once its train is finished, so that no train is replaced by an alias —
                # except by `fragalias`, which deliberately starts a train on an id sharing the slot of the
                # oldest open train: that train is replaced, its continuation becomes an orphan which the
                # receiver must refuse WITHOUT forgetting the label it remembers)
                live = [t for t in open_trains if not t["orphan"]]
                if a[0] == "fragalias":
                    if not live:
                        continue
                    live[0]["orphan"] = True
                    fid = live[0]["fid"] + 4
                else:
                    free_ids = [f for f in (20, 22, 23) if f % 4 not in [t["fid"] % 4 for t in live]]
                    if not free_ids:
                        continue
                    fid = free_ids[0]
                tp = bs_gen(n + 11 + len(open_trains), 30)
                i = s.encap(tp, fid, 0x0800, a[1], bs_zero(18))
                s.decap_if("p:%d" % s.ops[i]["reg"], of=i)
                open_trains.append({"pdu": tp, "chain": s.ops[i]["reg"], "fid": fid, "orphan": False})
                if not starve or rng.random() < 0.45:
                    s.prov(40, 0)
            elif a[0] == "cont":
                if open_trains:
                    tr = open_trains.pop(0)
                    j = s.encap_frag(tr["pdu"], tr["chain"], bs_zero(64), cout=tr["chain"])
                    s.decap_if("p:%d" % s.ops[j]["reg"], of=j)
            elif a[0] == "send":
                _, lab, how = a
                pdu = bs_gen(n + 3, 20)
                pt = 0x0800
                exts = None
                bl = 64
                if how == "small":
                    bl = 3
                elif how == "frag":
                    bl = 20
                elif how == "ptype":
                    pt = 0x0300
                elif how == "toolong":
                    pdu = bs_gen(n + 3, 65535)
                    bl = 20
                elif how == "ext":
                    exts = [(0x0301, b"\x01\x02\x03\x04")]
                elif how == "extsmall":
                    exts = [(0x0301, b"\x01\x02\x03\x04")]
                    bl = 9
                elif how == "extfrag":
                    exts = [(0x0301, b"\x01\x02\x03\x04")]
                    bl = 26
                i = s.encap(pdu, 5, pt, lab, bs_zero(bl), exts=exts)
                s.decap_if("p:%d" % s.ops[i]["reg"], of=i)
                if how in ("frag", "extfrag"):
                    j = s.encap_frag(pdu, s.ops[i]["reg"], bs_zero(64), cout=s.ops[i]["reg"])
                    s.decap_if("p:%d" % s.ops[j]["reg"], of=j)
                if not starve or rng.random() < 0.45:
                    s.prov(40, 0)
            elif a[0] == "reset":
                s.enc("reset")
                s.dec_reset()
            elif a[0] == "disable":
                s.enc("disable")
            elif a[0] == "enable":
                s.enc("enable")
            elif a[0] == "max":
                s.enc("enable_max", a[1])
        out.append(s)
    return out


# ------------------------------------------------------------------------------------------------ malformed input

def _prepare_state(s, rng, which):
    """receiver states of C05's quantifier; returns nothing (ops are appended)"""
    if which == "fresh":
        s.dec_new(2, 16, None)
        s.prov(16, 0)
        s.prov(16, 0)
    elif which == "nostorage":
        s.dec_new(2, 16, None)
    elif which == "zeroslots":
        s.dec_new(0, 16, None)
        s.prov(16, 0)
    elif which == "tiny":
        s.dec_new(2, 2, None)
        s.prov(2, 0)
        s.prov(3, 0)
    elif which == "open":
        # open contexts on frag ids 1 (slot 1) and 2 (slot 0), remembered label
        s.dec_new(2, 40, {0x42: ("N", 3), 0x81: ("F", 0)})
        for _ in range(4):
            s.prov(40, 0)
        s.decap("h:a00a01001008006162636465")          # first, frag id 1, broadcast, total len 16
        s.decap("h:800e0200200800414243444546aabbcc")  # first, frag id 2, 6-byte label
    elif which == "full":
        s.dec_new(1, 8, None)
        s.prov(8, 0)
        s.decap("h:a00a01001008006162636465")
        for _ in range(3):
            s.prov(8, 0)
    elif which == "manyslots":
        s.dec_new(rng.choice([255, 256, 257, 300]), 16, None)
        s.prov(16, 0)
        s.prov(16, 0)
        s.decap("h:a00a%02x001008006162636465" % rng.choice([0, 254, 255]))
    elif which == "huge":
        s.dec_new(1, 70000, None)
        s.prov(70000, 0)
        s.decap("h:a00601ffff0800aa")


STATES = ["fresh", "nostorage", "zeroslots", "tiny", "open", "full", "manyslots"]
TAILS = [b"", bytes(40), b"\xff" * 40, bytes.fromhex("03020000" * 10), bytes.fromhex("0042aabbcc0081" + "00" * 33),
         bytes.fromhex("01" + "ffff" + "0800" + "00" * 35), bytes.fromhex("0101" * 20)]


def suite_decapfuzz(rng, tier):
    out = []
    n = 0
    # all byte strings of length 0..2 in every state; length 3 sampled
    for st in STATES:
        s = Session("fz-short-%s" % st)
        _prepare_state(s, rng, st)
        s.decap("-")
        s.peek("-")
        for a in range(256):
            s.decap("h:%02x" % a)
            s.peek("h:%02x" % a)
        stride = 1 if (tier != "quick" or st == "fresh") else 17
        for w in range(0, 65536, stride):
            s.decap("h:%04x" % w)
        for w in range(0, 65536, 257 if tier == "quick" else 1):
            s.peek("h:%04x" % w)
        for _ in range(2000 if tier == "quick" else 60000):
            b = bytes([rng.choice([0x00, 0x10, 0x30, 0x70, 0x80, 0x90, 0xa0, 0xb0, 0xc0, 0xd0, 0xe0, 0xf0, rng.randrange(256)]), rng.randrange(0, 8),
                       rng.randrange(256)])
            s.decap("h:" + b.hex())
        out.append(s)
    # every header with small GSE length x truncations x adversarial tails, in every state
    for st in STATES + ["huge"]:
        s = Session("fz-hdr-%s" % st)
        _prepare_state(s, rng, st)
        for top in range(16):
            for gl in list(range(0, 24)) + [40, 41, 4095]:
                w = (top << 12) | gl
                for tail in (TAILS if tier != "quick" else rng.sample(TAILS, 3)):
                    for cut in sorted(set([0, 1, 2, 3, max(0, gl - 1), gl, gl + 1, gl + 5])):
                        if cut > len(tail):
                            continue
                        b = bytes([w >> 8, w & 0xFF]) + tail[:cut]
                        s.decap("h:" + b.hex())
                        if rng.random() < 0.3:
                            s.peek("h:" + b.hex())
        out.append(s)
    # extension chains closed by every boundary value of the type field (the walk stops at the first type
    # >= 0x0600; 0x05ff is one more 8-byte extension), on complete packets and first fragments, whole and
    # truncated at every byte
    closers = [0x05FF, 0x0600, 0x0601, 0x0800, 0xFFFF, 0x0100, 0x00FF, 0x0000]
    chains = [[(0x0100 | 7, b"")], [(0x0200 | 7, b"\x01\x02")], [(0x0300 | 7, bytes(4))], [(0x0400 | 7, bytes(6))], [(0x0500 | 7, bytes(8))],
              [(0x0101, b""), (0x0202, b"\xaa\xbb")], [(0x0501, bytes(8)), (0x0502, bytes(8)), (0x0103, b"")]]
    for st in ("fresh", "open"):
        s = Session("fz-extclose-%s" % st)
        _prepare_state(s, rng, st)
        for closer in closers:
            for ch in chains:
                body = b"".join(bytes([i >> 8, i & 0xFF]) + d for i, d in ch) + bytes([closer >> 8, closer & 0xFF]) + b"\xd1\xd2\xd3"
                pkts = [bytes([0xe0 | ((len(body)) >> 8), len(body) & 0xFF]) + body,                                  # complete, broadcast
                        bytes([0xd0, 3 + len(body)]) + b"\x01\x02\x03" + body,                                      # complete, 3-byte label
                        bytes([0xa0, 3 + len(body)]) + bytes([1, 0, 9]) + body]                                       # first fragment, id 1, total length 9
                for pk in pkts:
                    s.decap("h:" + pk.hex())
                    s.peek("h:" + pk.hex())
                    s.prov(16, 0)
                    if tier != "quick" or closer in (0x0600, 0x05FF):
                        for cut in range(2, len(pk)):
                            s.decap("h:" + pk[:cut].hex())
        out.append(s)
    # the same chains cut short INSIDE the packet (the GSE length agrees with the buffer, the chain runs past
    # the end of the packet), arriving while the receiver remembers a label: every such rejection is made by the
    # extension walker, not by the length guards, and the label memory afterwards is part of the comparison
    mchains = [[(0x0042, b"abc")], [(0x0090, b"zz")], [(0x0042, b"abc"), (0x0090, b"zz")], [(0x0101, b""), (0x0042, b"abc"), (0x0501, bytes(8)), (0x0090, b"zz")],
               [(0x0055, b"12345"), (0x0081, b"")]]
    for mgrx, chs in ((None, chains), ({0x42: ("N", 3), 0x81: ("F", 0), 0x90: ("F", 2), 0x55: ("N", 5)}, mchains)):
      s = Session("fz-extcut" + ("" if mgrx is None else "-mgr"))
      s.dec_new(2, 16, mgrx)
      for _ in range(3):
        s.prov(16, 0)
      for ch in chs:
        final = ch[-1][0] < 0x100 and mgrx is not None and mgrx.get(ch[-1][0], ("N",))[0] == "F"
        body = b"".join(bytes([i >> 8, i & 0xFF]) + d for i, d in ch) + (b"" if final else b"\x08\x00") + b"\xd1\xd2\xd3"
        for cut in range(1, len(body) + 1):
              for hdr, pre in ((0xe0, b""), (0xd0, b"\x01\x02\x03"), (0xa0, bytes([1, 0, 40]))):
                  if hdr == 0xd0:
                      # complete packet with a 3-byte label: the label comes AFTER the type field
                      pk = bytes([0xd0, (len(body[:2]) + 3 + len(body[2:cut])) & 0xFF]) + body[:2] + pre + body[2:cut] if cut >= 2 else None
                  elif hdr == 0xe0:
                      pk = bytes([0xe0, cut]) + body[:cut]
                  else:
                      pk = bytes([0xa0, 3 + cut]) + pre + body[:cut]
                  if pk is None:
                      continue
                  s.decap("h:c00a0800616263646566beef")        # the receiver remembers a label again
                  s.prov(16, 0)
                  s.decap("h:" + pk.hex())
                  s.decap("h:f0050800aabbcc")                  # a re-use packet: resolved against what is remembered now
                  s.prov(16, 0)

      out.append(s)
    # random and mutated-valid packets
    for r in range(40 if tier == "quick" else 600):
        st = rng.choice(STATES)
        s = Session("fz-rand%d-%s" % (r, st))
        _prepare_state(s, rng, st)
        s.enc("new")
        for _ in range(60):
            c = rng.random()
            if c < 0.3:
                ln = rng.choice([3, 4, 5, 8, 12, 20, 33, 64, 200, 1000, 8192])
                b = bytearray(gen_bytes(rng.randrange(1 << 30), ln))
                if rng.random() < 0.7:
                    gl = rng.choice([ln - 2, ln - 3, ln - 1, rng.randrange(0, ln + 4)]) & 0xFFF
                    b[0] = (b[0] & 0xF0) | (gl >> 8)
                    b[1] = gl & 0xFF
                s.decap("h:" + bytes(b).hex())
            else:
                # a valid packet, then mutated
                pl = rng.randrange(0, 30)
                lab = rng.choice([LBL_A6, LBL_A3, LBL_BC, LBL_RU])
                exts = None
                pt = rng.choice([0x0800, 0x0800, 0x0600, 0x0601, 0xFFFF, 0x86DD])
                if rng.random() < 0.3:
                    exts, pt = pick_exts(rng, pt)
                i = s.encap(bs_gen(rng.randrange(1000), pl), rng.randrange(0, 4), pt, lab, bs_zero(rng.choice([10, 14, 20, 64])), exts=exts)
                r1 = s.ops[i]["reg"]
                m = rng.random()
                if m < 0.3:
                    s.decap("p:%d" % r1)
                elif m < 0.6:
                    s.xorreg(r1, rng.randrange(0, 10), bytes([1 << rng.randrange(8)]))
                    s.decap("p:%d" % r1)
                elif m < 0.8:
                    s.setlen(r1, rng.randrange(0, 12))
                    s.decap("p:%d" % r1)
                else:
                    s.decap("p:%d+g:%d:%d" % (r1, rng.randrange(99), rng.randrange(1, 9)))
                if rng.random() < 0.3:
                    s.peek("p:%d" % r1)
            if rng.random() < 0.15:
                s.prov(rng.choice([2, 8, 16, 40]), 0)
        out.append(s)
    return out


def suite_states(rng, tier):
    """long accumulations and storage edge cases: > 65535-byte storage, refilled free list, aliasing ids"""
    out = []
    s = Session("st-huge")
    s.dec_new(1, 70000, None)
    s.prov(70000, 0)
    s.decap("h:a00601ffff0800aa")
    for k in range(20):
        s.decap("h:3fff01+g:%d:4094" % k)
    s.decap("h:700501deadbeef")
    out.append(s)
    # a train exactly 65536 bytes longer than announced, with a CRC that verifies for the announced total
    # length: the length comparison must be made on natural numbers, not modulo 2^16
    for lab, lt, lbytes in ((LBL_BC, 0xa0, b""), (LBL_A6, 0x80, b"abcdef")):
        for extra_first in (1, 7):
            s = Session("st-wrap-%s-%d" % (lab.kind, extra_first))
            s.strict = False
            s.dec_new(1, 140000, None)
            s.prov(140000, 0)
            s.dec_reset()
            first_payload = gen_bytes(900 + extra_first, extra_first)
            announced_pdu = 9
            tl = announced_pdu + 2 + len(lbytes)
            gl = 5 + len(lbytes) + extra_first
            s.decap("h:%02x%02x01%04x0800%s%s" % (lt, gl, tl, lbytes.hex(), first_payload.hex()))
            data = bytearray(first_payload)
            for k in range(16):
                chunk = gen_bytes(7000 + k, 4094)
                data += chunk
                s.decap("h:3fff01+g:%d:4094" % (7000 + k))
            need = 65536 + announced_pdu - len(data)
            last = gen_bytes(31337, need)
            data += last
            crc = ref_gse_crc(bytes(data), 0x0800, tl, lbytes)
            egl = 1 + need + 4
            s.decap("h:%04x01%s%08x" % (0x7000 | egl, last.hex(), crc))
            out.append(s)
    # a train within one fragment of 64 KiB with an extra payload-carrying fragment late in the train (the last
    # intermediate fragment again, or a foreign one): the 16-bit guard of decap_intermediate refuses it; the
    # end fragment — correct length and CRC for the train WITHOUT the extra fragment — must not deliver
    for lab, lt, lbytes in ((LBL_BC, 0xa0, b""), (LBL_A6, 0x80, b"abcdef")):
        for extra in ("dup", "foreign"):
            s = Session("st-dup64k-%s-%s" % (lab.kind, extra))
            s.strict = False
            s.dec_new(1, 65536, None)
            s.prov(65536, 0)
            s.dec_reset()
            first_payload = gen_bytes(800, 100)
            chunks = [gen_bytes(8000 + k, 4094) for k in range(15)]
            last = gen_bytes(8100, 3000)
            data = first_payload + b"".join(chunks) + last
            tl = len(data) + 2 + len(lbytes)
            gl = 5 + len(lbytes) + 100
            s.decap("h:%02x%02x01%04x0800%s%s" % (lt | (gl >> 8), gl & 0xFF, tl, lbytes.hex(), first_payload.hex()))
            for k in range(15):
                s.decap("h:3fff01+g:%d:4094" % (8000 + k))
            # (followed by another packet in the same buffer: the refusal consumes the fragment only)
            s.decap("h:3fff01+g:%d:4094+h:e0070800aabbccddee" % (8014 if extra == "dup" else 8999))
            crc = ref_gse_crc(data, 0x0800, tl, lbytes)
            egl = 1 + 3000 + 4
            s.decap("h:%04x01%s%08x" % (0x7000 | egl, last.hex(), crc))
            s.dec_newpdu()
            out.append(s)
    # trains announcing a WRONG total length (smaller than protocol type + label, zero, off by a few, larger)
    # whose end fragment carries the CRC computed over the ANNOUNCED fields: the CRC verifies, only the length
    # comparison over the naturals can refuse them
    for lab, lt, lbytes in ((LBL_BC, 0xa0, b""), (LBL_A6, 0x80, b"abcdef"), (LBL_A3, 0x90, b"abc")):
        for plen in (0, 1, 5):
            true_tl = plen + 2 + len(lbytes)
            for tl in sorted(set([1, 2, 3, len(lbytes), len(lbytes) + 1, len(lbytes) + 2, true_tl - 1, true_tl, true_tl + 1, true_tl + 7, 65535]) - {0}):
                for p1 in sorted(set([0, plen // 2])):
                    s = Session("st-tl-lie-%s-%d-%d-%d" % (lab.kind, plen, tl, p1))
                    s.strict = False
                    s.dec_new(2, 32, None)
                    s.prov(32, 0)
                    s.prov(32, 0)
                    data = gen_bytes(600 + plen, plen)
                    gl = 5 + len(lbytes) + p1
                    s.decap("h:%02x%02x01%04x0800%s%s" % (lt, gl, tl, lbytes.hex(), data[:p1].hex()))
                    crc = ref_gse_crc(data, 0x0800, tl, lbytes)
                    egl = 1 + (plen - p1) + 4
                    s.decap("h:%04x01%s%08x" % (0x7000 | egl, data[p1:].hex(), crc))
                    s.dec_newpdu()
                    out.append(s)
    # hand-built trains whose first fragment uses label re-use: conforming (total length and CRC without the
    # label) must be delivered, non-conforming (total length / CRC counting the resolved label) must not
    for lab in (LBL_A6, LBL_A3):
        for conforming in (True, False):
            for crc_with_label in (False, True):
                s = Session("st-reuse-train-%s-%d-%d" % (lab.kind, conforming, crc_with_label))
                s.strict = False
                s.dec_new(2, 32, None)
                s.prov(32, 0)
                s.prov(32, 0)
                ll = lab.wire_len()
                s.decap("h:%02x%02x0800%s%s" % (0xc0 | (0x10 if ll == 3 else 0x00), 2 + ll + 2, lab.data.hex(), "beef"))
                pdu = gen_bytes(4242 + ll, 12)
                tl = 12 + 2 + (0 if conforming else ll)
                crc = ref_gse_crc(pdu, 0x0800, tl, lab.data if crc_with_label else b"")
                s.decap("h:b00a01%04x0800%s" % (tl, pdu[:5].hex()))
                s.decap("h:700c01%s%08x" % (pdu[5:].hex(), crc))
                out.append(s)
    # every give-back site of decap with the free list refilled to capacity while a reassembly holds a
    # storage: the storage must come back inside the error value, never vanish
    triggers = {
        "inter-oversize": "h:300601" + "1122334455",
        "end-oversize": "h:700a01" + "1122334455" + "00000000",
        "end-totallen": "h:700701" + "dddd" + "00000000",
        "end-badcrc": "h:700801" + "ddeeff" + "00000000",
        "first-ok-same-id": "h:a0080100080800" + "a1a2a3",
        "first-ok-alias-id": "h:a008%02x00080800" + "a1a2a3",
        "first-oversize-same-id": "h:a00c0100100800" + "01020304050607",
        "first-oversize-alias-id": "h:a00c%02x00100800" + "01020304050607",
        "inter-ok-then-end-badcrc": None,
    }
    for slots in (1, 2, 3):
        for name, trig in triggers.items():
            for fill in ("full", "one-short", "none", "big-top", "big-bottom"):
                s = Session("st-giveback-%d-%s-%s" % (slots, name, fill))
                s.strict = False
                s.dec_new(slots, 6, None)
                s.prov(6, 0)
                s.decap("h:a00801" + "0008" + "0800" + "aabbcc")       # first fragment, frag id 1, 3 of 6 bytes
                # storages of different lengths in one receiver: a longer one on top of / under a shorter one
                k = {"full": slots + 2, "one-short": slots + 1, "none": 0, "big-top": 1, "big-bottom": 1}[fill]
                if fill == "big-bottom":
                    s.prov(16, 0)
                for _ in range(k):
                    s.prov(6, 0)
                if fill == "big-top":
                    s.prov(16, 0)
                if name == "inter-ok-then-end-badcrc":
                    s.decap("h:300201" + "dd")
                    s.decap("h:700701" + "eeff" + "00000000")
                elif name in ("first-oversize-alias-id", "first-ok-alias-id"):
                    s.decap(trig % (1 + slots))
                else:
                    s.decap(trig)
                s.dec_newpdu()
                s.decap("h:300201" + "99")
                out.append(s)
    # every kind of rejected start/complete packet of C08's quantifier, well formed apart from the reason of
    # its rejection, arriving while storages are free: each rejection must leave every storage where it was
    # (free list) or hand it back inside the error value — three in a row, then the free list is drained
    rejects = {
        "zero6-complete": "h:c00b0800000000000000aabbcc",
        "zero6-first": "h:800e01000b0800000000000000aabbcc",
        "zero3-complete": "h:d0080800000000aabbcc",
        "reuse-complete": "h:f0050800aabbcc",
        "reuse-first": "h:b0080100050800aabbcc",
        "mand-complete": "h:e0050081aabbcc",
        "mand-first": "h:a0080100050081aabbcc",
        "oversize-complete": "h:e0160800" + "11" * 20,
        "oversize-first": "h:a00801002a0800aabbcc",
        "zero6-oversize-complete": "h:c01c0800000000000000" + "22" * 20,
        "zero6-mand-complete": "h:c00b0081000000000000aabbcc",
        "ok6-complete": "h:c00b0800010203040506aabbcc",
        "ok3-first": "h:900b0100080800010203aabbcc",
    }
    for slots in (1, 2):
        for name, pkt in rejects.items():
            for prior in (False, True):
                for nsto in (3, 0):
                    s = Session("st-reject-%d-%s-%d-%d" % (slots, name, prior, nsto))
                    s.strict = False
                    s.dec_new(slots, 16, None)
                    for _ in range(nsto + (1 if prior else 0)):
                        s.prov(16, 0)
                    if prior:
                        s.decap("h:c00a0800616263646566beef")     # a complete packet: the receiver remembers a label
                        if nsto:
                            s.prov(16, 0)
                    for _ in range(3):
                        s.decap(pkt)
                    # a re-use packet straight after: it may be resolved against the label of the packet just
                    # handled (accepted or refused, it is the nearest preceding start/complete packet), never
                    # against the label remembered before it
                    s.prov(16, 0)
                    s.decap("h:f0050800aabbcc")
                    for _ in range(4):
                        s.dec_newpdu()
                    out.append(s)
    for r in range(30 if tier == "quick" else 300):
        s = Session("st-refill%d" % r)
        slots = rng.choice([1, 2, 3])
        s.dec_new(slots, 6, None)
        s.prov(6, 0)
        s.decap("h:a00a01001008006162636465")      # 5-byte payload into a 6-byte storage
        for _ in range(slots + 3):
            s.prov(6, 0)
        s.decap("h:3009" + "01" + "0102030405060708")   # oversize intermediate: give-back into a full free list
        s.decap("h:700601" + "aa" + "00000000")
        s.decap("h:a00a0%d001008006162636465" % rng.randrange(1, 4))
        s.decap("h:3004%02x" % rng.randrange(1, 8) + "010203")
        s.dec_newpdu()
        out.append(s)
    return out


# ------------------------------------------------------------------------------------------------ faults

def _train(s, rng, pdu, fid, pt, label, first_buf, frag_bufs, exts=None):
    """emit a whole fragmented transfer into registers without feeding it; returns encap op indices"""
    # the registers are emptied first: continuation calls made after the train is finished are no operations
    # (bad-op) and must leave an EMPTY register behind, so that `walk p:1+p:2+…` over all of them stays valid
    regs = [s.reg() for _ in range(1 + len(frag_bufs))]
    for r in regs:
        s.setreg(r, "-")
    idx = [s.encap(pdu, fid, pt, label, bs_zero(first_buf), reg=regs[0], exts=exts)]
    chain = regs[0]
    for bl, r in zip(frag_bufs, regs[1:]):
        idx.append(s.encap_frag(pdu, chain, bs_zero(bl), reg=r, cout=chain))
    return idx


def suite_fault(rng, tier):
    """every single fault on a fragment train: drop / duplicate / swap, every bit flip and bursts of
    up to 32 bits, truncation at every byte, replaced frag id / total length / CRC fields"""
    out = []
    n = 0
    configs = 6 if tier == "quick" else 40
    for c in range(configs):
        pl = rng.choice([9, 16, 23, 40])
        lab = rng.choice([LBL_A6, LBL_A3, LBL_BC])
        pdu = bs_gen(1000 + c, pl)
        first_buf = 7 + lab.wire_len() + rng.randrange(1, 6)
        k = rng.choice([1, 2, 3])
        per = max(1, (pl - (first_buf - 7 - lab.wire_len())) // k)
        frag_bufs = [3 + per] * (k - 1) + [64, 64]
        # learn the packet sizes from a dry layout: packets are at most 64 bytes here
        faults = [("none",)]
        npk = k + 1
        for a in range(npk):
            faults.append(("drop", a))
            faults.append(("dup", a))
            if a + 1 < npk:
                faults.append(("swap", a))
        for a in range(npk):
            maxlen = 40
            for byte in range(0, maxlen):
                bits = range(8) if tier != "quick" else [rng.randrange(8)]
                for bit in bits:
                    faults.append(("flip", a, byte, bytes([1 << bit])))
            for _ in range(30 if tier == "quick" else 300):
                byte = rng.randrange(0, maxlen)
                width = rng.randrange(2, 6)
                patt = bytearray(rng.randrange(256) for _ in range(width))
                # confine to <= 32 bits: mask first and last byte so the span is at most 32 bits
                if width == 5:
                    lead = rng.randrange(1, 8)
                    patt[0] &= (1 << lead) - 1
                    patt[4] &= 0xFF << lead & 0xFF
                    if patt[0] == 0:
                        patt[0] = 1
                    if patt[4] == 0:
                        patt[4] = 0x80
                faults.append(("flip", a, byte, bytes(patt)))
            for cut in range(0, maxlen, 1 if tier != "quick" else 3):
                faults.append(("trunc", a, cut))
        if tier == "quick":
            faults = [faults[0]] + rng.sample(faults[1:], min(len(faults) - 1, 160))
        for f in faults:
            s = Session("fault%d" % n)
            n += 1
            s.strict = False
            s.enc("new")
            s.dec_new(2, pl, None)
            s.prov(pl, 0)
            s.prov(pl + 3, 0)
            idx = _train(s, rng, pdu, 3, 0x0800, lab, first_buf, frag_bufs)[:npk + 1]
            order = list(range(len(idx)))
            if f[0] == "drop" and f[1] < len(order):
                order.pop(f[1])
            elif f[0] == "dup" and f[1] < len(order):
                order.insert(f[1], order[f[1]])
            elif f[0] == "swap" and f[1] + 1 < len(order):
                order[f[1]], order[f[1] + 1] = order[f[1] + 1], order[f[1]]
            for pos in order:
                r = s.ops[idx[pos]]["reg"]
                if f[0] == "flip" and f[1] == pos:
                    s.xorreg(r, f[2], f[3])
                if f[0] == "trunc" and f[1] == pos:
                    s.setlen(r, f[2])
                s.decap_if("p:%d" % r, fault=f[0])
            # afterwards a clean complete packet must still be handled
            j = s.encap(bs_gen(5, 4), 0, 0x0800, LBL_B6, bs_zero(32))
            s.decap_if("p:%d" % s.ops[j]["reg"])
            out.append(s)
    return out


def suite_splice(rng, tier):
    """syntactically valid fragments not produced by one transfer: trains of different PDUs spliced on
    one frag id, replaced total length / CRC / frag id fields"""
    out = []
    for n in range(150 if tier == "quick" else 3000):
        s = Session("splice%d" % n)
        s.strict = False
        s.enc("new")
        s.enc("disable")
        slots = rng.choice([1, 2, 3])
        s.dec_new(slots, 64, None)
        for _ in range(slots + 2):
            s.prov(64, 0)
        trains = []
        for k in range(rng.choice([2, 3])):
            pl = rng.choice([12, 20, 30, 30])
            fid = rng.choice([1, 1, 1 + slots, 2])
            lab = rng.choice([LBL_A6, LBL_BC])
            trains.append(_train(s, rng, bs_gen(n * 7 + k, pl), fid, rng.choice([0x0800, 0x0801]), lab,
                                 7 + lab.wire_len() + rng.randrange(0, 6), [rng.choice([6, 8, 11]), 64, 64]))
        pool = [(t, a) for t, tr in enumerate(trains) for a in range(len(tr))]
        seq = []
        # mostly ordered merges with occasional cross-splices
        ptrs = [0] * len(trains)
        for _ in range(14):
            t = rng.randrange(len(trains))
            if rng.random() < 0.2:
                seq.append(rng.choice(pool))
            elif ptrs[t] < len(trains[t]):
                seq.append((t, ptrs[t]))
                ptrs[t] += 1
        for t, a in seq:
            r = s.ops[trains[t][a]]["reg"]
            m = rng.random()
            if m < 0.1:
                s.xorreg(r, 2, bytes([rng.choice([1, 2, 3])]))      # frag id field
            elif m < 0.15 and a == 0:
                s.xorreg(r, 3, bytes([0, rng.randrange(1, 8)]))     # total length field
            s.decap_if("p:%d" % r)
            if rng.random() < 0.2:
                s.prov(64, 0)
        out.append(s)
    return out


# ------------------------------------------------------------------------------------------------ interleavings

def _merges(lens):
    """all order-preserving merges of sequences with the given lengths (as lists of source indices)"""
    if sum(lens) == 0:
        yield []
        return
    for i, l in enumerate(lens):
        if l > 0:
            rest = list(lens)
            rest[i] -= 1
            for m in _merges(rest):
                yield [i] + m


def suite_merge(rng, tier):
    out = []
    n = 0
    shapes = [(2, 2), (2, 3), (3, 3), (2, 2, 2)] if tier == "quick" else [(2, 2), (2, 3), (3, 3), (3, 4), (2, 2, 2), (2, 3, 3), (4, 4)]
    # (slot count, frag ids of the trains — pairwise on different slots): the default, then receivers whose slot
    # count is around the number of frag ids, with trains on the extreme ids
    configs = [(4, [1, 2, 3, 4])]
    extra = [(256, [0, 255, 1]), (300, [255, 0, 254]), (257, [0, 255, 256 % 256 + 2]), (255, [0, 254, 1]), (3, [253, 254, 255]),
             (2, [0, 255]), (1000, [255, 0, 128])]
    plan = []
    for shape in shapes:
        merges = list(_merges(list(shape)))
        if tier == "quick" and len(merges) > 40:
            merges = rng.sample(merges, 40)
        elif len(merges) > 600:
            merges = rng.sample(merges, 600)
        for mg in merges:
            for strays in ([False, True] if tier == "quick" else [False, True, True]):
                plan.append((shape, mg, strays, configs[0]))
    for cfgx in extra:
        for shape in [(2, 2), (2, 3), (2, 2, 2)]:
            if len(shape) > len(cfgx[1]):
                continue
            merges = list(_merges(list(shape)))
            for mg in rng.sample(merges, min(len(merges), 4 if tier == "quick" else 30)):
                plan.append((shape, mg, False, cfgx))
    for shape, mg, strays, (slots, ids) in plan:
        if True:
            if True:
                s = Session("merge%d" % n)
                n += 1
                s.strict = False
                s.expect = []
                s.expect_frag = []
                s.enc("new")
                s.enc("disable")
                s.dec_new(slots, 64, None)
                for _ in range(min(slots, 4) + 2):
                    s.prov(64, 0)
                trains = []
                for t, nf in enumerate(shape):
                    pl = 10 + 7 * t + nf
                    lab = [LBL_A6, LBL_B3, LBL_BC][t % 3]
                    first = 7 + lab.wire_len() + 2
                    per = max(1, (pl - 2) // max(1, nf - 1))
                    bufs = [3 + per] * (nf - 2) + [64]
                    # one session in three: every train carries its own chain of optional header extensions, which
                    # must come back with that train's statuses and with no other's
                    exts = None
                    if n % 3 == 0:
                        exts = [[(0x0301, bytes([t + 1] * 4))], [(0x0101 + t, b""), (0x0203, bytes([0xA0 + t] * 2))],
                                [(0x0501, bytes([0x50 + t] * 8))], [(0x0402, bytes(6)), (0x0102, b"")]][t % 4]
                        first += sum(2 + len(d) for _, d in exts)
                    tr = _train(s, rng, bs_gen(500 + n * 5 + t, pl), ids[t], 0x0800 + t, lab, first, bufs, exts=exts)
                    trains.append(tr)
                s.trains = trains
                ptr = [0] * len(shape)
                for src in mg:
                    if strays and rng.random() < 0.5:
                        k = rng.random()
                        if k < 0.4:       # stray intermediate of an aliasing / unknown id
                            s.decap("h:3003%02x" % rng.choice([5, 6, 7, 9, 0, 200]) + "aabb")
                        elif k < 0.6:     # stray end
                            s.decap("h:7006%02x" % rng.choice([5, 6, 7, 0]) + "aa00000000")
                        else:             # a complete packet in between
                            j = s.encap(bs_gen(3, 5), 0, 0x0800, LBL_A3, bs_zero(32))
                            s.decap_if("p:%d" % s.ops[j]["reg"])
                            s.prov(64, 0)
                    i = trains[src][ptr[src]]
                    ptr[src] += 1
                    d = s.decap_if("p:%d" % s.ops[i]["reg"], of=i, train=src)
                    if ptr[src] == len(trains[src]):
                        s.expect.append((d, s.ops[trains[src][0]]["pdu"], ["C07"], s.ops[trains[src][0]]["label"]))
                    else:
                        s.expect_frag.append((d, ["C07"]))
                out.append(s)
    # a train whose first fragment carries the RE-USE label (resolved against the label remembered at that
    # moment and kept in the context), with complete packets of every kind, padding, a frame boundary or a
    # rejected packet in between: whatever happens to the label memory afterwards, the PDU is delivered at its
    # own end fragment under the label resolved at the first fragment
    strays = ["bc-complete", "a3-complete", "reset", "padding", "badcrc-end-other", "unknown-mand", "reuse-complete", "none"]
    for lab in (LBL_A6, LBL_A3):
        for st1 in strays:
            for st2 in strays:
                if tier == "quick" and st1 != "none" and st2 != "none" and rng.random() < 0.6:
                    continue
                s = Session("mergeU-%s-%s-%s" % (lab.kind, st1, st2))
                s.strict = False
                s.expect = []
                s.expect_frag = []
                s.enc("new")
                s.dec_new(2, 64, None)
                for _ in range(4):
                    s.prov(64, 0)
                i = s.encap(bs_gen(1, 4), 0, 0x0800, lab, bs_zero(32))
                s.decap_if("p:%d" % s.ops[i]["reg"], of=i)
                s.prov(64, 0)
                pdu = bs_gen(70 + len(st1) + len(st2), 30)
                tr = _train(s, rng, pdu, 1, 0x0801, lab, 12, [10, 64])       # first (re-use label), intermediate, end

                def stray(kind, s=s):
                    if kind == "bc-complete":
                        j = s.encap(bs_gen(3, 5), 0, 0x0800, LBL_BC, bs_zero(32))
                        s.decap_if("p:%d" % s.ops[j]["reg"])
                        s.prov(64, 0)
                    elif kind == "a3-complete":
                        j = s.encap(bs_gen(4, 5), 0, 0x0800, LBL_B3, bs_zero(32))
                        s.decap_if("p:%d" % s.ops[j]["reg"])
                        s.prov(64, 0)
                    elif kind == "reuse-complete":
                        s.decap("h:f0050800aabbcc")
                        s.prov(64, 0)
                    elif kind == "reset":
                        s.dec_reset()
                    elif kind == "padding":
                        s.decap("z:4")
                    elif kind == "badcrc-end-other":
                        s.decap("h:700602aa00000000")
                    elif kind == "unknown-mand":
                        s.decap("h:e0050055aabbcc")
                d = s.decap_if("p:%d" % s.ops[tr[0]]["reg"], of=tr[0])
                s.expect_frag.append((d, ["C07"]))
                stray(st1)
                d = s.decap_if("p:%d" % s.ops[tr[1]]["reg"], of=tr[1])
                s.expect_frag.append((d, ["C07"]))
                stray(st2)
                d = s.decap_if("p:%d" % s.ops[tr[2]]["reg"], of=tr[2])
                s.expect.append((d, pdu, ["C07"], lab))
                out.append(s)
    # restart: a new first fragment on the same id restarts only that id
    for r in range(20 if tier == "quick" else 200):
        s = Session("restart%d" % r)
        s.strict = False
        s.enc("new")
        s.enc("disable")
        s.dec_new(2, 64, None)
        for _ in range(4):
            s.prov(64, 0)
        a = _train(s, rng, bs_gen(r, 30), 1, 0x0800, LBL_A6, 20, [12, 64])
        b = _train(s, rng, bs_gen(r + 50, 25), 2, 0x0801, LBL_BC, 12, [12, 64])
        c = _train(s, rng, bs_gen(r + 90, 28), 1, 0x0802, LBL_B3, 14, [64])
        for i in (a[0], b[0], a[1], c[0], b[1], c[1], b[2], a[2]):
            s.decap_if("p:%d" % s.ops[i]["reg"], of=i)
        out.append(s)
    return out


# ------------------------------------------------------------------------------------------------ frames

def suite_frames(rng, tier):
    """packets laid back to back in a frame + zero padding, walked by consumed lengths; the same
    packets decapsulated one by one by a twin receiver in a twin session"""
    out = []
    for n in range(120 if tier == "quick" else 2500):
        slots = rng.choice([2, 3, 4])
        plan = []
        for k in range(rng.randrange(1, 5)):
            plan.append((rng.choice([0, 1, 5, 20, 60]), rng.randrange(1, 5), rng.choice([LBL_A6, LBL_A3, LBL_BC, LBL_A6]),
                         rng.choice([9, 13, 20, 40, 100]), [rng.choice([5, 8, 12, 30, 100]) for _ in range(8)] + [200]))
        bad = rng.random() < 0.5
        pad = rng.choice([0, 1, 2, 3, 10])
        garbage = rng.random() < 0.3
        for mode in ("single", "walk"):
            s = Session("frame%d-%s" % (n, mode))
            s.strict = False
            s.twin = "frame%d" % n
            s.enc("new")
            s.dec_new(slots, 64, None)
            for _ in range(slots + 2):
                s.prov(64, 0)
            regs = []
            for (pl, fid, lab, fb, bufs) in plan:
                idx = _train(s, rng.__class__(n), bs_gen(n * 11 + fid, pl), fid, 0x0800, lab, fb, bufs)
                regs += [s.ops[i]["reg"] for i in idx]
            if bad and regs:
                victim = regs[len(regs) // 2]
                s.xorreg(victim, 3, b"\x40")
            if mode == "single":
                for r in regs:
                    s.decap_if("p:%d" % r)
                if pad >= 1:
                    s.decap("z:%d" % pad)
            else:
                expr = "+".join("p:%d" % r for r in regs)
                if pad:
                    expr += "+z:%d" % pad
                s.walk(expr if expr else "-")
                if garbage and regs:
                    # the first packet followed by garbage: same outcome for the first step
                    pass
            out.append(s)
    # rejected packets in the middle of a frame: every per-packet rejection consumes its own length only
    for n in range(80 if tier == "quick" else 1500):
        kind = rng.choice(["unknown-mand", "unknown-mand-ext", "unknown-mand-first", "badcrc", "unknown-fid", "nostorage", "noreuse",
                           "ext-first-nearly-whole", "ext-first-nearly-whole",
                           "oversize-complete", "oversize-first", "oversize-inter", "oversize-end"])
        for mode in ("single", "walk"):
            s = Session("reject%d-%s" % (n, mode))
            s.strict = False
            s.twin = "reject%d" % n
            s.enc("new")
            s.enc("disable")
            s.dec_new(2, 64, None)
            for _ in range(0 if kind == "nostorage" else 3):
                s.prov(64, 0)
            regs = []
            i = s.encap(bs_gen(n, 9), 1, 0x0800, LBL_A6, bs_zero(40))
            regs.append(s.ops[i]["reg"])
            if kind == "unknown-mand":
                j = s.encap(bs_gen(n + 1, 6), 1, 0x0081, LBL_A3, bs_zero(40))      # protocol type = unknown mandatory extension
                regs.append(s.ops[j]["reg"])
            elif kind == "unknown-mand-ext":
                j = s.encap(bs_gen(n + 1, 6), 1, 0x0800, LBL_A3, bs_zero(60), exts=[(0x0101, b""), (0x0055, b"\x01\x02")])
                regs.append(s.ops[j]["reg"])
            elif kind == "unknown-mand-first":
                j = s.encap(bs_gen(n + 1, 30), 1, 0x0800, LBL_A3, bs_zero(24), exts=[(0x0055, b"\x01\x02")])
                regs.append(s.ops[j]["reg"])
            elif kind == "ext-first-nearly-whole":
                # a legitimate first fragment with extension headers that carries all but a few PDU bytes
                rr = random.Random(n)
                lab = rr.choice([LBL_BC, LBL_A3, LBL_A6])
                ch = rr.choice([[(0x0501, bytes(8))], [(0x0501, bytes(8)), (0x0401, bytes(6))], [(0x0301, bytes(4))]])
                extlen = sum(2 + len(d) for _, d in ch)
                pl = rr.choice([20, 30])
                short = rr.choice([1, 2, 3])
                j = s.encap(bs_gen(n + 4, pl), 2, 0x0800, lab, bs_zero(4 + lab.wire_len() + extlen + pl - short), exts=ch)
                regs.append(s.ops[j]["reg"])
                k2 = s.encap_frag(bs_gen(n + 4, pl), s.ops[j]["reg"], bs_zero(64), cout=s.ops[j]["reg"])
                regs.append(s.ops[k2]["reg"])
            elif kind == "badcrc":
                idx = _train(s, random.Random(n), bs_gen(n + 2, 20), 2, 0x0800, LBL_BC, 12, [64])
                regs += [s.ops[k]["reg"] for k in idx]
                s.xorreg(regs[-1], 4, b"\x01")
            elif kind == "unknown-fid":
                s.setreg(900, "h:300405aabbcc")
                regs.append(900)
                s.setreg(901, "h:700605aa00000000")
                regs.append(901)
            elif kind == "noreuse":
                s.setreg(900, "h:f0050800aabbcc")
                regs = [900] + regs
            elif kind == "oversize-complete":       # 70-byte PDU, 64-byte storages
                s.setreg(900, "h:e0480800+g:%d:70" % n)
                regs.append(900)
            elif kind == "oversize-first":          # announces 100 bytes
                s.setreg(900, "h:a00a0200660800+g:%d:5" % n)
                regs.append(900)
            elif kind in ("oversize-inter", "oversize-end"):
                s.setreg(900, "h:a00a0200320800+g:%d:5" % n)                 # first fragment of a 48-byte PDU: accepted
                regs.append(900)
                if kind == "oversize-inter":
                    s.setreg(901, "h:303f02+g:%d:62" % (n + 1))              # 62 more bytes: beyond the 64-byte storage
                else:
                    s.setreg(901, "h:704302+g:%d:62+h:00000000" % (n + 1))   # end fragment with 62 bytes
                regs.append(901)
            j = s.encap(bs_gen(n + 3, 5), 1, 0x0800, LBL_BC, bs_zero(40))
            regs.append(s.ops[j]["reg"])
            if mode == "single":
                for r in regs:
                    s.decap_if("p:%d" % r)
                s.decap("z:4")
            else:
                s.walk("+".join("p:%d" % r for r in regs) + "+z:4")
            out.append(s)
    # a continuation near the 4095-byte GSE length in a frame larger than 4 KiB, followed by another packet and
    # padding: the end packet is legal up to 4090 remaining bytes (+1 frag id +4 CRC), beyond that an
    # intermediate fragment must be produced; either way the walker must find the packets that follow
    for n, rem in enumerate(range(4086, 4098)):
        for mode in ("single", "walk"):
            s = Session("bigcont%d-%s" % (rem, mode))
            s.strict = False
            s.twin = "bigcont%d" % rem
            s.enc("new")
            s.enc("disable")
            s.dec_new(2, 5000, None)
            for _ in range(3):
                s.prov(5000, 0)
            lab = (LBL_BC, LBL_A6, LBL_A3)[n % 3]
            k0 = 20 - (7 + lab.wire_len())
            pdu = bs_gen(7000 + rem, rem + k0)
            # (registers are emptied first: a continuation asked for after the train is finished is no operation)
            pre = [s.reg() for _ in range(4)]
            for r in pre:
                s.setreg(r, "-")
            i = s.encap(pdu, 3, 0x0800, lab, bs_zero(20), reg=pre[0])
            regs = [pre[0]]
            chain = pre[0]
            for r in pre[1:]:
                s.encap_frag(pdu, chain, bs_zero(6000), reg=r, cout=chain)
                regs.append(r)
            j = s.encap(bs_gen(n + 3, 5), 1, 0x0800, LBL_BC, bs_zero(40))
            regs.append(s.ops[j]["reg"])
            if mode == "single":
                for r in regs:
                    s.decap_if("p:%d" % r)
                s.decap("z:4")
            else:
                s.walk("+".join("p:%d" % r for r in regs) + "+z:4")
            out.append(s)
    # padding and frame-level errors with MORE than a maximum GSE packet (4097 bytes) left in the frame: the
    # padding status, and every error that drops the frame, consume ALL that is left
    for npad in (2, 4095, 4096, 4097, 4098, 4099, 5000, 7238, 65535, 70000):
        for mode in ("single", "walk"):
            s = Session("bigpad%d-%s" % (npad, mode))
            s.strict = False
            s.twin = "bigpad%d" % npad
            s.enc("new")
            s.dec_new(2, 64, None)
            for _ in range(3):
                s.prov(64, 0)
            i = s.encap(bs_gen(npad, 30), 1, 0x0800, LBL_A6, bs_zero(64))
            r = s.ops[i]["reg"]
            if mode == "single":
                s.decap_if("p:%d" % r)
                s.decap("z:%d" % npad)
            else:
                s.walk("p:%d+z:%d" % (r, npad))
            out.append(s)
        # frame-level errors followed by a long tail: an intermediate packet without frag id, an end packet
        # shorter than id + CRC; the peek on the same buffers
        s = Session("bigerr%d" % npad)
        s.strict = False
        s.dec_new(2, 64, None)
        s.prov(64, 0)
        s.decap("h:3000+g:%d:%d" % (npad, npad))
        s.decap("h:700301aabb+g:%d:%d" % (npad + 1, npad))
        s.decap("h:c00a0800616263646566beef+z:%d" % npad)
        s.peek("z:%d" % npad)
        s.peek("h:c00a0800616263646566beef+z:%d" % npad)
        out.append(s)
    # outcome independent of following bytes
    for n in range(60 if tier == "quick" else 1000):
        s = Session("tailindep%d" % n)
        s.strict = False
        s.enc("new")
        pl = rng.choice([0, 1, 2, 5, 30])
        exts = None
        pt = 0x0800
        mgr = {0x42: ("N", 3), 0x43: ("N", 0), 0x81: ("F", 0), 0x90: ("F", 2), 0x55: ("N", 5)}
        if rng.random() < 0.6:
            exts, pt = pick_exts(rng, pt)
        i = s.encap(bs_gen(n, pl), 1, pt, rng.choice([LBL_A6, LBL_BC, LBL_A3]), bs_zero(rng.choice([12, 16, 24, 100])), exts=exts)
        r = s.ops[i]["reg"]
        for tail in ("-", "z:9", "c:255:12", "h:03020000", "h:0600", "g:%d:20" % n):
            s.dec_new(2, 40, mgr)
            s.prov(40, 0)
            s.decap_if("p:%d+%s" % (r, tail), of=i, tailvariant=tail)
        out.append(s)
    return out


# ------------------------------------------------------------------------------------------------ recovery

def suite_recover(rng, tier):
    out = []
    for n in range(200 if tier == "quick" else 4000):
        out.append(_recover_session(rng, "recover%d" % n, n, rng.choice([1, 2, 3]), list(range(0, 8))))
    # receivers with one slot per frag id (or more): abandoned trains on the extreme ids, probe on the extreme ids
    for n in range(40 if tier == "quick" else 600):
        slots = rng.choice([255, 256, 256, 257, 300])
        out.append(_recover_session(rng, "recoverM%d" % n, 5000 + n, slots, [0, 0, 1, 254, 255, 255, slots % 256, (slots - 1) % 256]))
    return out


def _recover_session(rng, name, n, slots, ids):
    if True:
        s = Session(name)
        s.strict = False
        maxpdu = 40
        s.enc("new")
        s.enc("disable")
        s.dec_new(slots, maxpdu, None)
        for _ in range(rng.randrange(0, min(slots, 3) + 3)):
            s.prov(maxpdu, 0)
        # poisoning prefix
        for _ in range(rng.randrange(5, 40)):
            c = rng.random()
            if c < 0.25:
                ln = rng.choice([0, 1, 2, 3, 5, 9, 20, 60])
                s.decap("g:%d:%d" % (rng.randrange(1 << 20), ln))
            elif c < 0.45:      # unfinished trains on every slot
                fid = rng.choice(ids)
                s.decap("h:a00a%02x001008006162636465" % fid)
            elif c < 0.55:
                s.decap("h:f0030800aa")            # re-use label without context
            elif c < 0.65:
                s.decap("h:7006%02xaa00000000" % rng.choice(ids))    # end with wrong crc / unknown id
            elif c < 0.75:
                s.decap("h:300c%02x" % rng.choice(ids) + "11" * 11)
            elif c < 0.85:
                s.decap("h:e00400420102")          # unknown mandatory extension
            elif c < 0.9:
                s.decap("h:c00a0800000000000000aabb")   # zero label
            else:
                s.prov(rng.choice([maxpdu, maxpdu, 3]), 0)
        if rng.random() < 0.35:      # the caller tops the pool up until provisioning reports it is full
            for _ in range(min(slots, 3) + 3 if slots <= 3 else 6):
                s.prov(maxpdu, 0)
        # recovery protocol of the property: reset the label memory, make one storage available
        s.dec_reset()
        s.add("prov %d %d" % (maxpdu, 0), op="prov", len=maxpdu, fill=0, recovery=True)
        kind = rng.choice(["complete", "frag"])
        pdu = bs_gen(n + 1, rng.randrange(1, maxpdu + 1))
        lab = rng.choice([LBL_A6, LBL_A3, LBL_BC])
        fid = rng.randrange(0, 256) if rng.random() < 0.5 else rng.choice(ids)   # often the id of an abandoned train
        s.expect = []
        s.expect_frag = []
        if kind == "complete":
            i = s.encap(pdu, fid, 0x0800, lab, bs_zero(100))
            d = s.decap_if("p:%d" % s.ops[i]["reg"], of=i, probe="complete")
            s.expect.append((d, pdu, ["C16"], lab))
        else:
            fb = 7 + lab.wire_len() + rng.randrange(0, max(1, len(pdu)))
            idx = _train(s, rng, pdu, fid, 0x0800, lab, fb, [rng.choice([4, 6, 9, 20]), 100, 100])
            ds = [s.decap_if("p:%d" % s.ops[i]["reg"], of=i, probe="frag") for i in idx]
            s.expect_last = (ds, pdu, ["C16"], lab)
        return s


# ------------------------------------------------------------------------------------------------ extensions

def suite_exttransfer(rng, tier):
    ss = suite_transfer(rng, tier, n_sessions=(150 if tier == "quick" else 4000), with_ext=True)
    for s in ss:
        s.name = "ext" + s.name
    return ss


def suite_extlattice(rng, tier):
    """chains from every H-LEN class, protocol types around 0x100 / 0x600, buffers forcing
    fragmentation at every offset inside and after the extension area, oversized extensions"""
    out = []
    n = 0
    chains = [
        [(0x0101, b"")], [(0x0203, b"\x01\x02")], [(0x0301, bytes(4))], [(0x0401, bytes(6))], [(0x0501, bytes(8))],
        [(0x0042, b"\x01\x02\x03")], [(0x0043, b"")], [(0x0101, b""), (0x0501, bytes(8)), (0x0042, b"abc")],
        [(0x0203, b"\x09\x09"), (0x0081, b"")], [(0x0090, b"\x01\x02")], [(0x0081, b"")],
        [(0x0042, b"xyz"), (0x0301, bytes(4)), (0x0055, b"12345"), (0x0090, b"zz")],
        [(0x0042, bytes(4000))], [(0x0042, bytes(4086))], [(0x0042, bytes(5000))],
        # first-fragment header of exactly 4095 / 4096 bytes of GSE length (5 + label + extensions): the largest
        # header that still fits carries no payload, one more byte must be refused
        [(0x0042, bytes(4088))], [(0x0042, bytes(4089))], [(0x0042, bytes(4082))], [(0x0042, bytes(4083))],
        # long chains (the walker must follow any number of extensions) and mandatory extensions with more data
        # than any optional one can carry (9 … 255 bytes: what a manager's u8 can announce)
        [(0x0101 + k, b"") for k in range(8)], [(0x0101 + k, b"") for k in range(9)], [(0x0101 + k, b"") for k in range(16)],
        [(0x0101 + k, b"") for k in range(17)], [(0x0101 + k, b"") for k in range(32)], [(0x0101 + k, b"") for k in range(33)],
        [(0x0101 + k, b"") for k in range(40)] + [(0x0042, b"abc")],
        [(0x0042, bytes(range(9)))], [(0x0042, bytes(range(12)))], [(0x0042, bytes(range(100)))], [(0x0042, bytes(range(254)))],
        [(0x0042, bytes(range(255)))], [(0x0301, bytes(4)), (0x0090, bytes(range(9)))], [(0x0090, bytes(range(255)))],
        # the protocol type names a mandatory extension that is in the chain but not at its end
        [(0x0042, b"abc"), (0x0105, b"")], [(0x0101, b""), (0x0042, b"abc"), (0x0203, b"\x01\x02")],
        [(0x0043, b""), (0x0042, b"abc"), (0x0301, bytes(4)), (0x0105, b"")], [(0x0081, b""), (0x0042, b"abc")],
    ]
    mgr = {0x42: ("N", 3), 0x43: ("N", 0), 0x81: ("F", 0), 0x90: ("F", 2), 0x55: ("N", 5)}
    for ch in chains:
        extlen = sum(2 + len(d) for _, d in ch)
        last = ch[-1][0]
        for pt in sorted(set([0x0800, 0x0600, 0x05FF, 0x0100, 0x00FF, last, ch[0][0], last if last < 0x100 else 0x0081] +
                             ([e for e, _ in ch if e < 0x100] if len(ch) <= 4 else []))):
            for lab in (LBL_A6, LBL_BC):
                for pl in (0, 1, 2, 30):
                    base = 4 + lab.wire_len() + extlen + pl
                    bufs = sorted(set([0, 3, base - pl - 3, base - pl - 1, base - pl, base - pl + 3, base - 1, base, base + 1,
                                       base - pl + 4, 4097, 70000]))
                    if tier == "quick":
                        bufs = rng.sample(bufs, 5)
                    if 4080 <= extlen <= 4095:
                        bufs = sorted(set(bufs + [4097, 4100, 5000, 70000]))
                    for bl in bufs:
                        if bl < 0:
                            continue
                        s = Session("extl%d" % n)
                        n += 1
                        big = any(len(d) > 255 for _, d in ch)
                        mg = dict(mgr)
                        if big:
                            mg[0x42] = ("N", min(255, len(ch[0][1])))
                            s.strict = False       # a manager cannot describe more than 255 data bytes
                        elif ch[0][0] == 0x42:
                            mg[0x42] = ("N", len(ch[0][1]))
                        for eid, ed in (ch if pt >= 0x600 else ch[:-1]):   # mandatory extensions used as non-final ones
                            if eid < 0x100:
                                mg[eid] = ("N", min(255, len(ed)))
                        if pt < 0x100 and pt == last:
                            mg[last] = ("F", min(255, len(ch[-1][1])))   # the receiver knows it as final, as the sender uses it
                        mini_transfer(s, rng, bs_gen(n, pl), 2, pt, lab, bl, exts=ch, mgr=mg)
                        # continuation so that fragmented PDUs with extensions complete too
                        i = len(s.ops) - 3
                        j = s.encap_frag(bs_gen(n, pl), s.ops[i]["reg"], bs_zero(4200), cout=s.ops[i]["reg"])
                        s.decap_if("p:%d" % s.ops[j]["reg"], of=j)
                        out.append(s)
    # PDUs around the 16-bit total length through encap_ext (total length = PDU + 2 + label as written, the
    # extensions are not counted): the largest PDU that fits is accepted, one more byte is refused
    for lab in (LBL_A6, LBL_A3, LBL_BC):
        ll = lab.wire_len()
        for pl in (65533 - ll - 1, 65533 - ll, 65533 - ll + 1, 65533, 65534, 65535, 65536):
            for ch in (chains[0], chains[2], chains[10]):
                for bl in (20, 5000):
                    s = Session("extbig%d" % n)
                    n += 1
                    s.strict = False
                    pt = ch[-1][0] if ch[-1][0] < 0x100 else 0x0800
                    s.enc("new")
                    s.encap(bs_gen(n, pl), 3, pt, lab, bs_zero(bl), exts=ch)
                    out.append(s)
    # extension areas around 64 KiB (a length squeezed into 16 bits would wrap): refused, never a packet
    for elen in (65524, 65530, 65533, 65534, 65535, 65536, 65540):
        for ch in ([(0x0042, bytes(elen))], [(0x0042, bytes(elen - 10)), (0x0301, bytes(4))]):
            for bl in (20, 70000, 140000):
                s = Session("extgiant%d" % n)
                n += 1
                s.strict = False
                s.enc("new")
                s.encap(bs_gen(n, 5), 3, 0x0800, LBL_A6, bs_const(0xAA, bl), exts=ch)
                s.encap(bs_gen(n, 5), 3, 0x0800, LBL_A6, bs_zero(64))
                out.append(s)
    # encap_ext with an EMPTY extension list (refused: ErrorNoExtensionFound), for every label kind / size
    for lab in (LBL_A6, LBL_A3, LBL_BC, LBL_RU):
        for pt in (0x0800, 0x0081, 0x0100):
            for bl in (3, 20, 64):
                s = Session("extempty%d" % n)
                n += 1
                s.strict = False
                s.enc("new")
                i = s.encap(bs_gen(n, 9), 2, pt, LBL_A3, bs_zero(64))
                s.encap(bs_gen(n, 9), 2, pt, lab, bs_const(0xAA, bl), exts=[])
                s.encap(bs_gen(n, 9), 2, 0x0800, LBL_A3, bs_zero(64))
                out.append(s)
    # the mandatory rejections of encap_ext (zero 6-byte label and its neighbours, explicit re-use with and
    # without something to re-use, protocol types in the refused range) on every chain shape
    from suites import LBL_Z6, TRICKY_LABELS
    for ci, ch in enumerate(chains[:12]):
        last = ch[-1][0]
        for lab in [LBL_Z6, LBL_RU, LBL_A3] + list(TRICKY_LABELS):
            for pt in (0x0800, last if last < 0x100 else 0x0081, 0x0100, 0x05FF):
                for prior in (False, True):
                    s = Session("extrej%d" % n)
                    n += 1
                    s.strict = False
                    mini_transfer(s, rng, bs_gen(n, 9), 2, pt, lab, 64, exts=ch, mgr=dict(mgr), prior=LBL_A3 if prior else None)
                    out.append(s)
    return out


def suite_bigtransfer(rng, tier):
    """PDUs up to the 16-bit total length through schedules of large and small buffers"""
    out = []
    for n in range(12 if tier == "quick" else 200):
        s = Session("big%d" % n)
        lab = rng.choice([LBL_A6, LBL_A3, LBL_BC])
        pl = rng.choice([65535 - 2 - lab.wire_len(), 65535 - 2 - lab.wire_len() - 1, 65529, 40000, 12000, 8190, 4096])
        pdu = bs_gen(n + 77, pl)
        s.enc("new")
        s.dec_new(2, pl, None)
        s.prov(pl, 0)
        s.prov(pl + 5, 0)
        bl = rng.choice([13, 100, 4096, 4097, 5000, 70000])
        i = s.encap(pdu, rng.randrange(256), 0x0800, lab, bs_const(1, bl))
        s.decap_if("p:%d" % s.ops[i]["reg"], of=i)
        first, done = est_first_payload(pl, lab.wire_len(), bl)

        def on_packet(j, s=s):
            s.decap_if("p:%d" % s.ops[j]["reg"], of=j)
        continue_pdu(s, rng, pdu, s.ops[i]["reg"], pl - first, budget=60, big=True, on_packet=on_packet)
        j = s.encap_frag(pdu, s.ops[i]["reg"], bs_zero(4200), cout=s.ops[i]["reg"])
        s.decap_if("p:%d" % s.ops[j]["reg"], of=j)
        out.append(s)
    # trains of MANY fragments (hundreds: tiny buffers), with and without header extensions: no fragment count
    # may limit a reassembly
    for n, (pl, bl, exts) in enumerate([(3000, 13, None), (6000, 13, None), (2600, 8, None), (1500, 13, [(0x0301, bytes(4))]),
                                        (65000, 120, None)]):
        s = Session("manyfrags%d" % n)
        pdu = bs_gen(n + 177, pl)
        s.enc("new")
        s.dec_new(2, pl, None)
        s.prov(pl, 0)
        s.prov(pl, 0)
        i = s.encap(pdu, 7, 0x0800, LBL_A3, bs_const(1, 40), exts=exts)
        s.decap_if("p:%d" % s.ops[i]["reg"], of=i)
        chain = s.ops[i]["reg"]
        per = max(1, bl - 3)
        for _ in range(pl // per + 3):
            j = s.encap_frag(pdu, chain, bs_zero(bl), cout=chain)
            s.decap_if("p:%d" % s.ops[j]["reg"], of=j)
        j = s.encap_frag(pdu, chain, bs_zero(64), cout=chain)
        s.decap_if("p:%d" % s.ops[j]["reg"], of=j)
        out.append(s)
    # wall-clock time between the fragments of a train (the receiver's memory is built with a non-zero max_delay
    # argument, which the crate documents as unused): no result may depend on how long the caller waited
    for n, (maxpdu, ms) in enumerate([(42, 2100)] + ([(43, 3100), (40, 5100)] if tier != "quick" else [])):
        s = Session("paused%d" % n)
        pdu = bs_gen(n + 277, 30)
        s.enc("new")
        s.dec_new(2, maxpdu, None)
        s.prov(maxpdu, 0)
        s.prov(maxpdu, 0)
        i = s.encap(pdu, 1, 0x0800, LBL_A3, bs_const(1, 20))
        s.decap_if("p:%d" % s.ops[i]["reg"], of=i)
        chain = s.ops[i]["reg"]
        j = s.encap_frag(pdu, chain, bs_zero(12), cout=chain)
        s.decap_if("p:%d" % s.ops[j]["reg"], of=j)
        s.pause(ms)
        j = s.encap_frag(pdu, chain, bs_zero(64), cout=chain)
        s.decap_if("p:%d" % s.ops[j]["reg"], of=j)
        out.append(s)
    # PDUs just beyond the total length must be refused on the fragmenting path
    for n, (pl, lab) in enumerate([(65534, LBL_A6), (65528, LBL_A6), (65527, LBL_A6), (65531, LBL_A3), (65530, LBL_A3),
                                   (65534, LBL_BC), (65533, LBL_BC), (65536, LBL_BC), (70000, LBL_A6)]):
        s = Session("toolong%d" % n)
        s.enc("new")
        for bl in (20, 4097, 70000):
            s.preview(bs_gen(n, pl), 0x0800, lab, bl)
            s.encap(bs_gen(n, pl), 1, 0x0800, lab, bs_zero(bl))
        out.append(s)
    return out


# ------------------------------------------------------------------------------------------------ utils

def ref_build(kind, f):
    """reference serialisation of a packet description (ETSI field order), independent of the crate"""
    if kind == "C":
        gl, pt, lab, pdu = f
        return ref_hdr_gen("C", lab.kind, gl).to_bytes(2, "big") + pt.to_bytes(2, "big") + lab.data + pdu.val
    if kind == "F":
        gl, fid, tl, pt, lab, pdu = f
        return ref_hdr_gen("F", lab.kind, gl).to_bytes(2, "big") + bytes([fid]) + tl.to_bytes(2, "big") + pt.to_bytes(2, "big") + lab.data + pdu.val
    if kind == "I":
        gl, fid, pdu = f
        return ref_hdr_gen("I", "U", gl).to_bytes(2, "big") + bytes([fid]) + pdu.val
    gl, fid, pdu, crc = f
    return ref_hdr_gen("E", "U", gl).to_bytes(2, "big") + bytes([fid]) + pdu.val + crc.to_bytes(4, "big")


def suite_utils(rng, tier):
    out = []
    s = Session("utils")
    s.strict = False
    s.enc("new")
    s.enc("disable")
    s.dec_new(2, 4100, None)
    s.prov(4100, 0)
    s.prov(4100, 0)
    n = 250 if tier == "quick" else 5000

    def both(kind, line_fields, f):
        ref = ref_build(kind, f)
        a = s.add("u_gen %s %s %d" % (kind, line_fields, len(ref)), op="u_gen", kind=kind, wf=True, fields=f, ref=ref)
        s.add("u_parse %s h:%s" % (kind, ref.hex()), op="u_parse", kind=kind, wf=True, fields=f, ref=ref)
        if len(ref) <= 64:
            # the same bytes handed to the parsers of the three other packet kinds (refused: wrong packet type)
            for other in "CFIE":
                if other != kind:
                    s.add("u_parse %s h:%s" % (other, ref.hex()), op="u_parse", kind=other, wf=False, fields=None, ref=ref)
        return a

    # the largest descriptions: GSE length 4090..4095 for every kind and label kind, then random ones
    forced = []
    for kind0 in "CFIE":
        for lab0 in (LBL_A6, LBL_A3, LBL_BC, LBL_RU):
            for gl0 in (4090, 4093, 4094, 4095):
                hdr = {"C": 2 + lab0.wire_len(), "F": 5 + lab0.wire_len(), "I": 1, "E": 5}[kind0]
                if kind0 in "IE" and lab0 is not LBL_A6:
                    continue
                forced.append((kind0, lab0, gl0 - hdr))
    for k in range(n + len(forced)):
        pl = rng.choice([0, 1, 2, 10, 100, 1000, 4000, 4080]) if rng.random() < 0.5 else rng.randrange(0, 4001)
        lab = rng.choice([LBL_A6, LBL_A3, LBL_BC, LBL_RU])
        pt = rng.choice([0x0600, 0x0800, 0xFFFF, 0x86DD])
        fid = rng.randrange(256)
        kind = rng.choice("CFIE")
        if k < len(forced):
            kind, lab, pl = forced[k]
        pdu = bs_gen(k + 1, pl)
        ll = lab.wire_len()
        if kind == "C":
            gl = 2 + ll + pl
            if gl > 4095:
                continue
            a = both("C", "%d %04x %s %s" % (gl, pt, lab.tok(), pdu.expr), (gl, pt, lab, pdu))
            if lab.kind != "U":
                i = s.encap(pdu, fid, pt, lab, bs_zero(gl + 2))
                s.ops[i]["utils_twin"] = a
                s.decap_if("p:%d" % s.ops[i]["reg"], of=i)
                s.prov(4100, 0)
        elif kind == "F":
            gl = 5 + ll + pl
            if gl > 4095:
                continue
            total = pl + rng.randrange(4, 200)      # at least 4 more bytes, else the PDU fits a complete packet
            tl = 2 + ll + total
            if k % 5 == 4:
                # the total length is a field of its own: any value, also smaller than what the fragment carries
                tl = rng.choice([0, 1, ll, ll + 1, ll + 2, pl, pl + 1, max(0, pl + ll), pl + ll + 1, pl + ll + 2, 65535])
                both("F", "%d %d %d %04x %s %s" % (gl, fid, tl, pt, lab.tok(), pdu.expr), (gl, fid, tl, pt, lab, pdu))
                continue
            a = both("F", "%d %d %d %04x %s %s" % (gl, fid, tl, pt, lab.tok(), pdu.expr), (gl, fid, tl, pt, lab, pdu))
            if lab.kind != "U" and pl < total:
                # the encapsulator emits the same bytes for a PDU of `total` bytes whose first pl bytes are pdu
                whole = BS(pdu.expr + "+g:%d:%d" % (k + 77, total - pl), pdu.val + gen_bytes(k + 77, total - pl))
                i = s.encap(whole, fid, pt, lab, bs_zero(gl + 2))
                s.ops[i]["utils_twin"] = a
        elif kind == "I":
            gl = 1 + pl
            if gl > 4095:
                continue
            a = both("I", "%d %d %s" % (gl, fid, pdu.expr), (gl, fid, pdu))
            if pl >= 1:      # the encapsulator never emits an empty intermediate fragment
                whole = BS(pdu.expr + "+g:%d:50" % (k + 78), pdu.val + gen_bytes(k + 78, 50))
                i = s.encap_frag(whole, (fid, 0x11223344, 0), bs_zero(pl + 3))
                s.ops[i]["utils_twin"] = a
        else:
            gl = 5 + pl
            if gl > 4095:
                continue
            crc = rng.randrange(1 << 32)
            a = both("E", "%d %d %s %08x" % (gl, fid, pdu.expr, crc), (gl, fid, pdu, crc))
            i = s.encap_frag(pdu, (fid, crc, 0), bs_zero(pl + 7))
            s.ops[i]["utils_twin"] = a
    out.append(s)
    # whole trains described with the four structs, serialised by `generate`, and handed to a decapsulator:
    # what utils generates from well-formed descriptions is what the decapsulator accepts with the same field
    # values (every label kind, re-use included: Total Length and CRC count the label AS WRITTEN; first
    # fragments carrying all but 0..7 bytes of the PDU; empty and one-byte payloads)
    for k in range(120 if tier == "quick" else 2500):
        s = Session("utilstrain%d" % k)
        s.strict = False
        s.expect = []
        s.expect_frag = []
        s.dec_new(2, 300, None)
        for _ in range(3):
            s.prov(300, 0)

        def both(kind, line_fields, f, s=s):
            ref = ref_build(kind, f)
            s.add("u_gen %s %s %d" % (kind, line_fields, len(ref)), op="u_gen", kind=kind, wf=True, fields=f, ref=ref)
            s.add("u_parse %s h:%s" % (kind, ref.hex()), op="u_parse", kind=kind, wf=True, fields=f, ref=ref)
            return s.decap("h:" + ref.hex())

        saved = rng.choice([LBL_A6, LBL_A3])
        lab = rng.choice([LBL_A6, LBL_A3, LBL_BC, LBL_RU, LBL_RU])
        pt = rng.choice([0x0600, 0x0800, 0xFFFF])
        fid = rng.choice([0, 1, 7, 254, 255])
        if lab.kind == "U" or rng.random() < 0.3:
            cp = bs_gen(k + 5, 4)
            both("C", "%d %04x %s %s" % (2 + saved.wire_len() + 4, 0x0800, saved.tok(), cp.expr), (2 + saved.wire_len() + 4, 0x0800, saved, cp))
            s.prov(300, 0)
            resolved = saved if lab.kind == "U" else lab
        else:
            resolved = lab
        total = rng.choice([1, 2, 5, 8, 20, 60, 200])
        rest_after_first = min(total, rng.choice([0, 1, 2, 3, 4, 5, 6, 7, total, total // 2]))
        p1 = total - rest_after_first
        whole = gen_bytes(9000 + k, total)
        ll = lab.wire_len()
        tl = 2 + ll + total
        d = both("F", "%d %d %d %04x %s %s" % (5 + ll + p1, fid, tl, pt, lab.tok(), "h:" + whole[:p1].hex() if p1 else "-"),
                 (5 + ll + p1, fid, tl, pt, lab, BS("h:" + whole[:p1].hex() if p1 else "-", whole[:p1])))
        s.expect_frag.append((d, ["C20"]))
        pos = p1
        if total - pos > 1 and rng.random() < 0.6:
            n2 = rng.randrange(1, total - pos)
            d = both("I", "%d %d %s" % (1 + n2, fid, "h:" + whole[pos:pos + n2].hex()), (1 + n2, fid, BS("h:" + whole[pos:pos + n2].hex(), whole[pos:pos + n2])))
            s.expect_frag.append((d, ["C20"]))
            pos += n2
        crc = ref_gse_crc(whole, pt, tl, lab.data)
        lastp = whole[pos:]
        d = both("E", "%d %d %s %08x" % (5 + len(lastp), fid, "h:" + lastp.hex() if lastp else "-", crc),
                 (5 + len(lastp), fid, BS("h:" + lastp.hex() if lastp else "-", lastp), crc))
        s.expect.append((d, BS("-", whole), ["C20"], resolved if resolved.kind != "B" else None))
        out.append(s)
    return out
