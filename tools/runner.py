"""Build steps and the two-sided execution of op suites."""
import hashlib
import os
import subprocess
import sys
import time

from gselib import Out

VERIF = os.path.dirname(os.path.dirname(os.path.abspath(__file__)))
LEAN_DIR = os.path.join(VERIF, "lean")
HARNESS_DIR = os.path.join(VERIF, "harness")
CACHE = os.path.join(VERIF, ".cache")
DRIVER = os.path.join(LEAN_DIR, ".lake", "build", "bin", "gse_driver")
HARNESS = os.environ.get("VERIF_HARNESS_BIN") or os.path.join(CACHE, "harness-target", "debug", "gse_ops")


def sh(cmd, cwd=None, timeout=None, env=None):
    e = dict(os.environ)
    e["CARGO_NET_OFFLINE"] = "true"
    if env:
        e.update(env)
    t0 = time.time()
    p = subprocess.run(cmd, cwd=cwd, shell=isinstance(cmd, str), stdout=subprocess.PIPE, stderr=subprocess.STDOUT,
                       timeout=timeout, env=e)
    return p.returncode, p.stdout.decode("utf-8", "replace"), time.time() - t0


def gen_lean():
    return sh([sys.executable, os.path.join(VERIF, "tools", "gen_lean.py")])


def lake_build(targets, timeout=3000):
    return sh(["lake", "build"] + targets, cwd=LEAN_DIR, timeout=timeout)


DEGRADED_MARK = os.path.join(CACHE, "harness-degraded")


def degraded():
    """True when the harness in use was built WITHOUT the crate's cfg(dvb_gse_rust_verif) hooks because they
    no longer compile against /repo's current source: the receiver's state is then not observable."""
    return os.path.exists(DEGRADED_MARK)


def cargo_build(timeout=1200):
    os.makedirs(CACHE, exist_ok=True)
    rc, out, dt = sh(["cargo", "build", "--offline", "--bin", "gse_ops"], cwd=HARNESS_DIR, timeout=timeout)
    if rc == 0:
        if os.path.exists(DEGRADED_MARK):
            os.remove(DEGRADED_MARK)
        return rc, out, dt
    # the build failed: if only the verification hooks (guarded code inside /repo) are at fault, the harness
    # still builds without the guard; results are then compared without the receiver's internal state
    rc2, out2, dt2 = sh(["cargo", "build", "--offline", "--bin", "gse_ops"], cwd=HARNESS_DIR, timeout=timeout,
                        env={"RUSTFLAGS": ""})
    if rc2 == 0:
        with open(DEGRADED_MARK, "w") as f:
            f.write(out[-4000:])
        return 0, "DEGRADED: built without cfg(dvb_gse_rust_verif); the build with the hooks said:\n" + out, dt + dt2
    return rc, out, dt


def run_side(exe, text, timeout=3000):
    p = subprocess.run([exe], input=text.encode(), stdout=subprocess.PIPE, stderr=subprocess.PIPE, timeout=timeout)
    return p.returncode, p.stdout.decode("utf-8", "replace").split("\n"), p.stderr.decode("utf-8", "replace")


def split_sessions(lines):
    """-> list of lists of output lines (the 'session x' echo line is dropped)"""
    out = []
    cur = None
    for l in lines:
        if l.startswith("session "):
            cur = []
            out.append(cur)
        elif cur is not None and l != "":
            cur.append(l)
    return out


class SuiteRun:
    """outputs of both sides for a list of sessions"""

    def __init__(self, sessions, sides=("rust", "lean"), workdir=None, tag="suite"):
        self.sessions = sessions
        text = "".join(s.text() for s in sessions)
        self.text = text
        self.workdir = workdir or os.path.join(CACHE, "run")
        os.makedirs(self.workdir, exist_ok=True)
        self.ops_path = os.path.join(self.workdir, tag + ".ops")
        with open(self.ops_path, "w") as f:
            f.write(text)
        self.rust = self.lean = None
        self.crashed = {}
        self.unobservable = 0
        if "rust" in sides:
            rc, lines, err = run_side(HARNESS, text)
            self.rust = split_sessions(lines)
            if rc != 0:
                self.crashed["rust"] = (rc, err[-2000:])
        if "lean" in sides:
            rc, lines, err = run_side(DRIVER, text)
            self.lean = split_sessions(lines)
            if rc != 0:
                self.crashed["lean"] = (rc, err[-2000:])

    def disagreements(self, relevant_state=("E", "D", "M"), error_names=True):
        """[(session index, op index, rust line, lean line)] first disagreement of each session.
        `relevant_state`: kinds of internal state (E encapsulator, D decapsulator, M bare memory) the property's
        theorems speak about; an op whose RESULT agrees and whose state differs only in a kind outside this set
        is counted in self.state_only (and the scan of the session goes on) instead of being reported."""
        res = []
        self.state_only = 0
        if self.rust is None or self.lean is None:
            return res
        for si, s in enumerate(self.sessions):
            r = self.rust[si] if si < len(self.rust) else []
            l = self.lean[si] if si < len(self.lean) else []
            n = len(s.ops)
            deg = degraded()
            for i in range(n):
                a = r[i] if i < len(r) else "<missing>"
                b = l[i] if i < len(l) else "<missing>"
                if ((deg and (a.endswith(" | M ?") or a.endswith(" | D last=? M ?"))) or a.endswith(" | E ?")) and " | " in b:
                    # state not observable on the implementation side (hooks unavailable / Debug output of the
                    # encapsulator no longer shows the four fields): compare the results only
                    a = a.rsplit(" | ", 1)[0]
                    b = b.rsplit(" | ", 1)[0]
                    self.unobservable += 1
                if a != b and not error_names and a.startswith("err ") and b.startswith("err "):
                    # the property's theorems do not speak about WHICH error is returned: compare the rest
                    # (consumed length, buffer digests, state) with the error name blanked
                    ta, tb = a.split(" "), b.split(" ")
                    ta[1] = tb[1] = "*"
                    a2, b2 = " ".join(ta), " ".join(tb)
                    if a2 == b2:
                        self.state_only += 1
                        continue
                if a != b:
                    if " | " in a and " | " in b:
                        ra, sa = a.rsplit(" | ", 1)
                        rb, sb = b.rsplit(" | ", 1)
                        if ra == rb and (sb[:1] or "-") not in relevant_state and (sa[:1] or "-") not in relevant_state:
                            self.state_only += 1
                            continue
                    res.append((si, i, a, b))
                    break
        return res

    def outs(self, si, side="rust"):
        src = self.rust if side == "rust" else self.lean
        lines = src[si] if src is not None and si < len(src) else []
        n = len(self.sessions[si].ops)
        return [Out(lines[i]) if i < len(lines) else Out("<missing>") for i in range(n)]
