#!/bin/bash
# usage: tools/regress_seeds.sh [seed dirs...]   (default: every directory under seeded/)
# Regression over the bank of seeded changes: applies each patch to /repo, runs the quick check of the
# property it was seeded for, undoes the patch straight afterwards, and prints one line per seed:
#   <seed> <property> DETECTED-with-input | DETECTED-no-input | MISSED
# /repo must be clean when this starts; it is clean again when this ends (also on interruption).
set -u
cd /verif
trap 'git -C /repo checkout -- . ; git -C /repo clean -fdq src' EXIT
if [ -n "$(git -C /repo status --porcelain)" ]; then echo "/repo is not clean"; exit 2; fi
SEEDS=("$@")
if [ ${#SEEDS[@]} -eq 0 ]; then SEEDS=(seeded/*/); fi
for d in "${SEEDS[@]}"; do
  d=$(realpath ${d%/})
  name=$(basename $d)
  pid=${name:0:3}
  git -C /repo apply $d/patch.diff || { echo "$name $pid PATCH-DOES-NOT-APPLY"; continue; }
  out=$(./check $pid --tier quick 2>&1 | grep VIOLATION | head -1)
  git -C /repo checkout -- . ; git -C /repo clean -fdq src
  if [ -z "$out" ]; then echo "$name $pid MISSED"
  elif echo "$out" | grep -q no-failing-input-found; then echo "$name $pid DETECTED-no-input"
  else echo "$name $pid DETECTED-with-input"; fi
done
# leave the harness binary and the generated Lean files in the state of the unchanged tree
./check C14 --tier quick > /dev/null 2>&1
