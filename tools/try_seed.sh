#!/bin/bash
# usage: tools/try_seed.sh <seed dir> <property id> [more property ids to run]
# 1. confirms the seeded change in a scratch worktree: existing suite passes with it, the demonstration
#    fails with it and passes without it
# 2. applies it to /repo, runs ./check for the given properties, and undoes it straight afterwards
set -u
SEED=$1; shift
PID=$1
WT=/tmp/wt_confirm_$$
export CARGO_NET_OFFLINE=true
git -C /repo worktree add -q --detach $WT HEAD || exit 2
cleanup() { git -C /repo worktree remove --force $WT 2>/dev/null; git -C /repo checkout -- . ; }
trap cleanup EXIT
cp $SEED/seed_demo.rs $WT/tests/seed_demo.rs
echo "== demo without the change"
(cd $WT && cargo test --offline --test seed_demo 2>&1 | grep -E "^test result|error" | head -3)
(cd $WT && git apply $SEED/patch.diff) || { echo "PATCH DOES NOT APPLY"; exit 3; }
echo "== demo with the change"
(cd $WT && cargo test --offline --test seed_demo 2>&1 | grep -E "^test result|error" | head -3)
echo "== existing suite with the change"
rm $WT/tests/seed_demo.rs
(cd $WT && cargo test --workspace --offline 2>&1 | grep -E "^test result|error" | head -5)
rm -rf $WT/target
echo "== checks on /repo with the change applied"
git -C /repo apply $SEED/patch.diff || { echo "PATCH DOES NOT APPLY TO /repo"; exit 3; }
cd /verif
for p in "$@"; do
  ./check $p --tier quick 2>&1 | tail -2
done
git -C /repo checkout -- .
# leave the harness binary in the state of the unchanged tree
(cd /verif/harness && cargo build --offline --bin gse_ops > /dev/null 2>&1)
