"""Shared helpers for ./check: the byte generator and digest used by both drivers, output-line
parsing, and *independent* reference implementations used by the implementation oracles
(written from ETSI TS 102 606-1 / the CRC-32/MPEG-2 definition, sharing no code with the crate
or with the Lean model): header codec, bitwise CRC, wire parser, reassembler, label tracker,
bag-of-buffers memory."""

M64 = (1 << 64) - 1


def gen_bytes(seed, n):
    out = bytearray()
    s = seed & M64
    while len(out) < n:
        s = (s + 0x9E3779B97F4A7C15) & M64
        z = s
        z = ((z ^ (z >> 30)) * 0xBF58476D1CE4E5B9) & M64
        z = ((z ^ (z >> 27)) * 0x94D049BB133111EB) & M64
        z ^= z >> 31
        out += z.to_bytes(8, "little")
    return bytes(out[:n])


def fnv(b):
    h = 0xcbf29ce484222325
    for x in b:
        h = ((h ^ x) * 0x100000001b3) & M64
    return h


def digest(b):
    return "%d:%016x" % (len(b), fnv(b))


def hexs(b):
    return b.hex() if len(b) else "-"


def unhex(s):
    return b"" if s in ("-", "") else bytes.fromhex(s)


class BS:
    """A byte-source expression together with its value (when computable in Python)."""

    def __init__(self, expr, val):
        self.expr = expr
        self.val = val

    def __len__(self):
        return len(self.val)


def bs_gen(seed, n):
    return BS("g:%d:%d" % (seed, n), gen_bytes(seed, n))


def bs_hex(b):
    return BS("h:" + hexs(b), bytes(b))


def bs_zero(n):
    return BS("z:%d" % n, bytes(n))


def bs_const(v, n):
    return BS("c:%d:%d" % (v, n), bytes([v]) * n)


# ----------------------------------------------------------------------------- labels

class Label:
    """kind in '6','3','B','U'"""

    def __init__(self, kind, data=b""):
        self.kind = kind
        self.data = bytes(data)

    def tok(self):
        if self.kind in "63":
            return "%s:%s" % (self.kind, self.data.hex())
        return self.kind

    def __eq__(self, o):
        return isinstance(o, Label) and self.kind == o.kind and self.data == o.data

    def __hash__(self):
        return hash((self.kind, self.data))

    def __repr__(self):
        return self.tok()

    def wire_len(self):
        return {"6": 6, "3": 3, "B": 0, "U": 0}[self.kind]

    def lt_bits(self):
        return {"6": 0, "3": 1, "B": 2, "U": 3}[self.kind]


def parse_label_tok(t):
    if t == "B":
        return Label("B")
    if t == "U":
        return Label("U")
    if t == "-":
        return None
    k, h = t.split(":")
    return Label(k, bytes.fromhex(h))


# ----------------------------------------------------------------------------- output lines

class Out:
    def __init__(self, raw):
        self.raw = raw
        if " | " in raw:
            self.res, self.state = raw.rsplit(" | ", 1)
            if self.state.endswith("M ?"):
                self.state = "?"        # degraded harness (hooks unavailable): state not observable
        else:
            self.res, self.state = raw, ""
        self.toks = self.res.split(" ")
        self.kv = {}
        for t in self.toks:
            if "=" in t:
                k, v = t.split("=", 1)
                self.kv[k] = v

    @property
    def ok(self):
        return self.toks[0] == "ok"

    @property
    def err(self):
        return self.toks[0] == "err"

    @property
    def panic(self):
        return "panic" in self.toks


def parse_mem_state(state):
    """'D last=.. M cap=4 n=2 sz=30 free=[0:30,1:30] slots=[-,1/23/..]' -> dict"""
    d = {"last": None, "cap": None, "n": None, "sz": None, "free": [], "slots": []}
    for t in state.split(" "):
        if t.startswith("last="):
            d["last"] = t[5:]
        elif t.startswith("cap="):
            d["cap"] = int(t[4:])
        elif t.startswith("n="):
            d["n"] = int(t[2:])
        elif t.startswith("sz="):
            d["sz"] = int(t[3:])
        elif t.startswith("free=["):
            body = t[6:-1]
            if body:
                for e in body.split(","):
                    i, l = e.split(":")
                    d["free"].append((i, int(l)))
        elif t.startswith("slots=["):
            body = t[7:-1]
            if body:
                # slots are comma separated, but an extension list inside a slot may contain commas:
                # a slot is '-' or has 10 '/'-separated fields; re-join conservatively
                parts = body.split(",")
                cur = []
                for p in parts:
                    cur.append(p)
                    j = ",".join(cur)
                    if j == "-" or j.count("/") >= 9 and j.rsplit("/", 1)[1].count(":") == 1:
                        d["slots"].append(None if j == "-" else parse_slot(j))
                        cur = []
                if cur:
                    d["slots"].append(("?", ",".join(cur)))
    return d


def parse_slot(s):
    f = s.split("/")
    # fid/pdulen/tl/pt/label/reuse/exts/id/len/digest
    return {"fid": int(f[0]), "pdulen": int(f[1]), "tl": int(f[2]), "pt": int(f[3], 16), "label": f[4],
            "reuse": f[5], "exts": "/".join(f[6:-3]), "id": f[-3], "len": int(f[-2]), "digest": f[-1]}


# ----------------------------------------------------------------------------- reference: header

KINDS = ["C", "F", "I", "E"]          # index used by hdr_gen
KIND_BITS = {"C": 3, "F": 2, "I": 0, "E": 1}   # (S,E) bits
LTS = ["6", "3", "B", "U"]


def ref_hdr_read(w):
    s = (w >> 15) & 1
    e = (w >> 14) & 1
    lt = (w >> 12) & 3
    if s == 0 and e == 0 and lt == 0:
        return None
    kind = {(1, 1): "C", (1, 0): "F", (0, 0): "I", (0, 1): "E"}[(s, e)]
    return (w & 0xFFF, kind, LTS[lt])


def ref_hdr_gen(kind, lt, length):
    return (KIND_BITS[kind] << 14) | (LTS.index(lt) << 12) | (length & 0xFFF)


# ----------------------------------------------------------------------------- reference: CRC

def ref_crc32_mpeg2(data, init=0xFFFFFFFF):
    r = init
    for byte in data:
        for i in range(7, -1, -1):
            bit = (byte >> i) & 1
            top = (r >> 31) & 1
            r = (r << 1) & 0xFFFFFFFF
            if top ^ bit:
                r ^= 0x04C11DB7
    return r


_TAB = None


def ref_crc32_fast(data, init=0xFFFFFFFF):
    """table-driven twin of ref_crc32_mpeg2 (table built from the polynomial here, not copied)"""
    global _TAB
    if _TAB is None:
        _TAB = []
        for i in range(256):
            r = i << 24
            for _ in range(8):
                r = ((r << 1) ^ 0x04C11DB7) & 0xFFFFFFFF if r & 0x80000000 else (r << 1) & 0xFFFFFFFF
            _TAB.append(r)
    r = init
    for b in data:
        r = ((r << 8) & 0xFFFFFFFF) ^ _TAB[((r >> 24) ^ b) & 0xFF]
    return r


def ref_gse_crc(pdu, pt, tl, label_bytes):
    return ref_crc32_fast(tl.to_bytes(2, "big") + pt.to_bytes(2, "big") + bytes(label_bytes) + bytes(pdu))


# ----------------------------------------------------------------------------- reference: wire parser

HLEN_SIZE = {1: 0, 2: 2, 3: 4, 4: 6, 5: 8}


class Pkt:
    pass


def ref_parse(b, mand=None):
    """Independent reading of ETSI TS 102 606-1 §4.2 of one GSE packet at the start of `b`.
    `mand` maps a mandatory extension id to ('F'|'N', size).  Returns a Pkt or a string reason."""
    mand = mand or {}
    if len(b) < 2:
        return "short"
    w = (b[0] << 8) | b[1]
    h = ref_hdr_read(w)
    if h is None:
        return "padding"
    gl, kind, lt = h
    if len(b) < gl + 2:
        return "truncated"
    p = Pkt()
    p.kind, p.lt, p.gse_len, p.total = kind, lt, gl, gl + 2
    body = b[2:gl + 2]
    o = 0
    p.frag_id = p.total_len = p.pt = p.label = p.crc = None
    p.exts = []
    try:
        if kind in "FIE":
            p.frag_id = body[o]
            o += 1
        if kind == "F":
            p.total_len = (body[o] << 8) | body[o + 1]
            o += 2
        if kind in "CF":
            if o + 2 > len(body):
                return "short-body"
            p.pt = (body[o] << 8) | body[o + 1]
            o += 2
            ll = {"6": 6, "3": 3, "B": 0, "U": 0}[lt]
            if o + ll > len(body):
                return "short-label"
            p.label = Label(lt, body[o:o + ll])
            o += ll
            # extension chain
            t = p.pt
            while t < 0x600:
                hl = (t >> 8) & 7
                if hl == 0:
                    if t not in mand:
                        return "unknown-mandatory"
                    fin, sz = mand[t]
                    if o + sz > len(body):
                        return "short-ext"
                    p.exts.append((t, bytes(body[o:o + sz])))
                    o += sz
                    if fin == "F":
                        break
                else:
                    sz = HLEN_SIZE[hl]
                    if o + sz > len(body):
                        return "short-ext"
                    p.exts.append((t, bytes(body[o:o + sz])))
                    o += sz
                if o + 2 > len(body):
                    return "short-ext"
                t = (body[o] << 8) | body[o + 1]
                o += 2
            p.pt = t
        if kind == "E":
            if len(body) < o + 4:
                return "short-crc"
            p.payload = bytes(body[o:len(body) - 4])
            p.crc = int.from_bytes(body[len(body) - 4:], "big")
        else:
            p.payload = bytes(body[o:])
    except IndexError:
        return "short-body"
    return p


# ----------------------------------------------------------------------------- reference: re-use policy

class RefSender:
    """Independent statement of the sender's label re-use policy (ETSI §4.2.2 + the crate's
    documented knobs): what label a start/complete packet may carry."""

    def __init__(self):
        self.enabled = True
        self.max = 0
        self.prev = None        # label carried by the previous emitted start/complete packet
        self.run = 0            # consecutive substituted packets since last full label / config call

    def reset(self):
        self.prev = None

    def disable(self):
        self.enabled = False
        self.max = 0
        self.run = 0
        self.prev = None        # the crate does not track labels while disabled

    def enable(self, n=0):
        self.enabled = True
        self.max = n
        self.run = 0


# ----------------------------------------------------------------------------- reference: receiver label memory

class RefRxLabel:
    """label carried by the nearest preceding accepted start/complete packet of the frame"""

    def __init__(self):
        self.last = None

    def reset(self):
        self.last = None
