#!/bin/bash
# usage: tools/try_area_seed.sh <seed dir>
# for a seeded change that names the properties it breaks in meta.json ("properties_broken"):
# 1. confirms it in a scratch worktree (existing suite passes with it, demonstration fails with it and
#    passes without it)
# 2. applies it to /repo, runs ALL twenty quick checks, undoes it, and prints which properties alarmed
#    (with / without a failing input) next to the ones the author named
set -u
SEED=$(realpath $1)
WT=/tmp/wt_confirm_$$
export CARGO_NET_OFFLINE=true
git -C /repo worktree add -q --detach $WT HEAD || exit 2
cleanup() { git -C /repo worktree remove --force $WT 2>/dev/null; git -C /repo checkout -- . ; git -C /repo clean -fdq src; }
trap cleanup EXIT
cp $SEED/seed_demo.rs $WT/tests/seed_demo.rs
echo "== demo without the change"
(cd $WT && cargo test --offline --test seed_demo 2>&1 | grep -E "^test result|error" | head -3)
(cd $WT && git apply $SEED/patch.diff) || { echo "PATCH DOES NOT APPLY"; exit 3; }
echo "== demo with the change"
(cd $WT && cargo test --offline --test seed_demo 2>&1 | grep -E "^test result|error" | head -3)
echo "== existing suite with the change"
rm $WT/tests/seed_demo.rs
(cd $WT && cargo test --workspace --offline 2>&1 | grep -E "^test result|error" | head -5)
rm -rf $WT/target
echo "== checks on /repo with the change applied"
git -C /repo apply $SEED/patch.diff || { echo "PATCH DOES NOT APPLY TO /repo"; exit 3; }
cd /verif
with=""; without=""
for p in C01 C02 C03 C04 C05 C06 C07 C08 C09 C10 C11 C12 C13 C14 C15 C16 C17 C18 C19 C20; do
  out=$(./check $p --tier quick 2>&1 | grep VIOLATION | head -1)
  if [ -n "$out" ]; then
    if echo "$out" | grep -q no-failing-input-found; then without="$without $p"; else with="$with $p"; fi
  fi
done
git -C /repo checkout -- . ; git -C /repo clean -fdq src
echo "named by the author: $(python3 -c "import json,sys; print(' '.join(json.load(open('$SEED/meta.json')).get('properties_broken', [])))")"
echo "alarm with a failing input:$with"
echo "alarm without (tie only):$without"
(cd /verif/harness && cargo build --offline --bin gse_ops > /dev/null 2>&1)
