#!/usr/bin/env python3
"""Sensitivity of the THEOREMS to the MODEL (development tool, not a registered command).

Mutates the hand-written Lean model (lean/GseVerif/Model/*.lean) one small change at a time — relational /
arithmetic / boolean operator swaps, decimal literals +-1 — in scratch copies of /verif/lean, and rebuilds the whole
proof development.  A mutant is `killed` when some lemma or property theorem no longer checks (the file that
fails first is recorded); a mutant that leaves EVERY proof intact is a `SURVIVOR`: the theorems do not constrain
that detail of the model (or the mutant is equivalent), to be read by hand.
usage: model_mutation.py <workers> <out.jsonl> [--stride S] [--offset K] [--list]
"""
import glob
import json
import multiprocessing as mp
import os
import re
import subprocess
import sys

FILES = ["Encap", "Decap", "Memory", "Header", "Label", "Ext", "Crc", "Utils", "Basic"]


def mutants():
    out = []
    for f in FILES:
        path = "/verif/lean/GseVerif/Model/%s.lean" % f
        lines = open(path).read().split("\n")
        in_doc = False
        for i, l in enumerate(lines):
            st = l.strip()
            if st.startswith("/-"):
                in_doc = True
            if in_doc:
                if "-/" in st:
                    in_doc = False
                continue
            if not st or st.startswith("--") or st.startswith(("theorem", "instance", "deriving", "import", "namespace", "open ", "end ", "@[", "structure", "inductive", "example", "#")):
                continue
            code = l.split("--")[0]

            def add(kind, new):
                if new != l:
                    out.append({"file": f, "line": i + 1, "kind": kind, "old": st, "new": new.strip(), "_new": new})
            for a, b in ((" < ", " ≤ "), (" ≤ ", " < "), (" > ", " ≥ "), (" ≥ ", " > "), (" ≠ ", " = "), (" == ", " != "), (" != ", " == "),
                         (" + ", " - "), (" - ", " + "), (" && ", " || "), (" || ", " && "), (" ∧ ", " ∨ "), (" ∨ ", " ∧ "), (" % ", " / ")):
                for m in re.finditer(re.escape(a), code):
                    add("op %s->%s" % (a.strip(), b.strip()), l[:m.start()] + b + l[m.end():])
            if re.search(r"\bif\b", code):
                for m in re.finditer(r" = ", code):
                    if ":=" not in code[max(0, m.start() - 1):m.end() + 1]:
                        add("op =->≠", l[:m.start()] + " ≠ " + l[m.end():])
            for m in re.finditer(r"(?<![\w.])(\d{1,5})(?![\w.])", code):
                v = int(m.group(1))
                add("lit %d->%d" % (v, v + 1), l[:m.start(1)] + str(v + 1) + l[m.end(1):])
                if v > 0:
                    add("lit %d->%d" % (v, v - 1), l[:m.start(1)] + str(v - 1) + l[m.end(1):])
            for a, b in (("true", "false"), ("false", "true"), (".inter", ".end_"), ("none", "some default")):
                if a in ("none",):
                    continue
                for m in re.finditer(r"(?<![\w.])" + re.escape(a) + r"\b", code):
                    add("swap %s->%s" % (a, b), l[:m.start()] + b + l[m.end():])
    return out


def sh(cmd, cwd, timeout=3000):
    try:
        p = subprocess.run(cmd, cwd=cwd, shell=True, stdout=subprocess.PIPE, stderr=subprocess.STDOUT, timeout=timeout)
        return p.returncode, p.stdout.decode("utf-8", "replace")
    except subprocess.TimeoutExpired:
        return 124, "timeout"


def worker(k, muts, outpath, lock):
    v = "/tmp/mm%d" % k
    sh("mkdir -p %s && rsync -a --delete /verif/lean/ %s/lean/" % (v, v), "/")
    rc, o = sh("lake build 2>&1 | tail -1", v + "/lean")
    for mut in muts:
        path = "%s/lean/GseVerif/Model/%s.lean" % (v, mut["file"])
        orig = open(path).read()
        lines = orig.split("\n")
        lines[mut["line"] - 1] = mut["_new"]
        res = dict((a, b) for a, b in mut.items() if not a.startswith("_"))
        try:
            open(path, "w").write("\n".join(lines))
            rc, o = sh("lake build 2>&1 | grep -E '^✖|^error: .*\\.lean:|completed successfully' | head -6", v + "/lean")
            if "completed successfully" in o:
                res["outcome"] = "SURVIVOR"
            else:
                res["outcome"] = "killed"
                m = re.search(r"Building GseVerif\.(\S+)", o) or re.search(r"GseVerif/(\S+?)\.lean", o)
                res["by"] = m.group(1) if m else o[:120]
        finally:
            open(path, "w").write(orig)
        with lock:
            with open(outpath, "a") as f:
                f.write(json.dumps(res) + "\n")


def main():
    nw = int(sys.argv[1])
    outpath = sys.argv[2]
    stride, offset, lst = 1, 0, False
    args = sys.argv[3:]
    while args:
        a = args.pop(0)
        if a == "--stride":
            stride = int(args.pop(0))
        elif a == "--offset":
            offset = int(args.pop(0))
        elif a == "--list":
            lst = True
    muts = mutants()[offset::stride]
    if lst:
        for m in muts:
            print(m["file"], m["line"], m["kind"], "|", m["old"][:90], "=>", m["new"][:90])
        print(len(muts))
        return
    done = set()
    if os.path.exists(outpath):
        for l in open(outpath):
            d = json.loads(l)
            done.add((d["file"], d["line"], d["new"]))
    muts = [m for m in muts if (m["file"], m["line"], m["new"]) not in done]
    print(len(muts), "model mutants on", nw, "workers")
    lock = mp.Lock()
    ps = [mp.Process(target=worker, args=(k, muts[k::nw], outpath, lock)) for k in range(nw)]
    for p in ps:
        p.start()
    for p in ps:
        p.join()


if __name__ == "__main__":
    main()
