#!/usr/bin/env python3
"""Systematic mutation campaign against the checks (development tool, not a registered command).

Enumerates small syntactic mutants of the crate's non-test source (relational / arithmetic / logical operator
swaps, integer literals +-1, swapped length constants, deleted simple statements), and for each one, in a
scratch copy of /verif + a scratch worktree of /repo (never in /repo itself):
  1. `cargo check`           -> does not compile: discarded
  2. `cargo test --workspace` -> fails: killed by the existing tests (not interesting here)
  3. the quick checks, most relevant first, until one raises an alarm -> killed by <property> (with / without input)
  4. none of the twenty alarms -> SURVIVED: either an equivalent mutant or a blind spot, to be read by hand
usage: mutation_campaign.py <workers> <out.jsonl> [--files a,b] [--limit N] [--offset K] [--stride S]
"""
import json
import os
import re
import subprocess
import sys
import multiprocessing as mp

FILES = ["src/gse_encap/mod.rs", "src/gse_decap/mod.rs", "src/gse_decap/gse_decap_memory/mod.rs", "src/header_extension/mod.rs",
         "src/crc.rs", "src/label/mod.rs", "src/utils/mod.rs", "src/gse_standard.rs"]

ORDER = {
    "src/gse_encap/mod.rs": ["C09", "C06", "C11", "C18", "C15", "C04", "C01", "C02", "C13", "C10", "C12", "C19", "C20"],
    "src/gse_decap/mod.rs": ["C05", "C03", "C10", "C08", "C07", "C02", "C01", "C04", "C16", "C13", "C19", "C12", "C20"],
    "src/gse_decap/gse_decap_memory/mod.rs": ["C17", "C08", "C07", "C16", "C05", "C02", "C03"],
    "src/header_extension/mod.rs": ["C13", "C05", "C09", "C06", "C10"],
    "src/crc.rs": ["C12", "C03", "C02"],
    "src/label/mod.rs": ["C01", "C06", "C19", "C04", "C09"],
    "src/utils/mod.rs": ["C20"],
    "src/gse_standard.rs": ["C14", "C06", "C01", "C05", "C09", "C12", "C13"],
}
ALL = ["C%02d" % i for i in range(1, 21)]

EXTRA2 = "--extra2" in sys.argv
EXTRA = "--extra" in sys.argv
ONLY_EXTRA = EXTRA
LEN_CONSTS = ["FIXED_HEADER_LEN", "PROTOCOL_LEN", "FRAG_ID_LEN", "TOTAL_LENGTH_LEN", "CRC_LEN", "FIRST_FRAG_LEN"]
BIG_CONSTS = ["GSE_LEN_MAX", "TOTAL_LEN_MAX"]


def code_lines(path, text):
    """indices of lines that are real code: not comments, not tests, not cfg-guarded hooks, not Display strings"""
    lines = text.split("\n")
    keep = []
    skip_depth = None
    depth = 0
    in_test = False
    pending_skip = False
    for i, l in enumerate(lines):
        st = l.strip()
        if st.startswith("#[cfg(test)]") or st.startswith("#[cfg(dvb_gse_rust_verif)]"):
            pending_skip = True
        opens = l.count("{")
        closes = l.count("}")
        if pending_skip and (opens or st.endswith(";")):
            if opens:
                skip_depth = depth
            pending_skip = False
            depth += opens - closes
            if skip_depth is not None and depth <= skip_depth:
                skip_depth = None
            continue
        depth += opens - closes
        if skip_depth is not None:
            if depth <= skip_depth:
                skip_depth = None
            continue
        if pending_skip:
            continue
        if not st or st.startswith("//") or st.startswith("///") or st.startswith("#[") or st.startswith("use ") or st.startswith("pub use "):
            continue
        if "=> \"" in l or "write!(" in l or "println!" in l or "panic!(" in l:
            continue
        keep.append(i)
    return lines, keep


def mutants_of(path, text):
    lines, keep = code_lines(path, text)
    out = []
    in_table = False
    for i in keep:
        l = lines[i]
        code = l.split("//")[0]
        if "CRC_TAB" in code and "[" in code:
            in_table = True
        if in_table:
            if "];" in code:
                in_table = False
            continue

        def add(kind, new):
            if new != l:
                out.append({"file": path, "line": i + 1, "kind": kind, "old": l.strip(), "new": new.strip(), "_new_line": new})
        # relational operators (with surrounding spaces: avoids generics, ->, =>)
        for a, b in ((" <= ", " < "), (" < ", " <= "), (" >= ", " > "), (" > ", " >= "), (" == ", " != "), (" != ", " == ")):
            for m in re.finditer(re.escape(a), code):
                add("rel %s->%s" % (a.strip(), b.strip()), l[:m.start()] + b + l[m.end():])
        for a, b in ((" + ", " - "), (" - ", " + "), (" && ", " || "), (" || ", " && "), (" += ", " -= "), (" -= ", " += "), (" % ", " / ")):
            for m in re.finditer(re.escape(a), code):
                add("op %s->%s" % (a.strip(), b.strip()), l[:m.start()] + b + l[m.end():])
        # decimal literals +-1 (not inside identifiers, not hex, not array sizes of types)
        for m in re.finditer(r"(?<![\w.x])(\d{1,5})(?![\w.])", code):
            v = int(m.group(1))
            if "[u8;" in code or "[u32;" in code:
                continue
            add("lit %d->%d" % (v, v + 1), l[:m.start(1)] + str(v + 1) + l[m.end(1):])
            if v > 0:
                add("lit %d->%d" % (v, v - 1), l[:m.start(1)] + str(v - 1) + l[m.end(1):])
        # hex literals of the standard: +-1 and one-bit flips
        if path.endswith("gse_standard.rs") or "0x" in code:
            for m in re.finditer(r"0x([0-9a-fA-F]{2,8})\b", code):
                v = int(m.group(1), 16)
                for nv in (v + 1, v - 1, v ^ (1 << 8), v ^ 0x10):
                    if nv >= 0:
                        add("hex %x->%x" % (v, nv), l[:m.start()] + ("0x%0*X" % (len(m.group(1)), nv)) + l[m.end():])
        # swapped length constants
        for c in LEN_CONSTS:
            for m in re.finditer(r"\b" + c + r"\b", code):
                for d in LEN_CONSTS:
                    if d != c and abs(LEN_CONSTS.index(d) - LEN_CONSTS.index(c)) == 1:
                        add("const %s->%s" % (c, d), l[:m.start()] + d + l[m.end():])
        for c in BIG_CONSTS:
            for m in re.finditer(r"\b" + c + r"\b", code):
                d = BIG_CONSTS[1 - BIG_CONSTS.index(c)]
                add("const %s->%s" % (c, d), l[:m.start()] + d + l[m.end():])
        # deleted simple statements
        st = code.strip()
        if st.endswith(";") and not st.startswith(("let ", "return", "pub ", "const ", "static ", "break", "continue", "}")) and "{" not in st:
            if re.match(r"(self\.[\w.]+\s*(=|\+=|-=)|[\w.]+\s*(\+=|-=)|\w+\s*=\s|self\.[\w.]+\(|[\w\[\].]+\.copy_from_slice\()", st):
                add("del", l[:len(l) - len(l.lstrip())] + "/* deleted */")
        if EXTRA2:
            # swapped adjacent arguments / tuple fields that are plain identifiers or simple field accesses
            for m in re.finditer(r"([(,]\s*)(&?[\w.]+)(\s*,\s*)(&?[\w.]+)(\s*[,)])", code):
                a, b = m.group(2), m.group(4)
                if a != b and not a[0].isdigit() and not b[0].isdigit() and "(" in code and not re.fullmatch(r"[\sA-Z_0-9,{};]+", code):
                    add("argswap %s<->%s" % (a, b), l[:m.start(2)] + b + m.group(3) + a + l[m.end(4):])
            # an Option written as None / a remembered label not remembered
            for m in re.finditer(r"= Some\((\w+)\);", code):
                add("some->none", l[:m.start()] + "= None;" + l[m.end():])
            # identifiers that name the same kind of thing
            for a, b in (("label", "current_label"), ("current_label", "label"), ("label_len", "LABEL_6_B_LEN"), ("protocol_type", "total_len"),
                         ("frag_id", "0"), ("calculed_pdu_len", "gse_len"), ("pdu_len", "calculed_pdu_len"), ("header_ext_len", "0"),
                         ("pdu_len_encapsulated", "pdu_len_remaining"), ("len_pdu_frag", "0")):
                for m in re.finditer(r"(?<![\w.])" + a + r"\b(?!\s*[:=][^=])", code):
                    if re.match(r"\s*let\s", code) and m.start() < code.find("="):
                        continue
                    add("ident2 %s->%s" % (a, b), l[:m.start()] + b + l[m.end():])
            # slice bounds off by one
            for m in re.finditer(r"\[([\w. +*-]+)\.\.([\w. +*-]+)\]", code):
                add("slice hi-1", l[:m.start(2)] + m.group(2) + " - 1" + l[m.end(2):])
                add("slice lo+1", l[:m.start(1)] + m.group(1) + " + 1" + l[m.end(1):])
        if EXTRA:
            out_before = len(out)
            # identifiers that are easily confused
            for a, b in (("pkt_len", "buffer_len"), ("buffer_len", "pkt_len"), ("gse_len", "pkt_len"), ("pdu_len_remaining", "pdu_len"),
                         ("label_len", "first_label_len"), ("total_len", "pdu_len"), ("offset", "pkt_len")):
                for m in re.finditer(r"(?<![\w.])" + a + r"\b(?!\s*[:=][^=])", code):
                    if re.match(r"\s*let\s", code) and m.start() < code.find("="):
                        continue
                    add("ident %s->%s" % (a, b), l[:m.start()] + b + l[m.end():])
            # error values
            for fam, vs in (("DecapError", ["ErrorSizeBuffer", "ErrorTotalLength", "ErrorGseLength", "ErrorSizePduBuffer", "ErrorProtocolType",
                                            "ErrorCrc", "ErrorInvalidLabel", "ErrorNoLabelSaved", "ErrorUnkownMandatoryHeader"]),
                            ("EncapError", ["ErrorPduLength", "ErrorSizeBuffer", "ErrorProtocolType", "ErrorInvalidLabel"]),
                            ("DecapMemoryError", ["StorageUnderflow", "UndefinedId", "MemoryCorrupted"])):
                for m in re.finditer(fam + r"::(\w+)\b(?!\()", code):
                    if m.group(1) in vs and "=>" not in code[:m.start()]:
                        nv = vs[(vs.index(m.group(1)) + 1) % len(vs)]
                        add("err %s->%s" % (m.group(1), nv), l[:m.start(1)] + nv + l[m.end(1):])
            # give-back removed: the storage is dropped instead of being handed back to the memory
            m = re.search(r"self\.memory\.provision_storage\((\w+)\)", code)
            if m:
                add("giveback dropped", l[:m.start()] + "{ drop(%s); Ok::<(), DecapMemoryError>(()) }" % m.group(1) + l[m.end():])
            for a, b in (("true", "false"), ("false", "true"), (".min(", ".max("), (".max(", ".min("), ("cmp::min(", "cmp::max("), ("cmp::max(", "cmp::min(")):
                for m in re.finditer(r"(?<![\w])" + re.escape(a), code):
                    add("swap %s->%s" % (a, b), l[:m.start()] + b + l[m.end():])
            # a whole `return Err(..)` guard removed: `if cond {` -> `if false && cond {`
            m = re.match(r"(\s*(?:} else )?if )(.+)( \{\s*)$", code)
            if m and " let " not in m.group(2) and not m.group(2).startswith("let ") and i + 1 < len(lines) and "return Err" in "".join(lines[i + 1:i + 4]):
                add("guard off", m.group(1) + "false && (" + m.group(2) + ")" + m.group(3))
            if ONLY_EXTRA:
                del out[:0]
        # negated conditions
        m = re.match(r"(\s*(?:} else )?if )(.+)( \{\s*)$", code)
        if m and " let " not in m.group(2) and not m.group(2).startswith("let "):
            add("neg if", m.group(1) + "!(" + m.group(2) + ")" + m.group(3))
    return out


def sh(cmd, cwd, timeout=1800, env=None):
    e = dict(os.environ)
    e["CARGO_NET_OFFLINE"] = "true"
    if env:
        e.update(env)
    try:
        p = subprocess.run(cmd, cwd=cwd, shell=True, stdout=subprocess.PIPE, stderr=subprocess.STDOUT, timeout=timeout, env=e)
        return p.returncode, p.stdout.decode("utf-8", "replace")
    except subprocess.TimeoutExpired:
        return 124, "timeout"


def setup_sandbox(k):
    v, r = "/tmp/mv%d" % k, "/tmp/mr%d" % k
    if not os.path.isdir(r):
        sh("git -C /repo worktree add -q --detach %s HEAD" % r, "/")
    sh("rsync -a --delete --exclude .git --exclude .cache/run --exclude .cache/harness-target --exclude replays /verif/ %s/" % v, "/")
    sh("sed -i 's|path = \"/repo\"|path = \"%s\"|' %s/harness/Cargo.toml" % (r, v), "/")
    sh("sed -i 's|/verif/.cache/harness-target|%s/.cache/harness-target|' %s/harness/.cargo/config.toml" % (v, v), "/")
    return v, r


def run_one(v, r, mut):
    path = os.path.join(r, mut["file"])
    orig = open(path).read()
    lines = orig.split("\n")
    lines[mut["line"] - 1] = mut["_new_line"]
    res = dict((k, x) for k, x in mut.items() if not k.startswith("_"))
    try:
        open(path, "w").write("\n".join(lines))
        rc, out = sh("cargo check --offline 2>&1 | tail -3", r, timeout=600)
        if "error" in out and "could not compile" in out or rc != 0:
            res["outcome"] = "does-not-compile"
            return res
        if "warning: unused" in out or "unreachable" in out:
            res["warnings"] = True
        rc, out = sh("cargo test --workspace --offline 2>&1 | grep -E '^test result|panicked|error(\\[|:)' | head -8", r, timeout=900)
        if "FAILED" in out or "error" in out or "test result: ok" not in out:
            res["outcome"] = "killed-by-tests"
            return res
        env = {"VERIF_REPO": r}
        order = ORDER.get(mut["file"], []) + [p for p in ALL if p not in ORDER.get(mut["file"], [])]
        first = True
        for pid in order:
            flag = "" if (first or mut["file"].endswith("gse_standard.rs")) else "--no-build"
            rc, out = sh("./check %s --tier quick %s 2>&1 | tail -3" % (pid, flag), v, timeout=1500, env=env)
            first = False
            if "VIOLATION" in out:
                if "no-failing-input-found" in out:
                    res.setdefault("tie_by", []).append(pid)      # keep looking for a property with a failing input
                    continue
                res["outcome"] = "killed"
                res["by"] = pid
                res["with_input"] = True
                return res
            if rc != 0 and "tier=" not in out:
                res["outcome"] = "check-error"
                res["by"] = pid
                res["detail"] = out[-300:]
                return res
        if res.get("tie_by"):
            res["outcome"] = "killed"
            res["by"] = res["tie_by"][0]
            res["with_input"] = False
            return res
        res["outcome"] = "SURVIVED"
        return res
    finally:
        open(path, "w").write(orig)


def worker(k, muts, outpath, lock):
    v, r = setup_sandbox(k)
    for mut in muts:
        res = run_one(v, r, mut)
        with lock:
            with open(outpath, "a") as f:
                f.write(json.dumps(res) + "\n")
    sh("rm -rf %s/target" % r, "/")


def main():
    nw = int(sys.argv[1])
    outpath = sys.argv[2]
    files = FILES
    limit = None
    offset = 0
    stride = 1
    args = sys.argv[3:]
    while args:
        a = args.pop(0)
        if a == "--files":
            files = args.pop(0).split(",")
        elif a == "--limit":
            limit = int(args.pop(0))
        elif a == "--offset":
            offset = int(args.pop(0))
        elif a == "--stride":
            stride = int(args.pop(0))
        elif a == "--list":
            limit = -1
        elif a in ("--extra", "--extra2"):
            pass
    muts = []
    for f in files:
        muts += mutants_of(f, open(os.path.join("/repo", f)).read())
    # de-duplicate identical new lines at the same place
    seen = set()
    uniq = []
    for m in muts:
        key = (m["file"], m["line"], m["_new_line"])
        if key not in seen:
            seen.add(key)
            uniq.append(m)
    if EXTRA:
        uniq = [m for m in uniq if m["kind"].split(" ")[0] in ("ident", "err", "giveback", "swap", "guard")]
    if EXTRA2:
        uniq = [m for m in uniq if m["kind"].split(" ")[0] in ("argswap", "some->none", "ident2", "slice")]
    muts = uniq[offset::stride]
    if limit == -1:
        for m in muts:
            print(m["file"], m["line"], m["kind"], "|", m["old"], "=>", m["new"])
        print(len(muts), "mutants")
        return
    if limit:
        muts = muts[:limit]
    done = set()
    if os.path.exists(outpath):
        for l in open(outpath):
            try:
                d = json.loads(l)
                done.add((d["file"], d["line"], d["new"]))
            except Exception:
                pass
    muts = [m for m in muts if (m["file"], m["line"], m["new"]) not in done]
    print(len(muts), "mutants to run on", nw, "workers")
    lock = mp.Lock()
    procs = []
    for k in range(nw):
        p = mp.Process(target=worker, args=(k, muts[k::nw], outpath, lock))
        p.start()
        procs.append(p)
    for p in procs:
        p.join()


if __name__ == "__main__":
    main()
