//! Line-protocol harness for the real crate (DESIGN.md §4).
//!
//! Reads one operation per line on stdin, calls `dvb_gse_rust` in-process and prints one
//! canonical result line per operation.  `lean/Main.lean` does the same with the model;
//! `./check` diffs the two streams and runs the implementation oracles on this one.
//! Every call into the crate is wrapped in `catch_unwind`; a panic is printed as `panic`
//! and halts the session (the objects may be half-updated after an unwind).

use dvb_gse_rust::crc::{CrcCalculator, DefaultCrc};
use dvb_gse_rust::gse_decap::gse_decap_memory::MemoryContext;
use dvb_gse_rust::gse_decap::{
    read_gse_header, DecapContext, DecapError, DecapMemoryError, DecapMetadata, DecapStatus,
    Decapsulator, GetLabelorFragIdError, GseDecapMemory, LabelorFragId, SimpleGseMemory,
};
use dvb_gse_rust::gse_encap::{
    encap_frag_preview, encap_preview, generate_gse_header, ContextFrag, EncapError, EncapMetadata,
    EncapPreview, EncapStatus, Encapsulator,
};
use dvb_gse_rust::header_extension::{
    Extension, ExtensionData, MandatoryHeaderExt, MandatoryHeaderExtensionManager,
    NewExtensionError, SignalisationMandatoryExtensionHeaderManager,
    SimpleMandatoryExtensionHeaderManager,
};
use dvb_gse_rust::label::{Label, LabelType};
use dvb_gse_rust::utils::{
    GseCompletePacket, GseEndFragPacket, GseFirstFragPacket, GseIntermediatePacket, Serialisable,
};
use std::collections::HashMap;
use std::io::{self, BufRead, BufWriter, Write};
use std::panic::{catch_unwind, AssertUnwindSafe};

// ---------------------------------------------------------------- formatting

fn hex_bytes(b: &[u8]) -> String {
    if b.is_empty() {
        return "-".to_string();
    }
    let mut s = String::with_capacity(b.len() * 2);
    for x in b {
        s.push_str(&format!("{:02x}", x));
    }
    s
}

fn fnv(b: &[u8]) -> u64 {
    let mut h: u64 = 0xcbf29ce484222325;
    for x in b {
        h ^= *x as u64;
        h = h.wrapping_mul(0x100000001b3);
    }
    h
}

fn digest(b: &[u8]) -> String {
    format!("{}:{:016x}", b.len(), fnv(b))
}

fn fmt_label(l: &Label) -> String {
    match l {
        Label::SixBytesLabel(b) => format!("6:{}", hex_bytes(b)),
        Label::ThreeBytesLabel(b) => format!("3:{}", hex_bytes(b)),
        Label::Broadcast => "B".to_string(),
        Label::ReUse => "U".to_string(),
    }
}

fn fmt_opt_label(l: &Option<Label>) -> String {
    match l {
        None => "-".to_string(),
        Some(l) => fmt_label(l),
    }
}

fn fmt_ext(e: &Extension) -> String {
    let (k, d): (&str, &[u8]) = match e.data() {
        ExtensionData::Data2(d) => ("2", d),
        ExtensionData::Data4(d) => ("4", d),
        ExtensionData::Data6(d) => ("6", d),
        ExtensionData::Data8(d) => ("8", d),
        ExtensionData::NoData => ("N", &[]),
        ExtensionData::MandatoryData(d) => ("M", d),
    };
    format!("{}{:04x}:{}", k, e.id(), hex_bytes(d))
}

fn fmt_exts(es: &[Extension]) -> String {
    if es.is_empty() {
        "-".to_string()
    } else {
        es.iter().map(fmt_ext).collect::<Vec<_>>().join(",")
    }
}

fn fmt_lt(lt: &LabelType) -> &'static str {
    match lt {
        LabelType::SixBytesLabel => "6",
        LabelType::ThreeBytesLabel => "3",
        LabelType::Broadcast => "B",
        LabelType::ReUse => "U",
    }
}

fn fmt_enc_err(e: &EncapError) -> &'static str {
    match e {
        EncapError::ErrorSizeBuffer => "SizeBuffer",
        EncapError::ErrorPduLength => "PduLength",
        EncapError::ErrorProtocolType => "ProtocolType",
        EncapError::ErrorInvalidLabel => "InvalidLabel",
        EncapError::ErrorNoExtensionFound => "NoExtensionFound",
        EncapError::ErrorFinalMandatoryExtensionHeader => "FinalMandatoryExtensionHeader",
        #[allow(unreachable_patterns)]
        _ => "Other",
    }
}

// ---------------------------------------------------------------- session state

struct TableMgr {
    kind: u8, // 0 simple, 1 signalisation, 2 table
    table: Vec<(u16, u8, u8)>, // id, 0 = final / 1 = non final, size
}

impl MandatoryHeaderExtensionManager for TableMgr {
    fn is_mandatory_header_id_known(&self, id: u16) -> MandatoryHeaderExt {
        match self.kind {
            0 => SimpleMandatoryExtensionHeaderManager {}.is_mandatory_header_id_known(id),
            1 => SignalisationMandatoryExtensionHeaderManager {}.is_mandatory_header_id_known(id),
            _ => {
                for (i, k, n) in &self.table {
                    if *i == id {
                        return if *k == 0 {
                            MandatoryHeaderExt::Final(*n)
                        } else {
                            MandatoryHeaderExt::NonFinal(*n)
                        };
                    }
                }
                MandatoryHeaderExt::Unknown
            }
        }
    }
}

/// The calculator given to both sides: the default CRC-32 xor-ed with a session-chosen constant, so that
/// "the calculator in use" is observable (`set_crc_calculator`, the calculator handed to `Decapsulator::new`).
#[derive(Debug, Clone, Copy, PartialEq, Eq)]
struct HCrc {
    xor: u32,
}

impl CrcCalculator for HCrc {
    fn calculate_crc32(&self, pdu: &[u8], protocol_type: u16, total_length: u16, label: &[u8]) -> u32 {
        DefaultCrc {}.calculate_crc32(pdu, protocol_type, total_length, label) ^ self.xor
    }
}

type Dec = Decapsulator<SimpleGseMemory, HCrc, TableMgr>;

struct Reg {
    data: Vec<u8>,
    n: usize,
}

struct Sess {
    enc: Encapsulator<HCrc>,
    enc_xor: u32,
    dec: Option<Dec>,
    regs: HashMap<usize, Reg>,
    ctxs: HashMap<usize, ContextFrag>,
    /// ghost identity of every storage ever created: heap address -> id
    ids: HashMap<usize, usize>,
    owned: HashMap<usize, Box<[u8]>>,
    held: HashMap<usize, MemoryContext>,
    next_id: usize,
    next_handle: usize,
    halted: bool,
    maxpdu: usize,
}

impl Sess {
    fn new() -> Self {
        Sess {
            enc: Encapsulator::new(HCrc { xor: 0 }),
            enc_xor: 0,
            dec: None,
            regs: HashMap::new(),
            ctxs: HashMap::new(),
            ids: HashMap::new(),
            owned: HashMap::new(),
            held: HashMap::new(),
            next_id: 0,
            next_handle: 0,
            halted: false,
            maxpdu: 0,
        }
    }

    fn id_of(&self, b: &[u8]) -> String {
        match self.ids.get(&(b.as_ptr() as usize)) {
            Some(i) => i.to_string(),
            None => "?".to_string(),
        }
    }

    fn id_num(&self, b: &[u8]) -> Option<usize> {
        self.ids.get(&(b.as_ptr() as usize)).copied()
    }

    fn own(&mut self, b: Box<[u8]>) {
        if let Some(i) = self.id_num(&b) {
            self.owned.insert(i, b);
        } else {
            // a storage the harness never created: keep it alive under a fresh id so that it shows up
            let i = 1_000_000 + self.owned.len();
            self.owned.insert(i, b);
        }
    }

    fn fmt_enc(&self) -> String {
        // Encapsulator's fields are private; its derived Debug output is the observation:
        // Encapsulator { crc_calculator: DefaultCrc, re_use_activated: true, re_max_consecutive: 0,
        //                re_current_consecutive: 0, last_label: None }
        let d = format!("{:?}", self.enc);
        let simple = |key: &str| -> String {
            match d.find(key) {
                None => "?".to_string(),
                Some(i) => d[i + key.len()..]
                    .chars()
                    .take_while(|c| *c != ',' && *c != ' ' && *c != '}')
                    .collect(),
            }
        };
        let reuse = simple("re_use_activated: ");
        let max = simple("re_max_consecutive: ");
        let cur = simple("re_current_consecutive: ");
        let last = match d.find("last_label: ") {
            None => "?".to_string(),
            Some(i) => parse_debug_opt_label(&d[i + "last_label: ".len()..]),
        };
        let s = format!(
            "E {} {} {} {}",
            match reuse.as_str() {
                "true" => "1",
                "false" => "0",
                _ => "?",
            },
            max,
            cur,
            last
        );
        // a field that cannot be read from the Debug output (renamed, regrouped): the whole state counts as
        // not observable and only results are compared
        if s.contains('?') || max.parse::<u32>().is_err() || cur.parse::<u32>().is_err() {
            return "E ?".to_string();
        }
        // the two getters of the public API must tell the same story as the state itself
        let mut e = self.enc.clone();
        let flag = e.is_enabled_re_use_label();
        let xor = e.get_crc_calculator().xor;
        if (flag && reuse != "true") || (!flag && reuse != "false") || xor != self.enc_xor {
            return format!("E !getters is_enabled_re_use_label={} get_crc_calculator.xor={}", flag, xor);
        }
        s
    }

    /// degraded mode (the crate's verification hooks do not compile against the current source, so the
    /// harness was built without them): the state of the receiver cannot be observed
    #[cfg(not(dvb_gse_rust_verif))]
    fn fmt_mem(&self, _m: &SimpleGseMemory) -> String {
        "M ?".to_string()
    }

    #[cfg(dvb_gse_rust_verif)]
    fn fmt_mem(&self, m: &SimpleGseMemory) -> String {
        let free = m
            .verif_storages()
            .iter()
            .map(|s| format!("{}:{}", self.id_of(s), s.len()))
            .collect::<Vec<_>>()
            .join(",");
        let slots = m
            .verif_frags()
            .iter()
            .map(|f| match f {
                None => "-".to_string(),
                Some((c, s)) => format!(
                    "{}/{}/{}/{}",
                    fmt_ctx(c),
                    self.id_of(s),
                    s.len(),
                    digest(&s[..std::cmp::min(c.pdu_len as usize, s.len())])
                ),
            })
            .collect::<Vec<_>>()
            .join(",");
        format!(
            "M cap={} n={} sz={} free=[{}] slots=[{}]",
            m.verif_capacity(),
            m.verif_frags().len(),
            self.maxpdu,
            free,
            slots
        )
    }
}

fn parse_debug_opt_label(s: &str) -> String {
    // None | Some(SixBytesLabel([48, 49, 50, 51, 52, 53])) | Some(ThreeBytesLabel([1, 2, 3])) | Some(Broadcast) | Some(ReUse)
    let s = s.trim();
    if s.starts_with("None") {
        return "-".to_string();
    }
    let nums = |t: &str| -> Vec<u8> {
        let a = t.find('[').unwrap_or(0);
        let b = t.find(']').unwrap_or(t.len());
        t[a + 1..b]
            .split(',')
            .filter_map(|x| x.trim().parse::<u8>().ok())
            .collect()
    };
    if s.contains("SixBytesLabel") {
        format!("6:{}", hex_bytes(&nums(s)))
    } else if s.contains("ThreeBytesLabel") {
        format!("3:{}", hex_bytes(&nums(s)))
    } else if s.contains("Broadcast") {
        "B".to_string()
    } else if s.contains("ReUse") {
        "U".to_string()
    } else {
        format!("?{}", s)
    }
}

fn fmt_ctx(c: &DecapContext) -> String {
    format!(
        "{}/{}/{}/{:04x}/{}/{}/{}",
        c.frag_id,
        c.pdu_len,
        c.total_len,
        c.protocol_type,
        fmt_label(&c.label),
        if c.from_label_reuse { 1 } else { 0 },
        fmt_exts(&c.extensions_header)
    )
}

fn fmt_meta(m: &DecapMetadata) -> String {
    format!(
        "{},{:04x},{},{}",
        m.pdu_len(),
        m.protocol_type(),
        fmt_label(&m.label()),
        fmt_exts(m.extensions())
    )
}

// ---------------------------------------------------------------- parsing

fn parse_hex_bytes(s: &str) -> Option<Vec<u8>> {
    if s == "-" || s.is_empty() {
        return Some(vec![]);
    }
    if s.len() % 2 != 0 {
        return None;
    }
    let mut v = Vec::with_capacity(s.len() / 2);
    let b = s.as_bytes();
    for i in (0..b.len()).step_by(2) {
        let h = (b[i] as char).to_digit(16)?;
        let l = (b[i + 1] as char).to_digit(16)?;
        v.push((h * 16 + l) as u8);
    }
    Some(v)
}

fn gen_bytes(seed: u64, len: usize) -> Vec<u8> {
    let mut out = Vec::with_capacity(len);
    let mut s = seed;
    while out.len() < len {
        s = s.wrapping_add(0x9E3779B97F4A7C15);
        let mut z = s;
        z = (z ^ (z >> 30)).wrapping_mul(0xBF58476D1CE4E5B9);
        z = (z ^ (z >> 27)).wrapping_mul(0x94D049BB133111EB);
        z ^= z >> 31;
        for i in 0..8 {
            if out.len() < len {
                out.push((z >> (8 * i)) as u8);
            }
        }
    }
    out
}

fn parse_label(s: &str) -> Option<Label> {
    if s == "B" {
        return Some(Label::Broadcast);
    }
    if s == "U" {
        return Some(Label::ReUse);
    }
    let (k, h) = s.split_once(':')?;
    let b = parse_hex_bytes(h)?;
    match k {
        "6" if b.len() == 6 => Some(Label::SixBytesLabel(b.try_into().ok()?)),
        "3" if b.len() == 3 => Some(Label::ThreeBytesLabel(b.try_into().ok()?)),
        _ => None,
    }
}

impl Sess {
    fn parse_atom(&self, a: &str) -> Option<Vec<u8>> {
        if a == "-" {
            return Some(vec![]);
        }
        let p: Vec<&str> = a.split(':').collect();
        match p.as_slice() {
            ["h", h] => parse_hex_bytes(h),
            ["g", seed, len] => Some(gen_bytes(seed.parse().ok()?, len.parse().ok()?)),
            ["z", len] => Some(vec![0u8; len.parse().ok()?]),
            ["c", b, len] => Some(vec![b.parse::<usize>().ok()? as u8; len.parse().ok()?]),
            ["r", reg, off, len] => {
                let r = self.regs.get(&reg.parse().ok()?)?;
                let off: usize = off.parse().ok()?;
                let len: usize = len.parse().ok()?;
                if off + len <= r.data.len() {
                    Some(r.data[off..off + len].to_vec())
                } else {
                    None
                }
            }
            ["p", reg] => {
                let r = self.regs.get(&reg.parse().ok()?)?;
                Some(r.data[..std::cmp::min(r.n, r.data.len())].to_vec())
            }
            ["R", reg] => Some(self.regs.get(&reg.parse().ok()?)?.data.clone()),
            _ => None,
        }
    }

    fn parse_bs(&self, e: &str) -> Option<Vec<u8>> {
        let mut out = vec![];
        for a in e.split('+') {
            out.extend(self.parse_atom(a)?);
        }
        Some(out)
    }

    fn parse_ctx(&self, e: &str) -> Option<ContextFrag> {
        let p: Vec<&str> = e.split(':').collect();
        match p.as_slice() {
            ["k", reg] => self.ctxs.get(&reg.parse().ok()?).copied(),
            ["c", fid, crc, pos] => Some(ContextFrag::new(
                fid.parse().ok()?,
                u32::from_str_radix(crc, 16).ok()?,
                pos.parse().ok()?,
            )),
            _ => None,
        }
    }
}

fn parse_exts(e: &str) -> Option<Vec<Extension>> {
    if e == "-" {
        return Some(vec![]);
    }
    let mut v = vec![];
    for item in e.split(',') {
        let (id, h) = item.split_once(':')?;
        let id = u16::from_str_radix(id, 16).ok()?;
        let d = parse_hex_bytes(h)?;
        match catch_unwind(|| Extension::new(id, &d)) {
            Ok(Ok(x)) => v.push(x),
            _ => return None,
        }
    }
    Some(v)
}

fn parse_mgr(e: &str) -> Option<Vec<(u16, u8, u8)>> {
    if e == "-" {
        return Some(vec![]);
    }
    let mut v = vec![];
    for item in e.split(',') {
        let (id, spec) = item.split_once(':')?;
        let id = u16::from_str_radix(id, 16).ok()?;
        let k = match spec.chars().next()? {
            'F' => 0,
            'N' => 1,
            _ => return None,
        };
        let n: usize = spec[1..].parse().ok()?;
        v.push((id, k, n as u8));
    }
    Some(v)
}

// ---------------------------------------------------------------- operations

fn fmt_enc_res(
    pre: &[u8],
    r: &Result<Result<EncapStatus, EncapError>, ()>,
    b: &[u8],
) -> (String, usize, Option<ContextFrag>) {
    match r {
        Err(()) => ("panic".to_string(), 0, None),
        Ok(Ok(EncapStatus::CompletedPkt(n))) => {
            let n = *n as usize;
            let k = std::cmp::min(n, b.len());
            (
                format!(
                    "ok C {} out={} rest={} prerest={}",
                    n,
                    hex_bytes(&b[..k]),
                    digest(&b[k..]),
                    digest(&pre[std::cmp::min(n, pre.len())..])
                ),
                n,
                None,
            )
        }
        Ok(Ok(EncapStatus::FragmentedPkt(n, c))) => {
            let n = *n as usize;
            let k = std::cmp::min(n, b.len());
            (
                format!(
                    "ok F {} {} {:08x} {} out={} rest={} prerest={}",
                    n,
                    c.frag_id(),
                    c.crc(),
                    c.len_pdu_frag(),
                    hex_bytes(&b[..k]),
                    digest(&b[k..]),
                    digest(&pre[std::cmp::min(n, pre.len())..])
                ),
                n,
                Some(*c),
            )
        }
        Ok(Err(e)) => (
            format!("err {} buf={} pre={}", fmt_enc_err(e), digest(b), digest(pre)),
            0,
            None,
        ),
    }
}

fn fmt_preview(r: Result<Result<EncapPreview, EncapError>, ()>) -> String {
    match r {
        Err(()) => "panic".to_string(),
        Ok(Err(e)) => format!("err {}", fmt_enc_err(&e)),
        Ok(Ok(p)) => {
            let k = kind_char(&format!("{:?}", p.pkt_type()));
            format!("ok {} {} {}", k, p.pdu_len(), p.pkt_len())
        }
    }
}

fn kind_char(debug_name: &str) -> &'static str {
    match debug_name {
        "CompletePkt" => "C",
        "FirstFragPkt" => "F",
        "IntermediateFragPkt" => "I",
        "EndFragPkt" => "E",
        _ => "?",
    }
}

impl Sess {
    fn fmt_mem_err(&self, e: &DecapMemoryError) -> String {
        match e {
            DecapMemoryError::StorageOverflow(s) => format!("overflow:{}", self.id_of(s)),
            DecapMemoryError::StorageUnderflow => "underflow".to_string(),
            DecapMemoryError::UndefinedId => "undefined".to_string(),
            DecapMemoryError::BufferTooSmall(s) => format!("toosmall:{}", self.id_of(s)),
            DecapMemoryError::MemoryCorrupted => "corrupted".to_string(),
            #[allow(unreachable_patterns)]
            other => format!("other:{:?}", other).replace(' ', "_"),
        }
    }

    fn fmt_dec_err(&self, e: &DecapError) -> String {
        match e {
            DecapError::ErrorSizeBuffer => "SizeBuffer".to_string(),
            DecapError::ErrorTotalLength => "TotalLength".to_string(),
            DecapError::ErrorGseLength => "GseLength".to_string(),
            DecapError::ErrorSizePduBuffer => "SizePduBuffer".to_string(),
            DecapError::ErrorProtocolType => "ProtocolType".to_string(),
            DecapError::ErrorMemory(m) => format!("Memory.{}", self.fmt_mem_err(m)),
            DecapError::ErrorCrc => "Crc".to_string(),
            DecapError::ErrorInvalidLabel => "InvalidLabel".to_string(),
            DecapError::ErrorNoLabelSaved => "NoLabelSaved".to_string(),
            DecapError::ErrorLabelBroadcastSaved => "LabelBroadcastSaved".to_string(),
            DecapError::ErrorLabelReUseSaved => "LabelReUseSaved".to_string(),
            DecapError::ErrorUnkownMandatoryHeader => "UnkownMandatoryHeader".to_string(),
            #[allow(unreachable_patterns)]
            other => format!("Other:{:?}", other).replace(' ', "_"),
        }
    }

    #[cfg(not(dvb_gse_rust_verif))]
    fn fmt_dec(&self) -> String {
        match &self.dec {
            None => "-".to_string(),
            Some(d) => format!("D last=? {}", self.fmt_mem(&d.memory)),
        }
    }

    #[cfg(dvb_gse_rust_verif)]
    fn fmt_dec(&self) -> String {
        match &self.dec {
            None => "-".to_string(),
            Some(d) => format!(
                "D last={} {}",
                fmt_opt_label(&d.verif_last_label()),
                self.fmt_mem(&d.memory)
            ),
        }
    }

    /// formats a decap result and takes ownership of any storage handed out
    fn take_dec_res(
        &mut self,
        r: Result<Result<(DecapStatus, usize), (DecapError, usize)>, ()>,
    ) -> String {
        match r {
            Err(()) => "panic".to_string(),
            Ok(Ok((DecapStatus::CompletedPkt(b, m), c))) => {
                let pl = std::cmp::min(m.pdu_len(), b.len());
                let s = format!(
                    "ok C {} id={} len={} pdu={} tail={} meta={}",
                    c,
                    self.id_of(&b),
                    b.len(),
                    digest(&b[..pl]),
                    digest(&b[pl..]),
                    fmt_meta(&m)
                );
                self.own(b);
                s
            }
            Ok(Ok((DecapStatus::FragmentedPkt(m), c))) => format!("ok F {} meta={}", c, fmt_meta(&m)),
            Ok(Ok((DecapStatus::Padding, c))) => format!("ok P {}", c),
            Ok(Err((e, c))) => {
                let s = format!("err {} {}", self.fmt_dec_err(&e), c);
                if let DecapError::ErrorMemory(m) = e {
                    match m {
                        DecapMemoryError::StorageOverflow(b) | DecapMemoryError::BufferTooSmall(b) => self.own(b),
                        _ => (),
                    }
                }
                s
            }
        }
    }

    fn fmt_prov(&mut self, r: Result<Result<(), DecapMemoryError>, ()>) -> String {
        match r {
            Err(()) => "panic".to_string(),
            Ok(Ok(())) => "ok".to_string(),
            Ok(Err(e)) => {
                let s = format!("err {}", self.fmt_mem_err(&e));
                match e {
                    DecapMemoryError::StorageOverflow(b) | DecapMemoryError::BufferTooSmall(b) => self.own(b),
                    _ => (),
                }
                s
            }
        }
    }
}

fn main() {
    std::panic::set_hook(Box::new(|_| {}));
    let stdin = io::stdin();
    let stdout = io::stdout();
    let mut out = BufWriter::with_capacity(1 << 20, stdout.lock());
    let mut s = Sess::new();
    for line in stdin.lock().lines() {
        let line = match line {
            Ok(l) => l,
            Err(_) => break,
        };
        let t = line.trim();
        if t.is_empty() || t.starts_with('#') {
            continue;
        }
        let o = step(&mut s, t);
        let _ = writeln!(out, "{}", o);
    }
    let _ = out.flush();
}

fn step(s: &mut Sess, line: &str) -> String {
    let toks: Vec<&str> = line.split(' ').filter(|x| !x.is_empty()).collect();
    if toks.is_empty() {
        return String::new();
    }
    if toks[0] == "session" {
        *s = Sess::new();
        return format!("session {}", toks[1..].join(" "));
    }
    if s.halted {
        return "skipped".to_string();
    }
    match step_inner(s, &toks) {
        Some(o) => o,
        None => "bad-op".to_string(),
    }
}

fn kind_from_index(k: usize) -> Option<u16> {
    // a header word whose start/end bits select the kind; label type re-use keeps it off padding
    match k {
        0 => Some(0xF000),
        1 => Some(0xB000),
        2 => Some(0x3000),
        3 => Some(0x7000),
        _ => None,
    }
}

fn lt_from_index(k: usize) -> Option<LabelType> {
    match k {
        0 => Some(LabelType::SixBytesLabel),
        1 => Some(LabelType::ThreeBytesLabel),
        2 => Some(LabelType::Broadcast),
        3 => Some(LabelType::ReUse),
        _ => None,
    }
}

fn step_inner(s: &mut Sess, toks: &[&str]) -> Option<String> {
    match toks {
        // the crate's constants as the compiler evaluated them (used by tools/gen_lean.py when it does not
        // recognise the form of a definition in src/gse_standard.rs)
        ["consts"] => {
            use dvb_gse_rust::gse_standard::*;
            let v: Vec<(&str, u64)> = vec![
                ("COMPLETE_PKT", COMPLETE_PKT as u64),
                ("FIRST_PKT", FIRST_PKT as u64),
                ("INTERMEDIATE_PKT", INTERMEDIATE_PKT as u64),
                ("END_PKT", END_PKT as u64),
                ("START_END_MASK", START_END_MASK as u64),
                ("LABEL_6_B", LABEL_6_B as u64),
                ("LABEL_3_B", LABEL_3_B as u64),
                ("LABEL_BROADCAST", LABEL_BROADCAST as u64),
                ("LABEL_REUSE", LABEL_REUSE as u64),
                ("LABEL_TYPE_MASK", LABEL_TYPE_MASK as u64),
                ("LABEL_6_B_LEN", LABEL_6_B_LEN as u64),
                ("LABEL_3_B_LEN", LABEL_3_B_LEN as u64),
                ("LABEL_BROADCAST_LEN", LABEL_BROADCAST_LEN as u64),
                ("LABEL_REUSE_LEN", LABEL_REUSE_LEN as u64),
                ("FIXED_HEADER_LEN", FIXED_HEADER_LEN as u64),
                ("PROTOCOL_LEN", PROTOCOL_LEN as u64),
                ("FRAG_ID_LEN", FRAG_ID_LEN as u64),
                ("TOTAL_LENGTH_LEN", TOTAL_LENGTH_LEN as u64),
                ("FIRST_FRAG_LEN", FIRST_FRAG_LEN as u64),
                ("GSE_LEN_MAX", GSE_LEN_MAX as u64),
                ("GSE_LEN_MASK", GSE_LEN_MASK as u64),
                ("TOTAL_LEN_MAX", TOTAL_LEN_MAX as u64),
                ("CRC_LEN", CRC_LEN as u64),
                ("CRC_INIT", CRC_INIT as u64),
                ("SECOND_RANGE_PTYPE", SECOND_RANGE_PTYPE as u64),
                ("MAX_MANDATORY_VAL_PTYPE", MAX_MANDATORY_VAL_PTYPE as u64),
                ("NCR_PROTOCOL_ID", NCR_PROTOCOL_ID as u64),
                ("INTERNAL_SIGNALING_PROTOCOL_ID", INTERNAL_SIGNALING_PROTOCOL_ID as u64),
                ("H_LEN_MASK", H_LEN_MASK as u64),
            ];
            let body: Vec<String> = v.iter().map(|(n, x)| format!("{}={}", n, x)).collect();
            Some(format!("ok {} | -", body.join(",")))
        }
        ["hdr_gen", k, lt, len] => {
            let k: usize = k.parse().ok()?;
            let lt = lt_from_index(lt.parse().ok()?)?;
            let len: u16 = len.parse().ok()?;
            let (_, kind, _) = read_gse_header(kind_from_index(k)?)?;
            let r = catch_unwind(|| generate_gse_header(&kind, &lt, len));
            Some(match r {
                Ok(w) => format!("{} | -", w),
                Err(_) => {
                    s.halted = true;
                    "panic | -".to_string()
                }
            })
        }
        ["hdr_read", w] => {
            let w: u16 = w.parse().ok()?;
            let r = catch_unwind(|| read_gse_header(w));
            Some(match r {
                Ok(None) => "none | -".to_string(),
                Ok(Some((len, k, lt))) => {
                    format!("some {} {} {} | -", len, kind_char(&format!("{:?}", k)), fmt_lt(&lt))
                }
                Err(_) => {
                    s.halted = true;
                    "panic | -".to_string()
                }
            })
        }
        ["crc", pdu, pt, tl, label] => {
            let pdu = s.parse_bs(pdu)?;
            let pt: u16 = pt.parse().ok()?;
            let tl: u16 = tl.parse().ok()?;
            let label = s.parse_bs(label)?;
            let r = catch_unwind(|| DefaultCrc {}.calculate_crc32(&pdu, pt, tl, &label));
            Some(match r {
                Ok(c) => format!("{:08x} | -", c),
                Err(_) => {
                    s.halted = true;
                    "panic | -".to_string()
                }
            })
        }
        ["fnv", bs] => Some(format!("{} | -", digest(&s.parse_bs(bs)?))),
        ["pause", ms] => {
            // wall-clock time passes between two operations; the model has no clock: nothing may depend on it
            let ms: u64 = ms.parse().ok()?;
            std::thread::sleep(std::time::Duration::from_millis(ms.min(10_000)));
            Some("ok | -".to_string())
        }
        ["setreg", reg, bs] => {
            let r: usize = reg.parse().ok()?;
            let b = s.parse_bs(bs)?;
            let n = b.len();
            s.regs.insert(r, Reg { data: b, n });
            Some(format!("ok {} | -", n))
        }
        ["xorreg", reg, off, hx] => {
            let r: usize = reg.parse().ok()?;
            let off: usize = off.parse().ok()?;
            let x = parse_hex_bytes(hx)?;
            let rg = s.regs.get_mut(&r)?;
            if off + x.len() > rg.data.len() {
                return None;
            }
            for (i, v) in x.iter().enumerate() {
                rg.data[off + i] ^= v;
            }
            Some("ok | -".to_string())
        }
        ["setlen", reg, n] => {
            let r: usize = reg.parse().ok()?;
            let n: usize = n.parse().ok()?;
            let rg = s.regs.get_mut(&r)?;
            if n > rg.data.len() {
                return None;
            }
            rg.n = n;
            Some("ok | -".to_string())
        }
        ["ext_new", id, bs] => {
            let id = u16::from_str_radix(id, 16).ok()?;
            let d = s.parse_bs(bs)?;
            let r = catch_unwind(|| Extension::new(id, &d));
            Some(match r {
                Ok(Ok(e)) => format!("ok {} {} | -", fmt_ext(&e), e.len()),
                Ok(Err(NewExtensionError::IdAndVecSizeNotMatchingError)) => "err size | -".to_string(),
                Ok(Err(NewExtensionError::IncorrectExtensionId)) => "err id | -".to_string(),
                Err(_) => {
                    s.halted = true;
                    "panic | -".to_string()
                }
            })
        }
        ["enc_new"] => {
            s.enc = Encapsulator::new(HCrc { xor: 0 });
            s.enc_xor = 0;
            Some(format!("ok | {}", s.fmt_enc()))
        }
        ["enc_reset"] => {
            s.enc.reset_last_label();
            Some(format!("ok | {}", s.fmt_enc()))
        }
        ["enc_disable"] => {
            s.enc.disable_re_use_label();
            Some(format!("ok | {}", s.fmt_enc()))
        }
        ["enc_enable"] => {
            s.enc.enable_re_use_label();
            Some(format!("ok | {}", s.fmt_enc()))
        }
        ["enc_set_crc"] => {
            s.enc.set_crc_calculator(HCrc { xor: 0 });
            s.enc_xor = 0;
            Some(format!("ok | {}", s.fmt_enc()))
        }
        ["enc_set_crc", k] => {
            let k: u32 = k.parse().ok()?;
            s.enc.set_crc_calculator(HCrc { xor: k });
            s.enc_xor = k;
            Some(format!("ok | {}", s.fmt_enc()))
        }
        ["enc_enable_max", n] => {
            let n: usize = n.parse().ok()?;
            if n > 255 {
                return None;
            }
            s.enc.enable_re_use_label_with_max_consecutive(n as u8);
            Some(format!("ok | {}", s.fmt_enc()))
        }
        ["encap", pdu, fid, pt, label, buf, reg] => {
            let pdu = s.parse_bs(pdu)?;
            let fid: usize = fid.parse().ok()?;
            let pt = u16::from_str_radix(pt, 16).ok()?;
            let label = parse_label(label)?;
            let pre = s.parse_bs(buf)?;
            let reg: usize = reg.parse().ok()?;
            let mut b = pre.clone();
            let enc = &mut s.enc;
            let r = catch_unwind(AssertUnwindSafe(|| {
                enc.encap(&pdu, fid as u8, EncapMetadata::new(pt, label), &mut b)
            }))
            .map_err(|_| ());
            let (txt, n, ctx) = fmt_enc_res(&pre, &r, &b);
            s.regs.insert(reg, Reg { data: b, n });
            match ctx {
                Some(c) => {
                    s.ctxs.insert(reg, c);
                }
                None => {
                    s.ctxs.remove(&reg);
                }
            }
            s.halted = txt.starts_with("panic");
            Some(format!("{} | {}", txt, s.fmt_enc()))
        }
        ["encap_ext", pdu, fid, pt, label, buf, reg, exts] => {
            let pdu = s.parse_bs(pdu)?;
            let fid: usize = fid.parse().ok()?;
            let pt = u16::from_str_radix(pt, 16).ok()?;
            let label = parse_label(label)?;
            let pre = s.parse_bs(buf)?;
            let reg: usize = reg.parse().ok()?;
            let exts = parse_exts(exts)?;
            let mut b = pre.clone();
            let enc = &mut s.enc;
            let r = catch_unwind(AssertUnwindSafe(|| {
                enc.encap_ext(&pdu, fid as u8, EncapMetadata::new(pt, label), &mut b, exts)
            }))
            .map_err(|_| ());
            let (txt, n, ctx) = fmt_enc_res(&pre, &r, &b);
            s.regs.insert(reg, Reg { data: b, n });
            match ctx {
                Some(c) => {
                    s.ctxs.insert(reg, c);
                }
                None => {
                    s.ctxs.remove(&reg);
                }
            }
            s.halted = txt.starts_with("panic");
            Some(format!("{} | {}", txt, s.fmt_enc()))
        }
        ["encap_frag", pdu, ctx, buf, reg, cout] => {
            let pdu = s.parse_bs(pdu)?;
            let ctx = s.parse_ctx(ctx)?;
            let pre = s.parse_bs(buf)?;
            let reg: usize = reg.parse().ok()?;
            let cout: usize = cout.parse().ok()?;
            let mut b = pre.clone();
            let enc = &s.enc;
            let r = catch_unwind(AssertUnwindSafe(|| enc.encap_frag(&pdu, &ctx, &mut b))).map_err(|_| ());
            let (txt, n, c) = fmt_enc_res(&pre, &r, &b);
            s.regs.insert(reg, Reg { data: b, n });
            // chain register: advanced on a fragment, erased on completion, kept on error
            match (&r, c) {
                (Ok(Ok(_)), Some(c)) => {
                    s.ctxs.insert(cout, c);
                }
                (Ok(Ok(_)), None) => {
                    s.ctxs.remove(&cout);
                }
                _ => (),
            }
            s.halted = txt.starts_with("panic");
            Some(format!("{} | {}", txt, s.fmt_enc()))
        }
        ["preview", pdu, pt, label, buflen] => {
            let pdu = s.parse_bs(pdu)?;
            let pt = u16::from_str_radix(pt, 16).ok()?;
            let label = parse_label(label)?;
            let n: usize = buflen.parse().ok()?;
            let b = vec![0u8; n];
            let r = catch_unwind(|| encap_preview(&pdu, EncapMetadata::new(pt, label), &b)).map_err(|_| ());
            let txt = fmt_preview(r);
            s.halted = txt.starts_with("panic");
            Some(format!("{} | -", txt))
        }
        ["frag_preview", pdu, ctx, buflen] => {
            let pdu = s.parse_bs(pdu)?;
            let ctx = s.parse_ctx(ctx)?;
            let n: usize = buflen.parse().ok()?;
            let b = vec![0u8; n];
            let r = catch_unwind(|| encap_frag_preview(&pdu, &ctx, &b)).map_err(|_| ());
            let txt = fmt_preview(r);
            s.halted = txt.starts_with("panic");
            Some(format!("{} | -", txt))
        }
        ["dec_new", slots, maxpdu, mgr] => {
            let n: usize = slots.parse().ok()?;
            let sz: usize = maxpdu.parse().ok()?;
            let m = if *mgr == "sig" {
                TableMgr { kind: 1, table: vec![] }
            } else {
                let t = parse_mgr(mgr)?;
                TableMgr { kind: if t.is_empty() { 0 } else { 2 }, table: t }
            };
            // the crate ignores `max_delay` and `max_pdu_frag`: any value must behave like 0
            let mem = SimpleGseMemory::new(n, sz, (n * 7 + sz) % 5, (n + sz) % 4);
            s.maxpdu = sz;
            s.dec = Some(Decapsulator::new(mem, HCrc { xor: 0 }, m));
            Some(format!("ok | {}", s.fmt_dec()))
        }
        ["dec_new", slots, maxpdu, mgr, k] => {
            let k: u32 = k.parse().ok()?;
            let n: usize = slots.parse().ok()?;
            let sz: usize = maxpdu.parse().ok()?;
            let m = if *mgr == "sig" {
                TableMgr { kind: 1, table: vec![] }
            } else {
                let t = parse_mgr(mgr)?;
                TableMgr { kind: if t.is_empty() { 0 } else { 2 }, table: t }
            };
            // the crate ignores `max_delay` and `max_pdu_frag`: any value must behave like 0
            let mem = SimpleGseMemory::new(n, sz, (n * 7 + sz) % 5, (n + sz) % 4);
            s.maxpdu = sz;
            s.dec = Some(Decapsulator::new(mem, HCrc { xor: k }, m));
            Some(format!("ok | {}", s.fmt_dec()))
        }
        ["prov", len, fill] => {
            let len: usize = len.parse().ok()?;
            let fill: usize = fill.parse().ok()?;
            s.dec.as_ref()?;
            let b = vec![fill as u8; len].into_boxed_slice();
            let id = s.next_id;
            s.next_id += 1;
            if len > 0 {
                s.ids.insert(b.as_ptr() as usize, id);
            }
            let d = s.dec.as_mut()?;
            let r = catch_unwind(AssertUnwindSafe(|| d.provision_storage(b))).map_err(|_| ());
            let ok = matches!(r, Ok(Ok(())));
            let txt = s.fmt_prov(r);
            s.halted = txt.starts_with("panic");
            let txt = if ok { format!("ok {}", id) } else { txt };
            Some(format!("{} | {}", txt, s.fmt_dec()))
        }
        ["reprov", id] => {
            let id: usize = id.parse().ok()?;
            s.dec.as_ref()?;
            let b = s.owned.remove(&id)?;
            let d = s.dec.as_mut()?;
            let r = catch_unwind(AssertUnwindSafe(|| d.provision_storage(b))).map_err(|_| ());
            let ok = matches!(r, Ok(Ok(())));
            let txt = s.fmt_prov(r);
            s.halted = txt.starts_with("panic");
            let txt = if ok { format!("ok {}", id) } else { txt };
            Some(format!("{} | {}", txt, s.fmt_dec()))
        }
        ["dec_reset"] => {
            s.dec.as_mut()?.reset_last_label();
            Some(format!("ok | {}", s.fmt_dec()))
        }
        ["dec_newpdu"] => {
            let d = s.dec.as_mut()?;
            let r = catch_unwind(AssertUnwindSafe(|| d.new_pdu())).map_err(|_| ());
            match r {
                Err(()) => {
                    s.halted = true;
                    Some("panic | -".to_string())
                }
                Ok(Ok(b)) => {
                    let txt = format!("ok {} {}", s.id_of(&b), b.len());
                    s.own(b);
                    Some(format!("{} | {}", txt, s.fmt_dec()))
                }
                Ok(Err(e)) => Some(format!("err {} | {}", s.fmt_mem_err(&e), s.fmt_dec())),
            }
        }
        ["decap", bs] | ["decap_if", bs] => {
            let b = s.parse_bs(bs)?;
            if toks[0] == "decap_if" && b.is_empty() {
                s.dec.as_ref()?;
                return Some("skip | -".to_string());
            }
            let d = s.dec.as_mut()?;
            let r = catch_unwind(AssertUnwindSafe(|| d.decap(&b))).map_err(|_| ());
            let txt = s.take_dec_res(r);
            s.halted = txt.starts_with("panic");
            Some(format!("{} | {}", txt, s.fmt_dec()))
        }
        ["walk", bs] => {
            let b = s.parse_bs(bs)?;
            s.dec.as_ref()?;
            let mut rem: &[u8] = &b;
            let mut acc: Vec<String> = vec![];
            let mut fuel = 100000;
            while !rem.is_empty() {
                if fuel == 0 {
                    acc.push("fuel".to_string());
                    break;
                }
                fuel -= 1;
                let d = s.dec.as_mut()?;
                let r = catch_unwind(AssertUnwindSafe(|| d.decap(rem))).map_err(|_| ());
                let consumed = match &r {
                    Ok(Ok((_, c))) => Some(*c),
                    Ok(Err((_, c))) => Some(*c),
                    Err(()) => None,
                };
                acc.push(s.take_dec_res(r));
                match consumed {
                    None => {
                        s.halted = true;
                        break;
                    }
                    Some(0) => {
                        acc.push("stall".to_string());
                        break;
                    }
                    Some(c) => {
                        rem = &rem[std::cmp::min(c, rem.len())..];
                    }
                }
            }
            Some(format!("{} | {}", acc.join(" ;; "), s.fmt_dec()))
        }
        ["peek", bs] | ["peek_if", bs] => {
            let b = s.parse_bs(bs)?;
            if toks[0] == "peek_if" && b.is_empty() {
                return Some("skip | -".to_string());
            }
            // get_label_or_frag_id is a method: use the session's decapsulator or a scratch one
            let scratch;
            let d: &Dec = match &s.dec {
                Some(d) => d,
                None => {
                    scratch = Decapsulator::new(
                        SimpleGseMemory::new(1, 1, 0, 0),
                        HCrc { xor: 0 },
                        TableMgr { kind: 0, table: vec![] },
                    );
                    &scratch
                }
            };
            let r = catch_unwind(AssertUnwindSafe(|| d.get_label_or_frag_id(&b)));
            Some(match r {
                Ok(Ok(LabelorFragId::FragId(f))) => format!("ok fid {} | -", f),
                Ok(Ok(LabelorFragId::Lbl(l))) => format!("ok lbl {} | -", fmt_label(&l)),
                Ok(Err(GetLabelorFragIdError::ErrLabelReuse)) => "err reuse | -".to_string(),
                Ok(Err(GetLabelorFragIdError::ErrSizeBuffer)) => "err size | -".to_string(),
                Ok(Err(GetLabelorFragIdError::ErrHeaderRead)) => "err header | -".to_string(),
                Ok(Err(GetLabelorFragIdError::ErrorUnkownMandatoryHeader)) => "err mandatory | -".to_string(),
                #[allow(unreachable_patterns)]
                Ok(Err(other)) => format!("err other:{:?} | -", other).replace(' ', "_").replace("_|_-", " | -"),
                Err(_) => {
                    s.halted = true;
                    "panic | -".to_string()
                }
            })
        }
        ["mem_new_frag", fid, pdulen, tl, pt, label] => {
            let fid: usize = fid.parse().ok()?;
            let pl: usize = pdulen.parse().ok()?;
            let tl: usize = tl.parse().ok()?;
            let pt = u16::from_str_radix(pt, 16).ok()?;
            let label = parse_label(label)?;
            if fid > 255 || pl > 65535 || tl > 65535 {
                return None;
            }
            let c = DecapContext::new(label, pt, fid as u8, tl as u16, pl as u16, false, vec![]);
            let d = s.dec.as_mut()?;
            let r = catch_unwind(AssertUnwindSafe(|| d.memory.new_frag(c))).map_err(|_| ());
            Some(s.fmt_held(r))
        }
        ["mem_take", fid] => {
            let fid: usize = fid.parse().ok()?;
            if fid > 255 {
                return None;
            }
            let d = s.dec.as_mut()?;
            let r = catch_unwind(AssertUnwindSafe(|| d.memory.take_frag(fid as u8))).map_err(|_| ());
            Some(s.fmt_held(r))
        }
        ["mem_save", h, fid] => {
            let h: usize = h.parse().ok()?;
            let fid: Option<usize> = if *fid == "-" { None } else { Some(fid.parse().ok()?) };
            s.dec.as_ref()?;
            if !s.held.contains_key(&h) {
                return None;
            }
            let (mut c, b) = s.held.remove(&h)?;
            if let Some(f) = fid {
                if f > 255 {
                    return None;
                }
                c.frag_id = f as u8;
            }
            let d = s.dec.as_mut()?;
            let r = catch_unwind(AssertUnwindSafe(|| d.memory.save_frag((c, b)))).map_err(|_| ());
            Some(match r {
                Err(()) => {
                    s.halted = true;
                    "panic | -".to_string()
                }
                Ok(Ok(())) => format!("ok | {}", s.fmt_dec()),
                Ok(Err(e)) => format!("err {} | {}", s.fmt_mem_err(&e), s.fmt_dec()),
            })
        }
        ["mem_swap", h, len, fill] => {
            // the caller, holding a context taken out of the memory, keeps its storage and puts a fresh one of
            // another length, with the same leading bytes, in its place (what a user of the public trait on the pub
            // `memory` field can do)
            let h: usize = h.parse().ok()?;
            let len: usize = len.parse().ok()?;
            let fill: usize = fill.parse().ok()?;
            s.dec.as_ref()?;
            if !s.held.contains_key(&h) {
                return None;
            }
            let mut b = vec![fill as u8; len].into_boxed_slice();
            let id = s.next_id;
            s.next_id += 1;
            if len > 0 {
                s.ids.insert(b.as_ptr() as usize, id);
            }
            let (c, old) = s.held.remove(&h)?;
            let k = len.min(old.len());
            b[..k].copy_from_slice(&old[..k]);
            s.own(old);
            s.held.insert(h, (c, b));
            Some(format!("ok {} | -", id))
        }
        ["mem_release", h] => {
            let h: usize = h.parse().ok()?;
            s.dec.as_ref()?;
            let (_, b) = s.held.remove(&h)?;
            let id = s.id_of(&b);
            let d = s.dec.as_mut()?;
            let r = catch_unwind(AssertUnwindSafe(|| d.provision_storage(b))).map_err(|_| ());
            let ok = matches!(r, Ok(Ok(())));
            let txt = s.fmt_prov(r);
            s.halted = txt.starts_with("panic");
            let txt = if ok { format!("ok {}", id) } else { txt };
            Some(format!("{} | {}", txt, s.fmt_dec()))
        }
        ["u_gen", "C", gl, pt, label, pdu, buflen] => {
            let gl: u16 = gl.parse().ok()?;
            let pt = u16::from_str_radix(pt, 16).ok()?;
            let label = parse_label(label)?;
            let pdu = s.parse_bs(pdu)?;
            let mut b = vec![0u8; buflen.parse().ok()?];
            let r = catch_unwind(AssertUnwindSafe(|| GseCompletePacket::new(gl, pt, label, &pdu).generate(&mut b)));
            Some(match r {
                Ok(()) => format!("ok {} | -", hex_bytes(&b)),
                Err(_) => "panic | -".to_string(),
            })
        }
        ["u_gen", "F", gl, fid, tl, pt, label, pdu, buflen] => {
            let gl: u16 = gl.parse().ok()?;
            let fid: u8 = fid.parse().ok()?;
            let tl: u16 = tl.parse().ok()?;
            let pt = u16::from_str_radix(pt, 16).ok()?;
            let label = parse_label(label)?;
            let pdu = s.parse_bs(pdu)?;
            let mut b = vec![0u8; buflen.parse().ok()?];
            let r = catch_unwind(AssertUnwindSafe(|| {
                GseFirstFragPacket::new(gl, fid, tl, pt, label, &pdu).generate(&mut b)
            }));
            Some(match r {
                Ok(()) => format!("ok {} | -", hex_bytes(&b)),
                Err(_) => "panic | -".to_string(),
            })
        }
        ["u_gen", "I", gl, fid, pdu, buflen] => {
            let gl: u16 = gl.parse().ok()?;
            let fid: u8 = fid.parse().ok()?;
            let pdu = s.parse_bs(pdu)?;
            let mut b = vec![0u8; buflen.parse().ok()?];
            let r = catch_unwind(AssertUnwindSafe(|| GseIntermediatePacket::new(gl, fid, &pdu).generate(&mut b)));
            Some(match r {
                Ok(()) => format!("ok {} | -", hex_bytes(&b)),
                Err(_) => "panic | -".to_string(),
            })
        }
        ["u_gen", "E", gl, fid, pdu, crc, buflen] => {
            let gl: u16 = gl.parse().ok()?;
            let fid: u8 = fid.parse().ok()?;
            let pdu = s.parse_bs(pdu)?;
            let crc = u32::from_str_radix(crc, 16).ok()?;
            let mut b = vec![0u8; buflen.parse().ok()?];
            let r = catch_unwind(AssertUnwindSafe(|| GseEndFragPacket::new(gl, fid, &pdu, crc).generate(&mut b)));
            Some(match r {
                Ok(()) => format!("ok {} | -", hex_bytes(&b)),
                Err(_) => "panic | -".to_string(),
            })
        }
        ["u_parse", "C", bs] => {
            let b = s.parse_bs(bs)?;
            let r = catch_unwind(|| {
                GseCompletePacket::parse(&b).map(|p| {
                    let d = format!("{:?}", p);
                    d
                })
            });
            Some(fmt_parse(r, "C"))
        }
        ["u_parse", "F", bs] => {
            let b = s.parse_bs(bs)?;
            let r = catch_unwind(|| GseFirstFragPacket::parse(&b).map(|p| format!("{:?}", p)));
            Some(fmt_parse(r, "F"))
        }
        ["u_parse", "I", bs] => {
            let b = s.parse_bs(bs)?;
            let r = catch_unwind(|| GseIntermediatePacket::parse(&b).map(|p| format!("{:?}", p)));
            Some(fmt_parse(r, "I"))
        }
        ["u_parse", "E", bs] => {
            let b = s.parse_bs(bs)?;
            let r = catch_unwind(|| GseEndFragPacket::parse(&b).map(|p| format!("{:?}", p)));
            Some(fmt_parse(r, "E"))
        }
        _ => None,
    }
}

/// The utils structs have private fields and no getters: their derived `Debug` output is the
/// observation.  It is re-printed in the canonical field order.
fn fmt_parse(r: std::thread::Result<Result<String, &'static str>>, kind: &str) -> String {
    match r {
        Err(_) => "panic | -".to_string(),
        Ok(Err(_)) => "err | -".to_string(),
        Ok(Ok(d)) => {
            let num = |key: &str| -> String {
                let k = format!("{}: ", key);
                let i = d.find(&k).map(|i| i + k.len()).unwrap_or(0);
                d[i..].chars().take_while(|c| c.is_ascii_digit()).collect()
            };
            let list = |key: &str| -> Vec<u8> {
                let k = format!("{}: [", key);
                match d.find(&k) {
                    None => vec![],
                    Some(i) => {
                        let rest = &d[i + k.len()..];
                        let e = rest.find(']').unwrap_or(rest.len());
                        rest[..e].split(',').filter_map(|x| x.trim().parse::<u8>().ok()).collect()
                    }
                }
            };
            let label = || -> String {
                let k = "label: ";
                let i = d.find(k).map(|i| i + k.len()).unwrap_or(0);
                let rest = &d[i..];
                let e = rest.find(", pdu").unwrap_or(rest.len());
                parse_debug_opt_label(&format!("Some({})", &rest[..e]))
            };
            let pt = || format!("{:04x}", num("protocol_type").parse::<u32>().unwrap_or(0));
            match kind {
                "C" => format!("ok {} {} {} {} | -", num("gse_len"), pt(), label(), hex_bytes(&list("pdu"))),
                "F" => format!(
                    "ok {} {} {} {} {} {} | -",
                    num("gse_len"),
                    num("frag_id"),
                    num("total_length"),
                    pt(),
                    label(),
                    hex_bytes(&list("pdu"))
                ),
                "I" => format!("ok {} {} {} | -", num("gse_len"), num("frag_id"), hex_bytes(&list("pdu"))),
                _ => format!(
                    "ok {} {} {} {:08x} | -",
                    num("gse_len"),
                    num("frag_id"),
                    hex_bytes(&list("pdu")),
                    num("crc").parse::<u64>().unwrap_or(0)
                ),
            }
        }
    }
}

impl Sess {
    fn fmt_held(&mut self, r: Result<Result<MemoryContext, DecapMemoryError>, ()>) -> String {
        match r {
            Err(()) => {
                self.halted = true;
                "panic | -".to_string()
            }
            Ok(Ok((c, b))) => {
                let h = self.next_handle;
                self.next_handle += 1;
                let txt = format!(
                    "ok h={} ctx={} id={} len={} data={}",
                    h,
                    fmt_ctx(&c),
                    self.id_of(&b),
                    b.len(),
                    digest(&b)
                );
                self.held.insert(h, (c, b));
                format!("{} | {}", txt, self.fmt_dec())
            }
            Ok(Err(e)) => format!("err {} | {}", self.fmt_mem_err(&e), self.fmt_dec()),
        }
    }
}
