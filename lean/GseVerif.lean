import GseVerif.Model.Decap
import GseVerif.Model.Utils
