/-
Line-protocol driver for the model (DESIGN.md §4).  Reads one operation per line on
stdin, runs the *model's* executable definitions, prints one canonical result line per
operation.  The Rust harness (`harness/src/bin/gse_ops.rs`) does the same with the real
crate; `./check` diffs the two streams.  Imports the model only (no Mathlib), so it is
built as a `lean_exe`.
-/
import GseVerif.Model.Decap
import GseVerif.Model.Utils

open Gse

namespace Drv

/-! ### formatting -/

def hexDigit (n : Nat) : Char :=
  if n < 10 then Char.ofNat (48 + n) else Char.ofNat (87 + n)

def hexByte (b : UInt8) : String :=
  let n := b.toNat
  String.ofList [hexDigit (n / 16), hexDigit (n % 16)]

def hexBytes (bs : Bytes) : String :=
  if bs.isEmpty then "-" else
  String.ofList (bs.foldr (fun b acc => hexDigit (b.toNat / 16) :: hexDigit (b.toNat % 16) :: acc) [])

def hexN (width : Nat) (n : Nat) : String :=
  let rec go : Nat → Nat → List Char → List Char
    | 0, _, acc => acc
    | w + 1, n, acc => go w (n / 16) (hexDigit (n % 16) :: acc)
  String.ofList (go width n [])

def fnv (bs : Bytes) : UInt64 :=
  bs.foldl (fun h b => (h ^^^ b.toUInt64) * 0x100000001b3) 0xcbf29ce484222325

def digest (bs : Bytes) : String :=
  s!"{bs.length}:{hexN 16 (fnv bs).toNat}"

def fmtLabel : Label → String
  | .six a b c d e f => "6:" ++ hexBytes [a, b, c, d, e, f]
  | .three a b c => "3:" ++ hexBytes [a, b, c]
  | .broadcast => "B"
  | .reuse => "U"

def fmtOptLabel : Option Label → String
  | none => "-"
  | some l => fmtLabel l

def kindChar : ExtKind → String
  | .data2 => "2" | .data4 => "4" | .data6 => "6" | .data8 => "8" | .noData => "N" | .mandatory => "M"

def fmtExt (e : Ext) : String := kindChar e.kind ++ hexN 4 e.id ++ ":" ++ hexBytes e.data

def fmtExts (es : List Ext) : String :=
  if es.isEmpty then "-" else ",".intercalate (es.map fmtExt)

def fmtKind : PktType → String
  | .complete => "C" | .first => "F" | .inter => "I" | .end_ => "E"

def fmtLt : LabelType → String
  | .six => "6" | .three => "3" | .broadcast => "B" | .reuse => "U"

def fmtEncErr : EncErr → String
  | .sizeBuffer => "SizeBuffer" | .pduLength => "PduLength" | .protocolType => "ProtocolType"
  | .invalidLabel => "InvalidLabel" | .noExtensionFound => "NoExtensionFound"
  | .finalMandatoryExtensionHeader => "FinalMandatoryExtensionHeader"

def fmtMemErr : MemErr → String
  | .storageOverflow s => s!"overflow:{s.id}"
  | .storageUnderflow => "underflow"
  | .undefinedId => "undefined"
  | .bufferTooSmall s => s!"toosmall:{s.id}"
  | .memoryCorrupted => "corrupted"

def fmtDecErr : DecErr → String
  | .sizeBuffer => "SizeBuffer" | .totalLength => "TotalLength" | .gseLength => "GseLength"
  | .sizePduBuffer => "SizePduBuffer" | .protocolType => "ProtocolType"
  | .memory e => "Memory." ++ fmtMemErr e
  | .crc => "Crc" | .invalidLabel => "InvalidLabel" | .noLabelSaved => "NoLabelSaved"
  | .labelBroadcastSaved => "LabelBroadcastSaved" | .labelReUseSaved => "LabelReUseSaved"
  | .unknownMandatoryHeader => "UnkownMandatoryHeader"

def fmtEnc (e : Enc) : String :=
  s!"E {if e.reUse then 1 else 0} {e.reMax} {e.reCur} {fmtOptLabel e.last}"

def fmtCtx (c : Ctx) : String :=
  s!"{c.fragId}/{c.pduLen}/{c.totalLen}/{hexN 4 c.pt}/{fmtLabel c.label}/{if c.fromReuse then 1 else 0}/{fmtExts c.exts}"

def fmtSlot : Option (Ctx × Storage) → String
  | none => "-"
  | some (c, s) => s!"{fmtCtx c}/{s.id}/{s.data.length}/{digest (s.data.take c.pduLen)}"

def fmtMem (m : Mem) : String :=
  let free := ",".intercalate (m.storages.reverse.map (fun s => s!"{s.id}:{s.data.length}"))
  let slots := ",".intercalate (m.frags.map fmtSlot)
  s!"M cap={m.cap} n={m.maxFragId} sz={m.maxPduSize} free=[{free}] slots=[{slots}]"

def fmtDec (d : Dec) : String := s!"D last={fmtOptLabel d.last} {fmtMem d.mem}"

def fmtMeta (m : Meta) : String := s!"{m.pduLen},{hexN 4 m.pt},{fmtLabel m.label},{fmtExts m.exts}"

/-! ### parsing -/

def hexVal (c : Char) : Option Nat :=
  if '0' ≤ c ∧ c ≤ '9' then some (c.toNat - 48)
  else if 'a' ≤ c ∧ c ≤ 'f' then some (c.toNat - 87)
  else if 'A' ≤ c ∧ c ≤ 'F' then some (c.toNat - 55)
  else none

def parseHexBytes (s : String) : Option Bytes :=
  if s = "-" ∨ s = "" then some [] else
  let rec go : List Char → List UInt8 → Option Bytes
    | [], acc => some acc.reverse
    | [_], _ => none
    | a :: b :: rest, acc =>
      match hexVal a, hexVal b with
      | some x, some y => go rest (UInt8.ofNat (x * 16 + y) :: acc)
      | _, _ => none
  go s.toList []

def parseHexNat (s : String) : Option Nat :=
  if s.isEmpty then none else
  s.toList.foldl (fun acc c => match acc, hexVal c with
    | some a, some v => some (a * 16 + v)
    | _, _ => none) (some 0)

/-- splitmix64 byte generator shared with the harness -/
def genBytes (seed len : Nat) : Bytes :=
  let rec go (fuel : Nat) (s : UInt64) (need : Nat) (acc : Array UInt8) : Array UInt8 :=
    match fuel with
    | 0 => acc
    | fuel + 1 =>
      if need = 0 then acc else
      let s := s + 0x9E3779B97F4A7C15
      let z := s
      let z := (z ^^^ (z >>> 30)) * 0xBF58476D1CE4E5B9
      let z := (z ^^^ (z >>> 27)) * 0x94D049BB133111EB
      let z := z ^^^ (z >>> 31)
      let k := min need 8
      let acc := (List.range k).foldl (fun a i => a.push (z >>> (UInt64.ofNat (8 * i))).toUInt8) acc
      go fuel s (need - k) acc
  (go (len / 8 + 1) (UInt64.ofNat seed) len (Array.mkEmpty len)).toList

def parseLabel (s : String) : Option Label :=
  if s = "B" then some .broadcast
  else if s = "U" then some .reuse
  else match s.splitOn ":" with
    | ["6", h] => match parseHexBytes h with
      | some [a, b, c, d, e, f] => some (.six a b c d e f)
      | _ => none
    | ["3", h] => match parseHexBytes h with
      | some [a, b, c] => some (.three a b c)
      | _ => none
    | _ => none

structure Reg where
  data : Bytes
  n : Nat

structure Sess where
  enc : Enc := Enc.new
  dec : Option Dec := none
  mgr : List (Nat × MandExt) := []
  mgrKind : Nat := 0          -- 0 simple, 1 signalisation, 2 table
  regs : List (Nat × Reg) := []
  ctxs : List (Nat × FragCtx) := []
  owned : List (Nat × Storage) := []
  held : List (Nat × (Ctx × Storage)) := []
  nextId : Nat := 0
  nextHandle : Nat := 0
  halted : Bool := false
  encXor : Nat := 0           -- the calculator given to the encapsulator: default CRC xor this constant
  decXor : Nat := 0           -- … and to the decapsulator

/-- the calculator of the harness: the default CRC-32 xor-ed with a constant -/
def xorCrc (k : Nat) : CrcFn := fun pdu pt tl label => (defaultCrc pdu pt tl label) ^^^ k

def Sess.mgrFn (s : Sess) : MgrFn :=
  match s.mgrKind with
  | 0 => simpleMgr
  | 1 => signalisationMgr
  | _ => fun id => match s.mgr.find? (fun e => e.1 = id) with
    | some (_, m) => m
    | none => .unknown

def assocSet {α} (l : List (Nat × α)) (k : Nat) (v : α) : List (Nat × α) :=
  (k, v) :: l.filter (fun e => e.1 ≠ k)

def assocGet {α} (l : List (Nat × α)) (k : Nat) : Option α :=
  (l.find? (fun e => e.1 = k)).map (·.2)

def assocDel {α} (l : List (Nat × α)) (k : Nat) : List (Nat × α) :=
  l.filter (fun e => e.1 ≠ k)

/-- one atom of a byte-source expression -/
def parseAtom (s : Sess) (a : String) : Option Bytes :=
  if a = "-" then some [] else
  match a.splitOn ":" with
  | ["h", h] => parseHexBytes h
  | ["g", seed, len] => match seed.toNat?, len.toNat? with
    | some sd, some n => some (genBytes sd n)
    | _, _ => none
  | ["z", len] => len.toNat?.map (fun n => List.replicate n 0)
  | ["c", b, len] => match b.toNat?, len.toNat? with
    | some v, some n => some (List.replicate n (UInt8.ofNat v))
    | _, _ => none
  | ["r", reg, off, len] => match reg.toNat?, off.toNat?, len.toNat? with
    | some r, some o, some n => (assocGet s.regs r).bind (fun rg => slice rg.data o n)
    | _, _, _ => none
  | ["p", reg] => reg.toNat?.bind (fun r => (assocGet s.regs r).map (fun rg => rg.data.take rg.n))
  | ["R", reg] => reg.toNat?.bind (fun r => (assocGet s.regs r).map (·.data))
  | _ => none

def parseBS (s : Sess) (e : String) : Option Bytes :=
  (e.splitOn "+").foldl (fun acc a => match acc, parseAtom s a with
    | some x, some y => some (x ++ y)
    | _, _ => none) (some [])

def parseCtx (s : Sess) (e : String) : Option FragCtx :=
  match e.splitOn ":" with
  | ["k", reg] => reg.toNat?.bind (assocGet s.ctxs)
  | ["c", fid, crc, pos] => match fid.toNat?, parseHexNat crc, pos.toNat? with
    | some f, some c, some p => some ⟨f, c, p⟩
    | _, _, _ => none
  | _ => none

def parseExts (e : String) : Option (List Ext) :=
  if e = "-" then some [] else
  (e.splitOn ",").foldr (fun item acc => match acc, item.splitOn ":" with
    | some l, [id, h] => match parseHexNat id, parseHexBytes h with
      | some i, some d => match extNew i d with
        | .ok x => some (x :: l)
        | _ => none
      | _, _ => none
    | _, _ => none) (some [])

def parseMgr (e : String) : Option (List (Nat × MandExt)) :=
  if e = "-" then some [] else
  (e.splitOn ",").foldr (fun item acc => match acc, item.splitOn ":" with
    | some l, [id, spec] => match parseHexNat id with
      | some i =>
        match spec.toList with
        | 'F' :: r => (String.ofList r).toNat?.map (fun n => (i, MandExt.final n) :: l)
        | 'N' :: r => (String.ofList r).toNat?.map (fun n => (i, MandExt.nonFinal n) :: l)
        | _ => none
      | none => none
    | _, _ => none) (some [])

/-! ### operations -/

def fmtEncRes (pre : Bytes) (r : Res EncErr EncStatus) (b : Bytes) : String × Nat × Option FragCtx :=
  match r with
  | .ok (.completed n) =>
    (s!"ok C {n} out={hexBytes (b.take n)} rest={digest (b.drop n)} prerest={digest (pre.drop n)}", n, none)
  | .ok (.fragmented n c) =>
    (s!"ok F {n} {c.fragId} {hexN 8 c.crc} {c.pos} out={hexBytes (b.take n)} rest={digest (b.drop n)} prerest={digest (pre.drop n)}", n, some c)
  | .err e => (s!"err {fmtEncErr e} buf={digest b} pre={digest pre}", 0, none)
  | .panic => ("panic", 0, none)

def fmtPreview : Res EncErr Preview → String
  | .ok p => s!"ok {fmtKind p.kind} {p.pduLen} {p.pktLen}"
  | .err e => s!"err {fmtEncErr e}"
  | .panic => "panic"

def fmtDecRes (o : DecOut) : String :=
  match o.res with
  | .ok (.completed st m) =>
    s!"ok C {o.consumed} id={st.id} len={st.data.length} pdu={digest (st.data.take m.pduLen)} tail={digest (st.data.drop m.pduLen)} meta={fmtMeta m}"
  | .ok (.fragmented m) => s!"ok F {o.consumed} meta={fmtMeta m}"
  | .ok .padding => s!"ok P {o.consumed}"
  | .err e => s!"err {fmtDecErr e} {o.consumed}"
  | .panic => "panic"

/-- storages handed to the caller by a decap result -/
def handedOut (o : DecOut) : List Storage :=
  match o.res with
  | .ok (.completed st _) => [st]
  | .err (.memory (.storageOverflow st)) => [st]
  | .err (.memory (.bufferTooSmall st)) => [st]
  | _ => []

def own (s : Sess) (l : List Storage) : Sess :=
  l.foldl (fun s st => { s with owned := assocSet s.owned st.id st }) s

def fmtProv (r : Res MemErr Unit) (id : Nat) : String :=
  match r with
  | .ok () => s!"ok {id}"
  | .err e => s!"err {fmtMemErr e}"
  | .panic => "panic"

def isPanic (out : String) : Bool := out.startsWith "panic"

def doDecap (s : Sess) (d : Dec) (bytes : Bytes) : String × Sess :=
  let o := decap (xorCrc s.decXor) s.mgrFn d bytes
  let s := own { s with dec := some o.st } (handedOut o)
  (fmtDecRes o ++ " | " ++ fmtDec o.st, s)

def doWalk (s : Sess) (d : Dec) (bytes : Bytes) : String × Sess :=
  let rec go (fuel : Nat) (s : Sess) (d : Dec) (rem : Bytes) (acc : List String) : List String × Sess × Dec :=
    match fuel with
    | 0 => (("fuel" :: acc), s, d)
    | fuel + 1 =>
      if rem.isEmpty then (acc, s, d) else
      let o := decap (xorCrc s.decXor) s.mgrFn d rem
      let s := own s (handedOut o)
      let acc := fmtDecRes o :: acc
      match o.res with
      | .panic => (acc, s, o.st)
      | _ =>
        if o.consumed = 0 then ("stall" :: acc, s, o.st)
        else go fuel s o.st (rem.drop o.consumed) acc
  let (acc, s, d) := go 100000 s d bytes []
  (" ;; ".intercalate acc.reverse ++ " | " ++ fmtDec d, { s with dec := some d })

def step (s : Sess) (line : String) : String × Sess :=
  let toks := (line.trimAscii.toString.splitOn " ").filter (· ≠ "")
  match toks with
  | [] => ("", s)
  | "session" :: rest => ("session " ++ " ".intercalate rest, {})
  | _ =>
  if s.halted then ("skipped", s) else
  let bad : String × Sess := ("bad-op", s)
  match toks with
  | ["hdr_gen", k, lt, len] =>
    match k.toNat?, lt.toNat?, len.toNat? with
    | some k, some lt, some len =>
      let kk : Option PktType := match k with | 0 => some .complete | 1 => some .first | 2 => some .inter | 3 => some .end_ | _ => none
      let ll : Option LabelType := match lt with | 0 => some .six | 1 => some .three | 2 => some .broadcast | 3 => some .reuse | _ => none
      match kk, ll with
      | some kk, some ll => (s!"{genHeader kk ll len} | -", s)
      | _, _ => bad
    | _, _, _ => bad
  | ["hdr_read", w] =>
    match w.toNat? with
    | some w =>
      match readHeader w with
      | .ok none => ("none | -", s)
      | .ok (some (len, k, lt)) => (s!"some {len} {fmtKind k} {fmtLt lt} | -", s)
      | _ => ("panic | -", { s with halted := true })
    | none => bad
  | ["crc", pdu, pt, tl, label] =>
    match parseBS s pdu, pt.toNat?, tl.toNat?, parseBS s label with
    | some pdu, some pt, some tl, some label => (s!"{hexN 8 (defaultCrc pdu pt tl label)} | -", s)
    | _, _, _, _ => bad
  | ["fnv", bs] =>
    match parseBS s bs with
    | some b => (s!"{digest b} | -", s)
    | none => bad
  | ["pause", ms] =>
    match ms.toNat? with
    | some _ => ("ok | -", s)
    | none => bad
  | ["setreg", reg, bs] =>
    match reg.toNat?, parseBS s bs with
    | some r, some b => (s!"ok {b.length} | -", { s with regs := assocSet s.regs r ⟨b, b.length⟩ })
    | _, _ => bad
  | ["xorreg", reg, off, hx] =>
    match reg.toNat?, off.toNat?, parseHexBytes hx with
    | some r, some off, some x =>
      match assocGet s.regs r with
      | some rg =>
        match slice rg.data off x.length with
        | some cur =>
          let nw := List.zipWith (· ^^^ ·) cur x
          match blit rg.data off nw with
          | some d => (s!"ok | -", { s with regs := assocSet s.regs r ⟨d, rg.n⟩ })
          | none => bad
        | none => bad
      | none => bad
    | _, _, _ => bad
  | ["setlen", reg, n] =>
    match reg.toNat?, n.toNat? with
    | some r, some n =>
      match assocGet s.regs r with
      | some rg => if n ≤ rg.data.length then ("ok | -", { s with regs := assocSet s.regs r ⟨rg.data, n⟩ }) else bad
      | none => bad
    | _, _ => bad
  | ["ext_new", id, bs] =>
    match parseHexNat id, parseBS s bs with
    | some id, some d =>
      match extNew id d with
      | .ok e => (s!"ok {fmtExt e} {e.len} | -", s)
      | .err .sizeMismatch => ("err size | -", s)
      | .err .incorrectId => ("err id | -", s)
      | .panic => ("panic | -", { s with halted := true })
    | _, _ => bad
  | ["enc_new"] => let e := Enc.new; ("ok | " ++ fmtEnc e, { s with enc := e, encXor := 0 })
  | ["enc_reset"] => let e := s.enc.reset; ("ok | " ++ fmtEnc e, { s with enc := e })
  | ["enc_disable"] => let e := s.enc.disable; ("ok | " ++ fmtEnc e, { s with enc := e })
  | ["enc_enable"] => let e := s.enc.enable; ("ok | " ++ fmtEnc e, { s with enc := e })
  | ["enc_set_crc"] =>
    -- `set_crc_calculator`: replaces the calculator, must leave the re-use state alone
    ("ok | " ++ fmtEnc s.enc, { s with encXor := 0 })
  | ["enc_set_crc", k] =>
    match k.toNat? with
    | some k => if k < 4294967296 then ("ok | " ++ fmtEnc s.enc, { s with encXor := k }) else bad
    | none => bad
  | ["enc_enable_max", n] =>
    match n.toNat? with
    | some n => let e := s.enc.enableMax n; ("ok | " ++ fmtEnc e, { s with enc := e })
    | none => bad
  | ["encap", pdu, fid, pt, label, buf, reg] =>
    match parseBS s pdu, fid.toNat?, parseHexNat pt, parseLabel label, parseBS s buf, reg.toNat? with
    | some pdu, some fid, some pt, some label, some buf, some reg =>
      let o := encap (xorCrc s.encXor) s.enc pdu fid pt label buf
      let (txt, n, ctx) := fmtEncRes buf o.res o.buf
      let s := { s with enc := o.st, regs := assocSet s.regs reg ⟨o.buf, n⟩,
                        ctxs := match ctx with | some c => assocSet s.ctxs reg c | none => assocDel s.ctxs reg,
                        halted := isPanic txt }
      (txt ++ " | " ++ fmtEnc o.st, s)
    | _, _, _, _, _, _ => bad
  | ["encap_ext", pdu, fid, pt, label, buf, reg, exts] =>
    match parseBS s pdu, fid.toNat?, parseHexNat pt, parseLabel label, parseBS s buf, reg.toNat?, parseExts exts with
    | some pdu, some fid, some pt, some label, some buf, some reg, some exts =>
      let o := encapExt (xorCrc s.encXor) s.enc pdu fid pt label buf exts
      let (txt, n, ctx) := fmtEncRes buf o.res o.buf
      let s := { s with enc := o.st, regs := assocSet s.regs reg ⟨o.buf, n⟩,
                        ctxs := match ctx with | some c => assocSet s.ctxs reg c | none => assocDel s.ctxs reg,
                        halted := isPanic txt }
      (txt ++ " | " ++ fmtEnc o.st, s)
    | _, _, _, _, _, _, _ => bad
  | ["encap_frag", pdu, ctx, buf, reg, cout] =>
    match parseBS s pdu, parseCtx s ctx, parseBS s buf, reg.toNat?, cout.toNat? with
    | some pdu, some ctx, some buf, some reg, some cout =>
      let (r, b) := encapFrag pdu ctx buf
      let (txt, n, c) := fmtEncRes buf r b
      -- chain register: advanced on a fragment, erased on completion, kept on error
      let ctxs := match r, c with
        | .ok _, some c => assocSet s.ctxs cout c
        | .ok _, none => assocDel s.ctxs cout
        | _, _ => s.ctxs
      let s := { s with regs := assocSet s.regs reg ⟨b, n⟩, ctxs := ctxs, halted := isPanic txt }
      (txt ++ " | " ++ fmtEnc s.enc, s)
    | _, _, _, _, _ => bad
  | ["preview", pdu, pt, label, buflen] =>
    match parseBS s pdu, parseHexNat pt, parseLabel label, buflen.toNat? with
    | some pdu, some pt, some label, some n =>
      let txt := fmtPreview (encapPreview pdu.length pt label n)
      (txt ++ " | -", { s with halted := isPanic txt })
    | _, _, _, _ => bad
  | ["frag_preview", pdu, ctx, buflen] =>
    match parseBS s pdu, parseCtx s ctx, buflen.toNat? with
    | some pdu, some ctx, some n =>
      let txt := fmtPreview (encapFragPreview pdu.length ctx n)
      (txt ++ " | -", { s with halted := isPanic txt })
    | _, _, _ => bad
  | ["dec_new", slots, maxpdu, mgr] =>
    match slots.toNat?, maxpdu.toNat? with
    | some n, some sz =>
      let d : Dec := ⟨Mem.new n sz, none⟩
      if mgr = "sig" then ("ok | " ++ fmtDec d, { s with dec := some d, mgrKind := 1, mgr := [], decXor := 0 })
      else match parseMgr mgr with
        | some t => ("ok | " ++ fmtDec d, { s with dec := some d, mgrKind := if t.isEmpty then 0 else 2, mgr := t, decXor := 0 })
        | none => bad
    | _, _ => bad
  | ["dec_new", slots, maxpdu, mgr, k] =>
    match slots.toNat?, maxpdu.toNat?, k.toNat? with
    | some n, some sz, some k =>
      if k < 4294967296 then
        let d : Dec := ⟨Mem.new n sz, none⟩
        if mgr = "sig" then ("ok | " ++ fmtDec d, { s with dec := some d, mgrKind := 1, mgr := [], decXor := k })
        else match parseMgr mgr with
          | some t => ("ok | " ++ fmtDec d, { s with dec := some d, mgrKind := if t.isEmpty then 0 else 2, mgr := t, decXor := k })
          | none => bad
      else bad
    | _, _, _ => bad
  | ["prov", len, fill] =>
    match s.dec, len.toNat?, fill.toNat? with
    | some d, some len, some fill =>
      let st : Storage := ⟨s.nextId, List.replicate len (UInt8.ofNat fill)⟩
      let (r, m) := d.mem.provision st
      let d' : Dec := { d with mem := m }
      let s := { s with dec := some d', nextId := s.nextId + 1 }
      let s := match r with | .ok () => s | _ => own s [st]
      (fmtProv r st.id ++ " | " ++ fmtDec d', s)
    | _, _, _ => bad
  | ["reprov", id] =>
    match s.dec, id.toNat? with
    | some d, some id =>
      match assocGet s.owned id with
      | some st =>
        let (r, m) := d.mem.provision st
        let d' : Dec := { d with mem := m }
        let s := { s with dec := some d', owned := assocDel s.owned id }
        let s := match r with | .ok () => s | _ => own s [st]
        (fmtProv r st.id ++ " | " ++ fmtDec d', s)
      | none => bad
    | _, _ => bad
  | ["dec_reset"] =>
    match s.dec with
    | some d => let d' : Dec := { d with last := none }; ("ok | " ++ fmtDec d', { s with dec := some d' })
    | none => bad
  | ["dec_newpdu"] =>
    match s.dec with
    | some d =>
      let (r, m) := d.mem.newPdu
      let d' : Dec := { d with mem := m }
      match r with
      | .ok st => (s!"ok {st.id} {st.data.length} | " ++ fmtDec d', own { s with dec := some d' } [st])
      | .err e => (s!"err {fmtMemErr e} | " ++ fmtDec d', { s with dec := some d' })
      | .panic => ("panic | -", { s with halted := true })
    | none => bad
  | ["decap", bs] =>
    match s.dec, parseBS s bs with
    | some d, some b =>
      let (txt, s) := doDecap s d b
      (txt, { s with halted := isPanic txt })
    | _, _ => bad
  | ["decap_if", bs] =>
    -- lock-step sessions: nothing was produced, nothing is fed
    match s.dec, parseBS s bs with
    | some d, some b =>
      if b.isEmpty then ("skip | -", s) else
      let (txt, s) := doDecap s d b
      (txt, { s with halted := isPanic txt })
    | _, _ => bad
  | ["walk", bs] =>
    match s.dec, parseBS s bs with
    | some d, some b =>
      let (txt, s) := doWalk s d b
      (txt, { s with halted := (txt.splitOn "panic").length > 1 })
    | _, _ => bad
  | ["peek_if", bs] =>
    match parseBS s bs with
    | some b =>
      if b.isEmpty then ("skip | -", s) else
      match peek b with
      | .ok (.fragId f) => (s!"ok fid {f} | -", s)
      | .ok (.lbl l) => (s!"ok lbl {fmtLabel l} | -", s)
      | .err .labelReuse => ("err reuse | -", s)
      | .err .sizeBuffer => ("err size | -", s)
      | .err .headerRead => ("err header | -", s)
      | .err .unknownMandatoryHeader => ("err mandatory | -", s)
      | .panic => ("panic | -", { s with halted := true })
    | none => bad
  | ["peek", bs] =>
    match parseBS s bs with
    | some b =>
      match peek b with
      | .ok (.fragId f) => (s!"ok fid {f} | -", s)
      | .ok (.lbl l) => (s!"ok lbl {fmtLabel l} | -", s)
      | .err .labelReuse => ("err reuse | -", s)
      | .err .sizeBuffer => ("err size | -", s)
      | .err .headerRead => ("err header | -", s)
      | .err .unknownMandatoryHeader => ("err mandatory | -", s)
      | .panic => ("panic | -", { s with halted := true })
    | none => bad
  | ["mem_new_frag", fid, pdulen, tl, pt, label] =>
    match s.dec, fid.toNat?, pdulen.toNat?, tl.toNat?, parseHexNat pt, parseLabel label with
    | some d, some fid, some pl, some tl, some pt, some label =>
      let c : Ctx := ⟨label, pt, fid, tl, pl, false, []⟩
      let (r, m) := d.mem.newFrag c
      let d' : Dec := { d with mem := m }
      match r with
      | .ok (c, st) =>
        let h := s.nextHandle
        (s!"ok h={h} ctx={fmtCtx c} id={st.id} len={st.data.length} data={digest st.data} | " ++ fmtDec d',
          { s with dec := some d', held := assocSet s.held h (c, st), nextHandle := h + 1 })
      | .err e => (s!"err {fmtMemErr e} | " ++ fmtDec d', { s with dec := some d' })
      | .panic => ("panic | -", { s with halted := true })
    | _, _, _, _, _, _ => bad
  | ["mem_take", fid] =>
    match s.dec, fid.toNat? with
    | some d, some fid =>
      let (r, m) := d.mem.takeFrag fid
      let d' : Dec := { d with mem := m }
      match r with
      | .ok (c, st) =>
        let h := s.nextHandle
        (s!"ok h={h} ctx={fmtCtx c} id={st.id} len={st.data.length} data={digest st.data} | " ++ fmtDec d',
          { s with dec := some d', held := assocSet s.held h (c, st), nextHandle := h + 1 })
      | .err e => (s!"err {fmtMemErr e} | " ++ fmtDec d', { s with dec := some d' })
      | .panic => ("panic | -", { s with halted := true })
    | _, _ => bad
  | ["mem_save", h, fid] =>
    match s.dec, h.toNat?, (if fid = "-" then some none else fid.toNat?.map some) with
    | some d, some h, some fid? =>
      match assocGet s.held h with
      | some (c, st) =>
        let c : Ctx := match fid? with | some f => { c with fragId := f } | none => c
        let (r, m) := d.mem.saveFrag (c, st)
        let d' : Dec := { d with mem := m }
        let s := { s with dec := some d', held := assocDel s.held h }
        match r with
        | .ok () => ("ok | " ++ fmtDec d', s)
        | .err e => (s!"err {fmtMemErr e} | " ++ fmtDec d', s)
        | .panic => ("panic | -", { s with halted := true })
      | none => bad
    | _, _, _ => bad
  | ["mem_swap", h, len, fill] =>
    -- the caller keeps the storage of a held context and puts a fresh one of another length in its place
    match s.dec, h.toNat?, len.toNat?, fill.toNat? with
    | some _, some h, some len, some fill =>
      match assocGet s.held h with
      | some (c, old) =>
        let st : Storage := ⟨s.nextId, old.data.take len ++ List.replicate (len - old.data.length) (UInt8.ofNat fill)⟩
        let s := own { s with held := assocSet s.held h (c, st), nextId := s.nextId + 1 } [old]
        (s!"ok {st.id} | -", s)
      | none => bad
    | _, _, _, _ => bad
  | ["mem_release", h] =>
    -- the caller gives the storage of a held context back through provision_storage
    match s.dec, h.toNat? with
    | some d, some h =>
      match assocGet s.held h with
      | some (_, st) =>
        let (r, m) := d.mem.provision st
        let d' : Dec := { d with mem := m }
        let s := { s with dec := some d', held := assocDel s.held h }
        let s := match r with | .ok () => s | _ => own s [st]
        (fmtProv r st.id ++ " | " ++ fmtDec d', s)
      | none => bad
    | _, _ => bad
  | ["u_gen", "C", gl, pt, label, pdu, buflen] =>
    match gl.toNat?, parseHexNat pt, parseLabel label, parseBS s pdu, buflen.toNat? with
    | some gl, some pt, some label, some pdu, some n =>
      match (CompletePkt.mk gl pt label pdu).generate (List.replicate n 0) with
      | some b => (s!"ok {hexBytes b} | -", s)
      | none => ("panic | -", s)
    | _, _, _, _, _ => bad
  | ["u_gen", "F", gl, fid, tl, pt, label, pdu, buflen] =>
    match gl.toNat?, fid.toNat?, tl.toNat?, parseHexNat pt, parseLabel label, parseBS s pdu, buflen.toNat? with
    | some gl, some fid, some tl, some pt, some label, some pdu, some n =>
      match (FirstPkt.mk gl fid tl pt label pdu).generate (List.replicate n 0) with
      | some b => (s!"ok {hexBytes b} | -", s)
      | none => ("panic | -", s)
    | _, _, _, _, _, _, _ => bad
  | ["u_gen", "I", gl, fid, pdu, buflen] =>
    match gl.toNat?, fid.toNat?, parseBS s pdu, buflen.toNat? with
    | some gl, some fid, some pdu, some n =>
      match (InterPkt.mk gl fid pdu).generate (List.replicate n 0) with
      | some b => (s!"ok {hexBytes b} | -", s)
      | none => ("panic | -", s)
    | _, _, _, _ => bad
  | ["u_gen", "E", gl, fid, pdu, crc, buflen] =>
    match gl.toNat?, fid.toNat?, parseBS s pdu, parseHexNat crc, buflen.toNat? with
    | some gl, some fid, some pdu, some crc, some n =>
      match (EndPkt.mk gl fid pdu crc).generate (List.replicate n 0) with
      | some b => (s!"ok {hexBytes b} | -", s)
      | none => ("panic | -", s)
    | _, _, _, _, _ => bad
  | ["u_parse", "C", bs] =>
    match parseBS s bs with
    | some b =>
      match CompletePkt.parse b with
      | .ok p => (s!"ok {p.gseLen} {hexN 4 p.pt} {fmtLabel p.label} {hexBytes p.pdu} | -", s)
      | .err _ => ("err | -", s)
      | .panic => ("panic | -", s)
    | none => bad
  | ["u_parse", "F", bs] =>
    match parseBS s bs with
    | some b =>
      match FirstPkt.parse b with
      | .ok p => (s!"ok {p.gseLen} {p.fragId} {p.totalLen} {hexN 4 p.pt} {fmtLabel p.label} {hexBytes p.pdu} | -", s)
      | .err _ => ("err | -", s)
      | .panic => ("panic | -", s)
    | none => bad
  | ["u_parse", "I", bs] =>
    match parseBS s bs with
    | some b =>
      match InterPkt.parse b with
      | .ok p => (s!"ok {p.gseLen} {p.fragId} {hexBytes p.pdu} | -", s)
      | .err _ => ("err | -", s)
      | .panic => ("panic | -", s)
    | none => bad
  | ["u_parse", "E", bs] =>
    match parseBS s bs with
    | some b =>
      match EndPkt.parse b with
      | .ok p => (s!"ok {p.gseLen} {p.fragId} {hexBytes p.pdu} {hexN 8 p.crc} | -", s)
      | .err _ => ("err | -", s)
      | .panic => ("panic | -", s)
    | none => bad
  | _ => bad

partial def loop (h : IO.FS.Stream) (out : IO.FS.Stream) (s : Sess) : IO Unit := do
  let line ← h.getLine
  if line.isEmpty then return ()
  let t := line.trimAscii.toString
  if t.isEmpty ∨ t.startsWith "#" then
    loop h out s
  else
    let (o, s') := step s line
    out.putStrLn o
    loop h out s'

end Drv

def main : IO Unit := do
  let stdin ← IO.getStdin
  let stdout ← IO.getStdout
  Drv.loop stdin stdout {}
