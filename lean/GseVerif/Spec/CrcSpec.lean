/-
Independent bit-serial specification of CRC-32/MPEG-2, written from the definition of the
algorithm (Rocksoft model: width 32, poly 0x04C11DB7, init 0xFFFFFFFF, refin = refout = false,
xorout = 0) and NOT from the lookup table of `src/crc.rs`.

The register is shifted left one position per message bit; the generator polynomial is
XOR-ed in whenever the bit shifted out differs from the incoming message bit.  Message bytes are
consumed most significant bit first (no reflection); the register is output as is.
-/
import GseVerif.Model.Basic

namespace Gse

/-- Generator polynomial x^32+x^26+x^23+x^22+x^16+x^12+x^11+x^10+x^8+x^7+x^5+x^4+x^2+x+1
(the x^32 term is implicit). -/
def poly : BitVec 32 := 0x04C11DB7

/-- One clock of the CRC register with message bit `b`. -/
def bitStep (r : BitVec 32) (b : Bool) : BitVec 32 :=
  if r.msb ^^ b then (r <<< 1) ^^^ poly else r <<< 1

/-- The eight bits of an octet, most significant first. -/
def byteBits (o : UInt8) : List Bool :=
  [o.toNat.testBit 7, o.toNat.testBit 6, o.toNat.testBit 5, o.toNat.testBit 4,
   o.toNat.testBit 3, o.toNat.testBit 2, o.toNat.testBit 1, o.toNat.testBit 0]

/-- Clock a whole bit string through the register. -/
def crcBits (init : BitVec 32) (bits : List Bool) : BitVec 32 := bits.foldl bitStep init

/-- CRC-32/MPEG-2 of a byte string. -/
def crcMpeg2 (bs : Bytes) : BitVec 32 := crcBits 0xFFFFFFFF (bs.flatMap byteBits)

/-- Published check value of CRC-32/MPEG-2: the CRC of the ASCII string "123456789". -/
example : (crcMpeg2 "123456789".toUTF8.toList).toNat = 0x0376E6E7 := by decide +kernel

/-- The empty message leaves the initial value. -/
example : crcMpeg2 [] = 0xFFFFFFFF := by decide

end Gse
