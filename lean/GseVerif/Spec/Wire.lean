/-
Independent reading of the GSE packet format of ETSI TS 102 606-1 §4.2 (GSE packet structure),
written from the standard and NOT from the encoder or decoder of the crate: no `genHeader`,
`readHeader` or generated constant appears here; the numerals are those of the standard.

    | S | E | LT | GSE Length | Frag ID | Total Length | Protocol Type | Label  | data … | CRC-32 |
      1   1   2       12          8           16              16          0/24/48             32

* S (start), E (end): `11` complete PDU, `10` first fragment, `00` intermediate fragment,
  `01` last fragment.
* LT (label type): `00` 6-byte label, `01` 3-byte label, `10` broadcast (no label),
  `11` label re-use (no label).  `S = 0, E = 0, LT = 00` marks padding: not a packet.
* GSE Length: number of bytes following this field (so the packet has GSE Length + 2 bytes).
* Frag ID: present unless S = 1 and E = 1.
* Total Length: present iff S = 1 and E = 0.
* Protocol Type (or the type of the first extension header) and Label: present iff S = 1.
* CRC-32: the last four bytes, present iff S = 0 and E = 1.

All multi-byte fields are big-endian.  Core Lean only.
-/
import GseVerif.Model.Basic

namespace Gse

/-- The fields of one GSE packet, in the order they are transmitted. -/
structure WirePkt where
  startBit : Bool
  endBit : Bool
  /-- 0 six-byte label, 1 three-byte label, 2 broadcast, 3 re-use -/
  labelType : Nat
  gseLen : Nat
  /-- present iff not (S = 1 ∧ E = 1) -/
  fragId : Option Nat
  /-- present iff S = 1 ∧ E = 0 -/
  totalLen : Option Nat
  /-- protocol type, or id of the first extension header; present iff S = 1 -/
  typeField : Option Nat
  /-- 6 / 3 / 0 / 0 bytes; present iff S = 1 (empty otherwise) -/
  label : Bytes
  /-- everything behind the label: extension headers and PDU bytes of an S = 1 packet, the PDU
  bytes of a continuation packet (without the CRC) -/
  body : Bytes
  /-- the last four bytes; present iff S = 0 ∧ E = 1 -/
  crc : Option Nat
  deriving DecidableEq, Repr

namespace Spec

/-- value of a big-endian byte string -/
def beNat (bs : Bytes) : Nat := bs.foldl (fun acc x => acc * 256 + x.toNat) 0

/-- number of label bytes announced by the LT field -/
def labelBytes : Nat → Nat
  | 0 => 6
  | 1 => 3
  | _ => 0

/-- Read the next field of `n` bytes if it is `present`: `none` if the packet is too short,
otherwise the field (or `none` when it is absent) and the bytes that follow it. -/
def field (present : Bool) (n : Nat) (r : Bytes) : Option (Option Bytes × Bytes) :=
  if present then
    if n ≤ r.length then some (some (r.take n), r.drop n) else none
  else some (none, r)

/-- Split a trailing field of `n` bytes off if it is `present`. -/
def trailer (present : Bool) (n : Nat) (r : Bytes) : Option (Bytes × Option Bytes) :=
  if present then
    if n ≤ r.length then some (r.take (r.length - n), some (r.drop (r.length - n))) else none
  else some (r, none)

/-- The fields behind the first two bytes, given the four fields of those two bytes. -/
def fields (s e : Bool) (lt len : Nat) (r0 : Bytes) : Option WirePkt :=
  if !s && !e && lt == 0 then none          -- padding
  else if r0.length ≠ len then none         -- GSE Length counts exactly the bytes that follow
  else do
    let (fid, r1) ← field (!(s && e)) 1 r0
    let (tl, r2) ← field (s && !e) 2 r1
    let (ty, r3) ← field s 2 r2
    let (lab, r4) ← field s (labelBytes lt) r3
    let (body, crc) ← trailer (!s && e) 4 r4
    pure { startBit := s, endBit := e, labelType := lt, gseLen := len,
           fragId := fid.map beNat, totalLen := tl.map beNat, typeField := ty.map beNat,
           label := lab.getD [], body := body, crc := crc.map beNat }

/-- Parse a byte string that is claimed to be exactly one GSE packet. -/
def parse : Bytes → Option WirePkt
  | h0 :: h1 :: r0 =>
    let w := h0.toNat * 256 + h1.toNat      -- the first 16 bits, big-endian
    fields (w / 32768 % 2 == 1)             -- S  = bit 15
           (w / 16384 % 2 == 1)             -- E  = bit 14
           (w / 4096 % 4)                   -- LT = bits 13..12
           (w % 4096)                       -- GSE Length = bits 11..0
           r0
  | _ => none

/-! Hand-assembled packets (bytes written down from the field layout above). -/

/-- complete PDU, 3-byte label `07 08 09`, protocol type 0x0800, PDU `AA BB`:
S E LT = 1 1 01 → first nibble 0xD, GSE length 2 + 3 + 2 = 7 -/
example : parse [0xD0, 0x07, 0x08, 0x00, 7, 8, 9, 0xAA, 0xBB] =
    some ⟨true, true, 1, 7, none, none, some 0x0800, [7, 8, 9], [0xAA, 0xBB], none⟩ := by decide

/-- first fragment, frag id 5, total length 0x0123, broadcast, protocol type 0x86DD, one byte -/
example : parse [0xA0, 0x06, 5, 0x01, 0x23, 0x86, 0xDD, 0xAA] =
    some ⟨true, false, 2, 6, some 5, some 0x0123, some 0x86DD, [], [0xAA], none⟩ := by decide

/-- intermediate fragment, frag id 5, LT = 11 -/
example : parse [0x30, 0x03, 5, 0xAA, 0xBB] =
    some ⟨false, false, 3, 3, some 5, none, none, [], [0xAA, 0xBB], none⟩ := by decide

/-- last fragment: one PDU byte and the CRC `DE AD BE EF` -/
example : parse [0x70, 0x06, 5, 0xAA, 0xDE, 0xAD, 0xBE, 0xEF] =
    some ⟨false, true, 3, 6, some 5, none, none, [], [0xAA], some 0xDEADBEEF⟩ := by decide

/-- padding, wrong length, truncated fields -/
example : parse [0x00, 0x00] = none := by decide
example : parse [0x0F, 0xFF, 1, 2, 3] = none := by decide
example : parse [0xD0, 0x07, 0x08, 0x00, 7, 8, 9, 0xAA] = none := by decide       -- one byte short
example : parse [0xD0, 0x07, 0x08, 0x00, 7, 8, 9, 0xAA, 0xBB, 0] = none := by decide  -- one too many
example : parse [0xC0, 0x03, 0x08, 0x00, 7] = none := by decide    -- label cut off
example : parse [0x70, 0x03, 5, 0xDE, 0xAD] = none := by decide    -- CRC cut off
example : parse [0xD0] = none := by decide

end Spec

end Gse
