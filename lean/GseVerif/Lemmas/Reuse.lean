/-
Label re-use bookkeeping of the encapsulator (`check_label_re_use`, the configuration setters,
and how `encap` / `encap_ext` thread the state), used by Props/C15.lean.

1. facts about the real model functions `checkLabelReUse`, `encap`, `encapExt`:
   which state a call leaves behind, depending on its outcome;
2. an abstract history machine `SOp` / `sstep` (a call is abstracted to "label passed, ok?"),
   and the bridge from sequences of real calls (`ROp`, `rrun`) to it;
3. ghost bookkeeping computed from the *observable* trace only (operations performed and the
   label each emitted packet carries): `Ghost`, `gstep`, `ghostFrom`, and the invariant `Inv`
   that links it to the encapsulator's fields.

Core Lean only.
-/
import GseVerif.Model.Encap

namespace Gse
open Gen

/-! ## 1. The real functions -/

/-- The label written by a successful `encap` / `encap_ext` call in state `es` for the
requested `label` (the value `check_label_re_use` returns). -/
def emittedLabel (es : Enc) (label : Label) : Label := (checkLabelReUse es label).1

/-- `check_label_re_use` never touches the configuration fields. -/
theorem checkLabelReUse_fields (es : Enc) (l : Label) :
    (checkLabelReUse es l).2.reUse = es.reUse ∧ (checkLabelReUse es l).2.reMax = es.reMax := by
  unfold checkLabelReUse
  repeat' split
  all_goals simp

/-- Restoring `last_label` and `re_current_consecutive` undoes `check_label_re_use`. -/
theorem checkLabelReUse_restore (es : Enc) (l : Label) :
    ({ (checkLabelReUse es l).2 with last := es.last, reCur := es.reCur } : Enc) = es := by
  have h := checkLabelReUse_fields es l
  cases es
  simp_all

/-- The returned label is the requested one or the re-use marker. -/
theorem emittedLabel_cases (es : Enc) (l : Label) :
    emittedLabel es l = l ∨ emittedLabel es l = .reuse := by
  unfold emittedLabel checkLabelReUse
  repeat' split
  all_goals simp

/-- State left behind by a call, by outcome: `es` after an error, `es1` after success;
a panic leaves one of the two. -/
def StShape (es es1 : Enc) (o : EncOut) : Prop :=
  match o.res with
  | .err _ => o.st = es
  | .ok _ => o.st = es1
  | .panic => o.st = es ∨ o.st = es1

theorem encap_shape (crc : CrcFn) (es : Enc) (pdu : Bytes) (fid pt : Nat) (label : Label)
    (buf : Bytes) :
    StShape es (checkLabelReUse es label).2 (encap crc es pdu fid pt label buf) := by
  have hr := checkLabelReUse_restore es label
  unfold encap
  generalize checkLabelReUse es label = p at *
  obtain ⟨lbl, es1⟩ := p
  dsimp only at hr ⊢
  rw [hr]
  repeat' split
  all_goals simp [StShape]

theorem encapExt_shape (crc : CrcFn) (es : Enc) (pdu : Bytes) (fid pt : Nat) (label : Label)
    (buf : Bytes) (exts : List Ext) :
    StShape es (checkLabelReUse es label).2 (encapExt crc es pdu fid pt label buf exts) := by
  have hr := checkLabelReUse_restore es label
  unfold encapExt
  generalize checkLabelReUse es label = p at *
  obtain ⟨lbl, es1⟩ := p
  dsimp only at hr ⊢
  rw [hr]
  repeat' split
  all_goals simp [StShape]

variable {crc : CrcFn} {es : Enc} {pdu : Bytes} {fid pt : Nat} {label : Label} {buf : Bytes}
  {exts : List Ext}

/-- A failing `encap` leaves the encapsulator exactly as it was (early errors return before
`check_label_re_use`; late errors roll `last_label` / the counter back). -/
theorem encap_err_state {e : EncErr} (h : (encap crc es pdu fid pt label buf).res = .err e) :
    (encap crc es pdu fid pt label buf).st = es := by
  have := encap_shape crc es pdu fid pt label buf
  simpa [StShape, h] using this

theorem encap_ok_state {s : EncStatus} (h : (encap crc es pdu fid pt label buf).res = .ok s) :
    (encap crc es pdu fid pt label buf).st = (checkLabelReUse es label).2 := by
  have := encap_shape crc es pdu fid pt label buf
  simpa [StShape, h] using this

theorem encapExt_err_state {e : EncErr}
    (h : (encapExt crc es pdu fid pt label buf exts).res = .err e) :
    (encapExt crc es pdu fid pt label buf exts).st = es := by
  have := encapExt_shape crc es pdu fid pt label buf exts
  simpa [StShape, h] using this

theorem encapExt_ok_state {s : EncStatus}
    (h : (encapExt crc es pdu fid pt label buf exts).res = .ok s) :
    (encapExt crc es pdu fid pt label buf exts).st = (checkLabelReUse es label).2 := by
  have := encapExt_shape crc es pdu fid pt label buf exts
  simpa [StShape, h] using this

/-- The three possible states, whatever the outcome (including a panic). -/
theorem encap_state_cases :
    (encap crc es pdu fid pt label buf).st = es ∨
    (encap crc es pdu fid pt label buf).st = (checkLabelReUse es label).2 := by
  have := encap_shape crc es pdu fid pt label buf
  unfold StShape at this
  split at this <;> simp_all

theorem encapExt_state_cases :
    (encapExt crc es pdu fid pt label buf exts).st = es ∨
    (encapExt crc es pdu fid pt label buf exts).st = (checkLabelReUse es label).2 := by
  have := encapExt_shape crc es pdu fid pt label buf exts
  unfold StShape at this
  split at this <;> simp_all

/-- A successful `encap` passed the early checks. -/
theorem encap_ok_early {s : EncStatus} (h : (encap crc es pdu fid pt label buf).res = .ok s) :
    label ≠ zeroLabel ∧ ¬ (MAX_MANDATORY_VAL_PTYPE ≤ pt ∧ pt < SECOND_RANGE_PTYPE) := by
  unfold encap at h
  split at h
  · simp at h
  · split at h
    · simp at h
    · constructor <;> assumption

/-- What a successful `encap` wrote: a complete or a first-fragment packet whose label-type
bits and label bytes are those of `emittedLabel es label` (nothing else of the label is
written anywhere). -/
theorem encap_ok_written {s : EncStatus} (h : (encap crc es pdu fid pt label buf).res = .ok s) :
    (∃ g payload n, wrSeq buf 0
        [be16 (genHeader .complete (emittedLabel es label).type g), be16 pt,
         (emittedLabel es label).bytes, payload]
        = some ((encap crc es pdu fid pt label buf).buf, n)) ∨
    (∃ g t payload n, wrSeq buf 0
        [be16 (genHeader .first (emittedLabel es label).type g), [u8 fid], be16 t, be16 pt,
         (emittedLabel es label).bytes, payload]
        = some ((encap crc es pdu fid pt label buf).buf, n)) := by
  revert h
  unfold encap emittedLabel
  generalize checkLabelReUse es label = p
  obtain ⟨lbl, es1⟩ := p
  dsimp only
  repeat' split
  all_goals (intro h; simp at h)
  · rename_i heq
    exact Or.inl ⟨_, _, _, heq⟩
  · rename_i heq
    exact Or.inr ⟨_, _, _, _, heq⟩

/-- Same for `encap_ext`: the label-type bits and the label bytes written are those of
`emittedLabel es label`. -/
theorem encapExt_ok_written {s : EncStatus}
    (h : (encapExt crc es pdu fid pt label buf exts).res = .ok s) :
    (∃ g first rest n, wrSeq buf 0
        ([be16 (genHeader .complete (emittedLabel es label).type g)] ++
         ([be16 first, (emittedLabel es label).bytes] ++ rest))
        = some ((encapExt crc es pdu fid pt label buf exts).buf, n)) ∨
    (∃ g t first rest n, wrSeq buf 0
        ([be16 (genHeader .first (emittedLabel es label).type g), [u8 fid], be16 t] ++
         ([be16 first, (emittedLabel es label).bytes] ++ rest))
        = some ((encapExt crc es pdu fid pt label buf exts).buf, n)) := by
  revert h
  unfold encapExt emittedLabel
  generalize checkLabelReUse es label = p
  obtain ⟨lbl, es1⟩ := p
  dsimp only
  repeat' split
  all_goals (intro h; simp at h)
  · rename_i heq
    refine Or.inl ⟨_, _, _, _, ?_⟩
    simpa using heq
  · rename_i heq
    refine Or.inr ⟨_, _, _, _, _, ?_⟩
    simpa using heq

/-! ## 2. Abstract history machine -/

/-- One operation on the encapsulator, seen from the re-use logic: an `encap` / `encap_ext`
call for `label` which succeeded (`ok = true`, one start/complete packet was produced) or
failed (`ok = false`, nothing was produced), or one of the four setters. -/
inductive SOp where
  | send (label : Label) (ok : Bool)
  | reset
  | disable
  | enable
  | enableMax (n : Nat)
  deriving DecidableEq, Repr, Inhabited

/-- New state and the label carried by the packet produced (`none`: no packet). -/
def sstep (es : Enc) : SOp → Enc × Option Label
  | .send l true => ((checkLabelReUse es l).2, some (emittedLabel es l))
  | .send _ false => (es, none)
  | .reset => (es.reset, none)
  | .disable => (es.disable, none)
  | .enable => (es.enable, none)
  | .enableMax n => (es.enableMax n, none)

/-- State after a history. -/
def srun (es : Enc) : List SOp → Enc
  | [] => es
  | op :: ops => srun (sstep es op).1 ops

/-- An operation together with what it put on the wire. -/
abbrev Event := SOp × Option Label

/-- The observable trace of a history. -/
def events (es : Enc) : List SOp → List Event
  | [] => []
  | op :: ops => (op, (sstep es op).2) :: events (sstep es op).1 ops

/-- The labels of the packets produced, in order. -/
def wire (es : Enc) (ops : List SOp) : List Label := (events es ops).filterMap (·.2)

theorem srun_append (es : Enc) (a b : List SOp) : srun es (a ++ b) = srun (srun es a) b := by
  induction a generalizing es with
  | nil => rfl
  | cons op a ih => simp [srun, ih]

theorem events_append (es : Enc) (a b : List SOp) :
    events es (a ++ b) = events es a ++ events (srun es a) b := by
  induction a generalizing es with
  | nil => rfl
  | cons op a ih => simp [srun, events, ih]

theorem wire_append (es : Enc) (a b : List SOp) :
    wire es (a ++ b) = wire es a ++ wire (srun es a) b := by
  simp [wire, events_append]

/-- `true` for `Ok`. -/
def Res.isOk {ε α : Type} : Res ε α → Bool
  | .ok _ => true
  | _ => false

/-- Bridge, `encap`: unless the call panics, the state it leaves is the one `sstep` computes
for "this label, this outcome" — whether the error was an early or a late one. -/
theorem encap_sstep (h : (encap crc es pdu fid pt label buf).res ≠ .panic) :
    (encap crc es pdu fid pt label buf).st =
      (sstep es (.send label (encap crc es pdu fid pt label buf).res.isOk)).1 := by
  have := encap_shape crc es pdu fid pt label buf
  unfold StShape at this
  split at this <;> simp_all [sstep, Res.isOk]

theorem encapExt_sstep (h : (encapExt crc es pdu fid pt label buf exts).res ≠ .panic) :
    (encapExt crc es pdu fid pt label buf exts).st =
      (sstep es (.send label (encapExt crc es pdu fid pt label buf exts).res.isOk)).1 := by
  have := encapExt_shape crc es pdu fid pt label buf exts
  unfold StShape at this
  split at this <;> simp_all [sstep, Res.isOk]

/-- Early errors of `encap`: state unchanged, buffer unchanged, no packet. -/
theorem encap_early (h : label = zeroLabel ∨ (MAX_MANDATORY_VAL_PTYPE ≤ pt ∧ pt < SECOND_RANGE_PTYPE)) :
    (∃ e, (encap crc es pdu fid pt label buf).res = .err e) ∧
    (encap crc es pdu fid pt label buf).st = es ∧
    (encap crc es pdu fid pt label buf).buf = buf := by
  unfold encap
  by_cases h0 : label = zeroLabel
  · simp [h0]
  · have h1 := h.resolve_left h0
    simp only [h0, if_false, h1, and_self, if_true]
    simp

/-- A panicking `encap` (the model keeps the panic branches of the code) has already run
`check_label_re_use`. -/
theorem encap_panic_state (h : (encap crc es pdu fid pt label buf).res = .panic) :
    (encap crc es pdu fid pt label buf).st = (checkLabelReUse es label).2 := by
  have hr := checkLabelReUse_restore es label
  revert h
  unfold encap
  generalize checkLabelReUse es label = p at *
  obtain ⟨lbl, es1⟩ := p
  dsimp only at hr ⊢
  repeat' split
  all_goals simp

/-! ### Sequences of real calls -/

/-- A real operation: the two encapsulation entry points with all their arguments, and the
setters. -/
inductive ROp where
  | encap (pdu : Bytes) (fid pt : Nat) (label : Label) (buf : Bytes)
  | encapExt (pdu : Bytes) (fid pt : Nat) (label : Label) (buf : Bytes) (exts : List Ext)
  | reset
  | disable
  | enable
  | enableMax (n : Nat)

/-- Result of a real operation: `none` if it panicked, else the new encapsulator and the
abstract operation it amounts to. -/
def rstep (crc : CrcFn) (es : Enc) : ROp → Option (Enc × SOp)
  | .encap pdu fid pt label buf =>
    let o := Gse.encap crc es pdu fid pt label buf
    if o.res = .panic then none else some (o.st, .send label o.res.isOk)
  | .encapExt pdu fid pt label buf exts =>
    let o := Gse.encapExt crc es pdu fid pt label buf exts
    if o.res = .panic then none else some (o.st, .send label o.res.isOk)
  | .reset => some (es.reset, .reset)
  | .disable => some (es.disable, .disable)
  | .enable => some (es.enable, .enable)
  | .enableMax n => some (es.enableMax n, .enableMax n)

/-- Run a sequence of real operations (stops with `none` at the first panic). -/
def rrun (crc : CrcFn) (es : Enc) : List ROp → Option (Enc × List SOp)
  | [] => some (es, [])
  | r :: rs =>
    match rstep crc es r with
    | none => none
    | some (es', op) =>
      match rrun crc es' rs with
      | none => none
      | some (es'', ops) => some (es'', op :: ops)

theorem rstep_sstep {crc : CrcFn} {es es' : Enc} {r : ROp} {op : SOp}
    (h : rstep crc es r = some (es', op)) : es' = (sstep es op).1 := by
  cases r with
  | encap pdu fid pt label buf =>
    simp only [rstep] at h
    split at h
    · simp at h
    · rename_i hp
      simp only [Option.some.injEq, Prod.mk.injEq] at h
      rw [← h.1, ← h.2]
      exact encap_sstep hp
  | encapExt pdu fid pt label buf exts =>
    simp only [rstep] at h
    split at h
    · simp at h
    · rename_i hp
      simp only [Option.some.injEq, Prod.mk.injEq] at h
      rw [← h.1, ← h.2]
      exact encapExt_sstep hp
  | reset => simp only [rstep, Option.some.injEq, Prod.mk.injEq] at h; rw [← h.1, ← h.2]; rfl
  | disable => simp only [rstep, Option.some.injEq, Prod.mk.injEq] at h; rw [← h.1, ← h.2]; rfl
  | enable => simp only [rstep, Option.some.injEq, Prod.mk.injEq] at h; rw [← h.1, ← h.2]; rfl
  | enableMax n => simp only [rstep, Option.some.injEq, Prod.mk.injEq] at h; rw [← h.1, ← h.2]; rfl

/-- Bridge for whole histories: any panic-free sequence of real calls (succeeding or failing,
any arguments) drives the encapsulator exactly as the abstract machine run on the abstracted
history. -/
theorem rrun_srun {crc : CrcFn} {es es' : Enc} {rs : List ROp} {ops : List SOp}
    (h : rrun crc es rs = some (es', ops)) : es' = srun es ops ∧ ops.length = rs.length := by
  induction rs generalizing es ops with
  | nil => simp [rrun] at h; simp [← h.1, ← h.2, srun]
  | cons r rs ih =>
    simp only [rrun] at h
    split at h
    · simp at h
    · rename_i es1 op h1
      split at h
      · simp at h
      · rename_i es2 ops2 h2
        simp only [Option.some.injEq, Prod.mk.injEq] at h
        have := ih h2
        rw [← h.1, ← h.2, srun, ← rstep_sstep h1]
        simp [this]

/-! ## 3. Ghost bookkeeping on the observable trace -/

/-- a 3- or 6-byte label -/
def Label.isAddr : Label → Bool
  | .six .. => true
  | .three .. => true
  | _ => false

/-- Ghost state, a function of the trace only (never reads the encapsulator):
* `enabled`, `max`: the configuration in force (last setter called; initially enabled, no maximum);
* `run`: number of *substituted* packets (marker emitted although the caller passed another
  label) since the later of the last packet that carried a full label (3/6-byte or broadcast)
  and the last configuration call (`disable`, `enable`, `enableMax`);
* `carried`: the label carried by the immediately preceding packet, re-use markers resolved to
  what they stand for; `none` after a broadcast packet (which carries no label) and initially;
* `prev`: like `carried` but additionally forgotten at `reset` and `disable` — the label a
  re-use marker may legitimately refer to. -/
structure Ghost where
  enabled : Bool
  max : Nat
  run : Nat
  prev : Option Label
  carried : Option Label
  deriving DecidableEq, Repr, Inhabited

/-- Ghost state of a fresh encapsulator. -/
def Ghost.init : Ghost := ⟨true, 0, 0, none, none⟩

/-- Ghost update by one event (operation, label emitted). -/
def gstep (g : Ghost) : SOp → Option Label → Ghost
  | .send passed _, some .reuse => if passed = .reuse then g else { g with run := g.run + 1 }
  | .send _ _, some .broadcast => { g with run := 0, prev := none, carried := none }
  | .send _ _, some l => { g with run := 0, prev := some l, carried := some l }
  | .send _ _, none => g
  | .reset, _ => { g with prev := none }
  | .disable, _ => { g with enabled := false, max := 0, run := 0, prev := none }
  | .enable, _ => { g with enabled := true, max := 0, run := 0 }
  | .enableMax n, _ => { g with enabled := true, max := n, run := 0 }

/-- Ghost state after a trace. -/
def ghostFrom (g : Ghost) : List Event → Ghost
  | [] => g
  | e :: es => ghostFrom (gstep g e.1 e.2) es

theorem ghostFrom_append (g : Ghost) (a b : List Event) :
    ghostFrom g (a ++ b) = ghostFrom (ghostFrom g a) b := by
  induction a generalizing g with
  | nil => rfl
  | cons e a ih => simp [ghostFrom, ih]

/-- `prev` is always covered by `carried` (so a statement about `prev` is the stronger one). -/
theorem gstep_prev_carried {g : Ghost} (h : ∀ l, g.prev = some l → g.carried = some l)
    (op : SOp) (em : Option Label) :
    ∀ l, (gstep g op em).prev = some l → (gstep g op em).carried = some l := by
  cases op with
  | send p ok =>
    cases em with
    | none => simpa [gstep] using h
    | some e =>
      cases e <;> simp only [gstep] <;> (try split) <;> simp_all
  | reset => simp [gstep]
  | disable => simp [gstep]
  | enable => simpa [gstep] using h
  | enableMax n => simpa [gstep] using h

/-- The link between the encapsulator's fields and the ghost state of the trace so far. -/
structure Inv (es : Enc) (g : Ghost) : Prop where
  enabled : es.reUse = g.enabled
  max : es.reMax = g.max
  cur_le : es.reCur ≤ es.reMax
  run_le : 0 < es.reMax → g.run ≤ es.reCur
  last_prev : ∀ l, es.last = some l → g.prev = some l
  prev_addr : ∀ l, g.prev = some l → l.isAddr = true
  prev_carried : ∀ l, g.prev = some l → g.carried = some l
  off_last : es.reUse = false → es.last = none

theorem Inv.init : Inv Enc.new Ghost.init := by
  constructor <;> simp [Enc.new, Ghost.init]

/-- The invariant is preserved by every operation. -/
theorem Inv.step {es : Enc} {g : Ghost} (h : Inv es g) (op : SOp) :
    Inv (sstep es op).1 (gstep g op (sstep es op).2) := by
  obtain ⟨h1, h2, h3, h4, h5, h6, h7, h8⟩ := h
  cases op with
  | send l ok =>
    cases ok with
    | false => exact ⟨h1, h2, h3, h4, h5, h6, h7, h8⟩
    | true =>
      have hl : ∀ x, es.last = some x → x.isAddr = true := fun x hx => h6 x (h5 x hx)
      cases l with
      | reuse =>
        have hne : ¬ (some Label.reuse = es.last) := by
          intro hc; have := hl _ hc.symm; simp [Label.isAddr] at this
        constructor <;>
          simp only [sstep, emittedLabel, checkLabelReUse, hne, false_and, if_false] <;>
          split <;> simp_all [gstep]
      | broadcast =>
        have hne : ¬ (some Label.broadcast = es.last) := by
          intro hc; have := hl _ hc.symm; simp [Label.isAddr] at this
        constructor <;>
          simp only [sstep, emittedLabel, checkLabelReUse, hne, false_and, if_false] <;>
          split <;> simp_all [gstep]
      | three a b c =>
        constructor <;>
          simp only [sstep, emittedLabel, checkLabelReUse] <;>
          (repeat' split) <;> simp_all [gstep, Label.isAddr] <;> omega
      | six a b c d e f =>
        constructor <;>
          simp only [sstep, emittedLabel, checkLabelReUse] <;>
          (repeat' split) <;> simp_all [gstep, Label.isAddr] <;> omega
  | reset => constructor <;> simp_all [sstep, gstep, Enc.reset]
  | disable => constructor <;> simp_all [sstep, gstep, Enc.disable]
  | enable => constructor <;> simp_all [sstep, gstep, Enc.enable]
  | enableMax n => constructor <;> simp_all [sstep, gstep, Enc.enableMax]

/-- … hence by every history. -/
theorem Inv.run {es : Enc} {g : Ghost} (h : Inv es g) (ops : List SOp) :
    Inv (srun es ops) (ghostFrom g (events es ops)) := by
  induction ops generalizing es g with
  | nil => exact h
  | cons op ops ih => exact ih (h.step op)

end Gse
