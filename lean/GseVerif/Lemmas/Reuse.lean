/-
Label re-use bookkeeping of the encapsulator (`check_label_re_use`, the configuration setters,
and how `encap` / `encap_ext` thread the state), used by Props/C15.lean.

1. facts about the real model functions `checkLabelReUse`, `encap`, `encapExt`:
   which state a call leaves behind, depending on its outcome;
2. an abstract history machine `SOp` / `sstep` (a call is abstracted to "label passed, ok?"),
   and the bridge from sequences of real calls (`ROp`, `rrun`) to it;
3. ghost bookkeeping computed from the *observable* trace only (operations performed and the
   label each emitted packet carries): `Ghost`, `gstep`, `ghostFrom`, and the invariant `Inv`
   that links it to the encapsulator's fields.

Core Lean only.
-/
import GseVerif.Model.Encap

namespace Gse
open Gen

/-! ## 1. The real functions -/

/-- The label written by a successful `encap` / `encap_ext` call in state `es` for the
requested `label` (the value `check_label_re_use` returns). -/
def emittedLabel (es : Enc) (label : Label) : Label := (checkLabelReUse es label).1

/-- `check_label_re_use` never touches the configuration fields. -/
theorem checkLabelReUse_fields (es : Enc) (l : Label) :
    (checkLabelReUse es l).2.reUse = es.reUse ∧ (checkLabelReUse es l).2.reMax = es.reMax := by
  unfold checkLabelReUse
  repeat' split
  all_goals simp

/-- Restoring `last_label` and `re_current_consecutive` undoes `check_label_re_use`. -/
theorem checkLabelReUse_restore (es : Enc) (l : Label) :
    ({ (checkLabelReUse es l).2 with last := es.last, reCur := es.reCur } : Enc) = es := by
  have h := checkLabelReUse_fields es l
  cases es
  simp_all

/-- The returned label is the requested one or the re-use marker. -/
theorem emittedLabel_cases (es : Enc) (l : Label) :
    emittedLabel es l = l ∨ emittedLabel es l = .reuse := by
  unfold emittedLabel checkLabelReUse
  repeat' split
  all_goals simp

/-- State left behind by a call, by outcome: `es` after an error, `es1` after success;
a panic leaves one of the two. -/
def StShape (es es1 : Enc) (o : EncOut) : Prop :=
  match o.res with
  | .err _ => o.st = es
  | .ok _ => o.st = es1
  | .panic => o.st = es ∨ o.st = es1

theorem encap_shape (crc : CrcFn) (es : Enc) (pdu : Bytes) (fid pt : Nat) (label : Label)
    (buf : Bytes) :
    StShape es (checkLabelReUse es label).2 (encap crc es pdu fid pt label buf) := by
  have hr := checkLabelReUse_restore es label
  unfold encap
  generalize checkLabelReUse es label = p at *
  obtain ⟨lbl, es1⟩ := p
  dsimp only at hr ⊢
  rw [hr]
  repeat' split
  all_goals simp [StShape]

theorem encapExt_shape (crc : CrcFn) (es : Enc) (pdu : Bytes) (fid pt : Nat) (label : Label)
    (buf : Bytes) (exts : List Ext) :
    StShape es (checkLabelReUse es label).2 (encapExt crc es pdu fid pt label buf exts) := by
  have hr := checkLabelReUse_restore es label
  fun_cases encapExt crc es pdu fid pt label buf exts
  all_goals simp_all [StShape]
  all_goals exact hr

variable {crc : CrcFn} {es : Enc} {pdu : Bytes} {fid pt : Nat} {label : Label} {buf : Bytes}
  {exts : List Ext}

/-- A failing `encap` leaves the encapsulator exactly as it was (early errors return before
`check_label_re_use`; late errors roll `last_label` / the counter back). -/
theorem encap_err_state {e : EncErr} (h : (encap crc es pdu fid pt label buf).res = .err e) :
    (encap crc es pdu fid pt label buf).st = es := by
  have := encap_shape crc es pdu fid pt label buf
  simpa [StShape, h] using this

theorem encap_ok_state {s : EncStatus} (h : (encap crc es pdu fid pt label buf).res = .ok s) :
    (encap crc es pdu fid pt label buf).st = (checkLabelReUse es label).2 := by
  have := encap_shape crc es pdu fid pt label buf
  simpa [StShape, h] using this

theorem encapExt_err_state {e : EncErr}
    (h : (encapExt crc es pdu fid pt label buf exts).res = .err e) :
    (encapExt crc es pdu fid pt label buf exts).st = es := by
  have := encapExt_shape crc es pdu fid pt label buf exts
  simpa [StShape, h] using this

theorem encapExt_ok_state {s : EncStatus}
    (h : (encapExt crc es pdu fid pt label buf exts).res = .ok s) :
    (encapExt crc es pdu fid pt label buf exts).st = (checkLabelReUse es label).2 := by
  have := encapExt_shape crc es pdu fid pt label buf exts
  simpa [StShape, h] using this

/-- The three possible states, whatever the outcome (including a panic). -/
theorem encap_state_cases :
    (encap crc es pdu fid pt label buf).st = es ∨
    (encap crc es pdu fid pt label buf).st = (checkLabelReUse es label).2 := by
  have := encap_shape crc es pdu fid pt label buf
  unfold StShape at this
  split at this <;> simp_all

theorem encapExt_state_cases :
    (encapExt crc es pdu fid pt label buf exts).st = es ∨
    (encapExt crc es pdu fid pt label buf exts).st = (checkLabelReUse es label).2 := by
  have := encapExt_shape crc es pdu fid pt label buf exts
  unfold StShape at this
  split at this <;> simp_all

/-- A successful `encap` passed the early checks. -/
theorem encap_ok_early {s : EncStatus} (h : (encap crc es pdu fid pt label buf).res = .ok s) :
    label ≠ zeroLabel ∧ ¬ (MAX_MANDATORY_VAL_PTYPE ≤ pt ∧ pt < SECOND_RANGE_PTYPE) := by
  unfold encap at h
  split at h
  · simp at h
  · split at h
    · simp at h
    · constructor <;> assumption

/-- What a successful `encap` wrote: a complete or a first-fragment packet whose label-type
bits and label bytes are those of `emittedLabel es label` (nothing else of the label is
written anywhere). -/
theorem encap_ok_written {s : EncStatus} (h : (encap crc es pdu fid pt label buf).res = .ok s) :
    (∃ g payload n, wrSeq buf 0
        [be16 (genHeader .complete (emittedLabel es label).type g), be16 pt,
         (emittedLabel es label).bytes, payload]
        = some ((encap crc es pdu fid pt label buf).buf, n)) ∨
    (∃ g t payload n, wrSeq buf 0
        [be16 (genHeader .first (emittedLabel es label).type g), [u8 fid], be16 t, be16 pt,
         (emittedLabel es label).bytes, payload]
        = some ((encap crc es pdu fid pt label buf).buf, n)) := by
  revert h
  unfold encap emittedLabel
  generalize checkLabelReUse es label = p
  obtain ⟨lbl, es1⟩ := p
  dsimp only
  repeat' split
  all_goals (intro h; simp at h)
  · rename_i heq
    exact Or.inl ⟨_, _, _, heq⟩
  · rename_i heq
    exact Or.inr ⟨_, _, _, _, heq⟩

/-- Same for `encap_ext`: the label-type bits and the label bytes written are those of
`emittedLabel es label`. -/
theorem encapExt_ok_written {s : EncStatus}
    (h : (encapExt crc es pdu fid pt label buf exts).res = .ok s) :
    (∃ g first rest n, wrSeq buf 0
        (be16 (genHeader .complete (emittedLabel es label).type g) ::
         be16 first :: (emittedLabel es label).bytes :: rest)
        = some ((encapExt crc es pdu fid pt label buf exts).buf, n)) ∨
    (∃ g t first rest n, wrSeq buf 0
        (be16 (genHeader .first (emittedLabel es label).type g) :: [u8 fid] :: be16 t ::
         be16 first :: (emittedLabel es label).bytes :: rest)
        = some ((encapExt crc es pdu fid pt label buf exts).buf, n)) := by
  revert h
  unfold emittedLabel
  fun_cases encapExt crc es pdu fid pt label buf exts
  all_goals (intro h; simp at h)
  · have hcl := ‹checkLabelReUse es label = _›
    have hw := ‹wrSeq buf 0 _ = some _›
    rw [hcl]
    exact Or.inl ⟨_, _, _, _, hw⟩
  · have hcl := ‹checkLabelReUse es label = _›
    have hw := ‹wrSeq buf 0 _ = some _›
    rw [hcl]
    exact Or.inr ⟨_, _, _, _, _, hw⟩

/-! ## 2. Abstract history machine -/

/-- One operation on the encapsulator, seen from the re-use logic: an `encap` / `encap_ext`
call for `label` which succeeded (`ok = true`, one start/complete packet was produced) or
failed (`ok = false`, nothing was produced), or one of the four setters. -/
inductive SOp where
  | send (label : Label) (ok : Bool)
  | reset
  | disable
  | enable
  | enableMax (n : Nat)
  deriving DecidableEq, Repr, Inhabited

/-- New state and the label carried by the packet produced (`none`: no packet). -/
def sstep (es : Enc) : SOp → Enc × Option Label
  | .send l true => ((checkLabelReUse es l).2, some (emittedLabel es l))
  | .send _ false => (es, none)
  | .reset => (es.reset, none)
  | .disable => (es.disable, none)
  | .enable => (es.enable, none)
  | .enableMax n => (es.enableMax n, none)

/-- State after a history. -/
def srun (es : Enc) : List SOp → Enc
  | [] => es
  | op :: ops => srun (sstep es op).1 ops

/-- An operation together with what it put on the wire. -/
abbrev Event := SOp × Option Label

/-- The observable trace of a history. -/
def events (es : Enc) : List SOp → List Event
  | [] => []
  | op :: ops => (op, (sstep es op).2) :: events (sstep es op).1 ops

/-- The labels of the packets produced, in order. -/
def wire (es : Enc) (ops : List SOp) : List Label := (events es ops).filterMap (·.2)

theorem srun_append (es : Enc) (a b : List SOp) : srun es (a ++ b) = srun (srun es a) b := by
  induction a generalizing es with
  | nil => rfl
  | cons op a ih => simp [srun, ih]

theorem events_append (es : Enc) (a b : List SOp) :
    events es (a ++ b) = events es a ++ events (srun es a) b := by
  induction a generalizing es with
  | nil => rfl
  | cons op a ih => simp [srun, events, ih]

theorem wire_append (es : Enc) (a b : List SOp) :
    wire es (a ++ b) = wire es a ++ wire (srun es a) b := by
  simp [wire, events_append]

/-- `true` for `Ok`. -/
def Res.isOk {ε α : Type} : Res ε α → Bool
  | .ok _ => true
  | _ => false

/-- Bridge, `encap`: unless the call panics, the state it leaves is the one `sstep` computes
for "this label, this outcome" — whether the error was an early or a late one. -/
theorem encap_sstep (h : (encap crc es pdu fid pt label buf).res ≠ .panic) :
    (encap crc es pdu fid pt label buf).st =
      (sstep es (.send label (encap crc es pdu fid pt label buf).res.isOk)).1 := by
  have := encap_shape crc es pdu fid pt label buf
  unfold StShape at this
  split at this <;> simp_all [sstep, Res.isOk]

theorem encapExt_sstep (h : (encapExt crc es pdu fid pt label buf exts).res ≠ .panic) :
    (encapExt crc es pdu fid pt label buf exts).st =
      (sstep es (.send label (encapExt crc es pdu fid pt label buf exts).res.isOk)).1 := by
  have := encapExt_shape crc es pdu fid pt label buf exts
  unfold StShape at this
  split at this <;> simp_all [sstep, Res.isOk]

/-- Early errors of `encap`: state unchanged, buffer unchanged, no packet. -/
theorem encap_early (h : label = zeroLabel ∨ (MAX_MANDATORY_VAL_PTYPE ≤ pt ∧ pt < SECOND_RANGE_PTYPE)) :
    (∃ e, (encap crc es pdu fid pt label buf).res = .err e) ∧
    (encap crc es pdu fid pt label buf).st = es ∧
    (encap crc es pdu fid pt label buf).buf = buf := by
  unfold encap
  by_cases h0 : label = zeroLabel
  · simp [h0]
  · have h1 := h.resolve_left h0
    simp only [h0, if_false, h1, and_self, if_true]
    simp

/-- A panicking `encap` (the model keeps the panic branches of the code) has already run
`check_label_re_use`. -/
theorem encap_panic_state (h : (encap crc es pdu fid pt label buf).res = .panic) :
    (encap crc es pdu fid pt label buf).st = (checkLabelReUse es label).2 := by
  have hr := checkLabelReUse_restore es label
  revert h
  unfold encap
  generalize checkLabelReUse es label = p at *
  obtain ⟨lbl, es1⟩ := p
  dsimp only at hr ⊢
  repeat' split
  all_goals simp

/-! ### Sequences of real calls -/

/-- A real operation: the two encapsulation entry points with all their arguments, and the
setters. -/
inductive ROp where
  | encap (pdu : Bytes) (fid pt : Nat) (label : Label) (buf : Bytes)
  | encapExt (pdu : Bytes) (fid pt : Nat) (label : Label) (buf : Bytes) (exts : List Ext)
  | reset
  | disable
  | enable
  | enableMax (n : Nat)

/-- Result of a real operation: `none` if it panicked, else the new encapsulator and the
abstract operation it amounts to. -/
def rstep (crc : CrcFn) (es : Enc) : ROp → Option (Enc × SOp)
  | .encap pdu fid pt label buf =>
    let o := Gse.encap crc es pdu fid pt label buf
    if o.res = .panic then none else some (o.st, .send label o.res.isOk)
  | .encapExt pdu fid pt label buf exts =>
    let o := Gse.encapExt crc es pdu fid pt label buf exts
    if o.res = .panic then none else some (o.st, .send label o.res.isOk)
  | .reset => some (es.reset, .reset)
  | .disable => some (es.disable, .disable)
  | .enable => some (es.enable, .enable)
  | .enableMax n => some (es.enableMax n, .enableMax n)

/-- Run a sequence of real operations (stops with `none` at the first panic). -/
def rrun (crc : CrcFn) (es : Enc) : List ROp → Option (Enc × List SOp)
  | [] => some (es, [])
  | r :: rs =>
    match rstep crc es r with
    | none => none
    | some (es', op) =>
      match rrun crc es' rs with
      | none => none
      | some (es'', ops) => some (es'', op :: ops)

theorem rstep_sstep {crc : CrcFn} {es es' : Enc} {r : ROp} {op : SOp}
    (h : rstep crc es r = some (es', op)) : es' = (sstep es op).1 := by
  cases r with
  | encap pdu fid pt label buf =>
    simp only [rstep] at h
    split at h
    · simp at h
    · rename_i hp
      simp only [Option.some.injEq, Prod.mk.injEq] at h
      rw [← h.1, ← h.2]
      exact encap_sstep hp
  | encapExt pdu fid pt label buf exts =>
    simp only [rstep] at h
    split at h
    · simp at h
    · rename_i hp
      simp only [Option.some.injEq, Prod.mk.injEq] at h
      rw [← h.1, ← h.2]
      exact encapExt_sstep hp
  | reset => simp only [rstep, Option.some.injEq, Prod.mk.injEq] at h; rw [← h.1, ← h.2]; rfl
  | disable => simp only [rstep, Option.some.injEq, Prod.mk.injEq] at h; rw [← h.1, ← h.2]; rfl
  | enable => simp only [rstep, Option.some.injEq, Prod.mk.injEq] at h; rw [← h.1, ← h.2]; rfl
  | enableMax n => simp only [rstep, Option.some.injEq, Prod.mk.injEq] at h; rw [← h.1, ← h.2]; rfl

/-- Bridge for whole histories: any panic-free sequence of real calls (succeeding or failing,
any arguments) drives the encapsulator exactly as the abstract machine run on the abstracted
history. -/
theorem rrun_srun {crc : CrcFn} {es es' : Enc} {rs : List ROp} {ops : List SOp}
    (h : rrun crc es rs = some (es', ops)) : es' = srun es ops ∧ ops.length = rs.length := by
  induction rs generalizing es es' ops with
  | nil =>
    simp only [rrun, Option.some.injEq, Prod.mk.injEq] at h
    obtain ⟨rfl, rfl⟩ := h
    exact ⟨rfl, rfl⟩
  | cons r rs ih =>
    simp only [rrun] at h
    split at h
    · simp at h
    · rename_i es1 op h1
      split at h
      · simp at h
      · rename_i es2 ops2 h2
        simp only [Option.some.injEq, Prod.mk.injEq] at h
        obtain ⟨rfl, rfl⟩ := h
        have := ih h2
        rw [srun, ← rstep_sstep h1]
        simp [this]

/-! ## 3. Ghost bookkeeping on the observable trace -/

/-- a 3- or 6-byte label -/
def Label.isAddr : Label → Bool
  | .six .. => true
  | .three .. => true
  | _ => false

/-- `last_label` after a packet carrying the full label `l` was accepted. -/
def newLast (old : Option Label) (l : Label) : Option Label :=
  if l = .broadcast then none else if l ≠ .reuse then some l else old

/-- Complete case analysis of `check_label_re_use`. -/
theorem checkLabelReUse_spec (es : Enc) (l : Label) :
    (es.reUse = true ∧ es.last = some l ∧ es.reMax = 0 ∧
      checkLabelReUse es l = (.reuse, es)) ∨
    (es.reUse = true ∧ es.last = some l ∧ es.reCur < es.reMax ∧
      checkLabelReUse es l = (.reuse, { es with reCur := es.reCur + 1 })) ∨
    (es.reUse = true ∧ es.last = some l ∧ 0 < es.reMax ∧ es.reMax ≤ es.reCur ∧
      checkLabelReUse es l = (l, { es with reCur := 0, last := newLast es.last l })) ∨
    (es.reUse = true ∧ es.last ≠ some l ∧
      checkLabelReUse es l = (l, { es with last := newLast es.last l })) ∨
    (es.reUse = false ∧ checkLabelReUse es l = (l, es)) := by
  obtain ⟨u, m, c, last⟩ := es
  unfold checkLabelReUse newLast
  dsimp only
  cases u with
  | false => simp
  | true =>
    by_cases hl : last = some l
    · subst hl
      by_cases h0 : m = 0
      · simp [h0]
      · by_cases hc : c < m
        · simp [h0, hc]
        · have h1 : 0 < m := by omega
          have h2 : m ≤ c := by omega
          simp only [true_and, if_true, h0, hc, and_false, if_false, h1, h2]
          cases l <;> simp
    · have hl' : ¬ (some l = last) := fun h => hl h.symm
      simp only [true_and, if_true, hl', false_and, if_false, hl]
      cases l <;> simp [hl]

/-- Ghost state, a function of the trace only (never reads the encapsulator):
* `enabled`, `max`: the configuration in force (last setter called; initially enabled, no maximum);
* `run`: number of *substituted* packets (marker emitted although the caller passed another
  label) since the later of the last packet that carried a full label (3/6-byte or broadcast)
  and the last configuration call (`disable`, `enable`, `enableMax`);
* `carried`: the label carried by the immediately preceding packet, re-use markers resolved to
  what they stand for; `none` after a broadcast packet (which carries no label) and initially;
* `prev`: like `carried` but additionally forgotten at `reset` and `disable` — the label a
  re-use marker may legitimately refer to. -/
structure Ghost where
  enabled : Bool
  max : Nat
  run : Nat
  prev : Option Label
  carried : Option Label
  deriving DecidableEq, Repr, Inhabited

/-- Ghost state of a fresh encapsulator. -/
def Ghost.init : Ghost := ⟨true, 0, 0, none, none⟩

/-- Ghost update by one event (operation, label emitted). -/
def gstep (g : Ghost) : SOp → Option Label → Ghost
  | .send passed _, some .reuse => if passed = .reuse then g else { g with run := g.run + 1 }
  | .send _ _, some .broadcast => { g with run := 0, prev := none, carried := none }
  | .send _ _, some l => { g with run := 0, prev := some l, carried := some l }
  | .send _ _, none => g
  | .reset, _ => { g with prev := none }
  | .disable, _ => { g with enabled := false, max := 0, run := 0, prev := none }
  | .enable, _ => { g with enabled := true, max := 0, run := 0 }
  | .enableMax n, _ => { g with enabled := true, max := n, run := 0 }

/-- Ghost state after a trace. -/
def ghostFrom (g : Ghost) : List Event → Ghost
  | [] => g
  | e :: es => ghostFrom (gstep g e.1 e.2) es

theorem ghostFrom_append (g : Ghost) (a b : List Event) :
    ghostFrom g (a ++ b) = ghostFrom (ghostFrom g a) b := by
  induction a generalizing g with
  | nil => rfl
  | cons e a ih => simp [ghostFrom, ih]

theorem gstep_reuse_subst (g : Ghost) {p : Label} (ok : Bool) (h : p ≠ .reuse) :
    gstep g (.send p ok) (some .reuse) = { g with run := g.run + 1 } := by
  simp [gstep, h]

theorem gstep_reuse_expl (g : Ghost) (ok : Bool) :
    gstep g (.send .reuse ok) (some .reuse) = g := by
  simp [gstep]

theorem gstep_bcast (g : Ghost) (p : Label) (ok : Bool) :
    gstep g (.send p ok) (some .broadcast) = { g with run := 0, prev := none, carried := none } := by
  simp [gstep]

theorem gstep_addr (g : Ghost) (p : Label) (ok : Bool) {l : Label} (h : l.isAddr = true) :
    gstep g (.send p ok) (some l) = { g with run := 0, prev := some l, carried := some l } := by
  cases l <;> simp_all [gstep, Label.isAddr]

/-- `prev` is always covered by `carried` (so a statement about `prev` is the stronger one). -/
theorem gstep_prev_carried {g : Ghost} (h : ∀ l, g.prev = some l → g.carried = some l)
    (op : SOp) (em : Option Label) :
    ∀ l, (gstep g op em).prev = some l → (gstep g op em).carried = some l := by
  cases op with
  | send p ok =>
    cases em with
    | none => simpa [gstep] using h
    | some e =>
      cases e <;> simp only [gstep] <;> (try split) <;> simp_all
  | reset => simp [gstep]
  | disable => simp [gstep]
  | enable => simpa [gstep] using h
  | enableMax n => simpa [gstep] using h

/-- The link between the encapsulator's fields and the ghost state of the trace so far. -/
structure Inv (es : Enc) (g : Ghost) : Prop where
  enabled : es.reUse = g.enabled
  max : es.reMax = g.max
  cur_le : es.reCur ≤ es.reMax
  run_le : 0 < es.reMax → g.run ≤ es.reCur
  last_prev : ∀ l, es.last = some l → g.prev = some l
  prev_addr : ∀ l, g.prev = some l → l.isAddr = true
  prev_carried : ∀ l, g.prev = some l → g.carried = some l
  off_last : es.reUse = false → es.last = none

theorem Inv.init : Inv Enc.new Ghost.init := by
  constructor <;> simp [Enc.new, Ghost.init]

/-- The invariant is preserved by every operation. -/
theorem Inv.step {es : Enc} {g : Ghost} (h : Inv es g) (op : SOp) :
    Inv (sstep es op).1 (gstep g op (sstep es op).2) := by
  obtain ⟨h1, h2, h3, h4, h5, h6, h7, h8⟩ := h
  cases op with
  | send l ok =>
    cases ok with
    | false => exact ⟨h1, h2, h3, h4, h5, h6, h7, h8⟩
    | true =>
      have hl : ∀ x, es.last = some x → x.isAddr = true := fun x hx => h6 x (h5 x hx)
      rcases checkLabelReUse_spec es l with ⟨hu, hlast, hm, heq⟩ | ⟨hu, hlast, hc, heq⟩ |
        ⟨hu, hlast, hm, hc, heq⟩ | ⟨hu, hne, heq⟩ | ⟨hu, heq⟩
      · -- substituted, no maximum
        have ha := hl l hlast
        have hr : l ≠ .reuse := by intro hc; subst hc; simp [Label.isAddr] at ha
        simp only [sstep, emittedLabel, heq, gstep_reuse_subst g true hr]
        exact ⟨h1, h2, h3, fun hp => by omega, h5, h6, h7, h8⟩
      · -- substituted, counter below the maximum
        have ha := hl l hlast
        have hr : l ≠ .reuse := by intro hc; subst hc; simp [Label.isAddr] at ha
        simp only [sstep, emittedLabel, heq, gstep_reuse_subst g true hr]
        exact ⟨h1, h2, hc, fun hp => Nat.succ_le_succ (h4 hp), h5, h6, h7, h8⟩
      · -- maximum reached: full label, counter restarts
        have ha := hl l hlast
        have hnl : newLast es.last l = some l := by
          cases l <;> simp_all [newLast, Label.isAddr]
        simp only [sstep, emittedLabel, heq, gstep_addr g l true ha, hnl]
        refine ⟨h1, h2, Nat.zero_le _, fun _ => Nat.le_refl _, ?_, ?_, ?_, ?_⟩
        · intro x hx; simpa using hx
        · intro x hx; simp only [Option.some.injEq] at hx; subst hx; exact ha
        · intro x hx; simpa using hx
        · intro hf; simp only at hf; rw [hu] at hf; cases hf
      · -- different label (or nothing remembered): full label
        simp only [sstep, emittedLabel, heq]
        cases l with
        | reuse =>
          rw [gstep_reuse_expl]
          exact ⟨h1, h2, h3, h4, by simpa [newLast] using h5, h6, h7,
            by simpa [newLast] using h8⟩
        | broadcast =>
          rw [gstep_bcast]
          refine ⟨h1, h2, h3, fun _ => Nat.zero_le _, ?_, ?_, ?_, ?_⟩ <;> simp [newLast]
        | three a b c =>
          rw [gstep_addr g _ true (by rfl)]
          refine ⟨h1, h2, h3, fun _ => Nat.zero_le _, ?_, ?_, ?_, ?_⟩
          · simp [newLast]
          · intro x hx; simp only [Option.some.injEq] at hx; subst hx; rfl
          · simp
          · intro hf; simp only at hf; rw [hu] at hf; cases hf
        | six a b c d e f =>
          rw [gstep_addr g _ true (by rfl)]
          refine ⟨h1, h2, h3, fun _ => Nat.zero_le _, ?_, ?_, ?_, ?_⟩
          · simp [newLast]
          · intro x hx; simp only [Option.some.injEq] at hx; subst hx; rfl
          · simp
          · intro hf; simp only at hf; rw [hu] at hf; cases hf
      · -- re-use disabled: nothing is remembered
        have hn := h8 hu
        simp only [sstep, emittedLabel, heq]
        have h5' : ∀ (p : Option Label) (x : Label), es.last = some x → p = some x := by
          intro p x hx; rw [hn] at hx; cases hx
        cases l with
        | reuse => rw [gstep_reuse_expl]; exact ⟨h1, h2, h3, h4, h5, h6, h7, h8⟩
        | broadcast =>
          rw [gstep_bcast]
          exact ⟨h1, h2, h3, fun _ => Nat.zero_le _, h5' _, by simp, by simp, h8⟩
        | three a b c =>
          rw [gstep_addr g _ true (by rfl)]
          refine ⟨h1, h2, h3, fun _ => Nat.zero_le _, h5' _, ?_, by simp, h8⟩
          intro x hx; simp only [Option.some.injEq] at hx; subst hx; rfl
        | six a b c d e f =>
          rw [gstep_addr g _ true (by rfl)]
          refine ⟨h1, h2, h3, fun _ => Nat.zero_le _, h5' _, ?_, by simp, h8⟩
          intro x hx; simp only [Option.some.injEq] at hx; subst hx; rfl
  | reset => constructor <;> simp_all [sstep, gstep, Enc.reset]
  | disable => constructor <;> simp_all [sstep, gstep, Enc.disable]
  | enable => constructor <;> simp_all [sstep, gstep, Enc.enable]
  | enableMax n => constructor <;> simp_all [sstep, gstep, Enc.enableMax]

/-- … hence by every history. -/
theorem Inv.run {es : Enc} {g : Ghost} (h : Inv es g) (ops : List SOp) :
    Inv (srun es ops) (ghostFrom g (events es ops)) := by
  induction ops generalizing es g with
  | nil => exact h
  | cons op ops ih => exact ih (h.step op)

/-! ### Consequences used by C15 -/

/-- While nothing is remembered the requested label is written as it is. -/
theorem emittedLabel_of_last_none {es : Enc} (h : es.last = none) (l : Label) :
    emittedLabel es l = l := by
  unfold emittedLabel
  rcases checkLabelReUse_spec es l with ⟨_, hl, _⟩ | ⟨_, hl, _⟩ | ⟨_, _, _, _, heq⟩ | ⟨_, _, heq⟩ |
    ⟨_, heq⟩
  · rw [h] at hl; cases hl
  · rw [h] at hl; cases hl
  · rw [heq]
  · rw [heq]
  · rw [heq]

/-- While re-use is disabled the requested label is written as it is. -/
theorem emittedLabel_of_disabled {es : Enc} (h : es.reUse = false) (l : Label) :
    emittedLabel es l = l := by
  unfold emittedLabel
  rcases checkLabelReUse_spec es l with ⟨hu, _⟩ | ⟨hu, _⟩ | ⟨hu, _⟩ | ⟨hu, _⟩ | ⟨_, heq⟩
  · rw [h] at hu; cases hu
  · rw [h] at hu; cases hu
  · rw [h] at hu; cases hu
  · rw [h] at hu; cases hu
  · rw [heq]

/-- A marker is substituted only for the remembered label, with re-use enabled. -/
theorem emittedLabel_reuse {es : Enc} {l : Label} (h : emittedLabel es l = .reuse)
    (hne : l ≠ .reuse) : es.reUse = true ∧ es.last = some l ∧ (es.reMax = 0 ∨ es.reCur < es.reMax) := by
  unfold emittedLabel at h
  rcases checkLabelReUse_spec es l with ⟨hu, hl, hm, _⟩ | ⟨hu, hl, hc, _⟩ | ⟨_, _, _, _, heq⟩ |
    ⟨_, _, heq⟩ | ⟨_, heq⟩
  · exact ⟨hu, hl, Or.inl hm⟩
  · exact ⟨hu, hl, Or.inr hc⟩
  · rw [heq] at h; exact absurd h hne
  · rw [heq] at h; exact absurd h hne
  · rw [heq] at h; exact absurd h hne

/-- The operation enables re-use. -/
def SOp.enables : SOp → Bool
  | .enable => true
  | .enableMax _ => true
  | _ => false

theorem reUse_false_step {es : Enc} (h : es.reUse = false) {op : SOp} (hq : op.enables = false) :
    (sstep es op).1.reUse = false := by
  cases op with
  | send l ok =>
    cases ok
    · exact h
    · simp only [sstep]; rw [(checkLabelReUse_fields es l).1]; exact h
  | reset => exact h
  | disable => rfl
  | enable => cases hq
  | enableMax n => cases hq

theorem reUse_false_run {es : Enc} (h : es.reUse = false) {ops : List SOp}
    (hq : ∀ op ∈ ops, op.enables = false) : (srun es ops).reUse = false := by
  induction ops generalizing es with
  | nil => exact h
  | cons op ops ih =>
    exact ih (reUse_false_step h (hq op (List.mem_cons_self ..)))
      (fun o ho => hq o (List.mem_cons_of_mem _ ho))

/-- The operation produces no packet for a requested 3- or 6-byte label (failed calls,
setters, successful broadcast / explicit re-use packets). -/
def SOp.quiet : SOp → Bool
  | .send l true => !l.isAddr
  | _ => true

theorem last_none_step {es : Enc} (h : es.last = none) {op : SOp} (hq : op.quiet = true) :
    (sstep es op).1.last = none := by
  cases op with
  | send l ok =>
    cases ok
    · exact h
    · simp only [sstep]
      rcases checkLabelReUse_spec es l with ⟨_, hl, _⟩ | ⟨_, hl, _⟩ | ⟨_, hl, _⟩ | ⟨_, _, heq⟩ |
        ⟨_, heq⟩
      · rw [h] at hl; cases hl
      · rw [h] at hl; cases hl
      · rw [h] at hl; cases hl
      · rw [heq]
        cases l <;> simp_all [newLast, SOp.quiet, Label.isAddr]
      · rw [heq]; exact h
  | reset => rfl
  | disable => rfl
  | enable => exact h
  | enableMax n => exact h

theorem last_none_run {es : Enc} (h : es.last = none) {ops : List SOp}
    (hq : ∀ op ∈ ops, op.quiet = true) : (srun es ops).last = none := by
  induction ops generalizing es with
  | nil => exact h
  | cons op ops ih =>
    exact ih (last_none_step h (hq op (List.mem_cons_self ..)))
      (fun o ho => hq o (List.mem_cons_of_mem _ ho))

/-- The packet is a *substituted* one: the marker is on the wire although the caller passed
another label. -/
def Event.isSubst : Event → Bool
  | (.send p _, some .reuse) => p != .reuse
  | _ => false

/-- The event ends a run of substituted packets: a packet carrying a full label (3/6-byte
or broadcast), or a configuration call. -/
def Event.endsRun : Event → Bool
  | (.send _ _, some l) => l != .reuse
  | (.disable, _) => true
  | (.enable, _) => true
  | (.enableMax _, _) => true
  | _ => false

theorem gstep_run_window (g : Ghost) (e : Event) (h : e.endsRun = false) :
    (gstep g e.1 e.2).run = g.run + (if e.isSubst then 1 else 0) ∧
    (gstep g e.1 e.2).max = g.max := by
  obtain ⟨op, em⟩ := e
  cases op with
  | send p ok =>
    cases em with
    | none => simp [gstep, Event.isSubst]
    | some l =>
      cases l with
      | reuse =>
        by_cases hp : p = .reuse
        · simp [gstep, Event.isSubst, hp]
        · simp [gstep, Event.isSubst, hp]
      | broadcast => simp [Event.endsRun] at h
      | three a b c => simp [Event.endsRun] at h
      | six a b c d e f => simp [Event.endsRun] at h
  | reset => simp [gstep, Event.isSubst]
  | disable => simp [Event.endsRun] at h
  | enable => simp [Event.endsRun] at h
  | enableMax n => simp [Event.endsRun] at h

/-- Over a stretch of the trace without full-label packet and without configuration call,
`run` grows by exactly the number of substituted packets (failed calls, `reset` and
explicit re-use packets are transparent). -/
theorem ghostFrom_run_window (g : Ghost) (evs : List Event)
    (h : ∀ e ∈ evs, e.endsRun = false) :
    (ghostFrom g evs).run = g.run + evs.countP Event.isSubst ∧ (ghostFrom g evs).max = g.max := by
  induction evs generalizing g with
  | nil => simp [ghostFrom]
  | cons e evs ih =>
    have he := gstep_run_window g e (h e (List.mem_cons_self ..))
    have := ih (gstep g e.1 e.2) (fun x hx => h x (List.mem_cons_of_mem _ hx))
    simp only [ghostFrom, List.countP_cons]
    rw [this.1, this.2, he.1, he.2]
    exact ⟨by omega, rfl⟩

/-- After an emitted broadcast packet nothing is remembered. -/
theorem last_none_after_broadcast {es : Enc} {g : Ghost} (hI : Inv es g) {p : Label}
    (h : emittedLabel es p = .broadcast) : (checkLabelReUse es p).2.last = none := by
  have hp : p = .broadcast := by
    rcases emittedLabel_cases es p with h1 | h1
    · rw [← h1, h]
    · rw [h1] at h; cases h
  subst hp
  unfold emittedLabel at h
  rcases checkLabelReUse_spec es .broadcast with ⟨_, _, _, heq⟩ | ⟨_, _, _, heq⟩ |
    ⟨_, _, _, _, heq⟩ | ⟨_, _, heq⟩ | ⟨hu, heq⟩
  · rw [heq] at h; cases h
  · rw [heq] at h; cases h
  · rw [heq]; simp [newLast]
  · rw [heq]; simp [newLast]
  · rw [heq]; exact hI.off_last hu

/-- The counter moves by at most one, and only below the maximum. -/
theorem checkLabelReUse_incr (es : Enc) (l : Label) :
    (checkLabelReUse es l).2.reCur ≤ es.reCur + 1 ∧
    ((checkLabelReUse es l).2.reCur = es.reCur + 1 → es.reCur < es.reMax) := by
  rcases checkLabelReUse_spec es l with ⟨_, _, _, heq⟩ | ⟨_, _, hc, heq⟩ |
    ⟨_, _, _, _, heq⟩ | ⟨_, _, heq⟩ | ⟨hu, heq⟩ <;> rw [heq] <;> simp <;> omega

/-- The configured maximum is one of the values passed to `enableMax` (or 0). -/
theorem reMax_le_run {es : Enc} {B : Nat} (h : es.reMax ≤ B) {ops : List SOp}
    (hn : ∀ n, SOp.enableMax n ∈ ops → n ≤ B) : (srun es ops).reMax ≤ B := by
  induction ops generalizing es with
  | nil => exact h
  | cons op ops ih =>
    refine ih ?_ (fun n hn' => hn n (List.mem_cons_of_mem _ hn'))
    cases op with
    | send l ok =>
      cases ok
      · exact h
      · simp only [sstep]; rw [(checkLabelReUse_fields es l).2]; exact h
    | reset => exact h
    | disable => exact Nat.zero_le _
    | enable => exact Nat.zero_le _
    | enableMax n => exact hn n (List.mem_cons_self ..)

/-! ### Histories from a fresh encapsulator -/

/-- Encapsulator after the history `h`, starting from `Encapsulator::new`. -/
def stateAfter (h : List SOp) : Enc := srun Enc.new h

/-- Ghost state of the trace of `h`. -/
def ghostAfter (h : List SOp) : Ghost := ghostFrom Ghost.init (events Enc.new h)

/-- Label on the wire if, after `h`, a call for `l` succeeds. -/
def emitAfter (h : List SOp) (l : Label) : Label := emittedLabel (stateAfter h) l

theorem inv_after (h : List SOp) : Inv (stateAfter h) (ghostAfter h) := Inv.init.run h

theorem stateAfter_append (a b : List SOp) : stateAfter (a ++ b) = srun (stateAfter a) b :=
  srun_append _ _ _

theorem ghostAfter_append (a b : List SOp) :
    ghostAfter (a ++ b) = ghostFrom (ghostAfter a) (events (stateAfter a) b) := by
  simp [ghostAfter, stateAfter, events_append, ghostFrom_append]

theorem sstep_send_true (es : Enc) (l : Label) :
    (sstep es (.send l true)).2 = some (emittedLabel es l) := rfl

end Gse
