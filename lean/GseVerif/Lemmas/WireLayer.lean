/-
Wire layer: the independent grammar `Spec.parse` (Spec/Wire.lean) applied to the byte strings
that `encap`, `encap_frag` and `encap_ext` write (closed forms of Lemmas/EncapLayer.lean).

* `specBits_genHeader`: for a length `≤ 4095` the S / E / LT / length bit fields that the
  standard defines on the 16-bit word are the ones `generate_gse_header` was asked to encode;
* `parse_complete`, `parse_first`, `parse_inter`, `parse_end`: `Spec.parse` on the four packet
  layouts, for arbitrary label bytes and body (so the same lemmas serve packets with extensions);
* `emitted_prefix`: a result buffer `pkt ++ buf.drop n` has the old length, starts with `pkt` and
  is unchanged from offset `n` on;
* `Emitted buf buf' n p` ("the call wrote the packet `p` of `n` bytes at the start of `buf`") and
  `encap_wire`, `encapFrag_wire`, `encapExt_wire`: every `Ok` result of the three calls is
  `Emitted` with a packet whose fields are given in terms of the arguments (Props/C06.lean).

Core Lean only.
-/
import GseVerif.Lemmas.Header
import GseVerif.Lemmas.EncapLayer
import GseVerif.Spec.Wire

namespace Gse
open Gen

/-! ### The bit fields of the fixed header -/

/-- S bit of a packet kind (ETSI TS 102 606-1 §4.2.1) -/
def PktType.sBit : PktType → Bool
  | .complete => true
  | .first => true
  | .inter => false
  | .end_ => false

/-- E bit of a packet kind -/
def PktType.eBit : PktType → Bool
  | .complete => true
  | .first => false
  | .inter => false
  | .end_ => true

/-- LT code of a label type: `00` 6 bytes, `01` 3 bytes, `10` broadcast, `11` re-use -/
def LabelType.code : LabelType → Nat
  | .six => 0
  | .three => 1
  | .broadcast => 2
  | .reuse => 3

/-- the three masked fields of `generate_gse_header` do not overlap: the word is their sum -/
theorem genHeader_eq_add (k : PktType) (lt : LabelType) (len : Nat) (h : len ≤ 4095) :
    genHeader k lt len
      = (if k.sBit then 32768 else 0) + (if k.eBit then 16384 else 0) + lt.code * 4096 + len := by
  have h1 : len &&& GSE_LEN_MASK = len := by rw [and_len_mask]; omega
  unfold genHeader
  rw [h1]
  have key : ∀ c, c % 4096 = 0 → c ||| len = c + len := by
    intro c hc
    have : c = 2 ^ 12 * (c / 4096) := by omega
    rw [this]
    exact (Nat.two_pow_add_eq_or_of_lt (i := 12) (by omega) _).symm
  cases k <;> cases lt <;>
    simp [startEndBits, labelTypeBits, PktType.sBit, PktType.eBit, LabelType.code] <;>
    exact key _ rfl

/-- The bit fields of the standard, read off the word by plain arithmetic, are the arguments of
`generate_gse_header` (for a GSE length that fits 12 bits). -/
theorem specBits_genHeader (k : PktType) (lt : LabelType) (len : Nat) (h : len ≤ 4095) :
    (genHeader k lt len / 32768 % 2 == 1) = k.sBit ∧
    (genHeader k lt len / 16384 % 2 == 1) = k.eBit ∧
    genHeader k lt len / 4096 % 4 = lt.code ∧
    genHeader k lt len % 4096 = len := by
  rw [genHeader_eq_add k lt len h]
  cases k <;> cases lt <;> simp [PktType.sBit, PktType.eBit, LabelType.code] <;> omega

example : genHeader .first .three 4095 = 0x9FFF := by decide
/-- the bound is needed: a 13-bit length is silently truncated by the mask -/
example : genHeader .first .three 4096 % 4096 ≠ 4096 := by decide

/-- number of label bytes the standard assigns to the LT code = `LabelType::len` -/
theorem labelBytes_code (lt : LabelType) : Spec.labelBytes lt.code = lt.len := by
  cases lt <;> rfl

theorem Label.bytes_length_code (l : Label) : l.bytes.length = Spec.labelBytes l.type.code := by
  cases l <;> rfl

/-! ### The field readers of the grammar on concatenations -/

theorem field_present (x r : Bytes) {n : Nat} (hn : x.length = n) :
    Spec.field true n (x ++ r) = some (some x, r) := by
  subst hn
  simp [Spec.field]

theorem field_absent (n : Nat) (r : Bytes) : Spec.field false n r = some (none, r) := rfl

theorem trailer_present (x t : Bytes) {n : Nat} (ht : t.length = n) :
    Spec.trailer true n (x ++ t) = some (x, some t) := by
  subst ht
  simp [Spec.trailer]

theorem trailer_absent (n : Nat) (r : Bytes) : Spec.trailer false n r = some (r, none) := rfl

theorem beNat_u8 (n : Nat) : Spec.beNat [u8 n] = n % 256 := by
  simp [Spec.beNat, u8_toNat]

theorem beNat_be16 (n : Nat) : Spec.beNat (be16 n) = n % 65536 := by
  simp only [Spec.beNat, be16, List.foldl_cons, List.foldl_nil, u8_toNat]; omega

theorem beNat_be32 (n : Nat) : Spec.beNat (be32 n) = n % 4294967296 := by
  simp only [Spec.beNat, be32, List.foldl_cons, List.foldl_nil, u8_toNat]; omega

/-- the first two bytes are read back as the word that was serialised -/
theorem parse_be16 (w : Nat) (hw : w < 65536) (rest : Bytes) :
    Spec.parse (be16 w ++ rest)
      = Spec.fields (w / 32768 % 2 == 1) (w / 16384 % 2 == 1) (w / 4096 % 4) (w % 4096) rest := by
  have hword : (u8 (w / 256)).toNat * 256 + (u8 w).toNat = w := by
    simp only [u8_toNat]; omega
  show Spec.parse (u8 (w / 256) :: u8 w :: rest) = _
  simp only [Spec.parse, hword]

/-- a packet that starts with a header from `generate_gse_header` is read with the fields the
header was built from -/
theorem parse_genHeader (k : PktType) (lt : LabelType) (len : Nat) (h : len ≤ 4095) (rest : Bytes) :
    Spec.parse (be16 (genHeader k lt len) ++ rest) = Spec.fields k.sBit k.eBit lt.code len rest := by
  obtain ⟨h1, h2, h3, h4⟩ := specBits_genHeader k lt len h
  rw [parse_be16 _ (genHeader_lt k lt len), h1, h2, h3, h4]

/-! ### The four packet layouts -/

/-- S = 1, E = 1: protocol type (or first extension id), label, body -/
theorem fields_complete (c len ty : Nat) (lab body : Bytes) (hc : lab.length = Spec.labelBytes c)
    (hlen : 2 + lab.length + body.length = len) :
    Spec.fields true true c len (be16 ty ++ (lab ++ body))
      = some ⟨true, true, c, len, none, none, some (ty % 65536), lab, body, none⟩ := by
  unfold Spec.fields
  have hl : (be16 ty ++ (lab ++ body)).length = len := by
    simp only [List.length_append, be16_length]; omega
  simp only [Bool.not_true, Bool.false_and, Bool.and_true, Bool.and_false, Bool.and_self,
    Bool.false_eq_true, ↓reduceIte, hl, ne_eq, not_true_eq_false, field_absent,
    Option.bind_eq_bind, Option.bind_some]
  simp only [field_present (be16 ty) (lab ++ body) (be16_length ty), Option.bind_some,
    field_present lab body hc, trailer_absent, Option.map_none, Option.map_some, beNat_be16,
    Option.getD_some, Option.pure_def]

/-- S = 1, E = 0: frag id, total length, protocol type (or first extension id), label, body -/
theorem fields_first (c len fid tl ty : Nat) (lab body : Bytes)
    (hc : lab.length = Spec.labelBytes c) (hlen : 1 + 2 + 2 + lab.length + body.length = len) :
    Spec.fields true false c len ([u8 fid] ++ (be16 tl ++ (be16 ty ++ (lab ++ body))))
      = some ⟨true, false, c, len, some (fid % 256), some (tl % 65536), some (ty % 65536), lab, body,
          none⟩ := by
  unfold Spec.fields
  have hl : ([u8 fid] ++ (be16 tl ++ (be16 ty ++ (lab ++ body)))).length = len := by
    simp only [List.length_append, be16_length, List.length_cons, List.length_nil]; omega
  simp only [Bool.not_true, Bool.not_false, Bool.false_and, Bool.and_true, Bool.and_false,
    Bool.and_self, Bool.false_eq_true, ↓reduceIte, hl, ne_eq, not_true_eq_false,
    Option.bind_eq_bind]
  simp only [field_present [u8 fid] _ (List.length_singleton), Option.bind_some,
    field_present (be16 tl) _ (be16_length tl), field_present (be16 ty) (lab ++ body) (be16_length ty),
    field_present lab body hc, trailer_absent, Option.map_some, Option.map_none, beNat_be16,
    beNat_u8, Option.getD_some, Option.pure_def]

/-- S = 0, E = 0 with a label type other than `00`: frag id, body -/
theorem fields_inter (c len fid : Nat) (body : Bytes) (hc : c ≠ 0) (hlen : 1 + body.length = len) :
    Spec.fields false false c len ([u8 fid] ++ body)
      = some ⟨false, false, c, len, some (fid % 256), none, none, [], body, none⟩ := by
  unfold Spec.fields
  have hl : ([u8 fid] ++ body).length = len := by
    simp only [List.length_append, List.length_cons, List.length_nil]; omega
  have hc' : (c == 0) = false := by simpa using hc
  simp only [Bool.not_false, Bool.and_true, Bool.and_false, Bool.and_self, hc',
    Bool.false_eq_true, ↓reduceIte, hl, ne_eq, not_true_eq_false, field_absent,
    Option.bind_eq_bind, Option.bind_some]
  simp only [field_present [u8 fid] _ (List.length_singleton), Option.bind_some, trailer_absent,
    Option.map_some, Option.map_none, beNat_u8, Option.getD_none, Option.pure_def]

/-- S = 0, E = 1: frag id, body, CRC -/
theorem fields_end (c len fid crc : Nat) (body : Bytes) (hlen : 1 + body.length + 4 = len) :
    Spec.fields false true c len ([u8 fid] ++ (body ++ be32 crc))
      = some ⟨false, true, c, len, some (fid % 256), none, none, [], body,
          some (crc % 4294967296)⟩ := by
  unfold Spec.fields
  have hl : ([u8 fid] ++ (body ++ be32 crc)).length = len := by
    simp only [List.length_append, List.length_cons, List.length_nil, be32_length]; omega
  simp only [Bool.not_false, Bool.not_true, Bool.and_true, Bool.and_false, Bool.and_self,
    Bool.false_and, Bool.false_eq_true, ↓reduceIte, hl, ne_eq, not_true_eq_false,
    field_absent, Option.bind_eq_bind, Option.bind_some]
  simp only [field_present [u8 fid] _ (List.length_singleton), Option.bind_some,
    trailer_present body (be32 crc) (be32_length crc), Option.map_some, Option.map_none, beNat_u8,
    beNat_be32, Option.getD_none, Option.pure_def]

section layouts
variable (lt : LabelType) (len fid tl ty crc : Nat) (lab body : Bytes)

/-- complete packet -/
theorem parse_complete (hlab : lab.length = lt.len) (hlen : 2 + lab.length + body.length = len)
    (h : len ≤ 4095) :
    Spec.parse (be16 (genHeader .complete lt len) ++ (be16 ty ++ (lab ++ body)))
      = some ⟨true, true, lt.code, len, none, none, some (ty % 65536), lab, body, none⟩ := by
  rw [parse_genHeader _ _ _ h]
  exact fields_complete _ _ _ _ _ (by rw [labelBytes_code]; exact hlab) hlen

/-- first fragment -/
theorem parse_first (hlab : lab.length = lt.len)
    (hlen : 1 + 2 + 2 + lab.length + body.length = len) (h : len ≤ 4095) :
    Spec.parse (be16 (genHeader .first lt len)
        ++ ([u8 fid] ++ (be16 tl ++ (be16 ty ++ (lab ++ body)))))
      = some ⟨true, false, lt.code, len, some (fid % 256), some (tl % 65536), some (ty % 65536), lab,
          body, none⟩ := by
  rw [parse_genHeader _ _ _ h]
  exact fields_first _ _ _ _ _ _ _ (by rw [labelBytes_code]; exact hlab) hlen

/-- intermediate fragment (label type re-use, as `encap_frag` writes it) -/
theorem parse_inter (hlen : 1 + body.length = len) (h : len ≤ 4095) :
    Spec.parse (be16 (genHeader .inter .reuse len) ++ ([u8 fid] ++ body))
      = some ⟨false, false, 3, len, some (fid % 256), none, none, [], body, none⟩ := by
  rw [parse_genHeader _ _ _ h]
  exact fields_inter _ _ _ _ (by decide) hlen

/-- last fragment -/
theorem parse_end (hlen : 1 + body.length + 4 = len) (h : len ≤ 4095) :
    Spec.parse (be16 (genHeader .end_ .reuse len) ++ ([u8 fid] ++ (body ++ be32 crc)))
      = some ⟨false, true, 3, len, some (fid % 256), none, none, [], body,
          some (crc % 4294967296)⟩ := by
  rw [parse_genHeader _ _ _ h]
  exact fields_end _ _ _ _ _ hlen

/-- with label type `00` an S = 0, E = 0 header is the padding pattern: not a packet -/
theorem parse_inter_six (rest : Bytes) (h : len ≤ 4095) :
    Spec.parse (be16 (genHeader .inter .six len) ++ rest) = none := by
  rw [parse_genHeader _ _ _ h]
  rfl

end layouts

/-! ### What a successful parse says about the first byte -/

/-- `Spec.parse` accepts only strings whose first nibble (S, E, LT) is not `0000` and whose length
is the announced GSE length + 2. -/
theorem parse_some_first_nibble {b : Bytes} {p : WirePkt} (h : Spec.parse b = some p) :
    ∃ b0 rest, b = b0 :: rest ∧ b0.toNat / 16 ≠ 0 := by
  match b, h with
  | b0 :: b1 :: r0, h =>
    refine ⟨b0, b1 :: r0, rfl, ?_⟩
    intro hz
    have hb1 := b1.toNat_lt
    have hw : (b0.toNat * 256 + b1.toNat) / 4096 = 0 := by omega
    have h1 : (b0.toNat * 256 + b1.toNat) / 32768 = 0 := by omega
    have h2 : (b0.toNat * 256 + b1.toNat) / 16384 = 0 := by omega
    simp only [Spec.parse, h1, h2, hw] at h
    simp [Spec.fields] at h

theorem parse_some_length {b : Bytes} {p : WirePkt} (h : Spec.parse b = some p) :
    b.length = p.gseLen + 2 := by
  match b, h with
  | b0 :: b1 :: r0, h =>
    simp only [Spec.parse, Spec.fields] at h
    split at h
    · cases h
    split at h
    · cases h
    rename_i hl
    simp only [ne_eq, Decidable.not_not] at hl
    simp only [Option.bind_eq_bind, Option.bind_eq_some_iff, Option.pure_def, Option.some.injEq] at h
    obtain ⟨_, _, _, _, _, _, _, _, _, _, rfl⟩ := h
    simp only [List.length_cons, hl]

/-! ### The result buffer -/

/-- `pkt` written at the start of `buf`: same length, starts with `pkt`, rest untouched -/
theorem emitted_prefix {buf pkt : Bytes} {n : Nat} (hp : pkt.length = n) (hn : n ≤ buf.length) :
    (pkt ++ buf.drop n).length = buf.length ∧ (pkt ++ buf.drop n).take n = pkt ∧
      (pkt ++ buf.drop n).drop n = buf.drop n := by
  refine ⟨?_, List.take_left' hp, List.drop_left' hp⟩
  simp only [List.length_append, List.length_drop]
  omega

/-! ### `Spec.parse` on what the three encapsulation calls emit

(`fid`, `pt`, `ctx.crc` and extension ids are `Nat`s in the model; the fields read back are their
truncations to the Rust types, which Props/C06.lean removes under the type bounds.) -/

/-- the length an `EncapStatus` reports to the caller -/
def EncStatus.wireLen : EncStatus → Nat
  | .completed n => n
  | .fragmented n _ => n

/-- The call wrote the packet `p` of `n` bytes at the start of `buf`, giving `buf'`: the reported
length is inside the buffer, the buffer keeps its length, no byte at or beyond offset `n` is
modified, the first `n` bytes parse as `p` under the independent grammar, and the GSE length field
is `n - 2` and fits 12 bits. -/
def Emitted (buf buf' : Bytes) (n : Nat) (p : WirePkt) : Prop :=
  n ≤ buf.length ∧ buf'.length = buf.length ∧ buf'.drop n = buf.drop n ∧
  Spec.parse (buf'.take n) = some p ∧ p.gseLen + FIXED_HEADER_LEN = n ∧ p.gseLen ≤ GSE_LEN_MAX

theorem emitted_of {buf pkt : Bytes} {n : Nat} {p : WirePkt} (hp : pkt.length = n)
    (hn : n ≤ buf.length) (hparse : Spec.parse pkt = some p)
    (hg : p.gseLen + FIXED_HEADER_LEN = n) (h4 : p.gseLen ≤ GSE_LEN_MAX) :
    Emitted buf (pkt ++ buf.drop n) n p := by
  obtain ⟨h1, h2, h3⟩ := emitted_prefix hp hn
  exact ⟨hn, h1, h3, by rw [h2]; exact hparse, hg, h4⟩

theorem encap_wire (crc : CrcFn) (es : Enc) (pdu : Bytes) (fid pt : Nat) (label : Label)
    (buf : Bytes) (st : EncStatus)
    (h : (encap crc es pdu fid pt label buf).res = .ok st) :
    ∃ p, Emitted buf (encap crc es pdu fid pt label buf).buf st.wireLen p ∧
      p.startBit = true ∧
      p.labelType = (checkLabelReUse es label).1.type.code ∧
      p.label = (checkLabelReUse es label).1.bytes ∧
      p.typeField = some (pt % 65536) ∧ p.crc = none ∧
      ((∃ n, st = .completed n) ↔ p.endBit = true) ∧
      ((∃ n ctx, st = .fragmented n ctx) ↔ p.endBit = false) ∧
      (∀ n, st = .completed n → p.fragId = none ∧ p.totalLen = none ∧ p.body = pdu ∧
        n = FIXED_HEADER_LEN + PROTOCOL_LEN + (checkLabelReUse es label).1.len + pdu.length) ∧
      (∀ n ctx, st = .fragmented n ctx →
        p.fragId = some (fid % 256) ∧
        p.totalLen = some (PROTOCOL_LEN + (checkLabelReUse es label).1.len + pdu.length) ∧
        p.body = pdu.take ctx.pos ∧ ctx.pos < pdu.length ∧
        n = FIRST_FRAG_LEN + (checkLabelReUse es label).1.len + ctx.pos) := by
  have hc := encap_cases crc es pdu fid pt label buf
  dsimp only at hc
  generalize (checkLabelReUse es label).1 = lbl at hc ⊢
  have hlab : lbl.bytes.length = lbl.type.len := by
    rw [Label.bytes_length, Label.len_eq_type_len]
  have hl6 := lbl.len_le_six
  rcases hc with ⟨_, ho⟩ | ⟨_, _, ho⟩ | ⟨_, _, hf, ho⟩ | ⟨_, _, _, _, ho⟩ | ⟨_, _, _, _, _, ho⟩ |
    ⟨_, _, hf, hb, ht, hlt, ho⟩
  · rw [ho] at h; cases h
  · rw [ho] at h; cases h
  · rw [ho] at h ⊢
    cases h
    dsimp only [EncStatus.wireLen]
    have hpar := parse_complete lbl.type (pdu.length + lbl.len + PROTOCOL_LEN) pt lbl.bytes pdu hlab
      (by rw [Label.bytes_length]; gse_omega) hf.2
    have hB : be16 (genHeader .complete lbl.type (pdu.length + lbl.len + PROTOCOL_LEN)) ++ be16 pt
          ++ lbl.bytes ++ pdu ++ buf.drop (FIXED_HEADER_LEN + PROTOCOL_LEN + lbl.len + pdu.length)
        = (be16 (genHeader .complete lbl.type (pdu.length + lbl.len + PROTOCOL_LEN))
            ++ (be16 pt ++ (lbl.bytes ++ pdu)))
          ++ buf.drop (pdu.length + lbl.len + PROTOCOL_LEN + FIXED_HEADER_LEN) := by
      simp only [List.append_assoc]
      congr 5
      omega
    rw [hB]
    refine ⟨_, emitted_of ?_ ?_ hpar rfl hf.2, ?_⟩
    · simp only [List.length_append, be16_length, Label.bytes_length]; gse_omega
    · gse_omega
    · simp
      omega
  · rw [ho] at h; cases h
  · rw [ho] at h; cases h
  · rw [ho] at h ⊢
    cases h
    dsimp only [EncStatus.wireLen]
    have hn := firstPayloadLen_eq lbl.len buf.length
    generalize firstPayloadLen lbl.len buf.length = n at hn hlt ⊢
    have hbody : (pdu.take n).length = n := by rw [List.length_take]; omega
    have hg : FRAG_ID_LEN + TOTAL_LENGTH_LEN + PROTOCOL_LEN + lbl.len + n ≤ 4095 := by gse_omega
    have hpar := parse_first lbl.type (FRAG_ID_LEN + TOTAL_LENGTH_LEN + PROTOCOL_LEN + lbl.len + n)
      fid (pdu.length + PROTOCOL_LEN + lbl.len) pt lbl.bytes (pdu.take n) hlab
      (by rw [Label.bytes_length, hbody]; gse_omega) hg
    have hB : be16 (genHeader .first lbl.type
            (FRAG_ID_LEN + TOTAL_LENGTH_LEN + PROTOCOL_LEN + lbl.len + n))
          ++ [u8 fid] ++ be16 (pdu.length + PROTOCOL_LEN + lbl.len) ++ be16 pt ++ lbl.bytes
          ++ pdu.take n ++ buf.drop (FIRST_FRAG_LEN + lbl.len + n)
        = (be16 (genHeader .first lbl.type
              (FRAG_ID_LEN + TOTAL_LENGTH_LEN + PROTOCOL_LEN + lbl.len + n))
            ++ ([u8 fid] ++ (be16 (pdu.length + PROTOCOL_LEN + lbl.len) ++ (be16 pt
              ++ (lbl.bytes ++ pdu.take n)))))
          ++ buf.drop (FIRST_FRAG_LEN + lbl.len + n) := by
      simp only [List.append_assoc]
    rw [hB]
    refine ⟨_, emitted_of ?_ ?_ hpar ?_ hg, ?_⟩
    · simp only [List.length_append, be16_length, Label.bytes_length, hbody, List.length_cons,
        List.length_nil]
      gse_omega
    · gse_omega
    · gse_omega
    · simp
      refine ⟨?_, hlt⟩
      simp only [TOTAL_LEN_MAX, PROTOCOL_LEN] at ht
      omega

theorem encapFrag_wire (pdu : Bytes) (ctx : FragCtx) (buf : Bytes) (st : EncStatus)
    (h : (encapFrag pdu ctx buf).1 = .ok st) :
    ∃ p, Emitted buf (encapFrag pdu ctx buf).2 st.wireLen p ∧
      p.startBit = false ∧
      p.labelType = LabelType.reuse.code ∧ p.label = [] ∧
      p.fragId = some (ctx.fragId % 256) ∧ p.totalLen = none ∧ p.typeField = none ∧
      ((∃ n, st = .completed n) ↔ p.endBit = true) ∧
      ((∃ n c, st = .fragmented n c) ↔ p.endBit = false) ∧
      (∀ n, st = .completed n → p.body = pdu.drop ctx.pos ∧
        p.crc = some (ctx.crc % 4294967296)) ∧
      (∀ n c, st = .fragmented n c → p.crc = none ∧
        ∃ k, 1 ≤ k ∧ ctx.pos + k ≤ pdu.length ∧ p.body = (pdu.drop ctx.pos).take k ∧
          c = ⟨ctx.fragId, ctx.crc, (ctx.pos + k) % 65536⟩) := by
  have hc := encapFrag_cases pdu ctx buf
  dsimp only at hc
  rcases hc with ⟨_, ho⟩ | ⟨hpos, hf, ho⟩ | ⟨hpos, hf, hb, hn1, hnr, ho, _⟩ | ⟨_, _, _, ho⟩
  · rw [ho] at h; cases h
  · rw [ho] at h ⊢
    cases h
    dsimp only [EncStatus.wireLen]
    have hbody : (pdu.drop ctx.pos).length = pdu.length - ctx.pos := List.length_drop
    have hpar := parse_end (FRAG_ID_LEN + (pdu.length - ctx.pos) + CRC_LEN) ctx.fragId ctx.crc
      (pdu.drop ctx.pos) (by rw [hbody]; gse_omega) hf.2
    have hB : be16 (genHeader .end_ .reuse (FRAG_ID_LEN + (pdu.length - ctx.pos) + CRC_LEN))
          ++ [u8 ctx.fragId] ++ pdu.drop ctx.pos ++ be32 ctx.crc
          ++ buf.drop (FIXED_HEADER_LEN + FRAG_ID_LEN + (pdu.length - ctx.pos) + CRC_LEN)
        = (be16 (genHeader .end_ .reuse (FRAG_ID_LEN + (pdu.length - ctx.pos) + CRC_LEN))
            ++ ([u8 ctx.fragId] ++ (pdu.drop ctx.pos ++ be32 ctx.crc)))
          ++ buf.drop (FIXED_HEADER_LEN + FRAG_ID_LEN + (pdu.length - ctx.pos) + CRC_LEN) := by
      simp only [List.append_assoc]
    rw [hB]
    refine ⟨_, emitted_of ?_ ?_ hpar ?_ hf.2, ?_⟩
    · simp only [List.length_append, be16_length, be32_length, hbody, List.length_cons,
        List.length_nil]
      gse_omega
    · gse_omega
    · gse_omega
    · simp [LabelType.code]
  · rw [ho] at h ⊢
    cases h
    dsimp only [EncStatus.wireLen]
    have hn := interPayloadLen_eq (pdu.length - ctx.pos) buf.length
    generalize interPayloadLen (pdu.length - ctx.pos) buf.length = n at hn hn1 hnr ⊢
    have hbody : ((pdu.drop ctx.pos).take n).length = n := by
      rw [List.length_take, List.length_drop]; omega
    have hg : FRAG_ID_LEN + n ≤ 4095 := by gse_omega
    have hpar := parse_inter (FRAG_ID_LEN + n) ctx.fragId ((pdu.drop ctx.pos).take n)
      (by rw [hbody]; gse_omega) hg
    have hB : be16 (genHeader .inter .reuse (FRAG_ID_LEN + n)) ++ [u8 ctx.fragId]
          ++ (pdu.drop ctx.pos).take n ++ buf.drop (FIXED_HEADER_LEN + (FRAG_ID_LEN + n))
        = (be16 (genHeader .inter .reuse (FRAG_ID_LEN + n))
            ++ ([u8 ctx.fragId] ++ (pdu.drop ctx.pos).take n))
          ++ buf.drop (FIXED_HEADER_LEN + (FRAG_ID_LEN + n)) := by
      simp only [List.append_assoc]
    rw [hB]
    refine ⟨_, emitted_of ?_ ?_ hpar ?_ hg, ?_⟩
    · simp only [List.length_append, be16_length, hbody, List.length_cons, List.length_nil]
      gse_omega
    · gse_omega
    · gse_omega
    · simp [LabelType.code]
      exact ⟨n, hn1, by omega, rfl, rfl⟩
  · rw [ho] at h; cases h

/-- the bytes `encap_ext` puts between the label and the PDU bytes: the extension chain, then the
protocol type unless the last extension is a final mandatory one (whose id is the protocol type) -/
def extBytes (pt : Nat) (exts : List Ext) : Bytes :=
  extChain exts ++ (if pt < MAX_MANDATORY_VAL_PTYPE then [] else be16 pt)

theorem extMiddle_split {exts : List Ext} {lastExt : Ext} (pt : Nat) (lbl : Label)
    (hwf : ∀ e ∈ exts, e.len = PROTOCOL_LEN + e.data.length) (hlast : exts.getLast? = some lastExt) :
    ∃ e0, exts.head? = some e0 ∧
      extMiddle pt lbl exts = be16 e0.id ++ (lbl.bytes ++ extBytes pt exts) ∧
      (extBytes pt exts).length = extLen pt exts := by
  have hne : exts ≠ [] := by rintro rfl; cases hlast
  have hml := extMiddle_length pt lbl hne hwf
  cases exts with
  | nil => exact absurd rfl hne
  | cons e0 t =>
    have hmid : extMiddle pt lbl (e0 :: t) = be16 e0.id ++ (lbl.bytes ++ extBytes pt (e0 :: t)) := by
      simp only [extMiddle, extBytes, extFirstId, List.head?_cons, List.append_assoc]
    refine ⟨e0, rfl, hmid, ?_⟩
    rw [hmid] at hml
    simp only [List.length_append, be16_length, Label.bytes_length, PROTOCOL_LEN] at hml
    omega

theorem encapExt_wire (crc : CrcFn) (es : Enc) (pdu : Bytes) (fid pt : Nat) (label : Label)
    (buf : Bytes) (exts : List Ext) (st : EncStatus) (hwf : ∀ e ∈ exts, e.len = PROTOCOL_LEN + e.data.length)
    (h : (encapExt crc es pdu fid pt label buf exts).res = .ok st) :
    ∃ p, Emitted buf (encapExt crc es pdu fid pt label buf exts).buf st.wireLen p ∧
      p.startBit = true ∧
      p.labelType = (checkLabelReUse es label).1.type.code ∧
      p.label = (checkLabelReUse es label).1.bytes ∧
      (∃ e0, exts.head? = some e0 ∧ p.typeField = some (e0.id % 65536)) ∧ p.crc = none ∧
      ((∃ n, st = .completed n) ↔ p.endBit = true) ∧
      ((∃ n ctx, st = .fragmented n ctx) ↔ p.endBit = false) ∧
      (∀ n, st = .completed n → p.fragId = none ∧ p.totalLen = none ∧
        p.body = extBytes pt exts ++ pdu ∧
        n = FIXED_HEADER_LEN + PROTOCOL_LEN + (checkLabelReUse es label).1.len
              + (extBytes pt exts).length + pdu.length) ∧
      (∀ n ctx, st = .fragmented n ctx →
        p.fragId = some (fid % 256) ∧
        p.totalLen = some (PROTOCOL_LEN + (checkLabelReUse es label).1.len + pdu.length) ∧
        p.body = extBytes pt exts ++ pdu.take ctx.pos ∧ ctx.pos < pdu.length ∧
        n = FIRST_FRAG_LEN + (checkLabelReUse es label).1.len + (extBytes pt exts).length
              + ctx.pos) := by
  have hc := encapExt_cases crc es pdu fid pt label buf exts hwf
  dsimp only at hc
  generalize (checkLabelReUse es label).1 = lbl at hc ⊢
  have hlab : lbl.bytes.length = lbl.type.len := by
    rw [Label.bytes_length, Label.len_eq_type_len]
  have hl6 := lbl.len_le_six
  rcases hc with ⟨_, ho⟩ | ⟨lastExt, hlast, ⟨_, ho⟩ | ⟨_, ⟨_, ho⟩ | ⟨_, ⟨_, ho⟩ | ⟨_, ⟨hf, ho⟩ |
    ⟨_, _, ho⟩ | ⟨_, _, _, ho⟩ | ⟨hf, hb, ht, hlt, ho⟩⟩⟩⟩⟩
  · rw [ho] at h; cases h
  · rw [ho] at h; cases h
  · rw [ho] at h; cases h
  · rw [ho] at h; cases h
  · obtain ⟨e0, hhead, hmid, hxb⟩ := extMiddle_split pt lbl hwf hlast
    rw [ho] at h ⊢
    cases h
    dsimp only [EncStatus.wireLen]
    generalize extLen pt exts = x at hf hxb ⊢
    have hpar := parse_complete lbl.type (pdu.length + lbl.len + PROTOCOL_LEN + x) e0.id lbl.bytes
      (extBytes pt exts ++ pdu) hlab
      (by rw [Label.bytes_length, List.length_append, hxb]; gse_omega) hf.2
    have hB : be16 (genHeader .complete lbl.type (pdu.length + lbl.len + PROTOCOL_LEN + x))
          ++ extMiddle pt lbl exts ++ pdu
          ++ buf.drop (FIXED_HEADER_LEN + PROTOCOL_LEN + lbl.len + x + pdu.length)
        = (be16 (genHeader .complete lbl.type (pdu.length + lbl.len + PROTOCOL_LEN + x))
            ++ (be16 e0.id ++ (lbl.bytes ++ (extBytes pt exts ++ pdu))))
          ++ buf.drop (pdu.length + lbl.len + PROTOCOL_LEN + x + FIXED_HEADER_LEN) := by
      rw [hmid]
      simp only [List.append_assoc]
      congr 6
      omega
    rw [hB]
    refine ⟨_, emitted_of ?_ ?_ hpar rfl hf.2, ?_⟩
    · simp only [List.length_append, be16_length, Label.bytes_length, hxb]; gse_omega
    · gse_omega
    · simp [hhead, hxb]
      omega
  · rw [ho] at h; cases h
  · rw [ho] at h; cases h
  · obtain ⟨e0, hhead, hmid, hxb⟩ := extMiddle_split pt lbl hwf hlast
    rw [ho] at h ⊢
    cases h
    dsimp only [EncStatus.wireLen]
    generalize extLen pt exts = x at hf hb ht hlt hxb ⊢
    have hn := firstPayloadLen_eq (lbl.len + x) buf.length
    generalize firstPayloadLen (lbl.len + x) buf.length = n at hn hlt ⊢
    have ht1 : pdu.length + PROTOCOL_LEN + lbl.len ≤ TOTAL_LEN_MAX :=
      Nat.le_of_not_lt (fun h => ht (Or.inl h))
    have ht2 : FRAG_ID_LEN + TOTAL_LENGTH_LEN + PROTOCOL_LEN + lbl.len + x ≤ GSE_LEN_MAX :=
      Nat.le_of_not_lt (fun h => ht (Or.inr h))
    clear ht hf
    have hbody : (pdu.take n).length = n := by rw [List.length_take]; omega
    have hg : FRAG_ID_LEN + TOTAL_LENGTH_LEN + PROTOCOL_LEN + lbl.len + x + n ≤ 4095 := by
      gse_omega
    have hpar := parse_first lbl.type
      (FRAG_ID_LEN + TOTAL_LENGTH_LEN + PROTOCOL_LEN + lbl.len + x + n)
      fid (pdu.length + PROTOCOL_LEN + lbl.len) e0.id lbl.bytes (extBytes pt exts ++ pdu.take n)
      hlab (by rw [Label.bytes_length, List.length_append, hbody, hxb]; gse_omega) hg
    have hB : be16 (genHeader .first lbl.type
            (FRAG_ID_LEN + TOTAL_LENGTH_LEN + PROTOCOL_LEN + lbl.len + x + n))
          ++ [u8 fid] ++ be16 (pdu.length + PROTOCOL_LEN + lbl.len) ++ extMiddle pt lbl exts
          ++ pdu.take n ++ buf.drop (FIRST_FRAG_LEN + lbl.len + x + n)
        = (be16 (genHeader .first lbl.type
              (FRAG_ID_LEN + TOTAL_LENGTH_LEN + PROTOCOL_LEN + lbl.len + x + n))
            ++ ([u8 fid] ++ (be16 (pdu.length + PROTOCOL_LEN + lbl.len) ++ (be16 e0.id
              ++ (lbl.bytes ++ (extBytes pt exts ++ pdu.take n))))))
          ++ buf.drop (FIRST_FRAG_LEN + lbl.len + x + n) := by
      rw [hmid]
      simp only [List.append_assoc]
    rw [hB]
    refine ⟨_, emitted_of ?_ ?_ hpar ?_ hg, ?_⟩
    · simp only [List.length_append, be16_length, Label.bytes_length, hbody, hxb, List.length_cons,
        List.length_nil]
      gse_omega
    · gse_omega
    · gse_omega
    · simp [hhead, hxb]
      refine ⟨?_, hlt⟩
      simp only [TOTAL_LEN_MAX, PROTOCOL_LEN] at ht1
      omega

end Gse
