/-
Invariant and per-call contract of `Decapsulator::decap` (Model/Decap.lean), shared by the
properties C05 (totality, consumption), C07 (frame part) and C08 (storage conservation).

* `Dec.Inv`: the memory is well formed (`Mem.WF`), every saved context's accumulated length fits
  its storage, and slot `k` only holds contexts whose fragment id is `≡ k (mod max_frag_id)`.
* the extension-header walker never panics and never runs out of fuel (`walkExt_spec`);
* `Good ko ds buf pktLen o`: the outcome `o` of a call on state `ds` did not panic, kept the
  invariant and the configuration, consumed `buf.length` or `pktLen`, conserved the storages
  (`perm`), did not lose a storage in a refused `save_frag` (`notCorrupt`), and touched at most the
  slot of the packet's fragment id (`eff`);
* `decap_good`: every call is `Good`.
-/
import GseVerif.Model.Decap
import GseVerif.Lemmas.Bytes
import GseVerif.Lemmas.Memory
import GseVerif.Lemmas.Ext
import GseVerif.Props.C14
import GseVerif.Props.C17
import GseVerif.Props.C13new

namespace Gse
open Gen

def Mem.SlotsOk (m : Mem) : Prop :=
  ∀ k c s, m.frags[k]? = some (some (c, s)) →
    c.pduLen ≤ s.data.length ∧ c.fragId % m.maxFragId = k

def Mem.Ok (m : Mem) : Prop := m.WF ∧ m.SlotsOk

def Dec.Inv (ds : Dec) : Prop :=
  ds.mem.WF ∧ (∀ c s, some (c, s) ∈ ds.mem.frags → c.pduLen ≤ s.data.length) ∧
    (∀ k c s, ds.mem.frags[k]? = some (some (c, s)) → c.fragId % ds.mem.maxFragId = k)

theorem Dec.inv_iff (ds : Dec) : ds.Inv ↔ ds.mem.Ok := by
  unfold Dec.Inv Mem.Ok Mem.SlotsOk
  constructor
  · rintro ⟨hw, h1, h2⟩
    exact ⟨hw, fun k c s h => ⟨h1 c s (List.mem_of_getElem? h), h2 k c s h⟩⟩
  · rintro ⟨hw, h⟩
    refine ⟨hw, fun c s hm => ?_, fun k c s hk => (h k c s hk).2⟩
    obtain ⟨k, hk⟩ := List.mem_iff_getElem?.mp hm
    exact (h k c s hk).1

def Mem.ids (m : Mem) : List Nat := m.allStorages.map (·.id)
def Dec.owned (ds : Dec) : List Nat := ds.mem.ids

def handedOut : Res DecErr DecStatus → List Nat
  | .ok (.completed s _) => [s.id]
  | .err (.memory (.storageOverflow s)) => [s.id]
  | .err (.memory (.bufferTooSmall s)) => [s.id]
  | _ => []

/-- same configuration -/
def Mem.SameCfg (m' m : Mem) : Prop :=
  m'.maxFragId = m.maxFragId ∧ m'.maxPduSize = m.maxPduSize ∧ m'.cap = m.cap

theorem Mem.SameCfg.refl (m : Mem) : m.SameCfg m := ⟨rfl, rfl, rfl⟩
theorem Mem.SameCfg.trans {a b c : Mem} (h1 : a.SameCfg b) (h2 : b.SameCfg c) : a.SameCfg c :=
  ⟨h1.1.trans h2.1, h1.2.1.trans h2.2.1, h1.2.2.trans h2.2.2⟩

theorem Mem.step_sameCfg (m : Mem) (op : MemOp) : (m.step op).SameCfg m :=
  ⟨(m.step_cfg op).1, (m.step_cfg op).2.1, (m.step_cfg op).2.2.1⟩

theorem Mem.run_ids (m : Mem) (hw : m.WF) (op : MemOp)
    (hx : (m.run op).1 ≠ .unit (.err .memoryCorrupted)) :
    ((m.run op).2.ids ++ (m.run op).1.handed.map (·.id)).Perm
      (m.ids ++ op.given.map (·.id)) := by
  have := (C17_storages_conserved m hw op hx).map (·.id)
  simpa only [Mem.ids, List.map_append] using this

theorem Mem.SlotsOk.set {m m' : Mem} (hm : m.SlotsOk) (idx : Nat) (v : Option (Ctx × Storage))
    (hf : m'.frags = m.frags.set idx v) (hn : m'.maxFragId = m.maxFragId)
    (hv : ∀ c s, v = some (c, s) → c.pduLen ≤ s.data.length ∧ c.fragId % m.maxFragId = idx) :
    m'.SlotsOk := by
  intro k c s hk
  rw [hf, List.getElem?_set] at hk
  rw [hn]
  split at hk
  · rename_i hik
    split at hk
    · cases hk; subst hik; exact hv c s rfl
    · cases hk
  · exact hm k c s hk

theorem Mem.SlotsOk.of_frags {m m' : Mem} (hm : m.SlotsOk) (hf : m'.frags = m.frags)
    (hn : m'.maxFragId = m.maxFragId) : m'.SlotsOk := by
  intro k c s hk
  rw [hf] at hk; rw [hn]; exact hm k c s hk

/-! ### provision -/
theorem Mem.Ok.provision {m : Mem} (hm : m.Ok) (s : Storage) :
    (∃ m', m.provision s = (.ok (), m') ∧ m'.Ok ∧ m'.frags = m.frags ∧ m'.SameCfg m ∧
        m'.ids = s.id :: m.ids) ∨
    (∃ e, m.provision s = (.err e, m) ∧ (e = .storageOverflow s ∨ e = .bufferTooSmall s)) := by
  unfold Mem.provision
  split
  · exact .inr ⟨_, rfl, .inl rfl⟩
  split
  · exact .inr ⟨_, rfl, .inr rfl⟩
  refine .inl ⟨_, rfl, ⟨?_, hm.2.of_frags rfl rfl⟩, rfl, ⟨rfl, rfl, rfl⟩, ?_⟩
  · have := hm.1.step (.provision s)
    simpa [Mem.step, Mem.provision, *] using this
  · simp [Mem.ids, Mem.allStorages]

/-! ### newPdu -/
theorem Mem.Ok.newPdu_ok {m m1 : Mem} {st : Storage} (hm : m.Ok) (h : m.newPdu = (.ok st, m1)) :
    m1.Ok ∧ m1.frags = m.frags ∧ m1.SameCfg m ∧ (m1.ids ++ [st.id]).Perm m.ids := by
  have hs : m1 = m.step .newPdu := by simp [Mem.step, h]
  have hfr : m1.frags = m.frags := by
    have := (C17_newPdu_iff m).2.2.2.2; rwa [h] at this
  have hc : m1.SameCfg m := hs ▸ m.step_sameCfg _
  refine ⟨⟨hs ▸ hm.1.step _, hm.2.of_frags hfr hc.1⟩, hfr, hc, ?_⟩
  have := m.run_ids hm.1 .newPdu (by simp [Mem.run, Prod.map])
  simpa [Mem.run, Prod.map, h, MemOut.handed, MemOp.given] using this

theorem Mem.newPdu_err {m m1 : Mem} {e : MemErr} (h : m.newPdu = (.err e, m1)) :
    m1 = m ∧ e = .storageUnderflow := by
  have := (C17_newPdu_iff m).2.1 e (by rw [h])
  rw [h] at this
  exact ⟨this.2, this.1⟩

theorem Mem.newPdu_panic {m m1 : Mem} (h : m.newPdu = (.panic, m1)) : False := by
  unfold Mem.newPdu at h; split at h <;> cases h

/-! ### newFrag -/
theorem Mem.newFrag_frags (m : Mem) (c : Ctx) (h0 : m.maxFragId ≠ 0)
    (hlt : c.fragId % m.maxFragId < m.frags.length) :
    (m.newFrag c).2.frags = m.frags.set (c.fragId % m.maxFragId) none := by
  simp only [Mem.newFrag, Mem.newPdu]; grind

theorem Mem.Ok.newFrag_ok {m m1 : Mem} {c c' : Ctx} {st : Storage} (hm : m.Ok)
    (h : m.newFrag c = (.ok (c', st), m1)) :
    c' = c ∧ m1.Ok ∧ m1.SameCfg m ∧ m.maxFragId ≠ 0 ∧
      m1.frags = m.frags.set (c.fragId % m.maxFragId) none ∧
      m1.frags[c.fragId % m.maxFragId]? = some none ∧ (m1.ids ++ [st.id]).Perm m.ids := by
  have h0 : m.maxFragId ≠ 0 := by
    intro h0; rw [(C17_zero_slots m h0).1] at h; cases h
  have hs : m1 = m.step (.newFrag c) := by simp [Mem.step, h]
  have hc : m1.SameCfg m := hs ▸ m.step_sameCfg _
  have hlt := hm.1.slot_lt h0 c.fragId
  have hfr : m1.frags = m.frags.set (c.fragId % m.maxFragId) none := by
    have := m.newFrag_frags c h0 hlt; rwa [h] at this
  have hc' : c' = c := by
    simp only [Mem.newFrag, Mem.newPdu] at h; grind
  refine ⟨hc', ⟨hs ▸ hm.1.step _, hm.2.set _ none hfr hc.1 (by simp)⟩, hc, h0, hfr, ?_, ?_⟩
  · rw [hfr, List.getElem?_set_self hlt]
  · have := m.run_ids hm.1 (.newFrag c) (by simp [Mem.run, Prod.map])
    simpa [Mem.run, Prod.map, h, MemOut.handed, MemOp.given] using this

theorem Mem.Ok.newFrag_err {m m1 : Mem} {c : Ctx} {e : MemErr} (hm : m.Ok)
    (h : m.newFrag c = (.err e, m1)) : m1 = m ∧ e = .storageUnderflow := by
  have := (C17_newFrag_err_iff m hm.1 c).1 e (by rw [h])
  rw [h] at this
  exact ⟨this.2, this.1⟩

theorem Mem.Ok.newFrag_panic {m m1 : Mem} {c : Ctx} (hm : m.Ok)
    (h : m.newFrag c = (.panic, m1)) : False :=
  (C17_no_panic m hm.1).2.2.1 c (by rw [h])

/-! ### takeFrag -/
theorem Mem.Ok.takeFrag_ok {m m1 : Mem} {fid : Nat} {c : Ctx} {st : Storage} (hm : m.Ok)
    (h : m.takeFrag fid = (.ok (c, st), m1)) :
    c.fragId = fid ∧ c.pduLen ≤ st.data.length ∧ m1.Ok ∧ m1.SameCfg m ∧ m.maxFragId ≠ 0 ∧
      m.frags[fid % m.maxFragId]? = some (some (c, st)) ∧
      m1.frags = m.frags.set (fid % m.maxFragId) none ∧ m1.storages = m.storages ∧
      m1.frags[fid % m.maxFragId]? = some none ∧ (m1.ids ++ [st.id]).Perm m.ids := by
  obtain ⟨hpos, hslot, hfid⟩ := (C17_takeFrag_ok_iff m hm.1 fid c st).mp (by rw [h])
  have h0 : m.maxFragId ≠ 0 := Nat.ne_of_gt hpos
  have hs : m1 = m.step (.takeFrag fid) := by simp [Mem.step, h]
  have hc : m1.SameCfg m := hs ▸ m.step_sameCfg _
  have hlt := hm.1.slot_lt h0 fid
  have hm1 : m1 = { m with frags := m.frags.set (fid % m.maxFragId) none } := by
    have := C17_takeFrag_hit m hpos fid c st hslot hfid
    rw [h] at this; exact (Prod.mk.inj this).2
  have hfr : m1.frags = m.frags.set (fid % m.maxFragId) none := by rw [hm1]
  refine ⟨hfid, (hm.2 _ c st hslot).1, ⟨hs ▸ hm.1.step _, hm.2.set _ none hfr hc.1 (by simp)⟩, hc,
    h0, hslot, hfr, by rw [hm1], ?_, ?_⟩
  · rw [hfr, List.getElem?_set_self hlt]
  · have := m.run_ids hm.1 (.takeFrag fid) (by simp [Mem.run, Prod.map])
    simpa [Mem.run, Prod.map, h, MemOut.handed, MemOp.given] using this

theorem Mem.Ok.takeFrag_err {m m1 : Mem} {fid : Nat} {e : MemErr} (hm : m.Ok)
    (h : m.takeFrag fid = (.err e, m1)) : m1 = m ∧ e = .undefinedId := by
  have := C17_takeFrag_err m hm.1 fid e (by rw [h])
  rw [h] at this
  exact ⟨this.2, this.1⟩

theorem Mem.Ok.takeFrag_panic {m m1 : Mem} {fid : Nat} (hm : m.Ok)
    (h : m.takeFrag fid = (.panic, m1)) : False :=
  (C17_no_panic m hm.1).2.2.2.1 fid (by rw [h])

/-! ### saveFrag -/
theorem Mem.Ok.saveFrag_ok {m : Mem} (hm : m.Ok) (cs : Ctx × Storage) (h0 : m.maxFragId ≠ 0)
    (hs : m.frags[cs.1.fragId % m.maxFragId]? = some none)
    (hlen : cs.1.pduLen ≤ cs.2.data.length) :
    ∃ m2, m.saveFrag cs = (.ok (), m2) ∧ m2.Ok ∧ m2.SameCfg m ∧
      m2.frags = m.frags.set (cs.1.fragId % m.maxFragId) (some cs) ∧ m2.storages = m.storages ∧
      m2.ids.Perm (m.ids ++ [cs.2.id]) := by
  have hpos := Nat.pos_of_ne_zero h0
  have hsv := (C17_saveFrag_free m hpos cs hs).1
  refine ⟨_, hsv, ?_, ⟨rfl, rfl, rfl⟩, rfl, rfl, ?_⟩
  · refine ⟨?_, hm.2.set _ (some cs) rfl rfl ?_⟩
    · have := hm.1.step (.saveFrag cs); rwa [Mem.step, hsv] at this
    · intro c s hcs; cases hcs; exact ⟨hlen, rfl⟩
  · have := m.run_ids hm.1 (.saveFrag cs) (by simp [Mem.run, Prod.map, hsv])
    simpa [Mem.run, Prod.map, hsv, MemOut.handed, MemOp.given] using this

theorem list_len2 {α} (l : List α) (h : l.length = 2) : ∃ x y, l = [x, y] := by
  match l, h with
  | [x, y], _ => exact ⟨x, y, rfl⟩

theorem list_len4 {α} (l : List α) (h : l.length = 4) : ∃ w x y z, l = [w, x, y, z] := by
  match l, h with
  | [w, x, y, z], _ => exact ⟨w, x, y, z, rfl⟩

theorem get16_some_of_le {b : Bytes} {off : Nat} (h : off + 2 ≤ b.length) :
    ∃ v, get16 b off = some v := by
  have hs := slice_of_le h
  obtain ⟨x, y, hxy⟩ := list_len2 _ (slice_length hs)
  rw [hxy] at hs
  exact ⟨_, get16_of_slice hs⟩

theorem get32_some_of_le {b : Bytes} {off : Nat} (h : off + 4 ≤ b.length) :
    ∃ v, get32 b off = some v := by
  have hs := slice_of_le h
  obtain ⟨w, x, y, z, hxy⟩ := list_len4 _ (slice_length hs)
  rw [hxy] at hs
  exact ⟨_, get32_of_slice hs⟩

theorem get8_some_of_lt {b : Bytes} {off : Nat} (h : off < b.length) :
    ∃ v, get8 b off = some v := by
  unfold get8
  rw [List.getElem?_eq_getElem h]
  exact ⟨_, rfl⟩


theorem slice_some_of_le {b : Bytes} {off len : Nat} (h : off + len ≤ b.length) :
    ∃ d, slice b off len = some d ∧ d.length = len :=
  ⟨_, slice_of_le h, slice_length (slice_of_le h)⟩

theorem blit_some_of_le {b : Bytes} {off : Nat} {src : Bytes} (h : off + src.length ≤ b.length) :
    ∃ b', blit b off src = some b' ∧ b'.length = b.length :=
  ⟨_, blit_of_le h, blit_length (blit_of_le h)⟩

/-! ### the extension walker -/

theorem hlen_eq_div_fin : ∀ p : Fin SECOND_RANGE_PTYPE, (p.val &&& H_LEN_MASK) >>> 8 = p.val / 256 := by
  decide +kernel

theorem hlen_eq_div (pt : Nat) (h : pt < SECOND_RANGE_PTYPE) :
    (pt &&& H_LEN_MASK) >>> 8 = pt / 256 := hlen_eq_div_fin ⟨pt, h⟩

theorem extNew_mand (pt : Nat) (d : Bytes) (h : pt < MAX_MANDATORY_VAL_PTYPE) :
    extNew pt d = .ok ⟨pt, .mandatory, d⟩ := by
  unfold extNew
  rw [if_neg (by gse_omega), if_pos h]

theorem extNew_opt (pt sz : Nat) (d : Bytes) (h1 : pt < SECOND_RANGE_PTYPE)
    (hs : hlenDataSize (pt / 256) = some sz) (hd : d.length = sz) : ∃ e, extNew pt d = .ok e := by
  rw [C13_new_ok_iff pt (by gse_omega) d]
  exact ⟨h1, fun _ => by rw [hs, hd]⟩

theorem walkLoop_spec (mgr : MgrFn) (pdu : Bytes) :
    ∀ (fuel pt off : Nat) (acc : List Ext), off ≤ pdu.length → pdu.length < fuel + off →
      walkLoop mgr pdu fuel pt off acc ≠ .panic ∧
      ∀ w, walkLoop mgr pdu fuel pt off acc = .ok w → w.len ≤ pdu.length := by
  intro fuel
  induction fuel with
  | zero => intro pt off acc h1 h2; omega
  | succ fuel ih =>
    intro pt off acc h1 h2
    unfold walkLoop
    split
    · rename_i hpt
      have hh := hlen_eq_div pt hpt
      simp only [hh]
      have hlt : pt / 256 < 6 := by simp only [SECOND_RANGE_PTYPE] at hpt; omega
      rw [if_neg (by omega)]
      split
      · rename_i h0
        have hm : pt < MAX_MANDATORY_VAL_PTYPE := by simp only [MAX_MANDATORY_VAL_PTYPE]; omega
        split
        · simp
        · rename_i sz _
          split
          · simp
          · rename_i hle
            rw [slice_of_le (by omega)]
            simp only [extNew_mand pt _ hm]
            refine ⟨by simp, ?_⟩
            intro w hw; cases hw; simp only; omega
        · rename_i sz _
          split
          · simp
          · rename_i hle
            rw [slice_of_le (by omega)]
            simp only [extNew_mand pt _ hm]
            split
            · simp
            · rename_i hle2
              obtain ⟨v, hv⟩ := get16_some_of_le (b := pdu) (off := off + sz) (by gse_omega)
              rw [hv]
              simp only
              exact ih _ _ _ (by gse_omega) (by gse_omega)
      · rename_i h0
        have hr : 1 ≤ pt / 256 ∧ pt / 256 ≤ 5 := by omega
        rw [hlenDataSize_eq _ (by omega), if_pos hr]
        simp only []
        split
        · simp
        · rename_i hle
          obtain ⟨d, hd, hdl⟩ := slice_some_of_le (b := pdu) (off := off) (len := 2 * (pt / 256 - 1))
            (by omega)
          rw [hd]; simp only []
          obtain ⟨e, he⟩ := extNew_opt pt _ d hpt
            (by rw [hlenDataSize_eq _ (by omega), if_pos hr]) hdl
          rw [he]; simp only []
          split
          · simp
          · rename_i hle2
            obtain ⟨v, hv⟩ := get16_some_of_le (b := pdu) (off := off + 2 * (pt / 256 - 1))
              (by gse_omega)
            rw [hv]
            simp only
            exact ih _ _ _ (by gse_omega) (by gse_omega)
    · refine ⟨by simp, ?_⟩
      intro w hw; cases hw; simpa using h1

theorem walkExt_spec (mgr : MgrFn) (pdu : Bytes) (pt : Nat) :
    walkExt mgr pdu pt ≠ .panic ∧ ∀ w, walkExt mgr pdu pt = .ok w → w.len ≤ pdu.length :=
  walkLoop_spec mgr pdu _ pt 0 [] (Nat.zero_le _) (by omega)



/-! ### the per-call postcondition -/

/-- errors that carry no storage and are not `MemoryCorrupted` -/
def DecErr.plain : DecErr → Bool
  | .memory .storageUnderflow | .memory .undefinedId => true
  | .memory _ => false
  | _ => true

theorem DecErr.plain_handedOut {e : DecErr} (h : e.plain = true) : handedOut (.err e) = [] := by
  cases e <;> try rfl
  rename_i me; cases me <;> first | rfl | cases h

theorem DecErr.plain_ne {e : DecErr} (h : e.plain = true) : e ≠ .memory .memoryCorrupted := by
  rintro rfl; cases h

/-- Effect of a `decap` call on the slot array: nothing, or exactly the slot of the fragment id
carried by the packet is rewritten — by a first fragment unconditionally, by an intermediate / end
packet only when that slot held a context saved under exactly this id — and what is written is
empty or a context of this id. -/
def FragsEff (ko : Option PktType) (buf : Bytes) (m : Mem)
    (fr' : List (Option (Ctx × Storage))) : Prop :=
  fr' = m.frags ∨
  ∃ fid v, get8 buf FIXED_HEADER_LEN = some fid ∧ fr' = m.frags.set (fid % m.maxFragId) v ∧
    (∀ c s, v = some (c, s) → c.fragId = fid) ∧
    (ko = some .first ∨ ((ko = some .inter ∨ ko = some .end_) ∧
      ∃ c s, m.frags[fid % m.maxFragId]? = some (some (c, s)) ∧ c.fragId = fid))

/-- everything the properties C05 / C07 / C08 need about one `decap` call; `ko` is the packet kind
when the call reached the per-kind function, `pktLen` the packet length read from the header -/
structure Good (ko : Option PktType) (ds : Dec) (buf : Bytes) (pktLen : Nat) (o : DecOut) :
    Prop where
  noPanic : o.res ≠ .panic
  notCorrupt : o.res ≠ .err (.memory .memoryCorrupted)
  ok : o.st.mem.Ok
  cfg : o.st.mem.SameCfg ds.mem
  consumed : o.consumed = buf.length ∨ o.consumed = pktLen
  perm : (o.st.owned ++ handedOut o.res).Perm ds.owned
  eff : FragsEff ko buf ds.mem o.st.mem.frags

theorem good_of {ko : Option PktType} {ds : Dec} {buf : Bytes} {pktLen : Nat}
    {r : Res DecErr DecStatus} {n : Nat}
    {m : Mem} {last : Option Label} (hr : r ≠ .panic ∧ r ≠ .err (.memory .memoryCorrupted))
    (hm : m.Ok) (hc : m.SameCfg ds.mem)
    (hn : n = buf.length ∨ n = pktLen) (hp : (m.ids ++ handedOut r).Perm ds.owned)
    (heff : FragsEff ko buf ds.mem m.frags) :
    Good ko ds buf pktLen ⟨r, n, ⟨m, last⟩⟩ := ⟨hr.1, hr.2, hm, hc, hn, hp, heff⟩

theorem good_fail {ko : Option PktType} {ds : Dec} {buf : Bytes} {pktLen : Nat} {e : DecErr}
    {n : Nat} {m : Mem}
    (hm : m.Ok) (hc : m.SameCfg ds.mem) (hn : n = buf.length ∨ n = pktLen)
    (he : e.plain = true) (hp : m.ids.Perm ds.owned) (heff : FragsEff ko buf ds.mem m.frags) :
    Good ko ds buf pktLen (ds.fail m e n) :=
  ⟨by simp [Dec.fail], by simpa [Dec.fail] using DecErr.plain_ne he, hm, hc, hn,
    by simpa [Dec.fail, Dec.owned, DecErr.plain_handedOut he] using hp, heff⟩

theorem good_giveBack {ko : Option PktType} {ds : Dec} {buf : Bytes} {pktLen : Nat} {e : DecErr}
    {n : Nat} {m1 : Mem} {last : Option Label} {st : Storage}
    (hm : m1.Ok) (hc : m1.SameCfg ds.mem) (hn : n = buf.length ∨ n = pktLen)
    (he : e.plain = true) (hp : (m1.ids ++ [st.id]).Perm ds.owned)
    (heff : FragsEff ko buf ds.mem m1.frags) :
    Good ko ds buf pktLen (giveBack m1 last st e n) := by
  unfold giveBack
  rcases hm.provision st with ⟨m', hpr, hm', hfr', hc', hids⟩ | ⟨e', hpr, he'⟩
  · rw [hpr]
    refine ⟨by simp, by simpa using DecErr.plain_ne he, hm', hc'.trans hc, hn, ?_,
      by simpa only [hfr'] using heff⟩
    simp only [Dec.owned, hids, DecErr.plain_handedOut he, List.append_nil]
    exact (List.perm_append_singleton _ _).symm.trans hp
  · rw [hpr]
    refine ⟨by simp, ?_, hm, hc, hn, ?_, heff⟩
    · rcases he' with rfl | rfl <;> simp
    · rcases he' with rfl | rfl <;> simpa [Dec.owned, handedOut] using hp

theorem Good.mono {ko ko' : Option PktType} {ds : Dec} {buf : Bytes} {pktLen : Nat} {o : DecOut}
    (h : Good ko ds buf pktLen o) (hk : ko = ko') : Good ko' ds buf pktLen o := hk ▸ h

theorem giveBack_frags (m1 : Mem) (last : Option Label) (st : Storage) (e : DecErr) (n : Nat) :
    (giveBack m1 last st e n).st.mem.frags = m1.frags := by
  unfold giveBack Mem.provision
  split <;> rename_i h <;> revert h <;> split <;> (try split) <;> intro h <;> cases h <;> rfl

theorem giveBack_res_not_ok (m1 : Mem) (last : Option Label) (st : Storage) (e : DecErr) (n : Nat)
    (x : DecStatus) : (giveBack m1 last st e n).res ≠ .ok x := by
  unfold giveBack
  split <;> simp

theorem decapInter_good (ds : Dec) (buf : Bytes) (pktLen gseLen : Nat) (hi : ds.mem.Ok)
    (hp : pktLen = gseLen + FIXED_HEADER_LEN) (hb : pktLen ≤ buf.length) :
    Good (some .inter) ds buf pktLen (decapInter ds buf pktLen gseLen) := by
  unfold decapInter
  simp only []
  split
  · exact good_fail hi (.refl _) (.inl rfl) rfl (.refl _) (.inl rfl)
  rename_i hg
  obtain ⟨fid, hfid⟩ := get8_some_of_lt (b := buf) (off := FIXED_HEADER_LEN) (by gse_omega)
  rw [hfid]; simp only []
  split
  · exact (hi.takeFrag_panic ‹_›).elim
  · obtain ⟨rfl, rfl⟩ := hi.takeFrag_err ‹_›
    exact good_of (by simp) hi (.refl _) (.inr rfl) (by simp [handedOut, Dec.owned]) (.inl rfl)
  rename_i ctx st m1 htk
  obtain ⟨hfid', hlen, hm1, hc1, h0, hslot, hfr, hsto, hnone, hperm⟩ := hi.takeFrag_ok htk
  have heff1 : FragsEff (some .inter) buf ds.mem m1.frags :=
    .inr ⟨fid, none, hfid, hfr, by simp, .inr ⟨.inl rfl, ctx, st, hslot, hfid'⟩⟩
  split
  · exact good_giveBack hm1 hc1 (.inr rfl) rfl hperm heff1
  split
  · omega
  split
  · exact good_giveBack hm1 hc1 (.inr rfl) rfl hperm heff1
  rename_i h1 h2 h3
  obtain ⟨d, hd, hdl⟩ := slice_some_of_le (b := buf) (off := FIXED_HEADER_LEN + FRAG_ID_LEN)
    (len := gseLen - FRAG_ID_LEN) (by gse_omega)
  obtain ⟨data, hdata, hdatal⟩ := blit_some_of_le (b := st.data) (off := ctx.pduLen) (src := d)
    (by omega)
  rw [hd]; simp only [Option.bind]; rw [hdata]; simp only []
  obtain ⟨m2, hsv, hm2, hc2, hfr2, hsto2, hperm2⟩ := hm1.saveFrag_ok
    ({ ctx with pduLen := ctx.pduLen + (gseLen - FRAG_ID_LEN) }, { st with data := data })
    (hc1.1 ▸ h0) (by simpa [hc1.1, hfid'] using hnone) (by simp only [hdatal]; omega)
  have heff2 : FragsEff (some .inter) buf ds.mem m2.frags := by
    refine .inr ⟨fid, some ({ ctx with pduLen := ctx.pduLen + (gseLen - FRAG_ID_LEN) },
      { st with data := data }), hfid, ?_, ?_, .inr ⟨.inl rfl, ctx, st, hslot, hfid'⟩⟩
    · simp only [hfr2, hfr, hc1.1, hfid', List.set_set]
    · intro c s h; cases h; exact hfid'
  rw [hsv]
  exact good_of (by simp) hm2 (hc2.trans hc1) (.inr rfl)
    (by simpa [handedOut, Dec.owned] using hperm2.trans hperm) heff2

theorem decapEnd_good (crc : CrcFn) (ds : Dec) (buf : Bytes) (pktLen gseLen : Nat) (hi : ds.mem.Ok)
    (hp : pktLen = gseLen + FIXED_HEADER_LEN) (hb : pktLen ≤ buf.length) :
    Good (some .end_) ds buf pktLen (decapEnd crc ds buf pktLen gseLen) := by
  unfold decapEnd
  simp only []
  split
  · exact good_fail hi (.refl _) (.inl rfl) rfl (.refl _) (.inl rfl)
  rename_i hg
  obtain ⟨fid, hfid⟩ := get8_some_of_lt (b := buf) (off := FIXED_HEADER_LEN) (by gse_omega)
  rw [hfid]; simp only []
  split
  · exact (hi.takeFrag_panic ‹_›).elim
  · obtain ⟨rfl, rfl⟩ := hi.takeFrag_err ‹_›
    exact good_of (by simp) hi (.refl _) (.inr rfl) (by simp [handedOut, Dec.owned]) (.inl rfl)
  rename_i ctx st m1 htk
  obtain ⟨hfid', hlen, hm1, hc1, h0, hslot, hfr, hsto, hnone, hperm⟩ := hi.takeFrag_ok htk
  have heff1 : FragsEff (some .end_) buf ds.mem m1.frags :=
    .inr ⟨fid, none, hfid, hfr, by simp, .inr ⟨.inr rfl, ctx, st, hslot, hfid'⟩⟩
  split
  · omega
  split
  · exact good_giveBack hm1 hc1 (.inr rfl) rfl hperm heff1
  rename_i h1 h2
  obtain ⟨d, hd, hdl⟩ := slice_some_of_le (b := buf) (off := FIXED_HEADER_LEN + FRAG_ID_LEN)
    (len := gseLen - (FRAG_ID_LEN + CRC_LEN)) (by gse_omega)
  obtain ⟨data, hdata, hdatal⟩ := blit_some_of_le (b := st.data) (off := ctx.pduLen) (src := d)
    (by omega)
  obtain ⟨rx, hrx⟩ := get32_some_of_le (b := buf)
    (off := FIXED_HEADER_LEN + FRAG_ID_LEN + (gseLen - (FRAG_ID_LEN + CRC_LEN))) (by gse_omega)
  rw [hd]; simp only [Option.bind]; rw [hdata, hrx]; simp only []
  generalize (if ctx.fromReuse = true then 0 else ctx.label.type.len) = fl
  generalize (if ctx.fromReuse = true then ([] : Bytes) else ctx.label.bytes) = cl
  split
  · exact good_giveBack hm1 hc1 (.inr rfl) rfl hperm heff1
  obtain ⟨pdu, hpdu, -⟩ := slice_some_of_le (b := data) (off := 0)
    (len := ctx.pduLen + (gseLen - (FRAG_ID_LEN + CRC_LEN))) (by omega)
  rw [hpdu]; simp only []
  split
  · exact good_giveBack hm1 hc1 (.inr rfl) rfl hperm heff1
  · exact good_of (by simp) hm1 hc1 (.inr rfl) (by simpa [handedOut, Dec.owned] using hperm) heff1

theorem Label.new_some {lt : LabelType} {d : Bytes} (h : d.length = lt.len) :
    ∃ l, Label.new lt d = some l := by
  unfold Label.new
  rw [if_pos h]
  cases lt <;> simp only [LabelType.len, LABEL_6_B_LEN, LABEL_3_B_LEN] at h
  · match d, h with
    | [a, b, c, d, e, f], _ => exact ⟨_, rfl⟩
  · match d, h with
    | [a, b, c], _ => exact ⟨_, rfl⟩
  · exact ⟨_, rfl⟩
  · exact ⟨_, rfl⟩

theorem LabelType.len_le (lt : LabelType) : lt.len ≤ 6 := by cases lt <;> simp [LabelType.len]

/-- the walk over the extension headers as `decap_complete` / `decap_first` call it -/
def walkOf (mgr : MgrFn) (buf : Bytes) (pt0 off pktLen : Nat) : Res WalkErr WalkOk :=
  if pt0 < SECOND_RANGE_PTYPE then
    if pktLen < off then .panic
    else match slice buf off (pktLen - off) with
      | none => .panic
      | some sub => walkExt mgr sub pt0
  else .ok ⟨[], pt0, 0⟩

theorem walkOf_spec (mgr : MgrFn) (buf : Bytes) (pt0 off pktLen : Nat) (h1 : off ≤ pktLen)
    (h2 : pktLen ≤ buf.length) :
    walkOf mgr buf pt0 off pktLen ≠ .panic ∧
      ∀ w, walkOf mgr buf pt0 off pktLen = .ok w → w.len ≤ pktLen - off := by
  unfold walkOf
  split
  · rw [if_neg (by omega)]
    obtain ⟨sub, hsub, hsubl⟩ := slice_some_of_le (b := buf) (off := off) (len := pktLen - off)
      (by omega)
    rw [hsub]; simp only []
    have := walkExt_spec mgr sub pt0
    rwa [hsubl] at this
  · refine ⟨by simp, ?_⟩
    intro w hw; cases hw; simp

theorem walkOf_noext (mgr : MgrFn) (buf : Bytes) (pt0 off pktLen : Nat)
    (h : SECOND_RANGE_PTYPE ≤ pt0) : walkOf mgr buf pt0 off pktLen = .ok ⟨[], pt0, 0⟩ := by
  unfold walkOf
  rw [if_neg (by omega)]

theorem resolveLabel_bad {lt : LabelType} {label : Label} {last : Option Label} {e : DecErr}
    (h : resolveLabel lt label last = .bad e) : e.plain = true := by
  unfold resolveLabel at h
  split at h
  · split at h <;> cases h <;> rfl
  · cases h
  · cases h

theorem decapComplete_good (mgr : MgrFn) (ds : Dec) (buf : Bytes) (lt : LabelType)
    (pktLen gseLen : Nat) (hi : ds.mem.Ok)
    (hp : pktLen = gseLen + FIXED_HEADER_LEN) (hb : pktLen ≤ buf.length) :
    Good (some .complete) ds buf pktLen (decapComplete mgr ds buf lt pktLen gseLen) := by
  unfold decapComplete
  simp only []
  split
  · exact good_fail hi (.refl _) (.inl rfl) rfl (.refl _) (.inl rfl)
  rename_i hg
  have hlt6 := lt.len_le
  obtain ⟨pt0, hpt0⟩ := get16_some_of_le (b := buf) (off := FIXED_HEADER_LEN) (by gse_omega)
  rw [hpt0]; simp only []
  obtain ⟨lb, hlb, hlbl⟩ := slice_some_of_le (b := buf) (off := FIXED_HEADER_LEN + PROTOCOL_LEN)
    (len := lt.len) (by gse_omega)
  obtain ⟨label, hlabel⟩ := Label.new_some hlbl
  rw [hlb]; simp only [Option.bind]; rw [hlabel]; simp only []
  split
  · exact good_fail hi (.refl _) (.inr rfl) rfl (.refl _) (.inl rfl)
  have hwspec := walkOf_spec mgr buf pt0 (FIXED_HEADER_LEN + PROTOCOL_LEN + lt.len) pktLen
    (by gse_omega) hb
  split
  · rename_i heq
    exact (hwspec.1 heq).elim
  · exact good_fail hi (.refl _) (.inl rfl) rfl (.refl _) (.inl rfl)
  · exact good_fail hi (.refl _) (.inr rfl) rfl (.refl _) (.inl rfl)
  rename_i w heq
  have hwl : w.len ≤ pktLen - (FIXED_HEADER_LEN + PROTOCOL_LEN + lt.len) := hwspec.2 w heq
  split
  · exact (Mem.newPdu_panic ‹_›).elim
  · obtain ⟨rfl, rfl⟩ := Mem.newPdu_err ‹_›
    exact good_fail hi (.refl _) (.inr rfl) rfl (.refl _) (.inl rfl)
  rename_i st m1 hnp
  obtain ⟨hm1, hfr, hc1, hperm⟩ := hi.newPdu_ok hnp
  have heff1 : FragsEff (some .complete) buf ds.mem m1.frags := .inl hfr
  split
  · exact good_giveBack hm1 hc1 (.inr rfl) rfl hperm heff1
  split
  · gse_omega
  rename_i h1 h2
  obtain ⟨d, hd, hdl⟩ := slice_some_of_le (b := buf)
    (off := FIXED_HEADER_LEN + PROTOCOL_LEN + lt.len + w.len)
    (len := gseLen - lt.len - w.len - PROTOCOL_LEN) (by gse_omega)
  obtain ⟨data, hdata, hdatal⟩ := blit_some_of_le (b := st.data) (off := 0) (src := d)
    (by gse_omega)
  rw [hd]; simp only []; rw [hdata]; simp only []
  split
  · exact good_giveBack hm1 hc1 (.inr rfl) (resolveLabel_bad ‹_›) hperm heff1
  · exact good_of (by simp) hm1 hc1 (.inr rfl) (by simpa [handedOut, Dec.owned] using hperm) heff1

theorem decapFirst_good (mgr : MgrFn) (ds : Dec) (buf : Bytes) (lt : LabelType)
    (pktLen gseLen : Nat) (hi : ds.mem.Ok)
    (hp : pktLen = gseLen + FIXED_HEADER_LEN) (hb : pktLen ≤ buf.length) :
    Good (some .first) ds buf pktLen (decapFirst mgr ds buf lt pktLen gseLen) := by
  unfold decapFirst
  simp only []
  split
  · exact good_fail hi (.refl _) (.inl rfl) rfl (.refl _) (.inl rfl)
  rename_i hg
  have hlt6 := lt.len_le
  obtain ⟨fid, hfid⟩ := get8_some_of_lt (b := buf) (off := FIXED_HEADER_LEN) (by gse_omega)
  obtain ⟨tl, htl⟩ := get16_some_of_le (b := buf) (off := FIXED_HEADER_LEN + FRAG_ID_LEN)
    (by gse_omega)
  obtain ⟨pt0, hpt0⟩ := get16_some_of_le (b := buf)
    (off := FIXED_HEADER_LEN + FRAG_ID_LEN + TOTAL_LENGTH_LEN) (by gse_omega)
  rw [hfid, htl, hpt0]; simp only []
  obtain ⟨lb, hlb, hlbl⟩ := slice_some_of_le (b := buf)
    (off := FIXED_HEADER_LEN + FRAG_ID_LEN + TOTAL_LENGTH_LEN + PROTOCOL_LEN)
    (len := lt.len) (by gse_omega)
  obtain ⟨label, hlabel⟩ := Label.new_some hlbl
  rw [hlb]; simp only [Option.bind]; rw [hlabel]; simp only []
  split
  · exact good_fail hi (.refl _) (.inr rfl) rfl (.refl _) (.inl rfl)
  split
  · exact good_fail hi (.refl _) (.inr rfl) (resolveLabel_bad ‹_›) (.refl _) (.inl rfl)
  rename_i cur last' hres
  have hwspec := walkOf_spec mgr buf pt0
    (FIXED_HEADER_LEN + FRAG_ID_LEN + TOTAL_LENGTH_LEN + PROTOCOL_LEN + lt.len) pktLen
    (by gse_omega) hb
  split
  · rename_i heq
    exact (hwspec.1 heq).elim
  · exact good_fail hi (.refl _) (.inl rfl) rfl (.refl _) (.inl rfl)
  · exact good_fail hi (.refl _) (.inr rfl) rfl (.refl _) (.inl rfl)
  rename_i w heq
  have hwl : w.len ≤ pktLen -
      (FIXED_HEADER_LEN + FRAG_ID_LEN + TOTAL_LENGTH_LEN + PROTOCOL_LEN + lt.len) := hwspec.2 w heq
  split
  · gse_omega
  split
  · exact good_fail hi (.refl _) (.inl rfl) rfl (.refl _) (.inl rfl)
  split
  · exact (hi.newFrag_panic ‹_›).elim
  · obtain ⟨rfl, rfl⟩ := hi.newFrag_err ‹_›
    exact good_fail hi (.refl _) (.inr rfl) rfl (.refl _) (.inl rfl)
  rename_i ctx st m1 hnf
  obtain ⟨rfl, hm1, hc1, h0, hfr, hnone, hperm⟩ := hi.newFrag_ok hnf
  have heff1 : FragsEff (some .first) buf ds.mem m1.frags :=
    .inr ⟨fid, none, hfid, hfr, by simp, .inl rfl⟩
  split
  · exact good_giveBack hm1 hc1 (.inr rfl) rfl hperm heff1
  rename_i h1 h2 h3
  obtain ⟨d, hd, hdl⟩ := slice_some_of_le (b := buf)
    (off := FIXED_HEADER_LEN + FRAG_ID_LEN + TOTAL_LENGTH_LEN + PROTOCOL_LEN + lt.len + w.len)
    (len := gseLen - (FRAG_ID_LEN + TOTAL_LENGTH_LEN + lt.len + w.len + PROTOCOL_LEN))
    (by gse_omega)
  obtain ⟨data, hdata, hdatal⟩ := blit_some_of_le (b := st.data) (off := 0) (src := d)
    (by gse_omega)
  rw [hd]; simp only []; rw [hdata]; simp only []
  obtain ⟨m2, hsv, hm2, hc2, hfr2, hsto2, hperm2⟩ := hm1.saveFrag_ok
    (⟨cur, w.pt, fid, tl,
      (gseLen - (FRAG_ID_LEN + TOTAL_LENGTH_LEN + lt.len + w.len + PROTOCOL_LEN)) % 65536,
      lt == .reuse, w.exts⟩, { st with data := data })
    (hc1.1 ▸ h0) (by simpa [hc1.1] using hnone)
    (by simp only [hdatal]; have := Nat.mod_le
          (gseLen - (FRAG_ID_LEN + TOTAL_LENGTH_LEN + lt.len + w.len + PROTOCOL_LEN)) 65536
        gse_omega)
  have heff2 : FragsEff (some .first) buf ds.mem m2.frags := by
    refine .inr ⟨fid, some (⟨cur, w.pt, fid, tl,
      (gseLen - (FRAG_ID_LEN + TOTAL_LENGTH_LEN + lt.len + w.len + PROTOCOL_LEN)) % 65536,
      lt == .reuse, w.exts⟩, { st with data := data }), hfid, ?_, ?_, .inl rfl⟩
    · simp only [hfr2, hfr, hc1.1, List.set_set]
    · intro c s h; cases h; rfl
  rw [hsv]
  exact good_of (by simp) hm2 (hc2.trans hc1) (.inr rfl)
    (by simpa [handedOut, Dec.owned] using hperm2.trans hperm) heff2

/-- An accepted first fragment, in full: the context built from the packet is handed to
`new_frag`, the payload (everything behind the fixed header, fragment id, total length, protocol
type, label and extension headers) is copied to the front of the buffer `new_frag` returned, and
the pair is saved; the resulting memory is the one after that `save_frag`. -/
theorem decapFirst_accept (mgr : MgrFn) (ds : Dec) (buf : Bytes) (lt : LabelType)
    (pktLen gseLen : Nat) (hi : ds.mem.Ok)
    (hp : pktLen = gseLen + FIXED_HEADER_LEN) (hb : pktLen ≤ buf.length) (hg4 : gseLen ≤ 4095)
    (md : Meta) (hacc : (decapFirst mgr ds buf lt pktLen gseLen).res = .ok (.fragmented md)) :
    ∃ (fid pt0 : Nat) (w : WalkOk) (c : Ctx) (st : Storage) (m1 : Mem) (d data : Bytes) (m2 : Mem),
      get8 buf FIXED_HEADER_LEN = some fid ∧ c.fragId = fid ∧
      get16 buf (FIXED_HEADER_LEN + FRAG_ID_LEN + TOTAL_LENGTH_LEN) = some pt0 ∧
      walkOf mgr buf pt0 (FIXED_HEADER_LEN + FRAG_ID_LEN + TOTAL_LENGTH_LEN + PROTOCOL_LEN + lt.len)
        pktLen = .ok w ∧
      c.pduLen + (FRAG_ID_LEN + TOTAL_LENGTH_LEN + lt.len + w.len + PROTOCOL_LEN) = gseLen ∧
      ds.mem.newFrag c = (.ok (c, st), m1) ∧
      slice buf (pktLen - c.pduLen) c.pduLen = some d ∧ blit st.data 0 d = some data ∧
      m1.saveFrag (c, { st with data := data }) = (.ok (), m2) ∧
      (decapFirst mgr ds buf lt pktLen gseLen).st.mem = m2 ∧ md = ⟨0, c.pt, c.label, c.exts⟩ := by
  revert hacc
  unfold decapFirst
  simp only []
  split
  · simp [Dec.fail]
  rename_i hg
  have hlt6 := lt.len_le
  obtain ⟨fid, hfid⟩ := get8_some_of_lt (b := buf) (off := FIXED_HEADER_LEN) (by gse_omega)
  obtain ⟨tl, htl⟩ := get16_some_of_le (b := buf) (off := FIXED_HEADER_LEN + FRAG_ID_LEN)
    (by gse_omega)
  obtain ⟨pt0, hpt0⟩ := get16_some_of_le (b := buf)
    (off := FIXED_HEADER_LEN + FRAG_ID_LEN + TOTAL_LENGTH_LEN) (by gse_omega)
  rw [hfid, htl, hpt0]; simp only []
  obtain ⟨lb, hlb, hlbl⟩ := slice_some_of_le (b := buf)
    (off := FIXED_HEADER_LEN + FRAG_ID_LEN + TOTAL_LENGTH_LEN + PROTOCOL_LEN)
    (len := lt.len) (by gse_omega)
  obtain ⟨label, hlabel⟩ := Label.new_some hlbl
  rw [hlb]; simp only [Option.bind]; rw [hlabel]; simp only []
  split
  · simp [Dec.fail]
  split
  · simp [Dec.fail]
  rename_i cur last' hres
  have hwspec := walkOf_spec mgr buf pt0
    (FIXED_HEADER_LEN + FRAG_ID_LEN + TOTAL_LENGTH_LEN + PROTOCOL_LEN + lt.len) pktLen
    (by gse_omega) hb
  split
  · rename_i heq
    exact (hwspec.1 heq).elim
  · simp [Dec.fail]
  · simp [Dec.fail]
  rename_i w heq
  have hwl : w.len ≤ pktLen -
      (FIXED_HEADER_LEN + FRAG_ID_LEN + TOTAL_LENGTH_LEN + PROTOCOL_LEN + lt.len) := hwspec.2 w heq
  split
  · gse_omega
  split
  · simp [Dec.fail]
  split
  · exact (hi.newFrag_panic ‹_›).elim
  · obtain ⟨rfl, rfl⟩ := hi.newFrag_err ‹_›
    simp [Dec.fail]
  rename_i ctx st m1 hnf
  obtain ⟨rfl, hm1, hc1, h0, hfr, hnone, hperm⟩ := hi.newFrag_ok hnf
  have heff1 : FragsEff (some .first) buf ds.mem m1.frags :=
    .inr ⟨fid, none, hfid, hfr, by simp, .inl rfl⟩
  split
  · intro hacc; exact absurd hacc (giveBack_res_not_ok _ _ _ _ _ _)
  rename_i h1 h2 h3
  obtain ⟨d, hd, hdl⟩ := slice_some_of_le (b := buf)
    (off := FIXED_HEADER_LEN + FRAG_ID_LEN + TOTAL_LENGTH_LEN + PROTOCOL_LEN + lt.len + w.len)
    (len := gseLen - (FRAG_ID_LEN + TOTAL_LENGTH_LEN + lt.len + w.len + PROTOCOL_LEN))
    (by gse_omega)
  obtain ⟨data, hdata, hdatal⟩ := blit_some_of_le (b := st.data) (off := 0) (src := d)
    (by gse_omega)
  rw [hd]; simp only []; rw [hdata]; simp only []
  obtain ⟨m2, hsv, hm2, hc2, hfr2, hsto2, hperm2⟩ := hm1.saveFrag_ok
    (⟨cur, w.pt, fid, tl,
      (gseLen - (FRAG_ID_LEN + TOTAL_LENGTH_LEN + lt.len + w.len + PROTOCOL_LEN)) % 65536,
      lt == .reuse, w.exts⟩, { st with data := data })
    (hc1.1 ▸ h0) (by simpa [hc1.1] using hnone)
    (by simp only [hdatal]; have := Nat.mod_le
          (gseLen - (FRAG_ID_LEN + TOTAL_LENGTH_LEN + lt.len + w.len + PROTOCOL_LEN)) 65536
        gse_omega)
  rw [hsv]
  simp only []
  intro hacc
  have hmd := DecStatus.fragmented.inj (Res.ok.inj hacc)
  have hn : (gseLen - (FRAG_ID_LEN + TOTAL_LENGTH_LEN + lt.len + w.len + PROTOCOL_LEN)) % 65536 =
      gseLen - (FRAG_ID_LEN + TOTAL_LENGTH_LEN + lt.len + w.len + PROTOCOL_LEN) :=
    Nat.mod_eq_of_lt (by omega)
  refine ⟨fid, pt0, w, _, st, m1, d, data, m2, rfl, rfl, rfl, heq, ?_, hnf, ?_, hdata, hsv, rfl,
    hmd.symm⟩
  · simp only [hn]; gse_omega
  · simp only [hn]
    rw [← hd]; congr 1; gse_omega

/-- the packet kind when `decap` reaches one of the four per-kind functions (`none`: the buffer
is shorter than the fixed header, carries the padding pattern, or is shorter than the packet) -/
def dispatchKind (buf : Bytes) : Option PktType :=
  match get16 buf 0 with
  | none => none
  | some w =>
    match readHeader w with
    | .ok (some (gseLen, k, _)) =>
      if buf.length < gseLen + FIXED_HEADER_LEN then none else some k
    | _ => none

theorem dispatchKind_eq {buf : Bytes} {w gseLen : Nat} {k : PktType} {lt : LabelType}
    (hw : get16 buf 0 = some w) (hr : readHeader w = .ok (some (gseLen, k, lt)))
    (hl : gseLen + FIXED_HEADER_LEN ≤ buf.length) : dispatchKind buf = some k := by
  unfold dispatchKind
  simp only [hw, hr]
  rw [if_neg (by omega)]

theorem decap_dispatch_kind (crc : CrcFn) (mgr : MgrFn) (ds : Dec) {buf : Bytes} {w gseLen : Nat}
    {k : PktType} {lt : LabelType}
    (hw : get16 buf 0 = some w) (hr : readHeader w = .ok (some (gseLen, k, lt)))
    (hl : gseLen + FIXED_HEADER_LEN ≤ buf.length) :
    decap crc mgr ds buf =
      match k with
      | .complete => decapComplete mgr ds buf lt (gseLen + FIXED_HEADER_LEN) gseLen
      | .first => decapFirst mgr ds buf lt (gseLen + FIXED_HEADER_LEN) gseLen
      | .inter => decapInter ds buf (gseLen + FIXED_HEADER_LEN) gseLen
      | .end_ => decapEnd crc ds buf (gseLen + FIXED_HEADER_LEN) gseLen := by
  unfold decap
  simp only [hw, hr]
  rw [if_neg (by gse_omega), if_neg (by omega)]
  cases k <;> rfl

/-- the combined per-call contract of `decap` -/
theorem decap_good (crc : CrcFn) (mgr : MgrFn) (ds : Dec) (buf : Bytes) (hi : ds.mem.Ok) :
    ∃ pktLen, Good (dispatchKind buf) ds buf pktLen (decap crc mgr ds buf) ∧
      pktLen ≤ buf.length ∧ min FIXED_HEADER_LEN buf.length ≤ pktLen := by
  unfold decap
  simp only []
  split
  · exact ⟨buf.length, good_fail hi (.refl _) (.inl rfl) rfl (.refl _) (.inl rfl), Nat.le_refl _,
      Nat.min_le_right _ _⟩
  rename_i hlen
  obtain ⟨w, hw⟩ := get16_some_of_le (b := buf) (off := 0) (by gse_omega)
  have hwlt := get16_lt hw
  obtain ⟨r, hr⟩ := C14_read_ok w hwlt
  simp only [hw, hr]
  match r, hr with
  | none, hr =>
    exact ⟨buf.length, good_of (by simp) hi (.refl _) (.inl rfl) (by simp [handedOut, Dec.owned])
      (.inl rfl), Nat.le_refl _, Nat.min_le_right _ _⟩
  | some (gseLen, k, lt), hr =>
    simp only []
    split
    · exact ⟨buf.length, good_fail hi (.refl _) (.inl rfl) rfl (.refl _) (.inl rfl), Nat.le_refl _,
        Nat.min_le_right _ _⟩
    rename_i hpk
    have hk := dispatchKind_eq hw hr (Nat.le_of_not_lt hpk)
    refine ⟨gseLen + FIXED_HEADER_LEN, ?_, by omega, by omega⟩
    rw [hk]
    cases k
    · exact decapComplete_good mgr ds buf lt _ gseLen hi rfl (by omega)
    · exact decapFirst_good mgr ds buf lt _ gseLen hi rfl (by omega)
    · exact decapInter_good ds buf _ gseLen hi rfl (by omega)
    · exact decapEnd_good crc ds buf _ gseLen hi rfl (by omega)

/-! ### Histories of public operations -/

/-- `Decapsulator::new` on a fresh `SimpleGseMemory::new(n, sz, _, _)` -/
def Dec.new (n sz : Nat) : Dec := ⟨Mem.new n sz, none⟩

/-- a call of one of the public methods `provision_storage`, `new_pdu`, `reset_last_label`,
`decap` -/
inductive DecOp where
  | provision (s : Storage)
  | newPdu
  | reset
  | decap (buf : Bytes)
  deriving DecidableEq, Repr

/-- state after a public operation -/
def Dec.step (crc : CrcFn) (mgr : MgrFn) (ds : Dec) : DecOp → Dec
  | .provision s => ⟨(ds.mem.provision s).2, ds.last⟩
  | .newPdu => ⟨ds.mem.newPdu.2, ds.last⟩
  | .reset => ⟨ds.mem, none⟩
  | .decap buf => (decap crc mgr ds buf).st

/-- state after a history of public operations -/
def Dec.run (crc : CrcFn) (mgr : MgrFn) (ds : Dec) (ops : List DecOp) : Dec :=
  ops.foldl (Dec.step crc mgr) ds

theorem Dec.inv_new (n sz : Nat) : (Dec.new n sz).Inv := by
  rw [Dec.inv_iff]
  refine ⟨Mem.wf_new n sz, ?_⟩
  intro k c s hk
  simp only [Dec.new, Mem.new] at hk
  rw [List.getElem?_replicate] at hk
  split at hk <;> cases hk

theorem Dec.inv_step (crc : CrcFn) (mgr : MgrFn) {ds : Dec} (h : ds.Inv) (op : DecOp) :
    (ds.step crc mgr op).Inv := by
  rw [Dec.inv_iff] at h ⊢
  cases op with
  | provision s =>
    rcases h.provision s with ⟨m', hp, hm', -⟩ | ⟨e, hp, -⟩ <;> simpa [Dec.step, hp]
  | newPdu =>
    simp only [Dec.step]
    match hn : ds.mem.newPdu with
    | (.ok st, m1) => exact (h.newPdu_ok hn).1
    | (.err e, m1) => rw [(Mem.newPdu_err hn).1]; exact h
    | (.panic, m1) => exact (Mem.newPdu_panic hn).elim
  | reset => exact h
  | decap buf =>
    obtain ⟨_, hg, -⟩ := decap_good crc mgr ds buf h
    exact hg.ok

theorem Dec.inv_run (crc : CrcFn) (mgr : MgrFn) {ds : Dec} (h : ds.Inv) (ops : List DecOp) :
    (ds.run crc mgr ops).Inv := by
  induction ops generalizing ds with
  | nil => exact h
  | cons op ops ih => exact ih (Dec.inv_step crc mgr h op)

/-! ### Fixtures for the `example`s of Props/C05, C07, C08: a 2-slot decapsulator (ids 1 and 3 alias
on slot 1, id 2 uses slot 0) -/
namespace DFix

/-- a CRC calculator returning 0 (the CRC is a parameter of every theorem) -/
def zcrc : CrcFn := fun _ _ _ _ => 0
/-- an 8-byte buffer with ghost identity `i` -/
def st8 (i : Nat) : Storage := ⟨i, List.replicate 8 0⟩
/-- first fragment: broadcast label, fragment id `fid`, total length 7 (a 5-byte PDU),
protocol type 0x0800, 3 payload bytes -/
def pFirst (fid : Nat) : Bytes := [0xA0, 0x08, u8 fid, 0x00, 0x07, 0x08, 0x00, 0x11, 0x12, 0x13]
/-- intermediate fragment of id `fid` with 1 payload byte -/
def pInter (fid : Nat) : Bytes := [0x30, 0x02, u8 fid, 0x14]
/-- end fragment of id `fid`: 1 payload byte and the CRC of `zcrc` -/
def pEnd (fid : Nat) : Bytes := [0x70, 0x06, u8 fid, 0x15, 0, 0, 0, 0]
/-- complete packet: broadcast label, protocol type 0x0800, 3 payload bytes -/
def pComplete : Bytes := [0xE0, 0x05, 0x08, 0x00, 0x21, 0x22, 0x23]
/-- padding -/
def pPad : Bytes := [0x00, 0x00, 0x00]
/-- 2 slots, PDU size 8, three free buffers (top first: 3, 2, 1) -/
def d0 : Dec :=
  (Dec.new 2 8).run zcrc simpleMgr [.provision (st8 1), .provision (st8 2), .provision (st8 3)]
/-- … after a first fragment of id 1: slot 1 holds it, in buffer 3 -/
def d1 : Dec := d0.step zcrc simpleMgr (.decap (pFirst 1))
/-- … and a first fragment of id 2: slot 0 holds it, in buffer 2; buffer 1 is free -/
def d2 : Dec := d1.step zcrc simpleMgr (.decap (pFirst 2))

end DFix

end Gse
