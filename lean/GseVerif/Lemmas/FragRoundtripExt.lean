/-
Joint sender/receiver invariant for the fragmented round trip **with extension headers**
(property C13, fragmented case).

`encap_frag` knows nothing of extensions: after the first fragment (written by `encap_ext`) the
continuation packets are those of Lemmas/FragRoundtrip.lean.  The receiver keeps the extension
list it parsed from the first fragment in the saved context (`Ctx.exts`), `decap_intermediate`
copies it into the metadata of every `FragmentedPkt` and saves it back unchanged, `decap_end`
delivers it with the completed PDU.  So the invariant is `Sync` of Lemmas/FragRoundtrip.lean with an
arbitrary extension list `exts` in the slot's context instead of `[]`:

`SyncX crc pdu fid lblW cur pt sid exts ctx ds` — slot `fid % max_frag_id` of the receiver holds
the context `⟨cur, pt, fid, total length, ctx.pos, label was re-use, exts⟩` with a storage (identity
`sid`) whose first `ctx.pos` bytes are the first `ctx.pos` bytes of the PDU and which can hold all
of it; the sender context carries `fid` and the CRC over PDU, `pt`, total length and label bytes as
written (the CRC does not cover the extensions).

`syncx_inter` keeps it over one `encap_frag` + `decap`, `syncx_end` turns it into the delivered PDU
with metadata (PDU length, `pt`, `cur`, **`exts`**), `syncx_run` is the induction over any finite
sequence of output buffers.  `sync_iff_syncx_nil`: at `exts = []` this is `Sync` (whose additional
field `Mem.WF` is not needed by the induction: that the slot index is in range follows from the slot
being occupied; so `SyncX` does not carry it).

Everything is for every CRC calculator, every extension manager, every buffer contents, every
protocol type (also one of the mandatory range: the id of a final mandatory extension), every
extension list.
-/
import GseVerif.Lemmas.FragRoundtrip

namespace Gse
open Gen

/-! ### 1. The memory under `take_frag` / `save_frag` of the same fragment id (no `Mem.WF` needed) -/

/-- an occupied (or empty) slot is a slot: its index is in range -/
theorem slot_index_lt {fr : List (Option (Ctx × Storage))} {k : Nat} {v : Option (Ctx × Storage)}
    (h : fr[k]? = some v) : k < fr.length := by
  obtain ⟨hlt, _⟩ := List.getElem?_eq_some_iff.mp h
  exact hlt

/-- `Mem.take_save` of Lemmas/FragRoundtrip.lean without the well-formedness hypothesis -/
theorem Mem.take_save_occ {m : Mem} (h0 : m.maxFragId ≠ 0) {fid : Nat} {c : Ctx}
    {st : Storage} (hs : m.frags[fid % m.maxFragId]? = some (some (c, st))) (hc : c.fragId = fid)
    (c' : Ctx) (st' : Storage) (hc' : c'.fragId = fid) :
    m.takeFrag fid = (.ok (c, st), { m with frags := m.frags.set (fid % m.maxFragId) none }) ∧
    ({ m with frags := m.frags.set (fid % m.maxFragId) none } : Mem).saveFrag (c', st')
      = (.ok (), { m with frags := m.frags.set (fid % m.maxFragId) (some (c', st')) }) := by
  have hlt := slot_index_lt hs
  have hpos := Nat.pos_of_ne_zero h0
  refine ⟨C17_takeFrag_hit m hpos fid c st hs hc, ?_⟩
  have h := (C17_saveFrag_free ({ m with frags := m.frags.set (fid % m.maxFragId) none } : Mem)
    hpos (c', st') (by simp only [hc', List.getElem?_set_self hlt])).1
  rw [h]
  simp only [hc', List.set_set]

/-! ### 2. The invariant -/

/-- `Sync` (Lemmas/FragRoundtrip.lean) with the extension list `exts` in the saved context: the
receiver `ds` is in step with the sender context `ctx` for the PDU `pdu` sent under fragment id `fid`
with the label `lblW` on the wire, protocol type `pt` and extension list `exts` in the first
fragment; `cur` is the label the receiver resolved, `sid` the identity of the storage it
reassembles in. -/
structure SyncX (crc : CrcFn) (pdu : Bytes) (fid : Nat) (lblW cur : Label) (pt sid : Nat)
    (exts : List Ext) (ctx : FragCtx) (ds : Dec) : Prop where
  slots : ds.mem.maxFragId ≠ 0
  fid_lt : fid < 256
  tl_le : pdu.length + PROTOCOL_LEN + lblW.len ≤ TOTAL_LEN_MAX
  cur_eq : lblW ≠ .reuse → cur = lblW
  ctx_fid : ctx.fragId = fid
  ctx_crc : ctx.crc = crc pdu pt (pdu.length + PROTOCOL_LEN + lblW.len) lblW.bytes
  pos_le : ctx.pos ≤ pdu.length
  slot : ∃ st, ds.mem.frags[fid % ds.mem.maxFragId]?
        = some (some (⟨cur, pt, fid, pdu.length + PROTOCOL_LEN + lblW.len, ctx.pos,
            lblW.type == .reuse, exts⟩, st)) ∧
      st.id = sid ∧ st.data.take ctx.pos = pdu.take ctx.pos ∧ pdu.length ≤ st.data.length

/-- at `exts = []` the invariant is `Sync` (which additionally records `Mem.WF`) -/
theorem sync_iff_syncx_nil {crc : CrcFn} {pdu : Bytes} {fid : Nat} {lblW cur : Label} {pt sid : Nat}
    {ctx : FragCtx} {ds : Dec} :
    Sync crc pdu fid lblW cur pt sid ctx ds ↔
      ds.mem.WF ∧ SyncX crc pdu fid lblW cur pt sid [] ctx ds :=
  ⟨fun ⟨a, b, c, d, e, f, g, h, i⟩ => ⟨a, b, c, d, e, f, g, h, i⟩,
   fun ⟨a, b, c, d, e, f, g, h, i⟩ => ⟨a, b, c, d, e, f, g, h, i⟩⟩

/-- the slot index is in range -/
theorem SyncX.slot_lt {crc : CrcFn} {pdu : Bytes} {fid : Nat} {lblW cur : Label} {pt sid : Nat}
    {exts : List Ext} {ctx : FragCtx} {ds : Dec}
    (h : SyncX crc pdu fid lblW cur pt sid exts ctx ds) :
    fid % ds.mem.maxFragId < ds.mem.frags.length := by
  obtain ⟨st, hs, _⟩ := h.slot
  exact slot_index_lt hs

section steps
variable (crc : CrcFn) (mgr : MgrFn) {pdu : Bytes} {fid : Nat} {lblW cur : Label} {pt sid : Nat}
  {exts : List Ext} {ctx ctx' : FragCtx} {ds : Dec} {buf buf' : Bytes} {n : Nat}

/-- **Intermediate fragment.**  In step before, `encap_frag` returns `Fragmented(n, ctx')`: `decap`
of the `n` bytes written (followed by anything) reports `FragmentedPkt` with protocol type, label
and the extension list of the first fragment, consumes exactly `n`, and the receiver is in step
with `ctx'`; the free list, the label memory and all other slots are unchanged. -/
theorem syncx_inter (hS : SyncX crc pdu fid lblW cur pt sid exts ctx ds)
    (he : encapFrag pdu ctx buf = (.ok (.fragmented n ctx'), buf')) (rest : Bytes) :
    ∃ ds', decap crc mgr ds (buf'.take n ++ rest)
        = ⟨.ok (.fragmented ⟨0, pt, cur, exts⟩), n, ds'⟩ ∧
      SyncX crc pdu fid lblW cur pt sid exts ctx' ds' ∧
      Dec.SameBut (fid % ds.mem.maxFragId) ds ds' ∧ (buf'.take n).length = n := by
  have hlt := hS.slot_lt
  obtain ⟨h0, hfid, htl, hcur, hcf, hcc, hpos, st, hslot, hsid, hdat, hcap⟩ := hS
  obtain ⟨k, hk1, hkp, hkg, hn, hctx', hpl, htake, hnb⟩ :=
    encapFrag_fragmented_inv (by gse_omega) he
  subst hctx'
  rw [hcf] at htake
  generalize hpay : (pdu.drop ctx.pos).take k = payload at hpl htake
  obtain ⟨htk, hsv⟩ := Mem.take_save_occ h0 hslot rfl
    ⟨cur, pt, fid, pdu.length + PROTOCOL_LEN + lblW.len, ctx.pos + payload.length,
      lblW.type == .reuse, exts⟩
    ⟨st.id, st.data.take ctx.pos ++ payload ++ st.data.drop (ctx.pos + payload.length)⟩ rfl
  have hdec := decap_inter_pkt_ok crc mgr ds rest hfid (by omega) (by omega) htk
    (by dsimp only; gse_omega) (by dsimp only; omega) hsv
  have hL := interPkt_length fid payload
  refine ⟨⟨{ ds.mem with frags := (ds.mem.frags.set (fid % ds.mem.maxFragId)
      (some (⟨cur, pt, fid, pdu.length + PROTOCOL_LEN + lblW.len, ctx.pos + payload.length,
          lblW.type == .reuse, exts⟩,
        ⟨st.id, st.data.take ctx.pos ++ payload ++ st.data.drop (ctx.pos + payload.length)⟩))) },
      ds.last⟩, ?_, ?_, Dec.sameBut_set ds _ _, by rw [htake, hL, hn, hpl]⟩
  · rw [htake, hdec, hL, hn, hpl]
  · refine ⟨h0, hfid, htl, hcur, hcf, hcc,
      by show ctx.pos + k ≤ pdu.length; omega,
      ⟨st.id, st.data.take ctx.pos ++ payload ++ st.data.drop (ctx.pos + payload.length)⟩,
      ?_, hsid, ?_, ?_⟩
    · show (ds.mem.frags.set _ _)[_]? = _
      rw [List.getElem?_set_self hlt, hpl]
    · show (st.data.take ctx.pos ++ payload ++ st.data.drop (ctx.pos + payload.length)).take
        (ctx.pos + k) = pdu.take (ctx.pos + k)
      have h1 : (st.data.take ctx.pos ++ payload).length = ctx.pos + k := by
        rw [List.length_append, List.length_take, hpl]; omega
      rw [List.take_left' h1, hdat, ← hpay]
      exact List.take_add.symm
    · show pdu.length ≤ (st.data.take ctx.pos ++ payload
        ++ st.data.drop (ctx.pos + payload.length)).length
      simp only [List.length_append, List.length_take, List.length_drop]
      omega

/-- **End fragment.**  In step before, `encap_frag` returns `Completed(n)` and the CRC of the
context is a `u32`: `decap` of the `n` bytes written (followed by anything) passes the
total-length check and the CRC check and reports `CompletedPkt` with the storage that was in the
slot — same identity, same size, now starting with exactly the PDU — and metadata (PDU length,
protocol type, label, **the extension list of the first fragment**); exactly `n` is consumed; the
slot is empty afterwards and nothing else has changed. -/
theorem syncx_end (hS : SyncX crc pdu fid lblW cur pt sid exts ctx ds) (hc32 : ctx.crc < 2 ^ 32)
    (he : encapFrag pdu ctx buf = (.ok (.completed n), buf')) (rest : Bytes) :
    ∃ st', decap crc mgr ds (buf'.take n ++ rest) =
        ⟨.ok (.completed st' ⟨pdu.length, pt, cur, exts⟩), n,
         ⟨{ ds.mem with frags := ds.mem.frags.set (fid % ds.mem.maxFragId) none }, ds.last⟩⟩ ∧
      st'.id = sid ∧ st'.data.take pdu.length = pdu ∧
      (∃ c st, ds.mem.frags[fid % ds.mem.maxFragId]? = some (some (c, st)) ∧
        st'.id = st.id ∧ st'.data.length = st.data.length ∧
        st'.data.drop pdu.length = st.data.drop pdu.length) ∧
      (buf'.take n).length = n := by
  obtain ⟨h0, hfid, htl, hcur, hcf, hcc, hpos, st, hslot, hsid, hdat, hcap⟩ := hS
  obtain ⟨_, hlen, hn, htake, hnb⟩ := encapFrag_completed_inv he
  rw [hcf] at htake
  have hpl : (pdu.drop ctx.pos).length = pdu.length - ctx.pos := List.length_drop
  have htk := C17_takeFrag_hit ds.mem (Nat.pos_of_ne_zero h0) fid _ st hslot rfl
  obtain ⟨hl1, hl2⟩ := Sync.label_agree hcur
  have hpdu : st.data.take ctx.pos ++ pdu.drop ctx.pos = pdu := by
    rw [hdat]; exact List.take_append_drop _ _
  have hdec := decap_end_pkt crc mgr ds rest (payload := pdu.drop ctx.pos) hfid hc32
    (by rw [hpl]; exact hlen) htk (by dsimp only; omega)
    (by dsimp only; rw [hl1, hpl]; omega)
    (by dsimp only; rw [hl2, hpdu, hcc])
  have hL := endPkt_length fid (pdu.drop ctx.pos) ctx.crc
  have hsum : ctx.pos + (pdu.drop ctx.pos).length = pdu.length := by omega
  dsimp only at hdec
  rw [hsum] at hdec
  refine ⟨⟨st.id, st.data.take ctx.pos ++ pdu.drop ctx.pos ++ st.data.drop pdu.length⟩,
    by rw [htake, hdec, hL, hn, hpl], hsid, ?_, ⟨_, st, hslot, rfl, ?_, ?_⟩,
    by rw [htake, hL, hn, hpl]⟩
  · show (st.data.take ctx.pos ++ pdu.drop ctx.pos ++ st.data.drop pdu.length).take pdu.length = pdu
    rw [hpdu]; exact List.take_left' rfl
  · show (st.data.take ctx.pos ++ pdu.drop ctx.pos ++ st.data.drop pdu.length).length = _
    rw [hpdu, List.length_append, List.length_drop]; omega
  · show (st.data.take ctx.pos ++ pdu.drop ctx.pos ++ st.data.drop pdu.length).drop pdu.length = _
    rw [hpdu]; exact List.drop_left' rfl

end steps

/-! ### 3. A whole schedule -/

/-- what the receiver reports for an intermediate (or first) fragment of `n` bytes of a PDU sent
with the extension list `exts` -/
def fragOutX (pt : Nat) (cur : Label) (exts : List Ext) (n : Nat) : Res DecErr DecStatus × Nat :=
  (.ok (.fragmented ⟨0, pt, cur, exts⟩), n)

theorem fragOutX_nil (pt : Nat) (cur : Label) : fragOutX pt cur [] = fragOut pt cur := rfl

/-- **A whole schedule.**  In step before, any sequence of output buffers: every packet produced
has the length `encap_frag` reported for it, and feeding the packets in order to `decap`
* while the run is open (`some c`): reports `FragmentedPkt` with protocol type, label and extension
  list for each, consumes each reported length, and the receiver is in step with `c`;
* when the run completed (`none`): reports `FragmentedPkt` for all but the last packet and
  `CompletedPkt` for the last one — the storage `sid`, starting with exactly the PDU, metadata
  (PDU length, protocol type, label, extension list) — consuming each reported length; the slot is
  empty afterwards.
Free list, label memory, configuration and all other slots are unchanged throughout. -/
theorem syncx_run (crc : CrcFn) (mgr : MgrFn) {pdu : Bytes} {fid : Nat} {lblW cur : Label}
    {pt sid : Nat} {exts : List Ext}
    (hc32 : crc pdu pt (pdu.length + PROTOCOL_LEN + lblW.len) lblW.bytes < 2 ^ 32)
    (bufs : List Bytes) :
    ∀ (ctx : FragCtx) (ds : Dec), SyncX crc pdu fid lblW cur pt sid exts ctx ds →
      (∀ q ∈ (fragSends pdu ctx bufs).1, q.2.length = q.1) ∧
      (∀ c, (fragSends pdu ctx bufs).2 = some c →
        (rxRun crc mgr ds ((fragSends pdu ctx bufs).1.map Prod.snd)).1
          = (fragSends pdu ctx bufs).1.map (fun q => fragOutX pt cur exts q.1) ∧
        SyncX crc pdu fid lblW cur pt sid exts c
          (rxRun crc mgr ds ((fragSends pdu ctx bufs).1.map Prod.snd)).2 ∧
        Dec.SameBut (fid % ds.mem.maxFragId) ds
          (rxRun crc mgr ds ((fragSends pdu ctx bufs).1.map Prod.snd)).2) ∧
      ((fragSends pdu ctx bufs).2 = none →
        ∃ init nLast st', (fragSends pdu ctx bufs).1.map Prod.fst = init ++ [nLast] ∧
          (rxRun crc mgr ds ((fragSends pdu ctx bufs).1.map Prod.snd)).1
            = init.map (fragOutX pt cur exts)
              ++ [(.ok (.completed st' ⟨pdu.length, pt, cur, exts⟩), nLast)] ∧
          st'.id = sid ∧ st'.data.take pdu.length = pdu ∧
          Dec.SameBut (fid % ds.mem.maxFragId) ds
            (rxRun crc mgr ds ((fragSends pdu ctx bufs).1.map Prod.snd)).2 ∧
          (rxRun crc mgr ds ((fragSends pdu ctx bufs).1.map Prod.snd)).2.mem.frags[
            fid % ds.mem.maxFragId]? = some none) := by
  induction bufs with
  | nil =>
    intro ctx ds hS
    refine ⟨fun q hq => (by cases hq), fun c hc => ?_, fun h => (by cases h)⟩
    cases hc
    exact ⟨rfl, hS, Dec.SameBut.refl _ _⟩
  | cons buf rest ih =>
    intro ctx ds hS
    rcases hE : encapFrag pdu ctx buf with ⟨(st | e | _), b⟩
    · cases st with
      | completed n =>
        have hs : fragSends pdu ctx (buf :: rest) = ([(n, b.take n)], none) := by
          simp only [fragSends, hE]
        rw [hs]
        obtain ⟨st', hdec, hid, hdat, _, hlen⟩ :=
          syncx_end crc mgr hS (by rw [hS.ctx_crc]; exact hc32) hE []
        rw [List.append_nil] at hdec
        refine ⟨fun q hq => ?_, fun c hc => (by cases hc), fun _ => ?_⟩
        · rw [List.mem_singleton] at hq; subst hq; exact hlen
        · refine ⟨[], n, st', rfl, ?_, hid, hdat, ?_, ?_⟩
          · simp only [List.map_cons, List.map_nil, rxRun, hdec, List.nil_append]
          · simp only [List.map_cons, List.map_nil, rxRun, hdec]
            exact Dec.sameBut_set ds _ _
          · simp only [List.map_cons, List.map_nil, rxRun, hdec]
            exact List.getElem?_set_self hS.slot_lt
      | fragmented n ctx' =>
        have hs : fragSends pdu ctx (buf :: rest)
            = ((n, b.take n) :: (fragSends pdu ctx' rest).1, (fragSends pdu ctx' rest).2) := by
          simp only [fragSends, hE]
        rw [hs]
        obtain ⟨ds1, hdec, hS1, hsb, hlen⟩ := syncx_inter crc mgr hS hE []
        rw [List.append_nil] at hdec
        obtain ⟨ih1, ih2, ih3⟩ := ih ctx' ds1 hS1
        have hk : fid % ds1.mem.maxFragId = fid % ds.mem.maxFragId := by rw [hsb.2.1]
        rw [hk] at ih2 ih3
        have hrx : ∀ ps, rxRun crc mgr ds (b.take n :: ps)
            = (fragOutX pt cur exts n :: (rxRun crc mgr ds1 ps).1, (rxRun crc mgr ds1 ps).2) := by
          intro ps; simp only [rxRun, hdec, fragOutX]
        simp only [List.map_cons, hrx]
        refine ⟨fun q hq => ?_, fun c hc => ?_, fun hn => ?_⟩
        · rcases List.mem_cons.mp hq with rfl | hq
          · exact hlen
          · exact ih1 q hq
        · obtain ⟨i1, i2, i3⟩ := ih2 c hc
          exact ⟨by rw [i1], i2, hsb.trans i3⟩
        · obtain ⟨init, nLast, st', j1, j2, j3, j4, j5, j6⟩ := ih3 hn
          refine ⟨n :: init, nLast, st', by rw [j1]; rfl, by rw [j2]; rfl, j3, j4, hsb.trans j5, j6⟩
    · rw [fragSends_skip rest (by rw [hE]; simp)]
      exact ih ctx ds hS
    · rw [fragSends_skip rest (by rw [hE]; simp)]
      exact ih ctx ds hS

end Gse

#print axioms Gse.sync_iff_syncx_nil
#print axioms Gse.syncx_inter
#print axioms Gse.syncx_end
#print axioms Gse.syncx_run
