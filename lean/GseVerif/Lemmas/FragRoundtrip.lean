/-
Joint sender/receiver invariant for the fragmented round trip (property C02).

Sender side: `fragSends pdu ctx bufs` offers the output buffers `bufs`, in order, to `encap_frag`,
threads the returned context, skips the buffers that are rejected, and collects for every produced
packet the length `encap_frag` reported and the packet itself (the first `n` bytes of the output
buffer).  `fragPackets pdu ctx sizes` is the same run over zero-filled buffers of the given sizes
(the schedule of `fragRun`, Props/C11.lean), and its packets are `fragRun`'s payloads wrapped in
their headers (`fragPackets_wrap`).

Receiver side: `rxRun crc mgr ds pkts` feeds the packets, in order, to `decap` and collects result
and consumed length of every call.

Invariant: `Sync crc pdu fid lblW cur pt sid ctx ds` — the receiver's slot `fid % max_frag_id`
holds the context of this PDU with exactly the `ctx.pos` bytes the sender has emitted so far.
`sync_first` establishes it from `encap` + `decap`, `sync_inter` keeps it over one
`encap_frag` + `decap`, `sync_end` turns it into the delivered PDU, `sync_run` is the induction
over a whole schedule.

Everything is for every CRC calculator `crc` (`CrcFn` is `Nat`-valued in the model; that the value
is a `u32` is an explicit hypothesis where the CRC is read back), every extension manager, every
buffer contents, unbounded lengths.
-/
import GseVerif.Lemmas.EncapLayer
import GseVerif.Lemmas.DecapLayer
import GseVerif.Lemmas.Memory
import GseVerif.Props.C11
import GseVerif.Props.C17

namespace Gse
open Gen

/-! ### 1. The two runs -/

/-- Feed the packets `pkts`, in order, to `decap`; collect (result, consumed length) of every call
and return the final receiver state. -/
def rxRun (crc : CrcFn) (mgr : MgrFn) (ds : Dec) :
    List Bytes → List (Res DecErr DecStatus × Nat) × Dec
  | [] => ([], ds)
  | p :: ps =>
    (((decap crc mgr ds p).res, (decap crc mgr ds p).consumed)
        :: (rxRun crc mgr (decap crc mgr ds p).st ps).1,
     (rxRun crc mgr (decap crc mgr ds p).st ps).2)

/-- Offer the output buffers `bufs`, in order, to `encap_frag` (buffers it rejects are skipped, the
context is then kept); the run stops at the end packet.  Result: for every produced packet the
length reported by `encap_frag` and the packet (the first `n` bytes of the output buffer), and the
context still open (`none` when the PDU is completed). -/
def fragSends (pdu : Bytes) (ctx : FragCtx) : List Bytes → List (Nat × Bytes) × Option FragCtx
  | [] => ([], some ctx)
  | buf :: rest =>
    match encapFrag pdu ctx buf with
    | (.ok (.completed n), b) => ([(n, b.take n)], none)
    | (.ok (.fragmented n ctx'), b) =>
      ((n, b.take n) :: (fragSends pdu ctx' rest).1, (fragSends pdu ctx' rest).2)
    | _ => fragSends pdu ctx rest

/-- zero-filled buffers of the given sizes (the buffers of `fragRun`) -/
def zeroBufs (sizes : List Nat) : List Bytes := sizes.map (fun sz => List.replicate sz 0)

/-- the packets of a schedule of buffer sizes, and the context still open -/
def fragPackets (pdu : Bytes) (ctx : FragCtx) (sizes : List Nat) : List Bytes × Option FragCtx :=
  ((fragSends pdu ctx (zeroBufs sizes)).1.map Prod.snd, (fragSends pdu ctx (zeroBufs sizes)).2)

/-- the lengths `encap_frag` reported for these packets -/
def fragLens (pdu : Bytes) (ctx : FragCtx) (sizes : List Nat) : List Nat :=
  (fragSends pdu ctx (zeroBufs sizes)).1.map Prod.fst

theorem rxRun_length (crc : CrcFn) (mgr : MgrFn) (pkts : List Bytes) :
    ∀ ds : Dec, (rxRun crc mgr ds pkts).1.length = pkts.length := by
  induction pkts with
  | nil => intro ds; rfl
  | cons p ps ih => intro ds; simp only [rxRun, List.length_cons, ih]

/-! ### 2. What the sender produced, from the status it returned -/

section sender
variable {crc : CrcFn} {es : Enc} {pdu : Bytes} {fid pt : Nat} {label : Label} {ctx ctx' : FragCtx}
  {buf buf' : Bytes} {n : Nat}

/-- `encap` returned `Fragmented(n, ctx)`: the first `n` bytes of the output buffer are the first
fragment carrying the label as written and the first `ctx.pos` PDU bytes. -/
theorem encap_fragmented_inv
    (he : (encap crc es pdu fid pt label buf).res = .ok (.fragmented n ctx)) :
    label ≠ zeroLabel ∧ ¬(MAX_MANDATORY_VAL_PTYPE ≤ pt ∧ pt < SECOND_RANGE_PTYPE) ∧
    ctx.pos < pdu.length ∧
    pdu.length + PROTOCOL_LEN + (checkLabelReUse es label).1.len ≤ TOTAL_LEN_MAX ∧
    FRAG_ID_LEN + TOTAL_LENGTH_LEN + PROTOCOL_LEN + (checkLabelReUse es label).1.len + ctx.pos
      ≤ GSE_LEN_MAX ∧
    n = FIRST_FRAG_LEN + (checkLabelReUse es label).1.len + ctx.pos ∧
    ctx.fragId = fid ∧
    ctx.crc = crc pdu pt (pdu.length + PROTOCOL_LEN + (checkLabelReUse es label).1.len)
      (checkLabelReUse es label).1.bytes ∧
    (encap crc es pdu fid pt label buf).buf.take n
      = firstPkt (checkLabelReUse es label).1 fid
          (pdu.length + PROTOCOL_LEN + (checkLabelReUse es label).1.len) pt (pdu.take ctx.pos) ∧
    n ≤ buf.length := by
  have hc := encap_cases crc es pdu fid pt label buf
  dsimp only at hc
  generalize (checkLabelReUse es label).1 = lbl at hc ⊢
  rcases hc with ⟨_, ho⟩ | ⟨_, _, ho⟩ | ⟨_, _, _, ho⟩ | ⟨_, _, _, _, ho⟩ | ⟨_, _, _, _, _, ho⟩ |
    ⟨hz, hpt, hnf, hb, ht, hlt, ho⟩ <;> rw [ho] at he ⊢ <;> cases he
  dsimp only
  have hm := firstPayloadLen_eq lbl.len buf.length
  generalize firstPayloadLen lbl.len buf.length = m at hlt hm ⊢
  have htk : (pdu.take m).length = m := by rw [List.length_take]; omega
  have hl6 := lbl.len_le_six
  refine ⟨hz, hpt, hlt, ht, by gse_omega, rfl, rfl, rfl, ?_, by gse_omega⟩
  have hL := firstPkt_length lbl fid (pdu.length + PROTOCOL_LEN + lbl.len) pt (pdu.take m)
  rw [htk] at hL
  rw [firstPkt_of_len htk]
  exact List.take_left' hL

/-- `encap_frag` returned `Fragmented(n, ctx')`: the first `n` bytes of the output buffer are an
intermediate fragment carrying the `k ≥ 1` PDU bytes from `ctx.pos` on; the context advanced by
`k`. -/
theorem encapFrag_fragmented_inv (hp : pdu.length ≤ TOTAL_LEN_MAX)
    (he : encapFrag pdu ctx buf = (.ok (.fragmented n ctx'), buf')) :
    ∃ k, 1 ≤ k ∧ ctx.pos + k ≤ pdu.length ∧ FRAG_ID_LEN + k ≤ GSE_LEN_MAX ∧
      n = FIXED_HEADER_LEN + (FRAG_ID_LEN + k) ∧ ctx' = ⟨ctx.fragId, ctx.crc, ctx.pos + k⟩ ∧
      ((pdu.drop ctx.pos).take k).length = k ∧
      buf'.take n = interPkt ctx.fragId ((pdu.drop ctx.pos).take k) ∧ n ≤ buf.length := by
  have hc := encapFrag_cases pdu ctx buf
  dsimp only at hc
  rcases hc with ⟨_, ho⟩ | ⟨_, _, ho⟩ | ⟨hpos, hf, hb, hn1, hnr, ho, hmod⟩ | ⟨_, _, _, ho⟩ <;>
    rw [ho] at he <;> cases he
  have hm := interPayloadLen_eq (pdu.length - ctx.pos) buf.length
  generalize interPayloadLen (pdu.length - ctx.pos) buf.length = k at hn1 hnr hm hmod ⊢
  have hpl : ((pdu.drop ctx.pos).take k).length = k := by
    rw [List.length_take, List.length_drop]; omega
  refine ⟨k, hn1, by omega, by gse_omega, rfl, by rw [hmod hp], hpl, ?_, by gse_omega⟩
  have hL := interPkt_length ctx.fragId ((pdu.drop ctx.pos).take k)
  rw [hpl] at hL
  rw [interPkt_of_len hpl]
  exact List.take_left' hL

/-- `encap_frag` returned `Completed(n)`: the first `n` bytes of the output buffer are the end
fragment carrying everything from `ctx.pos` on and the CRC of the context. -/
theorem encapFrag_completed_inv (he : encapFrag pdu ctx buf = (.ok (.completed n), buf')) :
    ctx.pos ≤ pdu.length ∧ FRAG_ID_LEN + (pdu.length - ctx.pos) + CRC_LEN ≤ GSE_LEN_MAX ∧
      n = FIXED_HEADER_LEN + FRAG_ID_LEN + (pdu.length - ctx.pos) + CRC_LEN ∧
      buf'.take n = endPkt ctx.fragId (pdu.drop ctx.pos) ctx.crc ∧ n ≤ buf.length := by
  have hc := encapFrag_cases pdu ctx buf
  dsimp only at hc
  rcases hc with ⟨_, ho⟩ | ⟨hpos, hf, ho⟩ | ⟨_, _, _, _, _, ho, _⟩ | ⟨_, _, _, ho⟩ <;>
    rw [ho] at he <;> cases he
  have hpl : (pdu.drop ctx.pos).length = pdu.length - ctx.pos := List.length_drop
  refine ⟨hpos, hf.2, rfl, ?_, by gse_omega⟩
  have hL := endPkt_length ctx.fragId (pdu.drop ctx.pos) ctx.crc
  rw [hpl] at hL
  rw [endPkt_of_len hpl]
  exact List.take_left' hL

/-- `encap_frag` never panics, and a refused buffer is handed back untouched -/
theorem encapFrag_refused (pdu : Bytes) (ctx : FragCtx) (buf : Bytes) :
    (encapFrag pdu ctx buf).1 ≠ .panic ∧
    ∀ e, (encapFrag pdu ctx buf).1 = .err e → (encapFrag pdu ctx buf).2 = buf := by
  have hc := encapFrag_cases pdu ctx buf
  dsimp only at hc
  rcases hc with ⟨_, ho⟩ | ⟨_, _, ho⟩ | ⟨_, _, _, _, _, ho, _⟩ | ⟨_, _, _, ho⟩ <;> rw [ho] <;>
    refine ⟨by simp, fun e he => ?_⟩ <;> first | rfl | cases he

end sender

/-! ### 3. The memory under `take_frag` / `save_frag` of the same fragment id -/

/-- A context saved under `fid` is taken out of its slot, and a context for the same id can be
saved back into the (now empty) slot: the net effect is that the slot content is replaced. -/
theorem Mem.take_save {m : Mem} (hw : m.WF) (h0 : m.maxFragId ≠ 0) {fid : Nat} {c : Ctx}
    {st : Storage} (hs : m.frags[fid % m.maxFragId]? = some (some (c, st))) (hc : c.fragId = fid)
    (c' : Ctx) (st' : Storage) (hc' : c'.fragId = fid) :
    m.takeFrag fid = (.ok (c, st), { m with frags := m.frags.set (fid % m.maxFragId) none }) ∧
    ({ m with frags := m.frags.set (fid % m.maxFragId) none } : Mem).saveFrag (c', st')
      = (.ok (), { m with frags := m.frags.set (fid % m.maxFragId) (some (c', st')) }) := by
  have hlt := hw.slot_lt h0 fid
  have hpos := Nat.pos_of_ne_zero h0
  refine ⟨C17_takeFrag_hit m hpos fid c st hs hc, ?_⟩
  have h := (C17_saveFrag_free ({ m with frags := m.frags.set (fid % m.maxFragId) none } : Mem)
    hpos (c', st') (by simp only [hc', List.getElem?_set_self hlt])).1
  rw [h]
  simp only [hc', List.set_set]

/-- everything but slot `k` is the same in both receiver states -/
def Dec.SameBut (k : Nat) (ds ds' : Dec) : Prop :=
  ds'.mem.storages = ds.mem.storages ∧ ds'.mem.maxFragId = ds.mem.maxFragId ∧
  ds'.mem.maxPduSize = ds.mem.maxPduSize ∧ ds'.mem.cap = ds.mem.cap ∧ ds'.last = ds.last ∧
  ds'.mem.frags.length = ds.mem.frags.length ∧
  ∀ j, j ≠ k → ds'.mem.frags[j]? = ds.mem.frags[j]?

theorem Dec.SameBut.refl (k : Nat) (ds : Dec) : Dec.SameBut k ds ds :=
  ⟨rfl, rfl, rfl, rfl, rfl, rfl, fun _ _ => rfl⟩

theorem Dec.SameBut.trans {k : Nat} {a b c : Dec} (h1 : Dec.SameBut k a b) (h2 : Dec.SameBut k b c) :
    Dec.SameBut k a c := by
  obtain ⟨a1, a2, a3, a4, a5, a6, a7⟩ := h1
  obtain ⟨b1, b2, b3, b4, b5, b6, b7⟩ := h2
  exact ⟨b1.trans a1, b2.trans a2, b3.trans a3, b4.trans a4, b5.trans a5, b6.trans a6,
    fun j hj => (b7 j hj).trans (a7 j hj)⟩

/-- replacing the content of slot `k` -/
theorem Dec.sameBut_set (ds : Dec) (k : Nat) (v : Option (Ctx × Storage)) :
    Dec.SameBut k ds ⟨{ ds.mem with frags := ds.mem.frags.set k v }, ds.last⟩ :=
  ⟨rfl, rfl, rfl, rfl, rfl, List.length_set, fun _ hj => List.getElem?_set_ne (Ne.symm hj)⟩

/-! ### 4. The invariant -/

/-- The receiver `ds` is in step with the sender context `ctx` for the PDU `pdu` sent under
fragment id `fid` with the label `lblW` on the wire (the re-use marker when the label was
substituted or `ReUse` was requested), protocol type `pt`; `cur` is the label the receiver resolved,
`sid` the identity of the storage it reassembles in.  The slot `fid % max_frag_id` holds the
context `⟨cur, pt, fid, total length, ctx.pos, label was re-use, no extensions⟩` with a storage
whose first `ctx.pos` bytes are the first `ctx.pos` bytes of the PDU and which can hold all of it;
the sender context carries `fid` and the CRC over the PDU, `pt`, the total length and the label
bytes as written. -/
structure Sync (crc : CrcFn) (pdu : Bytes) (fid : Nat) (lblW cur : Label) (pt sid : Nat)
    (ctx : FragCtx) (ds : Dec) : Prop where
  wf : ds.mem.WF
  slots : ds.mem.maxFragId ≠ 0
  fid_lt : fid < 256
  tl_le : pdu.length + PROTOCOL_LEN + lblW.len ≤ TOTAL_LEN_MAX
  cur_eq : lblW ≠ .reuse → cur = lblW
  ctx_fid : ctx.fragId = fid
  ctx_crc : ctx.crc = crc pdu pt (pdu.length + PROTOCOL_LEN + lblW.len) lblW.bytes
  pos_le : ctx.pos ≤ pdu.length
  slot : ∃ st, ds.mem.frags[fid % ds.mem.maxFragId]?
        = some (some (⟨cur, pt, fid, pdu.length + PROTOCOL_LEN + lblW.len, ctx.pos,
            lblW.type == .reuse, []⟩, st)) ∧
      st.id = sid ∧ st.data.take ctx.pos = pdu.take ctx.pos ∧ pdu.length ≤ st.data.length

/-- the label bytes and label length the receiver will use in its final checks are those the
sender used (`from_label_reuse` ↔ the label on the wire is the re-use marker) -/
theorem Sync.label_agree {lblW cur : Label} (h : lblW ≠ .reuse → cur = lblW) :
    (if (lblW.type == .reuse) = true then 0 else cur.type.len) = lblW.len ∧
    (if (lblW.type == .reuse) = true then [] else cur.bytes) = lblW.bytes := by
  cases lblW with
  | reuse => exact ⟨rfl, rfl⟩
  | six => rw [h (by simp)]; exact ⟨rfl, rfl⟩
  | three => rw [h (by simp)]; exact ⟨rfl, rfl⟩
  | broadcast => rw [h (by simp)]; exact ⟨rfl, rfl⟩

section steps
variable (crc : CrcFn) (mgr : MgrFn) {pdu : Bytes} {fid : Nat} {lblW cur : Label} {pt sid : Nat}
  {ctx ctx' : FragCtx} {ds : Dec} {buf buf' : Bytes} {n : Nat}

/-- **Intermediate fragment.**  In step before, `encap_frag` returns `Fragmented(n, ctx')`: `decap`
of the `n` bytes written (followed by anything) reports `FragmentedPkt` with protocol type and
label, consumes exactly `n`, and the receiver is in step with `ctx'`; the free list, the label
memory and all other slots are unchanged. -/
theorem sync_inter (hS : Sync crc pdu fid lblW cur pt sid ctx ds)
    (he : encapFrag pdu ctx buf = (.ok (.fragmented n ctx'), buf')) (rest : Bytes) :
    ∃ ds', decap crc mgr ds (buf'.take n ++ rest) = ⟨.ok (.fragmented ⟨0, pt, cur, []⟩), n, ds'⟩ ∧
      Sync crc pdu fid lblW cur pt sid ctx' ds' ∧
      Dec.SameBut (fid % ds.mem.maxFragId) ds ds' ∧ (buf'.take n).length = n := by
  obtain ⟨hwf, h0, hfid, htl, hcur, hcf, hcc, hpos, st, hslot, hsid, hdat, hcap⟩ := hS
  obtain ⟨k, hk1, hkp, hkg, hn, hctx', hpl, htake, hnb⟩ :=
    encapFrag_fragmented_inv (by gse_omega) he
  subst hctx'
  rw [hcf] at htake
  generalize hpay : (pdu.drop ctx.pos).take k = payload at hpl htake
  obtain ⟨htk, hsv⟩ := Mem.take_save hwf h0 hslot rfl
    ⟨cur, pt, fid, pdu.length + PROTOCOL_LEN + lblW.len, ctx.pos + payload.length,
      lblW.type == .reuse, []⟩
    ⟨st.id, st.data.take ctx.pos ++ payload ++ st.data.drop (ctx.pos + payload.length)⟩ rfl
  have hdec := decap_inter_pkt_ok crc mgr ds rest hfid (by omega) (by omega) htk
    (by dsimp only; gse_omega) (by dsimp only; omega) hsv
  have hL := interPkt_length fid payload
  refine ⟨⟨{ ds.mem with frags := (ds.mem.frags.set (fid % ds.mem.maxFragId)
      (some (⟨cur, pt, fid, pdu.length + PROTOCOL_LEN + lblW.len, ctx.pos + payload.length,
          lblW.type == .reuse, []⟩,
        ⟨st.id, st.data.take ctx.pos ++ payload ++ st.data.drop (ctx.pos + payload.length)⟩))) },
      ds.last⟩, ?_, ?_, Dec.sameBut_set ds _ _, by rw [htake, hL, hn, hpl]⟩
  · rw [htake, hdec, hL, hn, hpl]
  · have hlt := hwf.slot_lt h0 fid
    refine ⟨⟨by simpa only [List.length_set] using hwf.1, hwf.2⟩, h0, hfid, htl, hcur, hcf, hcc,
      by show ctx.pos + k ≤ pdu.length; omega,
      ⟨st.id, st.data.take ctx.pos ++ payload ++ st.data.drop (ctx.pos + payload.length)⟩,
      ?_, hsid, ?_, ?_⟩
    · show (ds.mem.frags.set _ _)[_]? = _
      rw [List.getElem?_set_self hlt, hpl]
    · show (st.data.take ctx.pos ++ payload ++ st.data.drop (ctx.pos + payload.length)).take
        (ctx.pos + k) = pdu.take (ctx.pos + k)
      have h1 : (st.data.take ctx.pos ++ payload).length = ctx.pos + k := by
        rw [List.length_append, List.length_take, hpl]; omega
      rw [List.take_left' h1, hdat, ← hpay]
      exact List.take_add.symm
    · show pdu.length ≤ (st.data.take ctx.pos ++ payload
        ++ st.data.drop (ctx.pos + payload.length)).length
      simp only [List.length_append, List.length_take, List.length_drop]
      omega

/-- **End fragment.**  In step before, `encap_frag` returns `Completed(n)` and the CRC of the
context is a `u32`: `decap` of the `n` bytes written (followed by anything) passes the
total-length check and the CRC check and reports `CompletedPkt` with the storage that was in the
slot — same identity, same size, now starting with exactly the PDU — and metadata (PDU length,
protocol type, label, no extensions); exactly `n` is consumed; the slot is empty afterwards and
nothing else has changed. -/
theorem sync_end (hS : Sync crc pdu fid lblW cur pt sid ctx ds) (hc32 : ctx.crc < 2 ^ 32)
    (he : encapFrag pdu ctx buf = (.ok (.completed n), buf')) (rest : Bytes) :
    ∃ st', decap crc mgr ds (buf'.take n ++ rest) =
        ⟨.ok (.completed st' ⟨pdu.length, pt, cur, []⟩), n,
         ⟨{ ds.mem with frags := ds.mem.frags.set (fid % ds.mem.maxFragId) none }, ds.last⟩⟩ ∧
      st'.id = sid ∧ st'.data.take pdu.length = pdu ∧
      (∃ c st, ds.mem.frags[fid % ds.mem.maxFragId]? = some (some (c, st)) ∧
        st'.id = st.id ∧ st'.data.length = st.data.length ∧
        st'.data.drop pdu.length = st.data.drop pdu.length) ∧
      (buf'.take n).length = n := by
  obtain ⟨hwf, h0, hfid, htl, hcur, hcf, hcc, hpos, st, hslot, hsid, hdat, hcap⟩ := hS
  obtain ⟨_, hlen, hn, htake, hnb⟩ := encapFrag_completed_inv he
  rw [hcf] at htake
  have hpl : (pdu.drop ctx.pos).length = pdu.length - ctx.pos := List.length_drop
  have htk := C17_takeFrag_hit ds.mem (Nat.pos_of_ne_zero h0) fid _ st hslot rfl
  obtain ⟨hl1, hl2⟩ := Sync.label_agree hcur
  have hpdu : st.data.take ctx.pos ++ pdu.drop ctx.pos = pdu := by
    rw [hdat]; exact List.take_append_drop _ _
  have hdec := decap_end_pkt crc mgr ds rest (payload := pdu.drop ctx.pos) hfid hc32
    (by rw [hpl]; exact hlen) htk (by dsimp only; omega)
    (by dsimp only; rw [hl1, hpl]; omega)
    (by dsimp only; rw [hl2, hpdu, hcc])
  have hL := endPkt_length fid (pdu.drop ctx.pos) ctx.crc
  have hsum : ctx.pos + (pdu.drop ctx.pos).length = pdu.length := by omega
  dsimp only at hdec
  rw [hsum] at hdec
  refine ⟨⟨st.id, st.data.take ctx.pos ++ pdu.drop ctx.pos ++ st.data.drop pdu.length⟩,
    by rw [htake, hdec, hL, hn, hpl], hsid, ?_, ⟨_, st, hslot, rfl, ?_, ?_⟩,
    by rw [htake, hL, hn, hpl]⟩
  · show (st.data.take ctx.pos ++ pdu.drop ctx.pos ++ st.data.drop pdu.length).take pdu.length = pdu
    rw [hpdu]; exact List.take_left' rfl
  · show (st.data.take ctx.pos ++ pdu.drop ctx.pos ++ st.data.drop pdu.length).length = _
    rw [hpdu, List.length_append, List.length_drop]; omega
  · show (st.data.take ctx.pos ++ pdu.drop ctx.pos ++ st.data.drop pdu.length).drop pdu.length = _
    rw [hpdu]; exact List.drop_left' rfl

end steps

/-! ### 5. The first fragment establishes the invariant -/

/-- a label other than the re-use marker resolves to itself -/
theorem resolveLabel_cur {lblW cur : Label} {last last' : Option Label}
    (hr : resolveLabel lblW.type lblW last = .ok cur last') : lblW ≠ .reuse → cur = lblW := by
  intro hne
  cases lblW with
  | reuse => exact absurd rfl hne
  | six => simp only [Label.type, resolveLabel] at hr; cases hr; rfl
  | three => simp only [Label.type, resolveLabel] at hr; cases hr; rfl
  | broadcast => simp only [Label.type, resolveLabel] at hr; cases hr; rfl

section first
variable (crc : CrcFn) (mgr : MgrFn) {es : Enc} {pdu : Bytes} {fid pt : Nat} {label lblW cur : Label}
  {last' : Option Label} {ds : Dec} {s : Storage}

/-- the first fragment on the packet level: `new_frag` hands out the storage `s` and leaves the slot
empty in `m1`; afterwards the slot holds the context of this PDU and `s` starts with the payload -/
theorem sync_first_core {p : Nat} {m1 : Mem} (hz : lblW ≠ zeroLabel)
    (hpt : SECOND_RANGE_PTYPE ≤ pt) (hpt2 : pt < 65536) (hfid : fid < 256)
    (htl : pdu.length + PROTOCOL_LEN + lblW.len ≤ TOTAL_LEN_MAX)
    (hg : FRAG_ID_LEN + TOTAL_LENGTH_LEN + PROTOCOL_LEN + lblW.len + p ≤ GSE_LEN_MAX)
    (hp : p ≤ pdu.length)
    (hr : resolveLabel lblW.type lblW ds.last = .ok cur last')
    (hnf : ds.mem.newFrag ⟨cur, pt, fid, pdu.length + PROTOCOL_LEN + lblW.len, p,
        lblW.type == .reuse, []⟩
      = (.ok (⟨cur, pt, fid, pdu.length + PROTOCOL_LEN + lblW.len, p, lblW.type == .reuse, []⟩, s),
         m1))
    (hw1 : m1.WF) (h01 : m1.maxFragId ≠ 0) (hs1 : m1.frags[fid % m1.maxFragId]? = some none)
    (hcap : pdu.length ≤ s.data.length) (rest : Bytes) :
    decap crc mgr ds
        (firstPkt lblW fid (pdu.length + PROTOCOL_LEN + lblW.len) pt (pdu.take p) ++ rest)
      = ⟨.ok (.fragmented ⟨0, pt, cur, []⟩), FIRST_FRAG_LEN + lblW.len + p,
         ⟨{ m1 with frags := (m1.frags.set (fid % m1.maxFragId)
            (some (⟨cur, pt, fid, pdu.length + PROTOCOL_LEN + lblW.len, p, lblW.type == .reuse, []⟩,
              ⟨s.id, pdu.take p ++ s.data.drop p⟩))) }, last'⟩⟩ ∧
    Sync crc pdu fid lblW cur pt s.id
      ⟨fid, crc pdu pt (pdu.length + PROTOCOL_LEN + lblW.len) lblW.bytes, p⟩
      ⟨{ m1 with frags := (m1.frags.set (fid % m1.maxFragId)
          (some (⟨cur, pt, fid, pdu.length + PROTOCOL_LEN + lblW.len, p, lblW.type == .reuse, []⟩,
            ⟨s.id, pdu.take p ++ s.data.drop p⟩))) }, last'⟩ := by
  have hpl : (pdu.take p).length = p := by rw [List.length_take]; omega
  generalize hpay : pdu.take p = payload at hpl
  subst hpl
  have hsv := (C17_saveFrag_free m1 (Nat.pos_of_ne_zero h01)
    (⟨cur, pt, fid, pdu.length + PROTOCOL_LEN + lblW.len, payload.length, lblW.type == .reuse, []⟩,
      ⟨s.id, payload ++ s.data.drop payload.length⟩) hs1).1
  have hl6 := lblW.len_le_six
  have hdec := decap_first_pkt_ok crc mgr ds rest hz hpt hpt2 hfid (by gse_omega) hg hr
    (by gse_omega) hnf (by omega) hsv
  rw [firstPkt_length] at hdec
  refine ⟨hdec, ?_⟩
  have hlt := hw1.slot_lt h01 fid
  refine ⟨⟨by simpa only [List.length_set] using hw1.1, hw1.2⟩, h01, hfid, htl, resolveLabel_cur hr,
    rfl, rfl, hp, ⟨s.id, payload ++ s.data.drop payload.length⟩, ?_, rfl, ?_, ?_⟩
  · show (m1.frags.set _ _)[_]? = _
    rw [List.getElem?_set_self hlt]
  · show (payload ++ s.data.drop payload.length).take payload.length = pdu.take payload.length
    rw [List.take_left' rfl]; exact hpay.symm
  · show pdu.length ≤ (payload ++ s.data.drop payload.length).length
    rw [List.length_append, List.length_drop]; omega

/-- **First fragment.**  `encap` returned `Fragmented(n₀, ctx₀)`.  The receiver's slot
`fid % max_frag_id` is free and `s` is the top free storage, or the slot is occupied by a stale
context whose storage is `s`; `s` can hold the PDU; the label on the wire resolves to `cur`.  Then
`decap` of the `n₀` bytes written (followed by anything) reports `FragmentedPkt` with protocol type
and label, consumes exactly `n₀`, and the receiver is in step with `ctx₀`, reassembling in `s`.
The label memory is what `resolveLabel` says; `s` left the free list (first case) or the free list
is unchanged (second case); configuration and all other slots are unchanged. -/
theorem sync_first {buf₀ : Bytes} {n₀ : Nat} {ctx₀ : FragCtx}
    (he : (encap crc es pdu fid pt label buf₀).res = .ok (.fragmented n₀ ctx₀))
    (hpt : SECOND_RANGE_PTYPE ≤ pt) (hpt2 : pt < 65536) (hfid : fid < 256)
    (hwf : ds.mem.WF) (h0 : ds.mem.maxFragId ≠ 0)
    (hslot : (ds.mem.frags[fid % ds.mem.maxFragId]? = some none ∧ ds.mem.storages.head? = some s) ∨
      (∃ c0, ds.mem.frags[fid % ds.mem.maxFragId]? = some (some (c0, s))))
    (hcap : pdu.length ≤ s.data.length)
    (hr : resolveLabel (checkLabelReUse es label).1.type (checkLabelReUse es label).1 ds.last
      = .ok cur last') (rest : Bytes) :
    ∃ ds', decap crc mgr ds ((encap crc es pdu fid pt label buf₀).buf.take n₀ ++ rest)
        = ⟨.ok (.fragmented ⟨0, pt, cur, []⟩), n₀, ds'⟩ ∧
      Sync crc pdu fid (checkLabelReUse es label).1 cur pt s.id ctx₀ ds' ∧
      ds'.last = last' ∧
      ((ds.mem.frags[fid % ds.mem.maxFragId]? = some none ∧ ds.mem.storages = s :: ds'.mem.storages) ∨
       ((∃ c0, ds.mem.frags[fid % ds.mem.maxFragId]? = some (some (c0, s))) ∧
         ds'.mem.storages = ds.mem.storages)) ∧
      ds'.mem.maxFragId = ds.mem.maxFragId ∧ ds'.mem.maxPduSize = ds.mem.maxPduSize ∧
      ds'.mem.cap = ds.mem.cap ∧
      (∀ j, j ≠ fid % ds.mem.maxFragId → ds'.mem.frags[j]? = ds.mem.frags[j]?) ∧
      ((encap crc es pdu fid pt label buf₀).buf.take n₀).length = n₀ := by
  obtain ⟨hz, _, hlt, htl, hg, hn, hcf, hcc, htake, hnb⟩ := encap_fragmented_inv he
  have hzw := written_ne_zero (es := es) hz
  have hctx : ctx₀ = ⟨fid, crc pdu pt (pdu.length + PROTOCOL_LEN + (checkLabelReUse es label).1.len)
      (checkLabelReUse es label).1.bytes, ctx₀.pos⟩ := by
    cases ctx₀; simp only at hcf hcc; rw [hcf, hcc]
  generalize (checkLabelReUse es label).1 = lblW at *
  generalize ctx₀.pos = p at *
  subst hctx
  have hpos := Nat.pos_of_ne_zero h0
  have hkl := hwf.slot_lt h0 fid
  have hlen : (firstPkt lblW fid (pdu.length + PROTOCOL_LEN + lblW.len) pt (pdu.take p)).length
      = n₀ := by
    rw [firstPkt_length, List.length_take, hn]; omega
  rcases hslot with ⟨hfree, hhead⟩ | ⟨c0, hocc⟩
  · obtain ⟨free, hst⟩ : ∃ free, ds.mem.storages = s :: free := by
      cases hs : ds.mem.storages with
      | nil => rw [hs] at hhead; cases hhead
      | cons a t => rw [hs] at hhead; cases hhead; exact ⟨t, rfl⟩
    have hnf := C17_newFrag_fresh ds.mem hpos
      ⟨cur, pt, fid, pdu.length + PROTOCOL_LEN + lblW.len, p, lblW.type == .reuse, []⟩ s free
      hfree hst
    have hw1 : ({ ds.mem with storages := free } : Mem).WF := ⟨hwf.1, by
      have := hwf.2; rw [hst] at this; simp only [List.length_cons] at this
      show free.length ≤ ds.mem.cap; omega⟩
    obtain ⟨hdec, hsync⟩ := sync_first_core crc mgr hzw hpt hpt2 hfid htl hg
      (Nat.le_of_lt hlt) hr hnf hw1 h0 hfree hcap rest
    refine ⟨_, by rw [htake, hdec, hn], hsync, rfl, Or.inl ⟨hfree, hst⟩, rfl, rfl, rfl,
      fun j hj => List.getElem?_set_ne (Ne.symm hj), by rw [htake, hlen]⟩
  · have hnf := C17_newFrag_replace ds.mem hpos
      ⟨cur, pt, fid, pdu.length + PROTOCOL_LEN + lblW.len, p, lblW.type == .reuse, []⟩ c0 s hocc
    have hw1 : ({ ds.mem with frags := ds.mem.frags.set (fid % ds.mem.maxFragId) none } : Mem).WF :=
      ⟨by show (ds.mem.frags.set _ _).length = _; rw [List.length_set]; exact hwf.1, hwf.2⟩
    have hs1 : ({ ds.mem with frags := ds.mem.frags.set (fid % ds.mem.maxFragId) none } : Mem).frags[
        fid % ds.mem.maxFragId]? = some none := by
      show (ds.mem.frags.set _ _)[_]? = _; rw [List.getElem?_set_self hkl]
    obtain ⟨hdec, hsync⟩ := sync_first_core crc mgr hzw hpt hpt2 hfid htl hg
      (Nat.le_of_lt hlt) hr hnf hw1 h0 hs1 hcap rest
    refine ⟨_, by rw [htake, hdec, hn], hsync, rfl, Or.inr ⟨⟨c0, hocc⟩, rfl⟩, rfl, rfl, rfl,
      fun j hj => ?_, by rw [htake, hlen]⟩
    show ((ds.mem.frags.set _ _).set _ _)[j]? = _
    rw [List.getElem?_set_ne (Ne.symm hj), List.getElem?_set_ne (Ne.symm hj)]

end first

/-! ### 6. A whole schedule -/

/-- what the receiver reports for an intermediate (or first) fragment of `n` bytes -/
def fragOut (pt : Nat) (cur : Label) (n : Nat) : Res DecErr DecStatus × Nat :=
  (.ok (.fragmented ⟨0, pt, cur, []⟩), n)

/-- skipped buffers leave the sender context untouched (and nothing is sent) -/
theorem fragSends_skip {pdu : Bytes} {ctx : FragCtx} {buf : Bytes} (rest : List Bytes)
    (h : ∀ st, (encapFrag pdu ctx buf).1 ≠ .ok st) :
    fragSends pdu ctx (buf :: rest) = fragSends pdu ctx rest := by
  rcases hE : encapFrag pdu ctx buf with ⟨(st | e | _), b⟩
  · exact absurd (by rw [hE]) (h st)
  · simp only [fragSends, hE]
  · simp only [fragSends, hE]

/-- **A whole schedule.**  In step before, any sequence of output buffers: every packet produced
has the length `encap_frag` reported for it, and feeding the packets in order to `decap`
* while the run is open (`some c`): reports `FragmentedPkt` with protocol type and label for each,
  consumes each reported length, and the receiver is in step with `c`;
* when the run completed (`none`): reports `FragmentedPkt` for all but the last packet and
  `CompletedPkt` for the last one — the storage `sid`, starting with exactly the PDU, metadata
  (PDU length, protocol type, label, no extensions) — consuming each reported length; the slot is
  empty afterwards.
Free list, label memory, configuration and all other slots are unchanged throughout. -/
theorem sync_run (crc : CrcFn) (mgr : MgrFn) {pdu : Bytes} {fid : Nat} {lblW cur : Label}
    {pt sid : Nat}
    (hc32 : crc pdu pt (pdu.length + PROTOCOL_LEN + lblW.len) lblW.bytes < 2 ^ 32)
    (bufs : List Bytes) :
    ∀ (ctx : FragCtx) (ds : Dec), Sync crc pdu fid lblW cur pt sid ctx ds →
      (∀ q ∈ (fragSends pdu ctx bufs).1, q.2.length = q.1) ∧
      (∀ c, (fragSends pdu ctx bufs).2 = some c →
        (rxRun crc mgr ds ((fragSends pdu ctx bufs).1.map Prod.snd)).1
          = (fragSends pdu ctx bufs).1.map (fun q => fragOut pt cur q.1) ∧
        Sync crc pdu fid lblW cur pt sid c
          (rxRun crc mgr ds ((fragSends pdu ctx bufs).1.map Prod.snd)).2 ∧
        Dec.SameBut (fid % ds.mem.maxFragId) ds
          (rxRun crc mgr ds ((fragSends pdu ctx bufs).1.map Prod.snd)).2) ∧
      ((fragSends pdu ctx bufs).2 = none →
        ∃ init nLast st', (fragSends pdu ctx bufs).1.map Prod.fst = init ++ [nLast] ∧
          (rxRun crc mgr ds ((fragSends pdu ctx bufs).1.map Prod.snd)).1
            = init.map (fragOut pt cur)
              ++ [(.ok (.completed st' ⟨pdu.length, pt, cur, []⟩), nLast)] ∧
          st'.id = sid ∧ st'.data.take pdu.length = pdu ∧
          Dec.SameBut (fid % ds.mem.maxFragId) ds
            (rxRun crc mgr ds ((fragSends pdu ctx bufs).1.map Prod.snd)).2 ∧
          (rxRun crc mgr ds ((fragSends pdu ctx bufs).1.map Prod.snd)).2.mem.frags[
            fid % ds.mem.maxFragId]? = some none) := by
  induction bufs with
  | nil =>
    intro ctx ds hS
    refine ⟨fun q hq => (by cases hq), fun c hc => ?_, fun h => (by cases h)⟩
    cases hc
    exact ⟨rfl, hS, Dec.SameBut.refl _ _⟩
  | cons buf rest ih =>
    intro ctx ds hS
    rcases hE : encapFrag pdu ctx buf with ⟨(st | e | _), b⟩
    · cases st with
      | completed n =>
        have hs : fragSends pdu ctx (buf :: rest) = ([(n, b.take n)], none) := by
          simp only [fragSends, hE]
        rw [hs]
        obtain ⟨st', hdec, hid, hdat, _, hlen⟩ := sync_end crc mgr hS (by rw [hS.ctx_crc]; exact hc32)
          hE []
        rw [List.append_nil] at hdec
        refine ⟨fun q hq => ?_, fun c hc => (by cases hc), fun _ => ?_⟩
        · rw [List.mem_singleton] at hq; subst hq; exact hlen
        · refine ⟨[], n, st', rfl, ?_, hid, hdat, ?_, ?_⟩
          · simp only [List.map_cons, List.map_nil, rxRun, hdec, List.nil_append]
          · simp only [List.map_cons, List.map_nil, rxRun, hdec]
            exact Dec.sameBut_set ds _ _
          · simp only [List.map_cons, List.map_nil, rxRun, hdec]
            exact List.getElem?_set_self (hS.wf.slot_lt hS.slots fid)
      | fragmented n ctx' =>
        have hs : fragSends pdu ctx (buf :: rest)
            = ((n, b.take n) :: (fragSends pdu ctx' rest).1, (fragSends pdu ctx' rest).2) := by
          simp only [fragSends, hE]
        rw [hs]
        obtain ⟨ds1, hdec, hS1, hsb, hlen⟩ := sync_inter crc mgr hS hE []
        rw [List.append_nil] at hdec
        obtain ⟨ih1, ih2, ih3⟩ := ih ctx' ds1 hS1
        have hk : fid % ds1.mem.maxFragId = fid % ds.mem.maxFragId := by rw [hsb.2.1]
        rw [hk] at ih2 ih3
        have hrx : ∀ ps, rxRun crc mgr ds (b.take n :: ps)
            = (fragOut pt cur n :: (rxRun crc mgr ds1 ps).1, (rxRun crc mgr ds1 ps).2) := by
          intro ps; simp only [rxRun, hdec, fragOut]
        simp only [List.map_cons, hrx]
        refine ⟨fun q hq => ?_, fun c hc => ?_, fun hn => ?_⟩
        · rcases List.mem_cons.mp hq with rfl | hq
          · exact hlen
          · exact ih1 q hq
        · obtain ⟨i1, i2, i3⟩ := ih2 c hc
          exact ⟨by rw [i1], i2, hsb.trans i3⟩
        · obtain ⟨init, nLast, st', j1, j2, j3, j4, j5, j6⟩ := ih3 hn
          refine ⟨n :: init, nLast, st', by rw [j1]; rfl, by rw [j2]; rfl, j3, j4, hsb.trans j5, j6⟩
    · rw [fragSends_skip rest (by rw [hE]; simp)]
      exact ih ctx ds hS
    · rw [fragSends_skip rest (by rw [hE]; simp)]
      exact ih ctx ds hS

/-! ### 7. `fragPackets` and `fragRun` (Props/C11.lean): same schedule, same contexts; the packets are
`fragRun`'s payloads in their headers -/

section wrap
variable {pdu : Bytes} {ctx ctx' : FragCtx} {sz n : Nat} {b : Bytes}

theorem fragPackets_cons_completed (rest : List Nat)
    (hE : encapFrag pdu ctx (List.replicate sz 0) = (.ok (.completed n), b)) :
    fragPackets pdu ctx (sz :: rest) = ([b.take n], none) ∧
    fragLens pdu ctx (sz :: rest) = [n] := by
  simp only [fragPackets, fragLens, zeroBufs, List.map_cons, fragSends, hE, List.map_nil, and_self]

theorem fragPackets_cons_fragmented (rest : List Nat)
    (hE : encapFrag pdu ctx (List.replicate sz 0) = (.ok (.fragmented n ctx'), b)) :
    fragPackets pdu ctx (sz :: rest)
      = (b.take n :: (fragPackets pdu ctx' rest).1, (fragPackets pdu ctx' rest).2) ∧
    fragLens pdu ctx (sz :: rest) = n :: fragLens pdu ctx' rest := by
  simp only [fragPackets, fragLens, zeroBufs, List.map_cons, fragSends, hE, and_self]

theorem fragPackets_cons_skip (rest : List Nat)
    (h : ∀ st, (encapFrag pdu ctx (List.replicate sz 0)).1 ≠ .ok st) :
    fragPackets pdu ctx (sz :: rest) = fragPackets pdu ctx rest ∧
    fragLens pdu ctx (sz :: rest) = fragLens pdu ctx rest := by
  simp only [fragPackets, fragLens, zeroBufs, List.map_cons, fragSends_skip _ h, and_self]

/-- same schedule, same buffers: the runs end with the same open context -/
theorem fragPackets_fin (pdu : Bytes) (sizes : List Nat) :
    ∀ ctx : FragCtx, (fragPackets pdu ctx sizes).2 = (fragRun pdu ctx sizes).2 := by
  induction sizes with
  | nil => intro ctx; rfl
  | cons sz rest ih =>
    intro ctx
    rcases hE : encapFrag pdu ctx (List.replicate sz 0) with ⟨(st | e | _), b⟩
    · cases st with
      | completed n => rw [(fragPackets_cons_completed rest hE).1]; simp only [fragRun, hE]
      | fragmented n ctx' =>
        rw [(fragPackets_cons_fragmented rest hE).1]; simp only [fragRun, hE]; exact ih ctx'
    · rw [(fragPackets_cons_skip rest (by rw [hE]; simp)).1]; simp only [fragRun, hE]; exact ih ctx
    · rw [(fragPackets_cons_skip rest (by rw [hE]; simp)).1]; simp only [fragRun, hE]; exact ih ctx

/-- one reported length per packet -/
theorem fragLens_length (pdu : Bytes) (ctx : FragCtx) (sizes : List Nat) :
    (fragLens pdu ctx sizes).length = (fragPackets pdu ctx sizes).1.length := by
  simp only [fragLens, fragPackets, List.length_map]

/-- a completed `fragRun` has produced at least the end packet -/
theorem fragRun_done_ne_nil (pdu : Bytes) (sizes : List Nat) :
    ∀ ctx : FragCtx, (fragRun pdu ctx sizes).2 = none → (fragRun pdu ctx sizes).1 ≠ [] := by
  induction sizes with
  | nil => intro ctx h; cases h
  | cons sz rest ih =>
    intro ctx
    rcases hE : encapFrag pdu ctx (List.replicate sz 0) with ⟨(st | e | _), b⟩
    · cases st <;> simp only [fragRun, hE] <;> simp
    · simp only [fragRun, hE]; exact ih ctx
    · simp only [fragRun, hE]; exact ih ctx

/-- `fragPayload` only looks at the first `n` bytes -/
theorem fragPayload_take (b : Bytes) (n tr : Nat) : fragPayload (b.take n) n tr = fragPayload b n tr := by
  unfold fragPayload
  rw [List.drop_take, List.take_take]
  congr 1
  omega

theorem fragPayload_interPkt (fid : Nat) (payload : Bytes) :
    fragPayload (interPkt fid payload) (FIXED_HEADER_LEN + (FRAG_ID_LEN + payload.length)) 0
      = payload := by
  unfold fragPayload interPkt
  rw [List.drop_left' (by simp only [List.length_append, be16_length, List.length_cons,
    List.length_nil, FIXED_HEADER_LEN, FRAG_ID_LEN])]
  exact List.take_of_length_le (by gse_omega)

theorem fragPayload_endPkt (fid : Nat) (payload : Bytes) (c : Nat) :
    fragPayload (endPkt fid payload c)
      (FIXED_HEADER_LEN + FRAG_ID_LEN + payload.length + CRC_LEN) CRC_LEN = payload := by
  unfold fragPayload endPkt
  rw [List.append_assoc (_ ++ [u8 fid]), List.drop_left' (by simp only [List.length_append,
    be16_length, List.length_cons, List.length_nil, FIXED_HEADER_LEN, FRAG_ID_LEN])]
  exact List.take_left' (by gse_omega)

/-- payloads in their headers: intermediate fragments, and the end fragment with the CRC for the
last payload of a completed run -/
def wrapPkts (fid c : Nat) (done : Bool) : List Bytes → List Bytes
  | [] => []
  | p :: ps =>
    (if done && ps.isEmpty then endPkt fid p c else interPkt fid p) :: wrapPkts fid c done ps

/-- The packets of a schedule are the payloads of `fragRun` (consecutive slices partitioning the
rest of the PDU: `C11_partition`) wrapped as intermediate fragments, the last one of a completed
run as the end fragment with the CRC of the context. -/
theorem fragPackets_wrap (pdu : Bytes) (hp : pdu.length ≤ TOTAL_LEN_MAX) (sizes : List Nat) :
    ∀ ctx : FragCtx, (fragPackets pdu ctx sizes).1
      = wrapPkts ctx.fragId ctx.crc (fragRun pdu ctx sizes).2.isNone (fragRun pdu ctx sizes).1 := by
  induction sizes with
  | nil => intro ctx; rfl
  | cons sz rest ih =>
    intro ctx
    rcases hE : encapFrag pdu ctx (List.replicate sz 0) with ⟨(st | e | _), b⟩
    · cases st with
      | completed n =>
        obtain ⟨_, _, hn, htake, _⟩ := encapFrag_completed_inv hE
        rw [(fragPackets_cons_completed rest hE).1]
        simp only [fragRun, hE, wrapPkts, Option.isNone_none, List.isEmpty_nil, Bool.and_self,
          if_true]
        rw [← fragPayload_take, htake, hn, ← List.length_drop (i := ctx.pos) (l := pdu),
          fragPayload_endPkt]
      | fragmented n ctx' =>
        obtain ⟨k, _, _, _, hn, hctx', hpl, htake, _⟩ := encapFrag_fragmented_inv hp hE
        generalize (pdu.drop ctx.pos).take k = payload at hpl htake
        subst hpl
        rw [(fragPackets_cons_fragmented rest hE).1]
        simp only [fragRun, hE, wrapPkts]
        have hne : ((fragRun pdu ctx' rest).2.isNone && (fragRun pdu ctx' rest).1.isEmpty) = false := by
          cases hfin : (fragRun pdu ctx' rest).2 with
          | some c => rfl
          | none =>
            have := fragRun_done_ne_nil pdu rest ctx' hfin
            cases hps : (fragRun pdu ctx' rest).1 with
            | nil => exact absurd hps this
            | cons => rfl
        rw [hne, ih ctx', hctx']
        simp only [Bool.false_eq_true, if_false]
        congr 1
        rw [← fragPayload_take, htake, hn, fragPayload_interPkt]
    · rw [(fragPackets_cons_skip rest (by rw [hE]; simp)).1]; simp only [fragRun, hE]; exact ih ctx
    · rw [(fragPackets_cons_skip rest (by rw [hE]; simp)).1]; simp only [fragRun, hE]; exact ih ctx

end wrap

/-! ### 8. Only the sizes of the output buffers matter -/

/-- the status `encap_frag` returns depends on the output buffer only through its length -/
theorem encapFrag_status_indep (pdu : Bytes) (ctx : FragCtx) {buf₁ buf₂ : Bytes}
    (h : buf₁.length = buf₂.length) : (encapFrag pdu ctx buf₁).1 = (encapFrag pdu ctx buf₂).1 := by
  have hc1 := encapFrag_cases pdu ctx buf₁
  have hc2 := encapFrag_cases pdu ctx buf₂
  dsimp only at hc1 hc2
  rw [← h] at hc2
  rcases hc1 with ⟨g1, ho1⟩ | ⟨g1, f1, ho1⟩ | ⟨g1, f1, b1, n1, r1, ho1, _⟩ | ⟨g1, f1, b1, ho1⟩ <;>
  rcases hc2 with ⟨g2, ho2⟩ | ⟨g2, f2, ho2⟩ | ⟨g2, f2, b2, n2, r2, ho2, _⟩ | ⟨g2, f2, b2, ho2⟩ <;>
  first
    | (rw [ho1, ho2]; done)
    | (exfalso; omega)
    | (exfalso; exact f2 f1)
    | (exfalso; exact f1 f2)
    | (exfalso; gse_omega)

/-- Whatever the output buffers contain, the packets (and reported lengths, and contexts) are those
of the zero-filled buffers of the same sizes: a schedule is a schedule of sizes. -/
theorem fragSends_sizes (pdu : Bytes) (hp : pdu.length ≤ TOTAL_LEN_MAX) (bufs : List Bytes) :
    ∀ ctx : FragCtx, fragSends pdu ctx bufs = fragSends pdu ctx (zeroBufs (bufs.map List.length)) := by
  induction bufs with
  | nil => intro ctx; rfl
  | cons buf rest ih =>
    intro ctx
    have hst := encapFrag_status_indep pdu ctx (buf₁ := buf) (buf₂ := List.replicate buf.length 0)
      (by rw [List.length_replicate])
    rcases hE1 : encapFrag pdu ctx buf with ⟨r1, b1⟩
    rcases hE2 : encapFrag pdu ctx (List.replicate buf.length 0) with ⟨r2, b2⟩
    rw [hE1, hE2] at hst
    dsimp only at hst
    subst hst
    rcases r1 with (st | e | _)
    · cases st with
      | completed n =>
        obtain ⟨_, _, _, ht1, _⟩ := encapFrag_completed_inv hE1
        obtain ⟨_, _, _, ht2, _⟩ := encapFrag_completed_inv hE2
        simp only [fragSends, zeroBufs, List.map_cons, hE1, hE2, ht1, ht2]
      | fragmented n ctx' =>
        obtain ⟨k1, _, _, _, hn1, _, _, ht1, _⟩ := encapFrag_fragmented_inv hp hE1
        obtain ⟨k2, _, _, _, hn2, _, _, ht2, _⟩ := encapFrag_fragmented_inv hp hE2
        have hk : k1 = k2 := by omega
        subst hk
        have := ih ctx'
        simp only [zeroBufs] at this
        simp only [fragSends, zeroBufs, List.map_cons, hE1, hE2, ht1, ht2, this]
    · have := ih ctx
      simp only [zeroBufs] at this
      simp only [fragSends, zeroBufs, List.map_cons, hE1, hE2, this]
    · have := ih ctx
      simp only [zeroBufs] at this
      simp only [fragSends, zeroBufs, List.map_cons, hE1, hE2, this]

/-! ### 9. Progress: enough large buffers complete the run, whatever else is offered in between -/

/-- A run completes as soon as `need r` of the offered buffers have room for `c ≥ 4` payload bytes
behind the 3 header bytes (`r`: bytes remaining), for any `need ≥ 1` that decreases by one whenever
`min c r` or more of the `r > 0` remaining bytes are consumed and never increases when bytes are
consumed.  Smaller buffers offered in between are rejected (context kept), or carry some bytes, or
even complete the PDU: they never hurt. -/
theorem fragSends_completes (pdu : Bytes) (hp : pdu.length ≤ TOTAL_LEN_MAX) (c : Nat)
    (hc4 : CRC_LEN ≤ c) (hc : c ≤ GSE_LEN_MAX - FRAG_ID_LEN) (need : Nat → Nat)
    (h1 : ∀ r, 1 ≤ need r)
    (hstep : ∀ r k, 0 < r → min c r ≤ k → k ≤ r → need (r - k) + 1 ≤ need r)
    (hmono : ∀ r k, k ≤ r → need (r - k) ≤ need r) (bufs : List Bytes) :
    ∀ ctx : FragCtx, ctx.pos ≤ pdu.length →
      need (pdu.length - ctx.pos)
        ≤ bufs.countP (fun b => decide (FIXED_HEADER_LEN + FRAG_ID_LEN + c ≤ b.length)) →
      (fragSends pdu ctx bufs).2 = none := by
  induction bufs with
  | nil =>
    intro ctx _ hcnt
    have := h1 (pdu.length - ctx.pos)
    simp only [List.countP_nil] at hcnt
    omega
  | cons buf rest ih =>
    intro ctx hpos hcnt
    rw [List.countP_cons] at hcnt
    have hcs := encapFrag_cases pdu ctx buf
    dsimp only at hcs
    rcases hcs with ⟨hgt, _⟩ | ⟨_, _, ho⟩ | ⟨_, hf, hb, hn1, hnr, ho, hmod⟩ | ⟨_, hf, hb, ho⟩
    · omega
    · simp only [fragSends, ho]
    · simp only [fragSends, ho, hmod hp]
      have hm := interPayloadLen_eq (pdu.length - ctx.pos) buf.length
      generalize interPayloadLen (pdu.length - ctx.pos) buf.length = k at hn1 hnr hm
      refine ih ⟨ctx.fragId, ctx.crc, ctx.pos + k⟩ (by show ctx.pos + k ≤ pdu.length; omega) ?_
      show need (pdu.length - (ctx.pos + k)) ≤ _
      rw [show pdu.length - (ctx.pos + k) = pdu.length - ctx.pos - k by omega]
      by_cases hbig : FIXED_HEADER_LEN + FRAG_ID_LEN + c ≤ buf.length
      · rw [if_pos (decide_eq_true hbig)] at hcnt
        have := hstep (pdu.length - ctx.pos) k (by omega) (by gse_omega) hnr
        omega
      · rw [if_neg (by rw [decide_eq_true_eq]; exact hbig)] at hcnt
        have := hmono (pdu.length - ctx.pos) k hnr
        omega
    · rw [fragSends_skip rest (by rw [ho]; simp)]
      by_cases hbig : FIXED_HEADER_LEN + FRAG_ID_LEN + c ≤ buf.length
      · exfalso
        apply hf
        gse_omega
      · rw [if_neg (by rw [decide_eq_true_eq]; exact hbig)] at hcnt
        exact ih ctx hpos hcnt

end Gse
