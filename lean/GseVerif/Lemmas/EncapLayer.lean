/-
Layer lemmas: exact closed forms of `encap`, `encapFrag`, `encapExt` (Model/Encap.lean) on each
of their guards.  No panic case is left: every `slice`/`wrSeq`/checked-addition guard of the model
is shown to hold, and every `as u16` cast (`% 65536`) is shown to be the identity (except the new
fragment position of `encapFrag`, which needs `pdu.length ≤ 65535`).

All statements are phrased with the generated constants (`Gen.…`), so a changed constant
re-checks (and possibly breaks) the proofs.  Core Lean only.
-/
import GseVerif.Lemmas.Bytes

namespace Gse
open Gen

/-! ### The re-use state that an `Err` restores -/

/-- `check_label_re_use` only touches `last_label` and `re_current_consecutive`; putting those two
back gives the encapsulator before the call.  (Private copy: the public lemma of that name lives
in Lemmas/Reuse.lean.) -/
private theorem checkLabelReUse_restore' (es : Enc) (l : Label) :
    ({ (checkLabelReUse es l).2 with last := es.last, reCur := es.reCur } : Enc) = es := by
  unfold checkLabelReUse
  cases es
  simp only
  split
  · split
    · rfl
    · split
      · rfl
      · split <;> split <;> (try split) <;> rfl
  · rfl

private theorem restore_of_eq {es es1 : Enc} {l lbl : Label} (hq : checkLabelReUse es l = (lbl, es1)) :
    ({ es1 with last := es.last, reCur := es.reCur } : Enc) = es := by
  have := checkLabelReUse_restore' es l
  rw [hq] at this
  exact this

/-! ### Lengths chosen by the encapsulation functions -/

/-- Payload length of the first fragment `encap` builds for a label of `l` bytes in a buffer of
`b` bytes: limited by the buffer and by the maximum GSE length. -/
def firstPayloadLen (l b : Nat) : Nat :=
  min (b - (FIXED_HEADER_LEN + PROTOCOL_LEN + l + FRAG_ID_LEN + TOTAL_LENGTH_LEN))
      (GSE_LEN_MAX - (FRAG_ID_LEN + TOTAL_LENGTH_LEN + PROTOCOL_LEN + l))

/-- the same with the numerals of the current constants (for `omega`) -/
theorem firstPayloadLen_eq (l b : Nat) : firstPayloadLen l b = min (b - (7 + l)) (4095 - (5 + l)) := by
  simp only [firstPayloadLen, FIXED_HEADER_LEN, PROTOCOL_LEN, FRAG_ID_LEN, TOTAL_LENGTH_LEN,
    GSE_LEN_MAX]
  omega

/-- Payload length of an intermediate fragment `encapFrag` builds when `r` bytes remain and the
buffer has `b` bytes. -/
def interPayloadLen (r b : Nat) : Nat :=
  min (min (b - (FIXED_HEADER_LEN + FRAG_ID_LEN)) (GSE_LEN_MAX - FRAG_ID_LEN)) r

theorem interPayloadLen_eq (r b : Nat) : interPayloadLen r b = min (min (b - 3) 4094) r := by
  simp only [interPayloadLen, FIXED_HEADER_LEN, FRAG_ID_LEN, GSE_LEN_MAX]

/-! ### `encap` -/

section encap
variable {crc : CrcFn} {es es1 : Enc} {pdu : Bytes} {fid pt : Nat} {label lbl : Label} {buf : Bytes}

theorem encap_zero_label (crc : CrcFn) (es : Enc) (pdu : Bytes) (fid pt : Nat) (buf : Bytes) :
    encap crc es pdu fid pt zeroLabel buf = ⟨.err .invalidLabel, buf, es⟩ := by
  unfold encap; rw [if_pos rfl]

theorem encap_bad_ptype (hz : label ≠ zeroLabel)
    (hpt : MAX_MANDATORY_VAL_PTYPE ≤ pt ∧ pt < SECOND_RANGE_PTYPE) :
    encap crc es pdu fid pt label buf = ⟨.err .protocolType, buf, es⟩ := by
  unfold encap; rw [if_neg hz, if_pos hpt]

/-- complete packet -/
theorem encap_complete (hq : checkLabelReUse es label = (lbl, es1)) (hz : label ≠ zeroLabel)
    (hpt : ¬(MAX_MANDATORY_VAL_PTYPE ≤ pt ∧ pt < SECOND_RANGE_PTYPE))
    (hbuf : FIXED_HEADER_LEN + PROTOCOL_LEN + lbl.len + pdu.length ≤ buf.length)
    (hlen : pdu.length + lbl.len + PROTOCOL_LEN ≤ GSE_LEN_MAX) :
    encap crc es pdu fid pt label buf =
      ⟨.ok (.completed (pdu.length + lbl.len + PROTOCOL_LEN + FIXED_HEADER_LEN)),
       be16 (genHeader .complete lbl.type (pdu.length + lbl.len + PROTOCOL_LEN)) ++ be16 pt
         ++ lbl.bytes ++ pdu ++ buf.drop (FIXED_HEADER_LEN + PROTOCOL_LEN + lbl.len + pdu.length),
       es1⟩ := by
  unfold encap
  rw [if_neg hz, if_neg hpt, hq]
  simp only []
  rw [if_pos ⟨hbuf, hlen⟩]
  have hmod : (pdu.length + lbl.len + PROTOCOL_LEN) % 65536 = pdu.length + lbl.len + PROTOCOL_LEN :=
    Nat.mod_eq_of_lt (by simp only [GSE_LEN_MAX] at hlen; omega)
  rw [hmod, if_neg (by simp only [GSE_LEN_MAX, FIXED_HEADER_LEN] at hlen ⊢; omega), slice_full]
  simp only []
  have hfl : [be16 (genHeader .complete lbl.type (pdu.length + lbl.len + PROTOCOL_LEN)), be16 pt,
      lbl.bytes, pdu].flatten.length = FIXED_HEADER_LEN + PROTOCOL_LEN + lbl.len + pdu.length := by
    simp only [List.flatten_cons, List.flatten_nil, List.length_append, be16_length,
      Label.bytes_length, List.length_nil, FIXED_HEADER_LEN, PROTOCOL_LEN]
    omega
  rw [wrSeq_ne_none (by rw [hfl]; exact hbuf), hfl]
  simp only [List.flatten_cons, List.flatten_nil, List.append_nil, List.append_assoc]

/-- buffer too small even for the first-fragment header -/
theorem encap_err_sizeBuffer (hq : checkLabelReUse es label = (lbl, es1)) (hz : label ≠ zeroLabel)
    (hpt : ¬(MAX_MANDATORY_VAL_PTYPE ≤ pt ∧ pt < SECOND_RANGE_PTYPE))
    (hnf : ¬(FIXED_HEADER_LEN + PROTOCOL_LEN + lbl.len + pdu.length ≤ buf.length ∧
             pdu.length + lbl.len + PROTOCOL_LEN ≤ GSE_LEN_MAX))
    (hb : buf.length < FIXED_HEADER_LEN + PROTOCOL_LEN + lbl.len + FRAG_ID_LEN + TOTAL_LENGTH_LEN) :
    encap crc es pdu fid pt label buf = ⟨.err .sizeBuffer, buf, es⟩ := by
  unfold encap
  rw [if_neg hz, if_neg hpt, hq]
  simp only []
  rw [if_neg hnf, if_pos hb, restore_of_eq hq]

/-- PDU longer than the 16-bit total length allows -/
theorem encap_err_pduLength (hq : checkLabelReUse es label = (lbl, es1)) (hz : label ≠ zeroLabel)
    (hpt : ¬(MAX_MANDATORY_VAL_PTYPE ≤ pt ∧ pt < SECOND_RANGE_PTYPE))
    (hnf : ¬(FIXED_HEADER_LEN + PROTOCOL_LEN + lbl.len + pdu.length ≤ buf.length ∧
             pdu.length + lbl.len + PROTOCOL_LEN ≤ GSE_LEN_MAX))
    (hb : FIXED_HEADER_LEN + PROTOCOL_LEN + lbl.len + FRAG_ID_LEN + TOTAL_LENGTH_LEN ≤ buf.length)
    (ht : TOTAL_LEN_MAX < pdu.length + PROTOCOL_LEN + lbl.len) :
    encap crc es pdu fid pt label buf = ⟨.err .pduLength, buf, es⟩ := by
  unfold encap
  rw [if_neg hz, if_neg hpt, hq]
  simp only []
  rw [if_neg hnf, if_neg (Nat.not_lt.mpr hb), if_pos ht, restore_of_eq hq]

/-- in the fragmenting path something always remains for a later fragment -/
theorem firstPayloadLen_lt {l p b : Nat} (hl : l ≤ LABEL_6_B_LEN)
    (hnf : ¬(FIXED_HEADER_LEN + PROTOCOL_LEN + l + p ≤ b ∧ p + l + PROTOCOL_LEN ≤ GSE_LEN_MAX))
    (hb : FIXED_HEADER_LEN + PROTOCOL_LEN + l + FRAG_ID_LEN + TOTAL_LENGTH_LEN ≤ b) :
    firstPayloadLen l b < p := by
  rw [firstPayloadLen_eq]
  simp only [FIXED_HEADER_LEN, PROTOCOL_LEN, FRAG_ID_LEN, TOTAL_LENGTH_LEN, GSE_LEN_MAX,
    LABEL_6_B_LEN] at *
  omega

/-- first fragment -/
theorem encap_first (hq : checkLabelReUse es label = (lbl, es1)) (hz : label ≠ zeroLabel)
    (hpt : ¬(MAX_MANDATORY_VAL_PTYPE ≤ pt ∧ pt < SECOND_RANGE_PTYPE))
    (hnf : ¬(FIXED_HEADER_LEN + PROTOCOL_LEN + lbl.len + pdu.length ≤ buf.length ∧
             pdu.length + lbl.len + PROTOCOL_LEN ≤ GSE_LEN_MAX))
    (hb : FIXED_HEADER_LEN + PROTOCOL_LEN + lbl.len + FRAG_ID_LEN + TOTAL_LENGTH_LEN ≤ buf.length)
    (ht : pdu.length + PROTOCOL_LEN + lbl.len ≤ TOTAL_LEN_MAX) :
    encap crc es pdu fid pt label buf =
      ⟨.ok (.fragmented (FIRST_FRAG_LEN + lbl.len + firstPayloadLen lbl.len buf.length)
          ⟨fid, crc pdu pt (pdu.length + PROTOCOL_LEN + lbl.len) lbl.bytes,
           firstPayloadLen lbl.len buf.length⟩),
       be16 (genHeader .first lbl.type
            (FRAG_ID_LEN + TOTAL_LENGTH_LEN + PROTOCOL_LEN + lbl.len
              + firstPayloadLen lbl.len buf.length))
         ++ [u8 fid] ++ be16 (pdu.length + PROTOCOL_LEN + lbl.len) ++ be16 pt ++ lbl.bytes
         ++ pdu.take (firstPayloadLen lbl.len buf.length)
         ++ buf.drop (FIRST_FRAG_LEN + lbl.len + firstPayloadLen lbl.len buf.length),
       es1⟩ := by
  have hl6 := lbl.len_le
  have hlt := firstPayloadLen_lt hl6 hnf hb
  unfold encap
  rw [if_neg hz, if_neg hpt, hq]
  simp only []
  rw [if_neg hnf, if_neg (Nat.not_lt.mpr hb), if_neg (Nat.not_lt.mpr ht)]
  rw [if_neg (by simp only [FRAG_ID_LEN, TOTAL_LENGTH_LEN, PROTOCOL_LEN, GSE_LEN_MAX,
    LABEL_6_B_LEN] at hl6 ⊢; omega)]
  rw [show min (buf.length
        - (FIXED_HEADER_LEN + PROTOCOL_LEN + lbl.len + FRAG_ID_LEN + TOTAL_LENGTH_LEN))
      (GSE_LEN_MAX - (FRAG_ID_LEN + TOTAL_LENGTH_LEN + PROTOCOL_LEN + lbl.len))
    = firstPayloadLen lbl.len buf.length from rfl]
  generalize hn : firstPayloadLen lbl.len buf.length = n at hlt ⊢
  have hn' : n ≤ GSE_LEN_MAX - (FRAG_ID_LEN + TOTAL_LENGTH_LEN + PROTOCOL_LEN + lbl.len) := by
    rw [← hn]; exact Nat.min_le_right _ _
  have hnb : n ≤ buf.length
      - (FIXED_HEADER_LEN + PROTOCOL_LEN + lbl.len + FRAG_ID_LEN + TOTAL_LENGTH_LEN) := by
    rw [← hn]; exact Nat.min_le_left _ _
  rw [slice_zero (Nat.le_of_lt hlt)]
  simp only []
  have hm1 : (FRAG_ID_LEN + TOTAL_LENGTH_LEN + PROTOCOL_LEN + lbl.len + n) % 65536
      = FRAG_ID_LEN + TOTAL_LENGTH_LEN + PROTOCOL_LEN + lbl.len + n :=
    Nat.mod_eq_of_lt (by gse_omega)
  have hm2 : (pdu.length + PROTOCOL_LEN + lbl.len) % 65536 = pdu.length + PROTOCOL_LEN + lbl.len :=
    Nat.mod_eq_of_lt (by gse_omega)
  have hm3 : n % 65536 = n :=
    Nat.mod_eq_of_lt (by gse_omega)
  have hm4 : (FIRST_FRAG_LEN + lbl.len + n) % 65536 = FIRST_FRAG_LEN + lbl.len + n :=
    Nat.mod_eq_of_lt (by gse_omega)
  rw [hm1, hm2, hm3, hm4]
  have htl : (pdu.take n).length = n := by
    rw [List.length_take]; omega
  have hfl : [be16 (genHeader .first lbl.type
        (FRAG_ID_LEN + TOTAL_LENGTH_LEN + PROTOCOL_LEN + lbl.len + n)), [u8 fid],
      be16 (pdu.length + PROTOCOL_LEN + lbl.len), be16 pt, lbl.bytes, pdu.take n].flatten.length
      = FIRST_FRAG_LEN + lbl.len + n := by
    simp only [List.flatten_cons, List.flatten_nil, List.length_append, be16_length,
      Label.bytes_length, List.length_nil, List.length_cons, htl, FIRST_FRAG_LEN]
    omega
  rw [wrSeq_ne_none (by rw [hfl]; gse_omega), hfl]
  simp only [List.flatten_cons, List.flatten_nil, List.append_nil, List.append_assoc]

/-- Complete case split of `encap`: the result, the buffer and the encapsulator state in closed
form on every guard; there is no panic case. -/
theorem encap_cases (crc : CrcFn) (es : Enc) (pdu : Bytes) (fid pt : Nat) (label : Label)
    (buf : Bytes) :
    let lbl := (checkLabelReUse es label).1
    let es1 := (checkLabelReUse es label).2
    let out := encap crc es pdu fid pt label buf
    let n := firstPayloadLen lbl.len buf.length
    let fits := FIXED_HEADER_LEN + PROTOCOL_LEN + lbl.len + pdu.length ≤ buf.length ∧
                pdu.length + lbl.len + PROTOCOL_LEN ≤ GSE_LEN_MAX
    let hdrRoom := FIXED_HEADER_LEN + PROTOCOL_LEN + lbl.len + FRAG_ID_LEN + TOTAL_LENGTH_LEN
    (label = zeroLabel ∧ out = ⟨.err .invalidLabel, buf, es⟩) ∨
    (label ≠ zeroLabel ∧ (MAX_MANDATORY_VAL_PTYPE ≤ pt ∧ pt < SECOND_RANGE_PTYPE) ∧
      out = ⟨.err .protocolType, buf, es⟩) ∨
    (label ≠ zeroLabel ∧ ¬(MAX_MANDATORY_VAL_PTYPE ≤ pt ∧ pt < SECOND_RANGE_PTYPE) ∧ fits ∧
      out = ⟨.ok (.completed (pdu.length + lbl.len + PROTOCOL_LEN + FIXED_HEADER_LEN)),
             be16 (genHeader .complete lbl.type (pdu.length + lbl.len + PROTOCOL_LEN)) ++ be16 pt
               ++ lbl.bytes ++ pdu
               ++ buf.drop (FIXED_HEADER_LEN + PROTOCOL_LEN + lbl.len + pdu.length),
             es1⟩) ∨
    (label ≠ zeroLabel ∧ ¬(MAX_MANDATORY_VAL_PTYPE ≤ pt ∧ pt < SECOND_RANGE_PTYPE) ∧ ¬fits ∧
      buf.length < hdrRoom ∧ out = ⟨.err .sizeBuffer, buf, es⟩) ∨
    (label ≠ zeroLabel ∧ ¬(MAX_MANDATORY_VAL_PTYPE ≤ pt ∧ pt < SECOND_RANGE_PTYPE) ∧ ¬fits ∧
      hdrRoom ≤ buf.length ∧ TOTAL_LEN_MAX < pdu.length + PROTOCOL_LEN + lbl.len ∧
      out = ⟨.err .pduLength, buf, es⟩) ∨
    (label ≠ zeroLabel ∧ ¬(MAX_MANDATORY_VAL_PTYPE ≤ pt ∧ pt < SECOND_RANGE_PTYPE) ∧ ¬fits ∧
      hdrRoom ≤ buf.length ∧ pdu.length + PROTOCOL_LEN + lbl.len ≤ TOTAL_LEN_MAX ∧
      n < pdu.length ∧
      out = ⟨.ok (.fragmented (FIRST_FRAG_LEN + lbl.len + n)
                ⟨fid, crc pdu pt (pdu.length + PROTOCOL_LEN + lbl.len) lbl.bytes, n⟩),
             be16 (genHeader .first lbl.type
                  (FRAG_ID_LEN + TOTAL_LENGTH_LEN + PROTOCOL_LEN + lbl.len + n))
               ++ [u8 fid] ++ be16 (pdu.length + PROTOCOL_LEN + lbl.len) ++ be16 pt ++ lbl.bytes
               ++ pdu.take n ++ buf.drop (FIRST_FRAG_LEN + lbl.len + n),
             es1⟩) := by
  intro lbl es1 out n fits hdrRoom
  have hq : checkLabelReUse es label = (lbl, es1) := rfl
  by_cases hz : label = zeroLabel
  · left; subst hz; exact ⟨rfl, encap_zero_label crc es pdu fid pt buf⟩
  right
  by_cases hpt : MAX_MANDATORY_VAL_PTYPE ≤ pt ∧ pt < SECOND_RANGE_PTYPE
  · left; exact ⟨hz, hpt, encap_bad_ptype hz hpt⟩
  right
  by_cases hf : fits
  · left; exact ⟨hz, hpt, hf, encap_complete hq hz hpt hf.1 hf.2⟩
  right
  by_cases hb : buf.length < hdrRoom
  · left; exact ⟨hz, hpt, hf, hb, encap_err_sizeBuffer hq hz hpt hf hb⟩
  right
  have hb := Nat.le_of_not_lt hb
  by_cases ht : TOTAL_LEN_MAX < pdu.length + PROTOCOL_LEN + lbl.len
  · left; exact ⟨hz, hpt, hf, hb, ht, encap_err_pduLength hq hz hpt hf hb ht⟩
  right
  have ht := Nat.le_of_not_lt ht
  exact ⟨hz, hpt, hf, hb, ht, firstPayloadLen_lt lbl.len_le hf hb, encap_first hq hz hpt hf hb ht⟩

end encap

/-! ### `encapFrag` -/

section encapFrag
variable {pdu : Bytes} {ctx : FragCtx} {buf : Bytes}

/-- context pointing beyond the PDU -/
theorem encapFrag_beyond (h : ctx.pos > pdu.length) :
    encapFrag pdu ctx buf = (.err .pduLength, buf) := by
  unfold encapFrag
  simp only []
  rw [if_pos h]

/-- end packet: everything that remains and the CRC fit -/
theorem encapFrag_end (hpos : ctx.pos ≤ pdu.length)
    (hbuf : FRAG_ID_LEN + (pdu.length - ctx.pos) + CRC_LEN + FIXED_HEADER_LEN ≤ buf.length)
    (hlen : FRAG_ID_LEN + (pdu.length - ctx.pos) + CRC_LEN ≤ GSE_LEN_MAX) :
    encapFrag pdu ctx buf =
      (.ok (.completed (FIXED_HEADER_LEN + FRAG_ID_LEN + (pdu.length - ctx.pos) + CRC_LEN)),
       be16 (genHeader .end_ .reuse (FRAG_ID_LEN + (pdu.length - ctx.pos) + CRC_LEN))
         ++ [u8 ctx.fragId] ++ pdu.drop ctx.pos ++ be32 ctx.crc
         ++ buf.drop (FIXED_HEADER_LEN + FRAG_ID_LEN + (pdu.length - ctx.pos) + CRC_LEN)) := by
  unfold encapFrag
  simp only []
  rw [if_neg (Nat.not_lt.mpr hpos), if_pos ⟨hbuf, hlen⟩]
  generalize hr : pdu.length - ctx.pos = r at hbuf hlen ⊢
  have hoff : FIXED_HEADER_LEN + FRAG_ID_LEN + r + (be32 ctx.crc).length ≤ buf.length := by
    rw [be32_length]; gse_omega
  rw [blit_of_le hoff]
  simp only []
  have hsl : slice pdu ctx.pos r = some (pdu.drop ctx.pos) := by
    rw [slice_of_le (by omega)]
    rw [List.take_of_length_le (by rw [List.length_drop]; omega)]
  rw [hsl]
  simp only []
  have hm1 : (FRAG_ID_LEN + r + CRC_LEN) % 65536 = FRAG_ID_LEN + r + CRC_LEN :=
    Nat.mod_eq_of_lt (by gse_omega)
  have hm2 : (FIXED_HEADER_LEN + FRAG_ID_LEN + r + CRC_LEN) % 65536
      = FIXED_HEADER_LEN + FRAG_ID_LEN + r + CRC_LEN :=
    Nat.mod_eq_of_lt (by gse_omega)
  rw [hm1, hm2]
  have hdl : (pdu.drop ctx.pos).length = r := by rw [List.length_drop]; exact hr
  have hfl : [be16 (genHeader .end_ .reuse (FRAG_ID_LEN + r + CRC_LEN)), [u8 ctx.fragId],
      pdu.drop ctx.pos].flatten.length = FIXED_HEADER_LEN + FRAG_ID_LEN + r := by
    simp only [List.flatten_cons, List.flatten_nil, List.length_append, be16_length,
      List.length_nil, List.length_cons, hdl, FIXED_HEADER_LEN, FRAG_ID_LEN]
    omega
  have htk : (buf.take (FIXED_HEADER_LEN + FRAG_ID_LEN + r)).length
      = FIXED_HEADER_LEN + FRAG_ID_LEN + r := by
    rw [List.length_take]; rw [be32_length] at hoff; omega
  rw [wrSeq_ne_none (by
    rw [hfl]
    simp only [List.length_append, htk]
    omega), hfl]
  rw [List.append_assoc (buf.take _), List.drop_left' htk]
  simp only [List.flatten_cons, List.flatten_nil, List.append_nil, List.append_assoc, be32_length,
    CRC_LEN]

/-- an intermediate fragment is cut: the buffer has room for at least one payload byte and at
least one byte remains -/
theorem encapFrag_inter (hpos : ctx.pos ≤ pdu.length)
    (hne : ¬(FRAG_ID_LEN + (pdu.length - ctx.pos) + CRC_LEN + FIXED_HEADER_LEN ≤ buf.length ∧
             FRAG_ID_LEN + (pdu.length - ctx.pos) + CRC_LEN ≤ GSE_LEN_MAX))
    (hb : FIXED_HEADER_LEN + FRAG_ID_LEN < buf.length)
    (hn0 : interPayloadLen (pdu.length - ctx.pos) buf.length ≠ 0) :
    encapFrag pdu ctx buf =
      (.ok (.fragmented
          (FIXED_HEADER_LEN + (FRAG_ID_LEN + interPayloadLen (pdu.length - ctx.pos) buf.length))
          ⟨ctx.fragId, ctx.crc,
           (ctx.pos + interPayloadLen (pdu.length - ctx.pos) buf.length) % 65536⟩),
       be16 (genHeader .inter .reuse
            (FRAG_ID_LEN + interPayloadLen (pdu.length - ctx.pos) buf.length))
         ++ [u8 ctx.fragId]
         ++ (pdu.drop ctx.pos).take (interPayloadLen (pdu.length - ctx.pos) buf.length)
         ++ buf.drop
              (FIXED_HEADER_LEN + (FRAG_ID_LEN + interPayloadLen (pdu.length - ctx.pos) buf.length))) := by
  unfold encapFrag
  simp only []
  rw [if_neg (Nat.not_lt.mpr hpos), if_neg hne, if_pos hb]
  have hfold : (if min (buf.length - (FIXED_HEADER_LEN + FRAG_ID_LEN)) (GSE_LEN_MAX - FRAG_ID_LEN)
        > pdu.length - ctx.pos then pdu.length - ctx.pos
      else min (buf.length - (FIXED_HEADER_LEN + FRAG_ID_LEN)) (GSE_LEN_MAX - FRAG_ID_LEN))
      = interPayloadLen (pdu.length - ctx.pos) buf.length := by
    unfold interPayloadLen
    split <;> omega
  rw [hfold, if_neg hn0]
  generalize hn : interPayloadLen (pdu.length - ctx.pos) buf.length = n at hn0 ⊢
  have hnr : n ≤ pdu.length - ctx.pos := by rw [← hn]; exact Nat.min_le_right _ _
  have hna : n ≤ min (buf.length - (FIXED_HEADER_LEN + FRAG_ID_LEN)) (GSE_LEN_MAX - FRAG_ID_LEN) := by
    rw [← hn]; exact Nat.min_le_left _ _
  rw [slice_of_le (by omega)]
  simp only []
  have hm1 : (FRAG_ID_LEN + n) % 65536 = FRAG_ID_LEN + n := Nat.mod_eq_of_lt (by gse_omega)
  have hm2 : (FIXED_HEADER_LEN + (FRAG_ID_LEN + n)) % 65536 = FIXED_HEADER_LEN + (FRAG_ID_LEN + n) :=
    Nat.mod_eq_of_lt (by gse_omega)
  rw [hm1, hm2]
  have htl : ((pdu.drop ctx.pos).take n).length = n := by
    rw [List.length_take, List.length_drop]; omega
  have hfl : [be16 (genHeader .inter .reuse (FRAG_ID_LEN + n)), [u8 ctx.fragId],
      (pdu.drop ctx.pos).take n].flatten.length = FIXED_HEADER_LEN + (FRAG_ID_LEN + n) := by
    simp only [List.flatten_cons, List.flatten_nil, List.length_append, be16_length,
      List.length_nil, List.length_cons, htl, FIXED_HEADER_LEN, FRAG_ID_LEN]
    omega
  rw [wrSeq_ne_none (by rw [hfl]; gse_omega), hfl]
  simp only [List.flatten_cons, List.flatten_nil, List.append_nil, List.append_assoc]

/-- the new position is exact when the PDU length fits `u16` -/
theorem interPayloadLen_pos_mod (hpos : ctx.pos ≤ pdu.length) (hp : pdu.length ≤ TOTAL_LEN_MAX) :
    (ctx.pos + interPayloadLen (pdu.length - ctx.pos) buf.length) % 65536
      = ctx.pos + interPayloadLen (pdu.length - ctx.pos) buf.length := by
  have : interPayloadLen (pdu.length - ctx.pos) buf.length ≤ pdu.length - ctx.pos :=
    Nat.min_le_right _ _
  exact Nat.mod_eq_of_lt (by gse_omega)

/-- no room for a fragment: the buffer cannot hold one payload byte, or only the CRC remains and
it does not fit -/
theorem encapFrag_err_sizeBuffer (hpos : ctx.pos ≤ pdu.length)
    (hne : ¬(FRAG_ID_LEN + (pdu.length - ctx.pos) + CRC_LEN + FIXED_HEADER_LEN ≤ buf.length ∧
             FRAG_ID_LEN + (pdu.length - ctx.pos) + CRC_LEN ≤ GSE_LEN_MAX))
    (hb : buf.length ≤ FIXED_HEADER_LEN + FRAG_ID_LEN ∨
          interPayloadLen (pdu.length - ctx.pos) buf.length = 0) :
    encapFrag pdu ctx buf = (.err .sizeBuffer, buf) := by
  unfold encapFrag
  simp only []
  rw [if_neg (Nat.not_lt.mpr hpos), if_neg hne]
  by_cases hb' : FIXED_HEADER_LEN + FRAG_ID_LEN < buf.length
  · rw [if_pos hb']
    have hfold : (if min (buf.length - (FIXED_HEADER_LEN + FRAG_ID_LEN)) (GSE_LEN_MAX - FRAG_ID_LEN)
          > pdu.length - ctx.pos then pdu.length - ctx.pos
        else min (buf.length - (FIXED_HEADER_LEN + FRAG_ID_LEN)) (GSE_LEN_MAX - FRAG_ID_LEN))
        = interPayloadLen (pdu.length - ctx.pos) buf.length := by
      unfold interPayloadLen
      split <;> omega
    rw [hfold, if_pos (by omega)]
  · rw [if_neg hb']

/-- with room for a payload byte, the fragment is empty exactly when nothing remains -/
theorem interPayloadLen_eq_zero {r b : Nat} (hb : FIXED_HEADER_LEN + FRAG_ID_LEN < b) :
    interPayloadLen r b = 0 ↔ r = 0 := by
  rw [interPayloadLen_eq]; gse_omega

/-- Complete case split of `encapFrag`; there is no panic case. -/
theorem encapFrag_cases (pdu : Bytes) (ctx : FragCtx) (buf : Bytes) :
    let r := pdu.length - ctx.pos
    let n := interPayloadLen r buf.length
    let out := encapFrag pdu ctx buf
    let fitsEnd := FRAG_ID_LEN + r + CRC_LEN + FIXED_HEADER_LEN ≤ buf.length ∧
                   FRAG_ID_LEN + r + CRC_LEN ≤ GSE_LEN_MAX
    (ctx.pos > pdu.length ∧ out = (.err .pduLength, buf)) ∨
    (ctx.pos ≤ pdu.length ∧ fitsEnd ∧
      out = (.ok (.completed (FIXED_HEADER_LEN + FRAG_ID_LEN + r + CRC_LEN)),
             be16 (genHeader .end_ .reuse (FRAG_ID_LEN + r + CRC_LEN)) ++ [u8 ctx.fragId]
               ++ pdu.drop ctx.pos ++ be32 ctx.crc
               ++ buf.drop (FIXED_HEADER_LEN + FRAG_ID_LEN + r + CRC_LEN))) ∨
    (ctx.pos ≤ pdu.length ∧ ¬fitsEnd ∧ FIXED_HEADER_LEN + FRAG_ID_LEN < buf.length ∧ 1 ≤ n ∧
      n ≤ r ∧
      out = (.ok (.fragmented (FIXED_HEADER_LEN + (FRAG_ID_LEN + n))
                ⟨ctx.fragId, ctx.crc, (ctx.pos + n) % 65536⟩),
             be16 (genHeader .inter .reuse (FRAG_ID_LEN + n)) ++ [u8 ctx.fragId]
               ++ (pdu.drop ctx.pos).take n ++ buf.drop (FIXED_HEADER_LEN + (FRAG_ID_LEN + n))) ∧
      (pdu.length ≤ TOTAL_LEN_MAX → (ctx.pos + n) % 65536 = ctx.pos + n)) ∨
    (ctx.pos ≤ pdu.length ∧ ¬fitsEnd ∧ (buf.length ≤ FIXED_HEADER_LEN + FRAG_ID_LEN ∨ r = 0) ∧
      out = (.err .sizeBuffer, buf)) := by
  intro r n out fitsEnd
  by_cases hpos : ctx.pos > pdu.length
  · left; exact ⟨hpos, encapFrag_beyond hpos⟩
  right
  have hpos := Nat.le_of_not_lt hpos
  by_cases hf : fitsEnd
  · left; exact ⟨hpos, hf, encapFrag_end hpos hf.1 hf.2⟩
  right
  by_cases hb : FIXED_HEADER_LEN + FRAG_ID_LEN < buf.length
  · by_cases hn0 : n = 0
    · right
      exact ⟨hpos, hf, Or.inr ((interPayloadLen_eq_zero hb).mp hn0),
        encapFrag_err_sizeBuffer hpos hf (Or.inr hn0)⟩
    · left
      exact ⟨hpos, hf, hb, Nat.one_le_iff_ne_zero.mpr hn0, Nat.min_le_right _ _,
        encapFrag_inter hpos hf hb hn0, interPayloadLen_pos_mod hpos⟩
  · right
    have hb := Nat.le_of_not_lt hb
    exact ⟨hpos, hf, Or.inl hb, encapFrag_err_sizeBuffer hpos hf (Or.inl hb)⟩

end encapFrag

/-! ### `encapExt` -/

/-- `ext_len` of `encap_ext`: the bytes the extension headers add to the GSE length (the type
field of a final mandatory extension takes the place of the protocol type). -/
def extLen (pt : Nat) (exts : List Ext) : Nat :=
  if pt < MAX_MANDATORY_VAL_PTYPE then (exts.map Ext.len).sum - PROTOCOL_LEN
  else (exts.map Ext.len).sum

/-- id of the first extension: it is written in the protocol-type field -/
def extFirstId (exts : List Ext) : Nat :=
  match exts.head? with | some e => e.id | none => 0

/-- The bytes `encap_ext` writes between the fixed part of the header and the PDU: id of the first
extension, label, data of the first extension, (id, data) of the following ones, and the protocol
type unless the last extension is a final mandatory one. -/
def extMiddle (pt : Nat) (lbl : Label) (exts : List Ext) : Bytes :=
  be16 (extFirstId exts) ++ lbl.bytes ++ extChain exts
    ++ (if pt < MAX_MANDATORY_VAL_PTYPE then [] else be16 pt)

private theorem le_sum_of_mem' {a : Nat} {l : List Nat} (h : a ∈ l) : a ≤ l.sum := by
  induction l with
  | nil => cases h
  | cons b t ih =>
    rw [List.sum_cons]
    rcases List.mem_cons.mp h with rfl | h
    · omega
    · have := ih h; omega

/-- `Extension::len` counts at least the type field (whatever the variant) -/
theorem Ext.protocol_le_len (e : Ext) : PROTOCOL_LEN ≤ e.len := by
  unfold Ext.len; split <;> omega

/-- so the `usize` subtraction `sum - PROTOCOL_LEN` of `encap_ext` cannot underflow on a non-empty
list -/
theorem extSum_ge {exts : List Ext} {lastExt : Ext} (hlast : exts.getLast? = some lastExt) :
    PROTOCOL_LEN ≤ (exts.map Ext.len).sum := by
  have hmem : lastExt ∈ exts := List.mem_of_getLast? hlast
  have h1 : lastExt.len ≤ (exts.map Ext.len).sum := le_sum_of_mem' (List.mem_map_of_mem hmem)
  exact Nat.le_trans lastExt.protocol_le_len h1

private theorem chainRest_length {rest : List Ext}
    (hwf : ∀ e ∈ rest, e.len = PROTOCOL_LEN + e.data.length) :
    ((rest.map (fun x => be16 x.id ++ x.data)).flatten).length = (rest.map Ext.len).sum := by
  induction rest with
  | nil => rfl
  | cons e t ih =>
    simp only [List.map_cons, List.flatten_cons, List.length_append, be16_length, List.sum_cons]
    rw [ih (fun e he => hwf e (List.mem_cons_of_mem _ he)), hwf e List.mem_cons_self]
    simp only [PROTOCOL_LEN]

/-- for well-formed extensions the chain written after the label is exactly the summed
`Extension::len` minus the first type field (which sits in the protocol-type field) -/
theorem extChain_length {exts : List Ext} (hne : exts ≠ [])
    (hwf : ∀ e ∈ exts, e.len = PROTOCOL_LEN + e.data.length) :
    (extChain exts).length + PROTOCOL_LEN = (exts.map Ext.len).sum := by
  cases exts with
  | nil => exact absurd rfl hne
  | cons e t =>
    simp only [extChain, List.length_append, List.map_cons, List.sum_cons]
    rw [chainRest_length (fun e he => hwf e (List.mem_cons_of_mem _ he)), hwf e List.mem_cons_self]
    omega

theorem extMiddle_length {exts : List Ext} (pt : Nat) (lbl : Label) (hne : exts ≠ [])
    (hwf : ∀ e ∈ exts, e.len = PROTOCOL_LEN + e.data.length) :
    (extMiddle pt lbl exts).length = PROTOCOL_LEN + lbl.len + extLen pt exts := by
  have h := extChain_length hne hwf
  unfold extMiddle extLen
  split
  · simp only [List.length_append, be16_length, Label.bytes_length, List.length_nil]
    simp only [PROTOCOL_LEN] at h ⊢; omega
  · simp only [List.length_append, be16_length, Label.bytes_length]
    simp only [PROTOCOL_LEN] at h ⊢; omega

/-- the body of `encap_ext` after its argument checks, with the extension length `x` and the
chunks `tail` written between header and payload abstracted (proof device only; shown equal to the
model in `encapExt_eq_core`) -/
private def extCore (crc : CrcFn) (es es1 : Enc) (lbl : Label) (pdu : Bytes) (fid pt : Nat)
    (buf : Bytes) (x : Nat) (tail : List Bytes) : EncOut :=
  let restored : Enc := { es1 with last := es.last, reCur := es.reCur }
  let labelLen := lbl.len
  let pduLen := pdu.length
  let gseLenMin := pduLen + labelLen + PROTOCOL_LEN + x
  let minHeaderLen := FIXED_HEADER_LEN + PROTOCOL_LEN + labelLen + x
  let bufLen := buf.length
  if bufLen ≥ minHeaderLen + pduLen ∧ GSE_LEN_MAX ≥ gseLenMin then
    let gseLen := gseLenMin % 65536
    let header := genHeader .complete lbl.type gseLen
    if gseLen + FIXED_HEADER_LEN ≥ 65536 then ⟨.panic, buf, es1⟩
    else
      match slice pdu 0 pduLen with
      | none => ⟨.panic, buf, es1⟩
      | some payload =>
        match wrSeq buf 0 ([be16 header] ++ tail ++ [payload]) with
        | none => ⟨.panic, buf, es1⟩
        | some (b, _) => ⟨.ok (.completed (gseLen + FIXED_HEADER_LEN)), b, es1⟩
  else
    let minHeaderLen := minHeaderLen + FRAG_ID_LEN + TOTAL_LENGTH_LEN
    if bufLen < minHeaderLen then ⟨.err .sizeBuffer, buf, restored⟩
    else if TOTAL_LEN_MAX < pduLen + PROTOCOL_LEN + labelLen then ⟨.err .pduLength, buf, restored⟩
    else
      let hdrGse := FRAG_ID_LEN + TOTAL_LENGTH_LEN + PROTOCOL_LEN + labelLen + x
      if GSE_LEN_MAX < hdrGse then ⟨.err .pduLength, buf, restored⟩
      else
        let n := min (bufLen - minHeaderLen) (GSE_LEN_MAX - hdrGse)
        let gseLen := (hdrGse + n) % 65536
        let header := genHeader .first lbl.type gseLen
        let totalLen := (pduLen + PROTOCOL_LEN + labelLen) % 65536
        let ctx : FragCtx := ⟨fid, crc pdu pt totalLen lbl.bytes, n % 65536⟩
        let pktLen := (FIRST_FRAG_LEN + labelLen + x + n) % 65536
        match slice pdu 0 n with
        | none => ⟨.panic, buf, es1⟩
        | some payload =>
          match wrSeq buf 0 ([be16 header, [u8 fid], be16 totalLen] ++ tail ++ [payload]) with
          | none => ⟨.panic, buf, es1⟩
          | some (b, _) => ⟨.ok (.fragmented pktLen ctx), b, es1⟩

section encapExt
variable {crc : CrcFn} {es es1 : Enc} {pdu : Bytes} {fid pt : Nat} {label lbl : Label} {buf : Bytes}
  {exts : List Ext} {lastExt : Ext}

private theorem encapExt_eq_core (hlast : exts.getLast? = some lastExt)
    (hfm : ¬(pt < MAX_MANDATORY_VAL_PTYPE ∧ (lastExt.id ≠ pt ∨ lastExt.kind ≠ .mandatory)))
    (hpt : ¬(MAX_MANDATORY_VAL_PTYPE ≤ pt ∧ pt < SECOND_RANGE_PTYPE))
    (hz : label ≠ zeroLabel) (hq : checkLabelReUse es label = (lbl, es1)) :
    encapExt crc es pdu fid pt label buf exts =
      extCore crc es es1 lbl pdu fid pt buf (extLen pt exts)
        ([be16 (extFirstId exts), lbl.bytes, extChain exts]
          ++ (if pt < MAX_MANDATORY_VAL_PTYPE then [] else [be16 pt])) := by
  have hs := extSum_ge hlast
  unfold encapExt
  rw [hlast]
  simp only []
  rw [if_neg hfm, if_neg hpt, if_neg (by simp only [decide_eq_true_eq]; omega), if_neg hz, hq]
  simp only [decide_eq_true_eq]
  rfl

private theorem extTail_flatten (pt : Nat) (lbl : Label) (exts : List Ext) :
    ([be16 (extFirstId exts), lbl.bytes, extChain exts]
      ++ (if pt < MAX_MANDATORY_VAL_PTYPE then [] else [be16 pt])).flatten
      = extMiddle pt lbl exts := by
  unfold extMiddle
  split <;> simp only [List.flatten_append, List.flatten_cons, List.flatten_nil, List.append_nil,
    List.append_assoc]

/-- no extension -/
theorem encapExt_nil (crc : CrcFn) (es : Enc) (pdu : Bytes) (fid pt : Nat) (label : Label)
    (buf : Bytes) :
    encapExt crc es pdu fid pt label buf [] = ⟨.err .noExtensionFound, buf, es⟩ := by
  unfold encapExt; rfl

/-- protocol type in the mandatory-extension range but the last extension is not that final
mandatory extension -/
theorem encapExt_err_finalMandatory (hlast : exts.getLast? = some lastExt)
    (hfm : pt < MAX_MANDATORY_VAL_PTYPE ∧ (lastExt.id ≠ pt ∨ lastExt.kind ≠ .mandatory)) :
    encapExt crc es pdu fid pt label buf exts = ⟨.err .finalMandatoryExtensionHeader, buf, es⟩ := by
  unfold encapExt
  rw [hlast]
  simp only []
  rw [if_pos hfm]

theorem encapExt_bad_ptype (hlast : exts.getLast? = some lastExt)
    (hpt : MAX_MANDATORY_VAL_PTYPE ≤ pt ∧ pt < SECOND_RANGE_PTYPE) :
    encapExt crc es pdu fid pt label buf exts = ⟨.err .protocolType, buf, es⟩ := by
  unfold encapExt
  rw [hlast]
  simp only []
  rw [if_neg (by omega), if_pos hpt]

theorem encapExt_zero_label (hlast : exts.getLast? = some lastExt)
    (hfm : ¬(pt < MAX_MANDATORY_VAL_PTYPE ∧ (lastExt.id ≠ pt ∨ lastExt.kind ≠ .mandatory)))
    (hpt : ¬(MAX_MANDATORY_VAL_PTYPE ≤ pt ∧ pt < SECOND_RANGE_PTYPE)) (hz : label = zeroLabel) :
    encapExt crc es pdu fid pt label buf exts = ⟨.err .invalidLabel, buf, es⟩ := by
  have hs := extSum_ge hlast
  unfold encapExt
  rw [hlast]
  simp only []
  rw [if_neg hfm, if_neg hpt, if_neg (by simp only [decide_eq_true_eq]; omega), if_pos hz]

/-- complete packet with extensions -/
theorem encapExt_complete (hlast : exts.getLast? = some lastExt)
    (hwf : ∀ e ∈ exts, e.len = PROTOCOL_LEN + e.data.length)
    (hfm : ¬(pt < MAX_MANDATORY_VAL_PTYPE ∧ (lastExt.id ≠ pt ∨ lastExt.kind ≠ .mandatory)))
    (hpt : ¬(MAX_MANDATORY_VAL_PTYPE ≤ pt ∧ pt < SECOND_RANGE_PTYPE))
    (hz : label ≠ zeroLabel) (hq : checkLabelReUse es label = (lbl, es1))
    (hbuf : FIXED_HEADER_LEN + PROTOCOL_LEN + lbl.len + extLen pt exts + pdu.length ≤ buf.length)
    (hlen : pdu.length + lbl.len + PROTOCOL_LEN + extLen pt exts ≤ GSE_LEN_MAX) :
    encapExt crc es pdu fid pt label buf exts =
      ⟨.ok (.completed (pdu.length + lbl.len + PROTOCOL_LEN + extLen pt exts + FIXED_HEADER_LEN)),
       be16 (genHeader .complete lbl.type (pdu.length + lbl.len + PROTOCOL_LEN + extLen pt exts))
         ++ extMiddle pt lbl exts ++ pdu
         ++ buf.drop (FIXED_HEADER_LEN + PROTOCOL_LEN + lbl.len + extLen pt exts + pdu.length),
       es1⟩ := by
  have hne : exts ≠ [] := by rintro rfl; cases hlast
  have hml := extMiddle_length pt lbl hne hwf
  rw [encapExt_eq_core hlast hfm hpt hz hq]
  rw [← extTail_flatten] at hml ⊢
  generalize extLen pt exts = x at *
  generalize ([be16 (extFirstId exts), lbl.bytes, extChain exts]
      ++ (if pt < MAX_MANDATORY_VAL_PTYPE then [] else [be16 pt])) = tail at *
  unfold extCore
  simp only []
  rw [if_pos ⟨hbuf, hlen⟩]
  have hmod : (pdu.length + lbl.len + PROTOCOL_LEN + x) % 65536
      = pdu.length + lbl.len + PROTOCOL_LEN + x := Nat.mod_eq_of_lt (by gse_omega)
  rw [hmod, if_neg (by gse_omega), slice_full]
  simp only []
  have hfl : ([be16 (genHeader .complete lbl.type (pdu.length + lbl.len + PROTOCOL_LEN + x))]
      ++ tail ++ [pdu]).flatten.length
      = FIXED_HEADER_LEN + PROTOCOL_LEN + lbl.len + x + pdu.length := by
    simp only [List.flatten_append, List.flatten_cons, List.flatten_nil, List.length_append,
      be16_length, List.length_nil, hml, FIXED_HEADER_LEN, PROTOCOL_LEN]
    omega
  rw [wrSeq_ne_none (by rw [hfl]; exact hbuf), hfl]
  simp only [List.flatten_append, List.flatten_cons, List.flatten_nil, List.append_nil,
    List.append_assoc]

/-- buffer too small even for the first-fragment header and the extensions -/
theorem encapExt_err_sizeBuffer (hlast : exts.getLast? = some lastExt)
    (hfm : ¬(pt < MAX_MANDATORY_VAL_PTYPE ∧ (lastExt.id ≠ pt ∨ lastExt.kind ≠ .mandatory)))
    (hpt : ¬(MAX_MANDATORY_VAL_PTYPE ≤ pt ∧ pt < SECOND_RANGE_PTYPE))
    (hz : label ≠ zeroLabel) (hq : checkLabelReUse es label = (lbl, es1))
    (hnf : ¬(FIXED_HEADER_LEN + PROTOCOL_LEN + lbl.len + extLen pt exts + pdu.length ≤ buf.length ∧
             pdu.length + lbl.len + PROTOCOL_LEN + extLen pt exts ≤ GSE_LEN_MAX))
    (hb : buf.length < FIXED_HEADER_LEN + PROTOCOL_LEN + lbl.len + extLen pt exts + FRAG_ID_LEN
            + TOTAL_LENGTH_LEN) :
    encapExt crc es pdu fid pt label buf exts = ⟨.err .sizeBuffer, buf, es⟩ := by
  rw [encapExt_eq_core hlast hfm hpt hz hq]
  unfold extCore
  simp only []
  rw [if_neg hnf, if_pos hb, restore_of_eq hq]

/-- PDU longer than the 16-bit total length allows, or label and extensions alone exceed the
GSE length -/
theorem encapExt_err_pduLength (hlast : exts.getLast? = some lastExt)
    (hfm : ¬(pt < MAX_MANDATORY_VAL_PTYPE ∧ (lastExt.id ≠ pt ∨ lastExt.kind ≠ .mandatory)))
    (hpt : ¬(MAX_MANDATORY_VAL_PTYPE ≤ pt ∧ pt < SECOND_RANGE_PTYPE))
    (hz : label ≠ zeroLabel) (hq : checkLabelReUse es label = (lbl, es1))
    (hnf : ¬(FIXED_HEADER_LEN + PROTOCOL_LEN + lbl.len + extLen pt exts + pdu.length ≤ buf.length ∧
             pdu.length + lbl.len + PROTOCOL_LEN + extLen pt exts ≤ GSE_LEN_MAX))
    (hb : FIXED_HEADER_LEN + PROTOCOL_LEN + lbl.len + extLen pt exts + FRAG_ID_LEN
            + TOTAL_LENGTH_LEN ≤ buf.length)
    (ht : TOTAL_LEN_MAX < pdu.length + PROTOCOL_LEN + lbl.len ∨
          GSE_LEN_MAX < FRAG_ID_LEN + TOTAL_LENGTH_LEN + PROTOCOL_LEN + lbl.len + extLen pt exts) :
    encapExt crc es pdu fid pt label buf exts = ⟨.err .pduLength, buf, es⟩ := by
  rw [encapExt_eq_core hlast hfm hpt hz hq]
  unfold extCore
  simp only []
  rw [if_neg hnf, if_neg (Nat.not_lt.mpr hb), restore_of_eq hq]
  by_cases ht1 : TOTAL_LEN_MAX < pdu.length + PROTOCOL_LEN + lbl.len
  · rw [if_pos ht1]
  · rw [if_neg ht1, if_pos (ht.resolve_left ht1)]

/-- first fragment with extensions; the payload length is `firstPayloadLen` for label and
extensions together -/
theorem encapExt_first (hlast : exts.getLast? = some lastExt)
    (hwf : ∀ e ∈ exts, e.len = PROTOCOL_LEN + e.data.length)
    (hfm : ¬(pt < MAX_MANDATORY_VAL_PTYPE ∧ (lastExt.id ≠ pt ∨ lastExt.kind ≠ .mandatory)))
    (hpt : ¬(MAX_MANDATORY_VAL_PTYPE ≤ pt ∧ pt < SECOND_RANGE_PTYPE))
    (hz : label ≠ zeroLabel) (hq : checkLabelReUse es label = (lbl, es1))
    (hnf : ¬(FIXED_HEADER_LEN + PROTOCOL_LEN + lbl.len + extLen pt exts + pdu.length ≤ buf.length ∧
             pdu.length + lbl.len + PROTOCOL_LEN + extLen pt exts ≤ GSE_LEN_MAX))
    (hb : FIXED_HEADER_LEN + PROTOCOL_LEN + lbl.len + extLen pt exts + FRAG_ID_LEN
            + TOTAL_LENGTH_LEN ≤ buf.length)
    (ht : pdu.length + PROTOCOL_LEN + lbl.len ≤ TOTAL_LEN_MAX)
    (hg : FRAG_ID_LEN + TOTAL_LENGTH_LEN + PROTOCOL_LEN + lbl.len + extLen pt exts ≤ GSE_LEN_MAX) :
    encapExt crc es pdu fid pt label buf exts =
      ⟨.ok (.fragmented
          (FIRST_FRAG_LEN + lbl.len + extLen pt exts
            + firstPayloadLen (lbl.len + extLen pt exts) buf.length)
          ⟨fid, crc pdu pt (pdu.length + PROTOCOL_LEN + lbl.len) lbl.bytes,
           firstPayloadLen (lbl.len + extLen pt exts) buf.length⟩),
       be16 (genHeader .first lbl.type
            (FRAG_ID_LEN + TOTAL_LENGTH_LEN + PROTOCOL_LEN + lbl.len + extLen pt exts
              + firstPayloadLen (lbl.len + extLen pt exts) buf.length))
         ++ [u8 fid] ++ be16 (pdu.length + PROTOCOL_LEN + lbl.len) ++ extMiddle pt lbl exts
         ++ pdu.take (firstPayloadLen (lbl.len + extLen pt exts) buf.length)
         ++ buf.drop (FIRST_FRAG_LEN + lbl.len + extLen pt exts
              + firstPayloadLen (lbl.len + extLen pt exts) buf.length),
       es1⟩ := by
  have hne : exts ≠ [] := by rintro rfl; cases hlast
  have hml := extMiddle_length pt lbl hne hwf
  rw [encapExt_eq_core hlast hfm hpt hz hq]
  rw [← extTail_flatten] at hml ⊢
  generalize extLen pt exts = x at *
  generalize ([be16 (extFirstId exts), lbl.bytes, extChain exts]
      ++ (if pt < MAX_MANDATORY_VAL_PTYPE then [] else [be16 pt])) = tail at *
  unfold extCore
  simp only []
  rw [if_neg hnf, if_neg (Nat.not_lt.mpr hb), if_neg (Nat.not_lt.mpr ht),
    if_neg (Nat.not_lt.mpr hg)]
  have hfold : min (buf.length
        - (FIXED_HEADER_LEN + PROTOCOL_LEN + lbl.len + x + FRAG_ID_LEN + TOTAL_LENGTH_LEN))
      (GSE_LEN_MAX - (FRAG_ID_LEN + TOTAL_LENGTH_LEN + PROTOCOL_LEN + lbl.len + x))
      = firstPayloadLen (lbl.len + x) buf.length := by
    unfold firstPayloadLen
    congr 1 <;> omega
  rw [hfold]
  have hlt : firstPayloadLen (lbl.len + x) buf.length < pdu.length := by
    rw [firstPayloadLen_eq]; gse_omega
  generalize hn : firstPayloadLen (lbl.len + x) buf.length = n at hlt ⊢
  have hn' : n ≤ GSE_LEN_MAX - (FRAG_ID_LEN + TOTAL_LENGTH_LEN + PROTOCOL_LEN + (lbl.len + x)) := by
    rw [← hn]; exact Nat.min_le_right _ _
  have hnb : n ≤ buf.length
      - (FIXED_HEADER_LEN + PROTOCOL_LEN + (lbl.len + x) + FRAG_ID_LEN + TOTAL_LENGTH_LEN) := by
    rw [← hn]; exact Nat.min_le_left _ _
  rw [slice_zero (Nat.le_of_lt hlt)]
  simp only []
  have hm1 : (FRAG_ID_LEN + TOTAL_LENGTH_LEN + PROTOCOL_LEN + lbl.len + x + n) % 65536
      = FRAG_ID_LEN + TOTAL_LENGTH_LEN + PROTOCOL_LEN + lbl.len + x + n :=
    Nat.mod_eq_of_lt (by gse_omega)
  have hm2 : (pdu.length + PROTOCOL_LEN + lbl.len) % 65536 = pdu.length + PROTOCOL_LEN + lbl.len :=
    Nat.mod_eq_of_lt (by gse_omega)
  have hm3 : n % 65536 = n := Nat.mod_eq_of_lt (by gse_omega)
  have hm4 : (FIRST_FRAG_LEN + lbl.len + x + n) % 65536 = FIRST_FRAG_LEN + lbl.len + x + n :=
    Nat.mod_eq_of_lt (by gse_omega)
  rw [hm1, hm2, hm3, hm4]
  have htl : (pdu.take n).length = n := by
    rw [List.length_take]; omega
  have hfl : ([be16 (genHeader .first lbl.type
        (FRAG_ID_LEN + TOTAL_LENGTH_LEN + PROTOCOL_LEN + lbl.len + x + n)), [u8 fid],
      be16 (pdu.length + PROTOCOL_LEN + lbl.len)] ++ tail ++ [pdu.take n]).flatten.length
      = FIRST_FRAG_LEN + lbl.len + x + n := by
    simp only [List.flatten_append, List.flatten_cons, List.flatten_nil, List.length_append,
      be16_length, List.length_nil, List.length_cons, htl, hml, FIRST_FRAG_LEN, PROTOCOL_LEN]
    omega
  rw [wrSeq_ne_none (by rw [hfl]; gse_omega), hfl]
  simp only [List.flatten_append, List.flatten_cons, List.flatten_nil, List.append_nil,
    List.append_assoc]

/-- Complete case split of `encapExt` for well-formed extensions; there is no panic case. -/
theorem encapExt_cases (crc : CrcFn) (es : Enc) (pdu : Bytes) (fid pt : Nat) (label : Label)
    (buf : Bytes) (exts : List Ext)
    (hwf : ∀ e ∈ exts, e.len = PROTOCOL_LEN + e.data.length) :
    let lbl := (checkLabelReUse es label).1
    let es1 := (checkLabelReUse es label).2
    let out := encapExt crc es pdu fid pt label buf exts
    let x := extLen pt exts
    let n := firstPayloadLen (lbl.len + x) buf.length
    let fits := FIXED_HEADER_LEN + PROTOCOL_LEN + lbl.len + x + pdu.length ≤ buf.length ∧
                pdu.length + lbl.len + PROTOCOL_LEN + x ≤ GSE_LEN_MAX
    let hdrRoom := FIXED_HEADER_LEN + PROTOCOL_LEN + lbl.len + x + FRAG_ID_LEN + TOTAL_LENGTH_LEN
    let tooLong := TOTAL_LEN_MAX < pdu.length + PROTOCOL_LEN + lbl.len ∨
                   GSE_LEN_MAX < FRAG_ID_LEN + TOTAL_LENGTH_LEN + PROTOCOL_LEN + lbl.len + x
    (exts = [] ∧ out = ⟨.err .noExtensionFound, buf, es⟩) ∨
    (∃ lastExt, exts.getLast? = some lastExt ∧
      ((pt < MAX_MANDATORY_VAL_PTYPE ∧ (lastExt.id ≠ pt ∨ lastExt.kind ≠ .mandatory)) ∧
        out = ⟨.err .finalMandatoryExtensionHeader, buf, es⟩ ∨
       ¬(pt < MAX_MANDATORY_VAL_PTYPE ∧ (lastExt.id ≠ pt ∨ lastExt.kind ≠ .mandatory)) ∧
       ((MAX_MANDATORY_VAL_PTYPE ≤ pt ∧ pt < SECOND_RANGE_PTYPE) ∧
          out = ⟨.err .protocolType, buf, es⟩ ∨
        ¬(MAX_MANDATORY_VAL_PTYPE ≤ pt ∧ pt < SECOND_RANGE_PTYPE) ∧
        (label = zeroLabel ∧ out = ⟨.err .invalidLabel, buf, es⟩ ∨
         label ≠ zeroLabel ∧
         (fits ∧
            out = ⟨.ok (.completed (pdu.length + lbl.len + PROTOCOL_LEN + x + FIXED_HEADER_LEN)),
                   be16 (genHeader .complete lbl.type (pdu.length + lbl.len + PROTOCOL_LEN + x))
                     ++ extMiddle pt lbl exts ++ pdu
                     ++ buf.drop (FIXED_HEADER_LEN + PROTOCOL_LEN + lbl.len + x + pdu.length),
                   es1⟩ ∨
          ¬fits ∧ buf.length < hdrRoom ∧ out = ⟨.err .sizeBuffer, buf, es⟩ ∨
          ¬fits ∧ hdrRoom ≤ buf.length ∧ tooLong ∧ out = ⟨.err .pduLength, buf, es⟩ ∨
          ¬fits ∧ hdrRoom ≤ buf.length ∧ ¬tooLong ∧ n < pdu.length ∧
            out = ⟨.ok (.fragmented (FIRST_FRAG_LEN + lbl.len + x + n)
                      ⟨fid, crc pdu pt (pdu.length + PROTOCOL_LEN + lbl.len) lbl.bytes, n⟩),
                   be16 (genHeader .first lbl.type
                        (FRAG_ID_LEN + TOTAL_LENGTH_LEN + PROTOCOL_LEN + lbl.len + x + n))
                     ++ [u8 fid] ++ be16 (pdu.length + PROTOCOL_LEN + lbl.len)
                     ++ extMiddle pt lbl exts ++ pdu.take n
                     ++ buf.drop (FIRST_FRAG_LEN + lbl.len + x + n),
                   es1⟩))))) := by
  intro lbl es1 out x n fits hdrRoom tooLong
  have hq : checkLabelReUse es label = (lbl, es1) := rfl
  cases hlast : exts.getLast? with
  | none =>
    left
    have : exts = [] := List.getLast?_eq_none_iff.mp hlast
    subst this
    exact ⟨rfl, encapExt_nil crc es pdu fid pt label buf⟩
  | some lastExt =>
    right
    refine ⟨lastExt, rfl, ?_⟩
    by_cases hfm : pt < MAX_MANDATORY_VAL_PTYPE ∧ (lastExt.id ≠ pt ∨ lastExt.kind ≠ .mandatory)
    · left; exact ⟨hfm, encapExt_err_finalMandatory hlast hfm⟩
    right; refine ⟨hfm, ?_⟩
    by_cases hpt : MAX_MANDATORY_VAL_PTYPE ≤ pt ∧ pt < SECOND_RANGE_PTYPE
    · left; exact ⟨hpt, encapExt_bad_ptype hlast hpt⟩
    right; refine ⟨hpt, ?_⟩
    by_cases hz : label = zeroLabel
    · left; exact ⟨hz, encapExt_zero_label hlast hfm hpt hz⟩
    right; refine ⟨hz, ?_⟩
    by_cases hf : fits
    · left; exact ⟨hf, encapExt_complete hlast hwf hfm hpt hz hq hf.1 hf.2⟩
    right
    by_cases hb : buf.length < hdrRoom
    · left; exact ⟨hf, hb, encapExt_err_sizeBuffer hlast hfm hpt hz hq hf hb⟩
    right
    have hb := Nat.le_of_not_lt hb
    by_cases ht : tooLong
    · left; exact ⟨hf, hb, ht, encapExt_err_pduLength hlast hfm hpt hz hq hf hb ht⟩
    right
    have ht1 : pdu.length + PROTOCOL_LEN + lbl.len ≤ TOTAL_LEN_MAX :=
      Nat.le_of_not_lt (fun h => ht (Or.inl h))
    have ht2 : FRAG_ID_LEN + TOTAL_LENGTH_LEN + PROTOCOL_LEN + lbl.len + x ≤ GSE_LEN_MAX :=
      Nat.le_of_not_lt (fun h => ht (Or.inr h))
    refine ⟨hf, hb, ht, ?_, encapExt_first hlast hwf hfm hpt hz hq hf hb ht1 ht2⟩
    show firstPayloadLen (lbl.len + x) buf.length < pdu.length
    rw [firstPayloadLen_eq]
    have hf' : ¬(FIXED_HEADER_LEN + PROTOCOL_LEN + lbl.len + x + pdu.length ≤ buf.length ∧
                pdu.length + lbl.len + PROTOCOL_LEN + x ≤ GSE_LEN_MAX) := hf
    have hb' : FIXED_HEADER_LEN + PROTOCOL_LEN + lbl.len + x + FRAG_ID_LEN + TOTAL_LENGTH_LEN
        ≤ buf.length := hb
    clear hf hb ht
    gse_omega

end encapExt

/-! ### The previews, on the same guards -/

section preview
variable {pduLen pt : Nat} {label : Label} {bufLen : Nat}

theorem encapPreview_zero_label (pduLen pt bufLen : Nat) :
    encapPreview pduLen pt zeroLabel bufLen = .err .invalidLabel := by
  unfold encapPreview
  simp only []
  rw [if_pos trivial]

theorem encapPreview_bad_ptype (hz : label ≠ zeroLabel)
    (hpt : MAX_MANDATORY_VAL_PTYPE ≤ pt ∧ pt < SECOND_RANGE_PTYPE) :
    encapPreview pduLen pt label bufLen = .err .protocolType := by
  unfold encapPreview
  simp only []
  rw [if_neg hz, if_pos hpt]

theorem encapPreview_complete (hz : label ≠ zeroLabel)
    (hpt : ¬(MAX_MANDATORY_VAL_PTYPE ≤ pt ∧ pt < SECOND_RANGE_PTYPE))
    (hbuf : FIXED_HEADER_LEN + PROTOCOL_LEN + label.len + pduLen ≤ bufLen)
    (hlen : pduLen + label.len + PROTOCOL_LEN ≤ GSE_LEN_MAX) :
    encapPreview pduLen pt label bufLen =
      .ok ⟨.complete, pduLen, pduLen + label.len + PROTOCOL_LEN + FIXED_HEADER_LEN⟩ := by
  unfold encapPreview
  simp only []
  rw [if_neg hz, if_neg hpt, if_pos ⟨hbuf, hlen⟩]
  have hmod : (pduLen + label.len + PROTOCOL_LEN) % 65536 = pduLen + label.len + PROTOCOL_LEN :=
    Nat.mod_eq_of_lt (by gse_omega)
  rw [hmod, if_neg (by gse_omega)]

theorem encapPreview_err_sizeBuffer (hz : label ≠ zeroLabel)
    (hpt : ¬(MAX_MANDATORY_VAL_PTYPE ≤ pt ∧ pt < SECOND_RANGE_PTYPE))
    (hnf : ¬(FIXED_HEADER_LEN + PROTOCOL_LEN + label.len + pduLen ≤ bufLen ∧
             pduLen + label.len + PROTOCOL_LEN ≤ GSE_LEN_MAX))
    (hb : bufLen < FIXED_HEADER_LEN + PROTOCOL_LEN + label.len + FRAG_ID_LEN + TOTAL_LENGTH_LEN) :
    encapPreview pduLen pt label bufLen = .err .sizeBuffer := by
  unfold encapPreview
  simp only []
  rw [if_neg hz, if_neg hpt, if_neg hnf, if_pos hb]

theorem encapPreview_err_pduLength (hz : label ≠ zeroLabel)
    (hpt : ¬(MAX_MANDATORY_VAL_PTYPE ≤ pt ∧ pt < SECOND_RANGE_PTYPE))
    (hnf : ¬(FIXED_HEADER_LEN + PROTOCOL_LEN + label.len + pduLen ≤ bufLen ∧
             pduLen + label.len + PROTOCOL_LEN ≤ GSE_LEN_MAX))
    (hb : FIXED_HEADER_LEN + PROTOCOL_LEN + label.len + FRAG_ID_LEN + TOTAL_LENGTH_LEN ≤ bufLen)
    (ht : TOTAL_LEN_MAX < pduLen + PROTOCOL_LEN + label.len) :
    encapPreview pduLen pt label bufLen = .err .pduLength := by
  unfold encapPreview
  simp only []
  rw [if_neg hz, if_neg hpt, if_neg hnf, if_neg (Nat.not_lt.mpr hb), if_pos ht]

theorem encapPreview_first (hz : label ≠ zeroLabel)
    (hpt : ¬(MAX_MANDATORY_VAL_PTYPE ≤ pt ∧ pt < SECOND_RANGE_PTYPE))
    (hnf : ¬(FIXED_HEADER_LEN + PROTOCOL_LEN + label.len + pduLen ≤ bufLen ∧
             pduLen + label.len + PROTOCOL_LEN ≤ GSE_LEN_MAX))
    (hb : FIXED_HEADER_LEN + PROTOCOL_LEN + label.len + FRAG_ID_LEN + TOTAL_LENGTH_LEN ≤ bufLen)
    (ht : pduLen + PROTOCOL_LEN + label.len ≤ TOTAL_LEN_MAX) :
    encapPreview pduLen pt label bufLen =
      .ok ⟨.first, pduLen, FIRST_FRAG_LEN + label.len + firstPayloadLen label.len bufLen⟩ := by
  have hl6 := label.len_le
  unfold encapPreview
  simp only []
  rw [if_neg hz, if_neg hpt, if_neg hnf, if_neg (Nat.not_lt.mpr hb), if_neg (Nat.not_lt.mpr ht),
    if_neg (by gse_omega)]
  rw [show min (bufLen - (FIXED_HEADER_LEN + PROTOCOL_LEN + label.len + FRAG_ID_LEN + TOTAL_LENGTH_LEN))
      (GSE_LEN_MAX - (FRAG_ID_LEN + TOTAL_LENGTH_LEN + PROTOCOL_LEN + label.len))
    = firstPayloadLen label.len bufLen from rfl]
  have hn : firstPayloadLen label.len bufLen
      ≤ GSE_LEN_MAX - (FRAG_ID_LEN + TOTAL_LENGTH_LEN + PROTOCOL_LEN + label.len) :=
    Nat.min_le_right _ _
  generalize firstPayloadLen label.len bufLen = n at hn ⊢
  have hmod : (FRAG_ID_LEN + TOTAL_LENGTH_LEN + PROTOCOL_LEN + label.len + n) % 65536
      = FRAG_ID_LEN + TOTAL_LENGTH_LEN + PROTOCOL_LEN + label.len + n :=
    Nat.mod_eq_of_lt (by gse_omega)
  rw [hmod, if_neg (by gse_omega)]
  have : FRAG_ID_LEN + TOTAL_LENGTH_LEN + PROTOCOL_LEN + label.len + n + FIXED_HEADER_LEN
      = FIRST_FRAG_LEN + label.len + n := by gse_omega
  rw [this]

variable {ctx : FragCtx}

theorem encapFragPreview_beyond (h : ctx.pos > pduLen) :
    encapFragPreview pduLen ctx bufLen = .err .pduLength := by
  unfold encapFragPreview
  simp only []
  rw [if_pos h]

theorem encapFragPreview_end (hpos : ctx.pos ≤ pduLen)
    (hbuf : FRAG_ID_LEN + (pduLen - ctx.pos) + CRC_LEN + FIXED_HEADER_LEN ≤ bufLen)
    (hlen : FRAG_ID_LEN + (pduLen - ctx.pos) + CRC_LEN ≤ GSE_LEN_MAX) :
    encapFragPreview pduLen ctx bufLen =
      .ok ⟨.end_, pduLen - ctx.pos, FIXED_HEADER_LEN + FRAG_ID_LEN + (pduLen - ctx.pos) + CRC_LEN⟩ := by
  unfold encapFragPreview
  simp only []
  rw [if_neg (Nat.not_lt.mpr hpos), if_pos ⟨hbuf, hlen⟩]
  rw [Nat.mod_eq_of_lt (by gse_omega)]

theorem encapFragPreview_inter (hpos : ctx.pos ≤ pduLen)
    (hne : ¬(FRAG_ID_LEN + (pduLen - ctx.pos) + CRC_LEN + FIXED_HEADER_LEN ≤ bufLen ∧
             FRAG_ID_LEN + (pduLen - ctx.pos) + CRC_LEN ≤ GSE_LEN_MAX))
    (hb : FIXED_HEADER_LEN + FRAG_ID_LEN < bufLen)
    (hn0 : interPayloadLen (pduLen - ctx.pos) bufLen ≠ 0) :
    encapFragPreview pduLen ctx bufLen =
      .ok ⟨.inter, interPayloadLen (pduLen - ctx.pos) bufLen,
           FIXED_HEADER_LEN + (FRAG_ID_LEN + interPayloadLen (pduLen - ctx.pos) bufLen)⟩ := by
  unfold encapFragPreview
  simp only []
  rw [if_neg (Nat.not_lt.mpr hpos), if_neg hne, if_pos hb]
  have hfold : (if min (bufLen - (FIXED_HEADER_LEN + FRAG_ID_LEN)) (GSE_LEN_MAX - FRAG_ID_LEN)
        > pduLen - ctx.pos then pduLen - ctx.pos
      else min (bufLen - (FIXED_HEADER_LEN + FRAG_ID_LEN)) (GSE_LEN_MAX - FRAG_ID_LEN))
      = interPayloadLen (pduLen - ctx.pos) bufLen := by
    unfold interPayloadLen
    split <;> omega
  rw [hfold, if_neg hn0]
  have hna : interPayloadLen (pduLen - ctx.pos) bufLen
      ≤ min (bufLen - (FIXED_HEADER_LEN + FRAG_ID_LEN)) (GSE_LEN_MAX - FRAG_ID_LEN) :=
    Nat.min_le_left _ _
  rw [Nat.mod_eq_of_lt (by gse_omega)]

theorem encapFragPreview_err_sizeBuffer (hpos : ctx.pos ≤ pduLen)
    (hne : ¬(FRAG_ID_LEN + (pduLen - ctx.pos) + CRC_LEN + FIXED_HEADER_LEN ≤ bufLen ∧
             FRAG_ID_LEN + (pduLen - ctx.pos) + CRC_LEN ≤ GSE_LEN_MAX))
    (hb : bufLen ≤ FIXED_HEADER_LEN + FRAG_ID_LEN ∨ interPayloadLen (pduLen - ctx.pos) bufLen = 0) :
    encapFragPreview pduLen ctx bufLen = .err .sizeBuffer := by
  unfold encapFragPreview
  simp only []
  rw [if_neg (Nat.not_lt.mpr hpos), if_neg hne]
  by_cases hb' : FIXED_HEADER_LEN + FRAG_ID_LEN < bufLen
  · rw [if_pos hb']
    have hfold : (if min (bufLen - (FIXED_HEADER_LEN + FRAG_ID_LEN)) (GSE_LEN_MAX - FRAG_ID_LEN)
          > pduLen - ctx.pos then pduLen - ctx.pos
        else min (bufLen - (FIXED_HEADER_LEN + FRAG_ID_LEN)) (GSE_LEN_MAX - FRAG_ID_LEN))
        = interPayloadLen (pduLen - ctx.pos) bufLen := by
      unfold interPayloadLen
      split <;> omega
    rw [hfold, if_pos (by omega)]
  · rw [if_neg hb']

end preview

end Gse
