/-
Reassembly as a ghost history (used by Props/C03.lean).

`trainOf ds fid` is the abstract content of the reassembly in progress for fragment id `fid`: the
fields the first fragment announced (label, protocol type, total length, "label was re-used",
extension headers) and the payload bytes accumulated so far (`storage[.. pdu_len]`).  The step lemmas
say, for ARBITRARY input bytes, how one call of `decap` transforms it:

* `train_first`, `train_first_other`  — first fragments (accepted: restart with the packet's fields
  and payload; rejected: unchanged or freed);
* `train_inter` — intermediate packets (accepted: the payload is appended, nothing else changes);
* `train_end`   — end packets (completed: the accumulated payload followed by the packet's payload
  has exactly the announced length — over ℕ — and the CRC of the trailer, and is what is delivered);
* `train_other` — complete packets, padding, buffers refused before dispatch: nothing changes;
* `train_step`  — all of the above as one function `trainStep` of the input bytes and the result of
  the call only (exact, ids sharing a slot included).
-/
import GseVerif.Lemmas.DecapInv
import GseVerif.Props.C07

namespace Gse
open Gen

/-! ### Vocabulary -/

/-- what a reassembly in progress stands for: the first fragment's fields and the payload bytes
accepted since, concatenated in arrival order -/
structure Train where
  label : Label
  pt : Nat
  totalLen : Nat
  fromReuse : Bool
  exts : List Ext
  payload : Bytes
  deriving DecidableEq, Repr, Inhabited

/-- abstraction of a saved context and its buffer -/
def Train.ofCtx (cs : Ctx × Storage) : Train :=
  ⟨cs.1.label, cs.1.pt, cs.1.totalLen, cs.1.fromReuse, cs.1.exts, cs.2.data.take cs.1.pduLen⟩

/-- the reassembly in progress for fragment id `fid`, abstractly -/
def trainOf (ds : Dec) (fid : Nat) : Option Train := (ctxOf ds fid).map Train.ofCtx

/-- the number of label bytes the first fragment carried (none when it re-used the last label) -/
def Train.labelLen (t : Train) : Nat := if t.fromReuse then 0 else t.label.len

/-- the label bytes covered by the CRC -/
def Train.crcLabel (t : Train) : Bytes := if t.fromReuse then [] else t.label.bytes

/-- `decap` reaches a per-kind function: the header fields `(gse_len, kind, label type)` of a buffer
holding the whole packet it announces (`none`: too short, padding, truncated) -/
def dispatch (buf : Bytes) : Option (Nat × PktType × LabelType) :=
  match get16 buf 0 with
  | none => none
  | some w =>
    match readHeader w with
    | .ok (some (gseLen, k, lt)) =>
      if buf.length < gseLen + FIXED_HEADER_LEN then none else some (gseLen, k, lt)
    | _ => none

theorem dispatchKind_eq_map (buf : Bytes) : dispatchKind buf = (dispatch buf).map (·.2.1) := by
  unfold dispatchKind dispatch
  cases get16 buf 0 with
  | none => rfl
  | some w =>
    simp only []
    generalize readHeader w = r
    match r with
    | .ok (some (g, k, lt)) => simp only []; split <;> rfl
    | .ok none => rfl
    | .err _ => rfl
    | .panic => rfl

theorem dispatch_some {buf : Bytes} {g : Nat} {k : PktType} {lt : LabelType}
    (h : dispatch buf = some (g, k, lt)) :
    ∃ w, get16 buf 0 = some w ∧ readHeader w = .ok (some (g, k, lt)) ∧
      g + FIXED_HEADER_LEN ≤ buf.length ∧ g ≤ 4095 := by
  unfold dispatch at h
  split at h
  · cases h
  · rename_i w hw
    split at h
    · rename_i g' k' lt' hr
      split at h
      · cases h
      · cases h
        exact ⟨w, hw, hr, by omega, (C14_read_gen w (get16_lt hw) _ _ _ hr).2⟩
    · cases h

theorem decap_of_dispatch (crc : CrcFn) (mgr : MgrFn) (ds : Dec) {buf : Bytes} {g : Nat}
    {k : PktType} {lt : LabelType} (h : dispatch buf = some (g, k, lt)) :
    (k = .complete → decap crc mgr ds buf = decapComplete mgr ds buf lt (g + FIXED_HEADER_LEN) g) ∧
    (k = .first → decap crc mgr ds buf = decapFirst mgr ds buf lt (g + FIXED_HEADER_LEN) g) ∧
    (k = .inter → decap crc mgr ds buf = decapInter ds buf (g + FIXED_HEADER_LEN) g) ∧
    (k = .end_ → decap crc mgr ds buf = decapEnd crc ds buf (g + FIXED_HEADER_LEN) g) := by
  obtain ⟨w, hw, hr, hl, -⟩ := dispatch_some h
  have := decap_dispatch_kind crc mgr ds hw hr hl
  refine ⟨?_, ?_, ?_, ?_⟩ <;> (intro hk; subst hk; exact this)

/-- the fragment id byte of a dispatched fragment is there -/
theorem dispatch_fragId {buf : Bytes} {g : Nat} {k : PktType} {lt : LabelType}
    (h : dispatch buf = some (g, k, lt)) (hg : 1 ≤ g) : ∃ j, get8 buf FIXED_HEADER_LEN = some j := by
  obtain ⟨w, -, -, hl, -⟩ := dispatch_some h
  exact get8_some_of_lt (by gse_omega)

/-! ### `ctxOf` / `trainOf` under an update of the slot array -/

theorem ctxOf_congr {ds ds' : Dec} (hn : ds'.mem.maxFragId = ds.mem.maxFragId)
    (hfr : ds'.mem.frags = ds.mem.frags) (i : Nat) : ctxOf ds' i = ctxOf ds i := by
  unfold ctxOf; rw [hn, hfr]

theorem trainOf_congr {ds ds' : Dec} (hn : ds'.mem.maxFragId = ds.mem.maxFragId)
    (hfr : ds'.mem.frags = ds.mem.frags) (i : Nat) : trainOf ds' i = trainOf ds i := by
  unfold trainOf; rw [ctxOf_congr hn hfr]

theorem ctxOf_set_none {ds ds' : Dec} {j : Nat} (hn : ds'.mem.maxFragId = ds.mem.maxFragId)
    (hfr : ds'.mem.frags = ds.mem.frags.set (j % ds.mem.maxFragId) none) :
    ctxOf ds' j = none := by
  unfold ctxOf
  rw [hn, hfr, List.getElem?_set]
  simp only [if_true]
  split
  · rename_i c s h
    split at h <;> cases h
  · rfl

theorem ctxOf_set_some {ds ds' : Dec} {j : Nat} {c : Ctx} {s : Storage}
    (hn : ds'.mem.maxFragId = ds.mem.maxFragId)
    (hfr : ds'.mem.frags = ds.mem.frags.set (j % ds.mem.maxFragId) (some (c, s)))
    (hlt : j % ds.mem.maxFragId < ds.mem.frags.length) (hc : c.fragId = j) :
    ctxOf ds' j = some (c, s) := by
  unfold ctxOf
  rw [hn, hfr, List.getElem?_set_self hlt]
  simp [hc]

/-- an id sharing the slot with `j` has nothing left once slot `j % n` holds nothing or a context of
id `j` -/
theorem ctxOf_set_alias {ds ds' : Dec} {j i : Nat} {v : Option (Ctx × Storage)}
    (hn : ds'.mem.maxFragId = ds.mem.maxFragId)
    (hfr : ds'.mem.frags = ds.mem.frags.set (j % ds.mem.maxFragId) v)
    (hv : ∀ c s, v = some (c, s) → c.fragId = j) (hij : i ≠ j)
    (hs : i % ds.mem.maxFragId = j % ds.mem.maxFragId) : ctxOf ds' i = none := by
  unfold ctxOf
  rw [hn, hfr, hs, List.getElem?_set]
  simp only [if_true]
  split
  · rename_i c s h
    split at h
    · cases h
      rw [if_neg (by rw [hv c s rfl]; exact Ne.symm hij)]
    · cases h
  · rfl

theorem ctxOf_set_far {ds ds' : Dec} {j i : Nat} {v : Option (Ctx × Storage)}
    (hn : ds'.mem.maxFragId = ds.mem.maxFragId)
    (hfr : ds'.mem.frags = ds.mem.frags.set (j % ds.mem.maxFragId) v)
    (hs : i % ds.mem.maxFragId ≠ j % ds.mem.maxFragId) : ctxOf ds' i = ctxOf ds i := by
  unfold ctxOf
  rw [hn, hfr, List.getElem?_set_ne (Ne.symm hs)]

/-- `take_frag(j)` succeeds exactly on `ctxOf ds j` -/
theorem ctxOf_of_takeFrag {ds : Dec} {j : Nat} {c : Ctx} {st : Storage} {m1 : Mem}
    (hi : ds.mem.Ok) (h : ds.mem.takeFrag j = (.ok (c, st), m1)) : ctxOf ds j = some (c, st) := by
  obtain ⟨hfid, -, -, -, -, hslot, -⟩ := hi.takeFrag_ok h
  unfold ctxOf
  rw [hslot]
  simp [hfid]

theorem ctxOf_none_of_takeFrag_err {ds : Dec} {j : Nat} {e : MemErr} {m1 : Mem}
    (hi : ds.mem.Ok) (h : ds.mem.takeFrag j = (.err e, m1)) : ctxOf ds j = none := by
  unfold ctxOf
  unfold Mem.takeFrag at h
  split at h
  · rename_i h0
    have : ds.mem.frags.length = 0 := by rw [hi.1.1, h0]
    rw [List.getElem?_eq_none (by omega)]
  · simp only [] at h
    split at h
    · cases h
    · rename_i hs; rw [hs]
    · rename_i c s hs
      rw [hs]
      split at h
      · cases h
      · rename_i hne; simp [hne]

theorem giveBack_res (m1 : Mem) (last : Option Label) (st : Storage) (e : DecErr) (n : Nat) :
    (giveBack m1 last st e n).res = .err e ∨
      (giveBack m1 last st e n).res = .err (.memory (.storageOverflow st)) ∨
      (giveBack m1 last st e n).res = .err (.memory (.bufferTooSmall st)) := by
  unfold giveBack Mem.provision
  split <;> rename_i h <;> revert h <;> split <;> (try split) <;> intro h <;> cases h <;> simp

theorem giveBack_cfg (m1 : Mem) (last : Option Label) (st : Storage) (e : DecErr) (n : Nat) :
    (giveBack m1 last st e n).st.mem.maxFragId = m1.maxFragId := by
  unfold giveBack Mem.provision
  split <;> rename_i h <;> revert h <;> split <;> (try split) <;> intro h <;> cases h <;> rfl

theorem blit_take {b src b' : Bytes} {off : Nat} (h : blit b off src = some b') :
    b'.take (off + src.length) = b.take off ++ src := by
  obtain ⟨h1, rfl⟩ := blit_eq_some.mp h
  exact List.take_left' (by simp only [List.length_append, List.length_take]; omega)

/-! ### Intermediate packets -/

/-- payload bytes of an intermediate packet whose header announces `g` bytes: everything behind the
fragment id -/
def interPayload (buf : Bytes) (g : Nat) : Bytes :=
  (buf.drop (FIXED_HEADER_LEN + FRAG_ID_LEN)).take (g - FRAG_ID_LEN)

/-- what one `decap_intermediate` does to the train of its fragment id `j` -/
def InterPost (ds : Dec) (buf : Bytes) (g j : Nat) (o : DecOut) : Prop :=
  (∃ md t, o.res = .ok (.fragmented md) ∧ FRAG_ID_LEN < g ∧ trainOf ds j = some t ∧
      trainOf o.st j = some { t with payload := t.payload ++ interPayload buf g } ∧
      md = ⟨0, t.pt, t.label, t.exts⟩) ∨
  (o.res = .err .gseLength ∧ g ≤ FRAG_ID_LEN ∧ trainOf o.st j = trainOf ds j) ∨
  (∃ e, o.res = .err e ∧ e ≠ .gseLength ∧ trainOf o.st j = none)

theorem decapInter_train (ds : Dec) (buf : Bytes) (g j : Nat) (hi : ds.mem.Ok)
    (hb : g + FIXED_HEADER_LEN ≤ buf.length) (hj : get8 buf FIXED_HEADER_LEN = some j) :
    InterPost ds buf g j (decapInter ds buf (g + FIXED_HEADER_LEN) g) := by
  unfold decapInter
  simp only []
  split
  · rename_i hg
    exact .inr (.inl ⟨rfl, hg, rfl⟩)
  rename_i hg
  rw [hj]; simp only []
  split
  · exact (hi.takeFrag_panic ‹_›).elim
  · rename_i e m1 htk
    obtain ⟨rfl, rfl⟩ := hi.takeFrag_err htk
    refine .inr (.inr ⟨_, rfl, by simp, ?_⟩)
    simp only [trainOf, ctxOf_none_of_takeFrag_err hi htk, Option.map_none]
  rename_i ctx st m1 htk
  obtain ⟨hfid', hlen, hm1, hc1, h0, hslot, hfr, hsto, hnone, hperm⟩ := hi.takeFrag_ok htk
  have hctx := ctxOf_of_takeFrag hi htk
  -- every refusal after `take_frag` leaves the slot empty
  have hgb : ∀ (e : DecErr) (n : Nat), e ≠ .gseLength →
      InterPost ds buf g j (giveBack m1 ds.last st e n) := by
    intro e n he
    have hnone' : trainOf (giveBack m1 ds.last st e n).st j = none := by
      unfold trainOf
      rw [ctxOf_set_none ((giveBack_cfg ..).trans hc1.1) ((giveBack_frags ..).trans hfr)]
      rfl
    rcases giveBack_res m1 ds.last st e n with h | h | h
    · exact .inr (.inr ⟨_, h, he, hnone'⟩)
    · exact .inr (.inr ⟨_, h, by simp, hnone'⟩)
    · exact .inr (.inr ⟨_, h, by simp, hnone'⟩)
  split
  · exact hgb _ _ (by simp)
  split
  · omega
  split
  · exact hgb _ _ (by simp)
  rename_i h1 h2 h3
  obtain ⟨d, hd, hdl⟩ := slice_some_of_le (b := buf) (off := FIXED_HEADER_LEN + FRAG_ID_LEN)
    (len := g - FRAG_ID_LEN) (by gse_omega)
  obtain ⟨data, hdata, hdatal⟩ := blit_some_of_le (b := st.data) (off := ctx.pduLen) (src := d)
    (by omega)
  rw [hd]; simp only [Option.bind]; rw [hdata]; simp only []
  obtain ⟨m2, hsv, hm2, hc2, hfr2, hsto2, hperm2⟩ := hm1.saveFrag_ok
    ({ ctx with pduLen := ctx.pduLen + (g - FRAG_ID_LEN) }, { st with data := data })
    (hc1.1 ▸ h0) (by simpa [hc1.1, hfid'] using hnone) (by simp only [hdatal]; omega)
  rw [hsv]
  simp only []
  have hdp : d = interPayload buf g := (slice_eq_some.mp hd).2
  have hfr3 : m2.frags = ds.mem.frags.set (j % ds.mem.maxFragId)
      (some ({ ctx with pduLen := ctx.pduLen + (g - FRAG_ID_LEN) }, { st with data := data })) := by
    simp only [hfr2, hfr, hc1.1, hfid', List.set_set]
  have hnew := ctxOf_set_some (ds := ds) (ds' := ⟨m2, ds.last⟩) (j := j) (hc2.1.trans hc1.1) hfr3
    (hi.1.slot_lt h0 j) hfid'
  refine .inl ⟨_, Train.ofCtx (ctx, st), rfl, by omega, ?_, ?_, rfl⟩
  · simp only [trainOf, hctx, Option.map_some]
  · simp only [trainOf, hnew, Option.map_some, Train.ofCtx]
    have := blit_take hdata
    rw [hdl] at this
    rw [this, hdp]

/-! ### End packets -/

/-- payload bytes of an end packet whose header announces `g` bytes: what lies between the fragment
id and the 4-byte trailer -/
def endPayload (buf : Bytes) (g : Nat) : Bytes :=
  (buf.drop (FIXED_HEADER_LEN + FRAG_ID_LEN)).take (g - (FRAG_ID_LEN + CRC_LEN))

/-- the CRC trailer of an end packet: the last four bytes of the packet, big endian -/
def endTrailer (buf : Bytes) (g : Nat) : Option Nat :=
  get32 buf (FIXED_HEADER_LEN + FRAG_ID_LEN + (g - (FRAG_ID_LEN + CRC_LEN)))

/-- what one `decap_end` does to the train of its fragment id `j`, and what it delivers -/
def EndPost (crc : CrcFn) (ds : Dec) (buf : Bytes) (g j : Nat) (o : DecOut) : Prop :=
  (∃ sto md t c, o.res = .ok (.completed sto md) ∧ FRAG_ID_LEN + CRC_LEN ≤ g ∧
      trainOf ds j = some t ∧ endTrailer buf g = some c ∧
      (t.payload ++ endPayload buf g).length + PROTOCOL_LEN + t.labelLen = t.totalLen ∧
      crc (t.payload ++ endPayload buf g) t.pt t.totalLen t.crcLabel = c ∧
      sto.data.take md.pduLen = t.payload ++ endPayload buf g ∧
      md = ⟨(t.payload ++ endPayload buf g).length, t.pt, t.label, t.exts⟩ ∧
      trainOf o.st j = none) ∨
  (o.res = .err .sizeBuffer ∧ g < FRAG_ID_LEN + CRC_LEN ∧ trainOf o.st j = trainOf ds j) ∨
  (∃ e, o.res = .err e ∧ e ≠ .sizeBuffer ∧ trainOf o.st j = none)

theorem decapEnd_train (crc : CrcFn) (ds : Dec) (buf : Bytes) (g j : Nat) (hi : ds.mem.Ok)
    (hb : g + FIXED_HEADER_LEN ≤ buf.length) (hj : get8 buf FIXED_HEADER_LEN = some j) :
    EndPost crc ds buf g j (decapEnd crc ds buf (g + FIXED_HEADER_LEN) g) := by
  unfold decapEnd
  simp only []
  split
  · rename_i hg
    exact .inr (.inl ⟨rfl, hg, rfl⟩)
  rename_i hg
  rw [hj]; simp only []
  split
  · exact (hi.takeFrag_panic ‹_›).elim
  · rename_i e m1 htk
    obtain ⟨rfl, rfl⟩ := hi.takeFrag_err htk
    refine .inr (.inr ⟨_, rfl, by simp, ?_⟩)
    simp only [trainOf, ctxOf_none_of_takeFrag_err hi htk, Option.map_none]
  rename_i ctx st m1 htk
  obtain ⟨hfid', hlen, hm1, hc1, h0, hslot, hfr, hsto, hnone, hperm⟩ := hi.takeFrag_ok htk
  have hctx := ctxOf_of_takeFrag hi htk
  have hnone1 : ∀ last, trainOf ⟨m1, last⟩ j = none := by
    intro last
    unfold trainOf
    rw [ctxOf_set_none (ds := ds) (ds' := ⟨m1, last⟩) hc1.1 hfr]
    rfl
  have hgb : ∀ (s : Storage) (e : DecErr) (n : Nat), e ≠ .sizeBuffer →
      EndPost crc ds buf g j (giveBack m1 ds.last s e n) := by
    intro s e n he
    have hnone' : trainOf (giveBack m1 ds.last s e n).st j = none := by
      unfold trainOf
      rw [ctxOf_set_none ((giveBack_cfg ..).trans hc1.1) ((giveBack_frags ..).trans hfr)]
      rfl
    rcases giveBack_res m1 ds.last s e n with h | h | h
    · exact .inr (.inr ⟨_, h, he, hnone'⟩)
    · exact .inr (.inr ⟨_, h, by simp, hnone'⟩)
    · exact .inr (.inr ⟨_, h, by simp, hnone'⟩)
  split
  · omega
  split
  · exact hgb _ _ _ (by simp)
  rename_i h1 h2
  obtain ⟨d, hd, hdl⟩ := slice_some_of_le (b := buf) (off := FIXED_HEADER_LEN + FRAG_ID_LEN)
    (len := g - (FRAG_ID_LEN + CRC_LEN)) (by gse_omega)
  obtain ⟨data, hdata, hdatal⟩ := blit_some_of_le (b := st.data) (off := ctx.pduLen) (src := d)
    (by omega)
  obtain ⟨rx, hrx⟩ := get32_some_of_le (b := buf)
    (off := FIXED_HEADER_LEN + FRAG_ID_LEN + (g - (FRAG_ID_LEN + CRC_LEN))) (by gse_omega)
  rw [hd]; simp only [Option.bind]; rw [hdata, hrx]; simp only []
  generalize hfl : (if ctx.fromReuse = true then 0 else ctx.label.type.len) = fl
  generalize hcl : (if ctx.fromReuse = true then ([] : Bytes) else ctx.label.bytes) = cl
  split
  · exact hgb _ _ _ (by simp)
  rename_i htot
  obtain ⟨pdu, hpdu, -⟩ := slice_some_of_le (b := data) (off := 0)
    (len := ctx.pduLen + (g - (FRAG_ID_LEN + CRC_LEN))) (by omega)
  rw [hpdu]; simp only []
  split
  · exact hgb _ _ _ (by simp)
  rename_i hcrc
  have hdp : d = endPayload buf g := (slice_eq_some.mp hd).2
  have htake : data.take (ctx.pduLen + (g - (FRAG_ID_LEN + CRC_LEN))) =
      st.data.take ctx.pduLen ++ endPayload buf g := by
    have := blit_take hdata
    rwa [hdl, hdp] at this
  have hpdu' : pdu = st.data.take ctx.pduLen ++ endPayload buf g := by
    rw [slice_zero (by omega)] at hpdu
    cases hpdu; exact htake
  have hPlen : (st.data.take ctx.pduLen ++ endPayload buf g).length =
      ctx.pduLen + (g - (FRAG_ID_LEN + CRC_LEN)) := by
    rw [← hdp, List.length_append, List.length_take, hdl]; omega
  refine .inl ⟨_, _, Train.ofCtx (ctx, st), rx, rfl, by omega, ?_, hrx, ?_, ?_, ?_, ?_, hnone1 _⟩
  · simp only [trainOf, hctx, Option.map_some]
  · simp only [Train.ofCtx, Train.labelLen, hPlen, Label.len_eq_type_len]
    simp only [ne_eq, Decidable.not_not] at htot
    rw [htot, hfl]
  · simp only [Train.ofCtx, Train.crcLabel]
    simp only [ne_eq, Decidable.not_not] at hcrc
    rw [← hpdu']; subst hcl; exact hcrc
  · simp only [Train.ofCtx]; exact htake
  · simp only [Train.ofCtx, hPlen]

/-! ### First fragments -/

/-- the extension-header walk of a first fragment (label type `lt`, header length `g`), computed
from the input bytes alone; `none` when the walk is refused -/
def firstWalk (mgr : MgrFn) (buf : Bytes) (lt : LabelType) (g : Nat) : Option WalkOk :=
  match get16 buf (FIXED_HEADER_LEN + FRAG_ID_LEN + TOTAL_LENGTH_LEN) with
  | none => none
  | some pt0 =>
    match walkOf mgr buf pt0
        (FIXED_HEADER_LEN + FRAG_ID_LEN + TOTAL_LENGTH_LEN + PROTOCOL_LEN + lt.len)
        (g + FIXED_HEADER_LEN) with
    | .ok w => some w
    | _ => none

/-- number of payload bytes of a first fragment: `gse_len - (5 + label length + extension length)` -/
def rxFirstPayloadLen (mgr : MgrFn) (buf : Bytes) (lt : LabelType) (g : Nat) : Nat :=
  match firstWalk mgr buf lt g with
  | some w => g - (FRAG_ID_LEN + TOTAL_LENGTH_LEN + lt.len + w.len + PROTOCOL_LEN)
  | none => 0

/-- payload bytes of a first fragment: the last `rxFirstPayloadLen` bytes of the packet -/
def firstPayload (mgr : MgrFn) (buf : Bytes) (lt : LabelType) (g : Nat) : Bytes :=
  (buf.drop (g + FIXED_HEADER_LEN - rxFirstPayloadLen mgr buf lt g)).take
    (rxFirstPayloadLen mgr buf lt g)

/-- the errors by which `decap_first` answers after `new_frag` took the slot (storage too small for
the packet: `ErrorSizePduBuffer`, or the error of the give-back) -/
def resClaims : Res DecErr DecStatus → Bool
  | .err .sizePduBuffer => true
  | .err (.memory (.storageOverflow _)) => true
  | .err (.memory (.bufferTooSmall _)) => true
  | _ => false

/-- a refused first fragment that nevertheless emptied the slot of its fragment id: the headers were
walked successfully and the answer is one of `resClaims` (an `ErrorSizePduBuffer` of a refused walk
is told apart by `firstWalk`) -/
def firstClaimed (mgr : MgrFn) (buf : Bytes) (lt : LabelType) (g : Nat)
    (res : Res DecErr DecStatus) : Bool :=
  resClaims res && (firstWalk mgr buf lt g).isSome

/-- what one `decap_first` does to the slot of its fragment id `j` -/
def FirstPost (mgr : MgrFn) (ds : Dec) (buf : Bytes) (lt : LabelType) (g j : Nat) (o : DecOut) :
    Prop :=
  (∃ md tl w c s, o.res = .ok (.fragmented md) ∧
      get16 buf (FIXED_HEADER_LEN + FRAG_ID_LEN) = some tl ∧ firstWalk mgr buf lt g = some w ∧
      FRAG_ID_LEN + TOTAL_LENGTH_LEN + lt.len + w.len + PROTOCOL_LEN ≤ g ∧
      md.pduLen = 0 ∧ md.pt = w.pt ∧ md.exts = w.exts ∧ ds.mem.maxFragId ≠ 0 ∧
      o.st.mem.frags = ds.mem.frags.set (j % ds.mem.maxFragId) (some (c, s)) ∧ c.fragId = j ∧
      Train.ofCtx (c, s) =
        ⟨md.label, md.pt, tl, lt == .reuse, md.exts, firstPayload mgr buf lt g⟩) ∨
  ((∃ e, o.res = .err e) ∧ firstClaimed mgr buf lt g o.res = false ∧
      o.st.mem.frags = ds.mem.frags) ∨
  ((∃ e, o.res = .err e) ∧ firstClaimed mgr buf lt g o.res = true ∧
      ds.mem.maxFragId ≠ 0 ∧ o.st.mem.frags = ds.mem.frags.set (j % ds.mem.maxFragId) none)

theorem firstPost_fail {mgr : MgrFn} {ds : Dec} {buf : Bytes} {lt : LabelType} {g j : Nat}
    {e : DecErr} {n : Nat} (he : resClaims (.err e) = false) :
    FirstPost mgr ds buf lt g j (ds.fail ds.mem e n) :=
  .inr (.inl ⟨⟨e, rfl⟩, by simp [firstClaimed, Dec.fail, he], rfl⟩)

theorem decapFirst_train (mgr : MgrFn) (ds : Dec) (buf : Bytes) (lt : LabelType) (g j : Nat)
    (hi : ds.mem.Ok) (hb : g + FIXED_HEADER_LEN ≤ buf.length) (hg4 : g ≤ 4095)
    (hj : get8 buf FIXED_HEADER_LEN = some j) :
    FirstPost mgr ds buf lt g j (decapFirst mgr ds buf lt (g + FIXED_HEADER_LEN) g) := by
  unfold decapFirst
  simp only []
  split
  · exact firstPost_fail rfl
  rename_i hg
  have hlt6 := lt.len_le
  obtain ⟨tl, htl⟩ := get16_some_of_le (b := buf) (off := FIXED_HEADER_LEN + FRAG_ID_LEN)
    (by gse_omega)
  obtain ⟨pt0, hpt0⟩ := get16_some_of_le (b := buf)
    (off := FIXED_HEADER_LEN + FRAG_ID_LEN + TOTAL_LENGTH_LEN) (by gse_omega)
  rw [hj, htl, hpt0]; simp only []
  obtain ⟨lb, hlb, hlbl⟩ := slice_some_of_le (b := buf)
    (off := FIXED_HEADER_LEN + FRAG_ID_LEN + TOTAL_LENGTH_LEN + PROTOCOL_LEN)
    (len := lt.len) (by gse_omega)
  obtain ⟨label, hlabel⟩ := Label.new_some hlbl
  rw [hlb]; simp only [Option.bind]; rw [hlabel]; simp only []
  split
  · exact firstPost_fail rfl
  split
  · rename_i e hbad
    refine firstPost_fail ?_
    unfold resolveLabel at hbad
    split at hbad
    · split at hbad <;> cases hbad <;> rfl
    · cases hbad
    · cases hbad
  rename_i cur last' hres
  have hwspec := walkOf_spec mgr buf pt0
    (FIXED_HEADER_LEN + FRAG_ID_LEN + TOTAL_LENGTH_LEN + PROTOCOL_LEN + lt.len)
    (g + FIXED_HEADER_LEN) (by gse_omega) hb
  split
  · rename_i heq
    exact (hwspec.1 heq).elim
  · rename_i heq
    have hfw : firstWalk mgr buf lt g = none := by
      unfold firstWalk; rw [hpt0]; simp only []
      have : walkOf mgr buf pt0
        (FIXED_HEADER_LEN + FRAG_ID_LEN + TOTAL_LENGTH_LEN + PROTOCOL_LEN + lt.len)
        (g + FIXED_HEADER_LEN) = .err .bufferTooSmall := heq
      rw [this]
    exact .inr (.inl ⟨⟨_, rfl⟩, by simp [firstClaimed, hfw], rfl⟩)
  · exact firstPost_fail rfl
  rename_i w heq
  have heq' : walkOf mgr buf pt0
      (FIXED_HEADER_LEN + FRAG_ID_LEN + TOTAL_LENGTH_LEN + PROTOCOL_LEN + lt.len)
      (g + FIXED_HEADER_LEN) = .ok w := heq
  have hfw : firstWalk mgr buf lt g = some w := by
    unfold firstWalk; rw [hpt0]; simp only []; rw [heq']
  have hwl : w.len ≤ g + FIXED_HEADER_LEN -
      (FIXED_HEADER_LEN + FRAG_ID_LEN + TOTAL_LENGTH_LEN + PROTOCOL_LEN + lt.len) := hwspec.2 w heq
  split
  · gse_omega
  split
  · exact firstPost_fail rfl
  split
  · exact (hi.newFrag_panic ‹_›).elim
  · obtain ⟨rfl, rfl⟩ := hi.newFrag_err ‹_›
    exact firstPost_fail rfl
  rename_i ctx st m1 hnf
  obtain ⟨rfl, hm1, hc1, h0, hfr, hnone, hperm⟩ := hi.newFrag_ok hnf
  split
  · -- the buffer is too small for the packet: given back, the slot stays empty
    refine .inr (.inr ⟨?_, ?_, h0, (giveBack_frags ..).trans hfr⟩)
    · rcases giveBack_res m1 none st .sizePduBuffer (g + FIXED_HEADER_LEN) with h | h | h <;>
        exact ⟨_, h⟩
    · simp only [firstClaimed, hfw, Option.isSome_some, Bool.and_true]
      rcases giveBack_res m1 none st .sizePduBuffer (g + FIXED_HEADER_LEN) with h | h | h <;>
        rw [h] <;> rfl
  rename_i h1 h2 h3
  obtain ⟨d, hd, hdl⟩ := slice_some_of_le (b := buf)
    (off := FIXED_HEADER_LEN + FRAG_ID_LEN + TOTAL_LENGTH_LEN + PROTOCOL_LEN + lt.len + w.len)
    (len := g - (FRAG_ID_LEN + TOTAL_LENGTH_LEN + lt.len + w.len + PROTOCOL_LEN))
    (by gse_omega)
  obtain ⟨data, hdata, hdatal⟩ := blit_some_of_le (b := st.data) (off := 0) (src := d)
    (by gse_omega)
  rw [hd]; simp only []; rw [hdata]; simp only []
  obtain ⟨m2, hsv, hm2, hc2, hfr2, hsto2, hperm2⟩ := hm1.saveFrag_ok
    (⟨cur, w.pt, j, tl,
      (g - (FRAG_ID_LEN + TOTAL_LENGTH_LEN + lt.len + w.len + PROTOCOL_LEN)) % 65536,
      lt == .reuse, w.exts⟩, { st with data := data })
    (hc1.1 ▸ h0) (by simpa [hc1.1] using hnone)
    (by simp only [hdatal]; have := Nat.mod_le
          (g - (FRAG_ID_LEN + TOTAL_LENGTH_LEN + lt.len + w.len + PROTOCOL_LEN)) 65536
        gse_omega)
  rw [hsv]
  simp only []
  have hn : (g - (FRAG_ID_LEN + TOTAL_LENGTH_LEN + lt.len + w.len + PROTOCOL_LEN)) % 65536 =
      g - (FRAG_ID_LEN + TOTAL_LENGTH_LEN + lt.len + w.len + PROTOCOL_LEN) :=
    Nat.mod_eq_of_lt (by omega)
  have hk : rxFirstPayloadLen mgr buf lt g =
      g - (FRAG_ID_LEN + TOTAL_LENGTH_LEN + lt.len + w.len + PROTOCOL_LEN) := by
    unfold rxFirstPayloadLen; rw [hfw]
  have hdp : d = firstPayload mgr buf lt g := by
    unfold firstPayload
    rw [hk, (slice_eq_some.mp hd).2]
    congr 2
    gse_omega
  refine .inl ⟨_, tl, w, ⟨cur, w.pt, j, tl,
      (g - (FRAG_ID_LEN + TOTAL_LENGTH_LEN + lt.len + w.len + PROTOCOL_LEN)) % 65536,
      lt == .reuse, w.exts⟩, { st with data := data },
    rfl, htl, hfw, by gse_omega, rfl, rfl, rfl, h0, ?_, rfl, ?_⟩
  · simp only [hfr2, hfr, hc1.1, List.set_set]
  · simp only [Train.ofCtx, hn]
    have := blit_take hdata
    rw [Nat.zero_add, hdl, List.take_zero, List.nil_append] at this
    rw [this, hdp]

/-! ### The step lemmas at the level of `decap` (arbitrary input bytes, any `Dec.Inv` state) -/

theorem decap_cfg (crc : CrcFn) (mgr : MgrFn) (ds : Dec) (buf : Bytes) (h : ds.Inv) :
    (decap crc mgr ds buf).st.mem.maxFragId = ds.mem.maxFragId := by
  obtain ⟨_, hg, -⟩ := decap_good crc mgr ds buf ((Dec.inv_iff ds).mp h)
  exact hg.cfg.1

/-- a buffer without a fragment id byte changes no slot -/
theorem decap_frags_of_no_fid (crc : CrcFn) (mgr : MgrFn) (ds : Dec) (buf : Bytes) (h : ds.Inv)
    (hj : get8 buf FIXED_HEADER_LEN = none) :
    (decap crc mgr ds buf).st.mem.frags = ds.mem.frags := by
  obtain ⟨_, hg, -⟩ := decap_good crc mgr ds buf ((Dec.inv_iff ds).mp h)
  rcases hg.eff with heq | ⟨fid, v, hfid, -⟩
  · exact heq
  · rw [hj] at hfid; cases hfid

/-- **Complete packets, padding, buffers refused before dispatch** leave every train as it is. -/
theorem train_other (crc : CrcFn) (mgr : MgrFn) (ds : Dec) (buf : Bytes) (h : ds.Inv)
    (hk : dispatch buf = none ∨ ∃ g lt, dispatch buf = some (g, .complete, lt)) :
    ∀ i, trainOf (decap crc mgr ds buf).st i = trainOf ds i := by
  intro i
  refine trainOf_congr (decap_cfg crc mgr ds buf h) ?_ i
  apply C07_frame_complete_padding crc mgr ds buf h
  rw [dispatchKind_eq_map]
  rcases hk with hk | ⟨g, lt, hk⟩ <;> rw [hk]
  · exact .inl rfl
  · exact .inr rfl

/-- **Intermediate packets.**  For an arbitrary buffer that `decap` dispatches to
`decap_intermediate` with fragment id byte `j`: either it is accepted (`Ok(FragmentedPkt)`), then a
train `t` of id `j` was in progress, it now is `t` with the packet's payload appended, and the
metadata are `t`'s; or the packet has no payload (`ErrorGseLength`) and nothing changes; or it is
refused with another error and the train of `j` is gone (it was absent, or it is freed).  The trains
of all other ids are untouched. -/
theorem train_inter (crc : CrcFn) (mgr : MgrFn) (ds : Dec) (buf : Bytes) (h : ds.Inv)
    {g j : Nat} {lt : LabelType} (hd : dispatch buf = some (g, .inter, lt))
    (hj : get8 buf FIXED_HEADER_LEN = some j) :
    InterPost ds buf g j (decap crc mgr ds buf) ∧
      ∀ i, i ≠ j → trainOf (decap crc mgr ds buf).st i = trainOf ds i := by
  obtain ⟨w, hw, hr, hl, -⟩ := dispatch_some hd
  refine ⟨?_, fun i hij => ?_⟩
  · rw [(decap_of_dispatch crc mgr ds hd).2.2.1 rfl]
    exact decapInter_train ds buf g j ((Dec.inv_iff ds).mp h) hl hj
  · unfold trainOf
    rw [C07_frame_inter_end crc mgr ds buf h hw hr (.inl rfl) hj i hij]

/-- **End packets.**  For an arbitrary buffer that `decap` dispatches to `decap_end` with fragment id
byte `j`: if it answers `Ok(CompletedPkt(storage, metadata))` then a train `t` of id `j` was in
progress and, with `P = t.payload ++ payload of this packet`: `|P| + 2 + carried label length` is
`t.totalLen` as natural numbers, the CRC over (`P`, protocol type, total length, label bytes) is the
packet's trailer, the delivered bytes are `P`, the metadata are `⟨|P|, t.pt, t.label, t.exts⟩`, and
the train is closed.  Otherwise nothing is delivered: the packet is shorter than a fragment id and a
trailer (`ErrorSizeBuffer`, nothing changes), or the answer is another error and the train of `j` is
gone.  The trains of all other ids are untouched. -/
theorem train_end (crc : CrcFn) (mgr : MgrFn) (ds : Dec) (buf : Bytes) (h : ds.Inv)
    {g j : Nat} {lt : LabelType} (hd : dispatch buf = some (g, .end_, lt))
    (hj : get8 buf FIXED_HEADER_LEN = some j) :
    EndPost crc ds buf g j (decap crc mgr ds buf) ∧
      ∀ i, i ≠ j → trainOf (decap crc mgr ds buf).st i = trainOf ds i := by
  obtain ⟨w, hw, hr, hl, -⟩ := dispatch_some hd
  refine ⟨?_, fun i hij => ?_⟩
  · rw [(decap_of_dispatch crc mgr ds hd).2.2.2 rfl]
    exact decapEnd_train crc ds buf g j ((Dec.inv_iff ds).mp h) hl hj
  · unfold trainOf
    rw [C07_frame_inter_end crc mgr ds buf h hw hr (.inr rfl) hj i hij]

/-- what a first fragment of id `j` does to the trains -/
def FirstTrain (mgr : MgrFn) (ds : Dec) (buf : Bytes) (lt : LabelType) (g j : Nat) (o : DecOut) :
    Prop :=
  (∀ i, i % ds.mem.maxFragId ≠ j % ds.mem.maxFragId → trainOf o.st i = trainOf ds i) ∧
  ((∃ md tl w, o.res = .ok (.fragmented md) ∧
      get16 buf (FIXED_HEADER_LEN + FRAG_ID_LEN) = some tl ∧ firstWalk mgr buf lt g = some w ∧
      FRAG_ID_LEN + TOTAL_LENGTH_LEN + lt.len + w.len + PROTOCOL_LEN ≤ g ∧
      md.pduLen = 0 ∧ md.pt = w.pt ∧ md.exts = w.exts ∧
      trainOf o.st j =
        some ⟨md.label, md.pt, tl, lt == .reuse, md.exts, firstPayload mgr buf lt g⟩ ∧
      ∀ i, i ≠ j → i % ds.mem.maxFragId = j % ds.mem.maxFragId → trainOf o.st i = none) ∨
   ((∃ e, o.res = .err e) ∧ firstClaimed mgr buf lt g o.res = false ∧
      ∀ i, trainOf o.st i = trainOf ds i) ∨
   ((∃ e, o.res = .err e) ∧ firstClaimed mgr buf lt g o.res = true ∧
      ∀ i, i % ds.mem.maxFragId = j % ds.mem.maxFragId → trainOf o.st i = none))

/-- **First fragments.**  For an arbitrary buffer that `decap` dispatches to `decap_first` with
fragment id byte `j`: if it answers `Ok(FragmentedPkt(md))`, the train of `j` now is the packet's
fields (label and protocol type as reported in `md`, the big-endian total length field `tl` read
from the buffer, "label re-used" from the header's label type, the extension headers) with the
packet's payload — its last `gse_len - (5 + label length + extension length)` bytes — and every
other id sharing the slot has lost its train; if it is refused, either nothing changes at all, or
(`firstClaimed`: the storage was too small for the packet) the slot has been freed.  Ids in other
slots are never affected. -/
theorem train_first (crc : CrcFn) (mgr : MgrFn) (ds : Dec) (buf : Bytes) (h : ds.Inv)
    {g j : Nat} {lt : LabelType} (hd : dispatch buf = some (g, .first, lt))
    (hj : get8 buf FIXED_HEADER_LEN = some j) :
    FirstTrain mgr ds buf lt g j (decap crc mgr ds buf) := by
  obtain ⟨w, hw, hr, hl, hg4⟩ := dispatch_some hd
  have hi := (Dec.inv_iff ds).mp h
  have hcfg := decap_cfg crc mgr ds buf h
  refine ⟨fun i hi' => ?_, ?_⟩
  · unfold trainOf
    rw [C07_frame_first_ctx crc mgr ds buf h hj i hi']
  rw [(decap_of_dispatch crc mgr ds hd).2.1 rfl] at hcfg ⊢
  rcases decapFirst_train mgr ds buf lt g j hi hl hg4 hj with
    ⟨md, tl, wk, c, s, hres, htl, hfw, hle, h1, h2, h3, h0, hfr, hc, htr⟩ |
    ⟨he, hcl, hfr⟩ | ⟨he, hcl, h0, hfr⟩
  · refine .inl ⟨md, tl, wk, hres, htl, hfw, hle, h1, h2, h3, ?_, fun i hij hs => ?_⟩
    · unfold trainOf
      rw [ctxOf_set_some hcfg hfr (hi.1.slot_lt h0 j) hc, Option.map_some, htr]
    · unfold trainOf
      rw [ctxOf_set_alias hcfg hfr (by intro c' s' hv; cases hv; exact hc) hij hs]
      rfl
  · exact .inr (.inl ⟨he, hcl, fun i => trainOf_congr hcfg hfr i⟩)
  · refine .inr (.inr ⟨he, hcl, fun i hs => ?_⟩)
    unfold trainOf
    by_cases hij : i = j
    · subst hij
      rw [ctxOf_set_none hcfg hfr]; rfl
    · rw [ctxOf_set_alias hcfg hfr (by intro c' s' hv; cases hv) hij hs]; rfl

/-! ### The exact ghost step -/

/-- the call answered `Ok(FragmentedPkt(_))` -/
def resFrag : Res DecErr DecStatus → Bool
  | .ok (.fragmented _) => true
  | _ => false

/-- first fragment of the tracked id -/
def firstStep (mgr : MgrFn) (buf : Bytes) (lt : LabelType) (g : Nat) (res : Res DecErr DecStatus)
    (cur : Option Train) : Option Train :=
  match res with
  | .ok (.fragmented md) =>
    (get16 buf (FIXED_HEADER_LEN + FRAG_ID_LEN)).map fun tl =>
      ⟨md.label, md.pt, tl, lt == .reuse, md.exts, firstPayload mgr buf lt g⟩
  | _ => if firstClaimed mgr buf lt g res then none else cur

/-- intermediate packet of the tracked id -/
def interStep (buf : Bytes) (g : Nat) (res : Res DecErr DecStatus) (cur : Option Train) :
    Option Train :=
  match res with
  | .ok (.fragmented _) => cur.map fun t => { t with payload := t.payload ++ interPayload buf g }
  | .err .gseLength => cur
  | _ => none

/-- end packet of the tracked id -/
def endStep (res : Res DecErr DecStatus) (cur : Option Train) : Option Train :=
  match res with
  | .err .sizeBuffer => cur
  | _ => none

/-- The ghost step: how a call of `decap` on the bytes `buf` that answered `res` transforms the train
of fragment id `j`, as a function of the INPUT (`buf`; the extension manager to find the payload
window of a first fragment), the RESULT `res` of the call, and the number of slots `n` only.
* first fragment of `j`: accepted → restart with its fields and payload; refused → unchanged, or
  freed when `firstClaimed`;
* first fragment of another id sharing the slot: accepted or `firstClaimed` → freed;
* intermediate of `j`: accepted → payload appended; no payload (`ErrorGseLength`) → unchanged;
  any other answer → none;
* end of `j`: shorter than id + trailer (`ErrorSizeBuffer`) → unchanged; any other answer
  (completed included) → none;
* everything else → unchanged. -/
def trainStep (mgr : MgrFn) (n : Nat) (buf : Bytes) (res : Res DecErr DecStatus) (j : Nat)
    (cur : Option Train) : Option Train :=
  match dispatch buf with
  | none => cur
  | some (g, k, lt) =>
    match get8 buf FIXED_HEADER_LEN with
    | none => cur
    | some i =>
      match k with
      | .complete => cur
      | .first =>
        if i = j then firstStep mgr buf lt g res cur
        else if i % n = j % n ∧ (resFrag res = true ∨ firstClaimed mgr buf lt g res = true) then none
        else cur
      | .inter => if i = j then interStep buf g res cur else cur
      | .end_ => if i = j then endStep res cur else cur

/-- **One-step refinement.**  For every CRC calculator, extension manager, `Dec.Inv` state, byte
buffer and fragment id: the train after the call is `trainStep` of the train before. -/
theorem train_step (crc : CrcFn) (mgr : MgrFn) (ds : Dec) (buf : Bytes) (h : ds.Inv) (j : Nat) :
    trainOf (decap crc mgr ds buf).st j =
      trainStep mgr ds.mem.maxFragId buf (decap crc mgr ds buf).res j (trainOf ds j) := by
  unfold trainStep
  match hd : dispatch buf with
  | none => exact train_other crc mgr ds buf h (.inl hd) j
  | some (g, k, lt) =>
    simp only []
    match hi : get8 buf FIXED_HEADER_LEN with
    | none =>
      exact trainOf_congr (decap_cfg crc mgr ds buf h) (decap_frags_of_no_fid crc mgr ds buf h hi) j
    | some i =>
      simp only []
      cases k with
      | complete => exact train_other crc mgr ds buf h (.inr ⟨g, lt, hd⟩) j
      | first =>
        simp only []
        obtain ⟨hfar, hcases⟩ := train_first crc mgr ds buf h hd hi
        by_cases hij : i = j
        · subst hij
          rw [if_pos rfl]
          rcases hcases with ⟨md, tl, w, hres, htl, -, -, -, -, -, htr, -⟩ | ⟨⟨e, he⟩, hcl, hall⟩ |
            ⟨⟨e, he⟩, hcl, hall⟩
          · rw [htr, hres]; simp only [firstStep, htl, Option.map_some]
          · rw [hall i, he] at *; simp only [firstStep, hcl]; rfl
          · rw [hall i rfl, he] at *; simp only [firstStep, hcl]; rfl
        · rw [if_neg hij]
          by_cases hs : i % ds.mem.maxFragId = j % ds.mem.maxFragId
          · rcases hcases with ⟨md, tl, w, hres, -, -, -, -, -, -, -, hal⟩ | ⟨⟨e, he⟩, hcl, hall⟩ |
              ⟨⟨e, he⟩, hcl, hall⟩
            · rw [hal j (Ne.symm hij) hs.symm, hres, if_pos ⟨hs, .inl rfl⟩]
            · rw [hall j, if_neg]
              rw [he] at hcl ⊢
              simp [hcl, resFrag]
            · rw [hall j hs.symm, if_pos ⟨hs, .inr hcl⟩]
          · rw [hfar j (Ne.symm hs), if_neg (fun hh => hs hh.1)]
      | inter =>
        simp only []
        obtain ⟨hpost, hoth⟩ := train_inter crc mgr ds buf h hd hi
        by_cases hij : i = j
        · subst hij
          rw [if_pos rfl]
          rcases hpost with ⟨md, t, hres, -, ht, ht', -⟩ | ⟨hres, -, ht'⟩ | ⟨e, hres, hne, ht'⟩
          · rw [ht', hres, ht]; rfl
          · rw [ht', hres]; rfl
          · rw [ht', hres]
            unfold interStep
            split
            · rename_i hh; cases hh
            · rename_i hh; cases hh; exact absurd rfl hne
            · rfl
        · rw [if_neg hij]; exact hoth j (Ne.symm hij)
      | end_ =>
        simp only []
        obtain ⟨hpost, hoth⟩ := train_end crc mgr ds buf h hd hi
        by_cases hij : i = j
        · subst hij
          rw [if_pos rfl]
          rcases hpost with ⟨sto, md, t, c, hres, -, -, -, -, -, -, -, ht'⟩ | ⟨hres, -, ht'⟩ |
            ⟨e, hres, hne, ht'⟩
          · rw [ht', hres]; rfl
          · rw [ht', hres]; rfl
          · rw [ht', hres]
            unfold endStep
            split
            · rename_i hh; cases hh; exact absurd rfl hne
            · rfl
        · rw [if_neg hij]; exact hoth j (Ne.symm hij)

theorem get32_lt {b : Bytes} {off v : Nat} (h : get32 b off = some v) : v < 2 ^ 32 := by
  unfold get32 at h
  split at h
  · cases h
    rename_i w x y z _
    have := w.toNat_lt; have := x.toNat_lt; have := y.toNat_lt; have := z.toNat_lt
    simp only [rd32]; omega
  · cases h

end Gse
