/-
Lemmas relating the table-driven CRC of `Model/Crc.lean` (a model of `src/crc.rs`) to the
bit-serial specification `Spec/CrcSpec.lean`, plus the LFSR algebra shared with
`Lemmas/CrcBurst.lean`.  Core Lean only.
-/
import GseVerif.Spec.CrcSpec
import GseVerif.Model.Crc

namespace Gse

/-- `n` zero message bits. -/
abbrev zeros (n : Nat) : List Bool := List.replicate n false

/-- Bitwise XOR of two bit strings (meaningful for equal lengths). -/
def xorBits (x y : List Bool) : List Bool := List.zipWith Bool.xor x y

theorem xor_cancel_left (p a : BitVec 32) : p ^^^ (p ^^^ a) = a := by
  rw [← BitVec.xor_assoc, BitVec.xor_self, BitVec.zero_xor]

theorem xor_cancel_both (p u v : BitVec 32) : (u ^^^ p) ^^^ (v ^^^ p) = u ^^^ v := by
  have : (u ^^^ p) ^^^ (v ^^^ p) = p ^^^ (p ^^^ (u ^^^ v)) := by ac_rfl
  rw [this, xor_cancel_left]

/-! ### Basic facts about `crcBits` -/

@[simp] theorem crcBits_nil (r : BitVec 32) : crcBits r [] = r := rfl

@[simp] theorem crcBits_cons (r : BitVec 32) (b : Bool) (bs : List Bool) :
    crcBits r (b :: bs) = crcBits (bitStep r b) bs := rfl

theorem crcBits_append (r : BitVec 32) (x y : List Bool) :
    crcBits r (x ++ y) = crcBits (crcBits r x) y := by
  simp [crcBits, List.foldl_append]

theorem zeros_succ' (n : Nat) : zeros (n + 1) = zeros n ++ [false] := by
  simp [zeros, List.replicate_succ']

theorem crcBits_zeros_succ' (r : BitVec 32) (n : Nat) :
    crcBits r (zeros (n + 1)) = bitStep (crcBits r (zeros n)) false := by
  rw [zeros_succ', crcBits_append]; rfl

theorem crcBits_zeros_add (r : BitVec 32) (m n : Nat) :
    crcBits r (zeros (m + n)) = crcBits (crcBits r (zeros m)) (zeros n) := by
  rw [← crcBits_append]; simp [zeros, List.replicate_append_replicate]

/-! ### Linearity of the bit step -/

theorem bitStep_xor (a b : BitVec 32) (x y : Bool) :
    bitStep (a ^^^ b) (Bool.xor x y) = bitStep a x ^^^ bitStep b y := by
  unfold bitStep
  rw [BitVec.msb_xor, BitVec.shiftLeft_xor_distrib]
  cases a.msb <;> cases b.msb <;> cases x <;> cases y <;> simp <;>
    first | ac_rfl | (rw [xor_cancel_both])

theorem bitStep_zero_false : bitStep 0#32 false = 0#32 := by decide

/-- Linearity of the whole register run (superposition). -/
theorem crcBits_xor (x : List Bool) : ∀ (y : List Bool) (a b : BitVec 32), x.length = y.length →
    crcBits (a ^^^ b) (xorBits x y) = crcBits a x ^^^ crcBits b y := by
  induction x with
  | nil => intro y a b h; cases y <;> simp_all [xorBits]
  | cons p ps ih =>
    intro y a b h
    cases y with
    | nil => simp at h
    | cons q qs =>
      simp only [xorBits, List.zipWith_cons_cons, crcBits_cons]
      rw [bitStep_xor]
      exact ih qs _ _ (by simpa using h)

example : xorBits [true, false, true] [true, true, false] = [false, true, true] ∧
    crcBits (0x12345678#32 ^^^ 0xFFFFFFFF#32) (xorBits [true, false, true] [true, true, false])
      = crcBits 0x12345678#32 [true, false, true] ^^^ crcBits 0xFFFFFFFF#32 [true, true, false] := by
  decide

theorem xorBits_zeros_right (x : List Bool) : xorBits x (zeros x.length) = x := by
  induction x with
  | nil => rfl
  | cons p ps ih => simpa [xorBits, zeros, List.replicate_succ] using ih

theorem xorBits_zeros_zeros (n : Nat) : xorBits (zeros n) (zeros n) = zeros n := by
  simpa using xorBits_zeros_right (zeros n)

theorem crcBits_zeros_xor (a b : BitVec 32) (n : Nat) :
    crcBits (a ^^^ b) (zeros n) = crcBits a (zeros n) ^^^ crcBits b (zeros n) := by
  have := crcBits_xor (zeros n) (zeros n) a b rfl
  rwa [xorBits_zeros_zeros] at this

theorem crcBits_zero_zeros (n : Nat) : crcBits 0#32 (zeros n) = 0#32 := by
  induction n with
  | zero => rfl
  | succ n ih => rw [crcBits_zeros_succ', ih, bitStep_zero_false]

theorem xorBits_zeros_left (x : List Bool) : xorBits (zeros x.length) x = x := by
  induction x with
  | nil => rfl
  | cons p ps ih => simpa [xorBits, zeros, List.replicate_succ] using ih

/-- A run from `a` is the zero-input run from `a` XOR the run of the message from `0`. -/
theorem crcBits_split (a : BitVec 32) (x : List Bool) :
    crcBits a x = crcBits a (zeros x.length) ^^^ crcBits 0#32 x := by
  have := crcBits_xor (zeros x.length) x a 0#32 (by simp)
  rwa [BitVec.xor_zero, xorBits_zeros_left] at this

/-! ### Feeding at most 32 bits: no bit has left the register yet

`place k e` puts the bit string `e` into the register starting `k` positions below the top:
`e[i]` lands at register bit `31 - (k + i)`. -/

/-- The register with only bit `31 - k` set to `b`. -/
def bitAt (k : Nat) (b : Bool) : BitVec 32 := if b then 1#32 <<< (31 - k) else 0#32

def place : Nat → List Bool → BitVec 32
  | _, [] => 0#32
  | k, b :: bs => bitAt k b ^^^ place (k + 1) bs

/-- Clocking message bit `b` into the zero register equals placing `b` at depth `k` below the
top and clocking `k + 1` zeros (the bit reaches the top after `k` shifts without feedback). -/
theorem bitStep_zero_eq : ∀ k < 32, ∀ b : Bool,
    bitStep 0#32 b = crcBits (bitAt k b) (zeros (k + 1)) := by decide +kernel

theorem bitStep_split (r : BitVec 32) (b : Bool) :
    bitStep r b = bitStep r false ^^^ bitStep 0#32 b := by
  have := bitStep_xor r 0#32 false b
  simpa using this

/-- Feeding `e` after `k` zero clocks, `k + |e| ≤ 32`: same as XOR-ing `e` into the register
at depth `k` first and clocking `k + |e|` zeros. -/
theorem crcBits_place (e : List Bool) : ∀ (k : Nat) (x : BitVec 32), k + e.length ≤ 32 →
    crcBits (crcBits x (zeros k)) e = crcBits (x ^^^ place k e) (zeros (k + e.length)) := by
  induction e with
  | nil => intro k x _; simp [place]
  | cons b bs ih =>
    intro k x h
    simp only [List.length_cons] at h
    rw [crcBits_cons, bitStep_split, ← crcBits_zeros_succ', bitStep_zero_eq k (by omega) b,
      ← crcBits_zeros_xor, ih (k + 1) _ (by omega)]
    simp only [place, List.length_cons, BitVec.xor_assoc]
    congr 2; omega

example : 3 + [true, false, true].length ≤ 32 ∧
    crcBits (crcBits 0xFFFFFFFF#32 (zeros 3)) [true, false, true]
      = crcBits (0xFFFFFFFF#32 ^^^ place 3 [true, false, true]) (zeros 6) := by decide

/-- Special case `k = 0`. -/
theorem crcBits_eq_place (x : BitVec 32) (e : List Bool) (h : e.length ≤ 32) :
    crcBits x e = crcBits (x ^^^ place 0 e) (zeros e.length) := by
  have := crcBits_place e 0 x (by omega)
  simpa using this

/-! ### Zero clocks without feedback are a plain shift -/

theorem bitStep_false_of_msb (r : BitVec 32) (h : r.msb = false) : bitStep r false = r <<< 1 := by
  simp [bitStep, h]

theorem crcBits_zeros_small : ∀ (k : Nat) (r : BitVec 32), k ≤ 32 → r.toNat < 2 ^ (32 - k) →
    crcBits r (zeros k) = r <<< k := by
  intro k
  induction k with
  | zero => intro r _ _; simp
  | succ k ih =>
    intro r hk hr
    have hpow : 2 ^ (32 - k) = 2 * 2 ^ (32 - (k + 1)) := by
      rw [← Nat.pow_succ']; congr 1; omega
    have hle : 2 ^ (32 - k) ≤ 2 ^ 32 := Nat.pow_le_pow_right (by decide) (by omega)
    have hmsb : r.msb = false := by
      rw [BitVec.msb_eq_false_iff_two_mul_lt]; omega
    have hsh : (r <<< 1).toNat = 2 * r.toNat := by
      rw [BitVec.toNat_shiftLeft, Nat.shiftLeft_eq, Nat.mod_eq_of_lt] <;> omega
    have : zeros (k + 1) = false :: zeros k := by simp [zeros, List.replicate_succ]
    rw [this, crcBits_cons, bitStep_false_of_msb r hmsb, ih (r <<< 1) (by omega) (by omega),
      ← BitVec.shiftLeft_add, Nat.add_comm]

example : (8 : Nat) ≤ 32 ∧ (0x00ABCDEF#32).toNat < 2 ^ (32 - 8) ∧
    crcBits 0x00ABCDEF#32 (zeros 8) = 0xABCDEF00#32 := by decide

/-! ### The table of `src/crc.rs` -/

theorem crcTab_size : crcTab.size = 256 := by decide +kernel

/-- Every table entry is the register after eight zero clocks started from `i <<< 24`.
Checked by kernel evaluation against the table extracted from `src/crc.rs` on this run. -/
theorem crcTab_spec : ∀ i < 256,
    crcTab[i]? = some (crcBits (BitVec.ofNat 32 i <<< 24) (zeros 8)) := by decide +kernel

theorem crcIndex_lt (acc : BitVec 32) (o : UInt8) : crcIndex acc o < 256 := by
  unfold crcIndex
  rw [BitVec.toNat_xor]
  apply Nat.xor_lt_two_pow (n := 8)
  · rw [BitVec.toNat_ushiftRight, Nat.shiftRight_eq_div_pow]
    have := acc.isLt; omega
  · rw [BitVec.toNat_ofNat]
    have := o.toNat_lt; omega

/-- The table lookup of `crcStep` is always in range: `CRC_TAB[..]` cannot panic. -/
theorem crcIndex_lt_size (acc : BitVec 32) (o : UInt8) : crcIndex acc o < crcTab.size := by
  rw [crcTab_size]; exact crcIndex_lt acc o

/-- The bits of an octet, placed at the top of the register, are the octet shifted to the
top byte. -/
theorem place_byteBits_nat : ∀ n < 256,
    place 0 (byteBits (UInt8.ofNat n)) = BitVec.ofNat 32 n <<< 24 := by decide +kernel

theorem place_byteBits (o : UInt8) : place 0 (byteBits o) = BitVec.ofNat 32 o.toNat <<< 24 := by
  have := place_byteBits_nat o.toNat o.toNat_lt
  simpa using this

theorem byteBits_length (o : UInt8) : (byteBits o).length = 8 := rfl

/-- Split a register into its top byte and its low 24 bits. -/
theorem split_top_byte (acc : BitVec 32) :
    acc = ((acc >>> 24) <<< 24) ^^^ (acc &&& BitVec.ofNat 32 (2 ^ 24 - 1)) := by
  have hm : ∀ i, (h : i < 32) → (16777215#32)[i] = decide (i < 24) := by decide
  ext i hi
  simp
  rw [hm i hi]
  by_cases h : i < 24
  · simp [h]
  · have : 24 + (i - 24) = i := by omega
    simp [h, this, BitVec.getLsbD_eq_getElem hi]

theorem low24_shift (acc : BitVec 32) :
    (acc &&& BitVec.ofNat 32 (2 ^ 24 - 1)) <<< 8 = acc <<< 8 := by
  apply BitVec.eq_of_toNat_eq
  simp only [BitVec.toNat_shiftLeft, BitVec.toNat_and, BitVec.toNat_ofNat, Nat.shiftLeft_eq]
  have : acc.toNat &&& (2 ^ 24 - 1) % 2 ^ 32 = acc.toNat % 2 ^ 24 := by
    rw [Nat.mod_eq_of_lt (by decide), Nat.and_two_pow_sub_one_eq_mod]
  rw [this]
  omega

theorem low24_lt (acc : BitVec 32) : (acc &&& BitVec.ofNat 32 (2 ^ 24 - 1)).toNat < 2 ^ (32 - 8) := by
  rw [BitVec.toNat_and, BitVec.toNat_ofNat, Nat.mod_eq_of_lt (by decide),
    Nat.and_two_pow_sub_one_eq_mod]
  exact Nat.mod_lt _ (by decide)

/-- The table-driven octet step of `src/crc.rs` equals eight bit-serial steps. -/
theorem crcStep_eq_bits (acc : BitVec 32) (o : UInt8) :
    crcStep acc o = crcBits acc (byteBits o) := by
  rw [crcBits_eq_place acc (byteBits o) (by simp [byteBits_length]), place_byteBits,
    byteBits_length]
  have hidx : (acc >>> 24) ^^^ BitVec.ofNat 32 o.toNat = BitVec.ofNat 32 (crcIndex acc o) := by
    rw [crcIndex, BitVec.ofNat_toNat, BitVec.setWidth_eq]
  have hsplit : acc ^^^ BitVec.ofNat 32 o.toNat <<< 24 =
      (BitVec.ofNat 32 (crcIndex acc o) <<< 24) ^^^ (acc &&& BitVec.ofNat 32 (2 ^ 24 - 1)) := by
    have hx : ∀ t l p : BitVec 32, (t ^^^ l) ^^^ p = (t ^^^ p) ^^^ l := by intros; ac_rfl
    rw [← hidx, BitVec.shiftLeft_xor_distrib, ← hx, ← split_top_byte acc]
  have htab := crcTab_spec (crcIndex acc o) (crcIndex_lt acc o)
  rw [hsplit, crcBits_zeros_xor, crcBits_zeros_small 8 _ (by decide) (low24_lt acc), low24_shift]
  unfold crcStep
  rw [Array.getD_eq_getD_getElem?, htab, Option.getD_some, BitVec.xor_comm]

theorem crc32_eq_bits (bs : Bytes) : ∀ acc : BitVec 32,
    crc32 bs acc = crcBits acc (bs.flatMap byteBits) := by
  induction bs with
  | nil => intro acc; rfl
  | cons o os ih =>
    intro acc
    rw [List.flatMap_cons, crcBits_append, ← crcStep_eq_bits, ← ih]
    rfl

theorem crc32_append (a b : Bytes) (acc : BitVec 32) :
    crc32 (a ++ b) acc = crc32 b (crc32 a acc) := by
  simp [crc32, List.foldl_append]

theorem defaultCrc_eq (pdu : Bytes) (pt tl : Nat) (label : Bytes) :
    defaultCrc pdu pt tl label =
      (crc32 (be16 tl ++ be16 pt ++ label ++ pdu) (BitVec.ofNat 32 Gen.CRC_INIT)).toNat := by
  simp only [defaultCrc, crc32_append]

theorem defaultCrc_eq_spec (pdu : Bytes) (pt tl : Nat) (label : Bytes) :
    defaultCrc pdu pt tl label = (crcMpeg2 (be16 tl ++ be16 pt ++ label ++ pdu)).toNat := by
  rw [defaultCrc_eq, crc32_eq_bits]
  rfl

theorem defaultCrc_lt (pdu : Bytes) (pt tl : Nat) (label : Bytes) :
    defaultCrc pdu pt tl label < 2 ^ 32 := by
  rw [defaultCrc_eq]; exact BitVec.isLt _

end Gse
