/-
Burst-error detection of the bit-serial CRC (`Spec/CrcSpec.lean`), for property C03.
Elementary LFSR algebra on `BitVec 32`; core Lean only.  All statements hold for bit strings of
arbitrary length.
-/
import GseVerif.Lemmas.Crc

namespace Gse

/-- The register run. -/
abbrev run (init : BitVec 32) (bits : List Bool) : BitVec 32 := crcBits init bits

/-! ### Linearity -/

theorem run_xor (a b : BitVec 32) (x y : List Bool) (h : x.length = y.length) :
    run (a ^^^ b) (xorBits x y) = run a x ^^^ run b y :=
  crcBits_xor x y a b h

example : ([true, false, true] : List Bool).length = [false, false, true].length := rfl

/-- Two messages of equal length, same initial value: the registers differ by the run of the
difference pattern from the zero register. -/
theorem run_diff (init : BitVec 32) (m m' : List Bool) (h : m.length = m'.length) :
    run init m ^^^ run init m' = run 0#32 (xorBits m m') := by
  rw [← run_xor init init m m' h, BitVec.xor_self]

/-! ### The zero-input step is injective (the polynomial is odd) -/

theorem bitStep_false_eq_zero (c : BitVec 32) (h : bitStep c false = 0#32) : c = 0#32 := by
  unfold bitStep at h
  cases hm : c.msb with
  | true =>
    simp [hm] at h
    have := congrArg (fun v => v.getLsbD 0) h
    simp [poly] at this
  | false =>
    simp [hm] at h
    rw [BitVec.msb_eq_false_iff_two_mul_lt] at hm
    have h2 := congrArg BitVec.toNat h
    rw [BitVec.toNat_shiftLeft, Nat.shiftLeft_eq] at h2
    apply BitVec.eq_of_toNat_eq
    simp at h2 ⊢
    omega

theorem bitStep_false_injective (a b : BitVec 32) (h : bitStep a false = bitStep b false) :
    a = b := by
  have hx : bitStep (a ^^^ b) false = 0#32 := by
    have := bitStep_xor a b false false
    simp only [Bool.xor_false] at this
    rw [this, h, BitVec.xor_self]
  exact BitVec.xor_eq_zero_iff.mp (bitStep_false_eq_zero _ hx)

example : bitStep 0x80000000#32 false = bitStep 0x80000000#32 false := rfl

theorem run_zero_zeros (n : Nat) : run 0#32 (zeros n) = 0#32 := crcBits_zero_zeros n

theorem run_zeros_eq_zero : ∀ (n : Nat) (r : BitVec 32), run r (zeros n) = 0#32 → r = 0#32 := by
  intro n
  induction n with
  | zero => intro r h; simpa using h
  | succ n ih =>
    intro r h
    have hz : zeros (n + 1) = false :: zeros n := by simp [zeros, List.replicate_succ]
    rw [run, hz, crcBits_cons] at h
    exact bitStep_false_eq_zero r (ih _ h)

example : run 0#32 (zeros 5) = 0#32 := by decide

theorem run_zeros_injective (n : Nat) (a b : BitVec 32)
    (h : run a (zeros n) = run b (zeros n)) : a = b := by
  have : run (a ^^^ b) (zeros n) = 0#32 := by
    rw [run, crcBits_zeros_xor, ← run, ← run, h, BitVec.xor_self]
  exact BitVec.xor_eq_zero_iff.mp (run_zeros_eq_zero n _ this)

/-! ### At most 32 bits fed into the zero register -/

theorem bitAt_getLsbD (k : Nat) (b : Bool) (j : Nat) (hk : k ≤ 31) (_hj : j < 32) :
    (bitAt k b).getLsbD j = (b && decide (j = 31 - k)) := by
  unfold bitAt
  cases b
  · simp
  · simp
    rw [Bool.eq_iff_iff]; simp; omega

/-- Bit `j` of `place k e` is `e[31 - k - j]` (and `0` outside the window). -/
theorem place_getLsbD (e : List Bool) : ∀ (k j : Nat), k + e.length ≤ 32 → j < 32 →
    (place k e).getLsbD j = (decide (k + j ≤ 31) && e.getD (31 - k - j) false) := by
  induction e with
  | nil => intro k j _ _; simp [place]
  | cons b bs ih =>
    intro k j hk hj
    simp only [List.length_cons] at hk
    rw [place, BitVec.getLsbD_xor, bitAt_getLsbD k b j (by omega) hj, ih (k + 1) j (by omega) hj]
    by_cases h1 : j = 31 - k
    · subst h1
      have h0 : 31 - k - (31 - k) = 0 := by omega
      have h2 : ¬ (k + 1 + (31 - k) ≤ 31) := by omega
      have h3 : k + (31 - k) ≤ 31 := by omega
      simp [h0, h2, h3]
    · by_cases h2 : k + j ≤ 31
      · have h3 : k + 1 + j ≤ 31 := by omega
        have h4 : 31 - k - j = (31 - (k + 1) - j) + 1 := by omega
        simp [h1, h2, h3, h4]
      · have h3 : ¬ (k + 1 + j ≤ 31) := by omega
        simp [h1, h2, h3]

theorem place_ne_zero (e : List Bool) (k : Nat) (h : k + e.length ≤ 32) (ht : true ∈ e) :
    place k e ≠ 0#32 := by
  obtain ⟨i, hi, hei⟩ := List.getElem_of_mem ht
  intro hz
  have hg := place_getLsbD e k (31 - k - i) h (by omega)
  have h1 : k + (31 - k - i) ≤ 31 := by omega
  have h2 : 31 - k - (31 - k - i) = i := by omega
  rw [hz, h2] at hg
  simp [h1, hi, hei] at hg

example : (0 : Nat) + [false, true, false].length ≤ 32 ∧ true ∈ [false, true, false] := by decide

/-- A non-zero pattern of at most 32 bits fed into the zero register leaves it non-zero. -/
theorem run_short_ne_zero (e : List Bool) (h : e.length ≤ 32) (ht : true ∈ e) :
    run 0#32 e ≠ 0#32 := by
  intro hz
  rw [run, crcBits_eq_place _ e h, BitVec.zero_xor] at hz
  exact place_ne_zero e 0 (by omega) ht (run_zeros_eq_zero _ _ hz)

example : run 0#32 [false, true, false] = 0x09823b6e#32 := by decide

/-- NOTE.  In this (direct, "message bit XOR-ed at the top") formulation the feedback acts from the
first set bit on, so the register after `k ≤ 32` bits is *not* the pattern itself in the low `k`
bits; e.g. one `1` bit gives the polynomial.  What holds (and is what the burst argument needs) is
`crcBits_eq_place`: it is the pattern placed at the *top* of the register followed by `k` zero
clocks, and zero clocks are injective. -/
example : run 0#32 [true] = poly ∧ run 0#32 [true] ≠ 1#32 ∧
    run 0#32 [true] = run (place 0 [true]) (zeros 1) ∧ place 0 [true] = 0x80000000#32 := by decide

/-! ### Burst detection -/

/-- **Burst detection.**  Two bit strings of equal length whose difference is confined to a
window of at most 32 consecutive bits (and is not empty) never give the same register. -/
theorem burst_detected (init : BitVec 32) (m m' : List Bool) (a b : Nat) (e : List Bool)
    (hlen : m.length = m'.length)
    (hd : xorBits m m' = zeros a ++ e ++ zeros b)
    (he : e.length ≤ 32) (ht : true ∈ e) :
    run init m ≠ run init m' := by
  intro heq
  have h := run_diff init m m' hlen
  rw [heq, BitVec.xor_self, hd, run, crcBits_append, crcBits_append, crcBits_zero_zeros] at h
  exact run_short_ne_zero e he ht (run_zeros_eq_zero b _ h.symm)

/-- hypotheses satisfiable: a 3-bit burst `101` at offset 2 of a 7-bit message -/
example :
    let m := [true, true, false, false, true, false, true]
    let m' := [true, true, true, false, false, false, true]
    m.length = m'.length ∧ xorBits m m' = zeros 2 ++ [true, false, true] ++ zeros 2 ∧
      [true, false, true].length ≤ 32 ∧ true ∈ [true, false, true] ∧
      run 0xFFFFFFFF#32 m ≠ run 0xFFFFFFFF#32 m' := by decide

/-! ### Codeword formulation: message followed by its CRC -/

/-- The 32 bits of a register, most significant first (the CRC as transmitted). -/
def bits32 (c : BitVec 32) : List Bool := (List.range 32).map fun i => c.getLsbD (31 - i)

@[simp] theorem bits32_length (c : BitVec 32) : (bits32 c).length = 32 := by simp [bits32]

theorem place_bits32 (c : BitVec 32) : place 0 (bits32 c) = c := by
  apply BitVec.eq_of_getLsbD_eq
  intro j hj
  rw [place_getLsbD (bits32 c) 0 j (by simp) hj]
  have h1 : 31 - j < 32 := by omega
  have h2 : 31 - (31 - j) = j := by omega
  simp [bits32, h1, h2]
  intro _; omega

/-- Clocking a register's own contents into it clears it. -/
theorem run_bits32_self (r : BitVec 32) : run r (bits32 r) = 0#32 := by
  rw [run, crcBits_eq_place r _ (by simp), place_bits32, BitVec.xor_self, crcBits_zero_zeros]

/-- A message followed by its CRC drives the register to zero. -/
theorem run_append_crc (init : BitVec 32) (msg : List Bool) :
    run init (msg ++ bits32 (run init msg)) = 0#32 := by
  rw [run, crcBits_append]; exact run_bits32_self _

/-- `(msg, c)` verifies iff the register after `msg ‖ c` is zero. -/
theorem run_append_bits32_eq_zero_iff (init : BitVec 32) (msg : List Bool) (c : BitVec 32) :
    run init (msg ++ bits32 c) = 0#32 ↔ run init msg = c := by
  constructor
  · intro h
    rw [run, crcBits_append, crcBits_eq_place _ _ (by simp), place_bits32] at h
    exact BitVec.xor_eq_zero_iff.mp (run_zeros_eq_zero _ _ h)
  · intro h; rw [← h]; exact run_append_crc init msg

/-- **Burst detection, codeword form.**  If `(msg, c)` verifies and the received `(msg', c')`
differs from it by a non-empty burst of at most 32 bits anywhere in `msg ‖ c` (possibly
straddling the boundary), then `(msg', c')` does not verify. -/
theorem burst_codeword (init : BitVec 32) (msg msg' : List Bool) (c c' : BitVec 32)
    (a b : Nat) (e : List Bool)
    (hc : run init msg = c)
    (hlen : msg.length = msg'.length)
    (hd : xorBits (msg ++ bits32 c) (msg' ++ bits32 c') = zeros a ++ e ++ zeros b)
    (he : e.length ≤ 32) (ht : true ∈ e) :
    run init msg' ≠ c' := by
  intro hc'
  apply burst_detected init (msg ++ bits32 c) (msg' ++ bits32 c') a b e (by simp [hlen]) hd he ht
  rw [← hc, ← hc', run_append_crc, run_append_crc]

/-! ### Byte level: the CRC is transmitted as four big-endian octets -/

theorem testBit_byte (n s i : Nat) (hi : i < 8) :
    (n / 2 ^ s % 2 ^ 8).testBit i = n.testBit (s + i) := by
  rw [Nat.testBit_mod_two_pow, Nat.testBit_div_two_pow]; simp [hi, Nat.add_comm]

/-- The bits of octet `s / 8` (counted from the least significant) of `n`. -/
theorem byteBits_u8_div (n s : Nat) : byteBits (u8 (n / 2 ^ s)) =
    [n.testBit (s + 7), n.testBit (s + 6), n.testBit (s + 5), n.testBit (s + 4),
     n.testBit (s + 3), n.testBit (s + 2), n.testBit (s + 1), n.testBit (s + 0)] := by
  simp only [byteBits, u8, UInt8.toNat_ofNat', testBit_byte n s _ (by decide : 7 < 8),
    testBit_byte n s _ (by decide : 6 < 8), testBit_byte n s _ (by decide : 5 < 8),
    testBit_byte n s _ (by decide : 4 < 8), testBit_byte n s _ (by decide : 3 < 8),
    testBit_byte n s _ (by decide : 2 < 8), testBit_byte n s _ (by decide : 1 < 8),
    testBit_byte n s _ (by decide : 0 < 8)]

theorem bits32_eq_be32 (c : BitVec 32) : bits32 c = (be32 c.toNat).flatMap byteBits := by
  have hr : List.range 32 = [0, 1, 2, 3, 4, 5, 6, 7, 8, 9, 10, 11, 12, 13, 14, 15, 16, 17, 18, 19,
      20, 21, 22, 23, 24, 25, 26, 27, 28, 29, 30, 31] := by decide
  have hb : be32 c.toNat = [u8 (c.toNat / 2 ^ 24), u8 (c.toNat / 2 ^ 16), u8 (c.toNat / 2 ^ 8),
      u8 (c.toNat / 2 ^ 0)] := by simp [be32]
  rw [hb]
  simp only [List.flatMap_cons, List.flatMap_nil, byteBits_u8_div, bits32, hr, List.map,
    BitVec.getLsbD]
  rfl

theorem flatMap_byteBits_length (bs : Bytes) : (bs.flatMap byteBits).length = 8 * bs.length := by
  induction bs with
  | nil => rfl
  | cons o os ih => rw [List.flatMap_cons, List.length_append, ih, byteBits_length,
      List.length_cons]; omega

/-- **Burst detection on the wire format.**  `d` is the byte string the CRC covers
(`tl ‖ pt ‖ label ‖ PDU`), followed on the wire by the four big-endian octets of the CRC.  If
`(d, c)` verifies under the table-driven `crc32` of `src/crc.rs`, and what is received, `(d', c')`,
differs from it by a non-empty burst of at most 32 consecutive bits anywhere in the stream
`d ‖ be32 c`, then `(d', c')` does not verify. -/
theorem burst_bytes (init : BitVec 32) (d d' : Bytes) (c c' : BitVec 32)
    (a b : Nat) (e : List Bool)
    (hc : crc32 d init = c)
    (hlen : d.length = d'.length)
    (hd : xorBits ((d ++ be32 c.toNat).flatMap byteBits) ((d' ++ be32 c'.toNat).flatMap byteBits)
      = zeros a ++ e ++ zeros b)
    (he : e.length ≤ 32) (ht : true ∈ e) :
    crc32 d' init ≠ c' := by
  rw [crc32_eq_bits] at hc ⊢
  rw [List.flatMap_append, List.flatMap_append, ← bits32_eq_be32, ← bits32_eq_be32] at hd
  exact burst_codeword init _ _ c c' a b e hc
    (by rw [flatMap_byteBits_length, flatMap_byteBits_length, hlen]) hd he ht

/-- hypotheses satisfiable: the stream of `test_calculate_crc32_003` with an 11-bit burst
`10000000001` straddling the boundary between the last PDU octet and the CRC. -/
example :
    let init : BitVec 32 := BitVec.ofNat 32 Gen.CRC_INIT
    let d : Bytes := [0x00, 0x64, 0x00, 0x0A, 0xDF, 0xAB, 0xCD]
    let c := crc32 d init
    let d' : Bytes := [0x00, 0x64, 0x00, 0x0A, 0xDF, 0xAB, 0xCD ^^^ 0x04]
    let c' := c ^^^ 0x01000000#32
    let e := [true, false, false, false, false, false, false, false, false, false, true]
    d.length = d'.length ∧
      xorBits ((d ++ be32 c.toNat).flatMap byteBits) ((d' ++ be32 c'.toNat).flatMap byteBits)
        = zeros 53 ++ e ++ zeros 24 ∧
      e.length ≤ 32 ∧ true ∈ e ∧ crc32 d' init ≠ c' := by decide +kernel

/-- **Burst detection for `DefaultCrc`.**  The sender's stream is
`tl ‖ pt ‖ label ‖ pdu ‖ be32 (defaultCrc pdu pt tl label)`; the receiver sees
`tl' ‖ pt' ‖ label' ‖ pdu' ‖ be32 t'` of the same length.  If the two differ by a non-empty burst
of at most 32 consecutive bits, the recomputed CRC differs from the received trailer `t'`. -/
theorem burst_default (pdu pdu' label label' : Bytes) (pt pt' tl tl' t' : Nat)
    (a b : Nat) (e : List Bool)
    (ht' : t' < 2 ^ 32)
    (hlen : label.length + pdu.length = label'.length + pdu'.length)
    (hd : xorBits
        ((be16 tl ++ be16 pt ++ label ++ pdu ++ be32 (defaultCrc pdu pt tl label)).flatMap byteBits)
        ((be16 tl' ++ be16 pt' ++ label' ++ pdu' ++ be32 t').flatMap byteBits)
      = zeros a ++ e ++ zeros b)
    (he : e.length ≤ 32) (ht : true ∈ e) :
    defaultCrc pdu' pt' tl' label' ≠ t' := by
  have hto : (BitVec.ofNat 32 t').toNat = t' := by
    rw [BitVec.toNat_ofNat]; exact Nat.mod_eq_of_lt ht'
  rw [defaultCrc_eq] at hd
  rw [← hto] at hd
  have h := burst_bytes (BitVec.ofNat 32 Gen.CRC_INIT) (be16 tl ++ be16 pt ++ label ++ pdu)
    (be16 tl' ++ be16 pt' ++ label' ++ pdu') _ (BitVec.ofNat 32 t') a b e rfl
    (by simp only [List.length_append, be16, List.length_cons, List.length_nil]; omega) hd he ht
  rw [defaultCrc_eq]
  intro hx
  apply h
  apply BitVec.eq_of_toNat_eq
  rw [hx, hto]

/-- hypotheses satisfiable: one flipped bit in the label and one in the trailer, 20 bits apart. -/
example :
    let pdu : Bytes := [0xAB, 0xCD]
    let label : Bytes := [0xDF]
    let label' : Bytes := [0xDE]
    let t := defaultCrc pdu 0x0A 0x64 label
    let t' := t ^^^ 0x10000000
    let e := true :: (List.replicate 19 false ++ [true])
    t' < 2 ^ 32 ∧ label.length + pdu.length = label'.length + pdu.length ∧
      xorBits ((be16 0x64 ++ be16 0x0A ++ label ++ pdu ++ be32 t).flatMap byteBits)
          ((be16 0x64 ++ be16 0x0A ++ label' ++ pdu ++ be32 t').flatMap byteBits)
        = zeros 39 ++ e ++ zeros 28 ∧
      e.length ≤ 32 ∧ true ∈ e ∧ defaultCrc pdu 0x0A 0x64 label' ≠ t' := by decide +kernel

end Gse

#print axioms Gse.run_xor
#print axioms Gse.run_diff
#print axioms Gse.bitStep_false_injective
#print axioms Gse.run_zeros_eq_zero
#print axioms Gse.run_short_ne_zero
#print axioms Gse.burst_detected
#print axioms Gse.run_append_crc
#print axioms Gse.burst_codeword
#print axioms Gse.burst_bytes
#print axioms Gse.burst_default
