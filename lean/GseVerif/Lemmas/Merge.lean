/-
Interleaved fragment trains (property C07, first sentence; used by Props/C07merge.lean).

1. `ForeignTo n fid buf`: the buffer `buf` is *foreign* to the reassembly of fragment id `fid` on a
   receiver with `n` slots — `decap` of it cannot touch slot `fid % n` as long as that slot holds
   nothing or a context of id `fid`:
   (a) an intermediate or end packet whose fragment-id byte is not `fid` (ids aliasing `fid` modulo
       `n` included), (b) a complete packet, padding, or a buffer refused before dispatch,
   (c) any packet (in particular a first fragment) whose fragment-id byte `j` has `j % n ≠ fid % n`.
   `decap_slot_foreign`: the slot is untouched.  `Sync.foreign`: the joint sender/receiver invariant
   `Sync` (Lemmas/FragRoundtrip.lean) survives every foreign buffer, accepted or rejected.
2. `Tail pdu ctx pkts`: `pkts` are the packets `encap_frag` produces from the context `ctx` up to and
   including the end packet, over any output buffers (`tail_of_fragSends`, `tail_of_fragPackets`).
3. `TrainSpec`: one fragmented PDU (encapsulator state, PDU, fragment id, protocol type, label, first
   output buffer, schedule of buffer sizes) and its packets; `Merge F rems tagged`: `tagged` is an
   order-preserving merge of the packet lists `rems` with buffers satisfying `F` inserted anywhere
   (every element is tagged with its origin); `TrainSt`: not started / in step / finished;
   `merge_run`: the induction over a merge, for any number of trains.
4. `decap_stray_rejected`: a stray intermediate / end packet of an id without a reassembly in
   progress is refused and leaves the memory as it is.
5. `Mem.Big L`: every storage has `L` bytes; `decap_roomy`: one `decap` call keeps that and takes at
   most one storage off the free list, and only for a first fragment or a complete packet;
   `resourced_of_static`: hence a static count of free storages implies the resource hypothesis
   `Resourced` of `merge_run`.
6. `OnlyIds ids ds`: every reassembly in progress belongs to one of `ids`; `unknown_ids_rejected`:
   then every stray intermediate / end packet of another id in a sequence is refused;
   `merge_firsts`: the first fragments of a merge of trains carry the trains' ids.
-/
import GseVerif.Lemmas.FragRoundtrip
import GseVerif.Lemmas.Reassembly
import GseVerif.Props.C05
import GseVerif.Props.C07

namespace Gse
open Gen

/-! ### 1. Foreign buffers -/

/-- `buf` is foreign to the reassembly of fragment id `fid` on a receiver with `n` slots -/
def ForeignTo (n fid : Nat) (buf : Bytes) : Prop :=
  dispatchKind buf = none ∨ dispatchKind buf = some .complete ∨
  ((dispatchKind buf = some .inter ∨ dispatchKind buf = some .end_) ∧
    get8 buf FIXED_HEADER_LEN ≠ some fid) ∨
  (∃ j, get8 buf FIXED_HEADER_LEN = some j ∧ j % n ≠ fid % n)

/-- decision procedure for `∃ j, o = some j ∧ P j` -/
def decExSome (o : Option Nat) (P : Nat → Prop) [DecidablePred P] :
    Decidable (∃ j, o = some j ∧ P j) :=
  match o with
  | none => isFalse (by rintro ⟨_, h, _⟩; cases h)
  | some j =>
    if h : P j then isTrue ⟨j, rfl, h⟩
    else isFalse (by rintro ⟨_, h', hp⟩; cases h'; exact h hp)

instance ForeignTo.instDecidable (n fid : Nat) (buf : Bytes) : Decidable (ForeignTo n fid buf) :=
  have : Decidable (∃ j, get8 buf FIXED_HEADER_LEN = some j ∧ j % n ≠ fid % n) := decExSome _ _
  by unfold ForeignTo; infer_instance

/-- A buffer foreign to `fid` leaves slot `fid % n` as it is, provided the slot holds nothing or a
context saved under `fid` itself: accepted or rejected, whatever else it does to the receiver. -/
theorem decap_slot_foreign (crc : CrcFn) (mgr : MgrFn) (ds : Dec) (buf : Bytes) (h : ds.Inv)
    {fid : Nat} (hf : ForeignTo ds.mem.maxFragId fid buf)
    (hown : ∀ c s, ds.mem.frags[fid % ds.mem.maxFragId]? = some (some (c, s)) → c.fragId = fid) :
    (decap crc mgr ds buf).st.mem.frags[fid % ds.mem.maxFragId]?
      = ds.mem.frags[fid % ds.mem.maxFragId]? := by
  obtain ⟨_, hg, -⟩ := decap_good crc mgr ds buf ((Dec.inv_iff ds).mp h)
  rcases hg.eff with heq | ⟨j, v, hj, hfr, -, hfirst | ⟨hie, c, s, hslot, hcf⟩⟩
  · rw [heq]
  · rcases hf with hk | hk | ⟨hk, -⟩ | ⟨j', hj', hne⟩
    · rw [hk] at hfirst; cases hfirst
    · rw [hk] at hfirst; cases hfirst
    · rcases hk with hk | hk <;> rw [hk] at hfirst <;> cases hfirst
    · rw [hj] at hj'; cases hj'
      rw [hfr, List.getElem?_set_ne hne]
  · rcases hf with hk | hk | ⟨-, hne⟩ | ⟨j', hj', hne⟩
    · rw [hk] at hie; rcases hie with hie | hie <;> cases hie
    · rw [hk] at hie; rcases hie with hie | hie <;> cases hie
    · by_cases hs : j % ds.mem.maxFragId = fid % ds.mem.maxFragId
      · exfalso
        rw [hs] at hslot
        have := hown c s hslot
        rw [hcf] at this
        exact hne (this ▸ hj)
      · rw [hfr, List.getElem?_set_ne hs]
    · rw [hj] at hj'; cases hj'
      rw [hfr, List.getElem?_set_ne hne]

section sync
variable {crc : CrcFn} {pdu : Bytes} {fid : Nat} {lblW cur : Label} {pt sid : Nat} {ctx : FragCtx}
  {ds ds' : Dec}

/-- `Sync` only looks at the configuration and at slot `fid % n` -/
theorem Sync.transport (hS : Sync crc pdu fid lblW cur pt sid ctx ds) (hwf : ds'.mem.WF)
    (hn : ds'.mem.maxFragId = ds.mem.maxFragId)
    (hslot : ds'.mem.frags[fid % ds.mem.maxFragId]? = ds.mem.frags[fid % ds.mem.maxFragId]?) :
    Sync crc pdu fid lblW cur pt sid ctx ds' := by
  obtain ⟨_, h0, hfid, htl, hcur, hcf, hcc, hpos, st, hsl, hrest⟩ := hS
  exact ⟨hwf, by rw [hn]; exact h0, hfid, htl, hcur, hcf, hcc, hpos, st,
    by rw [hn, hslot]; exact hsl, hrest⟩

/-- the slot of a reassembly in step holds a context of its own id -/
theorem Sync.own (hS : Sync crc pdu fid lblW cur pt sid ctx ds) :
    ∀ c s, ds.mem.frags[fid % ds.mem.maxFragId]? = some (some (c, s)) → c.fragId = fid := by
  obtain ⟨st, hsl, -⟩ := hS.slot
  intro c s h
  rw [hsl] at h
  cases h
  rfl

/-- **Stability under foreign buffers.**  Sender and receiver in step for the PDU sent under `fid`;
`buf` any buffer foreign to `fid` (a stray intermediate / end packet of another id, aliasing or not;
a complete packet; padding; garbage refused before dispatch; any packet of an id using another
slot).  After `decap` of `buf` — accepted or rejected — they are still in step: same sender context,
same storage, same bytes. -/
theorem Sync.foreign (mgr : MgrFn) (hS : Sync crc pdu fid lblW cur pt sid ctx ds) (hI : ds.Inv)
    {buf : Bytes} (hf : ForeignTo ds.mem.maxFragId fid buf) :
    Sync crc pdu fid lblW cur pt sid ctx (decap crc mgr ds buf).st :=
  hS.transport (C05_inv_decap crc mgr ds buf hI).1 (decap_cfg crc mgr ds buf hI)
    (decap_slot_foreign crc mgr ds buf hI hf hS.own)

end sync

/-- a label written in full resolves to itself, whatever the receiver remembers -/
theorem resolveLabel_full (l : Label) (last : Option Label) (h : l ≠ .reuse) :
    ∃ last', resolveLabel l.type l last = .ok l last' := by
  cases l with
  | reuse => exact absurd rfl h
  | six => exact ⟨_, rfl⟩
  | three => exact ⟨_, rfl⟩
  | broadcast => exact ⟨_, rfl⟩

/-! ### 2. The rest of a train -/

/-- `pkts` is what `encap_frag` sends from the context `ctx` on, up to and including the end
packet, over some sequence of (accepted) output buffers -/
inductive Tail (pdu : Bytes) : FragCtx → List Bytes → Prop
  | last {ctx : FragCtx} {buf b : Bytes} {n : Nat} :
      encapFrag pdu ctx buf = (.ok (.completed n), b) → Tail pdu ctx [b.take n]
  | more {ctx ctx' : FragCtx} {buf b : Bytes} {n : Nat} {rest : List Bytes} :
      encapFrag pdu ctx buf = (.ok (.fragmented n ctx'), b) → Tail pdu ctx' rest →
      Tail pdu ctx (b.take n :: rest)

theorem Tail.ne_nil {pdu : Bytes} {ctx : FragCtx} {pkts : List Bytes} (h : Tail pdu ctx pkts) :
    pkts ≠ [] := by
  cases h <;> simp

theorem Tail.cons_inv {pdu : Bytes} {ctx : FragCtx} {p : Bytes} {r : List Bytes}
    (h : Tail pdu ctx (p :: r)) :
    ∃ buf b n, p = b.take n ∧
      ((encapFrag pdu ctx buf = (.ok (.completed n), b) ∧ r = []) ∨
       ∃ ctx', encapFrag pdu ctx buf = (.ok (.fragmented n ctx'), b) ∧ Tail pdu ctx' r) := by
  generalize hq : p :: r = q at h
  cases h with
  | last he => cases hq; exact ⟨_, _, _, rfl, .inl ⟨he, rfl⟩⟩
  | more he ht => cases hq; exact ⟨_, _, _, rfl, .inr ⟨_, he, ht⟩⟩

/-- a completed run of `fragSends` is a `Tail` -/
theorem tail_of_fragSends (pdu : Bytes) (bufs : List Bytes) :
    ∀ ctx : FragCtx, (fragSends pdu ctx bufs).2 = none →
      Tail pdu ctx ((fragSends pdu ctx bufs).1.map Prod.snd) := by
  induction bufs with
  | nil => intro ctx h; cases h
  | cons buf rest ih =>
    intro ctx h
    rcases hE : encapFrag pdu ctx buf with ⟨(st | e | _), b⟩
    · cases st with
      | completed n =>
        have hs : fragSends pdu ctx (buf :: rest) = ([(n, b.take n)], none) := by
          simp only [fragSends, hE]
        rw [hs]
        exact .last hE
      | fragmented n ctx' =>
        have hs : fragSends pdu ctx (buf :: rest)
            = ((n, b.take n) :: (fragSends pdu ctx' rest).1, (fragSends pdu ctx' rest).2) := by
          simp only [fragSends, hE]
        rw [hs] at h ⊢
        exact .more hE (ih ctx' h)
    · rw [fragSends_skip rest (by rw [hE]; simp)] at h ⊢
      exact ih ctx h
    · rw [fragSends_skip rest (by rw [hE]; simp)] at h ⊢
      exact ih ctx h

theorem tail_of_fragPackets (pdu : Bytes) (ctx : FragCtx) (sizes : List Nat)
    (h : (fragPackets pdu ctx sizes).2 = none) : Tail pdu ctx (fragPackets pdu ctx sizes).1 :=
  tail_of_fragSends pdu (zeroBufs sizes) ctx h

/-! ### 3. Trains and their interleavings -/

/-- One fragmented PDU: the encapsulator state `es` when `encap` is called, the PDU, fragment id,
protocol type and label, the first output buffer, and the sizes of the output buffers offered to
`encap_frag` afterwards. -/
structure TrainSpec where
  es : Enc
  pdu : Bytes
  fid : Nat
  pt : Nat
  label : Label
  buf₀ : Bytes
  sizes : List Nat
  deriving Repr

/-- the `encap` call of the train -/
def TrainSpec.enc (crc : CrcFn) (t : TrainSpec) : EncOut :=
  encap crc t.es t.pdu t.fid t.pt t.label t.buf₀

/-- the packets of the train, in order: the first fragment, then what `encap_frag` produces over the
schedule (nothing when `encap` did not answer `Fragmented`) -/
def TrainSpec.packets (crc : CrcFn) (t : TrainSpec) : List Bytes :=
  match (t.enc crc).res with
  | .ok (.fragmented n₀ ctx₀) => (t.enc crc).buf.take n₀ :: (fragPackets t.pdu ctx₀ t.sizes).1
  | _ => []

/-- `encap` fragmented the PDU and the schedule runs to the end packet; the label is a 3/6-byte or
broadcast label and is written in full (not substituted by the re-use marker: re-use disabled, or a
label differing from the last one sent); protocol type, fragment id and CRC are in range. -/
structure TrainSpec.Valid (crc : CrcFn) (t : TrainSpec) : Prop where
  fragmented : ∃ n₀ ctx₀, (t.enc crc).res = .ok (.fragmented n₀ ctx₀) ∧
    (fragPackets t.pdu ctx₀ t.sizes).2 = none ∧ ctx₀.crc < 2 ^ 32
  full : (checkLabelReUse t.es t.label).1 = t.label
  notReuse : t.label ≠ .reuse
  pt_ge : SECOND_RANGE_PTYPE ≤ t.pt
  pt_lt : t.pt < 65536
  fid_lt : t.fid < 256

/-- `tagged` is an order-preserving merge of the packet lists `rems` (element `(some i, p)`: the next
packet `p` of list `i`) with other buffers inserted anywhere (element `(none, b)`: allowed when
`F rems b` holds, `rems` being what is left of the lists at that point); all lists are used up. -/
inductive Merge (F : List (List Bytes) → Bytes → Prop) :
    List (List Bytes) → List (Option Nat × Bytes) → Prop
  | done {rems : List (List Bytes)} : (∀ r ∈ rems, r = []) → Merge F rems []
  | take {rems : List (List Bytes)} {i : Nat} {p : Bytes} {r : List Bytes}
      {tagged : List (Option Nat × Bytes)} :
      rems[i]? = some (p :: r) → Merge F (rems.set i r) tagged →
      Merge F rems ((some i, p) :: tagged)
  | foreign {rems : List (List Bytes)} {b : Bytes} {tagged : List (Option Nat × Bytes)} :
      F rems b → Merge F rems tagged → Merge F rems ((none, b) :: tagged)

/-- `b` is foreign to every train that is not finished yet (`rems`: what is left of each train) -/
def ForeignNow (n : Nat) (trains : List TrainSpec) (rems : List (List Bytes)) (b : Bytes) : Prop :=
  ∀ (i : Nat) (t : TrainSpec) (r : List Bytes), trains[i]? = some t → rems[i]? = some r → r ≠ [] →
    ForeignTo n t.fid b

/-- in particular a buffer foreign to all trains -/
theorem ForeignNow.of_all {n : Nat} {trains : List TrainSpec} {rems : List (List Bytes)} {b : Bytes}
    (h : ∀ t ∈ trains, ForeignTo n t.fid b) : ForeignNow n trains rems b :=
  fun _ t _ ht _ _ => h t (List.mem_of_getElem? ht)

/-- the elements of `xs` at the positions where `tagged` carries the origin `some i` -/
def pick {α : Type} (i : Nat) : List (Option Nat × Bytes) → List α → List α
  | (o, _) :: ts, x :: xs => if o = some i then x :: pick i ts xs else pick i ts xs
  | _, _ => []

/-- What the receiver answers to the packets `pkts` (the rest of train `t`, ending with its end
packet) when the train is alone: `FragmentedPkt` with the train's protocol type and label for every
packet but the last, `CompletedPkt` with the train's PDU and metadata for the last; every call
consumes the packet's length. -/
def Expect (t : TrainSpec) : List Bytes → List (Res DecErr DecStatus × Nat) → Prop
  | [], outs => outs = []
  | [p], outs => ∃ st, outs = [(.ok (.completed st ⟨t.pdu.length, t.pt, t.label, []⟩), p.length)] ∧
      st.data.take t.pdu.length = t.pdu
  | p :: q :: r, outs => ∃ outs', outs = fragOut t.pt t.label p.length :: outs' ∧
      Expect t (q :: r) outs'

/-- state of train `t` relative to the receiver `ds`, `rem` being the packets still to come:
not started (all packets to come, slot free), in step (`Sync` for the sender context reached,
`rem` is the rest of the run), or finished -/
def TrainSt (crc : CrcFn) (t : TrainSpec) (ds : Dec) (rem : List Bytes) : Prop :=
  (t.Valid crc ∧ rem = t.packets crc ∧ ds.mem.frags[t.fid % ds.mem.maxFragId]? = some none) ∨
  (∃ ctx sid, Sync crc t.pdu t.fid t.label t.label t.pt sid ctx ds ∧ Tail t.pdu ctx rem ∧
    crc t.pdu t.pt (t.pdu.length + PROTOCOL_LEN + t.label.len) t.label.bytes < 2 ^ 32) ∨
  rem = []

section trainst
variable {crc : CrcFn} {t : TrainSpec} {ds ds' : Dec} {rem : List Bytes}

theorem TrainSt.transport (h : TrainSt crc t ds rem) (hwf : ds'.mem.WF)
    (hn : ds'.mem.maxFragId = ds.mem.maxFragId)
    (hslot : ds'.mem.frags[t.fid % ds.mem.maxFragId]? = ds.mem.frags[t.fid % ds.mem.maxFragId]?) :
    TrainSt crc t ds' rem := by
  rcases h with ⟨hv, hr, hfree⟩ | ⟨ctx, sid, hS, hT, hc⟩ | hr
  · exact .inl ⟨hv, hr, by rw [hn, hslot]; exact hfree⟩
  · exact .inr (.inl ⟨ctx, sid, hS.transport hwf hn hslot, hT, hc⟩)
  · exact .inr (.inr hr)

/-- a foreign buffer leaves every train where it is -/
theorem TrainSt.foreign (mgr : MgrFn) (h : TrainSt crc t ds rem) (hI : ds.Inv) {buf : Bytes}
    (hf : ForeignTo ds.mem.maxFragId t.fid buf) : TrainSt crc t (decap crc mgr ds buf).st rem := by
  rcases h with ⟨hv, hr, hfree⟩ | ⟨ctx, sid, hS, hT, hc⟩ | hr
  · refine TrainSt.transport (.inl ⟨hv, hr, hfree⟩) (C05_inv_decap crc mgr ds buf hI).1
      (decap_cfg crc mgr ds buf hI) (decap_slot_foreign crc mgr ds buf hI hf ?_)
    intro c s hs; rw [hfree] at hs; cases hs
  · exact .inr (.inl ⟨ctx, sid, hS.foreign mgr hI hf, hT, hc⟩)
  · exact .inr (.inr hr)

/-- the packets of a valid train: the first fragment and a `Tail` -/
theorem TrainSpec.Valid.packets_eq (hv : t.Valid crc) :
    ∃ n₀ ctx₀, (t.enc crc).res = .ok (.fragmented n₀ ctx₀) ∧
      t.packets crc = (t.enc crc).buf.take n₀ :: (fragPackets t.pdu ctx₀ t.sizes).1 ∧
      Tail t.pdu ctx₀ (fragPackets t.pdu ctx₀ t.sizes).1 ∧ ctx₀.crc < 2 ^ 32 := by
  obtain ⟨n₀, ctx₀, he, hfin, hc⟩ := hv.fragmented
  refine ⟨n₀, ctx₀, he, ?_, tail_of_fragPackets _ _ _ hfin, hc⟩
  unfold TrainSpec.packets
  rw [he]

/-- **One packet of a train.**  The train is not finished and `p` is its next packet (for a first
fragment: a storage able to hold the PDU is on top of the free list).  Then `decap` consumes exactly
`p`, answers `FragmentedPkt` with the train's protocol type and label — or, for the last packet,
`CompletedPkt` with the PDU and its metadata —, the train has advanced, and nothing but its own slot
has changed in the slot array. -/
theorem TrainSt.step (mgr : MgrFn) {p : Bytes} {r : List Bytes} (h : TrainSt crc t ds (p :: r))
    (hI : ds.Inv) (h0 : ds.mem.maxFragId ≠ 0)
    (hres : (t.packets crc).head? = some p →
      ∃ s, ds.mem.storages.head? = some s ∧ t.pdu.length ≤ s.data.length) :
    ∃ res ds', decap crc mgr ds p = ⟨res, p.length, ds'⟩ ∧ TrainSt crc t ds' r ∧
      ds'.mem.WF ∧ ds'.mem.maxFragId = ds.mem.maxFragId ∧
      (∀ k, k ≠ t.fid % ds.mem.maxFragId → ds'.mem.frags[k]? = ds.mem.frags[k]?) ∧
      ((r = [] ∧ ∃ st, res = .ok (.completed st ⟨t.pdu.length, t.pt, t.label, []⟩) ∧
          st.data.take t.pdu.length = t.pdu) ∨
       (r ≠ [] ∧ res = .ok (.fragmented ⟨0, t.pt, t.label, []⟩))) := by
  rcases h with ⟨hv, hr, hfree⟩ | ⟨ctx, sid, hS, hT, hc⟩ | hr
  · -- the first fragment
    obtain ⟨n₀, ctx₀, he, hpk, hT, hc⟩ := hv.packets_eq
    rw [hpk] at hr
    obtain ⟨rfl, rfl⟩ := List.cons.inj hr
    obtain ⟨s, hhead, hcap⟩ := hres (by rw [hpk]; rfl)
    obtain ⟨last', hrl⟩ := resolveLabel_full t.label ds.last hv.notReuse
    have hrl' : resolveLabel (checkLabelReUse t.es t.label).1.type (checkLabelReUse t.es t.label).1
        ds.last = .ok t.label last' := by rw [hv.full]; exact hrl
    obtain ⟨ds', hdec, hS, -, -, hM, -, -, hoth, hlen⟩ :=
      sync_first crc mgr (es := t.es) he hv.pt_ge hv.pt_lt hv.fid_lt hI.1 h0
        (Or.inl ⟨hfree, hhead⟩) hcap hrl' []
    rw [List.append_nil] at hdec
    rw [hv.full] at hS
    refine ⟨_, ds', ?_, .inr (.inl ⟨ctx₀, s.id, hS, hT, by rw [← hS.ctx_crc]; exact hc⟩), hS.wf, hM,
      hoth, .inr ⟨hT.ne_nil, rfl⟩⟩
    have hdec' : decap crc mgr ds ((t.enc crc).buf.take n₀) = _ := hdec
    have hlen' : ((t.enc crc).buf.take n₀).length = n₀ := hlen
    rw [hdec', hlen']
  · obtain ⟨buf, b, n, rfl, ⟨hE, rfl⟩ | ⟨ctx', hE, hT'⟩⟩ := hT.cons_inv
    · -- the end fragment
      obtain ⟨st', hdec, -, hdat, -, hlen⟩ := sync_end crc mgr hS (by rw [hS.ctx_crc]; exact hc) hE []
      rw [List.append_nil] at hdec
      refine ⟨_, ⟨{ ds.mem with frags := ds.mem.frags.set (t.fid % ds.mem.maxFragId) none }, ds.last⟩,
        by rw [hdec, hlen], .inr (.inr rfl), ?_, rfl, ?_, .inl ⟨rfl, st', rfl, hdat⟩⟩
      · exact ⟨by simpa only [List.length_set] using hS.wf.1, hS.wf.2⟩
      · intro k hk
        exact List.getElem?_set_ne (Ne.symm hk)
    · -- an intermediate fragment
      obtain ⟨ds', hdec, hS', hsb, hlen⟩ := sync_inter crc mgr hS hE []
      rw [List.append_nil] at hdec
      exact ⟨_, ds', by rw [hdec, hlen], .inr (.inl ⟨ctx', sid, hS', hT', hc⟩), hS'.wf, hsb.2.1,
        hsb.2.2.2.2.2.2, .inr ⟨hT'.ne_nil, rfl⟩⟩
  · cases hr

end trainst

/-- The resource hypothesis of a merge, stated along the run: whenever the first fragment of a train
arrives, a storage able to hold that train's PDU is on top of the receiver's free list. -/
def Resourced (crc : CrcFn) (mgr : MgrFn) (trains : List TrainSpec) (ds : Dec)
    (tagged : List (Option Nat × Bytes)) : Prop :=
  ∀ (pre : List (Option Nat × Bytes)) (i : Nat) (p : Bytes) (post : List (Option Nat × Bytes))
    (t : TrainSpec), tagged = pre ++ (some i, p) :: post → trains[i]? = some t →
    (t.packets crc).head? = some p →
    ∃ s, (rxRun crc mgr ds (pre.map Prod.snd)).2.mem.storages.head? = some s ∧
      t.pdu.length ≤ s.data.length

theorem Resourced.tail {crc : CrcFn} {mgr : MgrFn} {trains : List TrainSpec} {ds : Dec}
    {x : Option Nat × Bytes} {tagged : List (Option Nat × Bytes)}
    (h : Resourced crc mgr trains ds (x :: tagged)) :
    Resourced crc mgr trains (decap crc mgr ds x.2).st tagged := by
  intro pre i p post t hsplit ht hp
  have := h (x :: pre) i p post t (by rw [hsplit]; rfl) ht hp
  simpa only [List.map_cons, rxRun] using this

/-- **The induction over a merge.**  Any number of trains whose fragment ids use pairwise different
slots; `tagged` any merge of what remains of them with buffers foreign to all unfinished ones; a
receiver in a state satisfying the invariant in which every train is not started, in step, or
finished.  Then
the answers to the packets of train `i` — picked out of the answers to the whole merged sequence —
are those the train would get alone (`Expect`). -/
theorem merge_run (crc : CrcFn) (mgr : MgrFn) (trains : List TrainSpec) (n : Nat) (hn0 : n ≠ 0)
    (hdist : ∀ (i j : Nat) (ti tj : TrainSpec), trains[i]? = some ti → trains[j]? = some tj →
      i ≠ j → ti.fid % n ≠ tj.fid % n)
    {rems : List (List Bytes)} {tagged : List (Option Nat × Bytes)}
    (hM : Merge (ForeignNow n trains) rems tagged) :
    ∀ ds : Dec, ds.Inv → ds.mem.maxFragId = n → rems.length = trains.length →
      (∀ (i : Nat) (t : TrainSpec), trains[i]? = some t →
        ∃ r, rems[i]? = some r ∧ TrainSt crc t ds r) →
      Resourced crc mgr trains ds tagged →
      ∀ (i : Nat) (t : TrainSpec) (r : List Bytes), trains[i]? = some t → rems[i]? = some r →
        Expect t r (pick i tagged (rxRun crc mgr ds (tagged.map Prod.snd)).1) := by
  induction hM with
  | done hall =>
    intro ds _ _ _ _ _ i t r _ hr
    have : r = [] := hall r (List.mem_of_getElem? hr)
    subst this
    rfl
  | @foreign rems b tagged hF _ ih =>
    intro ds hI hn hlen hst hres i t r ht hr
    have hpk : pick i ((none, b) :: tagged) (rxRun crc mgr ds (((none, b) :: tagged).map Prod.snd)).1
        = pick i tagged (rxRun crc mgr (decap crc mgr ds b).st (tagged.map Prod.snd)).1 := by
      simp only [List.map_cons, rxRun, pick]
      rw [if_neg (by simp)]
    rw [hpk]
    refine ih _ (C05_inv_decap crc mgr ds b hI) (by rw [decap_cfg crc mgr ds b hI, hn]) hlen ?_
      hres.tail i t r ht hr
    intro j tj htj
    obtain ⟨rj, hrj, hsj⟩ := hst j tj htj
    by_cases hne : rj = []
    · exact ⟨rj, hrj, .inr (.inr hne)⟩
    · exact ⟨rj, hrj, hsj.foreign mgr hI (by rw [hn]; exact hF j tj rj htj hrj hne)⟩
  | @take rems i p r tagged hi _ ih =>
    intro ds hI hn hlen hst hres j tj rj htj hrj
    have hilt : i < rems.length := by
      rcases Nat.lt_or_ge i rems.length with h | h
      · exact h
      · rw [List.getElem?_eq_none h] at hi; cases hi
    obtain ⟨t, ht⟩ : ∃ t, trains[i]? = some t :=
      ⟨trains[i]'(hlen ▸ hilt), List.getElem?_eq_getElem _⟩
    obtain ⟨r0, hr0, hSt⟩ := hst i t ht
    rw [hi] at hr0
    cases hr0
    obtain ⟨res, ds', hdec, hSt', hwf', hn', hoth, hout⟩ :=
      hSt.step mgr hI (by rw [hn]; exact hn0) (fun hp => by
        have := hres [] i p tagged t rfl ht hp
        simpa only [List.map_nil, rxRun] using this)
    have hst' : (decap crc mgr ds p).st = ds' := by rw [hdec]
    have hrx : (rxRun crc mgr ds (((some i, p) :: tagged).map Prod.snd)).1
        = (res, p.length) :: (rxRun crc mgr ds' (tagged.map Prod.snd)).1 := by
      simp only [List.map_cons, rxRun, hdec]
    rw [hrx]
    have hI' : ds'.Inv := hst' ▸ C05_inv_decap crc mgr ds p hI
    have hres' : Resourced crc mgr trains ds' tagged := hst' ▸ hres.tail
    have hstAll : ∀ (k : Nat) (tk : TrainSpec), trains[k]? = some tk →
        ∃ rk, (rems.set i r)[k]? = some rk ∧ TrainSt crc tk ds' rk := by
      intro k tk htk
      by_cases hki : k = i
      · subst hki
        rw [ht] at htk; cases htk
        exact ⟨r, List.getElem?_set_self hilt, hSt'⟩
      · obtain ⟨rk, hrk, hsk⟩ := hst k tk htk
        refine ⟨rk, by rw [List.getElem?_set_ne (Ne.symm hki)]; exact hrk, ?_⟩
        refine hsk.transport hwf' hn' (hoth _ ?_)
        rw [hn]
        exact hdist k i tk t htk ht hki
    have hIH := ih ds' hI' (by rw [hn', hn]) (by rw [List.length_set]; exact hlen) hstAll hres'
    by_cases hji : j = i
    · subst hji
      obtain rfl : tj = t := by rw [ht] at htj; exact (Option.some.inj htj).symm
      obtain rfl : rj = p :: r := by rw [hi] at hrj; exact (Option.some.inj hrj).symm
      have hpk : pick j ((some j, p) :: tagged)
          ((res, p.length) :: (rxRun crc mgr ds' (tagged.map Prod.snd)).1)
          = (res, p.length) :: pick j tagged (rxRun crc mgr ds' (tagged.map Prod.snd)).1 := by
        simp only [pick, if_true]
      rw [hpk]
      have hE := hIH j tj r ht (List.getElem?_set_self hilt)
      rcases hout with ⟨rfl, st, rfl, hdat⟩ | ⟨hne, rfl⟩
      · have hnil : pick j tagged (rxRun crc mgr ds' (tagged.map Prod.snd)).1 = [] := hE
        rw [hnil]
        exact ⟨st, rfl, hdat⟩
      · match r, hne, hE with
        | q :: r', _, hE => exact ⟨_, rfl, hE⟩
    · have hpk : pick j ((some i, p) :: tagged)
          ((res, p.length) :: (rxRun crc mgr ds' (tagged.map Prod.snd)).1)
          = pick j tagged (rxRun crc mgr ds' (tagged.map Prod.snd)).1 := by
        simp only [pick]
        rw [if_neg (by intro h; exact hji (Option.some.inj h).symm)]
      rw [hpk]
      exact hIH j tj rj htj (by rw [List.getElem?_set_ne (Ne.symm hji)]; exact hrj)

/-- `Expect` spelled out: all packets but the last are answered `FragmentedPkt`, the last one
`CompletedPkt` with the PDU -/
theorem Expect.explicit {t : TrainSpec} :
    ∀ (pkts : List Bytes) (outs : List (Res DecErr DecStatus × Nat)), pkts ≠ [] → Expect t pkts outs →
      ∃ init last st, pkts = init ++ [last] ∧
        outs = init.map (fun p => fragOut t.pt t.label p.length)
          ++ [(.ok (.completed st ⟨t.pdu.length, t.pt, t.label, []⟩), last.length)] ∧
        st.data.take t.pdu.length = t.pdu
  | [], _, hne, _ => absurd rfl hne
  | [p], _, _, ⟨st, ho, hd⟩ => ⟨[], p, st, rfl, ho, hd⟩
  | p :: q :: r, _, _, ⟨outs', ho, hE⟩ => by
    obtain ⟨init, last, st, h1, h2, h3⟩ := Expect.explicit (q :: r) outs' (by simp) hE
    exact ⟨p :: init, last, st, by rw [h1]; rfl, by rw [ho, h2]; rfl, h3⟩

/-! ### 4. Stray packets of an id without a reassembly in progress -/

/-- A stray intermediate or end packet whose fragment id `j` has no reassembly in progress is
refused and leaves the memory exactly as it is.  When it announces at least a payload byte (a CRC
for an end packet) the answer is `UndefinedId` and the label memory is untouched as well;
otherwise it is refused as malformed (`ErrorGseLength` / `ErrorSizeBuffer`). -/
theorem decap_stray_rejected (crc : CrcFn) (mgr : MgrFn) (ds : Dec) (buf : Bytes) (hI : ds.Inv)
    {g j : Nat} {k : PktType} {lt : LabelType} (hd : dispatch buf = some (g, k, lt))
    (hk : k = .inter ∨ k = .end_) (hj : get8 buf FIXED_HEADER_LEN = some j)
    (hnone : ctxOf ds j = none) :
    (decap crc mgr ds buf).st.mem = ds.mem ∧
      (((decap crc mgr ds buf).res = .err (.memory .undefinedId) ∧ (decap crc mgr ds buf).st = ds) ∨
        (decap crc mgr ds buf).res = .err .gseLength ∨ (decap crc mgr ds buf).res = .err .sizeBuffer) := by
  have hmiss : ds.mem.takeFrag j = (.err .undefinedId, ds.mem) := by
    apply C17_takeFrag_miss ds.mem hI.1 j
    rintro ⟨c, s, hs, hc⟩
    unfold ctxOf at hnone
    rw [hs] at hnone
    simp [hc] at hnone
  rcases hk with rfl | rfl
  · rw [(decap_of_dispatch crc mgr ds hd).2.2.1 rfl]
    unfold decapInter
    simp only []
    split
    · exact ⟨rfl, .inr (.inl rfl)⟩
    · rw [hj]; simp only []; rw [hmiss]
      exact ⟨rfl, .inl ⟨rfl, rfl⟩⟩
  · rw [(decap_of_dispatch crc mgr ds hd).2.2.2 rfl]
    unfold decapEnd
    simp only []
    split
    · exact ⟨rfl, .inr (.inr rfl)⟩
    · rw [hj]; simp only []; rw [hmiss]
      exact ⟨rfl, .inl ⟨rfl, rfl⟩⟩

/-! ### 5. A static resource condition: storage sizes and the length of the free list -/


/-- every storage of the memory — free, or holding a partial PDU — has at least `L` bytes -/
structure Mem.Big (L : Nat) (m : Mem) : Prop where
  free : ∀ s ∈ m.storages, L ≤ s.data.length
  slots : ∀ c s, some (c, s) ∈ m.frags → L ≤ s.data.length

section big
variable {L : Nat} {m m1 m2 : Mem}

theorem Mem.Big.set_frags (hB : m.Big L) (idx : Nat) (v : Option (Ctx × Storage))
    (hv : ∀ c s, v = some (c, s) → L ≤ s.data.length) :
    ({ m with frags := m.frags.set idx v } : Mem).Big L := by
  refine ⟨hB.free, fun c s hm => ?_⟩
  rcases List.mem_or_eq_of_mem_set hm with h | h
  · exact hB.slots c s h
  · exact hv c s h.symm

theorem Mem.Big.provision (hB : m.Big L) (s : Storage) (hs : L ≤ s.data.length) :
    (m.provision s).2.Big L ∧ m.storages.length ≤ (m.provision s).2.storages.length := by
  unfold Mem.provision
  split
  · exact ⟨hB, Nat.le_refl _⟩
  split
  · exact ⟨hB, Nat.le_refl _⟩
  · refine ⟨⟨fun x hx => ?_, hB.slots⟩, by simp⟩
    rcases List.mem_cons.mp hx with rfl | hx
    · exact hs
    · exact hB.free x hx

theorem Mem.Big.newPdu {st : Storage} (hB : m.Big L) (h : m.newPdu = (.ok st, m1)) :
    m1.Big L ∧ L ≤ st.data.length ∧ m.storages.length ≤ m1.storages.length + 1 := by
  unfold Mem.newPdu at h
  split at h
  · cases h
  · rename_i s rest hs
    cases h
    refine ⟨⟨fun x hx => hB.free x (by rw [hs]; exact List.mem_cons_of_mem _ hx), hB.slots⟩,
      hB.free _ (by rw [hs]; exact List.mem_cons_self), by rw [hs]; simp⟩

theorem Mem.Big.takeFrag {fid : Nat} {c : Ctx} {st : Storage} (hB : m.Big L) (hm : m.Ok)
    (h : m.takeFrag fid = (.ok (c, st), m1)) :
    m1.Big L ∧ L ≤ st.data.length ∧ m1.storages = m.storages := by
  obtain ⟨_, _, _, _, h0, hslot, hfr, hsto, _, _⟩ := hm.takeFrag_ok h
  have hpos := Nat.pos_of_ne_zero h0
  have := C17_takeFrag_hit m hpos fid c st hslot (hm.takeFrag_ok h).1
  rw [h] at this
  have hm1 := (Prod.mk.inj this).2
  subst hm1
  exact ⟨hB.set_frags _ none (by intro c s h; cases h), hB.slots c st (List.mem_of_getElem? hslot), rfl⟩

theorem Mem.Big.newFrag {c c' : Ctx} {st : Storage} (hB : m.Big L) (hm : m.Ok)
    (h : m.newFrag c = (.ok (c', st), m1)) :
    m1.Big L ∧ L ≤ st.data.length ∧ m.storages.length ≤ m1.storages.length + 1 := by
  obtain ⟨_, _, _, h0, _, _, _⟩ := hm.newFrag_ok h
  have hpos := Nat.pos_of_ne_zero h0
  rcases hm.1.slot_cases h0 c.fragId with hfree | ⟨c0, s0, hocc⟩
  · cases hs : m.storages with
    | nil =>
      have := C17_newFrag_underflow m hpos c hfree hs
      rw [h] at this; cases this
    | cons s rest =>
      have := C17_newFrag_fresh m hpos c s rest hfree hs
      rw [h] at this
      obtain ⟨h1, h2⟩ := Prod.mk.inj this
      obtain ⟨-, rfl⟩ := Prod.mk.inj (Res.ok.inj h1)
      subst h2
      refine ⟨⟨fun x hx => hB.free x (by rw [hs]; exact List.mem_cons_of_mem _ hx), hB.slots⟩,
        hB.free _ (by rw [hs]; exact List.mem_cons_self), by simp⟩
  · have := C17_newFrag_replace m hpos c c0 s0 hocc
    rw [h] at this
    obtain ⟨h1, h2⟩ := Prod.mk.inj this
    obtain ⟨-, rfl⟩ := Prod.mk.inj (Res.ok.inj h1)
    subst h2
    exact ⟨hB.set_frags _ none (by intro c s h; cases h), hB.slots c0 st (List.mem_of_getElem? hocc),
      Nat.le_succ _⟩


theorem Mem.Big.saveFrag (hB : m.Big L) (cs : Ctx × Storage) (h0 : m.maxFragId ≠ 0)
    (hs : m.frags[cs.1.fragId % m.maxFragId]? = some none) (hl : L ≤ cs.2.data.length)
    (h : m.saveFrag cs = (.ok (), m2)) : m2.Big L ∧ m2.storages = m.storages := by
  have hsv := (C17_saveFrag_free m (Nat.pos_of_ne_zero h0) cs hs).1
  rw [h] at hsv
  have := (Prod.mk.inj hsv).2
  subst this
  exact ⟨hB.set_frags _ (some cs) (by intro c s h; cases h; exact hl), rfl⟩

/-- what a `decap` call does to the storages: all of them still have `L` bytes, and the free list
lost at most `loss` of them -/
structure Roomy (L loss : Nat) (ds : Dec) (o : DecOut) : Prop where
  big : o.st.mem.Big L
  len : ds.mem.storages.length ≤ o.st.mem.storages.length + loss

theorem roomy_fail {loss : Nat} {ds : Dec} {e : DecErr} {n : Nat} (hB : m.Big L)
    (hl : ds.mem.storages.length ≤ m.storages.length + loss) : Roomy L loss ds (ds.fail m e n) :=
  ⟨hB, hl⟩

theorem roomy_giveBack {loss : Nat} {ds : Dec} {last : Option Label} {st : Storage} {e : DecErr}
    {n : Nat} (hB : m1.Big L) (hs : L ≤ st.data.length)
    (hl : ds.mem.storages.length ≤ m1.storages.length + loss) :
    Roomy L loss ds (giveBack m1 last st e n) := by
  obtain ⟨hb, hlen⟩ := hB.provision st hs
  unfold giveBack
  split <;> rename_i m' hp <;> rw [hp] at hb hlen <;> exact ⟨hb, by simp only [] at hlen ⊢; omega⟩

theorem decapInter_roomy (ds : Dec) (buf : Bytes) (pktLen gseLen : Nat) (hi : ds.mem.Ok)
    (hB : ds.mem.Big L) (hp : pktLen = gseLen + FIXED_HEADER_LEN) (hb : pktLen ≤ buf.length) :
    Roomy L 0 ds (decapInter ds buf pktLen gseLen) := by
  unfold decapInter
  simp only []
  split
  · exact roomy_fail hB (Nat.le_refl _)
  rename_i hg
  obtain ⟨fid, hfid⟩ := get8_some_of_lt (b := buf) (off := FIXED_HEADER_LEN) (by gse_omega)
  rw [hfid]; simp only []
  split
  · exact (hi.takeFrag_panic ‹_›).elim
  · obtain ⟨rfl, rfl⟩ := hi.takeFrag_err ‹_›
    exact ⟨hB, Nat.le_refl _⟩
  rename_i ctx st m1 htk
  obtain ⟨hfid', hlen, hm1, hc1, h0, hslot, hfr, hsto, hnone, hperm⟩ := hi.takeFrag_ok htk
  obtain ⟨hB1, hst, hsto1⟩ := hB.takeFrag hi htk
  have hl1 : ds.mem.storages.length ≤ m1.storages.length + 0 := by rw [hsto1]; exact Nat.le_refl _
  split
  · exact roomy_giveBack hB1 hst hl1
  split
  · omega
  split
  · exact roomy_giveBack hB1 hst hl1
  rename_i h1 h2 h3
  obtain ⟨d, hd, hdl⟩ := slice_some_of_le (b := buf) (off := FIXED_HEADER_LEN + FRAG_ID_LEN)
    (len := gseLen - FRAG_ID_LEN) (by gse_omega)
  obtain ⟨data, hdata, hdatal⟩ := blit_some_of_le (b := st.data) (off := ctx.pduLen) (src := d)
    (by omega)
  rw [hd]; simp only [Option.bind]; rw [hdata]; simp only []
  obtain ⟨m2, hsv, hm2, hc2, hfr2, hsto2, hperm2⟩ := hm1.saveFrag_ok
    ({ ctx with pduLen := ctx.pduLen + (gseLen - FRAG_ID_LEN) }, { st with data := data })
    (hc1.1 ▸ h0) (by simpa [hc1.1, hfid'] using hnone) (by simp only [hdatal]; omega)
  obtain ⟨hB2, hsto3⟩ := hB1.saveFrag
    ({ ctx with pduLen := ctx.pduLen + (gseLen - FRAG_ID_LEN) }, { st with data := data })
    (hc1.1 ▸ h0) (by simpa [hc1.1, hfid'] using hnone) (by simp only [hdatal]; exact hst) hsv
  rw [hsv]
  exact ⟨hB2, by show _ ≤ m2.storages.length + 0; rw [hsto3, hsto1]; exact Nat.le_refl _⟩

theorem decapEnd_roomy (crc : CrcFn) (ds : Dec) (buf : Bytes) (pktLen gseLen : Nat) (hi : ds.mem.Ok)
    (hB : ds.mem.Big L) (hp : pktLen = gseLen + FIXED_HEADER_LEN) (hb : pktLen ≤ buf.length) :
    Roomy L 0 ds (decapEnd crc ds buf pktLen gseLen) := by
  unfold decapEnd
  simp only []
  split
  · exact roomy_fail hB (Nat.le_refl _)
  rename_i hg
  obtain ⟨fid, hfid⟩ := get8_some_of_lt (b := buf) (off := FIXED_HEADER_LEN) (by gse_omega)
  rw [hfid]; simp only []
  split
  · exact (hi.takeFrag_panic ‹_›).elim
  · obtain ⟨rfl, rfl⟩ := hi.takeFrag_err ‹_›
    exact ⟨hB, Nat.le_refl _⟩
  rename_i ctx st m1 htk
  obtain ⟨hfid', hlen, hm1, hc1, h0, hslot, hfr, hsto, hnone, hperm⟩ := hi.takeFrag_ok htk
  obtain ⟨hB1, hst, hsto1⟩ := hB.takeFrag hi htk
  have hl1 : ds.mem.storages.length ≤ m1.storages.length + 0 := by rw [hsto1]; exact Nat.le_refl _
  split
  · omega
  split
  · exact roomy_giveBack hB1 hst hl1
  rename_i h1 h2
  obtain ⟨d, hd, hdl⟩ := slice_some_of_le (b := buf) (off := FIXED_HEADER_LEN + FRAG_ID_LEN)
    (len := gseLen - (FRAG_ID_LEN + CRC_LEN)) (by gse_omega)
  obtain ⟨data, hdata, hdatal⟩ := blit_some_of_le (b := st.data) (off := ctx.pduLen) (src := d)
    (by omega)
  obtain ⟨rx, hrx⟩ := get32_some_of_le (b := buf)
    (off := FIXED_HEADER_LEN + FRAG_ID_LEN + (gseLen - (FRAG_ID_LEN + CRC_LEN))) (by gse_omega)
  rw [hd]; simp only [Option.bind]; rw [hdata, hrx]; simp only []
  generalize (if ctx.fromReuse = true then 0 else ctx.label.type.len) = fl
  generalize (if ctx.fromReuse = true then ([] : Bytes) else ctx.label.bytes) = cl
  have hst' : L ≤ ({ st with data := data } : Storage).data.length := by
    show L ≤ data.length; rw [hdatal]; exact hst
  split
  · exact roomy_giveBack hB1 hst' hl1
  obtain ⟨pdu, hpdu, -⟩ := slice_some_of_le (b := data) (off := 0)
    (len := ctx.pduLen + (gseLen - (FRAG_ID_LEN + CRC_LEN))) (by omega)
  rw [hpdu]; simp only []
  split
  · exact roomy_giveBack hB1 hst' hl1
  · exact ⟨hB1, hl1⟩

theorem decapComplete_roomy (mgr : MgrFn) (ds : Dec) (buf : Bytes) (lt : LabelType)
    (pktLen gseLen : Nat) (hB : ds.mem.Big L)
    (hp : pktLen = gseLen + FIXED_HEADER_LEN) (hb : pktLen ≤ buf.length) :
    Roomy L 1 ds (decapComplete mgr ds buf lt pktLen gseLen) := by
  unfold decapComplete
  simp only []
  split
  · exact roomy_fail hB (Nat.le_succ _)
  rename_i hg
  have hlt6 := lt.len_le
  obtain ⟨pt0, hpt0⟩ := get16_some_of_le (b := buf) (off := FIXED_HEADER_LEN) (by gse_omega)
  rw [hpt0]; simp only []
  obtain ⟨lb, hlb, hlbl⟩ := slice_some_of_le (b := buf) (off := FIXED_HEADER_LEN + PROTOCOL_LEN)
    (len := lt.len) (by gse_omega)
  obtain ⟨label, hlabel⟩ := Label.new_some hlbl
  rw [hlb]; simp only [Option.bind]; rw [hlabel]; simp only []
  split
  · exact roomy_fail hB (Nat.le_succ _)
  have hwspec := walkOf_spec mgr buf pt0 (FIXED_HEADER_LEN + PROTOCOL_LEN + lt.len) pktLen
    (by gse_omega) hb
  split
  · rename_i heq
    exact (hwspec.1 heq).elim
  · exact roomy_fail hB (Nat.le_succ _)
  · exact roomy_fail hB (Nat.le_succ _)
  rename_i w heq
  have hwl : w.len ≤ pktLen - (FIXED_HEADER_LEN + PROTOCOL_LEN + lt.len) := hwspec.2 w heq
  split
  · exact (Mem.newPdu_panic ‹_›).elim
  · obtain ⟨rfl, rfl⟩ := Mem.newPdu_err ‹_›
    exact roomy_fail hB (Nat.le_succ _)
  rename_i st m1 hnp
  obtain ⟨hB1, hst, hl1⟩ := hB.newPdu hnp
  split
  · exact roomy_giveBack hB1 hst hl1
  split
  · gse_omega
  rename_i h1 h2
  obtain ⟨d, hd, hdl⟩ := slice_some_of_le (b := buf)
    (off := FIXED_HEADER_LEN + PROTOCOL_LEN + lt.len + w.len)
    (len := gseLen - lt.len - w.len - PROTOCOL_LEN) (by gse_omega)
  obtain ⟨data, hdata, hdatal⟩ := blit_some_of_le (b := st.data) (off := 0) (src := d)
    (by gse_omega)
  rw [hd]; simp only []; rw [hdata]; simp only []
  have hst' : L ≤ ({ st with data := data } : Storage).data.length := by
    show L ≤ data.length; rw [hdatal]; exact hst
  split
  · exact roomy_giveBack hB1 hst' hl1
  · exact ⟨hB1, hl1⟩

theorem decapFirst_roomy (mgr : MgrFn) (ds : Dec) (buf : Bytes) (lt : LabelType)
    (pktLen gseLen : Nat) (hi : ds.mem.Ok) (hB : ds.mem.Big L)
    (hp : pktLen = gseLen + FIXED_HEADER_LEN) (hb : pktLen ≤ buf.length) :
    Roomy L 1 ds (decapFirst mgr ds buf lt pktLen gseLen) := by
  unfold decapFirst
  simp only []
  split
  · exact roomy_fail hB (Nat.le_succ _)
  rename_i hg
  have hlt6 := lt.len_le
  obtain ⟨fid, hfid⟩ := get8_some_of_lt (b := buf) (off := FIXED_HEADER_LEN) (by gse_omega)
  obtain ⟨tl, htl⟩ := get16_some_of_le (b := buf) (off := FIXED_HEADER_LEN + FRAG_ID_LEN)
    (by gse_omega)
  obtain ⟨pt0, hpt0⟩ := get16_some_of_le (b := buf)
    (off := FIXED_HEADER_LEN + FRAG_ID_LEN + TOTAL_LENGTH_LEN) (by gse_omega)
  rw [hfid, htl, hpt0]; simp only []
  obtain ⟨lb, hlb, hlbl⟩ := slice_some_of_le (b := buf)
    (off := FIXED_HEADER_LEN + FRAG_ID_LEN + TOTAL_LENGTH_LEN + PROTOCOL_LEN)
    (len := lt.len) (by gse_omega)
  obtain ⟨label, hlabel⟩ := Label.new_some hlbl
  rw [hlb]; simp only [Option.bind]; rw [hlabel]; simp only []
  split
  · exact roomy_fail hB (Nat.le_succ _)
  split
  · exact roomy_fail hB (Nat.le_succ _)
  rename_i cur last' hres
  have hwspec := walkOf_spec mgr buf pt0
    (FIXED_HEADER_LEN + FRAG_ID_LEN + TOTAL_LENGTH_LEN + PROTOCOL_LEN + lt.len) pktLen
    (by gse_omega) hb
  split
  · rename_i heq
    exact (hwspec.1 heq).elim
  · exact roomy_fail hB (Nat.le_succ _)
  · exact roomy_fail hB (Nat.le_succ _)
  rename_i w heq
  have hwl : w.len ≤ pktLen -
      (FIXED_HEADER_LEN + FRAG_ID_LEN + TOTAL_LENGTH_LEN + PROTOCOL_LEN + lt.len) := hwspec.2 w heq
  split
  · gse_omega
  split
  · exact roomy_fail hB (Nat.le_succ _)
  split
  · exact (hi.newFrag_panic ‹_›).elim
  · obtain ⟨rfl, rfl⟩ := hi.newFrag_err ‹_›
    exact roomy_fail hB (Nat.le_succ _)
  rename_i ctx st m1 hnf
  obtain ⟨rfl, hm1, hc1, h0, hfr, hnone, hperm⟩ := hi.newFrag_ok hnf
  obtain ⟨hB1, hst, hl1⟩ := hB.newFrag hi hnf
  split
  · exact roomy_giveBack hB1 hst hl1
  rename_i h1 h2 h3
  obtain ⟨d, hd, hdl⟩ := slice_some_of_le (b := buf)
    (off := FIXED_HEADER_LEN + FRAG_ID_LEN + TOTAL_LENGTH_LEN + PROTOCOL_LEN + lt.len + w.len)
    (len := gseLen - (FRAG_ID_LEN + TOTAL_LENGTH_LEN + lt.len + w.len + PROTOCOL_LEN))
    (by gse_omega)
  obtain ⟨data, hdata, hdatal⟩ := blit_some_of_le (b := st.data) (off := 0) (src := d)
    (by gse_omega)
  rw [hd]; simp only []; rw [hdata]; simp only []
  obtain ⟨m2, hsv, hm2, hc2, hfr2, hsto2, hperm2⟩ := hm1.saveFrag_ok
    (⟨cur, w.pt, fid, tl,
      (gseLen - (FRAG_ID_LEN + TOTAL_LENGTH_LEN + lt.len + w.len + PROTOCOL_LEN)) % 65536,
      lt == .reuse, w.exts⟩, { st with data := data })
    (hc1.1 ▸ h0) (by simpa [hc1.1] using hnone)
    (by simp only [hdatal]; have := Nat.mod_le
          (gseLen - (FRAG_ID_LEN + TOTAL_LENGTH_LEN + lt.len + w.len + PROTOCOL_LEN)) 65536
        gse_omega)
  obtain ⟨hB2, hsto3⟩ := hB1.saveFrag
    (⟨cur, w.pt, fid, tl,
      (gseLen - (FRAG_ID_LEN + TOTAL_LENGTH_LEN + lt.len + w.len + PROTOCOL_LEN)) % 65536,
      lt == .reuse, w.exts⟩, { st with data := data })
    (hc1.1 ▸ h0) (by simpa [hc1.1] using hnone) (by simp only [hdatal]; exact hst) hsv
  rw [hsv]
  exact ⟨hB2, by show _ ≤ m2.storages.length + 1; rw [hsto3]; exact hl1⟩

/-- **Storages under one `decap` call**, any buffer: all storages keep their sizes (so all still
have `L` bytes), and the free list loses at most one storage, and none unless the buffer is
dispatched as a first fragment or a complete packet. -/
theorem decap_roomy (crc : CrcFn) (mgr : MgrFn) (ds : Dec) (buf : Bytes) (hI : ds.Inv)
    (hB : ds.mem.Big L) :
    Roomy L (if dispatchKind buf = some .first ∨ dispatchKind buf = some .complete then 1 else 0) ds
      (decap crc mgr ds buf) := by
  have hi := (Dec.inv_iff ds).mp hI
  generalize hloss : (if dispatchKind buf = some .first ∨ dispatchKind buf = some .complete
    then 1 else 0) = loss
  unfold decap
  simp only []
  split
  · exact roomy_fail hB (Nat.le_add_right _ _)
  rename_i hlen
  obtain ⟨w, hw⟩ := get16_some_of_le (b := buf) (off := 0) (by gse_omega)
  obtain ⟨r, hr⟩ := C14_read_ok w (get16_lt hw)
  simp only [hw, hr]
  match r, hr with
  | none, hr => exact ⟨hB, Nat.le_add_right _ _⟩
  | some (gseLen, k, lt), hr =>
    simp only []
    split
    · exact roomy_fail hB (Nat.le_add_right _ _)
    rename_i hpk
    have hk := dispatchKind_eq hw hr (Nat.le_of_not_lt hpk)
    rw [hk] at hloss
    cases k
    · rw [if_pos (.inr rfl)] at hloss; subst hloss
      exact decapComplete_roomy mgr ds buf lt _ gseLen hB rfl (by omega)
    · rw [if_pos (.inl rfl)] at hloss; subst hloss
      exact decapFirst_roomy mgr ds buf lt _ gseLen hi hB rfl (by omega)
    · rw [if_neg (by simp)] at hloss; subst hloss
      exact decapInter_roomy ds buf _ gseLen hi hB rfl (by omega)
    · rw [if_neg (by simp)] at hloss; subst hloss
      exact decapEnd_roomy crc ds buf _ gseLen hi hB rfl (by omega)

end big

/-- the first fragment `encap` writes is dispatched as a first fragment -/
theorem dispatchKind_firstPkt (lbl : Label) (fid tl pt : Nat) (payload : Bytes)
    (hg : FRAG_ID_LEN + TOTAL_LENGTH_LEN + PROTOCOL_LEN + lbl.len + payload.length ≤ GSE_LEN_MAX) :
    dispatchKind (firstPkt lbl fid tl pt payload) = some .first := by
  have h16 : get16 (firstPkt lbl fid tl pt payload) 0 = some (genHeader .first lbl.type
      (FRAG_ID_LEN + TOTAL_LENGTH_LEN + PROTOCOL_LEN + lbl.len + payload.length)) := by
    unfold firstPkt
    simp only [List.append_assoc]
    rw [get16_be16, Nat.mod_eq_of_lt (genHeader_lt _ _ _)]
  refine dispatchKind_eq h16 (readHeader_genHeader .first lbl.type _ (by simpa using hg) (by simp)) ?_
  rw [firstPkt_length]
  gse_omega

theorem TrainSpec.Valid.first_kind {crc : CrcFn} {t : TrainSpec} (hv : t.Valid crc) {p : Bytes}
    (hp : (t.packets crc).head? = some p) : dispatchKind p = some .first := by
  obtain ⟨n₀, ctx₀, he, hpk, -, -⟩ := hv.packets_eq
  rw [hpk] at hp
  cases hp
  obtain ⟨-, -, hlt, -, hg, -, -, -, htake, -⟩ := encap_fragmented_inv (crc := crc) he
  have htake' : (t.enc crc).buf.take n₀ = _ := htake
  rw [htake']
  have hl : (t.pdu.take ctx₀.pos).length = ctx₀.pos := by rw [List.length_take]; omega
  exact dispatchKind_firstPkt _ _ _ _ _ (by rw [hl]; exact hg)

/-- number of storages a sequence of buffers can take off the free list: its first fragments and
complete packets -/
def storageDemand (tagged : List (Option Nat × Bytes)) : Nat :=
  tagged.countP (fun x => decide (dispatchKind x.2 = some .first ∨ dispatchKind x.2 = some .complete))

/-- **A static resource condition suffices.**  Every storage of the receiver (free, or holding a
partial PDU) has `L` bytes, every train's PDU fits in `L` bytes, and the free list is at least as
long as the number of first fragments and complete packets in the sequence: then whenever a train's
first fragment arrives, a storage able to hold its PDU is on top of the free list.  (No assumption on
the order of the sequence: it need not even be a merge.) -/
theorem resourced_of_static (crc : CrcFn) (mgr : MgrFn) (trains : List TrainSpec) (L : Nat)
    (hv : ∀ t ∈ trains, t.Valid crc) (hL : ∀ t ∈ trains, t.pdu.length ≤ L) :
    ∀ (tagged : List (Option Nat × Bytes)) (ds : Dec), ds.Inv → ds.mem.Big L →
      storageDemand tagged ≤ ds.mem.storages.length → Resourced crc mgr trains ds tagged := by
  intro tagged
  induction tagged with
  | nil =>
    intro ds _ _ _ pre i p post t hsplit
    cases pre <;> cases hsplit
  | cons x rest ih =>
    intro ds hI hB hdem pre i p post t hsplit ht hp
    have hdem' : storageDemand rest + (if dispatchKind x.2 = some .first ∨
        dispatchKind x.2 = some .complete then 1 else 0) ≤ ds.mem.storages.length := by
      simpa only [storageDemand, List.countP_cons, decide_eq_true_eq] using hdem
    cases pre with
    | nil =>
      obtain ⟨rfl, rfl⟩ := List.cons.inj hsplit
      have hmem := List.mem_of_getElem? ht
      have hk := (hv t hmem).first_kind hp
      rw [if_pos (.inl hk)] at hdem'
      simp only [List.map_nil, rxRun]
      cases hs : ds.mem.storages with
      | nil => rw [hs] at hdem'; simp at hdem'
      | cons s free =>
        refine ⟨s, rfl, Nat.le_trans (hL t hmem) (hB.free s (by rw [hs]; exact List.mem_cons_self))⟩
    | cons y pre' =>
      obtain ⟨rfl, rfl⟩ := List.cons.inj hsplit
      have hR := decap_roomy crc mgr ds x.2 hI hB
      have := ih (decap crc mgr ds x.2).st (C05_inv_decap crc mgr ds x.2 hI) hR.big
        (by have := hR.len; omega) pre' i p post t rfl ht hp
      simpa only [List.map_cons, rxRun] using this

/-! ### 6. Strays of ids that no train uses -/

/-- every reassembly in progress belongs to one of the ids `ids` -/
def OnlyIds (ids : List Nat) (ds : Dec) : Prop :=
  ∀ (k : Nat) (c : Ctx) (s : Storage), ds.mem.frags[k]? = some (some (c, s)) → c.fragId ∈ ids

theorem OnlyIds.ctxOf_none {ids : List Nat} {ds : Dec} (h : OnlyIds ids ds) {j : Nat}
    (hj : j ∉ ids) : ctxOf ds j = none := by
  unfold ctxOf
  split
  · rename_i c s hs
    split
    · rename_i hc
      exact absurd (hc ▸ h _ c s hs) hj
    · rfl
  · rfl

/-- `decap` of a buffer that is not a first fragment of an id outside `ids` keeps `OnlyIds ids` -/
theorem OnlyIds.decap (crc : CrcFn) (mgr : MgrFn) {ids : List Nat} {ds : Dec} (buf : Bytes)
    (hI : ds.Inv) (h : OnlyIds ids ds)
    (hfirst : dispatchKind buf = some .first → ∃ j ∈ ids, get8 buf FIXED_HEADER_LEN = some j) :
    OnlyIds ids (decap crc mgr ds buf).st := by
  obtain ⟨_, hg, -⟩ := decap_good crc mgr ds buf ((Dec.inv_iff ds).mp hI)
  unfold OnlyIds
  intro k c s hk
  rcases hg.eff with heq | ⟨fid, v, hfid, hfr, hv, hkind⟩
  · rw [heq] at hk; exact h k c s hk
  · rw [hfr, List.getElem?_set] at hk
    split at hk
    · split at hk
      · cases hk
        rw [hv c s rfl]
        rcases hkind with hf | ⟨-, c0, s0, hs0, hc0⟩
        · obtain ⟨j, hj, hj'⟩ := hfirst hf
          rw [hfid] at hj'; cases hj'; exact hj
        · exact hc0 ▸ h _ c0 s0 hs0
      · cases hk
    · exact h k c s hk

/-- **Strays of unknown ids.**  Every reassembly in progress belongs to one of the ids `ids`, and
every first fragment in the sequence `seq` carries one of these ids.  Then every intermediate or end
packet of the sequence whose fragment id is not in `ids` is refused and leaves the memory as it is
(`decap_stray_rejected`), `ds'` being the receiver state when it arrives. -/
theorem unknown_ids_rejected (crc : CrcFn) (mgr : MgrFn) (ids : List Nat) :
    ∀ (seq : List Bytes) (ds : Dec), ds.Inv → OnlyIds ids ds →
      (∀ b ∈ seq, dispatchKind b = some .first → ∃ j ∈ ids, get8 b FIXED_HEADER_LEN = some j) →
      ∀ (pre : List Bytes) (b : Bytes) (post : List Bytes) (g j : Nat) (k : PktType) (lt : LabelType),
        seq = pre ++ b :: post → dispatch b = some (g, k, lt) → (k = .inter ∨ k = .end_) →
        get8 b FIXED_HEADER_LEN = some j → j ∉ ids →
        (decap crc mgr (rxRun crc mgr ds pre).2 b).st.mem = (rxRun crc mgr ds pre).2.mem ∧
        (((decap crc mgr (rxRun crc mgr ds pre).2 b).res = .err (.memory .undefinedId) ∧
            (decap crc mgr (rxRun crc mgr ds pre).2 b).st = (rxRun crc mgr ds pre).2) ∨
          (decap crc mgr (rxRun crc mgr ds pre).2 b).res = .err .gseLength ∨
          (decap crc mgr (rxRun crc mgr ds pre).2 b).res = .err .sizeBuffer) := by
  intro seq
  induction seq with
  | nil => intro ds _ _ _ pre b post g j k lt hsplit; cases pre <;> cases hsplit
  | cons x rest ih =>
    intro ds hI hO hF pre b post g j k lt hsplit hd hk hj hji
    cases pre with
    | nil =>
      simp only [rxRun]
      exact decap_stray_rejected crc mgr ds b hI hd hk hj (hO.ctxOf_none hji)
    | cons y pre' =>
      obtain ⟨rfl, rfl⟩ := List.cons.inj hsplit
      have := ih (decap crc mgr ds x).st (C05_inv_decap crc mgr ds x hI)
        (hO.decap crc mgr x hI (hF x List.mem_cons_self))
        (fun b' hb' => hF b' (List.mem_cons_of_mem _ hb')) pre' b post g j k lt rfl hd hk hj hji
      simpa only [rxRun] using this

/-- the fragment id byte of a first fragment -/
theorem get8_firstPkt (lbl : Label) {fid : Nat} (tl pt : Nat) (payload : Bytes) (hfid : fid < 256) :
    get8 (firstPkt lbl fid tl pt payload) FIXED_HEADER_LEN = some fid := by
  refine get8_at (a := be16 (genHeader .first lbl.type
      (FRAG_ID_LEN + TOTAL_LENGTH_LEN + PROTOCOL_LEN + lbl.len + payload.length)))
    (rest := be16 tl ++ be16 pt ++ lbl.bytes ++ payload) ?_ rfl hfid
  unfold firstPkt
  simp only [List.append_assoc]

theorem dispatchKind_interPkt (fid : Nat) (payload : Bytes)
    (hg : FRAG_ID_LEN + payload.length ≤ GSE_LEN_MAX) :
    dispatchKind (interPkt fid payload) = some .inter := by
  have h16 : get16 (interPkt fid payload) 0
      = some (genHeader .inter .reuse (FRAG_ID_LEN + payload.length)) := by
    unfold interPkt
    simp only [List.append_assoc]
    rw [get16_be16, Nat.mod_eq_of_lt (genHeader_lt _ _ _)]
  refine dispatchKind_eq h16 (readHeader_genHeader_reuse .inter _ (by simpa using hg)) ?_
  rw [interPkt_length]
  gse_omega

theorem dispatchKind_endPkt (fid : Nat) (payload : Bytes) (c : Nat)
    (hg : FRAG_ID_LEN + payload.length + CRC_LEN ≤ GSE_LEN_MAX) :
    dispatchKind (endPkt fid payload c) = some .end_ := by
  have h16 : get16 (endPkt fid payload c) 0
      = some (genHeader .end_ .reuse (FRAG_ID_LEN + payload.length + CRC_LEN)) := by
    unfold endPkt
    simp only [List.append_assoc]
    rw [get16_be16, Nat.mod_eq_of_lt (genHeader_lt _ _ _)]
  refine dispatchKind_eq h16 (readHeader_genHeader_reuse .end_ _ (by simpa using hg)) ?_
  rw [endPkt_length]
  gse_omega

/-- the packets of a `Tail` are intermediate and end packets -/
theorem Tail.kinds {pdu : Bytes} (hp : pdu.length ≤ TOTAL_LEN_MAX) {ctx : FragCtx}
    {pkts : List Bytes} (h : Tail pdu ctx pkts) :
    ∀ p ∈ pkts, dispatchKind p = some .inter ∨ dispatchKind p = some .end_ := by
  induction h with
  | last he =>
    intro p hp'
    rw [List.mem_singleton] at hp'
    subst hp'
    obtain ⟨_, hlen, _, htake, _⟩ := encapFrag_completed_inv he
    rw [htake]
    exact .inr (dispatchKind_endPkt _ _ _ (by rw [List.length_drop]; exact hlen))
  | more he _ ih =>
    intro p hp'
    rcases List.mem_cons.mp hp' with rfl | hp'
    · obtain ⟨k, _, _, hkg, _, _, hpl, htake, _⟩ := encapFrag_fragmented_inv hp he
      rw [htake]
      exact .inl (dispatchKind_interPkt _ _ (by rw [hpl]; exact hkg))
    · exact ih p hp'

/-- among the packets of a valid train only the first one is a first fragment, and it carries the
train's fragment id -/
theorem TrainSpec.Valid.first_fid {crc : CrcFn} {t : TrainSpec} (hv : t.Valid crc) :
    ∀ p ∈ t.packets crc, dispatchKind p = some .first → get8 p FIXED_HEADER_LEN = some t.fid := by
  obtain ⟨n₀, ctx₀, he, hpk, hT, -⟩ := hv.packets_eq
  obtain ⟨-, -, -, htl, -, -, -, -, htake, -⟩ := encap_fragmented_inv (crc := crc) he
  have htake' : (t.enc crc).buf.take n₀ = _ := htake
  intro p hp hk
  rw [hpk] at hp
  rcases List.mem_cons.mp hp with rfl | hp
  · rw [htake']
    exact get8_firstPkt _ _ _ _ hv.fid_lt
  · rcases hT.kinds (by gse_omega) p hp with h | h <;> rw [h] at hk <;> cases hk

/-- a property of all packets and all inserted buffers holds for every element of a merge -/
theorem Merge.forall {F : List (List Bytes) → Bytes → Prop} {rems : List (List Bytes)}
    {tagged : List (Option Nat × Bytes)} (hM : Merge F rems tagged) (P : Bytes → Prop)
    (hF : ∀ rems b, F rems b → P b) (hr : ∀ r ∈ rems, ∀ p ∈ r, P p) : ∀ x ∈ tagged, P x.2 := by
  induction hM with
  | done _ => intro x hx; cases hx
  | @take rems i p r tagged hi _ ih =>
    intro x hx
    have hmem := List.mem_of_getElem? hi
    rcases List.mem_cons.mp hx with rfl | hx
    · exact hr _ hmem p List.mem_cons_self
    · refine ih (fun r' hr' q hq => ?_) x hx
      rcases List.mem_or_eq_of_mem_set hr' with h | rfl
      · exact hr r' h q hq
      · exact hr _ hmem q (List.mem_cons_of_mem _ hq)
  | foreign hb _ ih =>
    intro x hx
    rcases List.mem_cons.mp hx with rfl | hx
    · exact hF _ _ hb
    · exact ih hr x hx

theorem Merge.mono {F G : List (List Bytes) → Bytes → Prop} (hFG : ∀ rems b, F rems b → G rems b)
    {rems : List (List Bytes)} {tagged : List (Option Nat × Bytes)} (hM : Merge F rems tagged) :
    Merge G rems tagged := by
  induction hM with
  | done h => exact .done h
  | take hi _ ih => exact .take hi ih
  | foreign hb _ ih => exact .foreign (hFG _ _ hb) ih

/-- in a merge of valid trains with inserted buffers that are not first fragments, every first
fragment carries the fragment id of a train -/
theorem merge_firsts {crc : CrcFn} {trains : List TrainSpec} {F : List (List Bytes) → Bytes → Prop}
    {tagged : List (Option Nat × Bytes)} (hv : ∀ t ∈ trains, t.Valid crc)
    (hF : ∀ rems b, F rems b → dispatchKind b ≠ some .first)
    (hM : Merge F (trains.map (·.packets crc)) tagged) :
    ∀ b ∈ tagged.map Prod.snd, dispatchKind b = some .first →
      ∃ j ∈ trains.map (·.fid), get8 b FIXED_HEADER_LEN = some j := by
  have := hM.forall
    (fun b => dispatchKind b = some .first → ∃ j ∈ trains.map (·.fid), get8 b FIXED_HEADER_LEN = some j)
    (fun rems b hb hk => absurd hk (hF rems b hb))
    (by
      intro r hr p hp hk
      obtain ⟨t, ht, rfl⟩ := List.mem_map.mp hr
      exact ⟨t.fid, List.mem_map.mpr ⟨t, ht, rfl⟩, (hv t ht).first_fid p hp hk⟩)
  intro b hb
  obtain ⟨x, hx, rfl⟩ := List.mem_map.mp hb
  exact this x hx

end Gse
