/-
Helper lemmas about big-endian (de)serialisation (`be16`, `be32`, `rd16`, `get16`, `get32`) and
about the fixed-header codec (`genHeader`, `readHeader`).  Independent of `Props/`.

The `genHeader` facts are proved symbolically in the length (they hold for *every* `len : Nat`,
which an exhaustive check cannot give) and by case analysis on the 4 × 4 (kind, label type)
pairs; the generated constants are reached only through `simp` unfolding the `Gen.*` names, so a
changed constant re-checks every proof.
-/
import GseVerif.Model.Header
import GseVerif.Lemmas.Finite

namespace Gse
open Gen

/-! ### bytes

(`Lemmas/Bytes.lean` has `be16_length`, `be32_length`, `u8_toNat`, `rd16_be16`, `get16_be16`,
`get32_be32` with overlapping content; the names here are chosen not to clash, so both files can
be imported together.) -/

theorem toNat_u8 (n : Nat) : (u8 n).toNat = n % 256 := by
  simp [u8]

theorem length_be16 (n : Nat) : (be16 n).length = 2 := rfl

theorem length_be32 (n : Nat) : (be32 n).length = 4 := rfl

theorem rd16_u8 (n : Nat) : rd16 (u8 (n / 256)) (u8 n) = n % 65536 := by
  simp only [rd16, toNat_u8]; omega

theorem rd32_u8 (n : Nat) :
    rd32 (u8 (n / 16777216)) (u8 (n / 65536)) (u8 (n / 256)) (u8 n) = n % 4294967296 := by
  simp only [rd32, toNat_u8]; omega

/-- `u16::from_be_bytes((n as u16).to_be_bytes()) = n as u16`. -/
theorem rd16_of_be16_eq (n : Nat) (a b : UInt8) : be16 n = [a, b] → rd16 a b = n % 65536 := by
  intro h
  simp only [be16, List.cons.injEq, and_true] at h
  rw [← h.1, ← h.2]; exact rd16_u8 n

example : be16 0x12345 = [0x23, 0x45] ∧ rd16 0x23 0x45 = 0x12345 % 65536 := by decide

theorem rd16_lt (a b : UInt8) : rd16 a b < 65536 := by
  have := a.toNat_lt; have := b.toNat_lt; simp only [rd16]; omega

theorem rd32_lt (a b c d : UInt8) : rd32 a b c d < 4294967296 := by
  have := a.toNat_lt; have := b.toNat_lt; have := c.toNat_lt; have := d.toNat_lt
  simp only [rd32]; omega

theorem get16_be16_append' (n : Nat) (rest : Bytes) :
    get16 (be16 n ++ rest) 0 = some (n % 65536) := by
  simp only [get16, slice, be16, List.cons_append, List.nil_append, List.length_cons, List.drop_zero,
    List.take_succ_cons, List.take_zero]
  rw [if_pos (by omega)]
  exact congrArg some (rd16_u8 n)

theorem get16_be16_append (n : Nat) (h : n < 65536) (rest : Bytes) :
    get16 (be16 n ++ rest) 0 = some n := by
  rw [get16_be16_append', Nat.mod_eq_of_lt h]

example : get16 (be16 0xBEEF ++ [1, 2, 3]) 0 = some 0xBEEF := by decide

theorem get32_be32_append (n : Nat) (rest : Bytes) :
    get32 (be32 n ++ rest) 0 = some (n % 4294967296) := by
  simp only [get32, slice, be32, List.cons_append, List.nil_append, List.length_cons, List.drop_zero,
    List.take_succ_cons, List.take_zero]
  rw [if_pos (by omega)]
  exact congrArg some (rd32_u8 n)

example : get32 (be32 0x1DEADBEEF ++ [7]) 0 = some 0xDEADBEEF := by decide

/-! ### `genHeader`: the three fields do not overlap -/

theorem and_len_mask (len : Nat) : len &&& GSE_LEN_MASK = len % 4096 := by
  simpa using Nat.and_two_pow_sub_one_eq_mod len 12

theorem genHeader_and_startEnd (k : PktType) (lt : LabelType) (len : Nat) :
    genHeader k lt len &&& START_END_MASK = startEndBits k := by
  cases k <;> cases lt <;>
    simp [genHeader, startEndBits, labelTypeBits, Nat.and_or_distrib_right, Nat.and_assoc]

theorem genHeader_and_labelType (k : PktType) (lt : LabelType) (len : Nat) :
    genHeader k lt len &&& LABEL_TYPE_MASK = labelTypeBits lt := by
  cases k <;> cases lt <;>
    simp [genHeader, startEndBits, labelTypeBits, Nat.and_or_distrib_right, Nat.and_assoc]

theorem genHeader_and_len (k : PktType) (lt : LabelType) (len : Nat) :
    genHeader k lt len &&& GSE_LEN_MASK = len % 4096 := by
  rw [← and_len_mask]
  cases k <;> cases lt <;>
    simp [genHeader, startEndBits, labelTypeBits, Nat.and_or_distrib_right, Nat.and_assoc]

/-- The top nibble (S, E, LT bits) of the encoded word. -/
theorem genHeader_and_hi (k : PktType) (lt : LabelType) (len : Nat) :
    genHeader k lt len &&& 0xF000 = startEndBits k ||| labelTypeBits lt := by
  cases k <;> cases lt <;>
    simp [genHeader, startEndBits, labelTypeBits, Nat.and_or_distrib_right, Nat.and_assoc]

theorem genHeader_lt (k : PktType) (lt : LabelType) (len : Nat) : genHeader k lt len < 65536 := by
  unfold genHeader
  have h : ∀ x m, m < 2 ^ 16 → x &&& m < 2 ^ 16 := fun x _ hm => Nat.and_lt_two_pow x hm
  exact Nat.or_lt_two_pow (Nat.or_lt_two_pow (h _ _ (by simp)) (h _ _ (by simp))) (h _ _ (by simp))

/-- Only the low 12 bits of the length argument matter (`gse_len as u16 & 0x0FFF`). -/
theorem genHeader_mod (k : PktType) (lt : LabelType) (len : Nat) :
    genHeader k lt len = genHeader k lt (len % 4096) := by
  unfold genHeader
  rw [and_len_mask, and_len_mask, Nat.mod_mod]

/-- The only (kind, label type) pair whose top nibble is zero is (inter, six). -/
theorem hi_ne_zero (k : PktType) (lt : LabelType) (hp : ¬ (k = .inter ∧ lt = .six)) :
    startEndBits k ||| labelTypeBits lt ≠ 0 := by
  cases k <;> cases lt <;> simp [startEndBits, labelTypeBits] at hp ⊢

example : startEndBits .inter ||| labelTypeBits .reuse ≠ 0 := hi_ne_zero _ _ (by decide)

/-! ### `readHeader ∘ genHeader` -/

/-- `readHeader` sees a word only through its three masked fields. -/
theorem readHeader_genHeader' (k : PktType) (lt : LabelType) (len : Nat) :
    readHeader (genHeader k lt len) =
      if k = .inter ∧ lt = .six then .ok none else .ok (some (len % 4096, k, lt)) := by
  unfold readHeader
  simp only [genHeader_and_startEnd, genHeader_and_labelType, genHeader_and_len]
  cases k <;> cases lt <;> simp [startEndBits, labelTypeBits]

theorem readHeader_genHeader (k : PktType) (lt : LabelType) (len : Nat) (h : len ≤ 4095)
    (hp : ¬ (k = .inter ∧ lt = .six)) :
    readHeader (genHeader k lt len) = .ok (some (len, k, lt)) := by
  rw [readHeader_genHeader', if_neg hp, Nat.mod_eq_of_lt (by omega)]

example : readHeader (genHeader .end_ .three 4095) = .ok (some (4095, .end_, .three)) :=
  readHeader_genHeader _ _ _ (by decide) (by decide)

theorem readHeader_genHeader_reuse (k : PktType) (len : Nat) (h : len ≤ 4095) :
    readHeader (genHeader k .reuse len) = .ok (some (len, k, .reuse)) :=
  readHeader_genHeader k .reuse len h (by simp)

example : readHeader (genHeader .inter .reuse 300) = .ok (some (300, .inter, .reuse)) :=
  readHeader_genHeader_reuse _ _ (by decide)

/-- The padding pattern: (inter, six) reads back as "no packet", whatever the length. -/
theorem readHeader_genHeader_padding (len : Nat) :
    readHeader (genHeader .inter .six len) = .ok none := by
  rw [readHeader_genHeader', if_pos ⟨rfl, rfl⟩]

end Gse
