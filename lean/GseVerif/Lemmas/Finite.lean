/-
Exhaustive checking of a Bool predicate over an initial segment of `Nat`, in a form the
kernel can evaluate (`decide +kernel`).  Core Lean only.
-/
namespace Gse

/-- `allBelow n p = p (n-1) && … && p 0`. -/
def allBelow : Nat → (Nat → Bool) → Bool
  | 0, _ => true
  | n + 1, p => p n && allBelow n p

theorem allBelow_spec {n : Nat} {p : Nat → Bool} (h : allBelow n p = true) :
    ∀ i, i < n → p i = true := by
  induction n with
  | zero => intro i hi; omega
  | succ n ih =>
    intro i hi
    simp only [allBelow, Bool.and_eq_true] at h
    by_cases hin : i = n
    · subst hin; exact h.1
    · exact ih h.2 i (by omega)

example : allBelow 5 (fun i => decide (i * i < 17)) = true := by decide

theorem allBelow_of_forall {n : Nat} {p : Nat → Bool} (h : ∀ i, i < n → p i = true) :
    allBelow n p = true := by
  induction n with
  | zero => rfl
  | succ n ih =>
    simp only [allBelow, Bool.and_eq_true]
    exact ⟨h n (by omega), ih (fun i hi => h i (by omega))⟩

example : allBelow 3 (fun i => decide (i < 3)) = true :=
  allBelow_of_forall (fun i hi => by simpa using hi)

theorem allBelow_iff {n : Nat} {p : Nat → Bool} :
    allBelow n p = true ↔ ∀ i, i < n → p i = true :=
  ⟨allBelow_spec, allBelow_of_forall⟩

/-- Two-dimensional version: all `i < n`, `j < m`. -/
theorem allBelow₂_spec {n m : Nat} {p : Nat → Nat → Bool}
    (h : allBelow n (fun i => allBelow m (p i)) = true) :
    ∀ i j, i < n → j < m → p i j = true :=
  fun i j hi hj => allBelow_spec (allBelow_spec h i hi) j hj

example : ∀ i j, i < 4 → j < 4 → (decide (i * j < 10)) = true :=
  allBelow₂_spec (p := fun i j => decide (i * j < 10)) (by decide)

end Gse
