/-
Helper lemmas about `Extension::new` / `Extension::len` (Model/Ext.lean):
the well-formedness predicate `Ext.WF` ("the variant matches the data length and the id range"),
the H-LEN table facts, and the `extNew` round trip.
-/
import GseVerif.Model.Ext

namespace Gse
open Gen

/-! ### H-LEN table facts (checked against the generated table by evaluation) -/

set_option maxRecDepth 20000 in
/-- for `h` in `1..5` the table gives `2 * (h - 1)` -/
theorem hlenDataSize_mid : ∀ h : Fin 256, 1 ≤ h.val → h.val ≤ 5 →
    hlenDataSize h.val = some (2 * (h.val - 1)) := by decide

/-- `h = 0` (mandatory range) has no optional size -/
theorem hlenDataSize_zero : hlenDataSize 0 = none := by decide

set_option maxRecDepth 20000 in
/-- `6 ≤ h < 256` has no size -/
theorem hlenDataSize_high : ∀ h : Fin 256, 6 ≤ h.val → hlenDataSize h.val = none := by decide

set_option maxRecDepth 20000 in
/-- the three facts above as one characterisation, for every `h : u8` -/
theorem hlenDataSize_eq (h : Nat) (hh : h < 256) :
    hlenDataSize h = if 1 ≤ h ∧ h ≤ 5 then some (2 * (h - 1)) else none := by
  have := (by decide : ∀ h : Fin 256,
    hlenDataSize h.val = if 1 ≤ h.val ∧ h.val ≤ 5 then some (2 * (h.val - 1)) else none)
  exact this ⟨h, hh⟩

/-- every size in the table is one of the five `ExtensionData` payload sizes -/
theorem hlenDataSize_some_mem {h n : Nat} (e : hlenDataSize h = some n) :
    n = 0 ∨ n = 2 ∨ n = 4 ∨ n = 6 ∨ n = 8 := by
  unfold hlenDataSize at e
  split at e <;> simp_all

/-- the table is defined exactly on the optional range of `id >> 8` -/
theorem hlenDataSize_isSome_iff (h : Nat) (hh : h < 256) :
    (hlenDataSize h).isSome ↔ (1 ≤ h ∧ h ≤ 5) := by
  rw [hlenDataSize_eq h hh]; split <;> simp_all

/-! ### Well-formed extensions -/

/-- payload size carried by a fixed-size `ExtensionData` variant (`none`: `MandatoryData`) -/
def ExtKind.dataLen? : ExtKind → Option Nat
  | .noData => some 0
  | .data2 => some 2
  | .data4 => some 4
  | .data6 => some 6
  | .data8 => some 8
  | .mandatory => none

/-- An extension as `Extension::new` builds it: the id is in the extension range, ids of the
mandatory range use `MandatoryData`, ids of the optional range carry exactly the number of bytes
the H-LEN table prescribes, in the variant of that size. -/
def Ext.WF (e : Ext) : Prop :=
  e.id < SECOND_RANGE_PTYPE ∧
  (e.kind = .mandatory ↔ e.id < MAX_MANDATORY_VAL_PTYPE) ∧
  (MAX_MANDATORY_VAL_PTYPE ≤ e.id →
    hlenDataSize (e.id / 256) = some e.data.length ∧ e.kind.dataLen? = some e.data.length)

instance Ext.instDecidableWF (e : Ext) : Decidable e.WF := by unfold Ext.WF; infer_instance

/-- `Extension::new` never reaches one of its `unreachable!()` for a `u16` id. -/
theorem extNew_ne_panic (id : Nat) (h : id < 65536) (data : Bytes) : extNew id data ≠ .panic := by
  unfold extNew
  split
  · simp
  split
  · simp
  rename_i h1 h2
  have hr : 1 ≤ id / 256 ∧ id / 256 ≤ 5 := by
    simp only [SECOND_RANGE_PTYPE, MAX_MANDATORY_VAL_PTYPE] at h1 h2; omega
  have hlt : id / 256 < 256 := by omega
  rw [hlenDataSize_eq _ hlt, if_pos hr]
  simp only
  split
  · simp
  rename_i h3
  have h3 : 2 * (id / 256 - 1) = data.length := by simpa using h3
  have h4 : data.length = 0 ∨ data.length = 2 ∨ data.length = 4 ∨ data.length = 6 ∨
      data.length = 8 := by omega
  rcases h4 with h4 | h4 | h4 | h4 | h4 <;> rw [h4] <;> simp

/-- what a successful `Extension::new` returns -/
theorem extNew_ok_fields {id : Nat} {data : Bytes} {e : Ext} (he : extNew id data = .ok e) :
    e.id = id ∧ e.data = data := by
  unfold extNew at he
  split at he
  · simp at he
  split at he
  · cases he; simp
  split at he
  · simp at he
  split at he
  · simp at he
  split at he <;> cases he <;> simp

/-- a successful `Extension::new` returns a well-formed extension -/
theorem extNew_ok_wf {id : Nat} {data : Bytes} {e : Ext} (he : extNew id data = .ok e) : e.WF := by
  unfold extNew at he
  split at he
  · simp at he
  rename_i h1
  split at he
  · rename_i h2
    cases he
    exact ⟨Nat.lt_of_not_ge h1, by simp only [h2], fun h3 => absurd h2 (Nat.not_lt.mpr h3)⟩
  rename_i h2
  split at he
  · simp at he
  rename_i sz hsz
  split at he
  · simp at he
  rename_i h3
  have h3 : sz = data.length := by simpa using h3
  subst h3
  split at he <;> cases he <;> rename_i hl <;>
    refine ⟨Nat.lt_of_not_ge h1, ?_, fun _ => ⟨hsz, ?_⟩⟩ <;>
    simp only [h2, ExtKind.dataLen?, hl, reduceCtorEq]

/-- `Extension::len` of a well-formed extension agrees with the data actually stored -/
theorem Ext.WF.len_eq {e : Ext} (h : e.WF) : e.len = PROTOCOL_LEN + e.data.length := by
  obtain ⟨_, h2, h3⟩ := h
  by_cases hm : e.id < MAX_MANDATORY_VAL_PTYPE
  · have := h2.mpr hm
    simp [Ext.len, this]
  · have h4 := (h3 (Nat.le_of_not_lt hm)).2
    unfold Ext.len
    cases hk : e.kind <;> rw [hk] at h4 <;> simp only [ExtKind.dataLen?, Option.some.injEq]
      at h4 <;> simp only [← h4] <;> omega

/-- round trip: a well-formed extension is exactly what `Extension::new` builds from its id and
data (used by the decoder proofs) -/
theorem Ext.WF.extNew_eq {e : Ext} (h : e.WF) : extNew e.id e.data = .ok e := by
  obtain ⟨h1, h2, h3⟩ := h
  obtain ⟨id, kind, data⟩ := e
  simp only at h1 h2 h3
  unfold extNew
  rw [if_neg (Nat.not_le.mpr h1)]
  by_cases hm : id < MAX_MANDATORY_VAL_PTYPE
  · rw [if_pos hm, h2.mpr hm]
  · rw [if_neg hm]
    obtain ⟨h4, h5⟩ := h3 (Nat.le_of_not_lt hm)
    rw [h4]
    simp only [ne_eq, not_true_eq_false, if_false]
    cases kind <;> simp [ExtKind.dataLen?] at h5 <;> simp [← h5]

/-- `Extension::new` succeeds exactly with the well-formed extension of that id and data -/
theorem extNew_ok_iff_wf (id : Nat) (data : Bytes) (e : Ext) :
    extNew id data = .ok e ↔ (e.WF ∧ e.id = id ∧ e.data = data) := by
  constructor
  · intro he
    exact ⟨extNew_ok_wf he, extNew_ok_fields he⟩
  · rintro ⟨hw, rfl, rfl⟩
    exact hw.extNew_eq

end Gse
