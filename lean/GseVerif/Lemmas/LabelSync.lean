/-
Label memories of sender and receiver (used by Props/C04.lean and Props/C16.lean).

1. Receiver only: what one `decap` call does to `last_label`, read off the *input bytes alone*
   (`seen`), for every buffer, state, CRC calculator and extension manager (`decap_seen`).
2. What `seen` is on the packets `encap` / `encap_ext` / `encap_frag` produce.
3. The joint sender/receiver machine `Sys` / `JOp` / `jstep` and its invariant `LabelSync`.
-/
import GseVerif.Lemmas.Reuse
import GseVerif.Lemmas.EncapLayer
import GseVerif.Lemmas.DecapLayer
import GseVerif.Lemmas.DecapInv
import GseVerif.Lemmas.WireLayer

namespace Gse
open Gen

/-! ## 1. The receiver's label memory as a function of the bytes fed -/

/-- What a buffer says about labels, from its first bytes alone:
* `addr l`: it dispatches to a start or complete packet with a 3- or 6-byte label type, the GSE length
  covers the label field, and the label read is `l ≠ 0`;
* `bcast`: start/complete packet with label type broadcast;
* `reuse`: start/complete packet with label type re-use;
* `cont`: intermediate or end packet;
* `bad`: anything else (shorter than the fixed header, padding, shorter than the announced packet,
  GSE length too small for the mandatory fields, all-zero label). -/
inductive Seen where
  | addr (l : Label)
  | bcast
  | reuse
  | cont
  | bad
  deriving DecidableEq, Repr, Inhabited

def seenOfLabel : Label → Seen
  | .reuse => .reuse
  | .broadcast => .bcast
  | l => .addr l

/-- the label field of a start/complete packet, at offset `off` -/
def seenStart (buf : Bytes) (off : Nat) (lt : LabelType) : Seen :=
  match (slice buf off lt.len).bind (Label.new lt) with
  | none => .bad
  | some l => if l = zeroLabel then .bad else seenOfLabel l

def seen (buf : Bytes) : Seen :=
  match get16 buf 0 with
  | none => .bad
  | some w =>
    match readHeader w with
    | .ok (some (gseLen, k, lt)) =>
      if buf.length < gseLen + FIXED_HEADER_LEN then .bad
      else
        match k with
        | .complete =>
          if gseLen < lt.len + PROTOCOL_LEN then .bad
          else seenStart buf (FIXED_HEADER_LEN + PROTOCOL_LEN) lt
        | .first =>
          if gseLen < lt.len + PROTOCOL_LEN + FRAG_ID_LEN + TOTAL_LENGTH_LEN then .bad
          else seenStart buf (FIXED_HEADER_LEN + FRAG_ID_LEN + TOTAL_LENGTH_LEN + PROTOCOL_LEN) lt
        | _ => .cont
    | _ => .bad

/-- The label carried by the nearest preceding start/complete packet, updated by one buffer. -/
def rxStep (last : Option Label) : Seen → Option Label
  | .addr l => some l
  | .bcast => none
  | .reuse => last
  | .cont => last
  | .bad => none

/-- the label reported with a result -/
def DecStatus.label? : DecStatus → Option Label
  | .completed _ md => some md.label
  | .fragmented md => some md.label
  | .padding => none

/-- The contract of one `decap` call w.r.t. the label memory, by what the buffer shows. -/
def SeenOut (ds : Dec) (s : Seen) (o : DecOut) : Prop :=
  match s with
  | .bad => o.st.last = none ∧ ∀ x, o.res = .ok x → x = .padding
  | .cont => (o.st.last = none ∧ ∀ x, o.res ≠ .ok x) ∨ o.st.last = ds.last
  | .addr l => (o.st.last = none ∧ ∀ x, o.res ≠ .ok x) ∨
      (o.st.last = some l ∧ ∀ x, o.res = .ok x → x.label? = some l)
  | .bcast => o.st.last = none ∧ ∀ x, o.res = .ok x → x.label? = some .broadcast
  | .reuse => (o.st.last = none ∧ ∀ x, o.res ≠ .ok x) ∨
      (∃ l, ds.last = some l ∧ o.st.last = some l ∧ ∀ x, o.res = .ok x → x.label? = some l)

theorem SeenOut.of_fail {ds : Dec} {s : Seen} {o : DecOut} (h1 : o.st.last = none)
    (h2 : ∀ x, o.res ≠ .ok x) : SeenOut ds s o := by
  cases s <;> simp only [SeenOut]
  · exact .inl ⟨h1, h2⟩
  · exact ⟨h1, fun x hx => absurd hx (h2 x)⟩
  · exact .inl ⟨h1, h2⟩
  · exact .inl ⟨h1, h2⟩
  · exact ⟨h1, fun x hx => absurd hx (h2 x)⟩

theorem giveBack_last (m : Mem) (last : Option Label) (s : Storage) (e : DecErr) (n : Nat) :
    (giveBack m last s e n).st.last = last := by
  unfold giveBack
  rcases m.provision s with ⟨(_ | _ | _), m'⟩ <;> rfl

theorem get16_some_le {b : Bytes} {off v : Nat} (h : get16 b off = some v) : off + 2 ≤ b.length := by
  unfold get16 at h
  split at h
  · rename_i hs; exact (slice_eq_some.mp hs).1
  · cases h

/-- the outcome of label resolution, in terms of `seenOfLabel` -/
theorem SeenOut.of_resolve {ds : Dec} {lt : LabelType} {bs : Bytes} {label cur : Label}
    {last' : Option Label} {o : DecOut} (hn : Label.new lt bs = some label)
    (hr : resolveLabel lt label ds.last = .ok cur last')
    (h : (o.st.last = none ∧ ∀ x, o.res ≠ .ok x) ∨
      (o.st.last = last' ∧ ∀ x, o.res = .ok x → x.label? = some cur)) :
    SeenOut ds (seenOfLabel label) o := by
  rcases h with h | ⟨h1, h2⟩
  · exact .of_fail h.1 h.2
  have ht := (Label.new_eq_some hn).1
  cases label <;> simp only [Label.type] at ht <;> subst ht <;>
    simp only [resolveLabel] at hr
  · cases hr; exact .inr ⟨h1, h2⟩
  · cases hr; exact .inr ⟨h1, h2⟩
  · cases hr; exact ⟨h1, h2⟩
  · split at hr <;> cases hr
    rename_i heq
    exact .inr ⟨cur, heq, h1.trans heq, h2⟩

/-- leaf shape of the per-kind functions -/
def Leaf (last' : Option Label) (cur : Label) (o : DecOut) : Prop :=
  o.res = .panic ∨ (o.st.last = none ∧ ∀ x, o.res ≠ .ok x) ∨
    (o.st.last = last' ∧ ∀ x, o.res = .ok x → x.label? = some cur)

theorem Leaf.fail {last' : Option Label} {cur : Label} (ds : Dec) (m : Mem) (e : DecErr) (n : Nat) :
    Leaf last' cur (ds.fail m e n) := .inr (.inl ⟨rfl, fun _ h => by cases h⟩)

theorem Leaf.giveBack {last' : Option Label} {cur : Label} (m : Mem) (s : Storage) (e : DecErr)
    (n : Nat) : Leaf last' cur (giveBack m none s e n) :=
  .inr (.inl ⟨giveBack_last .., fun x => giveBack_res_ne_ok _ _ _ _ _ x⟩)

theorem decapComplete_seen (mgr : MgrFn) (ds : Dec) (buf : Bytes) (lt : LabelType)
    (pktLen gseLen : Nat) :
    (decapComplete mgr ds buf lt pktLen gseLen).res = .panic ∨
    SeenOut ds (if gseLen < lt.len + PROTOCOL_LEN then .bad
        else seenStart buf (FIXED_HEADER_LEN + PROTOCOL_LEN) lt)
      (decapComplete mgr ds buf lt pktLen gseLen) := by
  unfold decapComplete seenStart
  simp only []
  split
  · exact .inr (.of_fail rfl (fun _ h => by cases h))
  split
  · exact .inl rfl
  split
  · exact .inl rfl
  rename_i label hlabel
  simp only [hlabel]
  split
  · exact .inr (.of_fail rfl (fun _ h => by cases h))
  have hn : ∃ bs, Label.new lt bs = some label := by
    cases hs : slice buf (FIXED_HEADER_LEN + PROTOCOL_LEN) lt.len with
    | none => rw [hs] at hlabel; cases hlabel
    | some bs => rw [hs] at hlabel; exact ⟨bs, hlabel⟩
  obtain ⟨bs, hn⟩ := hn
  split
  · exact .inl rfl
  · exact .inr (.of_fail rfl (fun _ h => by cases h))
  · exact .inr (.of_fail rfl (fun _ h => by cases h))
  split
  · exact .inl rfl
  · exact .inr (.of_fail rfl (fun _ h => by cases h))
  split
  · exact .inr (.of_fail (giveBack_last ..) (fun x => giveBack_res_ne_ok _ _ _ _ _ x))
  split
  · exact .inl rfl
  split
  · exact .inl rfl
  split
  · exact .inr (.of_fail (giveBack_last ..) (fun x => giveBack_res_ne_ok _ _ _ _ _ x))
  · rename_i cur last' hr
    refine .inr (.of_resolve hn hr (.inr ⟨rfl, ?_⟩))
    intro x hx
    cases hx
    rfl

theorem decapFirst_seen (mgr : MgrFn) (ds : Dec) (buf : Bytes) (lt : LabelType)
    (pktLen gseLen : Nat) :
    (decapFirst mgr ds buf lt pktLen gseLen).res = .panic ∨
    SeenOut ds (if gseLen < lt.len + PROTOCOL_LEN + FRAG_ID_LEN + TOTAL_LENGTH_LEN then .bad
        else seenStart buf (FIXED_HEADER_LEN + FRAG_ID_LEN + TOTAL_LENGTH_LEN + PROTOCOL_LEN) lt)
      (decapFirst mgr ds buf lt pktLen gseLen) := by
  unfold decapFirst seenStart
  simp only []
  split
  · exact .inr (.of_fail rfl (fun _ h => by cases h))
  split
  rotate_left
  · exact .inl rfl
  split
  · exact .inl rfl
  rename_i label hlabel
  simp only [hlabel]
  split
  · exact .inr (.of_fail rfl (fun _ h => by cases h))
  have hn : ∃ bs, Label.new lt bs = some label := by
    cases hs : slice buf (FIXED_HEADER_LEN + FRAG_ID_LEN + TOTAL_LENGTH_LEN + PROTOCOL_LEN) lt.len with
    | none => rw [hs] at hlabel; cases hlabel
    | some bs => rw [hs] at hlabel; exact ⟨bs, hlabel⟩
  obtain ⟨bs, hn⟩ := hn
  split
  · exact .inr (.of_fail rfl (fun _ h => by cases h))
  rename_i cur last' hr
  split
  · exact .inl rfl
  · exact .inr (.of_fail rfl (fun _ h => by cases h))
  · exact .inr (.of_fail rfl (fun _ h => by cases h))
  split
  · exact .inl rfl
  split
  · exact .inr (.of_fail rfl (fun _ h => by cases h))
  split
  · exact .inl rfl
  · exact .inr (.of_fail rfl (fun _ h => by cases h))
  rename_i ctx st m1 hnf
  have hctx := Mem.newFrag_ctx hnf
  split
  · exact .inr (.of_fail (giveBack_last ..) (fun x => giveBack_res_ne_ok _ _ _ _ _ x))
  split
  · exact .inl rfl
  split
  · refine .inr (.of_resolve hn hr (.inr ⟨rfl, ?_⟩))
    intro x hx
    cases hx
    simp only [DecStatus.label?, hctx]
  · refine .inr (.of_resolve hn hr (.inr ⟨rfl, ?_⟩))
    intro x hx
    cases hx
  · exact .inl rfl

theorem decapInter_seen (ds : Dec) (buf : Bytes) (pktLen gseLen : Nat) :
    (decapInter ds buf pktLen gseLen).res = .panic ∨
    SeenOut ds .cont (decapInter ds buf pktLen gseLen) := by
  unfold decapInter SeenOut
  simp only []
  repeat' split
  all_goals first
    | exact .inl rfl
    | exact .inr (.inr rfl)
    | exact .inr (.inr (giveBack_last ..))
    | exact .inr (.inl ⟨rfl, fun _ h => by cases h⟩)

theorem decapEnd_seen (crc : CrcFn) (ds : Dec) (buf : Bytes) (pktLen gseLen : Nat) :
    (decapEnd crc ds buf pktLen gseLen).res = .panic ∨
    SeenOut ds .cont (decapEnd crc ds buf pktLen gseLen) := by
  unfold decapEnd SeenOut
  simp only []
  repeat' split
  all_goals first
    | exact .inl rfl
    | exact .inr (.inr rfl)
    | exact .inr (.inr (giveBack_last ..))
    | exact .inr (.inl ⟨rfl, fun _ h => by cases h⟩)

/-- **One `decap` call and the label memory**, for every buffer and every state: unless the call
panics (excluded under `Dec.Inv` by C05), the new label memory and the label reported are
determined by what the buffer shows (`seen`) and the old label memory. -/
theorem decap_seen (crc : CrcFn) (mgr : MgrFn) (ds : Dec) (buf : Bytes) :
    (decap crc mgr ds buf).res = .panic ∨ SeenOut ds (seen buf) (decap crc mgr ds buf) := by
  cases h16 : get16 buf 0 with
  | none =>
    have hs : seen buf = .bad := by simp only [seen, h16]
    rw [hs]
    unfold decap
    simp only [h16]
    split
    · exact .inr (.of_fail rfl (fun _ h => by cases h))
    · exact .inl rfl
  | some w =>
    have hlen := get16_some_le h16
    unfold decap
    simp only [h16]
    rw [if_neg (by gse_omega)]
    cases hr : readHeader w with
    | panic => exact .inl rfl
    | err e => exact .inl rfl
    | ok r =>
      cases r with
      | none =>
        have hs : seen buf = .bad := by simp only [seen, h16, hr]
        rw [hs]
        exact .inr ⟨rfl, fun x hx => by cases hx; rfl⟩
      | some t =>
        obtain ⟨gseLen, k, lt⟩ := t
        simp only []
        by_cases hl : buf.length < gseLen + FIXED_HEADER_LEN
        · have hs : seen buf = .bad := by simp only [seen, h16, hr, if_pos hl]
          rw [hs, if_pos hl]
          exact .inr (.of_fail rfl (fun _ h => by cases h))
        · rw [if_neg hl]
          cases k
          · have hs : seen buf = if gseLen < lt.len + PROTOCOL_LEN then .bad
                else seenStart buf (FIXED_HEADER_LEN + PROTOCOL_LEN) lt := by
              simp only [seen, h16, hr, if_neg hl]
            rw [hs]
            exact decapComplete_seen mgr ds buf lt _ gseLen
          · have hs : seen buf = if gseLen < lt.len + PROTOCOL_LEN + FRAG_ID_LEN + TOTAL_LENGTH_LEN
                then .bad
                else seenStart buf (FIXED_HEADER_LEN + FRAG_ID_LEN + TOTAL_LENGTH_LEN + PROTOCOL_LEN)
                  lt := by
              simp only [seen, h16, hr, if_neg hl]
            rw [hs]
            exact decapFirst_seen mgr ds buf lt _ gseLen
          · have hs : seen buf = .cont := by simp only [seen, h16, hr, if_neg hl]
            rw [hs]
            exact decapInter_seen ds buf _ gseLen
          · have hs : seen buf = .cont := by simp only [seen, h16, hr, if_neg hl]
            rw [hs]
            exact decapEnd_seen crc ds buf _ gseLen

/-- under the invariant there is no panic -/
theorem decap_seen_inv (crc : CrcFn) (mgr : MgrFn) (ds : Dec) (buf : Bytes) (h : ds.Inv) :
    SeenOut ds (seen buf) (decap crc mgr ds buf) := by
  rcases decap_seen crc mgr ds buf with hp | hs
  · obtain ⟨_, hg, -⟩ := decap_good crc mgr ds buf ((Dec.inv_iff ds).mp h)
    exact absurd hp hg.noPanic
  · exact hs

/-- an `addr` is a non-zero 3- or 6-byte label -/
theorem seenOfLabel_addr {l l' : Label} (h : seenOfLabel l = .addr l') : l' = l ∧ l.isAddr = true := by
  cases l <;> simp [seenOfLabel, Label.isAddr] at h ⊢ <;> exact h.symm

theorem seenStart_addr {buf : Bytes} {off : Nat} {lt : LabelType} {l : Label}
    (h : seenStart buf off lt = .addr l) : l.isAddr = true ∧ l ≠ zeroLabel := by
  unfold seenStart at h
  split at h
  · cases h
  · split at h
    · cases h
    · rename_i l0 _ hz
      obtain ⟨rfl, ha⟩ := seenOfLabel_addr h
      exact ⟨ha, hz⟩

theorem seen_addr {buf : Bytes} {l : Label} (h : seen buf = .addr l) :
    l.isAddr = true ∧ l ≠ zeroLabel := by
  unfold seen at h
  repeat' split at h
  all_goals first
    | cases h
    | exact seenStart_addr h

/-! ### The two error variants that need a broadcast / re-use label in the memory -/

/-- `LabelBroadcastSaved` or `LabelReUseSaved` -/
def DecErr.isSaved : DecErr → Bool
  | .labelBroadcastSaved => true
  | .labelReUseSaved => true
  | _ => false

theorem resolveLabel_bad_saved {lt : LabelType} {label : Label} {last : Option Label} {e : DecErr}
    (h : resolveLabel lt label last = .bad e) (he : e.isSaved = true) :
    last = some .broadcast ∨ last = some .reuse := by
  unfold resolveLabel at h
  split at h
  · split at h <;> cases h
    · exact .inl rfl
    · exact .inr rfl
    · cases he
  · cases h
  · cases h

theorem giveBack_err_saved {m : Mem} {last : Option Label} {s : Storage} {e e' : DecErr} {n : Nat}
    (h : (giveBack m last s e n).res = .err e') (he : e'.isSaved = true) : e' = e := by
  unfold giveBack at h
  split at h
  · cases h; rfl
  · cases h; cases he
  · cases h

theorem decapComplete_err_saved {mgr : MgrFn} {ds : Dec} {buf : Bytes} {lt : LabelType}
    {pktLen gseLen : Nat} {e : DecErr}
    (h : (decapComplete mgr ds buf lt pktLen gseLen).res = .err e) (he : e.isSaved = true) :
    ds.last = some .broadcast ∨ ds.last = some .reuse := by
  revert h
  unfold decapComplete
  simp only []
  repeat' split
  all_goals intro h
  all_goals first
    | (cases h <;> cases he)
    | (have := giveBack_err_saved h he; subst this; cases he)
    | (have := giveBack_err_saved h he; subst this; exact resolveLabel_bad_saved ‹_› he)

theorem decapFirst_err_saved {mgr : MgrFn} {ds : Dec} {buf : Bytes} {lt : LabelType}
    {pktLen gseLen : Nat} {e : DecErr}
    (h : (decapFirst mgr ds buf lt pktLen gseLen).res = .err e) (he : e.isSaved = true) :
    ds.last = some .broadcast ∨ ds.last = some .reuse := by
  revert h
  unfold decapFirst
  simp only []
  repeat' split
  all_goals intro h
  all_goals first
    | (cases h <;> cases he)
    | (cases h <;> exact resolveLabel_bad_saved ‹_› he)
    | (have := giveBack_err_saved h he; subst this; cases he)

theorem decapInter_err_saved {ds : Dec} {buf : Bytes} {pktLen gseLen : Nat} {e : DecErr}
    (h : (decapInter ds buf pktLen gseLen).res = .err e) (he : e.isSaved = true) : False := by
  revert h
  unfold decapInter
  simp only []
  repeat' split
  all_goals intro h
  all_goals first
    | (cases h <;> cases he)
    | (have := giveBack_err_saved h he; subst this; cases he)

theorem decapEnd_err_saved {crc : CrcFn} {ds : Dec} {buf : Bytes} {pktLen gseLen : Nat} {e : DecErr}
    (h : (decapEnd crc ds buf pktLen gseLen).res = .err e) (he : e.isSaved = true) : False := by
  revert h
  unfold decapEnd
  simp only []
  repeat' split
  all_goals intro h
  all_goals first
    | (cases h <;> cases he)
    | (have := giveBack_err_saved h he; subst this; cases he)

/-- `decap` reports `LabelBroadcastSaved` / `LabelReUseSaved` only when the label memory holds a
broadcast / re-use label -/
theorem decap_err_saved {crc : CrcFn} {mgr : MgrFn} {ds : Dec} {buf : Bytes} {e : DecErr}
    (h : (decap crc mgr ds buf).res = .err e) (he : e.isSaved = true) :
    ds.last = some .broadcast ∨ ds.last = some .reuse := by
  revert h
  unfold decap
  simp only []
  repeat' split
  all_goals intro h
  all_goals first
    | (cases h <;> cases he)
    | exact decapComplete_err_saved h he
    | exact decapFirst_err_saved h he
    | exact (decapInter_err_saved h he).elim
    | exact (decapEnd_err_saved h he).elim

/-! ## 2. What the sender's packets show -/

theorem seen_complete_shape (lbl : Label) (g : Nat) (w tail : Bytes) (hw : w.length = PROTOCOL_LEN)
    (hg : g ≤ GSE_LEN_MAX) (hlen : PROTOCOL_LEN + lbl.len + tail.length = g) (hz : lbl ≠ zeroLabel) :
    seen (be16 (genHeader .complete lbl.type g) ++ w ++ lbl.bytes ++ tail) = seenOfLabel lbl := by
  have h16 : get16 (be16 (genHeader .complete lbl.type g) ++ w ++ lbl.bytes ++ tail) 0
      = some (genHeader .complete lbl.type g) := by
    rw [List.append_assoc, List.append_assoc, get16_be16, Nat.mod_eq_of_lt (genHeader_lt ..)]
  have hr := readHeader_genHeader .complete lbl.type g (by gse_omega) (by simp)
  have hL : (be16 (genHeader .complete lbl.type g) ++ w ++ lbl.bytes ++ tail).length
      = g + FIXED_HEADER_LEN := by
    simp only [List.length_append, be16_length, Label.bytes_length, hw]
    gse_omega
  have hsl : slice (be16 (genHeader .complete lbl.type g) ++ w ++ lbl.bytes ++ tail)
      (FIXED_HEADER_LEN + PROTOCOL_LEN) lbl.type.len = some lbl.bytes :=
    slice_at (a := be16 (genHeader .complete lbl.type g) ++ w) (s := lbl.bytes) (c := tail) rfl
      (by simp [hw]) (by rw [Label.bytes_length, Label.len_eq_type_len])
  have hll := lbl.len_eq_type_len
  generalize be16 (genHeader .complete lbl.type g) ++ w ++ lbl.bytes ++ tail = B at *
  simp only [seen, h16, hr]
  rw [if_neg (by omega), if_neg (by gse_omega)]
  simp only [seenStart, hsl, Option.bind_some, Label.new_type_bytes, if_neg hz]

theorem seen_first_shape (lbl : Label) (g : Nat) (w tail : Bytes)
    (hw : w.length = FRAG_ID_LEN + TOTAL_LENGTH_LEN + PROTOCOL_LEN)
    (hg : g ≤ GSE_LEN_MAX)
    (hlen : FRAG_ID_LEN + TOTAL_LENGTH_LEN + PROTOCOL_LEN + lbl.len + tail.length = g)
    (hz : lbl ≠ zeroLabel) :
    seen (be16 (genHeader .first lbl.type g) ++ w ++ lbl.bytes ++ tail) = seenOfLabel lbl := by
  have h16 : get16 (be16 (genHeader .first lbl.type g) ++ w ++ lbl.bytes ++ tail) 0
      = some (genHeader .first lbl.type g) := by
    rw [List.append_assoc, List.append_assoc, get16_be16, Nat.mod_eq_of_lt (genHeader_lt ..)]
  have hr := readHeader_genHeader .first lbl.type g (by gse_omega) (by simp)
  have hL : (be16 (genHeader .first lbl.type g) ++ w ++ lbl.bytes ++ tail).length
      = g + FIXED_HEADER_LEN := by
    simp only [List.length_append, be16_length, Label.bytes_length, hw]
    gse_omega
  have hsl : slice (be16 (genHeader .first lbl.type g) ++ w ++ lbl.bytes ++ tail)
      (FIXED_HEADER_LEN + FRAG_ID_LEN + TOTAL_LENGTH_LEN + PROTOCOL_LEN) lbl.type.len
      = some lbl.bytes :=
    slice_at (a := be16 (genHeader .first lbl.type g) ++ w) (s := lbl.bytes) (c := tail) rfl
      (by simp [hw]) (by rw [Label.bytes_length, Label.len_eq_type_len])
  have hll := lbl.len_eq_type_len
  generalize be16 (genHeader .first lbl.type g) ++ w ++ lbl.bytes ++ tail = B at *
  simp only [seen, h16, hr]
  rw [if_neg (by omega), if_neg (by gse_omega)]
  simp only [seenStart, hsl, Option.bind_some, Label.new_type_bytes, if_neg hz]

/-- intermediate and end packets never show a label -/
theorem seen_cont_shape (k : PktType) (hk : k = .inter ∨ k = .end_) (g : Nat) (tail : Bytes)
    (hg : g ≤ GSE_LEN_MAX) :
    seen (be16 (genHeader k .reuse g) ++ tail) = .cont ∨
    seen (be16 (genHeader k .reuse g) ++ tail) = .bad := by
  have h16 : get16 (be16 (genHeader k .reuse g) ++ tail) 0 = some (genHeader k .reuse g) := by
    rw [get16_be16, Nat.mod_eq_of_lt (genHeader_lt ..)]
  have hr := readHeader_genHeader_reuse k g (by gse_omega)
  simp only [seen, h16, hr]
  split
  · exact .inr rfl
  · rcases hk with rfl | rfl <;> exact .inl rfl

/-- the packet a successful `encap` reports shows exactly the label `check_label_re_use` chose -/
theorem encap_seen (crc : CrcFn) (es : Enc) (pdu : Bytes) (fid pt : Nat) (label : Label)
    (buf : Bytes) {st : EncStatus} (h : (encap crc es pdu fid pt label buf).res = .ok st) :
    seen ((encap crc es pdu fid pt label buf).buf.take st.wireLen)
      = seenOfLabel (emittedLabel es label) := by
  have hc := encap_cases crc es pdu fid pt label buf
  dsimp only at hc
  unfold emittedLabel
  rcases hc with ⟨_, ho⟩ | ⟨_, _, ho⟩ | ⟨hz, _, hf, ho⟩ | ⟨_, _, _, _, ho⟩ |
    ⟨_, _, _, _, _, ho⟩ | ⟨hz, _, hf, hb, ht, hn, ho⟩
  all_goals rw [ho] at h ⊢
  all_goals simp only [Res.ok.injEq, reduceCtorEq] at h
  · subst h
    have hz' : (checkLabelReUse es label).1 ≠ zeroLabel := written_ne_zero hz
    generalize (checkLabelReUse es label).1 = lbl at *
    have hL := completePkt_length lbl pt pdu
    simp only [EncStatus.wireLen]
    rw [show be16 (genHeader .complete lbl.type (pdu.length + lbl.len + PROTOCOL_LEN)) ++ be16 pt
        ++ lbl.bytes ++ pdu = completePkt lbl pt pdu from rfl, List.take_left' hL]
    exact seen_complete_shape lbl _ (be16 pt) pdu rfl hf.2 (by omega) hz'
  · subst h
    have hz' : (checkLabelReUse es label).1 ≠ zeroLabel := written_ne_zero hz
    generalize (checkLabelReUse es label).1 = lbl at *
    generalize hn' : firstPayloadLen lbl.len buf.length = n at *
    have hnl : (pdu.take n).length = n := by rw [List.length_take]; omega
    have hn4 : n ≤ GSE_LEN_MAX - (FRAG_ID_LEN + TOTAL_LENGTH_LEN + PROTOCOL_LEN + lbl.len) := by
      rw [← hn']; exact Nat.min_le_right _ _
    have hl6 := lbl.len_le_six
    simp only [EncStatus.wireLen]
    have hL : (be16 (genHeader .first lbl.type
          (FRAG_ID_LEN + TOTAL_LENGTH_LEN + PROTOCOL_LEN + lbl.len + n))
        ++ [u8 fid] ++ be16 (pdu.length + PROTOCOL_LEN + lbl.len) ++ be16 pt ++ lbl.bytes
        ++ pdu.take n).length = FIRST_FRAG_LEN + lbl.len + n := by
      simp only [List.length_append, be16_length, Label.bytes_length, List.length_cons,
        List.length_nil, hnl, FIRST_FRAG_LEN]
    rw [List.take_left' hL]
    have := seen_first_shape lbl
      (FRAG_ID_LEN + TOTAL_LENGTH_LEN + PROTOCOL_LEN + lbl.len + n)
      ([u8 fid] ++ be16 (pdu.length + PROTOCOL_LEN + lbl.len) ++ be16 pt) (pdu.take n)
      (by simp) (by gse_omega) (by rw [hnl]) hz'
    simpa only [List.append_assoc] using this

/-- the part of the type invariant of `Extension` needed here: the variant of `ExtensionData`
fixes the data length (`Ext.WF` of Lemmas/Ext.lean implies it: `Ext.WF.len_eq`) -/
def Ext.LenOk (e : Ext) : Prop := e.len = PROTOCOL_LEN + e.data.length

/-- the same for `encap_ext` (extensions well formed, as the Rust type guarantees) -/
theorem encapExt_seen (crc : CrcFn) (es : Enc) (pdu : Bytes) (fid pt : Nat) (label : Label)
    (buf : Bytes) (exts : List Ext) (hwf : ∀ e ∈ exts, e.LenOk) {st : EncStatus}
    (h : (encapExt crc es pdu fid pt label buf exts).res = .ok st) :
    seen ((encapExt crc es pdu fid pt label buf exts).buf.take st.wireLen)
      = seenOfLabel (emittedLabel es label) := by
  have hc := encapExt_cases crc es pdu fid pt label buf exts hwf
  dsimp only at hc
  unfold emittedLabel
  rcases hc with ⟨_, ho⟩ | ⟨lastExt, hlast, ⟨_, ho⟩ | ⟨_, ⟨_, ho⟩ | ⟨_, ⟨_, ho⟩ | ⟨hz,
    ⟨hf, ho⟩ | ⟨_, _, ho⟩ | ⟨_, _, _, ho⟩ | ⟨hf, hb, ht, hn, ho⟩⟩⟩⟩⟩
  all_goals rw [ho] at h ⊢
  all_goals simp only [Res.ok.injEq, reduceCtorEq] at h
  all_goals
    have hne : exts ≠ [] := by rintro rfl; cases hlast
    have hz' : (checkLabelReUse es label).1 ≠ zeroLabel := written_ne_zero hz
    generalize (checkLabelReUse es label).1 = lbl at *
    have hml := extMiddle_length pt lbl hne hwf
    generalize hX : extChain exts ++ (if pt < MAX_MANDATORY_VAL_PTYPE then [] else be16 pt) = X
    have hmid : extMiddle pt lbl exts = be16 (extFirstId exts) ++ lbl.bytes ++ X := by
      rw [← hX]; simp only [extMiddle, List.append_assoc]
    have hXl : X.length = extLen pt exts := by
      rw [hmid] at hml
      simp only [List.length_append, be16_length, Label.bytes_length] at hml
      gse_omega
    rw [hmid]
    generalize extLen pt exts = x at *
    subst h
    simp only [EncStatus.wireLen]
  · have hL : (be16 (genHeader .complete lbl.type (pdu.length + lbl.len + PROTOCOL_LEN + x))
        ++ (be16 (extFirstId exts) ++ lbl.bytes ++ X) ++ pdu).length
        = pdu.length + lbl.len + PROTOCOL_LEN + x + FIXED_HEADER_LEN := by
      simp only [List.length_append, be16_length, Label.bytes_length, hXl]
      gse_omega
    rw [List.take_left' hL]
    have := seen_complete_shape lbl (pdu.length + lbl.len + PROTOCOL_LEN + x)
      (be16 (extFirstId exts)) (X ++ pdu) rfl hf.2
      (by simp only [List.length_append, hXl]; omega) hz'
    simpa only [List.append_assoc] using this
  · generalize hn' : firstPayloadLen (lbl.len + x) buf.length = n at *
    have hnl : (pdu.take n).length = n := by rw [List.length_take]; omega
    have hn4 : n ≤ GSE_LEN_MAX - (FRAG_ID_LEN + TOTAL_LENGTH_LEN + PROTOCOL_LEN + (lbl.len + x)) := by
      rw [← hn']; exact Nat.min_le_right _ _
    have hL : (be16 (genHeader .first lbl.type
          (FRAG_ID_LEN + TOTAL_LENGTH_LEN + PROTOCOL_LEN + lbl.len + x + n))
        ++ [u8 fid] ++ be16 (pdu.length + PROTOCOL_LEN + lbl.len)
        ++ (be16 (extFirstId exts) ++ lbl.bytes ++ X) ++ pdu.take n).length
        = FIRST_FRAG_LEN + lbl.len + x + n := by
      simp only [List.length_append, be16_length, Label.bytes_length, List.length_cons,
        List.length_nil, hnl, hXl, FIRST_FRAG_LEN]
      omega
    rw [List.take_left' hL]
    have := seen_first_shape lbl
      (FRAG_ID_LEN + TOTAL_LENGTH_LEN + PROTOCOL_LEN + lbl.len + x + n)
      ([u8 fid] ++ be16 (pdu.length + PROTOCOL_LEN + lbl.len) ++ be16 (extFirstId exts))
      (X ++ pdu.take n) (by simp) (by gse_omega)
      (by simp only [List.length_append, hXl, hnl]; omega) hz'
    simpa only [List.append_assoc] using this

/-- a packet produced by `encap_frag` never shows a label -/
theorem encapFrag_seen (pdu : Bytes) (ctx : FragCtx) (buf : Bytes) {st : EncStatus}
    (h : (encapFrag pdu ctx buf).1 = .ok st) :
    seen ((encapFrag pdu ctx buf).2.take st.wireLen) = .cont ∨
    seen ((encapFrag pdu ctx buf).2.take st.wireLen) = .bad := by
  have hc := encapFrag_cases pdu ctx buf
  dsimp only at hc
  rcases hc with ⟨_, ho⟩ | ⟨_, hf, ho⟩ | ⟨_, _, _, _, _, ho, _⟩ | ⟨_, _, _, ho⟩
  all_goals rw [ho] at h ⊢
  all_goals simp only [Res.ok.injEq, reduceCtorEq] at h
  · subst h
    simp only [EncStatus.wireLen]
    rw [List.append_assoc, List.append_assoc, List.append_assoc, List.take_append]
    rw [List.take_of_length_le (by rw [be16_length]; gse_omega)]
    exact seen_cont_shape .end_ (.inr rfl) _ _ hf.2
  · subst h
    simp only [EncStatus.wireLen]
    rw [List.append_assoc, List.append_assoc, List.take_append]
    rw [List.take_of_length_le (by rw [be16_length]; gse_omega)]
    refine seen_cont_shape .inter (.inl rfl) _ _ ?_
    have : interPayloadLen (pdu.length - ctx.pos) buf.length ≤ GSE_LEN_MAX - FRAG_ID_LEN :=
      Nat.le_trans (Nat.min_le_left _ _) (Nat.min_le_right _ _)
    gse_omega

/-! ## 3. Sender and receiver together -/

/-- an encapsulator and the decapsulator fed with its output -/
structure Sys where
  es : Enc
  ds : Dec
  deriving DecidableEq, Repr, Inhabited

/-- One step of the joint system: an encapsulation call (any arguments) whose packet — if the call
succeeded — is handed to `decap`; `encap_frag` likewise; the sender's configuration calls; resets
of the label memory on both sides (a frame boundary) or on one side only; and the receiver's
`provision_storage`. -/
inductive JOp where
  | send (pdu : Bytes) (fid pt : Nat) (label : Label) (buf : Bytes)
  | sendExt (pdu : Bytes) (fid pt : Nat) (label : Label) (buf : Bytes) (exts : List Ext)
  | frag (pdu : Bytes) (ctx : FragCtx) (buf : Bytes)
  | resetBoth
  | resetTx
  | resetRx
  | disable
  | enable
  | enableMax (n : Nat)
  | provision (s : Storage)
  deriving DecidableEq, Repr, Inhabited

/-- the extensions passed satisfy the invariant of their Rust type -/
def JOp.WF : JOp → Prop
  | .sendExt _ _ _ _ _ exts => ∀ e ∈ exts, e.LenOk
  | _ => True

instance Ext.instDecidableLenOk (e : Ext) : Decidable e.LenOk := by unfold Ext.LenOk; infer_instance

instance JOp.instDecidableWF (op : JOp) : Decidable op.WF := by cases op <;> unfold JOp.WF <;> infer_instance

/-- feed the first `st.wireLen` bytes of `buf` (the packet the sender reported) to `decap` -/
def feed (crc : CrcFn) (mgr : MgrFn) (es' : Enc) (ds : Dec) (r : Res EncErr EncStatus) (buf : Bytes) :
    Sys × Option (Res DecErr DecStatus) :=
  match r with
  | .ok st =>
    let d := decap crc mgr ds (buf.take st.wireLen)
    (⟨es', d.st⟩, some d.res)
  | _ => (⟨es', ds⟩, none)

/-- new state and the receiver's result (`none`: nothing was fed) -/
def jstep (crc : CrcFn) (mgr : MgrFn) (sys : Sys) : JOp → Sys × Option (Res DecErr DecStatus)
  | .send pdu fid pt label buf =>
    let o := encap crc sys.es pdu fid pt label buf
    feed crc mgr o.st sys.ds o.res o.buf
  | .sendExt pdu fid pt label buf exts =>
    let o := encapExt crc sys.es pdu fid pt label buf exts
    feed crc mgr o.st sys.ds o.res o.buf
  | .frag pdu ctx buf =>
    let o := encapFrag pdu ctx buf
    feed crc mgr sys.es sys.ds o.1 o.2
  | .resetBoth => (⟨sys.es.reset, ⟨sys.ds.mem, none⟩⟩, none)
  | .resetTx => (⟨sys.es.reset, sys.ds⟩, none)
  | .resetRx => (⟨sys.es, ⟨sys.ds.mem, none⟩⟩, none)
  | .disable => (⟨sys.es.disable, sys.ds⟩, none)
  | .enable => (⟨sys.es.enable, sys.ds⟩, none)
  | .enableMax n => (⟨sys.es.enableMax n, sys.ds⟩, none)
  | .provision s => (⟨sys.es, ⟨(sys.ds.mem.provision s).2, sys.ds.last⟩⟩, none)

/-- state after a list of operations -/
def jrun (crc : CrcFn) (mgr : MgrFn) (sys : Sys) (ops : List JOp) : Sys :=
  ops.foldl (fun s op => (jstep crc mgr s op).1) sys

/-- **The invariant.**  Whenever the sender would substitute a re-use marker for `l`
(`es.last = some l`), the receiver remembers exactly `l` or nothing (it may have forgotten after
rejecting a packet, then the substituted packet is refused with `NoLabelSaved`); while re-use is
disabled the sender remembers nothing; both memories only ever hold 3- or 6-byte labels; the
receiver's memory invariant of C05. -/
structure LabelSync (sys : Sys) : Prop where
  sync : ∀ l, sys.es.last = some l → sys.ds.last = some l ∨ sys.ds.last = none
  off : sys.es.reUse = false → sys.es.last = none
  txAddr : ∀ l, sys.es.last = some l → l.isAddr = true
  rxAddr : ∀ l, sys.ds.last = some l → l.isAddr = true
  inv : sys.ds.Inv

theorem LabelSync.init (n sz : Nat) : LabelSync ⟨Enc.new, Dec.new n sz⟩ :=
  ⟨fun _ h => (by cases h), fun h => (by cases h), fun _ h => (by cases h), fun _ h => (by cases h),
    Dec.inv_new n sz⟩

/-- a start/complete packet with label type re-use, or an intermediate/end packet, keeps the
receiver's memory or clears it -/
theorem SeenOut.keep {ds : Dec} {d : DecOut} {s : Seen} (hs : s = .reuse ∨ s = .cont ∨ s = .bad)
    (h : SeenOut ds s d) : d.st.last = ds.last ∨ d.st.last = none := by
  rcases hs with rfl | rfl | rfl <;> simp only [SeenOut] at h
  · rcases h with h | ⟨l, h1, h2, _⟩
    · exact .inr h.1
    · exact .inl (h2.trans h1.symm)
  · rcases h with h | h
    · exact .inr h.1
    · exact .inl h
  · exact .inr h.1

theorem sync_keep {es : Enc} {ds : Dec} {d : DecOut}
    (hsync : ∀ l, es.last = some l → ds.last = some l ∨ ds.last = none)
    (h : d.st.last = ds.last ∨ d.st.last = none) :
    ∀ l, es.last = some l → d.st.last = some l ∨ d.st.last = none := by
  intro l hl
  rcases h with h | h
  · rw [h]; exact hsync l hl
  · exact .inr h

/-- the receiver's memory only ever holds 3- or 6-byte labels -/
theorem SeenOut.last_addr {ds : Dec} {d : DecOut} {buf : Bytes} (h : SeenOut ds (seen buf) d)
    (ha : ∀ l, ds.last = some l → l.isAddr = true) : ∀ l, d.st.last = some l → l.isAddr = true := by
  intro l hl
  cases hs : seen buf with
  | addr l' =>
    rw [hs] at h
    rcases h with h | h
    · rw [h.1] at hl; cases hl
    · rw [h.1] at hl; cases hl; exact (seen_addr hs).1
  | bcast => rw [hs] at h; rw [h.1] at hl; cases hl
  | bad => rw [hs] at h; rw [h.1] at hl; cases hl
  | reuse =>
    rw [hs] at h
    rcases h.keep (.inl rfl) with h | h
    · rw [h] at hl; exact ha l hl
    · rw [h] at hl; cases hl
  | cont =>
    rw [hs] at h
    rcases h.keep (.inr (.inl rfl)) with h | h
    · rw [h] at hl; exact ha l hl
    · rw [h] at hl; cases hl

theorem newLast_some {old : Option Label} {l x : Label} (h : newLast old l = some x) :
    (x = l ∧ l.isAddr = true) ∨ (l = .reuse ∧ old = some x) := by
  unfold newLast at h
  cases l <;> simp at h
  · exact .inl ⟨h.symm, rfl⟩
  · exact .inl ⟨h.symm, rfl⟩
  · exact .inr ⟨rfl, h⟩

/-- **The key step**: after a successful `encap`/`encap_ext` whose packet the receiver processed,
the sender's new memory is still covered by the receiver's. -/
theorem sync_send {es : Enc} {ds : Dec} {label : Label} {d : DecOut}
    (hsync : ∀ l, es.last = some l → ds.last = some l ∨ ds.last = none)
    (hoff : es.reUse = false → es.last = none)
    (hout : SeenOut ds (seenOfLabel (emittedLabel es label)) d) :
    ∀ l, (checkLabelReUse es label).2.last = some l → d.st.last = some l ∨ d.st.last = none := by
  have hkeep : emittedLabel es label = .reuse →
      ∀ l, es.last = some l → d.st.last = some l ∨ d.st.last = none := by
    intro he
    rw [he] at hout
    exact sync_keep hsync (hout.keep (.inl rfl))
  have hfull : ∀ x, emittedLabel es label = label → newLast es.last label = some x →
      d.st.last = some x ∨ d.st.last = none := by
    intro x he hx
    rcases newLast_some hx with ⟨rfl, ha⟩ | ⟨rfl, hold⟩
    · rw [he] at hout
      cases x <;> simp [Label.isAddr] at ha <;> simp only [seenOfLabel, SeenOut] at hout <;>
        rcases hout with h | h
      · exact .inr h.1
      · exact .inl h.1
      · exact .inr h.1
      · exact .inl h.1
    · exact hkeep he x hold
  unfold emittedLabel at hkeep hfull
  intro l hl
  rcases checkLabelReUse_spec es label with ⟨_, _, _, heq⟩ | ⟨_, _, _, heq⟩ |
    ⟨_, _, _, _, heq⟩ | ⟨_, _, heq⟩ | ⟨hu, heq⟩ <;> rw [heq] at hl hkeep hfull
  · exact hkeep rfl l hl
  · exact hkeep rfl l hl
  · exact hfull l rfl hl
  · exact hfull l rfl hl
  · rw [hoff hu] at hl; cases hl

theorem checkLabelReUse_last_addr {es : Enc} (h : ∀ l, es.last = some l → l.isAddr = true)
    (label : Label) : ∀ l, (checkLabelReUse es label).2.last = some l → l.isAddr = true := by
  intro l hl
  rcases checkLabelReUse_spec es label with ⟨_, _, _, heq⟩ | ⟨_, _, _, heq⟩ |
    ⟨_, _, _, _, heq⟩ | ⟨_, _, heq⟩ | ⟨hu, heq⟩ <;> rw [heq] at hl
  · exact h l hl
  · exact h l hl
  · rcases newLast_some hl with ⟨rfl, ha⟩ | ⟨_, hold⟩
    · exact ha
    · exact h l hold
  · rcases newLast_some hl with ⟨rfl, ha⟩ | ⟨_, hold⟩
    · exact ha
    · exact h l hold
  · exact h l hl

theorem checkLabelReUse_off {es : Enc} (h : es.reUse = false → es.last = none) (label : Label) :
    (checkLabelReUse es label).2.reUse = false → (checkLabelReUse es label).2.last = none := by
  intro hu
  rw [(checkLabelReUse_fields es label).1] at hu
  rcases checkLabelReUse_spec es label with ⟨hu', _⟩ | ⟨hu', _⟩ | ⟨hu', _⟩ | ⟨hu', _⟩ | ⟨_, heq⟩
  · rw [hu] at hu'; cases hu'
  · rw [hu] at hu'; cases hu'
  · rw [hu] at hu'; cases hu'
  · rw [hu] at hu'; cases hu'
  · rw [heq]; exact h hu

/-- preservation through `feed` for a start/complete packet of the sender -/
theorem LabelSync.feed_send {crc : CrcFn} {mgr : MgrFn} {sys : Sys} (h : LabelSync sys)
    {label : Label} {r : Res EncErr EncStatus} {buf : Bytes} {es' : Enc}
    (herr : ∀ e, r = .err e → es' = sys.es) (hpanic : r ≠ .panic)
    (hok : ∀ st, r = .ok st → es' = (checkLabelReUse sys.es label).2 ∧
      seen (buf.take st.wireLen) = seenOfLabel (emittedLabel sys.es label)) :
    LabelSync (feed crc mgr es' sys.ds r buf).1 := by
  cases r with
  | panic => exact absurd rfl hpanic
  | err e =>
    rw [herr e rfl]
    exact h
  | ok st =>
    obtain ⟨rfl, hseen⟩ := hok st rfl
    have hout := decap_seen_inv crc mgr sys.ds (buf.take st.wireLen) h.inv
    simp only [feed]
    refine ⟨?_, checkLabelReUse_off h.off label, checkLabelReUse_last_addr h.txAddr label,
      hout.last_addr h.rxAddr, Dec.inv_step crc mgr h.inv (.decap _)⟩
    rw [hseen] at hout
    exact sync_send h.sync h.off hout

/-- **`LabelSync` is preserved by every step** (any arguments; failing calls included). -/
theorem LabelSync.step (crc : CrcFn) (mgr : MgrFn) {sys : Sys} (h : LabelSync sys) (op : JOp)
    (hwf : op.WF) : LabelSync (jstep crc mgr sys op).1 := by
  cases op with
  | send pdu fid pt label buf =>
    simp only [jstep]
    refine h.feed_send (label := label) (fun e he => encap_err_state he) ?_ ?_
    · have hc := encap_cases crc sys.es pdu fid pt label buf
      dsimp only at hc
      rcases hc with ⟨_, ho⟩ | ⟨_, _, ho⟩ | ⟨_, _, _, ho⟩ | ⟨_, _, _, _, ho⟩ |
        ⟨_, _, _, _, _, ho⟩ | ⟨_, _, _, _, _, _, ho⟩ <;> rw [ho] <;> simp
    · intro st hst
      exact ⟨encap_ok_state hst, encap_seen crc sys.es pdu fid pt label buf hst⟩
  | sendExt pdu fid pt label buf exts =>
    simp only [jstep]
    refine h.feed_send (label := label) (fun e he => encapExt_err_state he) ?_ ?_
    · have hc := encapExt_cases crc sys.es pdu fid pt label buf exts hwf
      dsimp only at hc
      rcases hc with ⟨_, ho⟩ | ⟨lastExt, hlast, ⟨_, ho⟩ | ⟨_, ⟨_, ho⟩ | ⟨_, ⟨_, ho⟩ | ⟨hz,
        ⟨hf, ho⟩ | ⟨_, _, ho⟩ | ⟨_, _, _, ho⟩ | ⟨hf, hb, ht, hn, ho⟩⟩⟩⟩⟩ <;> rw [ho] <;> simp
    · intro st hst
      exact ⟨encapExt_ok_state hst, encapExt_seen crc sys.es pdu fid pt label buf exts hwf hst⟩
  | frag pdu ctx buf =>
    simp only [jstep]
    cases hr : (encapFrag pdu ctx buf).1 with
    | panic => exact h
    | err e => exact h
    | ok st =>
      have hout := decap_seen_inv crc mgr sys.ds ((encapFrag pdu ctx buf).2.take st.wireLen) h.inv
      simp only [feed]
      refine ⟨?_, h.off, h.txAddr, hout.last_addr h.rxAddr, Dec.inv_step crc mgr h.inv (.decap _)⟩
      refine sync_keep h.sync (hout.keep ?_)
      rcases encapFrag_seen pdu ctx buf hr with hs | hs
      · exact .inr (.inl hs)
      · exact .inr (.inr hs)
  | resetBoth =>
    exact ⟨fun _ hl => (by cases hl), fun _ => rfl, fun _ hl => (by cases hl), fun _ hl => (by cases hl),
      Dec.inv_step crc mgr h.inv .reset⟩
  | resetTx =>
    exact ⟨fun _ hl => (by cases hl), fun _ => rfl, fun _ hl => (by cases hl), h.rxAddr, h.inv⟩
  | resetRx =>
    exact ⟨fun _ _ => .inr rfl, h.off, h.txAddr, fun _ hl => (by cases hl),
      Dec.inv_step crc mgr h.inv .reset⟩
  | disable =>
    exact ⟨fun _ hl => (by cases hl), fun _ => rfl, fun _ hl => (by cases hl), h.rxAddr, h.inv⟩
  | enable =>
    exact ⟨h.sync, fun hu => (by cases hu), h.txAddr, h.rxAddr, h.inv⟩
  | enableMax n =>
    exact ⟨h.sync, fun hu => (by cases hu), h.txAddr, h.rxAddr, h.inv⟩
  | provision s =>
    exact ⟨h.sync, h.off, h.txAddr, h.rxAddr, Dec.inv_step crc mgr h.inv (.provision s)⟩

/-- … hence along every list of operations -/
theorem LabelSync.run (crc : CrcFn) (mgr : MgrFn) {sys : Sys} (h : LabelSync sys) (ops : List JOp)
    (hwf : ∀ op ∈ ops, op.WF) : LabelSync (jrun crc mgr sys ops) := by
  induction ops generalizing sys with
  | nil => exact h
  | cons op ops ih =>
    exact ih (h.step crc mgr op (hwf op (List.mem_cons_self ..)))
      (fun o ho => hwf o (List.mem_cons_of_mem _ ho))

/-! ### Histories of public operations on the receiver -/

/-- the receiver-side ghost: label carried by the nearest preceding start/complete packet of the
frame, computed from the operations alone (buffers fed and resets) -/
def rxOp (last : Option Label) : DecOp → Option Label
  | .decap buf => rxStep last (seen buf)
  | .reset => none
  | .provision _ => last
  | .newPdu => last

def rxLabel (ops : List DecOp) : Option Label := ops.foldl rxOp none

/-- what an accepted packet reports, by what the buffer shows; `known` is the label a re-use packet
resolves to -/
def Reports (known : Option Label) (s : Seen) (x : DecStatus) : Prop :=
  match s with
  | .addr l => x.label? = some l
  | .bcast => x.label? = some .broadcast
  | .reuse => ∃ l, known = some l ∧ x.label? = some l
  | .cont => True
  | .bad => x = .padding

theorem SeenOut.step {ds : Dec} {s : Seen} {o : DecOut} (h : SeenOut ds s o) :
    (o.st.last = none ∨ o.st.last = rxStep ds.last s) ∧
    ∀ x, o.res = .ok x → Reports ds.last s x := by
  cases s <;> simp only [SeenOut] at h <;> simp only [rxStep, Reports]
  · rcases h with h | h
    · exact ⟨.inl h.1, fun x hx => absurd hx (h.2 x)⟩
    · exact ⟨.inr h.1, h.2⟩
  · exact ⟨.inl h.1, h.2⟩
  · rcases h with h | ⟨l, h1, h2, h3⟩
    · exact ⟨.inl h.1, fun x hx => absurd hx (h.2 x)⟩
    · exact ⟨.inr (h2.trans h1.symm), fun x hx => ⟨l, h1, h3 x hx⟩⟩
  · rcases h with h | h
    · exact ⟨.inl h.1, fun _ _ => trivial⟩
    · exact ⟨.inr h, fun _ _ => trivial⟩
  · exact ⟨.inl h.1, h.2⟩

/-- the ghost only matters where the memory is not empty -/
theorem rxStep_mono {last r : Option Label} (h : last = none ∨ last = r) (s : Seen) :
    rxStep last s = none ∨ rxStep last s = rxStep r s := by
  rcases h with rfl | rfl
  · cases s <;> simp [rxStep]
  · exact .inr rfl

/-- the invariant of Part A along a history: memory invariant, memory empty or equal to the ghost,
and only 3- or 6-byte labels in the memory -/
structure RxInv (ds : Dec) (r : Option Label) : Prop where
  inv : ds.Inv
  last : ds.last = none ∨ ds.last = r
  addr : ∀ l, ds.last = some l → l.isAddr = true

theorem RxInv.step (crc : CrcFn) (mgr : MgrFn) {ds : Dec} {r : Option Label} (h : RxInv ds r)
    (op : DecOp) : RxInv (ds.step crc mgr op) (rxOp r op) := by
  refine ⟨Dec.inv_step crc mgr h.inv op, ?_, ?_⟩
  · cases op with
    | provision s => exact h.last
    | newPdu => exact h.last
    | reset => exact .inl rfl
    | decap buf =>
      have hs := (decap_seen_inv crc mgr ds buf h.inv).step.1
      simp only [Dec.step, rxOp]
      rcases hs with hs | hs
      · exact .inl hs
      · rw [hs]; exact rxStep_mono h.last _
  · cases op with
    | provision s => exact h.addr
    | newPdu => exact h.addr
    | reset => intro l hl; cases hl
    | decap buf => exact (decap_seen_inv crc mgr ds buf h.inv).last_addr h.addr

theorem RxInv.run (crc : CrcFn) (mgr : MgrFn) {ds : Dec} {r : Option Label} (h : RxInv ds r)
    (ops : List DecOp) : RxInv (ds.run crc mgr ops) (ops.foldl rxOp r) := by
  induction ops generalizing ds r with
  | nil => exact h
  | cons op ops ih => exact ih (h.step crc mgr op)


/-! ### Attribution -/

/-- what `feed` handed to the receiver -/
theorem feed_snd {crc : CrcFn} {mgr : MgrFn} {es' : Enc} {ds : Dec} {r : Res EncErr EncStatus}
    {buf : Bytes} {y : Res DecErr DecStatus} (h : (feed crc mgr es' ds r buf).2 = some y) :
    ∃ st, r = .ok st ∧ y = (decap crc mgr ds (buf.take st.wireLen)).res := by
  cases r with
  | ok st => simp only [feed, Option.some.injEq] at h; exact ⟨st, rfl, h.symm⟩
  | err e => cases h
  | panic => cases h

theorem feed_ok {crc : CrcFn} {mgr : MgrFn} {es' : Enc} {ds : Dec} {st : EncStatus} {buf : Bytes} :
    feed crc mgr es' ds (.ok st) buf =
      (⟨es', (decap crc mgr ds (buf.take st.wireLen)).st⟩,
       some (decap crc mgr ds (buf.take st.wireLen)).res) := rfl

/-- **Attribution, core**: the label reported for the packet produced for `label` is `label`
itself, or — for an explicitly passed re-use label — the label the receiver remembers. -/
theorem attribution_core {es : Enc} {ds : Dec} {label : Label} {d : DecOut}
    (hsync : ∀ l, es.last = some l → ds.last = some l ∨ ds.last = none)
    (hout : SeenOut ds (seenOfLabel (emittedLabel es label)) d) {x : DecStatus}
    (hx : d.res = .ok x) :
    ∃ got, x.label? = some got ∧ (label ≠ .reuse → got = label) ∧
      (label = .reuse → ds.last = some got) := by
  have hrep := hout.step.2 x hx
  rcases emittedLabel_cases es label with he | he
  · rw [he] at hrep
    cases label with
    | six a b c d e f => exact ⟨_, hrep, fun _ => rfl, fun h => by cases h⟩
    | three a b c => exact ⟨_, hrep, fun _ => rfl, fun h => by cases h⟩
    | broadcast => exact ⟨_, hrep, fun _ => rfl, fun h => by cases h⟩
    | reuse =>
      obtain ⟨l, hl, hx'⟩ := hrep
      exact ⟨l, hx', fun h => absurd rfl h, fun _ => hl⟩
  · rw [he] at hrep
    obtain ⟨l, hl, hx'⟩ := hrep
    refine ⟨l, hx', ?_, fun _ => hl⟩
    intro hne
    have hlast := (emittedLabel_reuse he hne).2.1
    rcases hsync label hlast with h | h
    · rw [h] at hl; cases hl; rfl
    · rw [h] at hl; cases hl

/-! ### Traces (for the examples) -/

/-- the receiver's results along a list of operations -/
def jtrace (crc : CrcFn) (mgr : MgrFn) : Sys → List JOp → List (Option (Res DecErr DecStatus))
  | _, [] => []
  | sys, op :: ops => (jstep crc mgr sys op).2 :: jtrace crc mgr (jstep crc mgr sys op).1 ops

/-- the label reported by a result, `none` when nothing was delivered -/
def resLabel : Option (Res DecErr DecStatus) → Option Label
  | some (.ok x) => x.label?
  | _ => none


/-! ## 4. Storage sizes (for C16): every storage the memory owns can hold `max_pdu_size` bytes -/

/-- `provision_storage` refuses shorter buffers, the other operations move buffers around without
changing their length -/
structure Mem.SzInv (m : Mem) (sz : Nat) : Prop where
  cfg : m.maxPduSize = sz
  free : ∀ s ∈ m.storages, sz ≤ s.data.length
  slots : ∀ c s, some (c, s) ∈ m.frags → sz ≤ s.data.length

theorem Mem.szInv_new (n sz : Nat) : (Mem.new n sz).SzInv sz := by
  refine ⟨rfl, fun s hs => (by cases hs), fun c s hs => ?_⟩
  simp only [Mem.new] at hs
  have := List.eq_of_mem_replicate hs
  cases this

theorem mem_set_none {α : Type} {l : List (Option α)} {i : Nat} {x : α}
    (h : some x ∈ l.set i none) : some x ∈ l := by
  rcases List.mem_or_eq_of_mem_set h with h | h
  · exact h
  · cases h

theorem Mem.SzInv.provision {m : Mem} {sz : Nat} (h : m.SzInv sz) (s : Storage) :
    (m.provision s).2.SzInv sz := by
  unfold Mem.provision
  split
  · exact h
  split
  · exact h
  · rename_i hlen
    refine ⟨h.cfg, fun x hx => ?_, h.slots⟩
    rcases List.mem_cons.mp hx with rfl | hx
    · have := h.cfg; omega
    · exact h.free x hx

theorem Mem.SzInv.newPdu {m m1 : Mem} {sz : Nat} {r : Res MemErr Storage} (h : m.SzInv sz)
    (heq : m.newPdu = (r, m1)) : m1.SzInv sz ∧ ∀ st, r = .ok st → sz ≤ st.data.length := by
  unfold Mem.newPdu at heq
  split at heq
  · cases heq
    exact ⟨h, fun _ hr => by cases hr⟩
  · rename_i s rest hs
    cases heq
    refine ⟨⟨h.cfg, fun x hx => h.free x (by rw [hs]; exact List.mem_cons_of_mem _ hx), h.slots⟩, ?_⟩
    intro st hst
    cases hst
    exact h.free s (by rw [hs]; exact List.mem_cons_self ..)

theorem Mem.SzInv.newFrag {m m1 : Mem} {sz : Nat} {c : Ctx} {r : Res MemErr (Ctx × Storage)}
    (h : m.SzInv sz) (heq : m.newFrag c = (r, m1)) :
    m1.SzInv sz ∧ ∀ c' st, r = .ok (c', st) → sz ≤ st.data.length := by
  unfold Mem.newFrag at heq
  simp only [] at heq
  split at heq
  · cases heq; exact ⟨h, fun _ _ hr => by cases hr⟩
  split at heq
  · cases heq; exact ⟨h, fun _ _ hr => by cases hr⟩
  rename_i slot hslot
  have h1 : ({ m with frags := m.frags.set (c.fragId % m.maxFragId) none } : Mem).SzInv sz :=
    ⟨h.cfg, h.free, fun c' s' hs => h.slots c' s' (mem_set_none hs)⟩
  split at heq
  · split at heq
    · rename_i s m2 hnp
      cases heq
      obtain ⟨h2, h3⟩ := h1.newPdu hnp
      exact ⟨h2, fun c' st hr => by cases hr; exact h3 _ rfl⟩
    · rename_i e m2 hnp
      cases heq
      exact ⟨(h1.newPdu hnp).1, fun _ _ hr => by cases hr⟩
    · rename_i m2 hnp
      cases heq
      exact ⟨(h1.newPdu hnp).1, fun _ _ hr => by cases hr⟩
  · rename_i c0 s0
    cases heq
    refine ⟨h1, fun c' st hr => ?_⟩
    cases hr
    exact h.slots c0 s0 (List.mem_of_getElem? hslot)

theorem Mem.SzInv.takeFrag {m m1 : Mem} {sz : Nat} {fid : Nat} {r : Res MemErr (Ctx × Storage)}
    (h : m.SzInv sz) (heq : m.takeFrag fid = (r, m1)) :
    m1.SzInv sz ∧ ∀ c' st, r = .ok (c', st) → sz ≤ st.data.length := by
  unfold Mem.takeFrag at heq
  simp only [] at heq
  split at heq
  · cases heq; exact ⟨h, fun _ _ hr => by cases hr⟩
  split at heq
  · cases heq; exact ⟨h, fun _ _ hr => by cases hr⟩
  · cases heq; exact ⟨h, fun _ _ hr => by cases hr⟩
  · rename_i c0 s0 hslot
    split at heq
    · cases heq
      refine ⟨⟨h.cfg, h.free, fun c' s' hs => h.slots c' s' (mem_set_none hs)⟩, fun c' st hr => ?_⟩
      cases hr
      exact h.slots c0 s0 (List.mem_of_getElem? hslot)
    · cases heq; exact ⟨h, fun _ _ hr => by cases hr⟩

theorem Mem.SzInv.saveFrag {m m1 : Mem} {sz : Nat} {cs : Ctx × Storage} {r : Res MemErr Unit}
    (h : m.SzInv sz) (hs : sz ≤ cs.2.data.length) (heq : m.saveFrag cs = (r, m1)) :
    m1.SzInv sz := by
  unfold Mem.saveFrag at heq
  simp only [] at heq
  split at heq
  · cases heq; exact h
  split at heq
  · cases heq; exact h
  · cases heq
    refine ⟨h.cfg, h.free, fun c' s' hm => ?_⟩
    rcases List.mem_or_eq_of_mem_set hm with hm | hm
    · exact h.slots c' s' hm
    · cases hm; exact hs
  · cases heq; exact h

theorem Mem.SzInv.giveBack {m1 : Mem} {sz : Nat} (h : m1.SzInv sz) (last : Option Label)
    (s : Storage) (e : DecErr) (n : Nat) : (giveBack m1 last s e n).st.mem.SzInv sz := by
  have := h.provision s
  unfold Gse.giveBack
  generalize m1.provision s = p at this ⊢
  rcases p with ⟨(_ | _ | _), m'⟩ <;> exact this

theorem bind_blit_length {o : Option Bytes} {d data : Bytes} {off : Nat}
    (h : o.bind (blit d off) = some data) : data.length = d.length := by
  cases o with
  | none => cases h
  | some x => exact blit_length h

theorem decapComplete_sz (mgr : MgrFn) (ds : Dec) (buf : Bytes) (lt : LabelType)
    (pktLen gseLen : Nat) {sz : Nat} (h : ds.mem.SzInv sz) :
    (decapComplete mgr ds buf lt pktLen gseLen).st.mem.SzInv sz := by
  unfold decapComplete
  simp only []
  repeat' split
  all_goals first
    | exact h
    | exact (h.newPdu ‹_›).1
    | exact (h.newPdu ‹_›).1.giveBack ..

theorem decapFirst_sz (mgr : MgrFn) (ds : Dec) (buf : Bytes) (lt : LabelType)
    (pktLen gseLen : Nat) {sz : Nat} (h : ds.mem.SzInv sz) :
    (decapFirst mgr ds buf lt pktLen gseLen).st.mem.SzInv sz := by
  unfold decapFirst
  simp only []
  split
  · exact h
  split
  rotate_left
  · exact h
  split
  · exact h
  split
  · exact h
  split
  · exact h
  split
  · exact h
  · exact h
  · exact h
  split
  · exact h
  split
  · exact h
  split
  · exact (h.newFrag ‹_›).1
  · exact (h.newFrag ‹_›).1
  rename_i ctx st m1 hnf
  obtain ⟨h1, h2⟩ := h.newFrag hnf
  split
  · exact h1.giveBack ..
  split
  · exact h1
  rename_i data hb
  have hsz : sz ≤ data.length := by rw [bind_blit_length hb]; exact h2 _ _ rfl
  split
  · exact h1.saveFrag hsz ‹_›
  · exact h1.saveFrag hsz ‹_›
  · exact h1.saveFrag hsz ‹_›

theorem decapInter_sz (ds : Dec) (buf : Bytes) (pktLen gseLen : Nat) {sz : Nat}
    (h : ds.mem.SzInv sz) : (decapInter ds buf pktLen gseLen).st.mem.SzInv sz := by
  unfold decapInter
  simp only []
  split
  · exact h
  split
  · exact h
  split
  · exact (h.takeFrag ‹_›).1
  · exact (h.takeFrag ‹_›).1
  rename_i ctx st m1 htk
  obtain ⟨h1, h2⟩ := h.takeFrag htk
  split
  · exact h1.giveBack ..
  split
  · exact h1
  split
  · exact h1.giveBack ..
  split
  · exact h1
  rename_i data hb
  have hsz : sz ≤ data.length := by rw [bind_blit_length hb]; exact h2 _ _ rfl
  split
  · exact h1.saveFrag hsz ‹_›
  · exact h1.saveFrag hsz ‹_›
  · exact h1.saveFrag hsz ‹_›

theorem decapEnd_sz (crc : CrcFn) (ds : Dec) (buf : Bytes) (pktLen gseLen : Nat) {sz : Nat}
    (h : ds.mem.SzInv sz) : (decapEnd crc ds buf pktLen gseLen).st.mem.SzInv sz := by
  unfold decapEnd
  simp only []
  split
  · exact h
  split
  · exact h
  split
  · exact (h.takeFrag ‹_›).1
  · exact (h.takeFrag ‹_›).1
  rename_i ctx st m1 htk
  obtain ⟨h1, h2⟩ := h.takeFrag htk
  repeat' split
  all_goals first
    | exact h1
    | exact h1.giveBack ..

/-- `decap` keeps every owned storage at least `max_pdu_size` long -/
theorem decap_sz (crc : CrcFn) (mgr : MgrFn) (ds : Dec) (buf : Bytes) {sz : Nat}
    (h : ds.mem.SzInv sz) : (decap crc mgr ds buf).st.mem.SzInv sz := by
  unfold decap
  simp only []
  repeat' split
  all_goals first
    | exact h
    | exact decapComplete_sz mgr ds buf _ _ _ h
    | exact decapFirst_sz mgr ds buf _ _ _ h
    | exact decapInter_sz ds buf _ _ h
    | exact decapEnd_sz crc ds buf _ _ h

theorem Dec.szInv_step (crc : CrcFn) (mgr : MgrFn) {ds : Dec} {sz : Nat} (h : ds.mem.SzInv sz)
    (op : DecOp) : (ds.step crc mgr op).mem.SzInv sz := by
  cases op with
  | provision s => exact h.provision s
  | newPdu => exact (h.newPdu (r := ds.mem.newPdu.1) (m1 := ds.mem.newPdu.2) rfl).1
  | reset => exact h
  | decap buf => exact decap_sz crc mgr ds buf h

theorem Dec.szInv_run (crc : CrcFn) (mgr : MgrFn) {ds : Dec} {sz : Nat} (h : ds.mem.SzInv sz)
    (ops : List DecOp) : (ds.run crc mgr ops).mem.SzInv sz := by
  induction ops generalizing ds with
  | nil => exact h
  | cons op ops ih => exact ih (Dec.szInv_step crc mgr h op)

/-- the configuration never changes -/
theorem Dec.cfg_step (crc : CrcFn) (mgr : MgrFn) {ds : Dec} (h : ds.Inv) (op : DecOp) :
    (ds.step crc mgr op).mem.SameCfg ds.mem := by
  cases op with
  | provision s => exact ds.mem.step_sameCfg (.provision s)
  | newPdu => exact ds.mem.step_sameCfg .newPdu
  | reset => exact .refl _
  | decap buf =>
    obtain ⟨_, hg, -⟩ := decap_good crc mgr ds buf ((Dec.inv_iff ds).mp h)
    exact hg.cfg

theorem Dec.cfg_run (crc : CrcFn) (mgr : MgrFn) {ds : Dec} (h : ds.Inv) (ops : List DecOp) :
    (ds.run crc mgr ops).mem.SameCfg ds.mem := by
  induction ops generalizing ds with
  | nil => exact .refl _
  | cons op ops ih =>
    exact (ih (Dec.inv_step crc mgr h op)).trans (Dec.cfg_step crc mgr h op)

end Gse
