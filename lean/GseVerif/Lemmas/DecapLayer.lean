/-
Receiver-side layer lemmas: what `decap` (Model/Decap.lean) does on a packet given in closed
form, for the four packet kinds *without extension headers* (protocol type ≥ 0x600), followed by
arbitrary further bytes `rest`, for every CRC calculator, extension manager and receiver state.
The memory preconditions are explicit; for fragments the memory operations stay symbolic
(`Mem.newFrag` / `Mem.takeFrag` / `Mem.saveFrag` results on `ds.mem`).

The packets are named (`completePkt`, `firstPkt`, `interPkt`, `endPkt`) and are, by `rfl`, the
byte strings of the closed forms of `encap` / `encapFrag` in Lemmas/EncapLayer.lean.
Core Lean only.
-/
import GseVerif.Lemmas.Bytes
import GseVerif.Lemmas.Header
import GseVerif.Model.Decap

namespace Gse
open Gen

/-! ### Readers at a known position -/

theorem slice_at {b a s c : Bytes} {off len : Nat} (hb : b = a ++ s ++ c) (hoff : off = a.length)
    (hlen : len = s.length) : slice b off len = some s := by
  subst hb hoff hlen; exact slice_mid a s c

theorem get16_at {b a rest : Bytes} {n off : Nat} (hb : b = a ++ be16 n ++ rest)
    (hoff : off = a.length) (hn : n < 65536) : get16 b off = some n := by
  subst hb hoff; rw [get16_mid, Nat.mod_eq_of_lt hn]

theorem get32_at {b a rest : Bytes} {n off : Nat} (hb : b = a ++ be32 n ++ rest)
    (hoff : off = a.length) (hn : n < 2 ^ 32) : get32 b off = some n := by
  subst hb hoff; rw [get32_mid, Nat.mod_eq_of_lt hn]

theorem get8_at {b a rest : Bytes} {n off : Nat} (hb : b = a ++ [u8 n] ++ rest)
    (hoff : off = a.length) (hn : n < 256) : get8 b off = some n := by
  subst hb hoff; rw [get8_mid, Nat.mod_eq_of_lt hn]

/-- a `copy_from_slice` at the start of a buffer -/
theorem blit_zero {b src : Bytes} (h : src.length ≤ b.length) :
    blit b 0 src = some (src ++ b.drop src.length) := by
  rw [blit_of_le (by omega)]; simp

/-! ### The four packets -/

/-- complete packet: header, protocol type, label, PDU -/
def completePkt (lbl : Label) (pt : Nat) (pdu : Bytes) : Bytes :=
  be16 (genHeader .complete lbl.type (pdu.length + lbl.len + PROTOCOL_LEN)) ++ be16 pt
    ++ lbl.bytes ++ pdu

/-- first fragment: header, fragment id, total length, protocol type, label, payload -/
def firstPkt (lbl : Label) (fid tl pt : Nat) (payload : Bytes) : Bytes :=
  be16 (genHeader .first lbl.type
      (FRAG_ID_LEN + TOTAL_LENGTH_LEN + PROTOCOL_LEN + lbl.len + payload.length))
    ++ [u8 fid] ++ be16 tl ++ be16 pt ++ lbl.bytes ++ payload

/-- intermediate fragment: header (label type re-use), fragment id, payload -/
def interPkt (fid : Nat) (payload : Bytes) : Bytes :=
  be16 (genHeader .inter .reuse (FRAG_ID_LEN + payload.length)) ++ [u8 fid] ++ payload

/-- end fragment: header (label type re-use), fragment id, payload, CRC -/
def endPkt (fid : Nat) (payload : Bytes) (c : Nat) : Bytes :=
  be16 (genHeader .end_ .reuse (FRAG_ID_LEN + payload.length + CRC_LEN)) ++ [u8 fid] ++ payload
    ++ be32 c

theorem completePkt_length (lbl : Label) (pt : Nat) (pdu : Bytes) :
    (completePkt lbl pt pdu).length = pdu.length + lbl.len + PROTOCOL_LEN + FIXED_HEADER_LEN := by
  have h : (completePkt lbl pt pdu).length = 2 + 2 + lbl.len + pdu.length := by
    simp only [completePkt, List.length_append, be16_length, Label.bytes_length]
  rw [h]; simp only [PROTOCOL_LEN, FIXED_HEADER_LEN]; omega

theorem firstPkt_length (lbl : Label) (fid tl pt : Nat) (payload : Bytes) :
    (firstPkt lbl fid tl pt payload).length = FIRST_FRAG_LEN + lbl.len + payload.length := by
  have h : (firstPkt lbl fid tl pt payload).length = 2 + 1 + 2 + 2 + lbl.len + payload.length := by
    simp only [firstPkt, List.length_append, be16_length, Label.bytes_length, List.length_cons,
      List.length_nil]
  rw [h]; simp only [FIRST_FRAG_LEN]

theorem interPkt_length (fid : Nat) (payload : Bytes) :
    (interPkt fid payload).length = FIXED_HEADER_LEN + (FRAG_ID_LEN + payload.length) := by
  have h : (interPkt fid payload).length = 2 + 1 + payload.length := by
    simp only [interPkt, List.length_append, be16_length, List.length_cons, List.length_nil]
  rw [h]; simp only [FIXED_HEADER_LEN, FRAG_ID_LEN]; omega

theorem endPkt_length (fid : Nat) (payload : Bytes) (c : Nat) :
    (endPkt fid payload c).length = FIXED_HEADER_LEN + FRAG_ID_LEN + payload.length + CRC_LEN := by
  have h : (endPkt fid payload c).length = 2 + 1 + payload.length + 4 := by
    simp only [endPkt, List.length_append, be16_length, be32_length, List.length_cons,
      List.length_nil]
  rw [h]; simp only [FIXED_HEADER_LEN, FRAG_ID_LEN, CRC_LEN]

/-- the explicit forms with the payload length as a separate number -/
theorem firstPkt_of_len {lbl : Label} {fid tl pt k : Nat} {payload : Bytes} (hk : payload.length = k) :
    be16 (genHeader .first lbl.type (FRAG_ID_LEN + TOTAL_LENGTH_LEN + PROTOCOL_LEN + lbl.len + k))
      ++ [u8 fid] ++ be16 tl ++ be16 pt ++ lbl.bytes ++ payload = firstPkt lbl fid tl pt payload := by
  subst hk; rfl

theorem interPkt_of_len {fid k : Nat} {payload : Bytes} (hk : payload.length = k) :
    be16 (genHeader .inter .reuse (FRAG_ID_LEN + k)) ++ [u8 fid] ++ payload
      = interPkt fid payload := by
  subst hk; rfl

theorem endPkt_of_len {fid k c : Nat} {payload : Bytes} (hk : payload.length = k) :
    be16 (genHeader .end_ .reuse (FRAG_ID_LEN + k + CRC_LEN)) ++ [u8 fid] ++ payload ++ be32 c
      = endPkt fid payload c := by
  subst hk; rfl

/-! ### `decap`: the common prefix (fixed header) -/

/-- the `match pkt_type` of `decap` -/
def decapKind (crc : CrcFn) (mgr : MgrFn) (ds : Dec) (buf : Bytes) (k : PktType) (lt : LabelType)
    (pktLen g : Nat) : DecOut :=
  match k with
  | .complete => decapComplete mgr ds buf lt pktLen g
  | .first => decapFirst mgr ds buf lt pktLen g
  | .inter => decapInter ds buf pktLen g
  | .end_ => decapEnd crc ds buf pktLen g

/-- A buffer starting with the header word of a packet of kind `k` that is entirely inside the
buffer is dispatched to the function for that kind. -/
theorem decap_dispatch (crc : CrcFn) (mgr : MgrFn) (ds : Dec) {buf tail : Bytes} {k : PktType}
    {lt : LabelType} {g : Nat} (hb : buf = be16 (genHeader k lt g) ++ tail) (hg : g ≤ GSE_LEN_MAX)
    (hp : ¬(k = .inter ∧ lt = .six)) (hlen : g + FIXED_HEADER_LEN ≤ buf.length) :
    decap crc mgr ds buf = decapKind crc mgr ds buf k lt (g + FIXED_HEADER_LEN) g := by
  have h16 : get16 buf 0 = some (genHeader k lt g) := by
    rw [hb, get16_be16, Nat.mod_eq_of_lt (genHeader_lt k lt g)]
  unfold decap
  simp only []
  rw [if_neg (by simp only [FIXED_HEADER_LEN] at hlen ⊢; omega), h16]
  simp only []
  rw [readHeader_genHeader k lt g (by simpa using hg) hp]
  simp only []
  rw [if_neg (by omega)]
  rfl

/-! ### `giveBack` under the memory invariant -/

/-- Handing a buffer back succeeds when the free list is below its capacity and the buffer is at
least as long as the configured PDU size: the error `e` is reported and the buffer is on top of
the free list again. -/
theorem giveBack_ok {m : Mem} {last : Option Label} {s : Storage} {e : DecErr} {n : Nat}
    (hcap : m.storages.length ≠ m.cap) (hsz : m.maxPduSize ≤ s.data.length) :
    giveBack m last s e n = ⟨.err e, n, ⟨{ m with storages := s :: m.storages }, last⟩⟩ := by
  unfold giveBack Mem.provision
  rw [if_neg (Ne.symm hcap), if_neg (Nat.not_lt.mpr hsz)]

/-- a give-back exit never reports success -/
theorem giveBack_res_ne_ok (m : Mem) (last : Option Label) (s : Storage) (e : DecErr) (n : Nat)
    (x : DecStatus) : (giveBack m last s e n).res ≠ .ok x := by
  unfold giveBack
  rcases m.provision s with ⟨(_ | _ | _), m'⟩ <;> simp

/-! ### Complete packet -/

section complete
variable (crc : CrcFn) (mgr : MgrFn) (ds : Dec) {lbl : Label} {pt : Nat} {pdu : Bytes} (rest : Bytes)

/-- Everything `decap` does on a complete packet, as one decision tree over the result of
`new_pdu`, the size of the buffer obtained and the label resolution (no other case exists; in
particular no panic arises from reading the packet). -/
theorem decap_complete_pkt_eq (hz : lbl ≠ zeroLabel) (hpt : SECOND_RANGE_PTYPE ≤ pt)
    (hpt2 : pt < 65536) (hlen : pdu.length + lbl.len + PROTOCOL_LEN ≤ GSE_LEN_MAX) :
    decap crc mgr ds (completePkt lbl pt pdu ++ rest) =
      match ds.mem.newPdu with
      | (.panic, m1) => ⟨.panic, 0, ⟨m1, ds.last⟩⟩
      | (.err e, m1) => ds.fail m1 (.memory e) (completePkt lbl pt pdu).length
      | (.ok st, m1) =>
        if st.data.length < pdu.length then
          giveBack m1 none st .sizePduBuffer (completePkt lbl pt pdu).length
        else
          match resolveLabel lbl.type lbl ds.last with
          | .bad e => giveBack m1 none ⟨st.id, pdu ++ st.data.drop pdu.length⟩ e
              (completePkt lbl pt pdu).length
          | .ok cur last' =>
            ⟨.ok (.completed ⟨st.id, pdu ++ st.data.drop pdu.length⟩ ⟨pdu.length, pt, cur, []⟩),
              (completePkt lbl pt pdu).length, ⟨m1, last'⟩⟩ := by
  have hL := completePkt_length lbl pt pdu
  rw [decap_dispatch crc mgr ds (k := .complete) (lt := lbl.type)
    (g := pdu.length + lbl.len + PROTOCOL_LEN)
    (tail := be16 pt ++ lbl.bytes ++ pdu ++ rest)
    (by simp only [completePkt, List.append_assoc]) hlen (by simp)
    (by rw [List.length_append, hL]; omega)]
  rw [← hL]
  generalize hP : (completePkt lbl pt pdu).length = P at hL ⊢
  unfold decapKind decapComplete
  simp only []
  rw [← Label.len_eq_type_len]
  rw [if_neg (by omega)]
  rw [get16_at (a := be16 (genHeader .complete lbl.type (pdu.length + lbl.len + PROTOCOL_LEN)))
    (n := pt) (rest := lbl.bytes ++ pdu ++ rest)
    (by simp only [completePkt, List.append_assoc]) (by simp) hpt2]
  simp only []
  rw [slice_at (a := be16 (genHeader .complete lbl.type (pdu.length + lbl.len + PROTOCOL_LEN))
      ++ be16 pt) (s := lbl.bytes) (c := pdu ++ rest)
    (by simp only [completePkt, List.append_assoc]) (by simp) lbl.bytes_length.symm]
  rw [Option.bind_some, Label.new_type_bytes]
  simp only []
  rw [if_neg hz, if_neg (Nat.not_lt.mpr hpt)]
  simp only []
  rcases ds.mem.newPdu with ⟨(st | e | _), m1⟩
  · simp only []
    have hn : pdu.length + lbl.len + PROTOCOL_LEN - lbl.len - 0 - PROTOCOL_LEN = pdu.length := by
      omega
    rw [hn]
    by_cases hs : st.data.length < pdu.length
    · rw [if_pos (by gse_omega), if_pos hs]
    · rw [if_neg (by gse_omega), if_neg hs, if_neg (by gse_omega)]
      rw [slice_at (a := be16 (genHeader .complete lbl.type (pdu.length + lbl.len + PROTOCOL_LEN))
          ++ be16 pt ++ lbl.bytes) (s := pdu) (c := rest)
        (by simp only [completePkt, List.append_assoc])
        (by simp [Label.bytes_length]; omega) rfl]
      rw [Option.bind_some, blit_zero (by omega)]
      rfl
  · rfl
  · rfl

variable {s : Storage} {free : List Storage}

/-- **Complete packet, success.**  The top free buffer `s` receives the PDU at its start (the rest
of the buffer keeps its old bytes), the metadata carry the PDU length, the protocol type and the
resolved label; exactly the packet is consumed; the buffer leaves the free list and the label
memory is updated as `resolveLabel` says. -/
theorem decap_complete_pkt (hz : lbl ≠ zeroLabel) (hpt : SECOND_RANGE_PTYPE ≤ pt)
    (hpt2 : pt < 65536) (hlen : pdu.length + lbl.len + PROTOCOL_LEN ≤ GSE_LEN_MAX)
    (hs : ds.mem.storages = s :: free) (hcap : pdu.length ≤ s.data.length)
    {cur : Label} {last' : Option Label} (hr : resolveLabel lbl.type lbl ds.last = .ok cur last') :
    decap crc mgr ds (completePkt lbl pt pdu ++ rest) =
      ⟨.ok (.completed ⟨s.id, pdu ++ s.data.drop pdu.length⟩ ⟨pdu.length, pt, cur, []⟩),
       (completePkt lbl pt pdu).length, ⟨{ ds.mem with storages := free }, last'⟩⟩ := by
  rw [decap_complete_pkt_eq crc mgr ds rest hz hpt hpt2 hlen]
  have hnp : ds.mem.newPdu = (.ok s, { ds.mem with storages := free }) := by
    unfold Mem.newPdu; rw [hs]
  rw [hnp]
  simp only []
  rw [if_neg (Nat.not_lt.mpr hcap), hr]

/-- **Complete packet, no free buffer**: `StorageUnderflow`, the packet is consumed, the memory is
unchanged and the label memory is cleared. -/
theorem decap_complete_pkt_underflow (hz : lbl ≠ zeroLabel) (hpt : SECOND_RANGE_PTYPE ≤ pt)
    (hpt2 : pt < 65536) (hlen : pdu.length + lbl.len + PROTOCOL_LEN ≤ GSE_LEN_MAX)
    (hs : ds.mem.storages = []) :
    decap crc mgr ds (completePkt lbl pt pdu ++ rest) =
      ⟨.err (.memory .storageUnderflow), (completePkt lbl pt pdu).length, ⟨ds.mem, none⟩⟩ := by
  rw [decap_complete_pkt_eq crc mgr ds rest hz hpt hpt2 hlen]
  have hnp : ds.mem.newPdu = (.err .storageUnderflow, ds.mem) := by
    unfold Mem.newPdu; rw [hs]
  rw [hnp]
  rfl

/-- **Complete packet, buffer too short for the PDU**: `SizePduBuffer` after giving the untouched
buffer back. -/
theorem decap_complete_pkt_small (hz : lbl ≠ zeroLabel) (hpt : SECOND_RANGE_PTYPE ≤ pt)
    (hpt2 : pt < 65536) (hlen : pdu.length + lbl.len + PROTOCOL_LEN ≤ GSE_LEN_MAX)
    (hs : ds.mem.storages = s :: free) (hcap : s.data.length < pdu.length) :
    decap crc mgr ds (completePkt lbl pt pdu ++ rest) =
      giveBack { ds.mem with storages := free } none s .sizePduBuffer
        (completePkt lbl pt pdu).length := by
  rw [decap_complete_pkt_eq crc mgr ds rest hz hpt hpt2 hlen]
  have hnp : ds.mem.newPdu = (.ok s, { ds.mem with storages := free }) := by
    unfold Mem.newPdu; rw [hs]
  rw [hnp]
  simp only []
  rw [if_pos hcap]

/-- **Complete packet, label not resolvable** (label type re-use but no usable label saved): the
error of `resolveLabel` after giving the buffer — which already holds the PDU — back; the label
memory is cleared. -/
theorem decap_complete_pkt_badLabel (hz : lbl ≠ zeroLabel) (hpt : SECOND_RANGE_PTYPE ≤ pt)
    (hpt2 : pt < 65536) (hlen : pdu.length + lbl.len + PROTOCOL_LEN ≤ GSE_LEN_MAX)
    (hs : ds.mem.storages = s :: free) (hcap : pdu.length ≤ s.data.length)
    {e : DecErr} (hr : resolveLabel lbl.type lbl ds.last = .bad e) :
    decap crc mgr ds (completePkt lbl pt pdu ++ rest) =
      giveBack { ds.mem with storages := free } none ⟨s.id, pdu ++ s.data.drop pdu.length⟩ e
        (completePkt lbl pt pdu).length := by
  rw [decap_complete_pkt_eq crc mgr ds rest hz hpt hpt2 hlen]
  have hnp : ds.mem.newPdu = (.ok s, { ds.mem with storages := free }) := by
    unfold Mem.newPdu; rw [hs]
  rw [hnp]
  simp only []
  rw [if_neg (Nat.not_lt.mpr hcap), hr]

/-- … in particular a re-use packet arriving while no label is saved: `NoLabelSaved`; under the
memory invariant the buffer is back on top of the free list (holding the PDU bytes) and nothing
else has changed. -/
theorem decap_complete_pkt_noLabelSaved (hpt : SECOND_RANGE_PTYPE ≤ pt)
    (hpt2 : pt < 65536) (hlen : pdu.length + PROTOCOL_LEN ≤ GSE_LEN_MAX)
    (hs : ds.mem.storages = s :: free) (hcap : pdu.length ≤ s.data.length)
    (hlast : ds.last = none) (hw : ds.mem.storages.length ≤ ds.mem.cap)
    (hsz : ds.mem.maxPduSize ≤ s.data.length) :
    decap crc mgr ds (completePkt .reuse pt pdu ++ rest) =
      ⟨.err .noLabelSaved, (completePkt .reuse pt pdu).length,
       ⟨{ ds.mem with storages := ⟨s.id, pdu ++ s.data.drop pdu.length⟩ :: free }, none⟩⟩ := by
  rw [decap_complete_pkt_badLabel crc mgr ds rest (lbl := .reuse) (by decide) hpt hpt2
    (by simpa [Label.len] using hlen) hs hcap (e := .noLabelSaved) (by rw [hlast]; rfl)]
  rw [giveBack_ok]
  · rw [hs] at hw
    simp only [List.length_cons] at hw ⊢
    omega
  · simp only [List.length_append, List.length_drop]
    omega

end complete

/-! ### Fragments: the exit through `save_frag` -/

/-- the common tail of `decap_first` and `decap_intermediate`: the result of `save_frag` decides -/
def saveOut (r : Res MemErr Unit × Mem) (md : Meta) (pktLen : Nat) (last : Option Label) : DecOut :=
  match r with
  | (.ok (), m2) => ⟨.ok (.fragmented md), pktLen, ⟨m2, last⟩⟩
  | (.err e, m2) => ⟨.err (.memory e), pktLen, ⟨m2, last⟩⟩
  | (.panic, m2) => ⟨.panic, 0, ⟨m2, last⟩⟩

theorem saveOut_ok {m2 : Mem} {md : Meta} {n : Nat} {last : Option Label} :
    saveOut (.ok (), m2) md n last = ⟨.ok (.fragmented md), n, ⟨m2, last⟩⟩ := rfl

theorem saveOut_err {e : MemErr} {m2 : Mem} {md : Meta} {n : Nat} {last : Option Label} :
    saveOut (.err e, m2) md n last = ⟨.err (.memory e), n, ⟨m2, last⟩⟩ := rfl

/-- the only success through `save_frag` is `Fragmented` with the given metadata -/
theorem saveOut_res_ok {r : Res MemErr Unit × Mem} {md : Meta} {n : Nat} {last : Option Label}
    {x : DecStatus} (h : (saveOut r md n last).res = .ok x) : x = .fragmented md := by
  unfold saveOut at h
  rcases r with ⟨(_ | _ | _), m2⟩ <;> simp at h
  exact h.symm

/-- `new_frag` hands the context it was given back unchanged -/
theorem Mem.newFrag_ctx {m m1 : Mem} {c c' : Ctx} {st : Storage}
    (h : m.newFrag c = (.ok (c', st), m1)) : c' = c := by
  unfold Mem.newFrag Mem.newPdu at h
  grind

/-! ### First fragment -/

section first
variable (crc : CrcFn) (mgr : MgrFn) (ds : Dec) {lbl : Label} {fid tl pt : Nat} {payload : Bytes}
  (rest : Bytes)

/-- Everything `decap` does on a first fragment, as one decision tree over the label resolution,
the total-length check, the result of `new_frag`, the size of the buffer obtained and the result
of `save_frag`.  (The `TotalLength` exit reports the whole buffer as consumed, the other exits
the packet.) -/
theorem decap_first_pkt_eq (hz : lbl ≠ zeroLabel) (hpt : SECOND_RANGE_PTYPE ≤ pt)
    (hpt2 : pt < 65536) (hfid : fid < 256) (htl : tl < 65536)
    (hlen : FRAG_ID_LEN + TOTAL_LENGTH_LEN + PROTOCOL_LEN + lbl.len + payload.length ≤ GSE_LEN_MAX) :
    decap crc mgr ds (firstPkt lbl fid tl pt payload ++ rest) =
      match resolveLabel lbl.type lbl ds.last with
      | .bad e => ds.fail ds.mem e (firstPkt lbl fid tl pt payload).length
      | .ok cur last' =>
        if tl ≤ payload.length then
          ds.fail ds.mem .totalLength (firstPkt lbl fid tl pt payload ++ rest).length
        else
          match ds.mem.newFrag ⟨cur, pt, fid, tl, payload.length, lbl.type == .reuse, []⟩ with
          | (.panic, m1) => ⟨.panic, 0, ⟨m1, last'⟩⟩
          | (.err e, m1) => ds.fail m1 (.memory e) (firstPkt lbl fid tl pt payload).length
          | (.ok (c, st), m1) =>
            if st.data.length < payload.length then
              giveBack m1 none st .sizePduBuffer (firstPkt lbl fid tl pt payload).length
            else
              saveOut (m1.saveFrag (c, ⟨st.id, payload ++ st.data.drop payload.length⟩))
                ⟨0, c.pt, c.label, []⟩ (firstPkt lbl fid tl pt payload).length last' := by
  have hL := firstPkt_length lbl fid tl pt payload
  generalize hH : be16 (genHeader .first lbl.type
      (FRAG_ID_LEN + TOTAL_LENGTH_LEN + PROTOCOL_LEN + lbl.len + payload.length)) = H
  have hHl : H.length = 2 := by rw [← hH]; rfl
  have hbuf : firstPkt lbl fid tl pt payload ++ rest
      = H ++ [u8 fid] ++ be16 tl ++ be16 pt ++ lbl.bytes ++ payload ++ rest := by
    rw [firstPkt, hH]
  rw [decap_dispatch crc mgr ds (k := .first) (lt := lbl.type)
    (g := FRAG_ID_LEN + TOTAL_LENGTH_LEN + PROTOCOL_LEN + lbl.len + payload.length)
    (tail := [u8 fid] ++ be16 tl ++ be16 pt ++ lbl.bytes ++ payload ++ rest)
    (by rw [hbuf, hH]; simp only [List.append_assoc]) hlen (by simp)
    (by rw [List.length_append, hL]; gse_omega)]
  have hP : FRAG_ID_LEN + TOTAL_LENGTH_LEN + PROTOCOL_LEN + lbl.len + payload.length
      + FIXED_HEADER_LEN = (firstPkt lbl fid tl pt payload).length := by rw [hL]; gse_omega
  rw [hP]
  generalize (firstPkt lbl fid tl pt payload).length = P at hL hP ⊢
  generalize hB : firstPkt lbl fid tl pt payload ++ rest = B at hbuf ⊢
  unfold decapKind decapFirst
  simp only []
  rw [← Label.len_eq_type_len]
  rw [if_neg (by gse_omega)]
  rw [get8_at (b := B) (a := H) (n := fid) (rest := be16 tl ++ be16 pt ++ lbl.bytes ++ payload ++ rest)
    (by rw [hbuf]; simp only [List.append_assoc]) (by rw [hHl]; rfl) hfid]
  rw [get16_at (b := B) (a := H ++ [u8 fid]) (n := tl) (rest := be16 pt ++ lbl.bytes ++ payload ++ rest)
    (by rw [hbuf]; simp only [List.append_assoc]) (by simp [hHl]) htl]
  rw [get16_at (b := B) (a := H ++ [u8 fid] ++ be16 tl) (n := pt) (rest := lbl.bytes ++ payload ++ rest)
    (by rw [hbuf]; simp only [List.append_assoc]) (by simp [hHl]) hpt2]
  simp only []
  rw [slice_at (b := B) (a := H ++ [u8 fid] ++ be16 tl ++ be16 pt) (s := lbl.bytes)
    (c := payload ++ rest)
    (by rw [hbuf]; simp only [List.append_assoc]) (by simp [hHl]) lbl.bytes_length.symm]
  rw [Option.bind_some, Label.new_type_bytes]
  simp only []
  rw [if_neg hz]
  rcases resolveLabel lbl.type lbl ds.last with ⟨cur, last'⟩ | e
  · simp only []
    rw [if_neg (Nat.not_lt.mpr hpt)]
    simp only []
    rw [if_neg (by gse_omega)]
    have hn : FRAG_ID_LEN + TOTAL_LENGTH_LEN + PROTOCOL_LEN + lbl.len + payload.length
        - (FRAG_ID_LEN + TOTAL_LENGTH_LEN + lbl.len + 0 + PROTOCOL_LEN) = payload.length := by omega
    rw [hn, Nat.mod_eq_of_lt (by gse_omega : payload.length < 65536)]
    by_cases ht : tl ≤ payload.length
    · rw [if_pos ht, if_pos ht]
    · rw [if_neg ht, if_neg ht]
      rcases ds.mem.newFrag ⟨cur, pt, fid, tl, payload.length, lbl.type == .reuse, []⟩
        with ⟨(⟨c, st⟩ | e | _), m1⟩
      · simp only []
        by_cases hs : st.data.length < payload.length
        · rw [if_pos (by gse_omega), if_pos hs]
        · rw [if_neg (by gse_omega), if_neg hs]
          rw [slice_at (b := B) (a := H ++ [u8 fid] ++ be16 tl ++ be16 pt ++ lbl.bytes) (s := payload)
            (c := rest) hbuf (by simp [hHl, Label.bytes_length]; omega) rfl]
          rw [Option.bind_some, blit_zero (by omega)]
          rfl
      · rfl
      · rfl
  · rfl

/-- **First fragment, success path up to `save_frag`.**  The label resolves, the announced total
length exceeds the payload, `new_frag` hands out a buffer `st` (a free one, or the one of a
replaced context) that can hold the payload: the payload is written at the start of `st` and the
context `⟨label, protocol type, fragment id, total length, payload length, from-re-use, []⟩` is
saved with it; the result is what `save_frag` says (`saveOut`). -/
theorem decap_first_pkt (hz : lbl ≠ zeroLabel) (hpt : SECOND_RANGE_PTYPE ≤ pt)
    (hpt2 : pt < 65536) (hfid : fid < 256) (htl : tl < 65536)
    (hlen : FRAG_ID_LEN + TOTAL_LENGTH_LEN + PROTOCOL_LEN + lbl.len + payload.length ≤ GSE_LEN_MAX)
    {cur : Label} {last' : Option Label} (hr : resolveLabel lbl.type lbl ds.last = .ok cur last')
    (htot : payload.length < tl) {st : Storage} {m1 : Mem}
    (hnf : ds.mem.newFrag ⟨cur, pt, fid, tl, payload.length, lbl.type == .reuse, []⟩
      = (.ok (⟨cur, pt, fid, tl, payload.length, lbl.type == .reuse, []⟩, st), m1))
    (hcap : payload.length ≤ st.data.length) :
    decap crc mgr ds (firstPkt lbl fid tl pt payload ++ rest) =
      saveOut (m1.saveFrag (⟨cur, pt, fid, tl, payload.length, lbl.type == .reuse, []⟩,
          ⟨st.id, payload ++ st.data.drop payload.length⟩))
        ⟨0, pt, cur, []⟩ (firstPkt lbl fid tl pt payload).length last' := by
  rw [decap_first_pkt_eq crc mgr ds rest hz hpt hpt2 hfid htl hlen, hr]
  simp only []
  rw [if_neg (Nat.not_le.mpr htot), hnf]
  simp only []
  rw [if_neg (Nat.not_lt.mpr hcap)]

/-- … and when `save_frag` accepts: `Fragmented` with the metadata of the first fragment (PDU
length 0), the packet consumed, the label memory updated. -/
theorem decap_first_pkt_ok (hz : lbl ≠ zeroLabel) (hpt : SECOND_RANGE_PTYPE ≤ pt)
    (hpt2 : pt < 65536) (hfid : fid < 256) (htl : tl < 65536)
    (hlen : FRAG_ID_LEN + TOTAL_LENGTH_LEN + PROTOCOL_LEN + lbl.len + payload.length ≤ GSE_LEN_MAX)
    {cur : Label} {last' : Option Label} (hr : resolveLabel lbl.type lbl ds.last = .ok cur last')
    (htot : payload.length < tl) {st : Storage} {m1 m2 : Mem}
    (hnf : ds.mem.newFrag ⟨cur, pt, fid, tl, payload.length, lbl.type == .reuse, []⟩
      = (.ok (⟨cur, pt, fid, tl, payload.length, lbl.type == .reuse, []⟩, st), m1))
    (hcap : payload.length ≤ st.data.length)
    (hsv : m1.saveFrag (⟨cur, pt, fid, tl, payload.length, lbl.type == .reuse, []⟩,
          ⟨st.id, payload ++ st.data.drop payload.length⟩) = (.ok (), m2)) :
    decap crc mgr ds (firstPkt lbl fid tl pt payload ++ rest) =
      ⟨.ok (.fragmented ⟨0, pt, cur, []⟩), (firstPkt lbl fid tl pt payload).length, ⟨m2, last'⟩⟩ := by
  rw [decap_first_pkt crc mgr ds rest hz hpt hpt2 hfid htl hlen hr htot hnf hcap, hsv]
  rfl

/-- **First fragment, label not resolvable**: the error of `resolveLabel`, packet consumed,
memory untouched, label memory cleared. -/
theorem decap_first_pkt_badLabel (hz : lbl ≠ zeroLabel) (hpt : SECOND_RANGE_PTYPE ≤ pt)
    (hpt2 : pt < 65536) (hfid : fid < 256) (htl : tl < 65536)
    (hlen : FRAG_ID_LEN + TOTAL_LENGTH_LEN + PROTOCOL_LEN + lbl.len + payload.length ≤ GSE_LEN_MAX)
    {e : DecErr} (hr : resolveLabel lbl.type lbl ds.last = .bad e) :
    decap crc mgr ds (firstPkt lbl fid tl pt payload ++ rest) =
      ⟨.err e, (firstPkt lbl fid tl pt payload).length, ⟨ds.mem, none⟩⟩ := by
  rw [decap_first_pkt_eq crc mgr ds rest hz hpt hpt2 hfid htl hlen, hr]
  rfl

/-- **First fragment whose total length does not exceed its own payload**: `TotalLength`, the
*whole buffer* is reported as consumed, memory untouched, label memory cleared. -/
theorem decap_first_pkt_totalLength (hz : lbl ≠ zeroLabel) (hpt : SECOND_RANGE_PTYPE ≤ pt)
    (hpt2 : pt < 65536) (hfid : fid < 256) (htl : tl < 65536)
    (hlen : FRAG_ID_LEN + TOTAL_LENGTH_LEN + PROTOCOL_LEN + lbl.len + payload.length ≤ GSE_LEN_MAX)
    {cur : Label} {last' : Option Label} (hr : resolveLabel lbl.type lbl ds.last = .ok cur last')
    (htot : tl ≤ payload.length) :
    decap crc mgr ds (firstPkt lbl fid tl pt payload ++ rest) =
      ⟨.err .totalLength, (firstPkt lbl fid tl pt payload ++ rest).length, ⟨ds.mem, none⟩⟩ := by
  rw [decap_first_pkt_eq crc mgr ds rest hz hpt hpt2 hfid htl hlen, hr]
  simp only []
  rw [if_pos htot]
  rfl

end first

/-! ### Intermediate fragment -/

section inter
variable (crc : CrcFn) (mgr : MgrFn) (ds : Dec) {fid : Nat} {payload : Bytes} (rest : Bytes)

/-- Everything `decap` does on an intermediate fragment with at least one payload byte, as one
decision tree over the result of `take_frag`, the accumulated length, the room left in the buffer
and the result of `save_frag`. -/
theorem decap_inter_pkt_eq (hfid : fid < 256) (hk : 1 ≤ payload.length)
    (hlen : FRAG_ID_LEN + payload.length ≤ GSE_LEN_MAX) :
    decap crc mgr ds (interPkt fid payload ++ rest) =
      match ds.mem.takeFrag fid with
      | (.panic, m1) => ⟨.panic, 0, ⟨m1, ds.last⟩⟩
      | (.err e, m1) => ⟨.err (.memory e), (interPkt fid payload).length, ⟨m1, ds.last⟩⟩
      | (.ok (ctx, st), m1) =>
        if ctx.pduLen + payload.length > 65535 then
          giveBack m1 ds.last st .totalLength (interPkt fid payload).length
        else if st.data.length < ctx.pduLen then ⟨.panic, 0, ⟨m1, ds.last⟩⟩
        else if st.data.length - ctx.pduLen < payload.length then
          giveBack m1 ds.last st .sizePduBuffer (interPkt fid payload).length
        else
          saveOut (m1.saveFrag ({ ctx with pduLen := ctx.pduLen + payload.length },
              ⟨st.id, st.data.take ctx.pduLen ++ payload
                ++ st.data.drop (ctx.pduLen + payload.length)⟩))
            ⟨0, ctx.pt, ctx.label, ctx.exts⟩ (interPkt fid payload).length ds.last := by
  have hL := interPkt_length fid payload
  generalize hH : be16 (genHeader .inter .reuse (FRAG_ID_LEN + payload.length)) = H
  have hHl : H.length = 2 := by rw [← hH]; rfl
  have hbuf : interPkt fid payload ++ rest = H ++ [u8 fid] ++ payload ++ rest := by
    rw [interPkt, hH]
  rw [decap_dispatch crc mgr ds (k := .inter) (lt := .reuse) (g := FRAG_ID_LEN + payload.length)
    (tail := [u8 fid] ++ payload ++ rest)
    (by rw [hbuf, hH]; simp only [List.append_assoc]) hlen (by simp)
    (by rw [List.length_append, hL]; gse_omega)]
  have hP : FRAG_ID_LEN + payload.length + FIXED_HEADER_LEN = (interPkt fid payload).length := by
    rw [hL]; gse_omega
  rw [hP]
  generalize (interPkt fid payload).length = P at hL hP ⊢
  generalize hB : interPkt fid payload ++ rest = B at hbuf ⊢
  unfold decapKind decapInter
  simp only []
  rw [if_neg (by gse_omega)]
  rw [get8_at (b := B) (a := H) (n := fid) (rest := payload ++ rest)
    (by rw [hbuf]; simp only [List.append_assoc]) (by rw [hHl]; rfl) hfid]
  simp only []
  have hn : FRAG_ID_LEN + payload.length - FRAG_ID_LEN = payload.length := by omega
  rw [hn]
  rcases ds.mem.takeFrag fid with ⟨(⟨ctx, st⟩ | e | _), m1⟩
  · simp only []
    by_cases h1 : ctx.pduLen + payload.length > 65535
    · rw [if_pos h1, if_pos h1]
    · rw [if_neg h1, if_neg h1]
      by_cases h2 : st.data.length < ctx.pduLen
      · rw [if_pos h2, if_pos h2]
      · rw [if_neg h2, if_neg h2]
        by_cases h3 : st.data.length - ctx.pduLen < payload.length
        · rw [if_pos h3, if_pos h3]
        · rw [if_neg h3, if_neg h3]
          rw [slice_at (b := B) (a := H ++ [u8 fid]) (s := payload) (c := rest) hbuf
            (by simp [hHl]) rfl]
          rw [Option.bind_some, blit_of_le (by omega)]
          rfl
  · rfl
  · rfl

/-- **Intermediate fragment, success path up to `save_frag`.**  `take_frag` finds the context
and its buffer, the accumulated length stays within `u16` and within the buffer: the payload is
appended at position `ctx.pduLen`, the context is saved again with the new length; the result is
what `save_frag` says.  The label memory is not touched. -/
theorem decap_inter_pkt (hfid : fid < 256) (hk : 1 ≤ payload.length)
    (hlen : FRAG_ID_LEN + payload.length ≤ GSE_LEN_MAX) {ctx : Ctx} {st : Storage} {m1 : Mem}
    (htk : ds.mem.takeFrag fid = (.ok (ctx, st), m1))
    (h16 : ctx.pduLen + payload.length ≤ 65535)
    (hcap : ctx.pduLen + payload.length ≤ st.data.length) :
    decap crc mgr ds (interPkt fid payload ++ rest) =
      saveOut (m1.saveFrag ({ ctx with pduLen := ctx.pduLen + payload.length },
          ⟨st.id, st.data.take ctx.pduLen ++ payload
            ++ st.data.drop (ctx.pduLen + payload.length)⟩))
        ⟨0, ctx.pt, ctx.label, ctx.exts⟩ (interPkt fid payload).length ds.last := by
  rw [decap_inter_pkt_eq crc mgr ds rest hfid hk hlen, htk]
  simp only []
  rw [if_neg (by omega), if_neg (by omega), if_neg (by omega)]

/-- … and when `save_frag` accepts: `Fragmented`, the packet consumed. -/
theorem decap_inter_pkt_ok (hfid : fid < 256) (hk : 1 ≤ payload.length)
    (hlen : FRAG_ID_LEN + payload.length ≤ GSE_LEN_MAX) {ctx : Ctx} {st : Storage} {m1 m2 : Mem}
    (htk : ds.mem.takeFrag fid = (.ok (ctx, st), m1))
    (h16 : ctx.pduLen + payload.length ≤ 65535)
    (hcap : ctx.pduLen + payload.length ≤ st.data.length)
    (hsv : m1.saveFrag ({ ctx with pduLen := ctx.pduLen + payload.length },
          ⟨st.id, st.data.take ctx.pduLen ++ payload
            ++ st.data.drop (ctx.pduLen + payload.length)⟩) = (.ok (), m2)) :
    decap crc mgr ds (interPkt fid payload ++ rest) =
      ⟨.ok (.fragmented ⟨0, ctx.pt, ctx.label, ctx.exts⟩), (interPkt fid payload).length,
       ⟨m2, ds.last⟩⟩ := by
  rw [decap_inter_pkt crc mgr ds rest hfid hk hlen htk h16 hcap, hsv]
  rfl

/-- **Intermediate fragment, no context for this id**: the memory error, packet consumed. -/
theorem decap_inter_pkt_err (hfid : fid < 256) (hk : 1 ≤ payload.length)
    (hlen : FRAG_ID_LEN + payload.length ≤ GSE_LEN_MAX) {e : MemErr} {m1 : Mem}
    (htk : ds.mem.takeFrag fid = (.err e, m1)) :
    decap crc mgr ds (interPkt fid payload ++ rest) =
      ⟨.err (.memory e), (interPkt fid payload).length, ⟨m1, ds.last⟩⟩ := by
  rw [decap_inter_pkt_eq crc mgr ds rest hfid hk hlen, htk]

end inter

/-! ### End fragment -/

section end_
variable (crc : CrcFn) (mgr : MgrFn) (ds : Dec) {fid c : Nat} {payload : Bytes} (rest : Bytes)

/-- Everything `decap` does on an end fragment, as one decision tree over the result of
`take_frag`, the room left in the buffer, the total-length check and the CRC check.  The CRC is
computed over the reassembled PDU (the `ctx.pduLen` bytes stored so far followed by the payload),
the protocol type and total length of the context, and the label bytes of the first fragment
(none if that fragment carried label type re-use). -/
theorem decap_end_pkt_eq (hfid : fid < 256) (hc : c < 2 ^ 32)
    (hlen : FRAG_ID_LEN + payload.length + CRC_LEN ≤ GSE_LEN_MAX) :
    decap crc mgr ds (endPkt fid payload c ++ rest) =
      match ds.mem.takeFrag fid with
      | (.panic, m1) => ⟨.panic, 0, ⟨m1, ds.last⟩⟩
      | (.err e, m1) => ⟨.err (.memory e), (endPkt fid payload c).length, ⟨m1, ds.last⟩⟩
      | (.ok (ctx, st), m1) =>
        if st.data.length < ctx.pduLen then ⟨.panic, 0, ⟨m1, ds.last⟩⟩
        else if st.data.length - ctx.pduLen < payload.length then
          giveBack m1 ds.last st .sizePduBuffer (endPkt fid payload c).length
        else if ctx.totalLen ≠ ctx.pduLen + payload.length + PROTOCOL_LEN
            + (if ctx.fromReuse then 0 else ctx.label.type.len) then
          giveBack m1 ds.last
            ⟨st.id, st.data.take ctx.pduLen ++ payload ++ st.data.drop (ctx.pduLen + payload.length)⟩
            .totalLength (endPkt fid payload c).length
        else if crc (st.data.take ctx.pduLen ++ payload) ctx.pt ctx.totalLen
            (if ctx.fromReuse then [] else ctx.label.bytes) ≠ c then
          giveBack m1 ds.last
            ⟨st.id, st.data.take ctx.pduLen ++ payload ++ st.data.drop (ctx.pduLen + payload.length)⟩
            .crc (endPkt fid payload c).length
        else
          ⟨.ok (.completed
              ⟨st.id, st.data.take ctx.pduLen ++ payload
                ++ st.data.drop (ctx.pduLen + payload.length)⟩
              ⟨ctx.pduLen + payload.length, ctx.pt, ctx.label, ctx.exts⟩),
            (endPkt fid payload c).length, ⟨m1, ds.last⟩⟩ := by
  have hL := endPkt_length fid payload c
  generalize hH : be16 (genHeader .end_ .reuse (FRAG_ID_LEN + payload.length + CRC_LEN)) = H
  have hHl : H.length = 2 := by rw [← hH]; rfl
  have hbuf : endPkt fid payload c ++ rest = H ++ [u8 fid] ++ payload ++ be32 c ++ rest := by
    rw [endPkt, hH]
  rw [decap_dispatch crc mgr ds (k := .end_) (lt := .reuse)
    (g := FRAG_ID_LEN + payload.length + CRC_LEN)
    (tail := [u8 fid] ++ payload ++ be32 c ++ rest)
    (by rw [hbuf, hH]; simp only [List.append_assoc]) hlen (by simp)
    (by rw [List.length_append, hL]; gse_omega)]
  have hP : FRAG_ID_LEN + payload.length + CRC_LEN + FIXED_HEADER_LEN
      = (endPkt fid payload c).length := by rw [hL]; gse_omega
  rw [hP]
  generalize (endPkt fid payload c).length = P at hL hP ⊢
  generalize hB : endPkt fid payload c ++ rest = B at hbuf ⊢
  unfold decapKind decapEnd
  simp only []
  rw [if_neg (by gse_omega)]
  rw [get8_at (b := B) (a := H) (n := fid) (rest := payload ++ be32 c ++ rest)
    (by rw [hbuf]; simp only [List.append_assoc]) (by rw [hHl]; rfl) hfid]
  simp only []
  have hn : FRAG_ID_LEN + payload.length + CRC_LEN - (FRAG_ID_LEN + CRC_LEN) = payload.length := by
    omega
  rw [hn]
  rcases ds.mem.takeFrag fid with ⟨(⟨ctx, st⟩ | e | _), m1⟩
  · simp only []
    by_cases h2 : st.data.length < ctx.pduLen
    · rw [if_pos h2, if_pos h2]
    · rw [if_neg h2, if_neg h2]
      by_cases h3 : st.data.length - ctx.pduLen < payload.length
      · rw [if_pos h3, if_pos h3]
      · rw [if_neg h3, if_neg h3]
        rw [slice_at (b := B) (a := H ++ [u8 fid]) (s := payload) (c := be32 c ++ rest)
          (by rw [hbuf]; simp only [List.append_assoc]) (by simp [hHl]) rfl]
        rw [Option.bind_some, blit_of_le (by omega)]
        rw [get32_at (b := B) (a := H ++ [u8 fid] ++ payload) (n := c) (rest := rest) hbuf
          (by simp [hHl]; omega) hc]
        simp only []
        have htk : (st.data.take ctx.pduLen).length = ctx.pduLen := by
          rw [List.length_take]; omega
        have hsl : slice (st.data.take ctx.pduLen ++ payload
              ++ st.data.drop (ctx.pduLen + payload.length)) 0 (ctx.pduLen + payload.length)
            = some (st.data.take ctx.pduLen ++ payload) := by
          rw [slice_zero (by simp only [List.length_append, List.length_drop, htk]; omega)]
          rw [List.take_left' (by simp only [List.length_append, htk])]
        rw [hsl]
  · rfl
  · rfl

/-- **End fragment, all checks pass**: the payload is appended at `ctx.pduLen`, the buffer is
handed to the caller with the metadata of the context and the full PDU length; the packet is
consumed; the context has left the memory (`m1`); the label memory is untouched. -/
theorem decap_end_pkt (hfid : fid < 256) (hc : c < 2 ^ 32)
    (hlen : FRAG_ID_LEN + payload.length + CRC_LEN ≤ GSE_LEN_MAX) {ctx : Ctx} {st : Storage}
    {m1 : Mem} (htk : ds.mem.takeFrag fid = (.ok (ctx, st), m1))
    (hcap : ctx.pduLen + payload.length ≤ st.data.length)
    (htot : ctx.totalLen = ctx.pduLen + payload.length + PROTOCOL_LEN
      + (if ctx.fromReuse then 0 else ctx.label.type.len))
    (hcrc : crc (st.data.take ctx.pduLen ++ payload) ctx.pt ctx.totalLen
      (if ctx.fromReuse then [] else ctx.label.bytes) = c) :
    decap crc mgr ds (endPkt fid payload c ++ rest) =
      ⟨.ok (.completed
          ⟨st.id, st.data.take ctx.pduLen ++ payload ++ st.data.drop (ctx.pduLen + payload.length)⟩
          ⟨ctx.pduLen + payload.length, ctx.pt, ctx.label, ctx.exts⟩),
        (endPkt fid payload c).length, ⟨m1, ds.last⟩⟩ := by
  rw [decap_end_pkt_eq crc mgr ds rest hfid hc hlen, htk]
  simp only []
  rw [if_neg (by omega), if_neg (by omega), if_neg (fun h => h htot), if_neg (fun h => h hcrc)]

/-- **End fragment, wrong CRC**: `Crc` after giving the buffer back. -/
theorem decap_end_pkt_crc (hfid : fid < 256) (hc : c < 2 ^ 32)
    (hlen : FRAG_ID_LEN + payload.length + CRC_LEN ≤ GSE_LEN_MAX) {ctx : Ctx} {st : Storage}
    {m1 : Mem} (htk : ds.mem.takeFrag fid = (.ok (ctx, st), m1))
    (hcap : ctx.pduLen + payload.length ≤ st.data.length)
    (htot : ctx.totalLen = ctx.pduLen + payload.length + PROTOCOL_LEN
      + (if ctx.fromReuse then 0 else ctx.label.type.len))
    (hcrc : crc (st.data.take ctx.pduLen ++ payload) ctx.pt ctx.totalLen
      (if ctx.fromReuse then [] else ctx.label.bytes) ≠ c) :
    decap crc mgr ds (endPkt fid payload c ++ rest) =
      giveBack m1 ds.last
        ⟨st.id, st.data.take ctx.pduLen ++ payload ++ st.data.drop (ctx.pduLen + payload.length)⟩
        .crc (endPkt fid payload c).length := by
  rw [decap_end_pkt_eq crc mgr ds rest hfid hc hlen, htk]
  simp only []
  rw [if_neg (by omega), if_neg (by omega), if_neg (fun h => h htot), if_pos hcrc]

/-- **End fragment, lengths do not add up**: `TotalLength` after giving the buffer back. -/
theorem decap_end_pkt_totalLength (hfid : fid < 256) (hc : c < 2 ^ 32)
    (hlen : FRAG_ID_LEN + payload.length + CRC_LEN ≤ GSE_LEN_MAX) {ctx : Ctx} {st : Storage}
    {m1 : Mem} (htk : ds.mem.takeFrag fid = (.ok (ctx, st), m1))
    (hcap : ctx.pduLen + payload.length ≤ st.data.length)
    (htot : ctx.totalLen ≠ ctx.pduLen + payload.length + PROTOCOL_LEN
      + (if ctx.fromReuse then 0 else ctx.label.type.len)) :
    decap crc mgr ds (endPkt fid payload c ++ rest) =
      giveBack m1 ds.last
        ⟨st.id, st.data.take ctx.pduLen ++ payload ++ st.data.drop (ctx.pduLen + payload.length)⟩
        .totalLength (endPkt fid payload c).length := by
  rw [decap_end_pkt_eq crc mgr ds rest hfid hc hlen, htk]
  simp only []
  rw [if_neg (by omega), if_neg (by omega), if_pos htot]

/-- **End fragment, no context for this id**: the memory error, packet consumed. -/
theorem decap_end_pkt_err (hfid : fid < 256) (hc : c < 2 ^ 32)
    (hlen : FRAG_ID_LEN + payload.length + CRC_LEN ≤ GSE_LEN_MAX) {e : MemErr} {m1 : Mem}
    (htk : ds.mem.takeFrag fid = (.err e, m1)) :
    decap crc mgr ds (endPkt fid payload c ++ rest) =
      ⟨.err (.memory e), (endPkt fid payload c).length, ⟨m1, ds.last⟩⟩ := by
  rw [decap_end_pkt_eq crc mgr ds rest hfid hc hlen, htk]

end end_

/-! ### `peek` (`get_label_or_frag_id`) on the four packets -/

/-- what `peek` does once the header word is decoded -/
def peekKind (buf : Bytes) (k : PktType) (lt : LabelType) : Res PeekErr PeekOk :=
  if k = .inter ∨ k = .end_ then
    if buf.length < FIXED_HEADER_LEN + PROTOCOL_LEN + lt.len then .err .sizeBuffer
    else match get8 buf FIXED_HEADER_LEN with
      | none => .panic
      | some f => .ok (.fragId f)
  else if lt = .broadcast then .ok (.lbl .broadcast)
  else if lt = .reuse then .err .labelReuse
  else
    let off := FIXED_HEADER_LEN + (if k = .first then TOTAL_LENGTH_LEN + FRAG_ID_LEN else 0) + PROTOCOL_LEN
    if buf.length < off + lt.len then .err .sizeBuffer
    else
      match lt with
      | .three =>
        match (slice buf off LABEL_3_B_LEN).bind (Label.new .three) with
        | some l => .ok (.lbl l)
        | none => .panic
      | .six =>
        match (slice buf off LABEL_6_B_LEN).bind (Label.new .six) with
        | some l => .ok (.lbl l)
        | none => .panic
      | _ => .panic

/-- `peek` decodes the header word of any non-padding packet, whatever its length field (which it
ignores) and whatever follows -/
theorem peek_dispatch {buf tail : Bytes} {k : PktType} {lt : LabelType} {g : Nat}
    (hb : buf = be16 (genHeader k lt g) ++ tail) (hp : ¬(k = .inter ∧ lt = .six)) :
    peek buf = peekKind buf k lt := by
  have h16 : get16 buf 0 = some (genHeader k lt g) := by
    rw [hb, get16_be16, Nat.mod_eq_of_lt (genHeader_lt k lt g)]
  have hl : ¬ buf.length < FIXED_HEADER_LEN := by
    rw [hb, List.length_append, be16_length]; simp
  unfold peek
  rw [if_neg hl, h16]
  simp only []
  rw [readHeader_genHeader', if_neg hp]
  rfl

/-- the answer of `peek` for a start or complete packet carrying label `l` -/
def peekLabel (l : Label) : Res PeekErr PeekOk :=
  if l = .reuse then .err .labelReuse else .ok (.lbl l)

/-- any complete packet — with or without extension headers: header word, a 2-byte type field,
the label bytes, anything -/
theorem peek_complete_shape (lbl : Label) (g : Nat) (w tail : Bytes) (hw : w.length = PROTOCOL_LEN) :
    peek (be16 (genHeader .complete lbl.type g) ++ w ++ lbl.bytes ++ tail) = peekLabel lbl := by
  rw [peek_dispatch (k := .complete) (lt := lbl.type) (g := g) (tail := w ++ lbl.bytes ++ tail)
    (by simp only [List.append_assoc]) (by simp)]
  have hlen : (be16 (genHeader .complete lbl.type g) ++ w ++ lbl.bytes ++ tail).length
      = 4 + lbl.len + tail.length := by
    simp only [List.length_append, be16_length, Label.bytes_length, hw, PROTOCOL_LEN]
  have hsl : slice (be16 (genHeader .complete lbl.type g) ++ w ++ lbl.bytes ++ tail) 4 lbl.len
      = some lbl.bytes :=
    slice_at (a := be16 (genHeader .complete lbl.type g) ++ w) (s := lbl.bytes) (c := tail) rfl
      (by simp [hw]) lbl.bytes_length.symm
  generalize be16 (genHeader .complete lbl.type g) ++ w ++ lbl.bytes ++ tail = B at hlen hsl
  cases lbl <;>
    simp [peekKind, peekLabel, Label.type, LabelType.len, Label.len, Label.bytes] at hlen hsl ⊢
  · rw [if_neg (by omega), hsl]; rfl
  · rw [if_neg (by omega), hsl]; rfl

/-- any first fragment — with or without extension headers: header word, 5 bytes (fragment id,
total length, type field), the label bytes, anything -/
theorem peek_first_shape (lbl : Label) (g : Nat) (w tail : Bytes)
    (hw : w.length = FRAG_ID_LEN + TOTAL_LENGTH_LEN + PROTOCOL_LEN) :
    peek (be16 (genHeader .first lbl.type g) ++ w ++ lbl.bytes ++ tail) = peekLabel lbl := by
  rw [peek_dispatch (k := .first) (lt := lbl.type) (g := g) (tail := w ++ lbl.bytes ++ tail)
    (by simp only [List.append_assoc]) (by simp)]
  have hlen : (be16 (genHeader .first lbl.type g) ++ w ++ lbl.bytes ++ tail).length
      = 7 + lbl.len + tail.length := by
    simp only [List.length_append, be16_length, Label.bytes_length, hw, PROTOCOL_LEN, FRAG_ID_LEN,
      TOTAL_LENGTH_LEN]
  have hsl : slice (be16 (genHeader .first lbl.type g) ++ w ++ lbl.bytes ++ tail) 7 lbl.len
      = some lbl.bytes :=
    slice_at (a := be16 (genHeader .first lbl.type g) ++ w) (s := lbl.bytes) (c := tail) rfl
      (by simp [hw]) lbl.bytes_length.symm
  generalize be16 (genHeader .first lbl.type g) ++ w ++ lbl.bytes ++ tail = B at hlen hsl
  cases lbl <;>
    simp [peekKind, peekLabel, Label.type, LabelType.len, Label.len, Label.bytes] at hlen hsl ⊢
  · rw [if_neg (by omega), hsl]; rfl
  · rw [if_neg (by omega), hsl]; rfl

/-- complete packet: the label, or the re-use error; alone or followed by further bytes -/
theorem peek_completePkt (lbl : Label) (pt : Nat) (pdu rest : Bytes) :
    peek (completePkt lbl pt pdu ++ rest) = peekLabel lbl := by
  have h : completePkt lbl pt pdu ++ rest
      = be16 (genHeader .complete lbl.type (pdu.length + lbl.len + PROTOCOL_LEN)) ++ be16 pt
        ++ lbl.bytes ++ (pdu ++ rest) := by
    simp only [completePkt, List.append_assoc]
  rw [h, peek_complete_shape _ _ _ _ (be16_length pt)]

/-- first fragment: the label, or the re-use error -/
theorem peek_firstPkt (lbl : Label) (fid tl pt : Nat) (payload rest : Bytes) :
    peek (firstPkt lbl fid tl pt payload ++ rest) = peekLabel lbl := by
  have h : firstPkt lbl fid tl pt payload ++ rest
      = be16 (genHeader .first lbl.type
          (FRAG_ID_LEN + TOTAL_LENGTH_LEN + PROTOCOL_LEN + lbl.len + payload.length))
        ++ ([u8 fid] ++ be16 tl ++ be16 pt) ++ lbl.bytes ++ (payload ++ rest) := by
    simp only [firstPkt, List.append_assoc]
  rw [h, peek_first_shape _ _ _ _ (by simp)]

/-- intermediate fragment with at least one payload byte (or one byte following): the fragment id -/
theorem peek_interPkt {fid : Nat} (hfid : fid < 256) (payload rest : Bytes)
    (hk : 1 ≤ payload.length + rest.length) :
    peek (interPkt fid payload ++ rest) = .ok (.fragId fid) := by
  rw [peek_dispatch (k := .inter) (lt := .reuse) (g := FRAG_ID_LEN + payload.length)
    (tail := [u8 fid] ++ payload ++ rest)
    (by simp only [interPkt, List.append_assoc]) (by simp)]
  have hlen : (interPkt fid payload ++ rest).length = 3 + payload.length + rest.length := by
    rw [List.length_append, interPkt_length]; gse_omega
  have h8 : get8 (interPkt fid payload ++ rest) FIXED_HEADER_LEN = some fid :=
    get8_at (a := be16 (genHeader .inter .reuse (FRAG_ID_LEN + payload.length))) (n := fid)
      (rest := payload ++ rest) (by simp only [interPkt, List.append_assoc]) (by simp) hfid
  generalize interPkt fid payload ++ rest = B at hlen h8
  have hl : ¬ B.length < FIXED_HEADER_LEN + PROTOCOL_LEN + LabelType.reuse.len := by
    simp only [FIXED_HEADER_LEN, PROTOCOL_LEN, LabelType.len, LABEL_REUSE_LEN]; omega
  unfold peekKind
  rw [if_pos (Or.inl rfl), if_neg hl, h8]

/-- end fragment: the fragment id -/
theorem peek_endPkt {fid : Nat} (hfid : fid < 256) (payload : Bytes) (c : Nat) (rest : Bytes) :
    peek (endPkt fid payload c ++ rest) = .ok (.fragId fid) := by
  rw [peek_dispatch (k := .end_) (lt := .reuse) (g := FRAG_ID_LEN + payload.length + CRC_LEN)
    (tail := [u8 fid] ++ payload ++ be32 c ++ rest)
    (by simp only [endPkt, List.append_assoc]) (by simp)]
  have hlen : (endPkt fid payload c ++ rest).length = 7 + payload.length + rest.length := by
    rw [List.length_append, endPkt_length]; gse_omega
  have h8 : get8 (endPkt fid payload c ++ rest) FIXED_HEADER_LEN = some fid :=
    get8_at (a := be16 (genHeader .end_ .reuse (FRAG_ID_LEN + payload.length + CRC_LEN))) (n := fid)
      (rest := payload ++ be32 c ++ rest) (by simp only [endPkt, List.append_assoc]) (by simp) hfid
  generalize endPkt fid payload c ++ rest = B at hlen h8
  have hl : ¬ B.length < FIXED_HEADER_LEN + PROTOCOL_LEN + LabelType.reuse.len := by
    simp only [FIXED_HEADER_LEN, PROTOCOL_LEN, LabelType.len, LABEL_REUSE_LEN]; omega
  unfold peekKind
  rw [if_pos (Or.inr rfl), if_neg hl, h8]

/-! ### The label written by `encap` (`check_label_re_use`) as the receiver sees it -/

/-- the label written is the one requested or the re-use marker -/
theorem written_cases (es : Enc) (l : Label) :
    (checkLabelReUse es l).1 = l ∨ (checkLabelReUse es l).1 = .reuse := by
  unfold checkLabelReUse
  repeat' split
  all_goals simp

/-- a substitution happens only for the label the encapsulator remembers -/
theorem written_reuse_last {es : Enc} {l : Label} (h : (checkLabelReUse es l).1 = .reuse)
    (hl : l ≠ .reuse) : es.last = some l := by
  unfold checkLabelReUse at h
  repeat' split at h
  all_goals first
    | exact absurd h hl
    | (rename_i h1; exact h1.1.symm)
    | (rename_i h1 _; exact h1.1.symm)

/-- the encapsulator never remembers a broadcast label (nor, once that holds, does it start to) -/
theorem checkLabelReUse_last_ne_broadcast {es : Enc} (h : es.last ≠ some .broadcast) (l : Label) :
    (checkLabelReUse es l).2.last ≠ some .broadcast := by
  unfold checkLabelReUse
  repeat' split
  all_goals simp_all

/-- hence a broadcast label is never substituted -/
theorem written_broadcast {es : Enc} (h : es.last ≠ some .broadcast) :
    (checkLabelReUse es .broadcast).1 = .broadcast := by
  rcases written_cases es .broadcast with h1 | h1
  · exact h1
  · exact absurd (written_reuse_last h1 (by decide)) h

/-- the written label is never the reserved all-zero label unless that was requested -/
theorem written_ne_zero {es : Enc} {l : Label} (hz : l ≠ zeroLabel) :
    (checkLabelReUse es l).1 ≠ zeroLabel := by
  rcases written_cases es l with h | h <;> rw [h]
  · exact hz
  · decide

/-! ### Sanity checks on concrete packets -/

namespace DecapLayerEx
def sto (i n : Nat) : Storage := ⟨i, List.replicate n 0xAA⟩
/-- 2 slots, two free 8-byte buffers -/
def ds0 : Dec := ⟨⟨[sto 1 8, sto 2 8], [none, none], 2, 8, 4⟩, none⟩
def crc0 : CrcFn := fun pdu _ _ _ => pdu.length
end DecapLayerEx
open DecapLayerEx

example : decap crc0 simpleMgr ds0 (completePkt (.three 1 2 3) 0x0800 [9, 8, 7] ++ [0x55, 0x66]) =
    ⟨.ok (.completed ⟨1, [9, 8, 7, 0xAA, 0xAA, 0xAA, 0xAA, 0xAA]⟩ ⟨3, 0x0800, .three 1 2 3, []⟩), 10,
     ⟨⟨[sto 2 8], [none, none], 2, 8, 4⟩, some (.three 1 2 3)⟩⟩ := by decide +kernel

/-- first, intermediate and end fragment of the PDU `[1..6]` under fragment id 5 -/
example :
    let d1 := decap crc0 simpleMgr ds0 (firstPkt .broadcast 5 8 0x0800 [1, 2] ++ [0x55])
    let d2 := decap crc0 simpleMgr d1.st (interPkt 5 [3, 4] ++ [0x55])
    let d3 := decap crc0 simpleMgr d2.st (endPkt 5 [5, 6] 6)
    d1.res = .ok (.fragmented ⟨0, 0x0800, .broadcast, []⟩) ∧ d1.consumed = 9 ∧
    d2.res = .ok (.fragmented ⟨0, 0x0800, .broadcast, []⟩) ∧ d2.consumed = 5 ∧
    d3 = ⟨.ok (.completed ⟨1, [1, 2, 3, 4, 5, 6, 0xAA, 0xAA]⟩ ⟨6, 0x0800, .broadcast, []⟩), 9,
          ⟨⟨[sto 2 8], [none, none], 2, 8, 4⟩, none⟩⟩ := by decide +kernel

end Gse
