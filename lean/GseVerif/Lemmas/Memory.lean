/-
Vocabulary and helper lemmas for property C17 (the bundled fragment memory, Model/Memory.lean):
the well-formedness invariant, memory operations as data (`MemOp`, `Mem.run`, `Mem.step`),
the storages owned by a memory (`Mem.allStorages`), and the abstract specification
(`MemSpec`: a stack of free buffers plus at most one saved context per slot).
-/
import GseVerif.Model.Memory

namespace Gse
open Gen

/-! ### Invariant -/

/-- the slot array has one entry per configured slot and the free list is within its capacity -/
def Mem.WF (m : Mem) : Prop :=
  m.frags.length = m.maxFragId ∧ m.storages.length ≤ m.cap

instance Mem.instDecidableWF (m : Mem) : Decidable m.WF := by unfold Mem.WF; infer_instance

/-- slot used for a fragment id: `frag_id as usize % max_frag_id` -/
abbrev Mem.slotOf (m : Mem) (fid : Nat) : Nat := fid % m.maxFragId

/-! ### Operations as data -/

/-- a call of one of the five `GseDecapMemory` methods -/
inductive MemOp where
  | provision (s : Storage)
  | newPdu
  | newFrag (c : Ctx)
  | takeFrag (fid : Nat)
  | saveFrag (cs : Ctx × Storage)
  deriving DecidableEq, Repr

/-- the value returned by such a call -/
inductive MemOut where
  | unit (r : Res MemErr Unit)              -- provision_storage, save_frag
  | sto (r : Res MemErr Storage)            -- new_pdu
  | ctx (r : Res MemErr (Ctx × Storage))    -- new_frag, take_frag
  deriving DecidableEq, Repr

/-- result and new state of an operation -/
def Mem.run (m : Mem) : MemOp → MemOut × Mem
  | .provision s => ((m.provision s).map .unit id)
  | .newPdu => (m.newPdu.map .sto id)
  | .newFrag c => ((m.newFrag c).map .ctx id)
  | .takeFrag fid => ((m.takeFrag fid).map .ctx id)
  | .saveFrag cs => ((m.saveFrag cs).map .unit id)

/-- new state after an operation -/
def Mem.step (m : Mem) : MemOp → Mem
  | .provision s => (m.provision s).2
  | .newPdu => m.newPdu.2
  | .newFrag c => (m.newFrag c).2
  | .takeFrag fid => (m.takeFrag fid).2
  | .saveFrag cs => (m.saveFrag cs).2

theorem Mem.run_snd (m : Mem) (op : MemOp) : (m.run op).2 = m.step op := by
  cases op <;> rfl

/-- the call panicked -/
def MemOut.isPanic : MemOut → Bool
  | .unit .panic | .sto .panic | .ctx .panic => true
  | _ => false

/-- storages carried by an error value -/
def MemErr.storages : MemErr → List Storage
  | .storageOverflow s => [s]
  | .bufferTooSmall s => [s]
  | _ => []

/-- storages handed to the caller by a result -/
def MemOut.handed : MemOut → List Storage
  | .unit (.err e) => e.storages
  | .sto (.ok s) => [s]
  | .sto (.err e) => e.storages
  | .ctx (.ok cs) => [cs.2]
  | .ctx (.err e) => e.storages
  | _ => []

/-- storages handed to the memory by a call -/
def MemOp.given : MemOp → List Storage
  | .provision s => [s]
  | .saveFrag cs => [cs.2]
  | _ => []

/-! ### Storages owned by a memory -/

/-- storages held in the slots, in slot order -/
def slotStorages (fr : List (Option (Ctx × Storage))) : List Storage :=
  fr.filterMap (fun o => o.map Prod.snd)

/-- every storage the memory owns: the free list, then the slots -/
def Mem.allStorages (m : Mem) : List Storage := m.storages ++ slotStorages m.frags

theorem slotStorages_replicate_none (n : Nat) : slotStorages (List.replicate n none) = [] := by
  induction n with
  | zero => rfl
  | succ n ih => simp [slotStorages, List.replicate_succ]

/-- emptying an occupied slot releases exactly its storage -/
theorem slotStorages_set_none :
    ∀ (fr : List (Option (Ctx × Storage))) (k : Nat) (c : Ctx) (s : Storage),
      fr[k]? = some (some (c, s)) → (s :: slotStorages (fr.set k none)).Perm (slotStorages fr)
  | [], k, c, s, h => by simp at h
  | x :: xs, 0, c, s, h => by
    simp at h; subst h; simp [slotStorages]
  | x :: xs, k+1, c, s, h => by
    simp at h
    have ih := slotStorages_set_none xs k c s h
    cases x with
    | none => simpa [slotStorages] using ih
    | some p =>
      simp [slotStorages] at ih ⊢
      exact (List.Perm.swap ..).trans (ih.cons _)

/-- filling an empty slot adds exactly the saved storage -/
theorem slotStorages_set_some :
    ∀ (fr : List (Option (Ctx × Storage))) (k : Nat) (cs : Ctx × Storage),
      fr[k]? = some none → (slotStorages (fr.set k (some cs))).Perm (cs.2 :: slotStorages fr)
  | [], k, cs, h => by simp at h
  | x :: xs, 0, cs, h => by
    simp at h; subst h; simp [slotStorages]
  | x :: xs, k+1, cs, h => by
    simp at h
    have ih := slotStorages_set_some xs k cs h
    cases x with
    | none => simpa [slotStorages] using ih
    | some p =>
      simp [slotStorages] at ih ⊢
      exact (ih.cons _).trans (List.Perm.swap ..)

/-- writing `None` into an empty slot changes nothing -/
theorem set_none_of_none {α : Type} (fr : List (Option α)) (k : Nat) (h : fr[k]? = some none) :
    fr.set k none = fr := by
  apply List.ext_getElem?
  intro i
  by_cases hik : k = i
  · subst hik
    have : k < fr.length := by
      rcases Nat.lt_or_ge k fr.length with h' | h'
      · exact h'
      · rw [List.getElem?_eq_none h'] at h; cases h
    rw [List.getElem?_set_self this, h]
  · rw [List.getElem?_set_ne hik]

/-- under the invariant every fragment id designates an existing slot -/
theorem Mem.WF.slot_lt {m : Mem} (hw : m.WF) (h0 : m.maxFragId ≠ 0) (fid : Nat) :
    fid % m.maxFragId < m.frags.length := by
  rw [hw.1]; exact Nat.mod_lt _ (Nat.pos_of_ne_zero h0)

theorem Mem.WF.slot_some {m : Mem} (hw : m.WF) (h0 : m.maxFragId ≠ 0) (fid : Nat) :
    m.frags[fid % m.maxFragId]? = some (m.frags[fid % m.maxFragId]'(hw.slot_lt h0 fid)) :=
  List.getElem?_eq_getElem _

/-- a slot is either empty or holds one saved context -/
theorem Mem.WF.slot_cases {m : Mem} (hw : m.WF) (h0 : m.maxFragId ≠ 0) (fid : Nat) :
    m.frags[fid % m.maxFragId]? = some none ∨
      ∃ c s, m.frags[fid % m.maxFragId]? = some (some (c, s)) := by
  rw [hw.slot_some h0 fid]
  cases m.frags[fid % m.maxFragId]'(hw.slot_lt h0 fid) with
  | none => exact .inl rfl
  | some p => exact .inr ⟨p.1, p.2, rfl⟩

/-! ### The configuration never changes; the invariant is preserved -/

theorem Mem.step_cfg (m : Mem) (op : MemOp) :
    (m.step op).maxFragId = m.maxFragId ∧ (m.step op).maxPduSize = m.maxPduSize ∧
      (m.step op).cap = m.cap ∧ (m.step op).frags.length = m.frags.length := by
  cases op <;>
    simp only [Mem.step, Mem.provision, Mem.newPdu, Mem.newFrag, Mem.takeFrag, Mem.saveFrag] <;>
    grind

theorem Mem.foldl_step_cfg (ops : List MemOp) (m : Mem) :
    (ops.foldl Mem.step m).maxFragId = m.maxFragId ∧
      (ops.foldl Mem.step m).maxPduSize = m.maxPduSize ∧ (ops.foldl Mem.step m).cap = m.cap := by
  induction ops generalizing m with
  | nil => simp
  | cons op ops ih =>
    have h := m.step_cfg op
    have h' := ih (m.step op)
    simp only [List.foldl_cons]
    exact ⟨h'.1.trans h.1, h'.2.1.trans h.2.1, h'.2.2.trans h.2.2.1⟩

theorem Mem.wf_new (n sz : Nat) : (Mem.new n sz).WF := by
  simp [Mem.WF, Mem.new]

theorem Mem.WF.step {m : Mem} (hw : m.WF) (op : MemOp) : (m.step op).WF := by
  obtain ⟨h1, h2⟩ := hw
  have hc := m.step_cfg op
  refine ⟨by rw [hc.2.2.2, hc.1, h1], ?_⟩
  rw [hc.2.2.1]
  cases op <;>
    simp only [Mem.step, Mem.provision, Mem.newPdu, Mem.newFrag, Mem.takeFrag, Mem.saveFrag] <;>
    grind

theorem Mem.WF.foldl {m : Mem} (hw : m.WF) (ops : List MemOp) : (ops.foldl Mem.step m).WF := by
  induction ops generalizing m with
  | nil => exact hw
  | cons op ops ih => exact ih (hw.step op)

/-! ### Abstract specification -/

/-- specification state: the free buffers as a stack (top first) and at most one saved
context per slot -/
structure MemSpec where
  free : List Storage
  slot : Nat → Option (Ctx × Storage)

/-- static configuration of a memory -/
structure MemCfg where
  slots : Nat      -- max_frag_id
  pduSize : Nat    -- max_pdu_size
  cap : Nat        -- capacity of the free list

def Mem.cfg (m : Mem) : MemCfg := ⟨m.maxFragId, m.maxPduSize, m.cap⟩

/-- abstraction function: slot `i` holds what `frags[i]` holds (nothing outside the array) -/
def Mem.abs (m : Mem) : MemSpec := ⟨m.storages, fun i => (m.frags[i]?).join⟩

/-- `f[k ↦ v]` -/
def updSlot (f : Nat → Option (Ctx × Storage)) (k : Nat) (v : Option (Ctx × Storage)) :
    Nat → Option (Ctx × Storage) := fun i => if i = k then v else f i

/-- the empty specification state -/
def MemSpec.empty : MemSpec := ⟨[], fun _ => none⟩

/-- specification of the five operations -/
def MemSpec.run (g : MemCfg) (σ : MemSpec) : MemOp → MemOut × MemSpec
  | .provision s =>
    if σ.free.length = g.cap then (.unit (.err (.storageOverflow s)), σ)
    else if s.data.length < g.pduSize then (.unit (.err (.bufferTooSmall s)), σ)
    else (.unit (.ok ()), { σ with free := s :: σ.free })
  | .newPdu =>
    match σ.free with
    | [] => (.sto (.err .storageUnderflow), σ)
    | s :: rest => (.sto (.ok s), { σ with free := rest })
  | .newFrag c =>
    if g.slots = 0 then (.ctx (.err .storageUnderflow), σ)
    else
      match σ.slot (c.fragId % g.slots) with
      | some (_, s0) => (.ctx (.ok (c, s0)), { σ with slot := updSlot σ.slot (c.fragId % g.slots) none })
      | none =>
        match σ.free with
        | [] => (.ctx (.err .storageUnderflow), σ)
        | s :: rest => (.ctx (.ok (c, s)), { σ with free := rest })
  | .takeFrag fid =>
    if g.slots = 0 then (.ctx (.err .undefinedId), σ)
    else
      match σ.slot (fid % g.slots) with
      | some (c, s) =>
        if c.fragId = fid then
          (.ctx (.ok (c, s)), { σ with slot := updSlot σ.slot (fid % g.slots) none })
        else (.ctx (.err .undefinedId), σ)
      | none => (.ctx (.err .undefinedId), σ)
  | .saveFrag cs =>
    if g.slots = 0 then (.unit (.err .memoryCorrupted), σ)
    else
      match σ.slot (cs.1.fragId % g.slots) with
      | none => (.unit (.ok ()), { σ with slot := updSlot σ.slot (cs.1.fragId % g.slots) (some cs) })
      | some _ => (.unit (.err .memoryCorrupted), σ)

/-- results of running a list of operations on the model, in order -/
def Mem.trace (m : Mem) : List MemOp → List MemOut
  | [] => []
  | op :: ops => (m.run op).1 :: (m.step op).trace ops

/-- results of running a list of operations on the specification -/
def MemSpec.trace (g : MemCfg) (σ : MemSpec) : List MemOp → List MemOut
  | [] => []
  | op :: ops => (σ.run g op).1 :: MemSpec.trace g (σ.run g op).2 ops

theorem Mem.abs_new (n sz : Nat) : (Mem.new n sz).abs = MemSpec.empty := by
  simp only [Mem.abs, Mem.new, MemSpec.empty, MemSpec.mk.injEq, true_and]
  funext i
  by_cases h : i < n
  · simp [h]
  · simp [h]

theorem abs_slot_set (fr : List (Option (Ctx × Storage))) (k : Nat) (hk : k < fr.length)
    (v : Option (Ctx × Storage)) :
    (fun i => ((fr.set k v)[i]?).join) = updSlot (fun i => (fr[i]?).join) k v := by
  funext i
  unfold updSlot
  by_cases h : i = k
  · subst h; simp [hk]
  · rw [if_neg h, List.getElem?_set_ne (Ne.symm h)]

/-! ### Which operations take a saved context out of its slot -/

/-- an operation that takes the context saved under `fid` out of its slot: `new_frag` on the same
slot (it replaces the context) or `take_frag` of exactly this id.  Every other operation —
including `take_frag` of an *aliasing* id and `save_frag` into the same slot, which are refused —
leaves it in place. -/
def MemOp.releases (n fid : Nat) : MemOp → Prop
  | .newFrag c => c.fragId % n = fid % n
  | .takeFrag f => f = fid
  | _ => False

instance MemOp.instDecidableReleases (n fid : Nat) (op : MemOp) : Decidable (op.releases n fid) := by
  cases op <;> unfold MemOp.releases <;> infer_instance

/-! ### Fixtures for the `example`s of Props/C17.lean: a 2-slot memory, so that ids 1 and 3 alias
(slot 1) -/

/-- a buffer of `n` bytes, all equal to `i`, with ghost identity `i` -/
def C17.sto (i n : Nat) : Storage := ⟨i, List.replicate n (u8 i)⟩
/-- a context saved under fragment id `fid` -/
def C17.ctx (fid : Nat) : Ctx := ⟨.three 1 2 3, 0x0800, fid, 100 + fid, 7, false, []⟩
/-- 2 slots, PDU size 4, three free buffers (top first: 3, 2, 1) -/
def C17.m3 : Mem :=
  [MemOp.provision (C17.sto 1 4), .provision (C17.sto 2 4), .provision (C17.sto 3 6)].foldl
    Mem.step (Mem.new 2 4)
/-- the same after `new_frag(id 1)` + `save_frag`: slot 1 holds `(ctx 1, sto 3)` -/
def C17.m3s : Mem :=
  { C17.m3 with storages := [C17.sto 2 4, C17.sto 1 4],
                frags := [none, some (C17.ctx 1, C17.sto 3 6)] }
/-- a memory without any slot -/
def C17.m0 : Mem := (Mem.new 0 4).step (.provision (C17.sto 9 4))


end Gse
