/-
The extension-header walker (`walkLoop` / `walkExt` of Model/Decap.lean =
`iterate_over_extension_header`) run on the bytes `encap_ext` writes (`extChain`, Model/Encap.lean).

* `Knows mgr pt exts` : the receiver's mandatory-extension manager describes the chain the way the
  sender used it.
* `extWire pt exts`   : the bytes between label and payload.
* `walkExt_chain`     : the walker recovers list, protocol type and length, whatever follows.
* `walkExt_unknown`   : an unknown mandatory extension makes the walker return
  `UnknownMandatoryHeader`.
Core Lean only.
-/
import GseVerif.Model.Decap
import GseVerif.Lemmas.Bytes
import GseVerif.Lemmas.EncapLayer
import GseVerif.Lemmas.Ext
import GseVerif.Lemmas.Finite
import GseVerif.Lemmas.Header

namespace Gse
open Gen

/-! ### H-LEN bits of a type field -/

set_option maxRecDepth 100000 in
private theorem hlen_bits_all :
    allBelow SECOND_RANGE_PTYPE (fun i => decide ((i &&& H_LEN_MASK) >>> 8 = i / 256)) = true := by
  decide +kernel

/-- `(id & H_LEN_MASK) >> 8` is `id >> 8` for every id of the extension range -/
theorem hlen_bits {id : Nat} (h : id < SECOND_RANGE_PTYPE) : (id &&& H_LEN_MASK) >>> 8 = id / 256 := by
  exact of_decide_eq_true (allBelow_spec hlen_bits_all id h)

/-! ### Single iterations of the loop -/

theorem get16_bound {b : Bytes} {off v : Nat} (h : get16 b off = some v) : off + 2 ≤ b.length := by
  unfold get16 at h
  split at h
  · rename_i x y hs
    exact (slice_eq_some.mp hs).1
  · cases h

/-- leaving the loop: the type field is a protocol type -/
theorem walkLoop_exit (mgr : MgrFn) (pdu : Bytes) (fuel cur off : Nat) (acc : List Ext)
    (hc : SECOND_RANGE_PTYPE ≤ cur) :
    walkLoop mgr pdu (fuel + 1) cur off acc = .ok ⟨acc.reverse, cur, off⟩ := by
  rw [walkLoop, if_neg (Nat.not_lt.mpr hc)]

/-- an optional extension: data size from H-LEN, then the next type field -/
theorem walkLoop_optional {mgr : MgrFn} {pdu : Bytes} {fuel cur off sz nxt : Nat} {acc : List Ext}
    {d : Bytes} {e : Ext}
    (hc1 : MAX_MANDATORY_VAL_PTYPE ≤ cur) (hc2 : cur < SECOND_RANGE_PTYPE)
    (hh : hlenDataSize (cur / 256) = some sz)
    (hs : slice pdu off sz = some d) (he : extNew cur d = .ok e)
    (hn : get16 pdu (off + sz) = some nxt) :
    walkLoop mgr pdu (fuel + 1) cur off acc
      = walkLoop mgr pdu fuel nxt (off + sz + PROTOCOL_LEN) (e :: acc) := by
  have hb1 := (slice_eq_some.mp hs).1
  have hb2 := get16_bound hn
  rw [walkLoop, if_pos hc2]
  simp only [hlen_bits hc2]
  rw [if_neg (by simp only [SECOND_RANGE_PTYPE] at hc2; omega),
    if_neg (by simp only [MAX_MANDATORY_VAL_PTYPE] at hc1; omega)]
  simp only [hh, hs, he, hn]
  rw [if_neg (by omega), if_neg (by simp only [PROTOCOL_LEN]; omega)]

/-- a mandatory extension the manager knows as non-final -/
theorem walkLoop_nonFinal {mgr : MgrFn} {pdu : Bytes} {fuel cur off sz nxt : Nat} {acc : List Ext}
    {d : Bytes} {e : Ext}
    (hc : cur < MAX_MANDATORY_VAL_PTYPE) (hm : mgr cur = .nonFinal sz)
    (hs : slice pdu off sz = some d) (he : extNew cur d = .ok e)
    (hn : get16 pdu (off + sz) = some nxt) :
    walkLoop mgr pdu (fuel + 1) cur off acc
      = walkLoop mgr pdu fuel nxt (off + sz + PROTOCOL_LEN) (e :: acc) := by
  have hb1 := (slice_eq_some.mp hs).1
  have hb2 := get16_bound hn
  have hc2 : cur < SECOND_RANGE_PTYPE := by
    simp only [MAX_MANDATORY_VAL_PTYPE, SECOND_RANGE_PTYPE] at *; omega
  rw [walkLoop, if_pos hc2]
  simp only [hlen_bits hc2]
  rw [if_neg (by simp only [SECOND_RANGE_PTYPE] at hc2; omega),
    if_pos (by simp only [MAX_MANDATORY_VAL_PTYPE] at hc; omega)]
  simp only [hm, hs, he, hn]
  rw [if_neg (by omega), if_neg (by simp only [PROTOCOL_LEN]; omega)]

/-- a mandatory extension the manager knows as final: the walk ends, no protocol type follows -/
theorem walkLoop_final {mgr : MgrFn} {pdu : Bytes} {fuel cur off sz : Nat} {acc : List Ext}
    {d : Bytes} {e : Ext}
    (hc : cur < MAX_MANDATORY_VAL_PTYPE) (hm : mgr cur = .final sz)
    (hs : slice pdu off sz = some d) (he : extNew cur d = .ok e) :
    walkLoop mgr pdu (fuel + 1) cur off acc = .ok ⟨(e :: acc).reverse, cur, off + sz⟩ := by
  have hb1 := (slice_eq_some.mp hs).1
  have hc2 : cur < SECOND_RANGE_PTYPE := by
    simp only [MAX_MANDATORY_VAL_PTYPE, SECOND_RANGE_PTYPE] at *; omega
  rw [walkLoop, if_pos hc2]
  simp only [hlen_bits hc2]
  rw [if_neg (by simp only [SECOND_RANGE_PTYPE] at hc2; omega),
    if_pos (by simp only [MAX_MANDATORY_VAL_PTYPE] at hc; omega)]
  simp only [hm, hs, he]
  rw [if_neg (by omega)]

/-- a mandatory extension the manager does not know -/
theorem walkLoop_unknown {mgr : MgrFn} {pdu : Bytes} {fuel cur off : Nat} {acc : List Ext}
    (hc : cur < MAX_MANDATORY_VAL_PTYPE) (hm : mgr cur = .unknown) :
    walkLoop mgr pdu (fuel + 1) cur off acc = .err .unknownMandatoryHeader := by
  have hc2 : cur < SECOND_RANGE_PTYPE := by
    simp only [MAX_MANDATORY_VAL_PTYPE, SECOND_RANGE_PTYPE] at *; omega
  rw [walkLoop, if_pos hc2]
  simp only [hlen_bits hc2]
  rw [if_neg (by simp only [SECOND_RANGE_PTYPE] at hc2; omega),
    if_pos (by simp only [MAX_MANDATORY_VAL_PTYPE] at hc; omega)]
  simp only [hm]

/-- both non-final kinds at once, for a well-formed extension whose data is at the cursor -/
theorem walkLoop_cont {mgr : MgrFn} {pdu : Bytes} {fuel off nxt : Nat} {acc : List Ext} {e : Ext}
    (hw : e.WF) (hm : e.id < MAX_MANDATORY_VAL_PTYPE → mgr e.id = .nonFinal e.data.length)
    (hs : slice pdu off e.data.length = some e.data)
    (hn : get16 pdu (off + e.data.length) = some nxt) :
    walkLoop mgr pdu (fuel + 1) e.id off acc
      = walkLoop mgr pdu fuel nxt (off + e.data.length + PROTOCOL_LEN) (e :: acc) := by
  by_cases hc : e.id < MAX_MANDATORY_VAL_PTYPE
  · exact walkLoop_nonFinal hc (hm hc) hs hw.extNew_eq hn
  · exact walkLoop_optional (Nat.le_of_not_lt hc) hw.1 (hw.2.2 (Nat.le_of_not_lt hc)).1 hs
      hw.extNew_eq hn

/-! ### The bytes the walker sees, and what the receiver must know -/

/-- The bytes `encap_ext` writes between the label and the payload: the chain, then the protocol
type unless the chain ends with a final mandatory extension (whose id is the protocol type). -/
def extWire (pt : Nat) (exts : List Ext) : Bytes :=
  extChain exts ++ (if pt < MAX_MANDATORY_VAL_PTYPE then [] else be16 pt)

/-- `extMiddle` (Lemmas/EncapLayer.lean) is: id of the first extension, label, `extWire` -/
theorem extMiddle_eq_wire (pt : Nat) (lbl : Label) (exts : List Ext) :
    extMiddle pt lbl exts = be16 (extFirstId exts) ++ lbl.bytes ++ extWire pt exts := by
  unfold extMiddle extWire
  simp only [List.append_assoc]

theorem extWire_single (pt : Nat) (e : Ext) :
    extWire pt [e] = e.data ++ (if pt < MAX_MANDATORY_VAL_PTYPE then [] else be16 pt) := by
  simp [extWire, extChain]

theorem extWire_cons_cons (pt : Nat) (e e' : Ext) (rest : List Ext) :
    extWire pt (e :: e' :: rest) = e.data ++ (be16 e'.id ++ extWire pt (e' :: rest)) := by
  simp [extWire, extChain, List.append_assoc]

/-- The receiver's manager describes the chain the way the sender used it: every extension is
well formed with fewer than 256 data bytes (the manager returns a `u8`); every mandatory extension
other than a final one in last position is known as `NonFinal` with its data length; and when
`pt` is in the mandatory range the last extension is the mandatory extension `pt`, known as
`Final` with its data length. -/
def Knows (mgr : MgrFn) (pt : Nat) (exts : List Ext) : Prop :=
  (∀ e ∈ exts, e.WF ∧ e.data.length < 256) ∧
  (∀ e ∈ (if pt < MAX_MANDATORY_VAL_PTYPE then exts.dropLast else exts),
      e.id < MAX_MANDATORY_VAL_PTYPE → mgr e.id = .nonFinal e.data.length) ∧
  (pt < MAX_MANDATORY_VAL_PTYPE → ∀ e ∈ exts.getLast?,
      e.id = pt ∧ e.kind = .mandatory ∧ mgr e.id = .final e.data.length)

instance instDecidableKnows (mgr : MgrFn) (pt : Nat) (exts : List Ext) : Decidable (Knows mgr pt exts) := by
  unfold Knows; infer_instance

theorem Knows.wf {mgr : MgrFn} {pt : Nat} {exts : List Ext} (h : Knows mgr pt exts) :
    ∀ e ∈ exts, e.WF := fun e he => (h.1 e he).1

/-- head of a chain of at least two: it is not last, so a mandatory one is known as non-final -/
theorem Knows.head {mgr : MgrFn} {pt : Nat} {e e' : Ext} {rest : List Ext}
    (h : Knows mgr pt (e :: e' :: rest)) :
    e.WF ∧ (e.id < MAX_MANDATORY_VAL_PTYPE → mgr e.id = .nonFinal e.data.length) := by
  refine ⟨(h.1 e List.mem_cons_self).1, h.2.1 e ?_⟩
  split
  · simp [List.dropLast]
  · exact List.mem_cons_self

theorem Knows.tail {mgr : MgrFn} {pt : Nat} {e e' : Ext} {rest : List Ext}
    (h : Knows mgr pt (e :: e' :: rest)) : Knows mgr pt (e' :: rest) := by
  refine ⟨fun x hx => h.1 x (List.mem_cons_of_mem _ hx), fun x hx => h.2.1 x ?_, fun hp x hx =>
    h.2.2 hp x ?_⟩
  · split at hx
    · rw [if_pos (by assumption)]
      simp only [List.dropLast_cons_cons]
      exact List.mem_cons_of_mem _ hx
    · rw [if_neg (by assumption)]
      exact List.mem_cons_of_mem _ hx
  · simpa [List.getLast?_cons_cons] using hx

/-! ### The walk over a known chain -/

/-- Generalised over the bytes already consumed (`pre`), the extensions already collected (`acc`)
and the fuel. -/
theorem walkLoop_chain {mgr : MgrFn} {pt : Nat}
    (hpt : pt < MAX_MANDATORY_VAL_PTYPE ∨ (SECOND_RANGE_PTYPE ≤ pt ∧ pt < 65536)) (payload : Bytes) :
    ∀ (rest : List Ext) (e : Ext) (pre : Bytes) (acc : List Ext) (fuel : Nat),
      Knows mgr pt (e :: rest) → (extWire pt (e :: rest)).length + 1 ≤ fuel →
      walkLoop mgr (pre ++ extWire pt (e :: rest) ++ payload) fuel e.id pre.length acc
        = .ok ⟨acc.reverse ++ e :: rest, pt, pre.length + (extWire pt (e :: rest)).length⟩ := by
  intro rest
  induction rest with
  | nil =>
    intro e pre acc fuel hk hf
    obtain ⟨fuel, rfl⟩ : ∃ f, fuel = f + 1 := ⟨fuel - 1, by omega⟩
    have hw : e.WF := hk.wf e List.mem_cons_self
    rw [extWire_single] at hf ⊢
    by_cases hp : pt < MAX_MANDATORY_VAL_PTYPE
    · -- final mandatory extension
      obtain ⟨hid, -, hm⟩ := hk.2.2 hp e (by simp)
      simp only [if_pos hp, List.append_nil]
      have hs : slice (pre ++ e.data ++ payload) pre.length e.data.length = some e.data :=
        slice_mid pre e.data payload
      rw [walkLoop_final (by rw [hid]; exact hp) hm hs hw.extNew_eq, hid]
      simp
    · -- the protocol type follows
      have hp6 : SECOND_RANGE_PTYPE ≤ pt ∧ pt < 65536 := hpt.resolve_left hp
      simp only [if_neg hp] at hf ⊢
      have hm := hk.2.1 e (by rw [if_neg hp]; exact List.mem_cons_self)
      have hpdu : pre ++ (e.data ++ be16 pt) ++ payload = pre ++ e.data ++ (be16 pt ++ payload) := by
        simp only [List.append_assoc]
      have hs : slice (pre ++ e.data ++ (be16 pt ++ payload)) pre.length e.data.length = some e.data :=
        slice_mid pre e.data _
      have hn : get16 (pre ++ e.data ++ (be16 pt ++ payload)) (pre.length + e.data.length)
          = some pt := by
        have := get16_mid (pre ++ e.data) pt payload
        rw [List.length_append, Nat.mod_eq_of_lt hp6.2] at this
        rw [← this]
        simp only [List.append_assoc]
      obtain ⟨fuel, rfl⟩ : ∃ f, fuel = f + 1 := ⟨fuel - 1, by
        simp only [List.length_append, be16_length] at hf; omega⟩
      rw [hpdu, walkLoop_cont hw hm hs hn, walkLoop_exit _ _ _ _ _ _ hp6.1]
      simp [PROTOCOL_LEN]
      omega
  | cons e' rest ih =>
    intro e pre acc fuel hk hf
    obtain ⟨fuel, rfl⟩ : ∃ f, fuel = f + 1 := ⟨fuel - 1, by omega⟩
    obtain ⟨hw, hm⟩ := hk.head
    have hk' := hk.tail
    have hw' : e'.WF := hk'.wf e' List.mem_cons_self
    have hid' : e'.id < 65536 := by
      have := hw'.1; simp only [SECOND_RANGE_PTYPE] at this; omega
    rw [extWire_cons_cons] at hf ⊢
    have hpdu : pre ++ (e.data ++ (be16 e'.id ++ extWire pt (e' :: rest))) ++ payload
        = pre ++ e.data ++ (be16 e'.id ++ (extWire pt (e' :: rest) ++ payload)) := by
      simp only [List.append_assoc]
    have hs : slice (pre ++ e.data ++ (be16 e'.id ++ (extWire pt (e' :: rest) ++ payload)))
        pre.length e.data.length = some e.data := slice_mid pre e.data _
    have hn : get16 (pre ++ e.data ++ (be16 e'.id ++ (extWire pt (e' :: rest) ++ payload)))
        (pre.length + e.data.length) = some e'.id := by
      have := get16_mid (pre ++ e.data) e'.id (extWire pt (e' :: rest) ++ payload)
      rw [List.length_append, Nat.mod_eq_of_lt hid'] at this
      rw [← this]
      simp only [List.append_assoc]
    rw [hpdu, walkLoop_cont hw hm hs hn]
    have hpdu' : pre ++ e.data ++ (be16 e'.id ++ (extWire pt (e' :: rest) ++ payload))
        = (pre ++ e.data ++ be16 e'.id) ++ extWire pt (e' :: rest) ++ payload := by
      simp only [List.append_assoc]
    have hoff : pre.length + e.data.length + PROTOCOL_LEN = (pre ++ e.data ++ be16 e'.id).length := by
      simp only [List.length_append, be16_length, PROTOCOL_LEN]
    rw [hpdu', hoff, ih e' _ (e :: acc) fuel hk' (by
      simp only [List.length_append, be16_length] at hf; omega)]
    simp only [List.reverse_cons, List.append_assoc, List.singleton_append, List.length_append,
      be16_length]
    congr 2
    omega

/-- **The walker inverts `encap_ext`'s chain.**  Started with the id of the first extension (which
`encap_ext` writes in the protocol-type position) on the bytes written after the label, the walker
returns exactly the extension list, the protocol type and the length of the extension area —
whatever follows it. -/
theorem walkExt_chain {mgr : MgrFn} {pt : Nat} {exts : List Ext} (hne : exts ≠ [])
    (hk : Knows mgr pt exts)
    (hpt : pt < MAX_MANDATORY_VAL_PTYPE ∨ (SECOND_RANGE_PTYPE ≤ pt ∧ pt < 65536)) (payload : Bytes) :
    walkExt mgr (extWire pt exts ++ payload) (exts.head hne).id
      = .ok ⟨exts, pt, (extWire pt exts).length⟩ := by
  obtain ⟨e, rest, rfl⟩ := List.exists_cons_of_ne_nil hne
  unfold walkExt
  have := walkLoop_chain hpt payload rest e [] [] ((extWire pt (e :: rest) ++ payload).length + 1) hk
    (by simp only [List.length_append]; omega)
  simpa using this

/-! ### A mandatory extension the receiver does not know -/

/-- The walker reaches a mandatory extension unknown to `mgr`: every extension before it is well
formed and, if mandatory, known as `NonFinal` with its data length.  (Nothing is asked of the
extensions behind it, nor of the protocol type.) -/
def HasUnknown (mgr : MgrFn) : List Ext → Prop
  | [] => False
  | e :: rest =>
    (e.id < MAX_MANDATORY_VAL_PTYPE ∧ mgr e.id = .unknown) ∨
    (e.WF ∧ (e.id < MAX_MANDATORY_VAL_PTYPE → mgr e.id = .nonFinal e.data.length) ∧
      HasUnknown mgr rest)

instance HasUnknown.instDecidable (mgr : MgrFn) : (exts : List Ext) → Decidable (HasUnknown mgr exts)
  | [] => isFalse id
  | e :: rest =>
    have := HasUnknown.instDecidable mgr rest
    by unfold HasUnknown; infer_instance

/-- the same as a decomposition of the list -/
theorem hasUnknown_iff (mgr : MgrFn) (exts : List Ext) :
    HasUnknown mgr exts ↔
      ∃ before u after, exts = before ++ u :: after ∧
        u.id < MAX_MANDATORY_VAL_PTYPE ∧ mgr u.id = .unknown ∧
        ∀ e ∈ before, e.WF ∧ (e.id < MAX_MANDATORY_VAL_PTYPE → mgr e.id = .nonFinal e.data.length) := by
  induction exts with
  | nil =>
    simp only [HasUnknown, false_iff]
    rintro ⟨before, u, after, h, -⟩
    cases before <;> cases h
  | cons e rest ih =>
    simp only [HasUnknown]
    constructor
    · rintro (⟨h1, h2⟩ | ⟨h1, h2, h3⟩)
      · exact ⟨[], e, rest, rfl, h1, h2, fun _ h => by cases h⟩
      · obtain ⟨before, u, after, rfl, hu1, hu2, hb⟩ := ih.mp h3
        refine ⟨e :: before, u, after, rfl, hu1, hu2, fun x hx => ?_⟩
        rcases List.mem_cons.mp hx with rfl | hx
        · exact ⟨h1, h2⟩
        · exact hb x hx
    · rintro ⟨before, u, after, h, hu1, hu2, hb⟩
      cases before with
      | nil =>
        simp only [List.nil_append, List.cons.injEq] at h
        obtain ⟨rfl, -⟩ := h
        exact Or.inl ⟨hu1, hu2⟩
      | cons b before =>
        simp only [List.cons_append, List.cons.injEq] at h
        obtain ⟨rfl, rfl⟩ := h
        obtain ⟨hw, hm⟩ := hb e List.mem_cons_self
        exact Or.inr ⟨hw, hm, ih.mpr ⟨before, u, after, rfl, hu1, hu2, fun x hx =>
          hb x (List.mem_cons_of_mem _ hx)⟩⟩

theorem HasUnknown.head_lt {mgr : MgrFn} {e : Ext} {rest : List Ext}
    (h : HasUnknown mgr (e :: rest)) : e.id < SECOND_RANGE_PTYPE := by
  rcases h with ⟨h, -⟩ | ⟨h, -⟩
  · simp only [MAX_MANDATORY_VAL_PTYPE, SECOND_RANGE_PTYPE] at *; omega
  · exact h.1

theorem walkLoop_hasUnknown {mgr : MgrFn} (pt : Nat) (payload : Bytes) :
    ∀ (rest : List Ext) (e : Ext) (pre : Bytes) (acc : List Ext) (fuel : Nat),
      HasUnknown mgr (e :: rest) → (extWire pt (e :: rest)).length + 1 ≤ fuel →
      walkLoop mgr (pre ++ extWire pt (e :: rest) ++ payload) fuel e.id pre.length acc
        = .err .unknownMandatoryHeader := by
  intro rest
  induction rest with
  | nil =>
    intro e pre acc fuel hu hf
    obtain ⟨fuel, rfl⟩ : ∃ f, fuel = f + 1 := ⟨fuel - 1, by omega⟩
    rcases hu with ⟨h1, h2⟩ | ⟨-, -, h⟩
    · exact walkLoop_unknown h1 h2
    · exact absurd h id
  | cons e' rest ih =>
    intro e pre acc fuel hu hf
    obtain ⟨fuel, rfl⟩ : ∃ f, fuel = f + 1 := ⟨fuel - 1, by omega⟩
    rcases hu with ⟨h1, h2⟩ | ⟨hw, hm, hu'⟩
    · exact walkLoop_unknown h1 h2
    have hid' : e'.id < 65536 := by
      have := hu'.head_lt; simp only [SECOND_RANGE_PTYPE] at this; omega
    rw [extWire_cons_cons] at hf ⊢
    have hpdu : pre ++ (e.data ++ (be16 e'.id ++ extWire pt (e' :: rest))) ++ payload
        = pre ++ e.data ++ (be16 e'.id ++ (extWire pt (e' :: rest) ++ payload)) := by
      simp only [List.append_assoc]
    have hs : slice (pre ++ e.data ++ (be16 e'.id ++ (extWire pt (e' :: rest) ++ payload)))
        pre.length e.data.length = some e.data := slice_mid pre e.data _
    have hn : get16 (pre ++ e.data ++ (be16 e'.id ++ (extWire pt (e' :: rest) ++ payload)))
        (pre.length + e.data.length) = some e'.id := by
      have := get16_mid (pre ++ e.data) e'.id (extWire pt (e' :: rest) ++ payload)
      rw [List.length_append, Nat.mod_eq_of_lt hid'] at this
      rw [← this]
      simp only [List.append_assoc]
    rw [hpdu, walkLoop_cont hw hm hs hn]
    have hpdu' : pre ++ e.data ++ (be16 e'.id ++ (extWire pt (e' :: rest) ++ payload))
        = (pre ++ e.data ++ be16 e'.id) ++ extWire pt (e' :: rest) ++ payload := by
      simp only [List.append_assoc]
    have hoff : pre.length + e.data.length + PROTOCOL_LEN = (pre ++ e.data ++ be16 e'.id).length := by
      simp only [List.length_append, be16_length, PROTOCOL_LEN]
    rw [hpdu', hoff]
    exact ih e' _ (e :: acc) fuel hu' (by
      simp only [List.length_append, be16_length] at hf; omega)

/-- **Unknown mandatory extension.**  If the chain reaches a mandatory extension the manager does
not know, the walker reports `UnknownMandatoryHeader` — whatever the protocol type and whatever
follows. -/
theorem walkExt_unknown {mgr : MgrFn} {exts : List Ext} (hne : exts ≠ [])
    (hu : HasUnknown mgr exts) (pt : Nat) (payload : Bytes) :
    walkExt mgr (extWire pt exts ++ payload) (exts.head hne).id = .err .unknownMandatoryHeader := by
  obtain ⟨e, rest, rfl⟩ := List.exists_cons_of_ne_nil hne
  unfold walkExt
  have := walkLoop_hasUnknown pt payload rest e [] [] ((extWire pt (e :: rest) ++ payload).length + 1)
    hu (by simp only [List.length_append]; omega)
  simpa using this

/-! ### Lengths -/

/-- the extension area has the length `encap_ext` adds to the GSE length -/
theorem extWire_length {pt : Nat} {exts : List Ext} (hne : exts ≠ [])
    (hwf : ∀ e ∈ exts, e.len = PROTOCOL_LEN + e.data.length) :
    (extWire pt exts).length = extLen pt exts := by
  have h := extChain_length hne hwf
  unfold extWire extLen
  split
  · simp only [List.append_nil]; omega
  · simp only [List.length_append, be16_length]
    simp only [PROTOCOL_LEN] at h ⊢; omega

/-- id of the first extension, as `encap_ext` writes it -/
theorem extFirstId_eq_head {exts : List Ext} (hne : exts ≠ []) :
    extFirstId exts = (exts.head hne).id := by
  obtain ⟨e, rest, rfl⟩ := List.exists_cons_of_ne_nil hne
  rfl

/-! ### `decap` on a complete packet whose type field is an extension id -/

private theorem slice_at' {b a s c : Bytes} {off len : Nat} (hb : b = a ++ s ++ c)
    (hoff : off = a.length) (hlen : len = s.length) : slice b off len = some s := by
  subst hb hoff hlen; exact slice_mid a s c

private theorem get16_at' {b a rest : Bytes} {n off : Nat} (hb : b = a ++ be16 n ++ rest)
    (hoff : off = a.length) (hn : n < 65536) : get16 b off = some n := by
  subst hb hoff; rw [get16_mid, Nat.mod_eq_of_lt hn]

private theorem get8_at' {b a rest : Bytes} {n off : Nat} (hb : b = a ++ [u8 n] ++ rest)
    (hoff : off = a.length) (hn : n < 256) : get8 b off = some n := by
  subst hb hoff; rw [get8_mid, Nat.mod_eq_of_lt hn]

private theorem blit_zero' {b src : Bytes} (h : src.length ≤ b.length) :
    blit b 0 src = some (src ++ b.drop src.length) := by
  rw [blit_of_le (by omega)]; simp

/-- the fixed-header part of `decap` on a buffer that starts with a whole packet -/
private theorem decap_header (crc : CrcFn) (mgr : MgrFn) (ds : Dec) {buf tail : Bytes} {k : PktType}
    {lt : LabelType} {g : Nat} (hb : buf = be16 (genHeader k lt g) ++ tail) (hg : g ≤ GSE_LEN_MAX)
    (hp : ¬(k = .inter ∧ lt = .six)) (hlen : g + FIXED_HEADER_LEN ≤ buf.length) :
    decap crc mgr ds buf =
      match k with
      | .complete => decapComplete mgr ds buf lt (g + FIXED_HEADER_LEN) g
      | .first => decapFirst mgr ds buf lt (g + FIXED_HEADER_LEN) g
      | .inter => decapInter ds buf (g + FIXED_HEADER_LEN) g
      | .end_ => decapEnd crc ds buf (g + FIXED_HEADER_LEN) g := by
  have h16 : get16 buf 0 = some (genHeader k lt g) := by
    rw [hb, get16_be16, Nat.mod_eq_of_lt (genHeader_lt k lt g)]
  unfold decap
  simp only []
  rw [if_neg (by simp only [FIXED_HEADER_LEN] at hlen ⊢; omega), h16]
  simp only []
  rw [readHeader_genHeader k lt g (by simpa using hg) hp]
  simp only []
  rw [if_neg (by omega)]
  cases k <;> rfl

/-- `decap_complete` from the result of the extension walk on (proof device: the text of the
model with the walk abstracted; `decap_complete_ext_eq` shows it equal to the model) -/
def completeCont (ds : Dec) (buf : Bytes) (lt : LabelType) (label : Label) (pktLen gseLen : Nat)
    (walk : Res WalkErr WalkOk) : DecOut :=
  let bufLen := buf.length
  let labelLen := lt.len
  let off := FIXED_HEADER_LEN + PROTOCOL_LEN + labelLen
  match walk with
  | .panic => ⟨.panic, 0, ds⟩
  | .err .bufferTooSmall => ds.fail ds.mem .sizePduBuffer bufLen
  | .err .unknownMandatoryHeader => ds.fail ds.mem .unknownMandatoryHeader pktLen
  | .ok w =>
    let off := off + w.len
    match ds.mem.newPdu with
    | (.panic, m1) => ⟨.panic, 0, ⟨m1, ds.last⟩⟩
    | (.err e, m1) => ds.fail m1 (.memory e) pktLen
    | (.ok st, m1) =>
      if st.data.length + labelLen + w.len + PROTOCOL_LEN < gseLen then
        giveBack m1 none st .sizePduBuffer pktLen
      else if gseLen < labelLen + w.len + PROTOCOL_LEN then ⟨.panic, 0, ⟨m1, ds.last⟩⟩
      else
        let n := gseLen - labelLen - w.len - PROTOCOL_LEN
        match (slice buf off n).bind (blit st.data 0) with
        | none => ⟨.panic, 0, ⟨m1, ds.last⟩⟩
        | some data =>
          let st' : Storage := { st with data := data }
          match resolveLabel lt label ds.last with
          | .bad e => giveBack m1 none st' e pktLen
          | .ok cur last' =>
            ⟨.ok (.completed st' ⟨n, w.pt, cur, w.exts⟩), pktLen, ⟨m1, last'⟩⟩

section completeExt
variable (crc : CrcFn) (mgr : MgrFn) (ds : Dec) {lbl : Label} {first G : Nat} {body : Bytes}
  (rest : Bytes)

/-- A complete packet whose type field holds an extension id: header, id, label, then `body`
(extension area and PDU).  `decap` hands exactly `body` to the walker. -/
theorem decap_complete_ext_eq (hz : lbl ≠ zeroLabel) (hfirst : first < SECOND_RANGE_PTYPE)
    (hG : G ≤ GSE_LEN_MAX) (hbody : lbl.len + PROTOCOL_LEN + body.length = G) :
    decap crc mgr ds (be16 (genHeader .complete lbl.type G) ++ be16 first ++ lbl.bytes ++ body ++ rest)
      = completeCont ds
          (be16 (genHeader .complete lbl.type G) ++ be16 first ++ lbl.bytes ++ body ++ rest)
          lbl.type lbl (G + FIXED_HEADER_LEN) G (walkExt mgr body first) := by
  generalize hbuf : be16 (genHeader .complete lbl.type G) ++ be16 first ++ lbl.bytes ++ body ++ rest
    = buf
  have hL : buf.length = 2 + 2 + lbl.len + body.length + rest.length := by
    rw [← hbuf]; simp only [List.length_append, be16_length, Label.bytes_length]
  rw [decap_header crc mgr ds (k := .complete) (lt := lbl.type) (g := G)
    (tail := be16 first ++ lbl.bytes ++ body ++ rest)
    (by rw [← hbuf]; simp only [List.append_assoc]) hG (by simp)
    (by rw [hL]; gse_omega)]
  simp only []
  unfold decapComplete completeCont
  simp only []
  rw [← Label.len_eq_type_len]
  rw [if_neg (by gse_omega)]
  rw [get16_at' (a := be16 (genHeader .complete lbl.type G)) (n := first)
    (rest := lbl.bytes ++ body ++ rest)
    (by rw [← hbuf]; simp only [List.append_assoc]) (by simp)
    (by simp only [SECOND_RANGE_PTYPE] at hfirst; omega)]
  simp only []
  rw [slice_at' (a := be16 (genHeader .complete lbl.type G) ++ be16 first) (s := lbl.bytes)
    (c := body ++ rest) (by rw [← hbuf]; simp only [List.append_assoc]) (by simp)
    lbl.bytes_length.symm]
  rw [Option.bind_some, Label.new_type_bytes]
  simp only []
  rw [if_neg hz, if_pos hfirst, if_neg (by gse_omega)]
  rw [slice_at' (a := be16 (genHeader .complete lbl.type G) ++ be16 first ++ lbl.bytes) (s := body)
    (c := rest) hbuf.symm
    (by simp only [List.length_append, be16_length, Label.bytes_length, FIXED_HEADER_LEN,
      PROTOCOL_LEN]) (by gse_omega)]
  rfl

end completeExt

/-- the complete packet `encap_ext` builds (closed form of `encapExt_complete`) -/
def extCompletePkt (pt : Nat) (lbl : Label) (exts : List Ext) (pdu : Bytes) : Bytes :=
  be16 (genHeader .complete lbl.type (pdu.length + lbl.len + PROTOCOL_LEN + extLen pt exts))
    ++ extMiddle pt lbl exts ++ pdu

theorem Knows.extOk {mgr : MgrFn} {pt : Nat} {exts : List Ext} (h : Knows mgr pt exts) :
    ∀ e ∈ exts, e.len = PROTOCOL_LEN + e.data.length := fun e he => (h.wf e he).len_eq

theorem extFirstId_lt {exts : List Ext} (hne : exts ≠ []) (hw : (exts.head hne).WF) :
    extFirstId exts < SECOND_RANGE_PTYPE := by
  rw [extFirstId_eq_head hne]; exact hw.1

theorem extCompletePkt_length {pt : Nat} {lbl : Label} {exts : List Ext} {pdu : Bytes}
    (hne : exts ≠ []) (hwf : ∀ e ∈ exts, e.len = PROTOCOL_LEN + e.data.length) :
    (extCompletePkt pt lbl exts pdu).length
      = pdu.length + lbl.len + PROTOCOL_LEN + extLen pt exts + FIXED_HEADER_LEN := by
  unfold extCompletePkt
  simp only [List.length_append, be16_length, extMiddle_length pt lbl hne hwf]
  gse_omega

/-- the same packet split the way `decap_complete_ext_eq` wants it -/
theorem extCompletePkt_split (pt : Nat) (lbl : Label) (exts : List Ext) (pdu rest : Bytes) :
    extCompletePkt pt lbl exts pdu ++ rest
      = be16 (genHeader .complete lbl.type (pdu.length + lbl.len + PROTOCOL_LEN + extLen pt exts))
          ++ be16 (extFirstId exts) ++ lbl.bytes ++ (extWire pt exts ++ pdu) ++ rest := by
  unfold extCompletePkt
  rw [extMiddle_eq_wire]
  simp only [List.append_assoc]

section completeChain
variable (crc : CrcFn) {mgr : MgrFn} (ds : Dec) {lbl : Label} {pt : Nat} {exts : List Ext}
  {pdu : Bytes} (rest : Bytes)

/-- **Complete packet with an extension chain, success.** -/
theorem decap_extCompletePkt (hz : lbl ≠ zeroLabel) (hne : exts ≠ []) (hk : Knows mgr pt exts)
    (hpt : pt < MAX_MANDATORY_VAL_PTYPE ∨ (SECOND_RANGE_PTYPE ≤ pt ∧ pt < 65536))
    (hlen : pdu.length + lbl.len + PROTOCOL_LEN + extLen pt exts ≤ GSE_LEN_MAX)
    {s : Storage} {free : List Storage} (hs : ds.mem.storages = s :: free)
    (hcap : pdu.length ≤ s.data.length)
    {cur : Label} {last' : Option Label} (hr : resolveLabel lbl.type lbl ds.last = .ok cur last') :
    decap crc mgr ds (extCompletePkt pt lbl exts pdu ++ rest) =
      ⟨.ok (.completed ⟨s.id, pdu ++ s.data.drop pdu.length⟩ ⟨pdu.length, pt, cur, exts⟩),
       pdu.length + lbl.len + PROTOCOL_LEN + extLen pt exts + FIXED_HEADER_LEN,
       ⟨{ ds.mem with storages := free }, last'⟩⟩ := by
  have hW := extWire_length (pt := pt) hne hk.extOk
  rw [extCompletePkt_split]
  rw [decap_complete_ext_eq crc mgr ds rest hz
    (extFirstId_lt hne (hk.wf _ (List.head_mem hne))) hlen
    (by rw [List.length_append, hW]; gse_omega)]
  rw [extFirstId_eq_head hne, walkExt_chain hne hk hpt pdu]
  unfold completeCont
  simp only []
  have hnp : ds.mem.newPdu = (.ok s, { ds.mem with storages := free }) := by
    unfold Mem.newPdu; rw [hs]
  rw [hnp]
  simp only []
  rw [← Label.len_eq_type_len, hW]
  rw [if_neg (by gse_omega), if_neg (by gse_omega)]
  have hn : pdu.length + lbl.len + PROTOCOL_LEN + extLen pt exts - lbl.len - extLen pt exts
      - PROTOCOL_LEN = pdu.length := by omega
  rw [hn]
  rw [slice_at' (a := be16 (genHeader .complete lbl.type
        (pdu.length + lbl.len + PROTOCOL_LEN + extLen pt exts))
      ++ be16 (exts.head hne).id ++ lbl.bytes ++ extWire pt exts) (s := pdu) (c := rest)
    (by simp only [List.append_assoc])
    (by simp only [List.length_append, be16_length, Label.bytes_length, hW, FIXED_HEADER_LEN,
      PROTOCOL_LEN]) rfl]
  rw [Option.bind_some, blit_zero' hcap]
  simp only []
  rw [hr]

/-- **Complete packet with an unknown mandatory extension**: rejected as a whole, exactly the
packet is consumed, nothing is taken from the memory, the label memory is cleared.  (No
hypothesis on the label memory: the walk comes before the label resolution.) -/
theorem decap_extCompletePkt_unknown (hz : lbl ≠ zeroLabel) (hne : exts ≠ [])
    (hwf : ∀ e ∈ exts, e.len = PROTOCOL_LEN + e.data.length) (hu : HasUnknown mgr exts)
    (hlen : pdu.length + lbl.len + PROTOCOL_LEN + extLen pt exts ≤ GSE_LEN_MAX) :
    decap crc mgr ds (extCompletePkt pt lbl exts pdu ++ rest) =
      ⟨.err .unknownMandatoryHeader,
       pdu.length + lbl.len + PROTOCOL_LEN + extLen pt exts + FIXED_HEADER_LEN,
       ⟨ds.mem, none⟩⟩ := by
  have hW := extWire_length (pt := pt) hne hwf
  obtain ⟨e, tl, rfl⟩ := List.exists_cons_of_ne_nil hne
  rw [extCompletePkt_split, show extFirstId (e :: tl) = e.id from rfl]
  rw [decap_complete_ext_eq crc mgr ds rest hz hu.head_lt hlen
    (by rw [List.length_append, hW]; gse_omega)]
  have := walkExt_unknown hne hu pt pdu
  rw [List.head_cons] at this
  rw [this]
  rfl

end completeChain

/-! ### `decap` on a first fragment whose type field is an extension id -/

/-- `decap_first` from the label resolution and the result of the extension walk on (proof
device, as `completeCont`) -/
def firstCont (ds : Dec) (buf : Bytes) (lt : LabelType) (pktLen gseLen fragId totalLen : Nat)
    (cur : Label) (last' : Option Label) (walk : Res WalkErr WalkOk) : DecOut :=
  let bufLen := buf.length
  let labelLen := lt.len
  let off := FIXED_HEADER_LEN + FRAG_ID_LEN + TOTAL_LENGTH_LEN + PROTOCOL_LEN + labelLen
  match walk with
  | .panic => ⟨.panic, 0, ⟨ds.mem, last'⟩⟩
  | .err .bufferTooSmall => ds.fail ds.mem .sizePduBuffer bufLen
  | .err .unknownMandatoryHeader => ds.fail ds.mem .unknownMandatoryHeader pktLen
  | .ok w =>
    let off := off + w.len
    let hdr := FRAG_ID_LEN + TOTAL_LENGTH_LEN + labelLen + w.len + PROTOCOL_LEN
    if gseLen < hdr then ⟨.panic, 0, ⟨ds.mem, last'⟩⟩
    else
      let n := gseLen - hdr
      if totalLen ≤ n % 65536 then ds.fail ds.mem .totalLength bufLen
      else
        let ctx : Ctx := ⟨cur, w.pt, fragId, totalLen, n % 65536, lt == .reuse, w.exts⟩
        match ds.mem.newFrag ctx with
        | (.panic, m1) => ⟨.panic, 0, ⟨m1, last'⟩⟩
        | (.err e, m1) => ds.fail m1 (.memory e) pktLen
        | (.ok (ctx, st), m1) =>
          if st.data.length + labelLen + w.len + PROTOCOL_LEN + FRAG_ID_LEN + TOTAL_LENGTH_LEN
              < gseLen then
            giveBack m1 none st .sizePduBuffer pktLen
          else
            match (slice buf off n).bind (blit st.data 0) with
            | none => ⟨.panic, 0, ⟨m1, last'⟩⟩
            | some data =>
              let st' : Storage := { st with data := data }
              let md : Meta := ⟨0, ctx.pt, ctx.label, w.exts⟩
              match m1.saveFrag (ctx, st') with
              | (.ok (), m2) => ⟨.ok (.fragmented md), pktLen, ⟨m2, last'⟩⟩
              | (.err e, m2) => ⟨.err (.memory e), pktLen, ⟨m2, last'⟩⟩
              | (.panic, m2) => ⟨.panic, 0, ⟨m2, last'⟩⟩

section firstExt
variable (crc : CrcFn) (mgr : MgrFn) (ds : Dec) {lbl : Label} {first G fid tl : Nat} {body : Bytes}
  (rest : Bytes)

/-- A first fragment whose type field holds an extension id: header, fragment id, total length,
id, label, then `body` (extension area and payload).  The label is resolved first, then `decap`
hands exactly `body` to the walker. -/
theorem decap_first_ext_eq (hz : lbl ≠ zeroLabel) (hfirst : first < SECOND_RANGE_PTYPE)
    (hG : G ≤ GSE_LEN_MAX) (hfid : fid < 256) (htl : tl < 65536)
    (hbody : FRAG_ID_LEN + TOTAL_LENGTH_LEN + PROTOCOL_LEN + lbl.len + body.length = G) :
    decap crc mgr ds (be16 (genHeader .first lbl.type G) ++ [u8 fid] ++ be16 tl ++ be16 first
        ++ lbl.bytes ++ body ++ rest)
      = match resolveLabel lbl.type lbl ds.last with
        | .bad e => ds.fail ds.mem e (G + FIXED_HEADER_LEN)
        | .ok cur last' =>
          firstCont ds
            (be16 (genHeader .first lbl.type G) ++ [u8 fid] ++ be16 tl ++ be16 first
              ++ lbl.bytes ++ body ++ rest)
            lbl.type (G + FIXED_HEADER_LEN) G fid tl cur last' (walkExt mgr body first) := by
  generalize hbuf : be16 (genHeader .first lbl.type G) ++ [u8 fid] ++ be16 tl ++ be16 first
    ++ lbl.bytes ++ body ++ rest = buf
  have hL : buf.length = 2 + 1 + 2 + 2 + lbl.len + body.length + rest.length := by
    rw [← hbuf]
    simp only [List.length_append, be16_length, Label.bytes_length, List.length_cons,
      List.length_nil]
  rw [decap_header crc mgr ds (k := .first) (lt := lbl.type) (g := G)
    (tail := [u8 fid] ++ be16 tl ++ be16 first ++ lbl.bytes ++ body ++ rest)
    (by rw [← hbuf]; simp only [List.append_assoc]) hG (by simp)
    (by rw [hL]; gse_omega)]
  simp only []
  unfold decapFirst firstCont
  simp only []
  rw [← Label.len_eq_type_len]
  rw [if_neg (by gse_omega)]
  rw [get8_at' (a := be16 (genHeader .first lbl.type G)) (n := fid)
    (rest := be16 tl ++ be16 first ++ lbl.bytes ++ body ++ rest)
    (by rw [← hbuf]; simp only [List.append_assoc]) (by simp) hfid]
  rw [get16_at' (a := be16 (genHeader .first lbl.type G) ++ [u8 fid]) (n := tl)
    (rest := be16 first ++ lbl.bytes ++ body ++ rest)
    (by rw [← hbuf]; simp only [List.append_assoc]) (by simp) htl]
  rw [get16_at' (a := be16 (genHeader .first lbl.type G) ++ [u8 fid] ++ be16 tl) (n := first)
    (rest := lbl.bytes ++ body ++ rest)
    (by rw [← hbuf]; simp only [List.append_assoc]) (by simp)
    (by simp only [SECOND_RANGE_PTYPE] at hfirst; omega)]
  simp only []
  rw [slice_at' (a := be16 (genHeader .first lbl.type G) ++ [u8 fid] ++ be16 tl ++ be16 first)
    (s := lbl.bytes) (c := body ++ rest) (by rw [← hbuf]; simp only [List.append_assoc]) (by simp)
    lbl.bytes_length.symm]
  rw [Option.bind_some, Label.new_type_bytes]
  simp only []
  rw [if_neg hz]
  cases resolveLabel lbl.type lbl ds.last with
  | bad e => rfl
  | ok cur last' =>
    simp only []
    rw [if_pos hfirst, if_neg (by gse_omega)]
    rw [slice_at' (a := be16 (genHeader .first lbl.type G) ++ [u8 fid] ++ be16 tl ++ be16 first
        ++ lbl.bytes) (s := body) (c := rest) hbuf.symm
      (by simp only [List.length_append, be16_length, Label.bytes_length, List.length_cons,
        List.length_nil, FIXED_HEADER_LEN, FRAG_ID_LEN, TOTAL_LENGTH_LEN, PROTOCOL_LEN])
      (by gse_omega)]
    rfl

end firstExt

/-- the first fragment `encap_ext` builds (closed form of `encapExt_first`) -/
def extFirstPkt (pt : Nat) (lbl : Label) (exts : List Ext) (fid tl : Nat) (payload : Bytes) : Bytes :=
  be16 (genHeader .first lbl.type
      (FRAG_ID_LEN + TOTAL_LENGTH_LEN + PROTOCOL_LEN + lbl.len + extLen pt exts + payload.length))
    ++ [u8 fid] ++ be16 tl ++ extMiddle pt lbl exts ++ payload

theorem extFirstPkt_length {pt : Nat} {lbl : Label} {exts : List Ext} {fid tl : Nat}
    {payload : Bytes} (hne : exts ≠ []) (hwf : ∀ e ∈ exts, e.len = PROTOCOL_LEN + e.data.length) :
    (extFirstPkt pt lbl exts fid tl payload).length
      = FIRST_FRAG_LEN + lbl.len + extLen pt exts + payload.length := by
  unfold extFirstPkt
  simp only [List.length_append, be16_length, extMiddle_length pt lbl hne hwf, List.length_cons,
    List.length_nil]
  gse_omega

theorem extFirstPkt_split (pt : Nat) (lbl : Label) (exts : List Ext) (fid tl : Nat)
    (payload rest : Bytes) :
    extFirstPkt pt lbl exts fid tl payload ++ rest
      = be16 (genHeader .first lbl.type
            (FRAG_ID_LEN + TOTAL_LENGTH_LEN + PROTOCOL_LEN + lbl.len + extLen pt exts + payload.length))
          ++ [u8 fid] ++ be16 tl ++ be16 (extFirstId exts) ++ lbl.bytes ++ (extWire pt exts ++ payload)
          ++ rest := by
  unfold extFirstPkt
  rw [extMiddle_eq_wire]
  simp only [List.append_assoc]

/-- `new_frag` when the slot of the fragment id is free and a free buffer `s` is on top of the
stack, or when the slot is occupied by a context holding the buffer `s` (which is reused): the
caller gets `s`, the slot is empty afterwards. -/
theorem Mem.newFrag_slot {m : Mem} {c : Ctx} {s : Storage} {free : List Storage}
    (h0 : m.maxFragId ≠ 0)
    (hslot : (m.frags[c.fragId % m.maxFragId]? = some none ∧ m.storages = s :: free) ∨
      (∃ c0, m.frags[c.fragId % m.maxFragId]? = some (some (c0, s)) ∧ m.storages = free)) :
    m.newFrag c = (.ok (c, s),
      { m with storages := free, frags := m.frags.set (c.fragId % m.maxFragId) none }) := by
  unfold Mem.newFrag
  rw [if_neg h0]
  rcases hslot with ⟨h1, h2⟩ | ⟨c0, h1, h2⟩
  · simp only [h1, Mem.newPdu, h2]
  · simp only [h1]
    rw [← h2]

/-- `save_frag` into the slot `new_frag` has just emptied -/
theorem Mem.saveFrag_after_newFrag {m : Mem} {cs : Ctx × Storage} {free : List Storage}
    (h0 : m.maxFragId ≠ 0) (hlt : cs.1.fragId % m.maxFragId < m.frags.length) :
    ({ m with storages := free, frags := m.frags.set (cs.1.fragId % m.maxFragId) none } : Mem).saveFrag cs
      = (.ok (), { m with storages := free,
                          frags := m.frags.set (cs.1.fragId % m.maxFragId) (some cs) }) := by
  unfold Mem.saveFrag
  simp only []
  rw [if_neg h0, List.getElem?_set_self hlt]
  simp only [List.set_set]

section firstChain
variable (crc : CrcFn) {mgr : MgrFn} (ds : Dec) {lbl : Label} {pt fid tl : Nat} {exts : List Ext}
  {payload : Bytes} (rest : Bytes)

/-- **First fragment with an extension chain, success**: the context saved under the fragment id
carries the resolved label, the protocol type, the total length, the number of payload bytes and
the extension list; the buffer holds the payload at its start. -/
theorem decap_extFirstPkt (hz : lbl ≠ zeroLabel) (hne : exts ≠ []) (hk : Knows mgr pt exts)
    (hpt : pt < MAX_MANDATORY_VAL_PTYPE ∨ (SECOND_RANGE_PTYPE ≤ pt ∧ pt < 65536))
    (hlen : FRAG_ID_LEN + TOTAL_LENGTH_LEN + PROTOCOL_LEN + lbl.len + extLen pt exts + payload.length
      ≤ GSE_LEN_MAX)
    (hfid : fid < 256) (htl : tl < 65536) (httl : payload.length < tl)
    (h0 : ds.mem.maxFragId ≠ 0)
    {s : Storage} {free : List Storage}
    (hslot : (ds.mem.frags[fid % ds.mem.maxFragId]? = some none ∧ ds.mem.storages = s :: free) ∨
      (∃ c0, ds.mem.frags[fid % ds.mem.maxFragId]? = some (some (c0, s)) ∧ ds.mem.storages = free))
    (hcap : payload.length ≤ s.data.length)
    {cur : Label} {last' : Option Label} (hr : resolveLabel lbl.type lbl ds.last = .ok cur last') :
    decap crc mgr ds (extFirstPkt pt lbl exts fid tl payload ++ rest) =
      ⟨.ok (.fragmented ⟨0, pt, cur, exts⟩),
       FIRST_FRAG_LEN + lbl.len + extLen pt exts + payload.length,
       ⟨{ ds.mem with
            storages := free,
            frags := ds.mem.frags.set (fid % ds.mem.maxFragId)
              (some (⟨cur, pt, fid, tl, payload.length, lbl.type == .reuse, exts⟩,
                     ⟨s.id, payload ++ s.data.drop payload.length⟩)) },
        last'⟩⟩ := by
  have hW := extWire_length (pt := pt) hne hk.extOk
  have hidx : fid % ds.mem.maxFragId < ds.mem.frags.length := by
    rcases hslot with ⟨h1, -⟩ | ⟨c0, h1, -⟩ <;>
      exact (List.getElem?_eq_some_iff.mp h1).1
  rw [extFirstPkt_split]
  rw [decap_first_ext_eq crc mgr ds rest hz
    (extFirstId_lt hne (hk.wf _ (List.head_mem hne))) hlen hfid htl
    (by rw [List.length_append, hW]; gse_omega)]
  rw [hr]
  simp only []
  rw [extFirstId_eq_head hne, walkExt_chain hne hk hpt payload]
  unfold firstCont
  simp only []
  rw [← Label.len_eq_type_len, hW]
  rw [if_neg (by gse_omega)]
  have hn : FRAG_ID_LEN + TOTAL_LENGTH_LEN + PROTOCOL_LEN + lbl.len + extLen pt exts + payload.length
      - (FRAG_ID_LEN + TOTAL_LENGTH_LEN + lbl.len + extLen pt exts + PROTOCOL_LEN)
      = payload.length := by omega
  rw [hn, Nat.mod_eq_of_lt (by gse_omega), if_neg (by omega)]
  rw [Mem.newFrag_slot (c := ⟨cur, pt, fid, tl, payload.length, lbl.type == .reuse, exts⟩) h0 hslot]
  simp only []
  rw [if_neg (by gse_omega)]
  rw [slice_at' (a := be16 (genHeader .first lbl.type
        (FRAG_ID_LEN + TOTAL_LENGTH_LEN + PROTOCOL_LEN + lbl.len + extLen pt exts + payload.length))
      ++ [u8 fid] ++ be16 tl ++ be16 (exts.head hne).id ++ lbl.bytes ++ extWire pt exts)
    (s := payload) (c := rest) (by simp only [List.append_assoc])
    (by simp only [List.length_append, be16_length, Label.bytes_length, List.length_cons,
      List.length_nil, hW, FIXED_HEADER_LEN, FRAG_ID_LEN, TOTAL_LENGTH_LEN, PROTOCOL_LEN]) rfl]
  rw [Option.bind_some, blit_zero' hcap]
  simp only []
  rw [Mem.saveFrag_after_newFrag (m := ds.mem)
    (cs := (⟨cur, pt, fid, tl, payload.length, lbl.type == .reuse, exts⟩,
            ⟨s.id, payload ++ s.data.drop payload.length⟩)) h0 hidx]
  simp only []
  congr 1
  gse_omega

/-- **First fragment with an unknown mandatory extension**: rejected as a whole, exactly the
packet is consumed, nothing is taken from the memory, the label memory is cleared.  When the label
cannot be resolved (label re-use without a usable saved label) the error is the label error,
otherwise `UnknownMandatoryHeader`. -/
theorem decap_extFirstPkt_unknown (hz : lbl ≠ zeroLabel) (hne : exts ≠ [])
    (hwf : ∀ e ∈ exts, e.len = PROTOCOL_LEN + e.data.length) (hu : HasUnknown mgr exts)
    (hlen : FRAG_ID_LEN + TOTAL_LENGTH_LEN + PROTOCOL_LEN + lbl.len + extLen pt exts + payload.length
      ≤ GSE_LEN_MAX)
    (hfid : fid < 256) (htl : tl < 65536) :
    decap crc mgr ds (extFirstPkt pt lbl exts fid tl payload ++ rest) =
      ⟨.err (match resolveLabel lbl.type lbl ds.last with
             | .bad e => e
             | .ok _ _ => .unknownMandatoryHeader),
       FIRST_FRAG_LEN + lbl.len + extLen pt exts + payload.length,
       ⟨ds.mem, none⟩⟩ := by
  have hW := extWire_length (pt := pt) hne hwf
  obtain ⟨e, tl', rfl⟩ := List.exists_cons_of_ne_nil hne
  rw [extFirstPkt_split, show extFirstId (e :: tl') = e.id from rfl]
  rw [decap_first_ext_eq crc mgr ds rest hz hu.head_lt hlen hfid htl
    (by rw [List.length_append, hW]; gse_omega)]
  have hlen' : FRAG_ID_LEN + TOTAL_LENGTH_LEN + PROTOCOL_LEN + lbl.len + extLen pt (e :: tl')
      + payload.length + FIXED_HEADER_LEN
      = FIRST_FRAG_LEN + lbl.len + extLen pt (e :: tl') + payload.length := by gse_omega
  cases resolveLabel lbl.type lbl ds.last with
  | bad e' =>
    simp only [Dec.fail]
    rw [hlen']
  | ok cur last' =>
    have := walkExt_unknown hne hu pt payload
    rw [List.head_cons] at this
    simp only []
    rw [this]
    simp only [firstCont, Dec.fail]
    rw [hlen']

end firstChain

/-! ### What an `Ok` of `encap_ext` means -/

/-- the label as written: the requested one or the re-use marker -/
theorem writtenLabel_cases (es : Enc) (l : Label) :
    (checkLabelReUse es l).1 = l ∨ (checkLabelReUse es l).1 = .reuse := by
  unfold checkLabelReUse
  repeat' split
  all_goals simp

theorem writtenLabel_ne_zero {es : Enc} {l : Label} (hz : l ≠ zeroLabel) :
    (checkLabelReUse es l).1 ≠ zeroLabel := by
  rcases writtenLabel_cases es l with h | h <;> rw [h]
  · exact hz
  · decide

section inv
variable {crc : CrcFn} {es : Enc} {pdu : Bytes} {fid pt : Nat} {label : Label} {buf : Bytes}
  {exts : List Ext}

/-- `encap_ext` returned `Completed(n)`: the guards that held and the buffer in closed form -/
theorem encapExt_completed_inv (hwf : ∀ e ∈ exts, e.len = PROTOCOL_LEN + e.data.length) {n : Nat}
    (hres : (encapExt crc es pdu fid pt label buf exts).res = .ok (.completed n)) :
    let lbl := (checkLabelReUse es label).1
    label ≠ zeroLabel ∧ exts ≠ [] ∧
    pdu.length + lbl.len + PROTOCOL_LEN + extLen pt exts ≤ GSE_LEN_MAX ∧
    n = pdu.length + lbl.len + PROTOCOL_LEN + extLen pt exts + FIXED_HEADER_LEN ∧
    n ≤ buf.length ∧
    (encapExt crc es pdu fid pt label buf exts).buf = extCompletePkt pt lbl exts pdu ++ buf.drop n := by
  have h := encapExt_cases crc es pdu fid pt label buf exts hwf
  dsimp only at h ⊢
  generalize (checkLabelReUse es label).1 = lbl at h ⊢
  rcases h with ⟨_, h⟩ | ⟨lastExt, hlast, ⟨_, h⟩ | ⟨hfm, ⟨_, h⟩ | ⟨hpt, ⟨_, h⟩ | ⟨hz, ⟨hfit, h⟩ |
    ⟨_, _, h⟩ | ⟨_, _, _, h⟩ | ⟨_, _, _, _, h⟩⟩⟩⟩⟩ <;> rw [h] at hres ⊢ <;>
    first | (simp at hres; done) | skip
  have hn : n = pdu.length + lbl.len + PROTOCOL_LEN + extLen pt exts + FIXED_HEADER_LEN := by
    simp only [Res.ok.injEq, EncStatus.completed.injEq] at hres
    exact hres.symm
  have hne : exts ≠ [] := by intro he; rw [he] at hlast; cases hlast
  refine ⟨hz, hne, hfit.2, hn, ?_, ?_⟩
  · have := hfit.1; rw [hn]; gse_omega
  · simp only [extCompletePkt]
    congr 2
    rw [hn]; gse_omega

/-- `encap_ext` returned `Fragmented(n, ctx)`: the guards that held, the context and the buffer in
closed form; `k = ctx.pos` PDU bytes are in the packet -/
theorem encapExt_fragmented_inv (hwf : ∀ e ∈ exts, e.len = PROTOCOL_LEN + e.data.length) {n : Nat}
    {ctx : FragCtx}
    (hres : (encapExt crc es pdu fid pt label buf exts).res = .ok (.fragmented n ctx)) :
    let lbl := (checkLabelReUse es label).1
    let k := firstPayloadLen (lbl.len + extLen pt exts) buf.length
    label ≠ zeroLabel ∧ exts ≠ [] ∧ k < pdu.length ∧
    pdu.length + PROTOCOL_LEN + lbl.len ≤ TOTAL_LEN_MAX ∧
    FRAG_ID_LEN + TOTAL_LENGTH_LEN + PROTOCOL_LEN + lbl.len + extLen pt exts + k ≤ GSE_LEN_MAX ∧
    n = FIRST_FRAG_LEN + lbl.len + extLen pt exts + k ∧
    ctx = ⟨fid, crc pdu pt (pdu.length + PROTOCOL_LEN + lbl.len) lbl.bytes, k⟩ ∧
    n ≤ buf.length ∧
    (encapExt crc es pdu fid pt label buf exts).buf
      = extFirstPkt pt lbl exts fid (pdu.length + PROTOCOL_LEN + lbl.len) (pdu.take k)
          ++ buf.drop n := by
  have h := encapExt_cases crc es pdu fid pt label buf exts hwf
  dsimp only at h ⊢
  generalize (checkLabelReUse es label).1 = lbl at h ⊢
  generalize hk : firstPayloadLen (lbl.len + extLen pt exts) buf.length = k at h ⊢
  rcases h with ⟨_, h⟩ | ⟨lastExt, hlast, ⟨_, h⟩ | ⟨hfm, ⟨_, h⟩ | ⟨hpt, ⟨_, h⟩ | ⟨hz, ⟨_, h⟩ |
    ⟨_, _, h⟩ | ⟨_, _, _, h⟩ | ⟨hnf, hb, hnt, hlt, h⟩⟩⟩⟩⟩ <;> rw [h] at hres ⊢ <;>
    first | (simp at hres; done) | skip
  simp only [Res.ok.injEq, EncStatus.fragmented.injEq] at hres
  obtain ⟨hn, hctx⟩ := hres
  have hk1 : k ≤ GSE_LEN_MAX - (FRAG_ID_LEN + TOTAL_LENGTH_LEN + PROTOCOL_LEN + (lbl.len + extLen pt exts)) := by
    rw [← hk]; exact Nat.min_le_right _ _
  have hk2 : k ≤ buf.length - (FIXED_HEADER_LEN + PROTOCOL_LEN + (lbl.len + extLen pt exts)
      + FRAG_ID_LEN + TOTAL_LENGTH_LEN) := by rw [← hk]; exact Nat.min_le_left _ _
  have htk : (pdu.take k).length = k := by rw [List.length_take]; omega
  have hne : exts ≠ [] := by intro he; rw [he] at hlast; cases hlast
  refine ⟨hz, hne, hlt, ?_, ?_, hn.symm, hctx.symm, ?_, ?_⟩
  · exact Nat.le_of_not_lt (fun hh => hnt (Or.inl hh))
  · have := Nat.le_of_not_lt (fun hh => hnt (Or.inr hh)); gse_omega
  · rw [← hn]; gse_omega
  · simp only [extFirstPkt, htk]
    rw [← hn]

end inv

/-- The receiver's label memory is in step with the sender: when the label field is the re-use
marker the receiver remembers the 3- or 6-byte label `l`; otherwise `l` is the label in the
packet.  Then `decap` resolves the label to `l` and remembers it (a broadcast label clears the
memory). -/
theorem resolveLabel_sync {lbl label l : Label} {last : Option Label}
    (hw : lbl = label ∨ lbl = .reuse)
    (hsync : lbl = .reuse → last = some l ∧ (l.type = .six ∨ l.type = .three))
    (hint : lbl ≠ .reuse → l = label) :
    resolveLabel lbl.type lbl last = .ok l (if lbl = .broadcast then none else some l) := by
  by_cases hr : lbl = .reuse
  · obtain ⟨h1, h2⟩ := hsync hr
    subst hr h1
    cases l <;> simp [Label.type] at h2 <;> rfl
  · have hl := hint hr
    have hlbl : lbl = label := hw.resolve_right hr
    subst hl hlbl
    cases lbl <;> first | rfl | exact absurd rfl hr

/-- handing a buffer back never yields `Ok` -/
theorem giveBack_ne_ok (m : Mem) (last : Option Label) (s : Storage) (e : DecErr) (n : Nat)
    (st : DecStatus) : (giveBack m last s e n).res ≠ .ok st := by
  unfold giveBack
  split <;> simp

/-! ### Fixtures for the `example`s (here and in Props/C13.lean) -/
namespace C13
/-- one extension of H-LEN class 1 (no data), one of class 5 (8 bytes), a non-final mandatory one
with 3 bytes and the final mandatory extension 0x81 -/
def chain : List Ext :=
  [⟨0x0101, .noData, []⟩, ⟨0x0501, .data8, [1, 2, 3, 4, 5, 6, 7, 8]⟩, ⟨0x0042, .mandatory, [1, 2, 3]⟩,
   ⟨0x0081, .mandatory, []⟩]
/-- a manager that knows 0x42 as non-final with 3 bytes and 0x81 as final without data -/
def mgr : MgrFn := fun id => if id = 0x42 then .nonFinal 3 else if id = 0x81 then .final 0 else .unknown
/-- the same chain without the final extension, for a protocol type of the second range -/
def chainOpt : List Ext := chain.dropLast
end C13

example : Knows C13.mgr 0x81 C13.chain := by decide
example : Knows C13.mgr 0x0800 C13.chainOpt := by decide
example : ¬Knows simpleMgr 0x81 C13.chain := by decide
example : walkExt C13.mgr (extWire 0x81 C13.chain ++ [0xAA, 0xBB]) 0x0101
    = .ok ⟨C13.chain, 0x81, 17⟩ := by decide +kernel
example : walkExt C13.mgr (extWire 0x0800 C13.chainOpt ++ [0xAA, 0xBB]) 0x0101
    = .ok ⟨C13.chainOpt, 0x0800, 17⟩ := by decide +kernel
example : HasUnknown simpleMgr C13.chain := by decide
example : walkExt simpleMgr (extWire 0x81 C13.chain ++ [0xAA, 0xBB]) 0x0101
    = .err .unknownMandatoryHeader := by decide +kernel
/-- a manager that knows 0x42 but not 0x81: the walker gets past the first three extensions -/
example : HasUnknown (fun id => if id = 0x42 then .nonFinal 3 else .unknown) C13.chain := by decide

end Gse
