/-
Byte-string toolkit: `slice`, `blit`, `wrSeq`, `be16`, `be32`, `get8`, `get16`, `get32`
(Model/Basic.lean, Model/Encap.lean) and the elementary `Label` facts.
Core Lean only.
-/
import GseVerif.Model.Encap

namespace Gse
open Gen

/-- `omega` after unfolding the generated length constants (which `omega` does not see through). -/
macro "gse_omega" : tactic =>
  `(tactic| (simp only [FIXED_HEADER_LEN, PROTOCOL_LEN, FRAG_ID_LEN, TOTAL_LENGTH_LEN,
      FIRST_FRAG_LEN, GSE_LEN_MAX, TOTAL_LEN_MAX, CRC_LEN, LABEL_6_B_LEN, LABEL_3_B_LEN,
      LABEL_BROADCAST_LEN, LABEL_REUSE_LEN, MAX_MANDATORY_VAL_PTYPE, SECOND_RANGE_PTYPE] at * <;>
    omega))

/-! ### `slice` -/

theorem slice_eq_some {b : Bytes} {off len : Nat} {s : Bytes} :
    slice b off len = some s ↔ off + len ≤ b.length ∧ s = (b.drop off).take len := by
  unfold slice
  split
  · rename_i h
    simp only [Option.some.injEq, h, true_and]
    exact eq_comm
  · rename_i h
    simp [h]

theorem slice_eq_none {b : Bytes} {off len : Nat} :
    slice b off len = none ↔ b.length < off + len := by
  unfold slice
  split
  · rename_i h; simp only [reduceCtorEq, false_iff]; omega
  · rename_i h; simp only [true_iff]; omega

/-- the slice in closed form when it is in range -/
theorem slice_of_le {b : Bytes} {off len : Nat} (h : off + len ≤ b.length) :
    slice b off len = some ((b.drop off).take len) := by
  unfold slice; rw [if_pos h]

theorem slice_length {b : Bytes} {off len : Nat} {s : Bytes} (h : slice b off len = some s) :
    s.length = len := by
  obtain ⟨h1, rfl⟩ := slice_eq_some.mp h
  simp only [List.length_take, List.length_drop]
  omega

theorem slice_full (b : Bytes) : slice b 0 b.length = some b := by
  rw [slice_of_le (by omega)]
  simp

/-- a prefix slice is a `take` -/
theorem slice_zero {b : Bytes} {len : Nat} (h : len ≤ b.length) :
    slice b 0 len = some (b.take len) := by
  rw [slice_of_le (by omega)]
  simp

theorem slice_mid (a s c : Bytes) : slice (a ++ s ++ c) a.length s.length = some s := by
  rw [slice_of_le (by simp only [List.length_append]; omega)]
  simp [List.append_assoc]

/-- offset form with an explicit length -/
theorem slice_mid' (a s c : Bytes) {n : Nat} (hn : s.length = n) :
    slice (a ++ s ++ c) a.length n = some s := by
  subst hn; exact slice_mid a s c

/-- a slice inside the first part of `x ++ rest` does not depend on `rest` -/
theorem slice_append_left {x : Bytes} (rest : Bytes) {off len : Nat} (h : off + len ≤ x.length) :
    slice (x ++ rest) off len = slice x off len := by
  rw [slice_of_le h, slice_of_le (by simp only [List.length_append]; omega)]
  congr 1
  rw [List.drop_append_of_le_length (by omega)]
  rw [List.take_append_of_le_length (by simp only [List.length_drop]; omega)]

/-- a slice entirely behind the first part of `x ++ rest` is a slice of `rest` -/
theorem slice_append_right (x rest : Bytes) (off len : Nat) :
    slice (x ++ rest) (x.length + off) len = slice rest off len := by
  unfold slice
  simp only [List.length_append]
  have : x.length + off + len ≤ x.length + rest.length ↔ off + len ≤ rest.length := by omega
  simp only [this]
  split
  · congr 2
    rw [List.drop_append]
    simp
  · rfl

/-! ### `blit` -/

theorem blit_eq_some {b : Bytes} {off : Nat} {src b' : Bytes} :
    blit b off src = some b' ↔
      off + src.length ≤ b.length ∧ b' = b.take off ++ src ++ b.drop (off + src.length) := by
  unfold blit
  split
  · rename_i h
    simp only [Option.some.injEq, h, true_and]
    exact eq_comm
  · rename_i h
    simp [h]

theorem blit_eq_none {b : Bytes} {off : Nat} {src : Bytes} :
    blit b off src = none ↔ b.length < off + src.length := by
  unfold blit
  split
  · rename_i h; simp only [reduceCtorEq, false_iff]; omega
  · rename_i h; simp only [true_iff]; omega

theorem blit_of_le {b : Bytes} {off : Nat} {src : Bytes} (h : off + src.length ≤ b.length) :
    blit b off src = some (b.take off ++ src ++ b.drop (off + src.length)) := by
  unfold blit; rw [if_pos h]

theorem blit_length {b : Bytes} {off : Nat} {src b' : Bytes} (h : blit b off src = some b') :
    b'.length = b.length := by
  obtain ⟨h1, rfl⟩ := blit_eq_some.mp h
  simp only [List.length_append, List.length_take, List.length_drop]
  omega

/-- what a `copy_from_slice` leaves: the bytes before and after are untouched and the window
holds the source -/
theorem blit_spec {b : Bytes} {off : Nat} {src b' : Bytes} (h : blit b off src = some b') :
    b'.take off = b.take off ∧ b'.drop (off + src.length) = b.drop (off + src.length) ∧
      slice b' off src.length = some src := by
  obtain ⟨h1, rfl⟩ := blit_eq_some.mp h
  have hl : (b.take off).length = off := by simp only [List.length_take]; omega
  refine ⟨?_, ?_, ?_⟩
  · rw [List.append_assoc, List.take_append_of_le_length (by omega)]
    rw [List.take_of_length_le (by omega)]
  · exact List.drop_left' (by simp only [List.length_append, hl])
  · have := slice_mid (b.take off) src (b.drop (off + src.length))
    rwa [hl] at this

/-! ### `wrSeq`: sequential writes are one concatenation -/

/-- (The hypothesis `off ≤ b.length` is only needed for `chunks = []`, where nothing is indexed:
`wrSeq [] 1 [] = some ([], 1)`.) -/
theorem wrSeq_eq (b : Bytes) (off : Nat) (chunks : List Bytes) (hoff : off ≤ b.length) :
    wrSeq b off chunks =
      if off + chunks.flatten.length ≤ b.length then
        some (b.take off ++ chunks.flatten ++ b.drop (off + chunks.flatten.length),
              off + chunks.flatten.length)
      else none := by
  induction chunks generalizing b off with
  | nil =>
    simp only [wrSeq, List.flatten_nil, List.length_nil, Nat.add_zero, List.append_nil,
      List.take_append_drop]
    rw [if_pos hoff]
  | cons c cs ih =>
    simp only [wrSeq, List.flatten_cons, List.length_append]
    by_cases hc : off + c.length ≤ b.length
    · rw [blit_of_le hc]
      simp only
      have hlen : (b.take off ++ c ++ b.drop (off + c.length)).length = b.length := by
        simp only [List.length_append, List.length_take, List.length_drop]; omega
      rw [ih _ _ (by omega), hlen]
      have hto : (b.take off).length = off := by simp only [List.length_take]; omega
      by_cases hcs : off + c.length + cs.flatten.length ≤ b.length
      · rw [if_pos hcs, if_pos (by omega)]
        congr 2
        · -- take (off + |c|) of the blitted buffer is `take off b ++ c`
          have h1 : (b.take off ++ c).length = off + c.length := by
            simp only [List.length_append, hto]
          have h2 : (b.take off ++ c ++ b.drop (off + c.length)).take (off + c.length)
              = b.take off ++ c := List.take_left' h1
          have h3 : (b.take off ++ c ++ b.drop (off + c.length)).drop
              (off + c.length + cs.flatten.length) = b.drop (off + (c.length + cs.flatten.length)) := by
            rw [← List.drop_drop, List.drop_left' h1, List.drop_drop]
            congr 1; omega
          rw [h2, h3]
          simp only [List.append_assoc]
        · omega
      · rw [if_neg hcs, if_neg (by omega)]
    · rw [blit_eq_none.mpr (by omega)]
      simp only
      rw [if_neg (by omega)]

/-- without `off ≤ b.length` the closed form fails for the empty chunk list (and only there) -/
example : wrSeq [] 1 [] = some ([], 1) := by decide
example : wrSeq [1, 2, 3, 4, 5] 1 [[7], [8, 9]] = some ([1, 7, 8, 9, 5], 4) := by decide
example : wrSeq [1, 2, 3] 1 [[7], [8, 9]] = none := by decide

/-- the special case `off = 0`: the result starts with the concatenation of the chunks -/
theorem wrSeq_zero (b : Bytes) (chunks : List Bytes) :
    wrSeq b 0 chunks =
      if chunks.flatten.length ≤ b.length then
        some (chunks.flatten ++ b.drop chunks.flatten.length, chunks.flatten.length)
      else none := by
  rw [wrSeq_eq b 0 chunks (Nat.zero_le _)]
  simp only [Nat.zero_add, List.take_zero, List.nil_append]

theorem wrSeq_ne_none {b : Bytes} {chunks : List Bytes} (h : chunks.flatten.length ≤ b.length) :
    wrSeq b 0 chunks = some (chunks.flatten ++ b.drop chunks.flatten.length,
      chunks.flatten.length) := by
  rw [wrSeq_zero, if_pos h]

/-- sequential writes keep the buffer length -/
theorem wrSeq_length {b : Bytes} {off : Nat} {chunks : List Bytes} {b' : Bytes} {o : Nat}
    (hoff : off ≤ b.length) (h : wrSeq b off chunks = some (b', o)) : b'.length = b.length := by
  rw [wrSeq_eq b off chunks hoff] at h
  split at h
  · rename_i hle
    cases h
    simp only [List.length_append, List.length_take, List.length_drop]
    omega
  · cases h

/-! ### big-endian words -/

@[simp] theorem be16_length (n : Nat) : (be16 n).length = 2 := rfl
@[simp] theorem be32_length (n : Nat) : (be32 n).length = 4 := rfl

theorem u8_toNat (n : Nat) : (u8 n).toNat = n % 256 := by
  simp [u8]

theorem rd16_be16 (n : Nat) : rd16 (u8 (n / 256)) (u8 n) = n % 65536 := by
  simp only [rd16, u8_toNat]; omega

theorem rd32_be32 (n : Nat) :
    rd32 (u8 (n / 16777216)) (u8 (n / 65536)) (u8 (n / 256)) (u8 n) = n % 4294967296 := by
  simp only [rd32, u8_toNat]; omega

theorem get8_eq_some {b : Bytes} {off v : Nat} :
    get8 b off = some v ↔ ∃ x, b[off]? = some x ∧ v = x.toNat := by
  unfold get8
  split
  · rename_i x hx
    simp only [Option.some.injEq, hx]
    constructor
    · intro h; exact ⟨x, rfl, h.symm⟩
    · rintro ⟨y, hy, rfl⟩; rw [hy]
  · rename_i hx
    simp [hx]

theorem get16_of_slice {b : Bytes} {off : Nat} {x y : UInt8} (h : slice b off 2 = some [x, y]) :
    get16 b off = some (rd16 x y) := by
  unfold get16; rw [h]

theorem get32_of_slice {b : Bytes} {off : Nat} {w x y z : UInt8}
    (h : slice b off 4 = some [w, x, y, z]) : get32 b off = some (rd32 w x y z) := by
  unfold get32; rw [h]

/-- offset forms: reading back what was written at `a.length` -/
theorem get16_mid (a : Bytes) (n : Nat) (rest : Bytes) :
    get16 (a ++ be16 n ++ rest) a.length = some (n % 65536) := by
  rw [get16_of_slice (slice_mid' a (be16 n) rest (be16_length n)), rd16_be16]

theorem get32_mid (a : Bytes) (n : Nat) (rest : Bytes) :
    get32 (a ++ be32 n ++ rest) a.length = some (n % 2 ^ 32) := by
  rw [get32_of_slice (slice_mid' a (be32 n) rest (be32_length n)), rd32_be32]

theorem get8_mid (a : Bytes) (n : Nat) (rest : Bytes) :
    get8 (a ++ [u8 n] ++ rest) a.length = some (n % 256) := by
  unfold get8
  simp [u8_toNat]

/-- round trips at offset 0 -/
theorem get16_be16 (n : Nat) (rest : Bytes) : get16 (be16 n ++ rest) 0 = some (n % 65536) := by
  simpa using get16_mid [] n rest

theorem get32_be32 (n : Nat) (rest : Bytes) : get32 (be32 n ++ rest) 0 = some (n % 2 ^ 32) := by
  simpa using get32_mid [] n rest

theorem get8_u8 (n : Nat) (rest : Bytes) : get8 ([u8 n] ++ rest) 0 = some (n % 256) := by
  simpa using get8_mid [] n rest

/-- the readers only look at their window: bytes appended behind it are irrelevant -/
theorem get16_append_left {x : Bytes} (rest : Bytes) {off : Nat} (h : off + 2 ≤ x.length) :
    get16 (x ++ rest) off = get16 x off := by
  unfold get16; rw [slice_append_left rest h]

theorem get32_append_left {x : Bytes} (rest : Bytes) {off : Nat} (h : off + 4 ≤ x.length) :
    get32 (x ++ rest) off = get32 x off := by
  unfold get32; rw [slice_append_left rest h]

theorem get8_append_left {x : Bytes} (rest : Bytes) {off : Nat} (h : off < x.length) :
    get8 (x ++ rest) off = get8 x off := by
  unfold get8; rw [List.getElem?_append_left h]

/-- values read are in range -/
theorem get16_lt {b : Bytes} {off v : Nat} (h : get16 b off = some v) : v < 65536 := by
  unfold get16 at h
  split at h
  · cases h
    rename_i x y _
    have := x.toNat_lt; have := y.toNat_lt
    simp only [rd16]; omega
  · cases h

theorem get8_lt {b : Bytes} {off v : Nat} (h : get8 b off = some v) : v < 256 := by
  obtain ⟨x, _, rfl⟩ := get8_eq_some.mp h
  exact x.toNat_lt

/-! ### `Label` -/

theorem Label.bytes_length (l : Label) : l.bytes.length = l.len := by
  cases l <;> rfl

theorem Label.len_eq_type_len (l : Label) : l.len = l.type.len := by
  cases l <;> rfl

theorem Label.new_type_bytes (l : Label) : Label.new l.type l.bytes = some l := by
  cases l <;> rfl

theorem Label.len_le (l : Label) : l.len ≤ LABEL_6_B_LEN := by
  cases l <;> simp [Label.len]

/-- the same bound as a numeral, for `omega` -/
theorem Label.len_le_six (l : Label) : l.len ≤ 6 := l.len_le

/-- the label lengths, as a numeral case split for `omega` -/
theorem Label.len_cases (l : Label) : l.len = 6 ∨ l.len = 3 ∨ l.len = 0 := by
  cases l <;> simp [Label.len]

/-- `Label::new` succeeds only on the right length and then returns a label of that type with
those bytes -/
theorem Label.new_eq_some {lt : LabelType} {bs : Bytes} {l : Label} (h : Label.new lt bs = some l) :
    l.type = lt ∧ l.bytes = bs ∧ bs.length = lt.len := by
  unfold Label.new at h
  split at h
  · rename_i hl
    split at h <;> first
      | (cases h; exact ⟨rfl, rfl, hl⟩)
      | (cases h
         refine ⟨rfl, ?_, hl⟩
         simp only [LabelType.len, LABEL_BROADCAST_LEN, LABEL_REUSE_LEN] at hl
         simp only [Label.bytes]
         exact (List.eq_nil_of_length_eq_zero hl).symm)
      | cases h
  · cases h

end Gse
