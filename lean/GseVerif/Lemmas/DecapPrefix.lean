/-
`decap` never looks beyond the packet (helper lemmas for property C10).

`pktLenOf buf` is the packet length announced by the fixed header at the start of `buf`
(`gse_len + 2`) when the header is not the padding pattern and the buffer holds the whole packet.
For such a buffer every read of `decap` (`slice`, `get8`, `get16`, `get32`, and the slice handed
to the extension walker) lies inside the first `pktLenOf buf` bytes; the only other use of the
buffer is its length in the four "drop the rest of the frame" error returns.
-/
import GseVerif.Model.Decap
import GseVerif.Lemmas.Bytes

namespace Gse
open Gen

/-! ### reads of a prefix -/

theorem take_append_drop_length {b : Bytes} {n : Nat} (hn : n ≤ b.length) :
    (b.take n).length = n := by
  rw [List.length_take]; omega

/-- a slice inside the first `n` bytes is the same on `b` and on `b.take n` -/
theorem slice_take {b : Bytes} {n off len : Nat} (hn : n ≤ b.length) (h : off + len ≤ n) :
    slice (b.take n) off len = slice b off len := by
  have := slice_append_left (x := b.take n) (b.drop n) (off := off) (len := len)
    (by rw [take_append_drop_length hn]; exact h)
  rw [List.take_append_drop] at this
  exact this.symm

theorem get16_take {b : Bytes} {n off : Nat} (hn : n ≤ b.length) (h : off + 2 ≤ n) :
    get16 (b.take n) off = get16 b off := by
  unfold get16; rw [slice_take hn h]

theorem get32_take {b : Bytes} {n off : Nat} (hn : n ≤ b.length) (h : off + 4 ≤ n) :
    get32 (b.take n) off = get32 b off := by
  unfold get32; rw [slice_take hn h]

theorem get8_take {b : Bytes} {n off : Nat} (h : off < n) :
    get8 (b.take n) off = get8 b off := by
  unfold get8; rw [List.getElem?_take_of_lt h]

/-! ### the packet at the start of a buffer -/

/-- Length (`gse_len + 2`) of the packet at the start of `buf`: defined when the buffer holds the
two header bytes, the header is not the padding pattern, and the buffer holds the whole packet. -/
def pktLenOf (buf : Bytes) : Option Nat :=
  if buf.length < FIXED_HEADER_LEN then none
  else
    match get16 buf 0 with
    | none => none
    | some w =>
      match readHeader w with
      | .ok (some (gseLen, _, _)) =>
        if buf.length < gseLen + FIXED_HEADER_LEN then none else some (gseLen + FIXED_HEADER_LEN)
      | _ => none

/-- what `pktLenOf buf = some n` says -/
theorem pktLenOf_eq_some {buf : Bytes} {n : Nat} (h : pktLenOf buf = some n) :
    ∃ w gseLen k lt, FIXED_HEADER_LEN ≤ buf.length ∧ get16 buf 0 = some w ∧
      readHeader w = .ok (some (gseLen, k, lt)) ∧ n = gseLen + FIXED_HEADER_LEN ∧ n ≤ buf.length := by
  unfold pktLenOf at h
  split at h
  · cases h
  rename_i h1
  split at h
  · cases h
  rename_i w hw
  split at h
  · rename_i gseLen k lt hr
    split at h
    · cases h
    rename_i h2
    cases h
    exact ⟨w, gseLen, k, lt, by omega, hw, hr, rfl, by omega⟩
  · cases h

/-- the frame-level errors: the four results that may be returned with the whole buffer length,
dropping the rest of the frame -/
def FrameErr (r : Res DecErr DecStatus) : Prop :=
  r = .err .gseLength ∨ r = .err .sizeBuffer ∨ r = .err .sizePduBuffer ∨ r = .err .totalLength

instance instDecidableFrameErr (r : Res DecErr DecStatus) : Decidable (FrameErr r) := by unfold FrameErr; infer_instance

/-- The extension walk of a start/complete packet: protocol-type field at `ptOff`, extension
area from `off` to `pktLen`.  `none`: no walk (protocol type ≥ `SECOND_RANGE_PTYPE`, or a field
out of range). -/
def walkAt (mgr : MgrFn) (buf : Bytes) (ptOff off pktLen : Nat) : Option (Res WalkErr WalkOk) :=
  match get16 buf ptOff, slice buf off (pktLen - off) with
  | some pt0, some sub => if pt0 < SECOND_RANGE_PTYPE then some (walkExt mgr sub pt0) else none
  | _, _ => none

theorem walkAt_of {mgr : MgrFn} {buf : Bytes} {ptOff off pktLen pt0 : Nat} {sub : Bytes}
    {r : Res WalkErr WalkOk}
    (h1 : get16 buf ptOff = some pt0) (h2 : pt0 < SECOND_RANGE_PTYPE)
    (h3 : slice buf off (pktLen - off) = some sub) (h4 : walkExt mgr sub pt0 = r) :
    walkAt mgr buf ptOff off pktLen = some r := by
  unfold walkAt
  rw [h1, h3]
  simp only [if_pos h2, h4]

/-- the same from the walk expression as it stands in `decapComplete`/`decapFirst` -/
theorem walkAt_of_ite {mgr : MgrFn} {buf : Bytes} {ptOff off pktLen pt0 : Nat} {e : WalkErr}
    (h1 : get16 buf ptOff = some pt0)
    (h2 : (if pt0 < SECOND_RANGE_PTYPE then
            if pktLen < off then (Res.panic : Res WalkErr WalkOk)
            else match slice buf off (pktLen - off) with
              | none => .panic
              | some sub => walkExt mgr sub pt0
          else .ok ⟨[], pt0, 0⟩) = .err e) :
    walkAt mgr buf ptOff off pktLen = some (.err e) := by
  split at h2
  · rename_i hlt
    split at h2
    · cases h2
    split at h2
    · cases h2
    · rename_i sub hs
      exact walkAt_of h1 hlt hs h2
  · cases h2

/-- Relation between the outcomes `o₁`, `o₂` of `decap` on two buffers of lengths `N₁`, `N₂` that
start with the same packet of `n` bytes: same result, same new state, and the consumed lengths are
both `n`, or both the respective buffer length (only with an error `e` of the class `D`: the
"drop the rest of the frame" returns), or both 0 (only with a panic, where the model's consumed
length is a dummy). -/
def PrefixRel (D : DecErr → Prop) (n N₁ N₂ : Nat) (o₁ o₂ : DecOut) : Prop :=
  o₂.res = o₁.res ∧ o₂.st = o₁.st ∧
    ((o₁.res ≠ .panic ∧ o₁.consumed = n ∧ o₂.consumed = n) ∨
     ((∃ e, D e ∧ o₁.res = .err e) ∧ o₁.consumed = N₁ ∧ o₂.consumed = N₂) ∨
     (o₁.res = .panic ∧ o₁.consumed = 0 ∧ o₂.consumed = 0))

section leaves
variable {D : DecErr → Prop}

theorem PrefixRel.mono {D' : DecErr → Prop} {n N₁ N₂ : Nat} {o₁ o₂ : DecOut}
    (hD : ∀ e, D e → D' e) (h : PrefixRel D n N₁ N₂ o₁ o₂) : PrefixRel D' n N₁ N₂ o₁ o₂ := by
  obtain ⟨h1, h2, h3 | ⟨⟨e, he, hr⟩, h3⟩ | h3⟩ := h
  · exact ⟨h1, h2, Or.inl h3⟩
  · exact ⟨h1, h2, Or.inr (Or.inl ⟨⟨e, hD e he, hr⟩, h3⟩)⟩
  · exact ⟨h1, h2, Or.inr (Or.inr h3)⟩

theorem PrefixRel.panic (n N₁ N₂ : Nat) (s : Dec) :
    PrefixRel D n N₁ N₂ ⟨.panic, 0, s⟩ ⟨.panic, 0, s⟩ :=
  ⟨rfl, rfl, Or.inr (Or.inr ⟨rfl, rfl, rfl⟩)⟩

theorem PrefixRel.same (n N₁ N₂ : Nat) (r : Res DecErr DecStatus) (s : Dec) (h : r ≠ .panic) :
    PrefixRel D n N₁ N₂ ⟨r, n, s⟩ ⟨r, n, s⟩ :=
  ⟨rfl, rfl, Or.inl ⟨h, rfl, rfl⟩⟩

theorem PrefixRel.frame (n N₁ N₂ : Nat) (ds : Dec) (m : Mem) (e : DecErr) (h : D e) :
    PrefixRel D n N₁ N₂ (ds.fail m e N₁) (ds.fail m e N₂) :=
  ⟨rfl, rfl, Or.inr (Or.inl ⟨⟨e, h, rfl⟩, rfl, rfl⟩)⟩

theorem PrefixRel.fail (n N₁ N₂ : Nat) (ds : Dec) (m : Mem) (e : DecErr) :
    PrefixRel D n N₁ N₂ (ds.fail m e n) (ds.fail m e n) :=
  ⟨rfl, rfl, Or.inl ⟨by simp [Dec.fail], rfl, rfl⟩⟩

theorem giveBack_res_consumed (m : Mem) (last : Option Label) (s : Storage) (e : DecErr) (n : Nat) :
    (giveBack m last s e n).res ≠ .panic ∧ (giveBack m last s e n).consumed = n := by
  have hp : (m.provision s).1 ≠ .panic := by
    unfold Mem.provision
    split
    · simp
    split <;> simp
  unfold giveBack
  split
  · simp
  · simp
  · rename_i h; rw [h] at hp; exact absurd rfl hp

theorem PrefixRel.giveBack (n N₁ N₂ : Nat) (m : Mem) (last : Option Label) (s : Storage)
    (e : DecErr) : PrefixRel D n N₁ N₂ (giveBack m last s e n) (giveBack m last s e n) :=
  ⟨rfl, rfl, Or.inl ⟨(giveBack_res_consumed m last s e n).1, (giveBack_res_consumed m last s e n).2,
    (giveBack_res_consumed m last s e n).2⟩⟩

end leaves

/-- side conditions of the read lemmas: linear arithmetic over the generated length constants -/
macro "rd_omega" : tactic =>
  `(tactic| (simp only [FIXED_HEADER_LEN, PROTOCOL_LEN, FRAG_ID_LEN, TOTAL_LENGTH_LEN, CRC_LEN,
      LabelType.len, LABEL_6_B_LEN, LABEL_3_B_LEN, LABEL_BROADCAST_LEN, LABEL_REUSE_LEN,
      List.length_append] at * <;> omega))

/-- the membership `D e` at a "drop the rest of the frame" return -/
macro "drop_side" : tactic =>
  `(tactic| first
    | rfl
    | exact Or.inl rfl
    | exact Or.inr (Or.inl rfl)
    | exact Or.inr ⟨rfl, walkAt_of_ite (by assumption) (by assumption)⟩
    | exact Or.inr (Or.inr ⟨rfl, walkAt_of_ite (by assumption) (by assumption)⟩)
    | exact Or.inr ⟨rfl, walkAt_of (by assumption) (by assumption) (by assumption) (by assumption)⟩
    | exact Or.inr (Or.inr ⟨rfl,
        walkAt_of (by assumption) (by assumption) (by assumption) (by assumption)⟩))

/-- closes a leaf of the case analysis: both sides are the same return -/
macro "prefix_leaf" : tactic =>
  `(tactic| first
    | exact PrefixRel.panic _ _ _ _
    | exact PrefixRel.giveBack _ _ _ _ _ _ _
    | exact PrefixRel.fail _ _ _ _ _ _
    | exact PrefixRel.same _ _ _ _ _ (by simp)
    | exact PrefixRel.frame _ _ _ _ _ _ (by drop_side))

/-- case analysis of two identical control-flow trees -/
macro "prefix_tree" : tactic => `(tactic| repeat' (first | prefix_leaf | split))

/-! ### the four per-kind functions -/

theorem decapInter_append (ds : Dec) (p r₁ r₂ : Bytes) (gseLen : Nat)
    (hp : p.length = gseLen + FIXED_HEADER_LEN) :
    PrefixRel (fun e => e = .gseLength) (gseLen + FIXED_HEADER_LEN) (p ++ r₁).length
      (p ++ r₂).length
      (decapInter ds (p ++ r₁) (gseLen + FIXED_HEADER_LEN) gseLen)
      (decapInter ds (p ++ r₂) (gseLen + FIXED_HEADER_LEN) gseLen) := by
  unfold decapInter
  simp only []
  split
  · prefix_leaf
  rename_i h1
  rw [get8_append_left r₁ (by rd_omega), get8_append_left r₂ (by rd_omega),
    slice_append_left r₁ (by rd_omega), slice_append_left r₂ (by rd_omega)]
  prefix_tree

theorem decapEnd_append (crc : CrcFn) (ds : Dec) (p r₁ r₂ : Bytes) (gseLen : Nat)
    (hp : p.length = gseLen + FIXED_HEADER_LEN) :
    PrefixRel (fun e => e = .sizeBuffer) (gseLen + FIXED_HEADER_LEN) (p ++ r₁).length
      (p ++ r₂).length
      (decapEnd crc ds (p ++ r₁) (gseLen + FIXED_HEADER_LEN) gseLen)
      (decapEnd crc ds (p ++ r₂) (gseLen + FIXED_HEADER_LEN) gseLen) := by
  unfold decapEnd
  simp only []
  split
  · prefix_leaf
  rename_i h1
  rw [get8_append_left r₁ (by rd_omega), get8_append_left r₂ (by rd_omega),
    slice_append_left r₁ (by rd_omega), slice_append_left r₂ (by rd_omega),
    get32_append_left r₁ (by rd_omega), get32_append_left r₂ (by rd_omega)]
  prefix_tree

/-- `decap_complete` drops the rest of the frame for a GSE length too short for label and protocol
type, and when the extension walk runs out of the packet -/
def DropComplete (mgr : MgrFn) (p : Bytes) (lt : LabelType) (gseLen : Nat) (e : DecErr) : Prop :=
  e = .gseLength ∨
  (e = .sizePduBuffer ∧
    walkAt mgr p FIXED_HEADER_LEN (FIXED_HEADER_LEN + PROTOCOL_LEN + lt.len)
      (gseLen + FIXED_HEADER_LEN) = some (.err .bufferTooSmall))

theorem decapComplete_append (mgr : MgrFn) (ds : Dec) (p r₁ r₂ : Bytes) (lt : LabelType)
    (gseLen : Nat) (hp : p.length = gseLen + FIXED_HEADER_LEN) :
    PrefixRel (DropComplete mgr p lt gseLen) (gseLen + FIXED_HEADER_LEN) (p ++ r₁).length
      (p ++ r₂).length
      (decapComplete mgr ds (p ++ r₁) lt (gseLen + FIXED_HEADER_LEN) gseLen)
      (decapComplete mgr ds (p ++ r₂) lt (gseLen + FIXED_HEADER_LEN) gseLen) := by
  unfold decapComplete DropComplete
  simp only []
  split
  · prefix_leaf
  rename_i h1
  simp (disch := rd_omega) only [slice_append_left, get16_append_left]
  prefix_tree

/-- `decap_first` drops the rest of the frame for a GSE length too short for its header fields,
when the extension walk runs out of the packet, and for a total length not larger than the first
fragment -/
def DropFirst (mgr : MgrFn) (p : Bytes) (lt : LabelType) (gseLen : Nat) (e : DecErr) : Prop :=
  e = .gseLength ∨ e = .totalLength ∨
  (e = .sizePduBuffer ∧
    walkAt mgr p (FIXED_HEADER_LEN + FRAG_ID_LEN + TOTAL_LENGTH_LEN)
      (FIXED_HEADER_LEN + FRAG_ID_LEN + TOTAL_LENGTH_LEN + PROTOCOL_LEN + lt.len)
      (gseLen + FIXED_HEADER_LEN) = some (.err .bufferTooSmall))

theorem decapFirst_append (mgr : MgrFn) (ds : Dec) (p r₁ r₂ : Bytes) (lt : LabelType)
    (gseLen : Nat) (hp : p.length = gseLen + FIXED_HEADER_LEN) :
    PrefixRel (DropFirst mgr p lt gseLen) (gseLen + FIXED_HEADER_LEN) (p ++ r₁).length
      (p ++ r₂).length
      (decapFirst mgr ds (p ++ r₁) lt (gseLen + FIXED_HEADER_LEN) gseLen)
      (decapFirst mgr ds (p ++ r₂) lt (gseLen + FIXED_HEADER_LEN) gseLen) := by
  unfold decapFirst DropFirst
  simp only []
  split
  · prefix_leaf
  rename_i h1
  rw [get8_append_left r₁ (by rd_omega), get8_append_left r₂ (by rd_omega),
    get16_append_left r₁ (by rd_omega), get16_append_left r₂ (by rd_omega),
    get16_append_left r₁ (by rd_omega), get16_append_left r₂ (by rd_omega)]
  split
  · simp (disch := rd_omega) only [slice_append_left]
    prefix_tree
  · prefix_leaf

/-! ### `decap` -/

/-- header fields of the packet at the start of a buffer -/
def hdrOf (buf : Bytes) : Option (Nat × PktType × LabelType) :=
  match get16 buf 0 with
  | none => none
  | some w =>
    match readHeader w with
    | .ok (some t) => some t
    | _ => none

/-- The errors with which `decap` drops the rest of the frame (returns the length of the whole
buffer), for the packet `p`:
* every kind but end: GSE length too short for the fields of the kind (`ErrorGseLength`);
* end: GSE length too short for fragment id and CRC (`ErrorSizeBuffer`);
* complete and first: the extension-header walk runs out of the packet (`ErrorSizePduBuffer`);
* first: total length not larger than the fragment (`ErrorTotalLength`). -/
def DropErr (mgr : MgrFn) (p : Bytes) (e : DecErr) : Prop :=
  match hdrOf p with
  | some (gseLen, .complete, lt) => DropComplete mgr p lt gseLen e
  | some (gseLen, .first, lt) => DropFirst mgr p lt gseLen e
  | some (_, .inter, _) => e = .gseLength
  | some (_, .end_, _) => e = .sizeBuffer
  | none => False

theorem DropErr.frameErr {mgr : MgrFn} {p : Bytes} {e : DecErr} (h : DropErr mgr p e) :
    FrameErr (.err e) := by
  unfold DropErr at h
  unfold FrameErr
  split at h
  · rcases h with rfl | ⟨rfl, _⟩ <;> simp
  · rcases h with rfl | rfl | ⟨rfl, _⟩ <;> simp
  · subst h; simp
  · subst h; simp
  · exact h.elim

/-- Two buffers that start with the same whole packet `p` are decapsulated alike. -/
theorem decap_append₂ (crc : CrcFn) (mgr : MgrFn) (ds : Dec) (p r₁ r₂ : Bytes)
    (h : pktLenOf p = some p.length) :
    PrefixRel (DropErr mgr p) p.length (p ++ r₁).length (p ++ r₂).length
      (decap crc mgr ds (p ++ r₁)) (decap crc mgr ds (p ++ r₂)) := by
  obtain ⟨w, gseLen, k, lt, h2, hw, hr, hn, _⟩ := pktLenOf_eq_some h
  have hh : hdrOf p = some (gseLen, k, lt) := by
    unfold hdrOf; rw [hw]; simp only [hr]
  unfold decap
  simp only []
  rw [if_neg (by rd_omega), if_neg (by rd_omega), get16_append_left r₁ (by rd_omega),
    get16_append_left r₂ (by rd_omega), hw]
  simp only [hr]
  rw [if_neg (by rd_omega), if_neg (by rd_omega), hn]
  unfold DropErr
  rw [hh]
  cases k
  · exact decapComplete_append mgr ds p r₁ r₂ lt gseLen hn
  · exact decapFirst_append mgr ds p r₁ r₂ lt gseLen hn
  · exact decapInter_append ds p r₁ r₂ gseLen hn
  · exact decapEnd_append crc ds p r₁ r₂ gseLen hn

/-- the packet at the start of a buffer is a packet of its own -/
theorem pktLenOf_take {buf : Bytes} {n : Nat} (h : pktLenOf buf = some n) :
    pktLenOf (buf.take n) = some n ∧ (buf.take n).length = n := by
  obtain ⟨w, gseLen, k, lt, h2, hw, hr, hn, hle⟩ := pktLenOf_eq_some h
  have hl := take_append_drop_length hle
  refine ⟨?_, hl⟩
  unfold pktLenOf
  rw [hl, if_neg (by rd_omega), get16_take hle (by rd_omega), hw]
  simp only [hr]
  rw [if_neg (by omega), hn]

/-- bytes behind a whole packet do not change the packet found at the start -/
theorem pktLenOf_append {p : Bytes} (rest : Bytes) (h : pktLenOf p = some p.length) :
    pktLenOf (p ++ rest) = some p.length := by
  obtain ⟨w, gseLen, k, lt, h2, hw, hr, hn, hle⟩ := pktLenOf_eq_some h
  unfold pktLenOf
  rw [if_neg (by rd_omega), get16_append_left rest (by rd_omega), hw]
  simp only [hr]
  rw [if_neg (by rd_omega), hn]

theorem pktLenOf_ge_two {buf : Bytes} {n : Nat} (h : pktLenOf buf = some n) : 2 ≤ n := by
  obtain ⟨w, gseLen, k, lt, h2, hw, hr, hn, hle⟩ := pktLenOf_eq_some h
  rd_omega

/-- **`decap` on a packet followed by anything.**  Result and new state are those of the packet
alone.  The consumed length is the packet length, except for the "drop the rest of the frame"
errors `DropErr mgr p`, where the code returns the length of the whole buffer (and for a panic,
where the model's consumed length is the dummy 0 on both sides). -/
theorem decap_append (crc : CrcFn) (mgr : MgrFn) (ds : Dec) (p rest : Bytes)
    (h : pktLenOf p = some p.length) :
    let o := decap crc mgr ds (p ++ rest)
    let o' := decap crc mgr ds p
    o'.res = o.res ∧ o'.st = o.st ∧
      ((o.res ≠ .panic ∧ o.consumed = p.length ∧ o'.consumed = p.length) ∨
       ((∃ e, DropErr mgr p e ∧ o.res = .err e) ∧ o.consumed = (p ++ rest).length ∧
          o'.consumed = p.length) ∨
       (o.res = .panic ∧ o.consumed = 0 ∧ o'.consumed = 0)) := by
  have := decap_append₂ crc mgr ds p rest [] h
  simpa only [List.append_nil, PrefixRel] using this

/-- the same with the coarser class `FrameErr` (a property of the result alone) -/
theorem decap_append_frameErr (crc : CrcFn) (mgr : MgrFn) (ds : Dec) (p rest : Bytes)
    (h : pktLenOf p = some p.length) :
    let o := decap crc mgr ds (p ++ rest)
    let o' := decap crc mgr ds p
    o'.res = o.res ∧ o'.st = o.st ∧
      ((o.res ≠ .panic ∧ o.consumed = p.length ∧ o'.consumed = p.length) ∨
       (FrameErr o.res ∧ o.consumed = (p ++ rest).length ∧ o'.consumed = p.length) ∨
       (o.res = .panic ∧ o.consumed = 0 ∧ o'.consumed = 0)) := by
  obtain ⟨h1, h2, h3 | ⟨⟨e, he, hr⟩, h3⟩ | h3⟩ := decap_append crc mgr ds p rest h
  · exact ⟨h1, h2, Or.inl h3⟩
  · exact ⟨h1, h2, Or.inr (Or.inl ⟨hr ▸ he.frameErr, h3⟩)⟩
  · exact ⟨h1, h2, Or.inr (Or.inr h3)⟩

/-- **`decap` never looks beyond the packet.**  The same statement for a buffer and its first
`n = pktLenOf buf` bytes. -/
theorem decap_take (crc : CrcFn) (mgr : MgrFn) (ds : Dec) (buf : Bytes) (n : Nat)
    (h : pktLenOf buf = some n) :
    let o := decap crc mgr ds buf
    let o' := decap crc mgr ds (buf.take n)
    o'.res = o.res ∧ o'.st = o.st ∧
      ((o.res ≠ .panic ∧ o.consumed = n ∧ o'.consumed = n) ∨
       ((∃ e, DropErr mgr (buf.take n) e ∧ o.res = .err e) ∧ o.consumed = buf.length ∧
          o'.consumed = n) ∨
       (o.res = .panic ∧ o.consumed = 0 ∧ o'.consumed = 0)) := by
  obtain ⟨h1, h2⟩ := pktLenOf_take h
  have := decap_append crc mgr ds (buf.take n) (buf.drop n) (by rw [h2]; exact h1)
  simpa only [List.take_append_drop, h2] using this

/-- the statement without the panic case: when `decap` returns (`Ok` or `Err`), the consumed length
is the packet length or, only with a frame-level error, the whole buffer -/
theorem decap_take_of_ne_panic (crc : CrcFn) (mgr : MgrFn) (ds : Dec) (buf : Bytes) (n : Nat)
    (h : pktLenOf buf = some n) (hnp : (decap crc mgr ds buf).res ≠ .panic) :
    let o := decap crc mgr ds buf
    let o' := decap crc mgr ds (buf.take n)
    o'.res = o.res ∧ o'.st = o.st ∧
      (o.consumed = n ∧ o'.consumed = n ∨
       FrameErr o.res ∧ o.consumed = buf.length ∧ o'.consumed = n) := by
  obtain ⟨h1, h2, h3 | ⟨⟨e, he, hr⟩, h3⟩ | h3⟩ := decap_take crc mgr ds buf n h
  · exact ⟨h1, h2, Or.inl h3.2⟩
  · exact ⟨h1, h2, Or.inr ⟨hr ▸ he.frameErr, h3⟩⟩
  · exact absurd h3.1 hnp

/-- Whether the rest of the frame is dropped does not depend on what the rest is: if exactly the
packet is consumed with one byte behind it, exactly the packet is consumed with anything behind
it (and there is no panic). -/
theorem decap_consumed_of_one (crc : CrcFn) (mgr : MgrFn) (ds : Dec) (p : Bytes) (b : UInt8)
    (h : pktLenOf p = some p.length)
    (h1 : (decap crc mgr ds (p ++ [b])).consumed = p.length) (rest : Bytes) :
    (decap crc mgr ds (p ++ rest)).consumed = p.length ∧
      (decap crc mgr ds (p ++ rest)).res ≠ .panic := by
  have h2 := pktLenOf_ge_two h
  obtain ⟨hr, _, h3 | h3 | h3⟩ := decap_append₂ crc mgr ds p [b] rest h
  · exact ⟨h3.2.2, hr ▸ h3.1⟩
  · have := h3.2.1
    rw [h1, List.length_append] at this
    simp at this
  · have := h3.2.1
    omega

end Gse
