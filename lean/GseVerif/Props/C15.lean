/-
C15: label re-use policy bounds are respected.

Setting (Lemmas/Reuse.lean).  A history is a list of `SOp`: `send label ok` (an `encap` /
`encap_ext` call for `label`, succeeding or failing — `C15_real_histories` shows that every
panic-free sequence of *real* calls, with any arguments, drives the encapsulator exactly like
its abstraction), `reset`, `disable`, `enable`, `enableMax n`.  `stateAfter h` is the
encapsulator after `h` from `Encapsulator::new`; `emitAfter h l` the label a successful call
for `l` then writes; `events` / `wire` the observable trace.  The ghost state `ghostAfter h`
is computed from the trace only:
  `enabled`, `max`  configuration in force,
  `run`             substituted packets since the later of the last full-label packet and the
                    last configuration call,
  `carried`         label carried by the immediately preceding packet (markers resolved;
                    `none` after a broadcast packet),
  `prev`            `carried`, additionally forgotten at `reset` / `disable`.

Interpretation (DESIGN.md §7): an explicit `Label.reuse` passed by the caller is forwarded,
not substituted: it neither counts towards nor resets `run`.  Configuration setters restart
the counter, so the bound holds per configuration epoch (see the last example of
`C15_bound`).  Failed calls emit nothing and change nothing.
-/
import GseVerif.Lemmas.Reuse

namespace Gse
open Gen

/-! ### Coverage: real call sequences -/

/-- Every panic-free sequence of real operations (`encap` / `encap_ext` with arbitrary PDU,
fragment id, protocol type, label, buffer, extensions — succeeding or failing — mixed with
the four setters) from a fresh encapsulator leaves it in `stateAfter ops`, where `ops` is the
abstracted history (`send label ok?` for each call).  All theorems below therefore speak
about the real functions. -/
theorem C15_real_histories (crc : CrcFn) (rs : List ROp) (es' : Enc) (ops : List SOp)
    (h : rrun crc Enc.new rs = some (es', ops)) :
    es' = stateAfter ops ∧ ops.length = rs.length :=
  rrun_srun h

/-- One real call, `encap`: it leaves `es` after an error, the state computed by
`check_label_re_use` after success, and a successful call wrote the label-type bits and the
label bytes of `emittedLabel es label` into the packet. -/
theorem C15_real_encap (crc : CrcFn) (es : Enc) (pdu : Bytes) (fid pt : Nat) (label : Label)
    (buf : Bytes) :
    (∀ e, (encap crc es pdu fid pt label buf).res = .err e →
      (encap crc es pdu fid pt label buf).st = es) ∧
    (∀ s, (encap crc es pdu fid pt label buf).res = .ok s →
      (encap crc es pdu fid pt label buf).st = (sstep es (.send label true)).1 ∧
      ((∃ g payload n, wrSeq buf 0
          [be16 (genHeader .complete (emittedLabel es label).type g), be16 pt,
           (emittedLabel es label).bytes, payload]
          = some ((encap crc es pdu fid pt label buf).buf, n)) ∨
       (∃ g t payload n, wrSeq buf 0
          [be16 (genHeader .first (emittedLabel es label).type g), [u8 fid], be16 t, be16 pt,
           (emittedLabel es label).bytes, payload]
          = some ((encap crc es pdu fid pt label buf).buf, n)))) :=
  ⟨fun _ h => encap_err_state h, fun _ h => ⟨encap_ok_state h, encap_ok_written h⟩⟩

/-- One real call, `encap_ext`. -/
theorem C15_real_encapExt (crc : CrcFn) (es : Enc) (pdu : Bytes) (fid pt : Nat) (label : Label)
    (buf : Bytes) (exts : List Ext) :
    (∀ e, (encapExt crc es pdu fid pt label buf exts).res = .err e →
      (encapExt crc es pdu fid pt label buf exts).st = es) ∧
    (∀ s, (encapExt crc es pdu fid pt label buf exts).res = .ok s →
      (encapExt crc es pdu fid pt label buf exts).st = (sstep es (.send label true)).1 ∧
      ((∃ g first rest n, wrSeq buf 0
          (be16 (genHeader .complete (emittedLabel es label).type g) ::
           be16 first :: (emittedLabel es label).bytes :: rest)
          = some ((encapExt crc es pdu fid pt label buf exts).buf, n)) ∨
       (∃ g t first rest n, wrSeq buf 0
          (be16 (genHeader .first (emittedLabel es label).type g) :: [u8 fid] :: be16 t ::
           be16 first :: (emittedLabel es label).bytes :: rest)
          = some ((encapExt crc es pdu fid pt label buf exts).buf, n)))) :=
  ⟨fun _ h => encapExt_err_state h, fun _ h => ⟨encapExt_ok_state h, encapExt_ok_written h⟩⟩

/-! ### Witness labels and histories for the examples -/

private abbrev A : Label := .six 1 2 3 4 5 6
private abbrev B : Label := .three 7 8 9
private abbrev ok (l : Label) : SOp := .send l true
private abbrev ko (l : Label) : SOp := .send l false

/-- a real call sequence: A (complete), A again (marker), B into a 3-byte buffer (fails),
A again (still a marker: the failed call left no trace) -/
example :
    let pdu : Bytes := [0xAA, 0xBB]
    let big : Bytes := List.replicate 32 0
    rrun (fun _ _ _ _ => 0) Enc.new
      [.encap pdu 0 0x0800 A big, .encap pdu 0 0x0800 A big, .encap pdu 0 0x0800 B [0, 0, 0],
       .encap pdu 0 0x0800 A big]
      = some (⟨true, 0, 0, some A⟩, [ok A, ok A, ko B, ok A]) := by
  decide +kernel

/-! ### Disabled: never a substitution -/

/-- While re-use is disabled (the last configuration call was `disable`), a successful call
writes exactly the label it was given. -/
theorem C15_disabled (h : List SOp) (l : Label) (hd : (ghostAfter h).enabled = false) :
    emitAfter h l = l := by
  have hI := inv_after h
  exact emittedLabel_of_disabled (by rw [hI.enabled, hd]) l

/-- The same without ghost state: after `disable`, as long as neither `enable` nor
`enableMax` is called, every packet carries the label passed. -/
theorem C15_disabled_window (h mid : List SOp) (l : Label)
    (hmid : ∀ op ∈ mid, op.enables = false) :
    emitAfter (h ++ [.disable] ++ mid) l = l := by
  unfold emitAfter
  rw [stateAfter_append, stateAfter_append]
  exact emittedLabel_of_disabled (reUse_false_run rfl hmid) l

example : (ghostAfter [ok A, ok A, .disable, ok A, .reset, ok A]).enabled = false ∧
    emitAfter [ok A, ok A, .disable, ok A, .reset, ok A] A = A ∧
    wire Enc.new [ok A, ok A, .disable, ok A, .reset, ok A, ok A, ok B, ok B]
      = [A, .reuse, A, A, A, B, B] := by decide

example : ∀ op ∈ [ok A, ko A, .reset, ok .reuse, ok .broadcast, ok B], SOp.enables op = false := by
  decide

/-! ### Bound on consecutive substitutions -/

/-- With a maximum `N > 0` in force, the number of substituted packets since the later of the
last full-label packet and the last configuration call never exceeds `N` — at every point of
every history. -/
theorem C15_bound (h : List SOp) (N : Nat) (hN : 0 < N) (hm : (ghostAfter h).max = N) :
    (ghostAfter h).run ≤ N := by
  have hI := inv_after h
  have h1 : 0 < (stateAfter h).reMax := by rw [hI.max, hm]; exact hN
  have h2 := hI.run_le h1
  have h3 := hI.cur_le
  rw [hI.max, hm] at h3
  omega

/-- The same without ghost state: with a maximum `N > 0` in force after `h`, any stretch `seg`
of further operations that contains neither a full-label packet nor a configuration call
contains at most `N` substituted packets — so the `N+1`-th packet for the same label carries
it in full.  (Failed calls, `reset` and explicit re-use packets inside the stretch do not
interrupt it, which makes the statement stronger.) -/
theorem C15_bound_window (h seg : List SOp) (N : Nat) (hN : 0 < N)
    (hm : (stateAfter h).reMax = N)
    (hseg : ∀ e ∈ events (stateAfter h) seg, e.endsRun = false) :
    (events (stateAfter h) seg).countP Event.isSubst ≤ N := by
  have hI := inv_after (h ++ seg)
  have hI0 := inv_after h
  rw [ghostAfter_append, stateAfter_append] at hI
  obtain ⟨hr, hmax⟩ := ghostFrom_run_window (ghostAfter h) _ hseg
  have e1 : (srun (stateAfter h) seg).reMax = N := by rw [hI.max, hmax, ← hI0.max, hm]
  have h2 := hI.run_le (by rw [e1]; exact hN)
  have h3 := hI.cur_le
  rw [e1] at h3
  rw [hr] at h2
  omega

/-- A A A A B B with maximum 2: the run stops at 2, the fourth A is written in full. -/
example : (ghostAfter [.enableMax 2, ok A, ok A, ok A]).max = 2 ∧
    (ghostAfter [.enableMax 2, ok A, ok A, ok A]).run = 2 ∧
    wire Enc.new [.enableMax 2, ok A, ok A, ok A, ok A, ok B, ok B]
      = [A, .reuse, .reuse, A, B, .reuse] := by decide

/-- a failed call, a `reset`-free explicit marker and a failed call for another label in the
middle of the run change nothing -/
example : wire Enc.new [.enableMax 2, ok A, ok A, ko B, ok .reuse, ko A, ok A, ok A, ok A]
      = [A, .reuse, .reuse, .reuse, A, .reuse] ∧
    (stateAfter [.enableMax 2, ok A]).reMax = 2 ∧
    (∀ e ∈ events (stateAfter [.enableMax 2, ok A]) [ok A, ko B, ok .reuse, ko A, ok A],
      e.endsRun = false) ∧
    (events (stateAfter [.enableMax 2, ok A]) [ok A, ko B, ok .reuse, ko A, ok A]).countP
      Event.isSubst = 2 := by decide

/-- the bound is per configuration epoch: re-configuring in mid-run restarts the count, so
four markers in a row appear on the wire here (two per epoch) -/
example : wire Enc.new [.enableMax 2, ok A, ok A, ok A, .enableMax 2, ok A, ok A, ok A]
      = [A, .reuse, .reuse, .reuse, .reuse, A] ∧
    (ghostAfter [.enableMax 2, ok A, ok A, ok A, .enableMax 2, ok A, ok A]).run = 2 := by decide

/-! ### The counter: never above the maximum, no `u8` overflow -/

/-- `re_current_consecutive ≤ re_max_consecutive` at every point (hence it stays 0 while no
maximum is configured); the counter is incremented only when strictly below the maximum; and
if every configured maximum fits a `u8`, so do the maximum and the counter before and after
any further call — `re_current_consecutive += 1` cannot overflow. -/
theorem C15_no_overflow (h : List SOp) :
    (stateAfter h).reCur ≤ (stateAfter h).reMax ∧
    ((stateAfter h).reMax = 0 → (stateAfter h).reCur = 0) ∧
    (∀ l, (checkLabelReUse (stateAfter h) l).2.reCur = (stateAfter h).reCur + 1 →
      (stateAfter h).reCur < (stateAfter h).reMax) ∧
    ((∀ n, SOp.enableMax n ∈ h → n ≤ 255) →
      (stateAfter h).reMax ≤ 255 ∧ (stateAfter h).reCur ≤ 255 ∧
      ∀ l, (checkLabelReUse (stateAfter h) l).2.reCur ≤ 255) := by
  have hI := inv_after h
  refine ⟨hI.cur_le, fun h0 => ?_, fun l => (checkLabelReUse_incr _ l).2, fun hn => ?_⟩
  · have := hI.cur_le; omega
  · have hmax : (stateAfter h).reMax ≤ 255 := reMax_le_run (by decide) hn
    refine ⟨hmax, Nat.le_trans hI.cur_le hmax, fun l => ?_⟩
    have hs := (hI.step (.send l true)).cur_le
    simp only [sstep] at hs
    rw [(checkLabelReUse_fields _ l).2] at hs
    exact Nat.le_trans hs hmax

example : (∀ n, SOp.enableMax n ∈ [.enableMax 255, ok A, ok A, ok A, .enableMax 1, ok A] → n ≤ 255) ∧
    (stateAfter [.enableMax 255, ok A, ok A, ok A]).reCur = 2 ∧
    (stateAfter [.enableMax 255, ok A, ok A, ok A, .enableMax 1, ok A]).reCur = 1 ∧
    (stateAfter [.enableMax 255, ok A, ok A, ok A, .enableMax 1, ok A, ok A]).reCur = 0 := by
  refine ⟨fun n hn => ?_, by decide⟩
  simp at hn
  omega

/-! ### After a reset of the label memory or a broadcast packet -/

/-- After `reset`, after `disable`, or after an emitted broadcast packet, the first
successful call for a 3- or 6-byte label writes that label in full — whatever failed calls,
setters, broadcast packets and explicit re-use packets (`quiet` operations) lie in between.
(Holds for every `l`; the content is for `l.isAddr`.) -/
theorem C15_after_reset (h mid : List SOp) (b : SOp) (l : Label)
    (hb : b = .reset ∨ b = .disable ∨
      ∃ p, b = .send p true ∧ (sstep (stateAfter h) b).2 = some .broadcast)
    (hmid : ∀ op ∈ mid, op.quiet = true) :
    emitAfter (h ++ [b] ++ mid) l = l := by
  unfold emitAfter
  rw [stateAfter_append, stateAfter_append]
  refine emittedLabel_of_last_none (last_none_run ?_ hmid) l
  rcases hb with rfl | rfl | ⟨p, rfl, hp⟩
  · rfl
  · rfl
  · rw [sstep_send_true] at hp
    exact last_none_after_broadcast (inv_after h) (Option.some.inj hp)

/-- The same for a fresh encapsulator. -/
theorem C15_after_new (mid : List SOp) (l : Label) (hmid : ∀ op ∈ mid, op.quiet = true) :
    emitAfter mid l = l :=
  emittedLabel_of_last_none (last_none_run rfl hmid) l

example : (∀ op ∈ [ko A, ok .broadcast, ok .reuse, .enableMax 4, .reset], SOp.quiet op = true) ∧
    emitAfter [ko A, ok .broadcast, ok .reuse, .enableMax 4, .reset] A = A := by decide

/-- Ghost form: whenever the trace so far ends in "nothing to refer to" (`prev = none`:
`reset`, `disable` or a broadcast packet since the last packet with a 3/6-byte label),
the label passed is written as it is. -/
theorem C15_after_reset_ghost (h : List SOp) (l : Label) (hp : (ghostAfter h).prev = none) :
    emitAfter h l = l := by
  have hI := inv_after h
  refine emittedLabel_of_last_none ?_ l
  cases hl : (stateAfter h).last with
  | none => rfl
  | some x => have := hI.last_prev x hl; rw [hp] at this; cases this

example : (∀ op ∈ [ko A, ok .reuse, .enableMax 3, ok .broadcast, ko B], SOp.quiet op = true) ∧
    emitAfter ([ok A, ok A] ++ [.reset] ++ [ko A, ok .reuse, .enableMax 3, ok .broadcast, ko B]) A = A ∧
    wire Enc.new [ok A, ok A, .reset, ok A, ok A, ok .broadcast, ok .reuse, ok A, ok A,
                  .disable, .enable, ok A, ok A]
      = [A, .reuse, A, .reuse, .broadcast, .reuse, A, .reuse, A, .reuse] := by decide

example : (sstep (stateAfter [ok A, ok A]) (ok .broadcast)).2 = some .broadcast ∧
    (ghostAfter [ok A, ok A, ok .broadcast]).prev = none ∧
    (ghostAfter [ok A, ok A, .reset, ok .reuse]).prev = none ∧
    (ghostAfter [ok A, ok A, .reset, ok .reuse]).carried = some A := by decide

/-! ### A marker is substituted only for the label just carried -/

/-- Whenever the marker is written although the caller passed another label, that label is a
3- or 6-byte label, re-use is enabled, and it is the label carried by the immediately
preceding emitted start/complete packet (`carried`; failed calls are not packets), with
neither a `reset` nor a `disable` nor a broadcast packet since (`prev`). -/
theorem C15_subst_only_equal (h : List SOp) (l : Label)
    (hem : emitAfter h l = .reuse) (hne : l ≠ .reuse) :
    l.isAddr = true ∧ (ghostAfter h).enabled = true ∧
    (ghostAfter h).prev = some l ∧ (ghostAfter h).carried = some l := by
  have hI := inv_after h
  obtain ⟨hu, hl, _⟩ := emittedLabel_reuse hem hne
  have hp := hI.last_prev l hl
  exact ⟨hI.prev_addr l hp, by rw [← hI.enabled, hu], hp, hI.prev_carried l hp⟩

/-- Contrapositive use: a label different from the one just carried is never replaced. -/
theorem C15_subst_only_equal' (h : List SOp) (l : Label)
    (hdiff : (ghostAfter h).prev ≠ some l) : emitAfter h l = l := by
  rcases emittedLabel_cases (stateAfter h) l with h1 | h1
  · exact h1
  · by_cases hr : l = .reuse
    · rw [hr]; rw [hr] at h1; exact h1
    · exact absurd (C15_subst_only_equal h l h1 hr).2.2.1 hdiff

example : (ghostAfter [ok A, ok A, ok B, ko A]).prev ≠ some A ∧
    emitAfter [ok A, ok A, ok B, ko A] A = A := by decide

/-- B fails after A: the next A is a marker (it still refers to A), the next B is not -/
example : emitAfter [ok A, ko B] A = .reuse ∧ A ≠ .reuse ∧
    (ghostAfter [ok A, ko B]).prev = some A ∧
    emitAfter [ok A, ko B] B = B ∧
    emitAfter [ok A, ok B, ok B, ok .reuse] B = .reuse ∧
    (ghostAfter [ok A, ok B, ok B, ok .reuse]).carried = some B := by decide

/-! ### Failed calls are transparent -/

/-- A failed call leaves no trace: removing it from a history changes neither the packets
emitted, nor the final encapsulator, nor the ghost state. -/
theorem C15_failed_call_transparent (h t : List SOp) (l : Label) :
    wire Enc.new (h ++ [.send l false] ++ t) = wire Enc.new (h ++ t) ∧
    stateAfter (h ++ [.send l false] ++ t) = stateAfter (h ++ t) ∧
    ghostAfter (h ++ [.send l false] ++ t) = ghostAfter (h ++ t) := by
  refine ⟨?_, ?_, ?_⟩
  · simp only [wire_append, srun_append]
    simp [wire, events, srun, sstep]
  · simp only [stateAfter, srun_append]
    simp [srun, sstep]
  · simp only [ghostAfter_append, stateAfter_append]
    simp [srun, sstep, events, ghostFrom, gstep]

/-- … and this is what the real functions do: any call returning `Err` (early or late)
leaves the encapsulator untouched. -/
theorem C15_failed_call_state (crc : CrcFn) (es : Enc) (pdu : Bytes) (fid pt : Nat)
    (label : Label) (buf : Bytes) (exts : List Ext) (e : EncErr) :
    ((encap crc es pdu fid pt label buf).res = .err e →
      (encap crc es pdu fid pt label buf).st = es) ∧
    ((encapExt crc es pdu fid pt label buf exts).res = .err e →
      (encapExt crc es pdu fid pt label buf exts).st = es) :=
  ⟨encap_err_state, encapExt_err_state⟩

example : wire Enc.new ([.enableMax 1, ok A] ++ [ko B] ++ [ok A, ok A, ok B])
      = [A, .reuse, A, B] ∧
    wire Enc.new ([.enableMax 1, ok A] ++ [ok A, ok A, ok B]) = [A, .reuse, A, B] := by decide

/-- a late error of the real `encap` (3-byte buffer) after `check_label_re_use` has run -/
example :
    (encap (fun _ _ _ _ => 0) ⟨true, 2, 1, some A⟩ [1, 2, 3] 0 0x0800 B [0, 0, 0]).res
      = .err .sizeBuffer ∧
    (encap (fun _ _ _ _ => 0) ⟨true, 2, 1, some A⟩ [1, 2, 3] 0 0x0800 B [0, 0, 0]).st
      = ⟨true, 2, 1, some A⟩ := by decide +kernel

#print axioms C15_real_histories
#print axioms C15_real_encap
#print axioms C15_real_encapExt
#print axioms C15_disabled
#print axioms C15_disabled_window
#print axioms C15_bound
#print axioms C15_bound_window
#print axioms C15_no_overflow
#print axioms C15_after_reset
#print axioms C15_after_new
#print axioms C15_after_reset_ghost
#print axioms C15_subst_only_equal
#print axioms C15_subst_only_equal'
#print axioms C15_failed_call_transparent
#print axioms C15_failed_call_state

end Gse
