/-
Property C16 — "The receiver recovers after any history".

After any sequence of public operations on a decapsulator (`decap` on arbitrary buffers included),
once the label memory has been reset and the caller has offered one storage buffer of the
configured size (`provision_storage`: it is accepted, or refused because the free list is full),
* the memory invariant of C05 holds, every storage the memory owns — free or attached to a stale
  reassembly context — can hold `max_pdu_size` bytes (`Mem.SzInv`, Lemmas/LabelSync.lean: a new
  invariant, `provision_storage` checks the size and nothing else changes a length), and a storage
  is on top of the free list (`C16_state`);
* a complete packet produced by `encap` for a 6- or 3-byte or broadcast label written in full
  (sender's label memory reset too) is delivered with PDU, length, protocol type and label
  (`C16_recover_complete`);
* a fragmented PDU on any fragment id is accepted and reassembled whether the slot
  `fid % max_frag_id` is free (the top free storage is used) or holds a stale context of any id
  sharing the slot (its storage is reused), for every schedule of output buffers
  (`C16_recover_frag`, `C16_recover_frag_delivery`: instances of C02).
Quantifiers: every CRC calculator, every extension manager, every configuration `n ≥ 0` slots
(`n ≥ 1` for fragments), `sz` bytes, every history `ops : List DecOp`.
-/
import GseVerif.Lemmas.LabelSync
import GseVerif.Props.C01
import GseVerif.Props.C02
import GseVerif.Props.C05

namespace Gse
open Gen

/-! Fixtures for the `example`s. -/
namespace C16
def crc0 : CrcFn := fun _ _ _ _ => 0xDEADBEEF
def labA : Label := .three 1 2 3
def sto (i : Nat) : Storage := ⟨i, List.replicate 8 0⟩
def buf20 : Bytes := List.replicate 20 0xEE
/-- a rough history on a 2-slot decapsulator with 8-byte PDUs: three storages, a first fragment of
id 1 (its reassembly is never finished), a first fragment of id 2, garbage, a truncated packet, an
end packet for an unknown id, a re-use packet that is refused (`NoLabelSaved`) -/
def hist : List DecOp :=
  [.provision (sto 1), .provision (sto 2), .provision (sto 3),
   .decap (firstPkt labA 1 40 0x0800 [1, 2, 3]), .decap (firstPkt .broadcast 2 40 0x0800 [4]),
   .decap [0xFF, 0xFF, 0xFF], .decap [0xC0], .decap (endPkt 9 [1] 0),
   .decap (completePkt .reuse 0x0800 [5, 6])]
def dsH : Dec := (Dec.new 2 8).run crc0 simpleMgr hist
/-- the recovery procedure -/
def dsR : Dec := dsH.run crc0 simpleMgr [.reset, .provision (sto 9)]
end C16
open C16

/-- the state reached by the fixture: both slots hold stale contexts (storages 2 and 3), storage 1
came back with the bytes of the refused re-use packet -/
example : dsH.mem.storages = [⟨1, [5, 6, 0, 0, 0, 0, 0, 0]⟩] ∧
    dsH.mem.frags.map (Option.map (fun cs => (cs.1.fragId, cs.2.id))) = [some (2, 2), some (1, 3)] ∧
    dsR.mem.storages = [sto 9, ⟨1, [5, 6, 0, 0, 0, 0, 0, 0]⟩] ∧ dsR.last = none := by
  decide +kernel

/-! ### 1. The state after recovery -/

/-- **C16, state.**  After any history from `Decapsulator::new`, then `reset_last_label` and
`provision_storage(s)` with a storage of at least the configured size: the invariants hold before
and after, the label memory is empty, the configuration is the initial one, the provision call
either succeeded (`s` is on top of the free list) or reported `StorageOverflow(s)` because the free
list is full (`n + MIN_MARGIN ≥ 2` storages); in both cases a storage of at least `sz` bytes is on
top of the free list. -/
theorem C16_state (crc : CrcFn) (mgr : MgrFn) (n sz : Nat) (ops : List DecOp) (s : Storage)
    (hs : sz ≤ s.data.length) :
    let ds := (Dec.new n sz).run crc mgr ops
    let ds' := ds.run crc mgr [.reset, .provision s]
    ds.Inv ∧ ds.mem.SzInv sz ∧ ds'.Inv ∧ ds'.mem.SzInv sz ∧ ds'.last = none ∧
    ds'.mem.maxFragId = n ∧ ds'.mem.frags = ds.mem.frags ∧
    (((ds.mem.provision s).1 = .ok () ∧ ds'.mem.storages = s :: ds.mem.storages) ∨
     ((ds.mem.provision s).1 = .err (.storageOverflow s) ∧ ds'.mem = ds.mem ∧
        ds.mem.storages.length = n + MIN_MARGIN)) ∧
    ∃ top free, ds'.mem.storages = top :: free ∧ sz ≤ top.data.length := by
  intro ds ds'
  have hI : ds.Inv := Dec.inv_run crc mgr (Dec.inv_new n sz) ops
  have hS : ds.mem.SzInv sz := Dec.szInv_run crc mgr (Mem.szInv_new n sz) ops
  have hC : ds.mem.SameCfg (Dec.new n sz).mem := Dec.cfg_run crc mgr (Dec.inv_new n sz) ops
  have hI' : ds'.Inv := Dec.inv_run crc mgr hI _
  have hS' : ds'.mem.SzInv sz := Dec.szInv_run crc mgr hS _
  have hmem : ds'.mem = (ds.mem.provision s).2 := rfl
  have hcases : ((ds.mem.provision s).1 = .ok () ∧ ds'.mem = { ds.mem with storages := s :: ds.mem.storages }) ∨
      ((ds.mem.provision s).1 = .err (.storageOverflow s) ∧ ds'.mem = ds.mem ∧
        ds.mem.storages.length = n + MIN_MARGIN) := by
    rw [hmem]
    unfold Mem.provision
    split
    · rename_i hcap
      exact .inr ⟨rfl, rfl, by rw [← hcap, hC.2.2]; rfl⟩
    · rw [if_neg (by rw [hS.cfg]; omega)]
      exact .inl ⟨rfl, rfl⟩
  refine ⟨hI, hS, hI', hS', rfl, ?_, ?_, ?_, ?_⟩
  · rcases hcases with ⟨_, h⟩ | ⟨_, h, _⟩ <;> rw [h] <;> exact hC.1
  · rcases hcases with ⟨_, h⟩ | ⟨_, h, _⟩ <;> rw [h]
  · rcases hcases with ⟨h1, h⟩ | h
    · exact .inl ⟨h1, by rw [h]⟩
    · exact .inr h
  · rcases hcases with ⟨_, h⟩ | ⟨_, h, hlen⟩
    · exact ⟨s, ds.mem.storages, by rw [h], hs⟩
    · rw [h]
      cases hst : ds.mem.storages with
      | nil => rw [hst] at hlen; simp at hlen
      | cons top free =>
        exact ⟨top, free, rfl, hS.free top (by rw [hst]; exact List.mem_cons_self ..)⟩

example := C16_state crc0 simpleMgr 2 8 hist (sto 9) (by decide)
/-- the free list is full: the offered storage is refused, a storage is on top all the same -/
example :
    let ds := (Dec.new 0 8).run crc0 simpleMgr [.provision (sto 1), .provision (sto 2)]
    (ds.mem.provision (sto 3)).1 = .err (.storageOverflow (sto 3)) ∧ ds.mem.storages = [sto 2, sto 1] := by
  decide +kernel

/-- `Mem.SzInv` is an invariant of the public API -/
theorem C16_sizes (crc : CrcFn) (mgr : MgrFn) (n sz : Nat) (ops : List DecOp) :
    let ds := (Dec.new n sz).run crc mgr ops
    (∀ s ∈ ds.mem.storages, sz ≤ s.data.length) ∧
    (∀ c s, some (c, s) ∈ ds.mem.frags → sz ≤ s.data.length) ∧ ds.mem.maxPduSize = sz := by
  have hS := Dec.szInv_run crc mgr (ds := Dec.new n sz) (Mem.szInv_new n sz) ops
  exact ⟨hS.free, hS.slots, hS.cfg⟩

example : ∀ c s, some (c, s) ∈ dsH.mem.frags → 8 ≤ s.data.length :=
  (C16_sizes crc0 simpleMgr 2 8 hist).2.1
/-- a shorter storage is never accepted -/
example : ((Dec.new 2 8).mem.provision ⟨1, [0, 0, 0]⟩).1 = .err (.bufferTooSmall ⟨1, [0, 0, 0]⟩) := by
  decide

/-! ### 2. A complete packet is delivered -/

/-- **C16, complete packet.**  In a state with a storage on top of the free list that can hold the
PDU (after recovery: `C16_state`), a complete packet produced by `encap` for a 6- or 3-byte or
broadcast label by a sender whose label memory is empty (reset too, so the label is written in
full), protocol type `0x600 ≤ pt < 65536`, followed by anything: `decap` delivers the PDU in that
storage with length, protocol type and label, consumes exactly the packet, and remembers the label
(nothing after a broadcast label).  The receiver's own label memory does not matter. -/
theorem C16_recover_complete (crc : CrcFn) (mgr : MgrFn) (ds : Dec) (top : Storage)
    (free : List Storage) (hs : ds.mem.storages = top :: free)
    (es : Enc) (hes : es.last = none) (pdu : Bytes) (fid pt : Nat) (label : Label) (buf : Bytes)
    (n : Nat) (rest : Bytes) (hl : label.isAddr = true ∨ label = .broadcast)
    (hpt : SECOND_RANGE_PTYPE ≤ pt) (hpt2 : pt < 65536) (hcap : pdu.length ≤ top.data.length)
    (henc : (encap crc es pdu fid pt label buf).res = .ok (.completed n)) :
    decap crc mgr ds ((encap crc es pdu fid pt label buf).buf.take n ++ rest) =
      ⟨.ok (.completed ⟨top.id, pdu ++ top.data.drop pdu.length⟩ ⟨pdu.length, pt, label, []⟩), n,
       ⟨{ ds.mem with storages := free }, if label = .broadcast then none else some label⟩⟩ := by
  have hne : label ≠ .reuse := by
    rcases hl with hl | rfl
    · rintro rfl; cases hl
    · decide
  have hr := C01_resolve es label ds.last hne (by rw [hes]; exact fun h => by cases h)
    (fun hw => by have := written_reuse_last hw hne; rw [hes] at this; cases this)
  exact C01_roundtrip_eq crc mgr es pdu fid pt label buf n ds top free rest label _
    henc hpt hpt2 hs hcap hr

/-- … after any history, reset and provision, for every PDU within the configured size -/
theorem C16_recover_complete_history (crc : CrcFn) (mgr : MgrFn) (n sz : Nat) (ops : List DecOp)
    (s : Storage) (hs : sz ≤ s.data.length)
    (es : Enc) (hes : es.last = none) (pdu : Bytes) (fid pt : Nat) (label : Label) (buf : Bytes)
    (m : Nat) (rest : Bytes) (hl : label.isAddr = true ∨ label = .broadcast)
    (hpt : SECOND_RANGE_PTYPE ≤ pt) (hpt2 : pt < 65536) (hlen : pdu.length ≤ sz)
    (henc : (encap crc es pdu fid pt label buf).res = .ok (.completed m)) :
    ∃ (top : Storage) (ds' : Dec),
      decap crc mgr (((Dec.new n sz).run crc mgr ops).run crc mgr [.reset, .provision s])
        ((encap crc es pdu fid pt label buf).buf.take m ++ rest) =
      ⟨.ok (.completed ⟨top.id, pdu ++ top.data.drop pdu.length⟩ ⟨pdu.length, pt, label, []⟩), m,
       ds'⟩ ∧ (pdu ++ top.data.drop pdu.length).take pdu.length = pdu ∧
      ds'.last = (if label = .broadcast then none else some label) := by
  obtain ⟨-, -, -, -, -, -, -, -, top, free, hst, htop⟩ := C16_state crc mgr n sz ops s hs
  exact ⟨top, _, C16_recover_complete crc mgr _ top free hst es hes pdu fid pt label buf m rest hl
    hpt hpt2 (by omega) henc, List.take_left' rfl, rfl⟩

/-- after the rough history: a complete packet with label A is delivered in the fresh storage -/
example : decap crc0 simpleMgr dsR ((encap crc0 Enc.new [7, 8, 9] 0 0x0800 labA buf20).buf.take 10)
    = ⟨.ok (.completed ⟨9, [7, 8, 9, 0, 0, 0, 0, 0]⟩ ⟨3, 0x0800, labA, []⟩), 10,
       ⟨{ dsR.mem with storages := dsH.mem.storages }, some labA⟩⟩ := by decide +kernel
example := C16_recover_complete_history crc0 simpleMgr 2 8 hist (sto 9) (by decide) Enc.new rfl
  [7, 8, 9] 0 0x0800 labA buf20 10 [] (.inl rfl) (by decide) (by decide) (by decide)
  (by decide +kernel)
/-- without the reset on the sender's side the packet may carry the re-use marker, which a reset
receiver refuses (never mis-attributes): the hypothesis `es.last = none` is needed -/
example : (decap crc0 simpleMgr dsR
    ((encap crc0 ⟨true, 0, 0, some labA⟩ [7, 8, 9] 0 0x0800 labA buf20).buf.take 7)).res
      = .err .noLabelSaved := by decide +kernel

/-! ### 3. A fragmented PDU is reassembled -/

/-- the slot of fragment id `fid` is free and `top` is on the free list, or the slot holds a
(stale) context whose storage is `s` -/
theorem C16_slot (ds : Dec) (sz : Nat) (hI : ds.Inv) (hS : ds.mem.SzInv sz) (top : Storage)
    (free : List Storage) (hs : ds.mem.storages = top :: free) (h0 : ds.mem.maxFragId ≠ 0)
    (fid : Nat) :
    ∃ s, sz ≤ s.data.length ∧
      ((ds.mem.frags[fid % ds.mem.maxFragId]? = some none ∧ ds.mem.storages.head? = some s) ∨
       (∃ c0, ds.mem.frags[fid % ds.mem.maxFragId]? = some (some (c0, s)))) := by
  rcases hI.1.slot_cases h0 fid with hfree | ⟨c0, s0, hocc⟩
  · exact ⟨top, hS.free top (by rw [hs]; exact List.mem_cons_self ..),
      .inl ⟨hfree, by rw [hs]; rfl⟩⟩
  · exact ⟨s0, hS.slots c0 s0 (List.mem_of_getElem? hocc), .inr ⟨c0, hocc⟩⟩

/-- **C16, fragmented PDU.**  In a state satisfying the invariants with a storage on top of the
free list and at least one slot (after recovery: `C16_state`), a PDU of at most `sz` bytes
fragmented by `encap` (label 6- or 3-byte or broadcast written in full, any fragment id `< 256`,
protocol type `0x600 ≤ pt < 65536`) and continued by `encap_frag` over any schedule of buffer
sizes: the first fragment is accepted whether the slot `fid % max_frag_id` is free or holds a stale
context of any id; every packet is answered `FragmentedPkt` with protocol type and label while the
run is open, and when it completes the last answer is `CompletedPkt` with exactly the PDU, its
length, protocol type and label; each call consumes the reported length.  (Instance of
`C02_roundtrip`; the CRC calculator returns a `u32` for this PDU.) -/
theorem C16_recover_frag (crc : CrcFn) (mgr : MgrFn) (ds : Dec) (sz : Nat) (hI : ds.Inv)
    (hS : ds.mem.SzInv sz) (top : Storage) (free : List Storage)
    (hs : ds.mem.storages = top :: free) (h0 : ds.mem.maxFragId ≠ 0)
    (es : Enc) (hes : es.last = none) (pdu : Bytes) (fid pt : Nat) (label : Label) (buf₀ : Bytes)
    (n₀ : Nat) (ctx₀ : FragCtx) (sizes : List Nat)
    (hl : label.isAddr = true ∨ label = .broadcast) (hfid : fid < 256)
    (hpt : SECOND_RANGE_PTYPE ≤ pt) (hpt2 : pt < 65536) (hlen : pdu.length ≤ sz)
    (hc32 : ctx₀.crc < 2 ^ 32)
    (henc : (encap crc es pdu fid pt label buf₀).res = .ok (.fragmented n₀ ctx₀)) :
    ∃ s, (s = top ∨ ∃ c0, ds.mem.frags[fid % ds.mem.maxFragId]? = some (some (c0, s))) ∧
    let first := (encap crc es pdu fid pt label buf₀).buf.take n₀
    let pkts := (fragPackets pdu ctx₀ sizes).1
    let lens := fragLens pdu ctx₀ sizes
    let R := rxRun crc mgr ds (first :: pkts)
    let frag : Nat → Res DecErr DecStatus × Nat := fun n => (.ok (.fragmented ⟨0, pt, label, []⟩), n)
    (first :: pkts).map List.length = n₀ :: lens ∧
    R.1.map Prod.snd = n₀ :: lens ∧
    R.2.last = (if label = .broadcast then none else some label) ∧
    (∀ c, (fragPackets pdu ctx₀ sizes).2 = some c → R.1 = (n₀ :: lens).map frag) ∧
    ((fragPackets pdu ctx₀ sizes).2 = none →
      ∃ init nLast st, lens = init ++ [nLast] ∧
        R.1 = (n₀ :: init).map frag ++ [(.ok (.completed st ⟨pdu.length, pt, label, []⟩), nLast)] ∧
        st.id = s.id ∧ st.data.take pdu.length = pdu ∧
        R.2.mem.frags[fid % ds.mem.maxFragId]? = some none) := by
  have hne : label ≠ .reuse := by
    rcases hl with hl | rfl
    · rintro rfl; cases hl
    · decide
  obtain ⟨s, hsz, hslot⟩ := C16_slot ds sz hI hS top free hs h0 fid
  refine ⟨s, ?_, C02_roundtrip crc mgr es pdu fid pt label buf₀ n₀ ctx₀ ds s label sizes henc hpt
    hpt2 hfid hc32 hI.1 h0 hslot (by omega) (by rw [hes]; exact fun h => by cases h)
    (.inl ⟨hne, rfl, fun hw => by
      have := written_reuse_last hw hne; rw [hes] at this; cases this⟩)⟩
  rcases hslot with ⟨_, hh⟩ | ⟨c0, hocc⟩
  · rw [hs] at hh; cases hh; exact .inl rfl
  · exact .inr ⟨c0, hocc⟩

/-- … and once `remaining / 10 + 2` buffers of 13 bytes or more have been offered the PDU has been
delivered (instance of `C02_delivery`) -/
theorem C16_recover_frag_delivery (crc : CrcFn) (mgr : MgrFn) (ds : Dec) (sz : Nat) (hI : ds.Inv)
    (hS : ds.mem.SzInv sz) (top : Storage) (free : List Storage)
    (hs : ds.mem.storages = top :: free) (h0 : ds.mem.maxFragId ≠ 0)
    (es : Enc) (hes : es.last = none) (pdu : Bytes) (fid pt : Nat) (label : Label) (buf₀ : Bytes)
    (n₀ : Nat) (ctx₀ : FragCtx) (sizes : List Nat)
    (hl : label.isAddr = true ∨ label = .broadcast) (hfid : fid < 256)
    (hpt : SECOND_RANGE_PTYPE ≤ pt) (hpt2 : pt < 65536) (hlen : pdu.length ≤ sz)
    (hc32 : ctx₀.crc < 2 ^ 32)
    (henc : (encap crc es pdu fid pt label buf₀).res = .ok (.fragmented n₀ ctx₀))
    (hcnt : (pdu.length - ctx₀.pos) / 10 + 2 ≤ sizes.countP (fun sz => decide (13 ≤ sz))) :
    ∃ init nLast st, fragLens pdu ctx₀ sizes = init ++ [nLast] ∧
      (rxRun crc mgr ds ((encap crc es pdu fid pt label buf₀).buf.take n₀
          :: (fragPackets pdu ctx₀ sizes).1)).1
        = (n₀ :: init).map (fun n => (.ok (.fragmented ⟨0, pt, label, []⟩), n))
          ++ [(.ok (.completed st ⟨pdu.length, pt, label, []⟩), nLast)] ∧
      st.data.take pdu.length = pdu := by
  have hne : label ≠ .reuse := by
    rcases hl with hl | rfl
    · rintro rfl; cases hl
    · decide
  obtain ⟨s, hsz, hslot⟩ := C16_slot ds sz hI hS top free hs h0 fid
  obtain ⟨init, nLast, st, h1, h2, -, h4⟩ :=
    C02_delivery crc mgr es pdu fid pt label buf₀ n₀ ctx₀ ds s label sizes henc hpt
      hpt2 hfid hc32 hI.1 h0 hslot (by omega) (by rw [hes]; exact fun h => by cases h)
      (.inl ⟨hne, rfl, fun hw => by
        have := written_reuse_last hw hne; rw [hes] at this; cases this⟩) hcnt
  exact ⟨init, nLast, st, h1, h2, h4⟩

/-- … after any history, reset and provision, on any fragment id, with at least one slot -/
theorem C16_recover_frag_history (crc : CrcFn) (mgr : MgrFn) (n sz : Nat) (hn : 1 ≤ n)
    (ops : List DecOp) (s : Storage) (hs : sz ≤ s.data.length)
    (es : Enc) (hes : es.last = none) (pdu : Bytes) (fid pt : Nat) (label : Label) (buf₀ : Bytes)
    (n₀ : Nat) (ctx₀ : FragCtx) (sizes : List Nat)
    (hl : label.isAddr = true ∨ label = .broadcast) (hfid : fid < 256)
    (hpt : SECOND_RANGE_PTYPE ≤ pt) (hpt2 : pt < 65536) (hlen : pdu.length ≤ sz)
    (hc32 : ctx₀.crc < 2 ^ 32)
    (henc : (encap crc es pdu fid pt label buf₀).res = .ok (.fragmented n₀ ctx₀))
    (hcnt : (pdu.length - ctx₀.pos) / 10 + 2 ≤ sizes.countP (fun sz => decide (13 ≤ sz))) :
    ∃ init nLast st, fragLens pdu ctx₀ sizes = init ++ [nLast] ∧
      (rxRun crc mgr (((Dec.new n sz).run crc mgr ops).run crc mgr [.reset, .provision s])
          ((encap crc es pdu fid pt label buf₀).buf.take n₀ :: (fragPackets pdu ctx₀ sizes).1)).1
        = (n₀ :: init).map (fun n => (.ok (.fragmented ⟨0, pt, label, []⟩), n))
          ++ [(.ok (.completed st ⟨pdu.length, pt, label, []⟩), nLast)] ∧
      st.data.take pdu.length = pdu := by
  obtain ⟨-, -, hI', hS', -, hnn, -, -, top, free, hst, -⟩ := C16_state crc mgr n sz ops s hs
  exact C16_recover_frag_delivery crc mgr _ sz hI' hS' top free hst (by rw [hnn]; omega) es hes pdu
    fid pt label buf₀ n₀ ctx₀ sizes hl hfid hpt hpt2 hlen hc32 henc hcnt

/-- after the rough history: an 8-byte PDU fragmented on id 3 (slot 1, which holds the stale
context of id 1) over a 12-byte first buffer, a 9-byte and a 13-byte buffer is reassembled in the
stale context's storage 3; the fresh storage 9 stays free -/
example :
    let e := encap crc0 Enc.new [1, 2, 3, 4, 5, 6, 7, 8] 3 0x0800 labA (List.replicate 12 0)
    e.res = .ok (.fragmented 12 ⟨3, 0xDEADBEEF, 2⟩) ∧
    (rxRun crc0 simpleMgr dsR
      (e.buf.take 12 :: (fragPackets [1, 2, 3, 4, 5, 6, 7, 8] ⟨3, 0xDEADBEEF, 2⟩ [9, 13]).1))
      = ([(.ok (.fragmented ⟨0, 0x0800, labA, []⟩), 12),
          (.ok (.fragmented ⟨0, 0x0800, labA, []⟩), 9),
          (.ok (.completed ⟨3, [1, 2, 3, 4, 5, 6, 7, 8]⟩ ⟨8, 0x0800, labA, []⟩), 7)],
         ⟨{ dsR.mem with frags := [dsR.mem.frags[0]!, none] }, some labA⟩) := by
  decide +kernel
/-- on id 4 (slot 0, stale context of id 2) likewise, and on a decapsulator whose slot is free the
fresh storage is used -/
example :
    let e := encap crc0 Enc.new [1, 2, 3, 4, 5, 6, 7, 8] 4 0x0800 .broadcast (List.replicate 10 0)
    e.res = .ok (.fragmented 10 ⟨4, 0xDEADBEEF, 3⟩) ∧
    (rxRun crc0 simpleMgr dsR
      (e.buf.take 10 :: (fragPackets [1, 2, 3, 4, 5, 6, 7, 8] ⟨4, 0xDEADBEEF, 3⟩ [13]).1)).1
      = [(.ok (.fragmented ⟨0, 0x0800, .broadcast, []⟩), 10),
         (.ok (.completed ⟨2, [1, 2, 3, 4, 5, 6, 7, 8]⟩ ⟨8, 0x0800, .broadcast, []⟩), 12)] ∧
    (rxRun crc0 simpleMgr ((Dec.new 2 8).run crc0 simpleMgr [.reset, .provision (sto 9)])
      (e.buf.take 10 :: (fragPackets [1, 2, 3, 4, 5, 6, 7, 8] ⟨4, 0xDEADBEEF, 3⟩ [13]).1)).1
      = [(.ok (.fragmented ⟨0, 0x0800, .broadcast, []⟩), 10),
         (.ok (.completed ⟨9, [1, 2, 3, 4, 5, 6, 7, 8]⟩ ⟨8, 0x0800, .broadcast, []⟩), 12)] := by
  decide +kernel
example := C16_recover_frag_history crc0 simpleMgr 2 8 (by decide) hist (sto 9) (by decide)
  Enc.new rfl [1, 2, 3, 4, 5, 6, 7, 8] 3 0x0800 labA (List.replicate 12 0) 12 ⟨3, 0xDEADBEEF, 2⟩
  [13, 13] (.inl rfl) (by decide) (by decide) (by decide) (by decide) (by decide)
  (by decide +kernel) (by decide)

end Gse

#print axioms Gse.C16_state
#print axioms Gse.C16_sizes
#print axioms Gse.C16_recover_complete
#print axioms Gse.C16_recover_complete_history
#print axioms Gse.C16_slot
#print axioms Gse.C16_recover_frag
#print axioms Gse.C16_recover_frag_delivery
#print axioms Gse.C16_recover_frag_history
