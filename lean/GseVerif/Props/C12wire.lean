/-
Property C12, wire part — where the CRC-32 of a fragmented PDU comes from and where it goes.

* `C12_wire_ctx`: the fragmentation context returned by `encap` with a first fragment carries
  `crc pdu pt total_length label_bytes`, computed over the whole PDU, the protocol type, the total
  length `|PDU| + 2 + |label as written|` and the bytes of the label as written (none after a re-use
  substitution).
* `C12_wire_trailer`: the last four bytes of an end packet produced by `encap_frag` are that value,
  big-endian.
* `C12_wire_decap`: `decap` on an end packet recomputes the CRC over the reassembled PDU, the
  protocol type and total length of the stored context and the label bytes of the first fragment
  (none if it carried label type re-use), and completes exactly when the lengths add up and the
  value equals the trailer; otherwise `TotalLength` resp. `Crc`.

The CRC calculator is a parameter throughout (that `defaultCrc` is the CRC-32 of the standard is
Props/C12.lean).
-/
import GseVerif.Lemmas.EncapLayer
import GseVerif.Lemmas.DecapLayer

namespace Gse
open Gen

/-! Fixtures for the `example`s: a CRC that depends on all four arguments. -/
namespace C12w
def crc1 : CrcFn := fun pdu pt tl label => (pdu.length * 1000003 + pt * 257 + tl * 16 + label.length) % 2 ^ 32
def lab3 : Label := .three 1 2 3
def pdu9 : Bytes := [10, 11, 12, 13, 14, 15, 16, 17, 18]
def buf12 : Bytes := List.replicate 12 0xEE
def buf40 : Bytes := List.replicate 40 0xEE
def sto (i n : Nat) : Storage := ⟨i, List.replicate n 0xAA⟩
/-- the context of `pdu9` after the first two bytes (3-byte label, not from re-use) -/
def ctx2 : Ctx := ⟨lab3, 0x0800, 7, 14, 2, false, []⟩
/-- receiver holding that context in slot 1 (fragment id 7, 2 slots), buffer starting with 10, 11 -/
def dsMid : Dec :=
  ⟨⟨[sto 2 12], [none, some (ctx2, ⟨1, [10, 11] ++ List.replicate 10 0xAA⟩)], 2, 12, 4⟩, some lab3⟩
end C12w
open C12w

/-! ### 1. The context of a first fragment -/

/-- The context `encap` returns with a first fragment: the CRC of the whole PDU with the protocol
type, the total length and the label bytes *as written*; the fragment id; the number of PDU bytes
already sent. -/
theorem C12_wire_ctx (crc : CrcFn) (es : Enc) (pdu : Bytes) (fid pt : Nat) (label : Label)
    (buf : Bytes) (n : Nat) (ctx : FragCtx)
    (henc : (encap crc es pdu fid pt label buf).res = .ok (.fragmented n ctx)) :
    ctx.crc = crc pdu pt (pdu.length + PROTOCOL_LEN + (checkLabelReUse es label).1.len)
        (checkLabelReUse es label).1.bytes ∧
      ctx.fragId = fid ∧ ctx.pos = firstPayloadLen (checkLabelReUse es label).1.len buf.length ∧
      pdu.length + PROTOCOL_LEN + (checkLabelReUse es label).1.len ≤ TOTAL_LEN_MAX := by
  have hc := encap_cases crc es pdu fid pt label buf
  dsimp only at hc
  rcases hc with ⟨_, ho⟩ | ⟨_, _, ho⟩ | ⟨_, _, _, ho⟩ | ⟨_, _, _, _, ho⟩ |
    ⟨_, _, _, _, _, ho⟩ | ⟨_, _, _, _, ht, _, ho⟩
  all_goals rw [ho] at henc
  all_goals simp only [Res.ok.injEq, reduceCtorEq, EncStatus.fragmented.injEq] at henc
  obtain ⟨-, rfl⟩ := henc
  exact ⟨rfl, rfl, rfl, ht⟩

example : (encap crc1 Enc.new pdu9 7 0x0800 lab3 buf12).res
      = .ok (.fragmented 12 ⟨7, crc1 pdu9 0x0800 14 [1, 2, 3], 2⟩) ∧
    crc1 pdu9 0x0800 14 [1, 2, 3] = 9526590 := by decide +kernel
/-- after a substitution the label bytes are empty and the total length is 6 bytes shorter -/
example : (encap crc1 ⟨true, 0, 0, some (.six 1 2 3 4 5 6)⟩ pdu9 7 0x0800 (.six 1 2 3 4 5 6) buf12).res
      = .ok (.fragmented 12 ⟨7, crc1 pdu9 0x0800 11 [], 5⟩) := by decide +kernel

/-! ### 2. The trailer of an end packet -/

/-- The last four bytes of the end packet written by `encap_frag` are the CRC of the context,
big-endian (`n ≥ 7`, so they do not overlap the header). -/
theorem C12_wire_trailer (pdu : Bytes) (ctx : FragCtx) (buf : Bytes) (n : Nat)
    (henc : (encapFrag pdu ctx buf).1 = .ok (.completed n)) :
    FIXED_HEADER_LEN + FRAG_ID_LEN + CRC_LEN ≤ n ∧
      (((encapFrag pdu ctx buf).2.take n).drop (n - CRC_LEN)) = be32 ctx.crc ∧
      slice (encapFrag pdu ctx buf).2 (n - CRC_LEN) CRC_LEN = some (be32 ctx.crc) := by
  have hc := encapFrag_cases pdu ctx buf
  dsimp only at hc
  rcases hc with ⟨_, ho⟩ | ⟨hpos, hf, ho⟩ | ⟨_, _, _, _, _, ho, _⟩ | ⟨_, _, _, ho⟩
  all_goals rw [ho] at henc ⊢
  all_goals simp only [Res.ok.injEq, reduceCtorEq, EncStatus.completed.injEq] at henc
  subst henc
  have hpl : (pdu.drop ctx.pos).length = pdu.length - ctx.pos := List.length_drop
  generalize pdu.length - ctx.pos = r at *
  have hA : (be16 (genHeader .end_ .reuse (FRAG_ID_LEN + r + CRC_LEN)) ++ [u8 ctx.fragId]
      ++ pdu.drop ctx.pos).length = FIXED_HEADER_LEN + FRAG_ID_LEN + r + CRC_LEN - CRC_LEN := by
    simp only [List.length_append, be16_length, List.length_cons, List.length_nil, hpl,
      FIXED_HEADER_LEN, FRAG_ID_LEN, CRC_LEN]; omega
  have hAB : (be16 (genHeader .end_ .reuse (FRAG_ID_LEN + r + CRC_LEN)) ++ [u8 ctx.fragId]
      ++ pdu.drop ctx.pos ++ be32 ctx.crc).length = FIXED_HEADER_LEN + FRAG_ID_LEN + r + CRC_LEN := by
    rw [List.length_append, hA, be32_length]; gse_omega
  refine ⟨by gse_omega, ?_, ?_⟩
  · rw [List.take_left' hAB, List.drop_left' hA]
  · exact slice_at (a := be16 (genHeader .end_ .reuse (FRAG_ID_LEN + r + CRC_LEN))
        ++ [u8 ctx.fragId] ++ pdu.drop ctx.pos) (s := be32 ctx.crc)
      (c := buf.drop (FIXED_HEADER_LEN + FRAG_ID_LEN + r + CRC_LEN)) rfl hA.symm rfl

example : (encapFrag pdu9 ⟨7, 0x11223344, 2⟩ buf40).1 = .ok (.completed 14) ∧
    ((encapFrag pdu9 ⟨7, 0x11223344, 2⟩ buf40).2.take 14).drop 10 = [0x11, 0x22, 0x33, 0x44] := by
  decide +kernel

/-! ### 3. The check in `decap` -/

section decap
variable (crc : CrcFn) (mgr : MgrFn) (ds : Dec) (fid c : Nat) (payload rest : Bytes)
  (ctx : Ctx) (st : Storage) (m1 : Mem)

/-- **The CRC check of `decap_end`.**  An end packet with trailer `c` arrives, `take_frag` finds
the context `ctx` with its buffer `st` (holding `ctx.pduLen` bytes so far), and the buffer has
room for the payload.  Let `P` be the reassembled PDU.  Then:
* `decap` completes iff the total length of the context equals `|P| + 2 + |first label|` and
  `crc P ctx.pt ctx.totalLen (first label bytes) = c`; the result is then the buffer holding `P`
  with the metadata of the context;
* if the lengths do not add up: `TotalLength` (after the give-back), whatever the CRC;
* if they do but the CRC differs: `Crc` (after the give-back).
The label bytes are those of the context unless the first fragment carried label type re-use. -/
theorem C12_wire_decap (hfid : fid < 256) (hc : c < 2 ^ 32)
    (hlen : FRAG_ID_LEN + payload.length + CRC_LEN ≤ GSE_LEN_MAX)
    (htk : ds.mem.takeFrag fid = (.ok (ctx, st), m1))
    (hcap : ctx.pduLen + payload.length ≤ st.data.length) :
    ((∃ x, (decap crc mgr ds (endPkt fid payload c ++ rest)).res = .ok x) ↔
      (ctx.totalLen = ctx.pduLen + payload.length + PROTOCOL_LEN
          + (if ctx.fromReuse then 0 else ctx.label.type.len) ∧
        crc (st.data.take ctx.pduLen ++ payload) ctx.pt ctx.totalLen
          (if ctx.fromReuse then [] else ctx.label.bytes) = c)) ∧
    ((ctx.totalLen = ctx.pduLen + payload.length + PROTOCOL_LEN
          + (if ctx.fromReuse then 0 else ctx.label.type.len) ∧
        crc (st.data.take ctx.pduLen ++ payload) ctx.pt ctx.totalLen
          (if ctx.fromReuse then [] else ctx.label.bytes) = c) →
      decap crc mgr ds (endPkt fid payload c ++ rest) =
        ⟨.ok (.completed
            ⟨st.id, st.data.take ctx.pduLen ++ payload ++ st.data.drop (ctx.pduLen + payload.length)⟩
            ⟨ctx.pduLen + payload.length, ctx.pt, ctx.label, ctx.exts⟩),
          (endPkt fid payload c).length, ⟨m1, ds.last⟩⟩) ∧
    (ctx.totalLen ≠ ctx.pduLen + payload.length + PROTOCOL_LEN
          + (if ctx.fromReuse then 0 else ctx.label.type.len) →
      decap crc mgr ds (endPkt fid payload c ++ rest) =
        giveBack m1 ds.last
          ⟨st.id, st.data.take ctx.pduLen ++ payload ++ st.data.drop (ctx.pduLen + payload.length)⟩
          .totalLength (endPkt fid payload c).length) ∧
    (ctx.totalLen = ctx.pduLen + payload.length + PROTOCOL_LEN
          + (if ctx.fromReuse then 0 else ctx.label.type.len) →
      crc (st.data.take ctx.pduLen ++ payload) ctx.pt ctx.totalLen
          (if ctx.fromReuse then [] else ctx.label.bytes) ≠ c →
      decap crc mgr ds (endPkt fid payload c ++ rest) =
        giveBack m1 ds.last
          ⟨st.id, st.data.take ctx.pduLen ++ payload ++ st.data.drop (ctx.pduLen + payload.length)⟩
          .crc (endPkt fid payload c).length) := by
  have hok := fun ht hcrc => decap_end_pkt crc mgr ds rest hfid hc hlen htk hcap ht hcrc
  have hbadT := fun ht => decap_end_pkt_totalLength crc mgr ds rest hfid hc hlen htk hcap ht
  have hbadC := fun ht hcrc => decap_end_pkt_crc crc mgr ds rest hfid hc hlen htk hcap ht hcrc
  refine ⟨⟨?_, fun h => ⟨_, by rw [hok h.1 h.2]⟩⟩, fun h => hok h.1 h.2, hbadT, hbadC⟩
  rintro ⟨x, hx⟩
  by_cases ht : ctx.totalLen = ctx.pduLen + payload.length + PROTOCOL_LEN
      + (if ctx.fromReuse then 0 else ctx.label.type.len)
  · by_cases hcrc : crc (st.data.take ctx.pduLen ++ payload) ctx.pt ctx.totalLen
        (if ctx.fromReuse then [] else ctx.label.bytes) = c
    · exact ⟨ht, hcrc⟩
    · rw [hbadC ht hcrc] at hx
      exact absurd hx (giveBack_res_ne_ok _ _ _ _ _ _)
  · rw [hbadT ht] at hx
    exact absurd hx (giveBack_res_ne_ok _ _ _ _ _ _)

/-- Under the memory invariant (the free list of `m1` is below its capacity and the buffer is
at least as long as the configured PDU size) the two failures are reported as such, the packet is
consumed, and the buffer — now holding the reassembled bytes — is back on the free list. -/
theorem C12_wire_decap_err (hfid : fid < 256) (hc : c < 2 ^ 32)
    (hlen : FRAG_ID_LEN + payload.length + CRC_LEN ≤ GSE_LEN_MAX)
    (htk : ds.mem.takeFrag fid = (.ok (ctx, st), m1))
    (hcap : ctx.pduLen + payload.length ≤ st.data.length)
    (hfree : m1.storages.length ≠ m1.cap) (hsz : m1.maxPduSize ≤ st.data.length) :
    (ctx.totalLen ≠ ctx.pduLen + payload.length + PROTOCOL_LEN
          + (if ctx.fromReuse then 0 else ctx.label.type.len) →
      decap crc mgr ds (endPkt fid payload c ++ rest) =
        ⟨.err .totalLength, (endPkt fid payload c).length,
         ⟨{ m1 with storages := ⟨st.id, st.data.take ctx.pduLen ++ payload
              ++ st.data.drop (ctx.pduLen + payload.length)⟩ :: m1.storages }, ds.last⟩⟩) ∧
    (ctx.totalLen = ctx.pduLen + payload.length + PROTOCOL_LEN
          + (if ctx.fromReuse then 0 else ctx.label.type.len) →
      crc (st.data.take ctx.pduLen ++ payload) ctx.pt ctx.totalLen
          (if ctx.fromReuse then [] else ctx.label.bytes) ≠ c →
      decap crc mgr ds (endPkt fid payload c ++ rest) =
        ⟨.err .crc, (endPkt fid payload c).length,
         ⟨{ m1 with storages := ⟨st.id, st.data.take ctx.pduLen ++ payload
              ++ st.data.drop (ctx.pduLen + payload.length)⟩ :: m1.storages }, ds.last⟩⟩) := by
  have h := C12_wire_decap crc mgr ds fid c payload rest ctx st m1 hfid hc hlen htk hcap
  have hsz' : m1.maxPduSize ≤ (st.data.take ctx.pduLen ++ payload
      ++ st.data.drop (ctx.pduLen + payload.length)).length := by
    simp only [List.length_append, List.length_take, List.length_drop]; omega
  constructor
  · intro ht; rw [h.2.2.1 ht, giveBack_ok hfree hsz']
  · intro ht hcrc; rw [h.2.2.2 ht hcrc, giveBack_ok hfree hsz']

end decap

/-- the end packet of `pdu9` (payload 12..18) with the right trailer completes … -/
example : dsMid.mem.takeFrag 7 = (.ok (ctx2, ⟨1, [10, 11] ++ List.replicate 10 0xAA⟩),
      { dsMid.mem with frags := [none, none] }) ∧
    decap crc1 simpleMgr dsMid (endPkt 7 [12, 13, 14, 15, 16, 17, 18] (crc1 pdu9 0x0800 14 [1, 2, 3])) =
      ⟨.ok (.completed ⟨1, pdu9 ++ [0xAA, 0xAA, 0xAA]⟩ ⟨9, 0x0800, lab3, []⟩), 14,
       ⟨{ dsMid.mem with frags := [none, none] }, some lab3⟩⟩ := by decide +kernel
/-- … with a trailer that is off by one: `Crc`; with a payload one byte short: `TotalLength` -/
example :
    (decap crc1 simpleMgr dsMid (endPkt 7 [12, 13, 14, 15, 16, 17, 18] (crc1 pdu9 0x0800 14 [1, 2, 3] + 1))).res
      = .err .crc ∧
    (decap crc1 simpleMgr dsMid (endPkt 7 [12, 13, 14, 15, 16, 17] (crc1 pdu9 0x0800 14 [1, 2, 3]))).res
      = .err .totalLength := by decide +kernel
/-- the hypotheses of `C12_wire_decap` / `C12_wire_decap_err` on that instance -/
example := C12_wire_decap_err crc1 simpleMgr dsMid 7 (crc1 pdu9 0x0800 14 [1, 2, 3] + 1)
  [12, 13, 14, 15, 16, 17, 18] [] ctx2 ⟨1, [10, 11] ++ List.replicate 10 0xAA⟩
  { dsMid.mem with frags := [none, none] } (by decide) (by decide) (by decide) (by decide +kernel)
  (by decide) (by decide) (by decide)

end Gse

#print axioms Gse.C12_wire_ctx
#print axioms Gse.C12_wire_trailer
#print axioms Gse.C12_wire_decap
#print axioms Gse.C12_wire_decap_err
